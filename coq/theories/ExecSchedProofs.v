(* ExecSchedProofs.v — lemmas about the execution scheduling model ExecSched.v (C31). *)
From Coq Require Import List NArith Bool Lia Sorted.
From Coq Require Import ZifyBool ZifyNat ZifyN.
From Agdb Require Import ExecSched.
Import ListNotations.
Import ExecM.
Open Scope N_scope.

Notation cnt i l := (count_occ N.eq_dec l i).

(* ------------------------------------------------------------------ counting *)

Lemma cnt_app : forall i (a b : list N), cnt i (a ++ b) = (cnt i a + cnt i b)%nat.
Proof. intros. apply count_occ_app. Qed.

Lemma cnt_single : forall i j, cnt i [j] = if N.eqb i j then 1%nat else 0%nat.
Proof.
  intros i j. cbn [count_occ]. destruct (N.eq_dec j i) as [->|Hne].
  - now rewrite N.eqb_refl.
  - destruct (N.eqb_spec i j); congruence.
Qed.

Lemma memN_cnt : forall i l, memN i l = true <-> (1 <= cnt i l)%nat.
Proof.
  intros i l. unfold memN. rewrite existsb_exists. split.
  - intros [x [Hin Hx]]. apply N.eqb_eq in Hx. subst x.
    apply (count_occ_In N.eq_dec) in Hin. lia.
  - intros H. exists i. split; [|apply N.eqb_refl].
    apply (count_occ_In N.eq_dec). lia.
Qed.

Lemma memN_false_cnt : forall i l, memN i l = false <-> cnt i l = 0%nat.
Proof.
  intros i l. destruct (memN i l) eqn:E.
  - apply memN_cnt in E. split; [discriminate|lia].
  - split; [|reflexivity]. intros _.
    destruct (cnt i l) eqn:C; [reflexivity|].
    assert (H : memN i l = true) by (apply memN_cnt; lia). congruence.
Qed.

Lemma memN_In : forall i l, memN i l = true <-> In i l.
Proof.
  intros. rewrite memN_cnt. rewrite (count_occ_In N.eq_dec). lia.
Qed.

Lemma cnt_remove1_same : forall i l, memN i l = true -> cnt i (remove1 i l) = (cnt i l - 1)%nat.
Proof.
  intros i l. induction l as [|j r IH]; cbn [remove1 memN existsb count_occ]; [discriminate|].
  intros H. destruct (N.eqb_spec i j) as [->|Hne].
  - destruct (N.eq_dec j j); [lia|congruence].
  - cbn [orb] in H. cbn [count_occ]. destruct (N.eq_dec j i); [congruence|]. now apply IH.
Qed.

Lemma cnt_remove1_other : forall i j l, i <> j -> cnt j (remove1 i l) = cnt j l.
Proof.
  intros i j l Hne. induction l as [|x r IH]; cbn [remove1 count_occ]; [reflexivity|].
  destruct (N.eqb_spec i x) as [->|Hx].
  - destruct (N.eq_dec x j); [congruence|reflexivity].
  - cbn [count_occ]. destruct (N.eq_dec x j); now rewrite IH.
Qed.

Lemma cnt_filter : forall (f : N -> bool) i l,
  cnt i (filter f l) = if f i then cnt i l else 0%nat.
Proof.
  intros f i l. induction l as [|x r IH]; cbn [filter count_occ].
  - now destruct (f i).
  - destruct (f x) eqn:Fx; cbn [count_occ]; destruct (N.eq_dec x i) as [->|Hne].
    + rewrite Fx in *. now rewrite IH.
    + exact IH.
    + rewrite Fx in *. exact IH.
    + exact IH.
Qed.

Lemma NoDup_cnt : forall l, NoDup l <-> forall i, (cnt i l <= 1)%nat.
Proof. intros. apply (NoDup_count_occ N.eq_dec). Qed.

Lemma runnable_mem : forall d s i, runnable d s i = true -> memN i (tasks s) = true.
Proof.
  intros d s i. unfold runnable. destruct d; [auto|].
  destruct (tasks s) as [|j r]; [discriminate|]. destruct (pending s); [|discriminate].
  intros H. cbn [memN existsb]. now rewrite H.
Qed.

(* ------------------------------------------------------------------ the counting invariant *)

Record K (lg : log) (B : N -> nat) (s : state) : Prop := {
  K_part : forall i, cnt i (committed s) = (cnt i (tasks s) + cnt i (pending s) + cnt i (executed s))%nat;
  K_log : forall i, (cnt i (committed s) <= cnt i (indices lg))%nat;
  K_budget : forall i, (cnt i (trace s) + cnt i (tasks s) <= B i)%nat;
  K_zero : forall i, cnt i (committed s) = 0%nat -> cnt i (trace s) = 0%nat;
  K_pos : forall i, (1 <= B i)%nat }.

Lemma K_init : forall lg, K lg (fun _ => 1%nat) init.
Proof. intros lg. constructor; intros i; cbn; lia. Qed.

Lemma K_weaken : forall lg (B B' : N -> nat) s,
  (forall i, (B i <= B' i)%nat) -> K lg B s -> K lg B' s.
Proof.
  intros lg B B' s Hle [H1 H2 H3 H4 H5]. constructor; auto.
  - intros i. specialize (H3 i). specialize (Hle i). lia.
  - intros i. specialize (H5 i). specialize (Hle i). lia.
Qed.

Lemma K_step : forall d lg B s e,
  NoDup (indices lg) -> K lg B s ->
  K lg (fun i => (B i + if is_restart e then cnt i (pending s) else 0)%nat) (step d lg s e).
Proof.
  intros d lg B s e Hnd [Hpart Hlog Hbud Hzero Hpos].
  pose proof (proj1 (NoDup_cnt _) Hnd) as Hone.
  destruct e as [idx|i0|i0|]; cbn [step is_restart].
  - (* Commit *)
    assert (Hnew : forall i, (cnt i (uncommitted lg s idx) <= 1)%nat /\
                             (1 <= cnt i (uncommitted lg s idx) -> cnt i (committed s) = 0)%nat /\
                             (cnt i (uncommitted lg s idx) + cnt i (committed s) <= cnt i (indices lg))%nat).
    { intros i. unfold uncommitted. rewrite cnt_filter.
      specialize (Hone i). specialize (Hlog i).
      destruct (i <=? idx); cbn [andb]; [|lia].
      destruct (memN i (committed s)) eqn:M; cbn [negb]; [lia|].
      apply memN_false_cnt in M. lia. }
    constructor; intros i; cbn [committed tasks pending trace executed]; rewrite ?cnt_app;
      specialize (Hnew i); specialize (Hpart i); specialize (Hlog i); specialize (Hbud i);
      specialize (Hzero i); specialize (Hpos i); try lia.
  - (* RunTask *)
    destruct (runnable d s i0) eqn:R.
    + apply runnable_mem in R. pose proof (proj1 (memN_cnt _ _) R) as R1.
      constructor; intros i; cbn [committed tasks pending trace executed]; rewrite ?cnt_app, ?cnt_single;
        specialize (Hpart i); specialize (Hlog i); specialize (Hbud i); specialize (Hzero i); specialize (Hpos i);
        try lia.
      * destruct (N.eqb_spec i i0) as [->|Hne].
        -- rewrite cnt_remove1_same by exact R. lia.
        -- rewrite cnt_remove1_other by congruence. lia.
      * destruct (N.eqb_spec i i0) as [->|Hne].
        -- rewrite cnt_remove1_same by exact R. lia.
        -- rewrite cnt_remove1_other by congruence. lia.
      * destruct (N.eqb_spec i i0) as [->|Hne]; lia.
    + constructor; intros i; specialize (Hbud i); specialize (Hpos i); auto; lia.
  - (* MarkExecuted *)
    destruct (memN i0 (pending s)) eqn:M.
    + pose proof (proj1 (memN_cnt _ _) M) as M1.
      constructor; intros i; cbn [committed tasks pending trace executed]; rewrite ?cnt_app, ?cnt_single;
        specialize (Hpart i); specialize (Hlog i); specialize (Hbud i); specialize (Hzero i); specialize (Hpos i);
        try lia.
      destruct (N.eqb_spec i i0) as [->|Hne].
      * rewrite cnt_remove1_same by exact M. lia.
      * rewrite cnt_remove1_other by congruence. lia.
    + constructor; intros i; specialize (Hbud i); specialize (Hpos i); auto; lia.
  - (* Restart *)
    assert (Hun : forall i, cnt i (unexecuted lg s) = (cnt i (tasks s) + cnt i (pending s))%nat).
    { intros i. unfold unexecuted. rewrite cnt_filter.
      specialize (Hone i). specialize (Hlog i). specialize (Hpart i).
      destruct (memN i (committed s)) eqn:MC; cbn [andb].
      - apply memN_cnt in MC.
        destruct (memN i (executed s)) eqn:ME; cbn [negb].
        + apply memN_cnt in ME. lia.
        + apply memN_false_cnt in ME. lia.
      - apply memN_false_cnt in MC. lia. }
    constructor; intros i; cbn [committed tasks pending trace executed count_occ]; rewrite ?Hun;
      specialize (Hpart i); specialize (Hlog i); specialize (Hbud i); specialize (Hzero i); specialize (Hpos i);
      try lia.
Qed.

Lemma K_run_from : forall d lg evs B s,
  NoDup (indices lg) -> K lg B s ->
  K lg (fun i => (B i + reexec_budget d lg s evs i)%nat) (run_from d lg s evs).
Proof.
  intros d lg evs. induction evs as [|e evs IH]; intros B s Hnd HK; cbn [run_from fold_left reexec_budget].
  - eapply K_weaken; [|exact HK]. intros i. cbn. lia.
  - pose proof (K_step d lg B s e Hnd HK) as HK1.
    specialize (IH _ _ Hnd HK1). unfold run_from in IH.
    eapply K_weaken; [|exact IH]. intros i. cbn beta. lia.
Qed.

Lemma K_pending_le1 : forall lg B s, NoDup (indices lg) -> K lg B s ->
  forall i, (cnt i (pending s) <= 1)%nat.
Proof.
  intros lg B s Hnd [Hpart Hlog _ _ _] i.
  pose proof (proj1 (NoDup_cnt _) Hnd i). specialize (Hpart i). specialize (Hlog i). lia.
Qed.

Lemma reexec_budget_le_restarts : forall d lg evs B s i,
  NoDup (indices lg) -> K lg B s ->
  (reexec_budget d lg s evs i <= restarts evs)%nat.
Proof.
  intros d lg evs. induction evs as [|e evs IH]; intros B s i Hnd HK; cbn [reexec_budget]; [lia|].
  pose proof (K_step d lg B s e Hnd HK) as HK1.
  specialize (IH _ _ i Hnd HK1).
  pose proof (K_pending_le1 lg B s Hnd HK i) as Hp.
  unfold restarts in *. cbn [filter]. destruct (is_restart e); cbn [length]; lia.
Qed.

Lemma restarts_no_restart : forall evs, no_restart evs = true -> restarts evs = 0%nat.
Proof.
  induction evs as [|e evs IH]; [reflexivity|].
  unfold no_restart, restarts in *. cbn [forallb filter]. intros H.
  apply andb_prop in H as [H1 H2]. destruct (is_restart e); [discriminate|]. now apply IH.
Qed.

(* each index is executed at most 1 + (number of restarts at which it was pending) times *)
Lemma once_budget : forall d lg evs i,
  NoDup (indices lg) ->
  (cnt i (trace (run d lg evs)) <= 1 + reexec_budget d lg init evs i)%nat.
Proof.
  intros d lg evs i Hnd.
  pose proof (K_run_from d lg evs _ init Hnd (K_init lg)) as HK.
  pose proof (K_budget _ _ _ HK i) as Hb. cbn beta in Hb. unfold run. lia.
Qed.

Lemma once_restarts : forall d lg evs i,
  NoDup (indices lg) ->
  (cnt i (trace (run d lg evs)) <= 1 + restarts evs)%nat.
Proof.
  intros d lg evs i Hnd. pose proof (once_budget d lg evs i Hnd).
  pose proof (reexec_budget_le_restarts d lg evs _ init i Hnd (K_init lg)). lia.
Qed.

Lemma once_no_restart : forall d lg evs,
  NoDup (indices lg) -> no_restart evs = true -> NoDup (trace (run d lg evs)).
Proof.
  intros d lg evs Hnd Hnr. apply NoDup_cnt. intros i.
  pose proof (once_restarts d lg evs i Hnd). rewrite (restarts_no_restart _ Hnr) in H. lia.
Qed.

(* only committed entries are executed *)
Lemma executed_are_committed : forall d lg evs i,
  NoDup (indices lg) -> In i (trace (run d lg evs)) ->
  In i (committed (run d lg evs)) /\ In i (indices lg).
Proof.
  intros d lg evs i Hnd Hin.
  pose proof (K_run_from d lg evs _ init Hnd (K_init lg)) as HK. fold (run d lg evs) in HK.
  apply (count_occ_In N.eq_dec) in Hin.
  pose proof (K_zero _ _ _ HK i). pose proof (K_log _ _ _ HK i).
  split; apply (count_occ_In N.eq_dec); lia.
Qed.

(* an entry marked executed is never executed again, whatever happens later (restarts included) *)
Lemma run_app : forall d lg evs1 evs2,
  run d lg (evs1 ++ evs2) = run_from d lg (run d lg evs1) evs2.
Proof. intros. unfold run, run_from. apply fold_left_app. Qed.

Lemma marked_never_again_from : forall d lg evs B s i,
  NoDup (indices lg) -> K lg B s -> In i (executed s) ->
  cnt i (trace (run_from d lg s evs)) = cnt i (trace s).
Proof.
  intros d lg evs. induction evs as [|e evs IH]; intros B s i Hnd HK Hin; [reflexivity|].
  cbn [run_from fold_left]. pose proof (K_step d lg B s e Hnd HK) as HK1.
  assert (Hex : In i (executed (step d lg s e))).
  { destruct e as [idx|i0|i0|]; cbn [step]; auto.
    - destruct (runnable d s i0); auto.
    - destruct (memN i0 (pending s)); cbn [executed]; auto. apply in_or_app. now left. }
  specialize (IH _ _ i Hnd HK1 Hex). unfold run_from in IH. rewrite IH.
  apply (count_occ_In N.eq_dec) in Hin.
  pose proof (K_part _ _ _ HK i) as Hp. pose proof (K_log _ _ _ HK i) as Hl.
  pose proof (proj1 (NoDup_cnt _) Hnd i) as Ho.
  destruct e as [idx|i0|i0|]; cbn [step]; auto.
  - destruct (runnable d s i0) eqn:R; auto. cbn [trace]. rewrite cnt_app, cnt_single.
    destruct (N.eqb_spec i i0) as [->|Hne]; [|lia].
    apply runnable_mem, memN_cnt in R. lia.
  - destruct (memN i0 (pending s)); auto.
Qed.

Lemma marked_never_again : forall d lg evs1 evs2 i,
  NoDup (indices lg) -> In i (executed (run d lg evs1)) ->
  cnt i (trace (run d lg (evs1 ++ evs2))) = cnt i (trace (run d lg evs1)).
Proof.
  intros d lg evs1 evs2 i Hnd Hin. rewrite run_app.
  pose proof (K_run_from d lg evs1 _ init Hnd (K_init lg)) as HK.
  eapply marked_never_again_from; eauto.
Qed.

(* with the single worker at most one entry is pending at any time: a crash re-executes at most one entry *)
Lemma fifo_pending_le1_step : forall lg s e,
  (length (pending s) <= 1)%nat -> (length (pending (step FifoWorker lg s e)) <= 1)%nat.
Proof.
  intros lg s e H. destruct e as [idx|i0|i0|]; cbn [step].
  - exact H.
  - unfold runnable. destruct (tasks s) as [|j r]; [exact H|]. destruct (pending s) as [|p ps] eqn:P.
    + destruct (N.eqb i0 j); cbn [pending]; rewrite ?P; cbn; lia.
    + rewrite P. exact H.
  - destruct (memN i0 (pending s)) eqn:M; [|exact H]. cbn [pending].
    destruct (pending s) as [|a [|b r]]; cbn in *; try lia. destruct (N.eqb i0 a); cbn; lia.
  - cbn. lia.
Qed.

Lemma fifo_pending_le1 : forall lg evs, (length (pending (run FifoWorker lg evs)) <= 1)%nat.
Proof.
  intros lg evs. unfold run, run_from.
  assert (G : forall s, (length (pending s) <= 1)%nat ->
                        (length (pending (fold_left (step FifoWorker lg) evs s)) <= 1)%nat).
  { induction evs as [|e evs IH]; intros s H; cbn [fold_left]; auto.
    apply IH. now apply fifo_pending_le1_step. }
  apply G. cbn. lia.
Qed.

(* ------------------------------------------------------------------ sorted lists *)

Definition prefix (p l : list N) : Prop := exists r, l = p ++ r.

Lemma sorted_app_inv : forall (a b : list N),
  StronglySorted N.lt (a ++ b) ->
  StronglySorted N.lt a /\ StronglySorted N.lt b /\ (forall x y, In x a -> In y b -> x < y).
Proof.
  induction a as [|x a IH]; intros b H; cbn [app] in *.
  - repeat split; [constructor|exact H|intros ? ? []].
  - apply StronglySorted_inv in H as [Hs Hall]. destruct (IH _ Hs) as [Ha [Hb Hab]].
    rewrite Forall_app in Hall. destruct Hall as [Hxa Hxb].
    repeat split; [constructor; auto|exact Hb|].
    intros u v [->|Hu] Hv; [|auto]. rewrite Forall_forall in Hxb. auto.
Qed.

Lemma sorted_NoDup : forall l, StronglySorted N.lt l -> NoDup l.
Proof.
  induction l as [|x l IH]; intros H; [constructor|].
  apply StronglySorted_inv in H as [Hs Hall]. constructor; [|auto].
  intros Hin. rewrite Forall_forall in Hall. specialize (Hall _ Hin). lia.
Qed.

Lemma filter_none : forall (f : N -> bool) l, (forall x, In x l -> f x = false) -> filter f l = [].
Proof.
  intros f l. induction l as [|x l IH]; intros H; cbn [filter]; [reflexivity|].
  rewrite (H x (or_introl eq_refl)). apply IH. intros y Hy. apply H. now right.
Qed.

Lemma sorted_filter_le_prefix : forall idx l,
  StronglySorted N.lt l -> prefix (filter (fun i => i <=? idx) l) l.
Proof.
  intros idx l. induction l as [|x l IH]; intros H; cbn [filter].
  - exists []. reflexivity.
  - apply StronglySorted_inv in H as [Hs Hall]. destruct (N.leb_spec x idx) as [Hle|Hgt].
    + destruct (IH Hs) as [r Hr]. exists r. cbn [app]. now rewrite <- Hr.
    + rewrite filter_none.
      * exists (x :: l). reflexivity.
      * intros y Hy. rewrite Forall_forall in Hall. specialize (Hall _ Hy).
        apply N.leb_gt. lia.
Qed.

Lemma prefix_comparable : forall (a b l : list N), prefix a l -> prefix b l -> prefix a b \/ prefix b a.
Proof.
  induction a as [|x a IH]; intros b l [ra Ha] [rb Hb].
  - left. exists b. reflexivity.
  - destruct b as [|y b].
    + right. exists (x :: a). reflexivity.
    + subst l. cbn [app] in Hb. injection Hb as Hxy Hrest. subst y.
      destruct (IH b (a ++ ra)) as [[r Hr]|[r Hr]].
      * exists ra. reflexivity.
      * exists rb. exact Hrest.
      * left. exists r. cbn [app]. now rewrite Hr.
      * right. exists r. cbn [app]. now rewrite Hr.
Qed.

(* ------------------------------------------------------------------ the order invariant *)

Record O (lg : log) (s : state) : Prop := {
  O_split : committed s = trace s ++ tasks s;
  O_prefix : prefix (committed s) (indices lg) }.

Lemma O_init : forall lg, O lg init.
Proof. intros lg. constructor; cbn; [reflexivity|]. exists (indices lg). reflexivity. Qed.

Lemma uncommitted_prefix : forall lg s idx rest,
  StronglySorted N.lt (indices lg) -> indices lg = committed s ++ rest ->
  prefix (uncommitted lg s idx) rest.
Proof.
  intros lg s idx rest Hs Heq. unfold uncommitted. rewrite Heq in *.
  destruct (sorted_app_inv _ _ Hs) as [_ [Hr Hlt]].
  rewrite filter_app. rewrite filter_none.
  - cbn [app].
    rewrite (filter_ext_in (fun i => (i <=? idx) && negb (memN i (committed s))) (fun i => i <=? idx)).
    + now apply sorted_filter_le_prefix.
    + intros y Hy. destruct (memN y (committed s)) eqn:M.
      * apply memN_In in M. specialize (Hlt _ _ M Hy). lia.
      * cbn [negb]. now rewrite andb_true_r.
  - intros x Hx. apply memN_In in Hx. rewrite Hx. cbn [negb]. now rewrite andb_false_r.
Qed.

(* an event preserves the order invariant as soon as a run step takes the HEAD of the started entries *)
Lemma O_step : forall d lg s e,
  StronglySorted N.lt (indices lg) -> O lg s -> is_restart e = false ->
  (forall i, e = RunTask i -> runnable d s i = true -> exists r, tasks s = i :: r) ->
  O lg (step d lg s e).
Proof.
  intros d lg s e Hs [Hsplit [rest Hpre]] Hnr Hhead.
  destruct e as [idx|i0|i0|]; cbn [step]; try discriminate.
  - destruct (uncommitted_prefix lg s idx rest Hs Hpre) as [r Hr].
    constructor; cbn [committed trace tasks].
    + rewrite Hsplit. now rewrite app_assoc.
    + exists r. rewrite Hpre, Hr. now rewrite app_assoc.
  - destruct (runnable d s i0) eqn:R; [|constructor; [exact Hsplit|exists rest; exact Hpre]].
    destruct (Hhead i0 eq_refl R) as [r Hr].
    constructor; cbn [committed trace tasks].
    + rewrite Hsplit, Hr. cbn [remove1]. rewrite N.eqb_refl. now rewrite <- app_assoc.
    + exists rest. exact Hpre.
  - destruct (memN i0 (pending s)); (constructor; [exact Hsplit|exists rest; exact Hpre]).
Qed.

Lemma fifo_runs_head : forall s i, runnable FifoWorker s i = true -> exists r, tasks s = i :: r.
Proof.
  intros s i. unfold runnable. destruct (tasks s) as [|j r]; [discriminate|].
  destruct (pending s); [|discriminate]. intros H. apply N.eqb_eq in H. subst j. now exists r.
Qed.

Lemma O_run_fifo : forall lg evs s,
  StronglySorted N.lt (indices lg) -> O lg s -> no_restart evs = true ->
  O lg (run_from FifoWorker lg s evs).
Proof.
  intros lg evs. induction evs as [|e evs IH]; intros s Hs HO Hnr; [exact HO|].
  unfold no_restart in Hnr. cbn [forallb] in Hnr. apply andb_prop in Hnr as [H1 H2].
  cbn [run_from fold_left]. apply IH; auto.
  apply O_step; auto.
  - now destruct (is_restart e).
  - intros i _ R. now apply fifo_runs_head.
Qed.

Lemma O_conclusion : forall lg s,
  StronglySorted N.lt (indices lg) -> O lg s ->
  prefix (trace s) (indices lg) /\ StronglySorted N.lt (trace s) /\ NoDup (trace s) /\
  committed s = trace s ++ tasks s.
Proof.
  intros lg s Hs [Hsplit [rest Hpre]].
  assert (Hp : indices lg = trace s ++ (tasks s ++ rest)).
  { rewrite Hpre, Hsplit. now rewrite <- app_assoc. }
  rewrite Hp in Hs. destruct (sorted_app_inv _ _ Hs) as [Ht _].
  repeat split; auto.
  - now exists (tasks s ++ rest).
  - now apply sorted_NoDup.
Qed.

Lemma fifo_order : forall lg evs,
  StronglySorted N.lt (indices lg) -> no_restart evs = true ->
  let s := run FifoWorker lg evs in
  prefix (trace s) (indices lg) /\ StronglySorted N.lt (trace s) /\ NoDup (trace s) /\
  committed s = trace s ++ tasks s.
Proof.
  intros lg evs Hs Hnr. cbn zeta. apply O_conclusion; auto.
  apply O_run_fifo; auto. apply O_init.
Qed.

(* SpawnPerEntry under the pacing discipline *)
Lemma O_run_paced : forall lg evs s,
  StronglySorted N.lt (indices lg) -> O lg s -> (length (tasks s) <= 1)%nat ->
  no_restart evs = true -> paced lg s evs ->
  O lg (run_from SpawnPerEntry lg s evs).
Proof.
  intros lg evs. induction evs as [|e evs IH]; intros s Hs HO Hlen Hnr Hp; [exact HO|].
  unfold no_restart in Hnr. cbn [forallb] in Hnr. apply andb_prop in Hnr as [H1 H2].
  cbn [paced] in Hp. destruct Hp as [Hp1 Hp2].
  cbn [run_from fold_left]. apply IH; auto.
  - apply O_step; auto.
    + now destruct (is_restart e).
    + intros i _ R. cbn [runnable] in R. apply memN_In in R.
      destruct (tasks s) as [|j [|k r]].
      * destruct R.
      * destruct R as [->|[]]. now exists [].
      * cbn in Hlen. lia.
  - destruct e as [idx|i0|i0|]; cbn [step]; try discriminate.
    + destruct Hp1 as [Ht Hl]. cbn [tasks]. rewrite Ht. exact Hl.
    + destruct (runnable SpawnPerEntry s i0); auto. cbn [tasks].
      destruct (tasks s) as [|j [|k r]]; cbn in *; try lia. destruct (N.eqb i0 j); cbn; lia.
    + destruct (memN i0 (pending s)); auto.
Qed.

Lemma spawn_paced_order : forall lg evs,
  StronglySorted N.lt (indices lg) -> no_restart evs = true -> paced lg init evs ->
  let s := run SpawnPerEntry lg evs in
  prefix (trace s) (indices lg) /\ StronglySorted N.lt (trace s) /\ NoDup (trace s) /\
  committed s = trace s ++ tasks s.
Proof.
  intros lg evs Hs Hnr Hp. cbn zeta. apply O_conclusion; auto.
  apply O_run_paced; auto using O_init.
Qed.

(* two nodes: prefix-comparable traces, equal states once both have executed the same commits *)
Lemma fifo_traces_comparable : forall lg evs1 evs2,
  StronglySorted N.lt (indices lg) -> no_restart evs1 = true -> no_restart evs2 = true ->
  prefix (trace (run FifoWorker lg evs1)) (trace (run FifoWorker lg evs2)) \/
  prefix (trace (run FifoWorker lg evs2)) (trace (run FifoWorker lg evs1)).
Proof.
  intros lg evs1 evs2 Hs H1 H2.
  destruct (fifo_order lg evs1 Hs H1) as [P1 _]. destruct (fifo_order lg evs2 Hs H2) as [P2 _].
  eapply prefix_comparable; eauto.
Qed.

Lemma fifo_same_state : forall (S : Type) (apply : S -> N -> S) (s0 : S) lg evs1 evs2,
  StronglySorted N.lt (indices lg) -> no_restart evs1 = true -> no_restart evs2 = true ->
  committed (run FifoWorker lg evs1) = committed (run FifoWorker lg evs2) ->
  tasks (run FifoWorker lg evs1) = [] -> tasks (run FifoWorker lg evs2) = [] ->
  trace (run FifoWorker lg evs1) = trace (run FifoWorker lg evs2) /\
  db_state apply s0 lg (trace (run FifoWorker lg evs1)) = db_state apply s0 lg (trace (run FifoWorker lg evs2)).
Proof.
  intros S apply s0 lg evs1 evs2 Hs H1 H2 Hc T1 T2.
  destruct (fifo_order lg evs1 Hs H1) as [_ [_ [_ E1]]]. destruct (fifo_order lg evs2 Hs H2) as [_ [_ [_ E2]]].
  rewrite T1, app_nil_r in E1. rewrite T2, app_nil_r in E2.
  assert (E : trace (run FifoWorker lg evs1) = trace (run FifoWorker lg evs2)) by congruence.
  split; [exact E|now rewrite E].
Qed.

(* ------------------------------------------------------------------ exactly one crash *)

Lemma reexec_budget_app : forall d lg evs1 evs2 s i,
  reexec_budget d lg s (evs1 ++ evs2) i =
  (reexec_budget d lg s evs1 i + reexec_budget d lg (run_from d lg s evs1) evs2 i)%nat.
Proof.
  intros d lg evs1. induction evs1 as [|e evs1 IH]; intros evs2 s i; cbn [app reexec_budget run_from fold_left].
  - reflexivity.
  - rewrite IH. unfold run_from. lia.
Qed.

Lemma reexec_budget_no_restart : forall d lg evs s i,
  no_restart evs = true -> reexec_budget d lg s evs i = 0%nat.
Proof.
  intros d lg evs. induction evs as [|e evs IH]; intros s i H; cbn [reexec_budget]; [reflexivity|].
  unfold no_restart in H. cbn [forallb] in H. apply andb_prop in H as [H1 H2].
  rewrite IH by exact H2. destruct (is_restart e); [discriminate|reflexivity].
Qed.

Lemma once_one_crash : forall d lg evs1 evs2 i,
  NoDup (indices lg) -> no_restart evs1 = true -> no_restart evs2 = true ->
  (cnt i (trace (run d lg (evs1 ++ Restart :: evs2))) <= 1 + cnt i (pending (run d lg evs1)))%nat /\
  (cnt i (pending (run d lg evs1)) <= 1)%nat.
Proof.
  intros d lg evs1 evs2 i Hnd H1 H2. split.
  - pose proof (once_budget d lg (evs1 ++ Restart :: evs2) i Hnd) as Hb.
    rewrite reexec_budget_app in Hb. rewrite (reexec_budget_no_restart _ _ evs1) in Hb by exact H1.
    cbn [reexec_budget is_restart] in Hb.
    rewrite (reexec_budget_no_restart _ _ evs2) in Hb by exact H2.
    fold (run d lg evs1) in Hb. lia.
  - pose proof (K_run_from d lg evs1 _ init Hnd (K_init lg)) as HK.
    eapply K_pending_le1; eauto.
Qed.

(* ------------------------------------------------------------------ the single worker across restarts:
   the executed trace stays weakly increasing (a re-execution repeats the entry that was pending at the crash
   before anything later runs) *)

Lemma filter_all : forall (f : N -> bool) l, (forall x, In x l -> f x = true) -> filter f l = l.
Proof.
  intros f l. induction l as [|x l IH]; intros H; cbn [filter]; [reflexivity|].
  rewrite (H x (or_introl eq_refl)). f_equal. apply IH. intros y Hy. apply H. now right.
Qed.

Record W (lg : log) (s : state) : Prop := {
  W_prefix : prefix (committed s) (indices lg);
  W_split : committed s = executed s ++ pending s ++ tasks s;
  W_pend : (length (pending s) <= 1)%nat;
  W_sorted : StronglySorted N.le (trace s);
  W_bound : forall t x, In t (trace s) -> In x (pending s ++ tasks s) -> t <= x;
  W_comm : forall t, In t (trace s) -> In t (committed s) }.

Lemma W_init : forall lg, W lg init.
Proof.
  intros lg. constructor; cbn; try (intros; contradiction); try lia.
  - exists (indices lg). reflexivity.
  - reflexivity.
  - constructor.
Qed.

Lemma sorted_le_snoc : forall l x,
  StronglySorted N.le l -> (forall t, In t l -> t <= x) -> StronglySorted N.le (l ++ [x]).
Proof.
  induction l as [|a l IH]; intros x Hs Hb; cbn [app].
  - constructor; constructor.
  - apply StronglySorted_inv in Hs as [Hs Ha]. constructor.
    + apply IH; auto. intros t Ht. apply Hb. now right.
    + rewrite Forall_app. split; [exact Ha|]. constructor; [|constructor]. apply Hb. now left.
Qed.

Lemma unexecuted_split : forall lg s rest,
  NoDup (indices lg) -> indices lg = committed s ++ rest ->
  committed s = executed s ++ pending s ++ tasks s ->
  unexecuted lg s = pending s ++ tasks s.
Proof.
  intros lg s rest Hnd Hpre Hsplit. unfold unexecuted.
  set (f := fun i => memN i (committed s) && negb (memN i (executed s))).
  rewrite Hpre. rewrite Hpre in Hnd.
  assert (Hc : forall x, In x (committed s) -> memN x (committed s) = true) by (intros; now apply memN_In).
  rewrite filter_app. rewrite (filter_none _ rest).
  2:{ intros x Hx. unfold f. destruct (memN x (committed s)) eqn:M; [|reflexivity].
      apply memN_In in M. exfalso. revert Hnd. rewrite NoDup_cnt. intros Hn. specialize (Hn x).
      rewrite cnt_app in Hn. apply (count_occ_In N.eq_dec) in M. apply (count_occ_In N.eq_dec) in Hx. lia. }
  rewrite app_nil_r.
  assert (Hndc : NoDup (committed s)).
  { apply NoDup_cnt. intros x. revert Hnd. rewrite NoDup_cnt. intros Hn. specialize (Hn x).
    rewrite cnt_app in Hn. lia. }
  rewrite Hsplit. rewrite filter_app. rewrite filter_none.
  - cbn [app]. apply filter_all. intros x Hx. unfold f.
    assert (Hin : In x (committed s)) by (rewrite Hsplit; apply in_or_app; now right).
    rewrite (Hc _ Hin). cbn [andb].
    destruct (memN x (executed s)) eqn:M; [|reflexivity].
    apply memN_In in M. exfalso. rewrite Hsplit in Hndc. revert Hndc. rewrite NoDup_cnt. intros Hn. specialize (Hn x).
    rewrite cnt_app in Hn. apply (count_occ_In N.eq_dec) in M. apply (count_occ_In N.eq_dec) in Hx. lia.
  - intros x Hx. unfold f. apply memN_In in Hx. rewrite Hx. cbn [negb]. apply andb_false_r.
Qed.

Lemma W_step : forall lg s e,
  StronglySorted N.lt (indices lg) -> W lg s -> W lg (step FifoWorker lg s e).
Proof.
  intros lg s e Hs [[rest Hpre] Hsplit Hpend Hsorted Hbound Hcomm].
  pose proof (sorted_NoDup _ Hs) as Hnd.
  destruct e as [idx|i0|i0|]; cbn [step].
  - (* Commit *)
    destruct (uncommitted_prefix lg s idx rest Hs Hpre) as [r Hr].
    constructor; cbn [committed tasks pending trace executed]; auto.
    + exists r. rewrite Hpre, Hr. now rewrite app_assoc.
    + rewrite Hsplit. now rewrite <- !app_assoc.
    + intros t x Ht Hx. rewrite app_assoc in Hx. apply in_app_or in Hx as [Hx|Hx]; [now apply Hbound|].
      rewrite Hpre in Hs. destruct (sorted_app_inv _ _ Hs) as [_ [_ Hlt]].
      assert (t < x); [|lia]. apply Hlt; [now apply Hcomm|]. rewrite Hr. apply in_or_app. now left.
    + intros t Ht. apply in_or_app. left. now apply Hcomm.
  - (* RunTask *)
    destruct (runnable FifoWorker s i0) eqn:R.
    2:{ constructor; auto. now exists rest. }
    unfold runnable in R. destruct (tasks s) as [|j r] eqn:T; [discriminate|].
    destruct (pending s) as [|p ps] eqn:P; [|discriminate]. apply N.eqb_eq in R. subst j.
    constructor; cbn [committed tasks pending trace executed remove1 app]; rewrite ?N.eqb_refl.
    + now exists rest.
    + exact Hsplit.
    + cbn. lia.
    + apply sorted_le_snoc; auto. intros t Ht. apply Hbound; auto. cbn. now left.
    + intros t x Ht Hx. apply in_app_or in Ht as [Ht|[<-|[]]].
      * apply Hbound; auto.
      * destruct Hx as [<-|Hx]; [lia|].
        assert (Hc : StronglySorted N.lt (committed s)).
        { rewrite Hpre in Hs. now destruct (sorted_app_inv _ _ Hs). }
        rewrite Hsplit in Hc. cbn [app] in Hc.
        destruct (sorted_app_inv _ _ Hc) as [_ [Hc2 _]].
        apply StronglySorted_inv in Hc2 as [_ Hall]. rewrite Forall_forall in Hall. specialize (Hall _ Hx). lia.
    + intros t Ht. apply in_app_or in Ht as [Ht|[<-|[]]]; auto.
      rewrite Hsplit. apply in_or_app. right. cbn. now left.
  - (* MarkExecuted *)
    destruct (memN i0 (pending s)) eqn:M.
    2:{ constructor; auto. now exists rest. }
    apply memN_In in M. destruct (pending s) as [|p [|q ps]] eqn:P; cbn in Hpend; try lia; [destruct M|].
    destruct M as [->|[]].
    constructor; cbn [committed tasks pending trace executed remove1 app]; rewrite ?N.eqb_refl.
    + now exists rest.
    + rewrite Hsplit. cbn [app]. now rewrite <- app_assoc.
    + cbn. lia.
    + exact Hsorted.
    + intros t x Ht Hx. apply Hbound; auto. cbn. now right.
    + exact Hcomm.
  - (* Restart *)
    rewrite (unexecuted_split lg s rest Hnd Hpre Hsplit).
    constructor; cbn [committed tasks pending trace executed app].
    + now exists rest.
    + exact Hsplit.
    + cbn. lia.
    + exact Hsorted.
    + exact Hbound.
    + exact Hcomm.
Qed.

Lemma fifo_restart_order : forall lg evs,
  StronglySorted N.lt (indices lg) ->
  StronglySorted N.le (trace (run FifoWorker lg evs)).
Proof.
  intros lg evs Hs. apply (W_sorted lg). unfold run, run_from.
  assert (G : forall s, W lg s -> W lg (fold_left (step FifoWorker lg) evs s)).
  { induction evs as [|e evs IH]; intros s HW; cbn [fold_left]; auto. apply IH. now apply W_step. }
  apply G. apply W_init.
Qed.
