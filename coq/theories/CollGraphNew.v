(* CollGraphNew.v — proofs (collections, part 13): GraphDataStorage::new establishes `grep` for
   the arrays [0] [0] [i64::MIN] [0]; every history of the GraphData interface on the model of
   storage.rs from a fresh storage. *)
From Agdb Require Import Bytes BytesProofs Records RecordsProofs Storage StorageSpec StorageLayout StorageWp
  StorageRefine StorageProofs Collections CollWp CollBytes CollVecBase CollVecOps CollVec CollVec2 CollElems
  CollSep CollMap CollGraph.
From Coq Require Import ZifyBool ZifyNat ZifyN.
Ltac Zify.zify_post_hook ::= Z.div_mod_to_equations.
Open Scope N_scope.
Arguments N.add : simpl never.
Arguments N.mul : simpl never.
Arguments N.sub : simpl never.
Arguments N.of_nat : simpl never.
Arguments N.to_nat : simpl never.
Arguments N.eqb : simpl never.
Arguments N.ltb : simpl never.
Arguments N.leb : simpl never.
Arguments N.div : simpl never.

Section New.
  Variable fl : bool.

  (* DbVec::new followed by one push: a vector [x] made of records that were free *)
  Lemma cv_new_push_spec x sp (Q : cres cv_vec -> spec -> Prop) :
    i64_range x ->
    (forall h sl sp', vrepZ (hp sp') h sl [x] -> cv_index h < two64 -> sdepth sp' = sdepth sp ->
        frame (hp sp) (hp sp') [] (footZ h sl) -> Q (CrOk h) sp') ->
    cwp fl (h0 <~ cv_new ;; cv_push Z ce_i64 h0 x) sp Q.
  Proof.
    intros Hx HQ. apply cwp_bind. apply (cv_new_spec Z ce_i64 law_i64 fl). intros h0 sp1 R0 Z0 B0 N0 D0 F0. cbn [kont].
    eapply cv_push_spec; [exact R0|exact Hx|unfold lenN; cbn; unfold two64; lia|].
    intros h sl sp2 R I D F. eapply HQ; [exact R|rewrite I; exact B0|congruence|]. eapply frame_trans; eassumption.
  Qed.

  Lemma frame_nil_fresh g g' F j : frame g g' [] F -> In j F -> g j = None.
  Proof. intros (_ & A2 & _) Hj. apply A2; [exact Hj|intros []]. Qed.

  Lemma frame_nil_same g g' F j : frame g g' [] F -> ~ In j F -> g' j = g j.
  Proof. intros (A1 & _ & _) Hj. apply A1; [intros []|exact Hj]. Qed.

  Definition ga_init : cg_arrays := {| ga_from := [0%Z]; ga_to := [0%Z]; ga_from_meta := [cg_i64_min]; ga_to_meta := [0%Z] |}.

  Lemma cg_new_spec sp (Q : cres cg_data -> spec -> Prop) :
    (forall d s sp', grep (hp sp') d s ga_init -> sdepth sp' = sdepth sp -> Q (CrOk d) sp') ->
    cwp fl cg_new sp Q.
  Proof.
    intros HQ. unfold cg_new.
    assert (Z0ok : i64_range 0%Z) by (unfold i64_range; lia).
    assert (Zmok : i64_range cg_i64_min) by (unfold i64_range, cg_i64_min; lia).
    apply cwp_bind. apply hwp_transaction. intros sp0 Hm0 Hd0. cbn [kont].
    (* from *)
    apply cwp_bind. apply (cv_new_spec Z ce_i64 law_i64 fl). intros f0 sp1 Rf0 _ Bf Nf0 Df0 Ff0. cbn [kont].
    apply cwp_bind. eapply cv_push_spec; [exact Rf0|exact Z0ok|unfold lenN; cbn; unfold two64; lia|].
    intros hf sf sp2 Rf If Df Ff. cbn [kont].
    assert (Frf : frame (hp sp0) (hp sp2) [] (footZ hf sf)) by (eapply frame_trans; eassumption).
    (* to *)
    apply cwp_bind. apply (cv_new_spec Z ce_i64 law_i64 fl). intros t0 sp3 Rt0 _ Bt Nt0 Dt0 Ft0. cbn [kont].
    apply cwp_bind. eapply cv_push_spec; [exact Rt0|exact Z0ok|unfold lenN; cbn; unfold two64; lia|].
    intros ht st sp4 Rt It Dt Ft. cbn [kont].
    assert (Frt : frame (hp sp2) (hp sp4) [] (footZ ht st)) by (eapply frame_trans; eassumption).
    destruct (vrep_frame _ _ _ _ _ _ _ _ _ _ Rf Frt (fun _ _ X => X)) as [Rf4 Dft].
    (* from_meta *)
    apply cwp_bind. apply (cv_new_spec Z ce_i64 law_i64 fl). intros m0 sp5 Rm0 _ Bm Nm0 Dm0 Fm0. cbn [kont].
    apply cwp_bind. eapply cv_push_spec; [exact Rm0|exact Zmok|unfold lenN; cbn; unfold two64; lia|].
    intros hm sm sp6 Rm Im Dm Fm. cbn [kont].
    assert (Frm : frame (hp sp4) (hp sp6) [] (footZ hm sm)) by (eapply frame_trans; eassumption).
    destruct (vrep_frame _ _ _ _ _ _ _ _ _ _ Rf4 Frm (fun _ _ X => X)) as [Rf6 Dfm].
    destruct (vrep_frame _ _ _ _ _ _ _ _ _ _ Rt Frm (fun _ _ X => X)) as [Rt6 Dtm].
    (* to_meta *)
    apply cwp_bind. apply (cv_new_spec Z ce_i64 law_i64 fl). intros n0 sp7 Rn0 _ Bn Nn0 Dn0 Fn0. cbn [kont].
    apply cwp_bind. eapply cv_push_spec; [exact Rn0|exact Z0ok|unfold lenN; cbn; unfold two64; lia|].
    intros hn sn sp8 Rn Inn Dn Fn. cbn [kont].
    assert (Frn : frame (hp sp6) (hp sp8) [] (footZ hn sn)) by (eapply frame_trans; eassumption).
    destruct (vrep_frame _ _ _ _ _ _ _ _ _ _ Rf6 Frn (fun _ _ X => X)) as [Rf8 Dfn].
    destruct (vrep_frame _ _ _ _ _ _ _ _ _ _ Rt6 Frn (fun _ _ X => X)) as [Rt8 Dtn].
    destruct (vrep_frame _ _ _ _ _ _ _ _ _ _ Rm Frn (fun _ _ X => X)) as [Rm8 Dmn].
    (* the index record *)
    apply cwp_bind. apply hwp_insert. intros i sp9 Zi Bi Ni Hm9 Dd9. cbn [kont].
    apply cwp_bind. apply hwp_commit; [lia|lia|]. intros sp10 Hm10 Dd10. cbn [kont cwp].
    set (d := {| cg_index := i; cg_from := hf; cg_to := ht; cg_from_meta := hm; cg_to_meta := hn |}).
    set (s := {| gs_from := sf; gs_to := st; gs_from_meta := sm; gs_to_meta := sn |}).
    assert (Lf : live_all (hp sp8) (footZ hf sf)) by (eapply vrep_live; exact Rf8).
    assert (Lt : live_all (hp sp8) (footZ ht st)) by (eapply vrep_live; exact Rt8).
    assert (Lm : live_all (hp sp8) (footZ hm sm)) by (eapply vrep_live; exact Rm8).
    assert (Ln : live_all (hp sp8) (footZ hn sn)) by (eapply vrep_live; exact Rn).
    assert (Same : forall j, j <> i -> hp sp10 j = hp sp8 j) by (intros j Hj; rewrite Hm10, Hm9; apply hupd_other; congruence).
    assert (Hi : forall F, live_all (hp sp8) F -> ~ In i F) by (intros F HF I; apply (HF i I); exact Ni).
    apply (HQ d s sp10); [|lia].
    constructor.
    - cbn [d cg_index cg_from cg_to cg_from_meta cg_to_meta]. rewrite Hm10, Hm9. apply hupd_same.
    - intros f; destruct f; cbn [d s cg_vec gs_get ga_get ga_init ga_from ga_to ga_from_meta ga_to_meta cg_from cg_to cg_from_meta cg_to_meta gs_from gs_to gs_from_meta gs_to_meta].
      + eapply vrep_transport; [exact Rf8|]. intros j Hj. apply Same. intros ->. exact (Hi _ Lf Hj).
      + eapply vrep_transport; [exact Rt8|]. intros j Hj. apply Same. intros ->. exact (Hi _ Lt Hj).
      + eapply vrep_transport; [exact Rm8|]. intros j Hj. apply Same. intros ->. exact (Hi _ Lm Hj).
      + eapply vrep_transport; [exact Rn|]. intros j Hj. apply Same. intros ->. exact (Hi _ Ln Hj).
    - intros f; destruct f; cbn [d cg_vec cg_from cg_to cg_from_meta cg_to_meta]; [rewrite If|rewrite It|rewrite Im|rewrite Inn]; assumption.
    - unfold gfoot. cbn [d s cg_index cg_from cg_to cg_from_meta cg_to_meta gs_from gs_to gs_from_meta gs_to_meta].
      constructor.
      + intros I. apply in_app_or in I. destruct I as [I|I]; [exact (Hi _ Lf I)|].
        apply in_app_or in I. destruct I as [I|I]; [exact (Hi _ Lt I)|].
        apply in_app_or in I. destruct I as [I|I]; [exact (Hi _ Lm I)|exact (Hi _ Ln I)].
      + apply NoDup_app_iff. split; [eapply vrep_nodup; exact Rf8|]. split.
        * apply NoDup_app_iff. split; [eapply vrep_nodup; exact Rt8|]. split.
          -- apply NoDup_app_iff. split; [eapply vrep_nodup; exact Rm8|]. split; [eapply vrep_nodup; exact Rn|].
             intros j I1 I2. exact (Dmn j I1 I2).
          -- intros j I1 I2. apply in_app_or in I2. destruct I2 as [I2|I2]; [exact (Dtm j I1 I2)|exact (Dtn j I1 I2)].
        * intros j I1 I2. apply in_app_or in I2. destruct I2 as [I2|I2]; [exact (Dft j I1 I2)|].
          apply in_app_or in I2. destruct I2 as [I2|I2]; [exact (Dfm j I1 I2)|exact (Dfn j I1 I2)].
  Qed.

  (* every history from GraphDataStorage::new, against the abstract record map *)
  Theorem cg_new_run_spec ops sp (Q : cres (cg_data * list cg_obs) -> spec -> Prop) :
    sdepth sp = 0 -> gops_ok ga_init ops ->
    (forall d' s' sp', grep (hp sp') d' s' (fst (ga_run ga_init ops)) -> sdepth sp' = 0 -> Q (CrOk (d', snd (ga_run ga_init ops))) sp') ->
    cwp fl (d <~ cg_new ;; cg_run d ops) sp Q.
  Proof.
    intros Hd Hok HQ. apply cwp_bind. apply cg_new_spec. intros d s sp1 H1 Hd1. cbn [kont].
    eapply cg_run_spec; [exact H1|lia|exact Hok|]. intros d' s' sp' H' _ Hd' _. eapply HQ; eauto.
  Qed.
End New.

(* ---------------- on the model of storage.rs ---------------- *)
Theorem cg_history_on_storage (ops : store_ops cdata) (fl : bool) : kind ops fl ->
  forall (l : list cg_op), gops_ok ga_init l ->
  let r := cp_run (st_step cdata ops) (d <~ cg_new ;; cg_run d l) s_init in
  snd r = CrDead \/
  exists d' sp' s,
    snd r = CrOk (d', snd (ga_run ga_init l)) /\ Rel (fst r) sp' /\ grep (hp sp') d' s (fst (ga_run ga_init l)).
Proof.
  intros Kd l Hok r.
  destruct (cwp_sound ops fl Kd (d <~ cg_new ;; cg_run d l) s_init spec_init
             (fun r sp' => exists d' s, r = CrOk (d', snd (ga_run ga_init l)) /\ grep (hp sp') d' s (fst (ga_run ga_init l)))
             Rel_init) as [D|(sp' & RL & d' & s & Er & HR)].
  - apply cg_new_run_spec; [reflexivity|exact Hok|]. intros d' s' sp' H' _. exists d', s'. auto.
  - left. exact D.
  - right. exists d', sp', s. auto.
Qed.
