(* StorageOptimize.v — proofs (part 7 of the C04 development): optimize_storage moves
   every live record down in file order, truncates, and forgets the free space: the
   file then consists of the live records only and every value is unchanged. *)
From Agdb Require Import Bytes BytesProofs Records RecordsProofs RecordsTableProofs Storage StorageSpec
  StorageLayout StorageWp StorageOps StorageOps2.
From Coq Require Import ZifyBool ZifyNat ZifyN Permutation.
Ltac Zify.zify_post_hook ::= Z.div_mod_to_equations.
Open Scope N_scope.
Arguments N.add : simpl never.
Arguments N.mul : simpl never.
Arguments N.sub : simpl never.
Arguments N.of_nat : simpl never.
Arguments N.to_nat : simpl never.
Arguments N.eqb : simpl never.
Arguments N.ltb : simpl never.
Arguments N.leb : simpl never.

Ltac st := cbn [sdata cur dur rtab tx version set_cur set_data set_rtab set_tx set_version].
Ltac inl := rewrite ?layout_app, ?in_app_iff; cbn [layout In]; rewrite ?in_app_iff.

(* ---------- strictly sorted lists of records ---------- *)
Section Sorted.
  Variable key : srec -> N.

  Fixpoint ssorted (l : list srec) : Prop :=
    match l with [] => True | x :: t => (forall y, In y t -> key x < key y) /\ ssorted t end.

  Lemma ssorted_NoDup l : ssorted l -> NoDup l.
  Proof.
    induction l as [|x t IH]; intros H; [constructor|]. destruct H as [Hx Ht].
    constructor; [|apply IH; exact Ht]. intros Hin. specialize (Hx x Hin). lia.
  Qed.

  Lemma ssorted_unique l1 : forall l2, ssorted l1 -> ssorted l2 -> (forall x, In x l1 <-> In x l2) -> l1 = l2.
  Proof.
    induction l1 as [|x t IH]; intros [|y u] S1 S2 E.
    - reflexivity.
    - exfalso. apply (proj2 (E y)). left; reflexivity.
    - exfalso. apply (proj1 (E x)). left; reflexivity.
    - destruct S1 as [Hx St], S2 as [Hy Su].
      assert (x = y).
      { destruct (proj1 (E x) (or_introl eq_refl)) as [->|Hxu]; [reflexivity|].
        destruct (proj2 (E y) (or_introl eq_refl)) as [->|Hyt]; [reflexivity|].
        specialize (Hx y Hyt). specialize (Hy x Hxu). lia. }
      subst y. f_equal. apply IH; [exact St|exact Su|].
      intros z. split; intros Hz.
      + destruct (proj1 (E z) (or_intror Hz)) as [->|H]; [|exact H]. specialize (Hx z Hz). lia.
      + destruct (proj2 (E z) (or_intror Hz)) as [->|H]; [|exact H]. specialize (Hy z Hz). lia.
  Qed.
End Sorted.

Lemma ins_In r l x : In x (ins_by_pos r l) <-> x = r \/ In x l.
Proof.
  induction l as [|y t IH]; cbn [ins_by_pos In]; [intuition|].
  destruct (r_pos r <? r_pos y); cbn [In]; [intuition|]. rewrite IH. intuition.
Qed.

Lemma ins_ssorted r l : ssorted r_pos l -> (forall y, In y l -> r_pos y <> r_pos r) -> ssorted r_pos (ins_by_pos r l).
Proof.
  induction l as [|x t IH]; intros S D; cbn [ins_by_pos].
  - cbn. split; [intros y []|exact I].
  - destruct S as [Hx St]. destruct (N.ltb_spec (r_pos r) (r_pos x)).
    + cbn [ssorted]. split; [|split; assumption].
      intros y [<-|Hy]; [assumption|]. specialize (Hx y Hy). lia.
    + cbn [ssorted]. assert (r_pos x <> r_pos r) by (apply D; left; reflexivity). split.
      * intros y Hy. apply ins_In in Hy. destruct Hy as [->|Hy]; [lia|apply Hx; exact Hy].
      * apply IH; [exact St|]. intros y Hy. apply D. right; exact Hy.
Qed.

Lemma sort_In l x : In x (sort_by_pos l) <-> In x l.
Proof.
  unfold sort_by_pos. induction l as [|y t IH]; cbn [fold_right In]; [tauto|]. rewrite ins_In, IH. intuition.
Qed.

Lemma sort_ssorted l : NoDup (map r_pos l) -> ssorted r_pos (sort_by_pos l).
Proof.
  unfold sort_by_pos. induction l as [|x t IH]; intros ND; cbn [fold_right]; [exact I|].
  inversion ND as [|? ? Hnot ND']; subst. apply ins_ssorted; [apply IH; exact ND'|].
  intros y Hy E. apply Hnot. apply (proj1 (sort_In t y)) in Hy. rewrite <- E. apply in_map. exact Hy.
Qed.

Lemma sort_perm_sorted l S : Permutation l S -> ssorted r_pos S -> sort_by_pos l = S.
Proof.
  intros P SS. apply (ssorted_unique r_pos); [|exact SS|].
  - apply sort_ssorted. apply (Permutation_NoDup (l := map r_pos S)); [apply Permutation_map, Permutation_sym, P|].
    clear P. induction S as [|x t IH]; [constructor|]. destruct SS as [Hx St]. cbn [map]. constructor; [|apply IH; exact St].
    intros Hin. apply in_map_iff in Hin. destruct Hin as (y & Ey & Hy). specialize (Hx y Hy). lia.
  - intros x. rewrite sort_In. split; [apply Permutation_in; exact P|apply Permutation_in, Permutation_sym; exact P].
Qed.

(* ---------- valid_records: the live records in file order ---------- *)
(* the records of the live regions of rg, the first region at pos *)
Fixpoint lives (pos : N) (rg : list region) : list srec :=
  match rg with
  | [] => []
  | (i, v) :: t =>
    let rest := lives (pos + 16 + lenN v) t in
    if i =? 0 then rest else {| r_index := i; r_pos := pos; r_size := lenN v |} :: rest
  end.

Lemma lives_In pos rg r : In r (lives pos rg) <-> r_index r <> 0 /\ In (r_pos r, r_index r, r_size r) (layout pos rg).
Proof.
  revert pos; induction rg as [|[i v] t IH]; intros pos; cbn [lives layout In]; [tauto|].
  destruct (N.eqb_spec i 0) as [->|Hi]; cbn [In]; rewrite IH.
  - split; [intros [H1 H2]; auto|]. intros [H1 [H2|H2]]; [|auto]. congruence.
  - split.
    + intros [<-|[H1 H2]]; cbn [r_index r_pos r_size]; auto.
    + intros [H1 [H2|H2]]; [left|right; auto]. destruct r; cbn in *. congruence.
Qed.

Lemma lives_sorted pos rg : ssorted r_pos (lives pos rg) /\ forall r, In r (lives pos rg) -> pos <= r_pos r.
Proof.
  revert pos; induction rg as [|[i v] t IH]; intros pos; cbn [lives]; [split; [exact I|intros r []]|].
  destruct (IH (pos + 16 + lenN v)) as [S B].
  destruct (N.eqb_spec i 0).
  - split; [exact S|]. intros r Hr. specialize (B r Hr). lia.
  - split.
    + cbn [ssorted]. split; [|exact S]. intros y Hy. specialize (B y Hy). cbn [r_pos]. lia.
    + intros r [<-|Hr]; [cbn [r_pos]; lia|]. specialize (B r Hr). lia.
Qed.

Lemma lives_app pos a b : lives pos (a ++ b) = lives pos a ++ lives (pos + slen a) b.
Proof.
  revert pos; induction a as [|[i v] a IH]; intros pos; cbn [lives app].
  - rewrite slen_nil. f_equal. lia.
  - rewrite IH, slen_cons. cbn [snd]. replace (pos + 16 + lenN v + slen a) with (pos + (16 + lenN v + slen a)) by lia.
    destruct (i =? 0); reflexivity.
Qed.

Lemma lives_free pos F : all_free F -> lives pos F = [].
Proof.
  revert pos; induction F as [|[i v] F IH]; intros pos HF; cbn [lives]; [reflexivity|].
  rewrite (HF i v (or_introl eq_refl)), N.eqb_refl. apply IH. intros k w H. apply (HF k w). right; exact H.
Qed.

(* the first live region *)
Lemma lives_head pos rg r l : lives pos rg = r :: l ->
  exists F v Rest, rg = F ++ (r_index r, v) :: Rest /\ all_free F /\ r_index r <> 0 /\
    r_pos r = pos + slen F /\ r_size r = lenN v /\ l = lives (pos + slen F + 16 + lenN v) Rest.
Proof.
  revert pos; induction rg as [|[i v] t IH]; intros pos; cbn [lives]; [discriminate|].
  destruct (N.eqb_spec i 0) as [->|Hi].
  - intros H. destruct (IH _ H) as (F & w & Rest & -> & HF & Hr & Hp & Hs & Hl).
    exists ((0, v) :: F), w, Rest. split; [reflexivity|]. split.
    { intros k x [[= <- _]|Hk]; [reflexivity|exact (HF k x Hk)]. }
    split; [exact Hr|]. rewrite slen_cons. cbn [snd]. split; [lia|]. split; [exact Hs|].
    rewrite Hl. f_equal. lia.
  - intros [= <- <-]. exists [], v, t. cbn [r_index r_pos r_size app]. rewrite slen_nil.
    split; [reflexivity|]. split; [apply all_free_nil|]. split; [exact Hi|]. split; [lia|]. split; [reflexivity|].
    f_equal. lia.
Qed.

Section IndexSorted.
  (* the records kept by filter_valid are in increasing slot order *)
  Lemma filter_valid_spec rs : twf (recs rs) -> forall l k0,
    (forall j r, nth_error l j = Some r -> nth_error (recs rs) (k0 + j) = Some r) ->
    exists F, filter_valid rs l = Some F /\ ssorted r_index F /\
      (forall x, In x F -> N.of_nat k0 <= r_index x) /\
      (forall x, In x F <-> exists j, nth_error l j = Some x /\ r_index x = N.of_nat (k0 + j) /\ r_index x <> 0).
  Proof.
    intros TW. induction l as [|r t IH]; intros k0 Hsub; cbn [filter_valid].
    - exists []. split; [reflexivity|]. split; [exact I|]. split; [intros x []|].
      intros x. split; [intros []|]. intros (j & Hj & _). destruct j; discriminate.
    - destruct (IH (S k0)) as (F & EF & SF & BF & InF).
      { intros j r' Hj. replace (S k0 + j)%nat with (k0 + S j)%nat by lia. apply Hsub. exact Hj. }
      rewrite EF.
      assert (Hr : nth_error (recs rs) k0 = Some r) by (rewrite <- (Nat.add_0_r k0); apply Hsub; reflexivity).
      (* is_valid agrees with being live at slot k0 *)
      pose proof (record_spec rs (N.of_nat k0) TW) as RS. unfold record, rget in RS.
      rewrite Nat2N.id, Hr in RS.
      assert (HL : live_at (recs rs) (N.of_nat k0) =
                   if negb (N.of_nat k0 =? 0) && (r_index r =? N.of_nat k0) then Some (r_pos r, r_size r) else None).
      { unfold live_at. rewrite Nat2N.id, Hr. reflexivity. }
      rewrite HL in RS.
      destruct (is_valid rs r) as [[|]|] eqn:EV.
      + (* kept *)
        destruct (negb (N.of_nat k0 =? 0) && (r_index r =? N.of_nat k0)) eqn:Elive; [|discriminate].
        apply andb_prop in Elive. destruct Elive as [E1 E2].
        assert (Hk0 : N.of_nat k0 <> 0) by (destruct (N.eqb_spec (N.of_nat k0) 0); [discriminate|assumption]).
        assert (Hidx : r_index r = N.of_nat k0) by (destruct (N.eqb_spec (r_index r) (N.of_nat k0)); [assumption|discriminate]).
        exists (r :: F). split; [reflexivity|]. split.
        { cbn [ssorted]. split; [|exact SF]. intros y Hy. specialize (BF y Hy). lia. }
        split. { intros x [<-|Hx]; [lia|]. specialize (BF x Hx). lia. }
        intros x. cbn [In]. rewrite InF. split.
        * intros [<-|(j & Hj & Ej & Nj)].
          -- exists 0%nat. cbn [nth_error]. rewrite Nat.add_0_r. split; [reflexivity|]. split; [exact Hidx|congruence].
          -- exists (S j). cbn [nth_error]. split; [exact Hj|]. split; [rewrite Ej; f_equal; lia|exact Nj].
        * intros ([|j] & Hj & Ej & Nj); cbn [nth_error] in Hj.
          -- left. congruence.
          -- right. exists j. split; [exact Hj|]. split; [rewrite Ej; f_equal; lia|exact Nj].
      + (* dropped *)
        destruct (negb (N.of_nat k0 =? 0) && (r_index r =? N.of_nat k0)) eqn:Elive; [discriminate|].
        exists F. split; [reflexivity|]. split; [exact SF|]. split.
        { intros x Hx. specialize (BF x Hx). lia. }
        intros x. rewrite InF. split.
        * intros (j & Hj & Ej & Nj). exists (S j). cbn [nth_error]. split; [exact Hj|]. split; [rewrite Ej; f_equal; lia|exact Nj].
        * intros ([|j] & Hj & Ej & Nj); cbn [nth_error] in Hj.
          -- exfalso. injection Hj as <-. rewrite Nat.add_0_r in Ej. rewrite Ej in Elive.
             rewrite N.eqb_refl, andb_true_r in Elive. destruct (N.eqb_spec (N.of_nat k0) 0); [congruence|discriminate].
          -- exists j. split; [exact Hj|]. split; [rewrite Ej; f_equal; lia|exact Nj].
      + discriminate.
  Qed.
End IndexSorted.

Lemma valid_records_spec s rg : tiles s rg -> valid_records (rtab s) = Some (lives 24 rg).
Proof.
  intros T. destruct (tiles_elim _ _ T) as (_ & _ & [TL _] & [TW _] & _).
  destruct (filter_valid_spec (rtab s) TW (recs (rtab s)) 0 ltac:(intros j r H; exact H)) as (F & EF & SF & _ & InF).
  unfold valid_records. rewrite EF. f_equal.
  destruct (lives_sorted 24 rg) as [SL _].
  apply sort_perm_sorted; [|exact SL].
  apply NoDup_Permutation; [exact (ssorted_NoDup _ _ SF)|exact (ssorted_NoDup _ _ SL)|].
  intros x. rewrite InF, lives_In. split.
  - intros (j & Hj & Ej & Nj). split; [exact Nj|]. apply TL; [exact Nj|].
    apply live_at_some. split; [exact Nj|]. rewrite Ej, Nat2N.id. cbn [Nat.add]. rewrite Hj. f_equal.
    destruct x; cbn in *. congruence.
  - intros [Nj H]. apply TL in H; [|exact Nj]. apply live_at_some in H. destruct H as [_ H].
    exists (N.to_nat (r_index x)). cbn [Nat.add]. split; [rewrite H; f_equal; destruct x; reflexivity|]. split; [lia|exact Nj].
Qed.

(* ---------- the loop of optimize_storage ---------- *)
Definition all_live (D : list region) : Prop := forall i v, In (i, v) D -> i <> 0.

Lemma lmap_live D : all_live D -> lmap D = D.
Proof.
  induction D as [|[i v] D IH]; intros HL; [reflexivity|].
  rewrite lmap_cons_live by (apply (HL i v); left; reflexivity). f_equal. apply IH.
  intros k w H. apply (HL k w). right; exact H.
Qed.

Lemma lives_nil_free pos R : lives pos R = [] -> all_free R.
Proof.
  revert pos; induction R as [|[i v] R IH]; intros pos; cbn [lives]; [intros _; apply all_free_nil|].
  destruct (N.eqb_spec i 0) as [->|]; [|discriminate]. intros H k w [[= <- _]|Hk]; [reflexivity|].
  exact (IH _ H k w Hk).
Qed.

(* D: the records already moved down, g: bytes that belong to nothing, R: the regions not yet
   looked at, still where they were *)
Definition oinv (s0 s : ST) (D : list region) (g : bytes) (R : list region) : Prop :=
  cur (sdata s) = vrec ++ ser D ++ g ++ ser R /\
  lenN (cur (sdata s)) = lenN (cur (sdata s0)) /\
  (forall q i n, i <> 0 ->
     (In (q, i, n) (layout 24 D ++ layout (24 + slen D + lenN g) R) <-> live_at (recs (rtab s)) i = Some (q, n))) /\
  twf (recs (rtab s)) /\ all_live D /\
  tx s = tx s0 /\ dur (sdata s) = dur (sdata s0) /\ version s = version s0.

Section Optimize.
  Variable ops : store_ops cdata.
  Hypothesis CN : canon ops.

  Lemma shrink_all_spec s0 l : forall s D g R (Q : ST -> N -> Prop) E,
    oinv s0 s D g R -> l = lives (24 + slen D + lenN g) R ->
    (forall s' D' g' R', oinv s0 s' D' g' R' -> all_free R' -> lmap D' = lmap D ++ lmap R -> Q s' (24 + slen D')) ->
    wp (shrink_all cdata ops l (24 + slen D)) s Q E.
  Proof.
    induction l as [|r l IH]; intros s D g R Q E OI El HQ; cbn [shrink_all].
    - apply wp_ret. apply (HQ s D g R OI).
      + apply (lives_nil_free (24 + slen D + lenN g)). symmetry; exact El.
      + rewrite (lmap_free R), app_nil_r; [reflexivity|]. apply (lives_nil_free (24 + slen D + lenN g)). symmetry; exact El.
    - symmetry in El. destruct (lives_head _ _ _ _ El) as (F & v & R' & -> & HF & Hi & Hpos & Hsz & Hl').
      destruct r as [i pos n]. cbn [r_index r_pos r_size] in *. subst n.
      destruct OI as (Hcur & Hlen & LR & TW & HD & Htx & Hdur & Hver).
      set (cp := 24 + slen D) in *.
      assert (HLi : live_at (recs (rtab s)) i = Some (pos, lenN v)).
      { apply LR; [exact Hi|]. inl. right. right. left. f_equal. f_equal. lia. }
      assert (HLEN : lenN (cur (sdata s)) = cp + lenN g + slen F + 16 + lenN v + slen R').
      { rewrite Hcur, ser_app. cbn [ser]. rewrite !lenN_app, lenN_enc, lenN_vrec. cbn [snd]. unfold cp, slen. lia. }
      apply wp_bind. unfold shrink_index. cbn [r_index r_pos r_size]. apply wp_bind.
      destruct (N.eqb_spec pos cp) as [Epos|Npos]; cbn [negb].
      + (* already in place *)
        assert (g = []) by (apply lenN_0_nil; lia). assert (F = []) by (apply slen_0; lia). subst g F.
        apply wp_ret. apply wp_ret.
        replace (cp + 16 + lenN v) with (24 + slen (D ++ [(i, v)]))
          by (rewrite slen_app, slen_cons, slen_nil; cbn [snd]; unfold cp; lia).
        apply (IH s (D ++ [(i, v)]) [] R').
        * unfold oinv. cbn [app] in *. rewrite lenN_nil in *.
          split; [rewrite Hcur, ser_app; cbn [ser app]; rewrite <- !app_assoc; reflexivity|].
          split; [exact Hlen|]. split.
          { intros q k m Hk. rewrite <- (LR q k m Hk). inl. rewrite ?lenN_nil. unfold cp.
            replace (24 + slen (D ++ [(i, v)]) + 0) with (24 + slen D + 0 + 16 + lenN v)
              by (rewrite slen_app, slen_cons, slen_nil; cbn [snd]; lia).
            replace (24 + slen D + 0) with (24 + slen D) by lia. tauto. }
          split; [exact TW|]. split; [|auto].
          intros k w H. apply in_app_or in H. destruct H as [H|[[= <- _]|[]]]; [exact (HD k w H)|exact Hi].
        * rewrite Hl'. f_equal. rewrite slen_app, slen_cons, slen_nil, lenN_nil. cbn [snd]. rewrite slen_nil in Hpos. lia.
        * intros s' D' g' R'' OI' HF' Hlm. apply (HQ s' D' g' R'' OI' HF').
          rewrite Hlm, lmap_app, (lmap_cons_live i v [] Hi). cbn [app]. rewrite (lmap_cons_live i v R' Hi), <- app_assoc. reflexivity.
      + (* moved down *)
        assert (Hcur2 : cur (sdata s) = (vrec ++ ser D ++ g ++ ser F ++ le64 i ++ le64 (lenN v)) ++ v ++ ser R').
        { rewrite Hcur, ser_app. cbn [ser]. unfold enc. cbn [fst snd]. rewrite <- !app_assoc. reflexivity. }
        apply wp_bind. unfold read_value, value_start. cbn [r_pos r_size].
        apply (wp_dread ops CN); [lia|].
        rewrite Hcur2, bs_read_mid;
          [|rewrite !app_length, !le64_length; change (length vrec) with 24%nat; unfold cp, slen, lenN in *; lia|unfold lenN; lia].

        apply wp_bind. unfold do_set_pos. apply wp_bind, wp_get_rtab, wp_put_rtab.
        apply wp_bind. unfold write_record. cbn [r_index r_pos r_size].
        apply (wp_dwrite ops CN); [st; lia|]. intros _. st.
        apply (wp_dwrite ops CN).
        { st. unfold lenN. rewrite bs_write_length, app_length, !le64_length. unfold lenN in HLEN. lia. }
        intros _. st. apply wp_ret.
        set (G := g ++ ser F ++ enc (i, v)).
        assert (HG : lenN G = lenN g + slen F + 16 + lenN v).
        { unfold G. rewrite !lenN_app, lenN_enc. cbn [snd]. unfold slen. lia. }
        assert (HcurG : cur (sdata s) = (vrec ++ ser D) ++ G ++ ser R').
        { rewrite Hcur, ser_app. cbn [ser]. unfold G. rewrite <- !app_assoc. reflexivity. }
        assert (Hplace : bs_write (bs_write (cur (sdata s)) (N.to_nat cp) (le64 i ++ le64 (lenN v))) (N.to_nat (cp + 16)) v
                         = (vrec ++ ser D) ++ (le64 i ++ le64 (lenN v)) ++ v ++ skipn (16 + length v) G ++ ser R').
        { rewrite HcurG. apply place_in.
          - rewrite app_length. change (length vrec) with 24%nat. unfold cp, slen, lenN. lia.
          - rewrite app_length, !le64_length. reflexivity.
          - unfold lenN in HG. lia.
          - lia. }
        rewrite Hplace. clear Hplace.
        set (g' := skipn (16 + length v) G).
        assert (Hg' : lenN g' = lenN g + slen F).
        { unfold g', lenN. rewrite skipn_length. unfold lenN in HG. lia. }
        destruct (set_pos_spec (rtab s) i cp TW) as (Hl1 & TWa & _ & _ & _).
        replace (cp + 16 + lenN v) with (24 + slen (D ++ [(i, v)]))
          by (rewrite slen_app, slen_cons, slen_nil; cbn [snd]; unfold cp; lia).
        set (s2 := set_cur (set_cur (set_rtab cdata s _) _) _).
        apply (IH s2 (D ++ [(i, v)]) g' R').
        * unfold oinv, s2. st.
          split. { rewrite ser_app. cbn [ser]. unfold enc. cbn [fst snd]. rewrite <- !app_assoc. reflexivity. }
          split.
          { rewrite <- Hlen, HLEN, <- !app_assoc, !lenN_app, !lenN_le64, lenN_vrec, Hg'. unfold cp, slen. lia. }
          split.
          { rewrite slen_app, slen_cons, slen_nil. cbn [snd]. rewrite Hg'.
            replace (24 + (slen D + (16 + lenN v + 0)) + (lenN g + slen F)) with (pos + 16 + lenN v) by (unfold cp in *; lia).
            apply (lrel_update (recs (rtab s)) _ (layout 24 D ++ layout (24 + slen D + lenN g) (F ++ (i, v) :: R')) _ i
                               (Some (cp, lenN v)) Hi LR).
            - intros k. rewrite Hl1. destruct (N.eqb_spec k i) as [->|]; [rewrite HLi|]; reflexivity.
            - intros q k m Hk Hki. inl. fold cp.
              replace (cp + lenN g + slen F) with pos by lia.
              assert (ZF : ~ In (q, k, m) (layout (cp + lenN g) F)).
              { intros H. apply layout_In in H. destruct H as (w & H & _). apply HF in H. congruence. }
              intuition congruence.
            - intros q m. inl. fold cp.
              assert (Z1 : ~ In (q, i, m) (layout 24 D)).
              { intros H. assert (In (q, i, m) (layout 24 D ++ layout (24 + slen D + lenN g) (F ++ (i, v) :: R'))) by (apply in_or_app; left; exact H).
                apply LR in H0; [|exact Hi]. rewrite HLi in H0. injection H0 as <- <-. apply layout_range in H. unfold cp in *. lia. }
              assert (Z2 : ~ In (q, i, m) (layout (pos + 16 + lenN v) R')).
              { intros H. assert (In (q, i, m) (layout 24 D ++ layout (24 + slen D + lenN g) (F ++ (i, v) :: R'))).
                { inl. fold cp. replace (cp + lenN g + slen F + 16 + lenN v) with (pos + 16 + lenN v) by lia. auto. }
                apply LR in H0; [|exact Hi]. rewrite HLi in H0. injection H0 as <- <-. apply layout_range in H. lia. }
              intuition congruence. }
          split; [exact TWa|]. split; [|auto].
          intros k w H. apply in_app_or in H. destruct H as [H|[[= <- _]|[]]]; [exact (HD k w H)|exact Hi].
        * rewrite Hl'. f_equal. rewrite slen_app, slen_cons, slen_nil, Hg'. cbn [snd]. unfold cp in *. lia.
        * intros s' D' g'' R'' OI' HF' Hlm. apply (HQ s' D' g'' R'' OI' HF').
          rewrite Hlm, !lmap_app, (lmap_free F HF), (lmap_cons_live i v [] Hi). cbn [app].
          rewrite (lmap_cons_live i v R' Hi), <- app_assoc. reflexivity.
  Qed.

  (* optimize_storage: the file becomes exactly the live regions in their old order *)
  Lemma optimize_spec s rg :
    tiles s rg ->
    wp (optimize_storage cdata ops) s
       (fun s' _ => tiles s' (lmap rg) /\ fps (rtab s') = [] /\ fsp (rtab s') = [] /\
                    tx s' = tx s /\ dur (sdata s') = (if tx s =? 0 then cur (sdata s') else dur (sdata s)))
       (fun _ _ => False).
  Proof.
    intros T. pose proof (tiles_elim _ _ T) as (Hcur & Hlen & [TL TF] & [TW FW] & Hv).
    unfold optimize_storage. apply wp_bind, wp_tx_begin. intros Htx.
    set (s1 := set_tx cdata s (tx s + 1)).
    apply wp_bind, wp_get_rtab. apply wp_bind. change (rtab s1) with (rtab s).
    rewrite (valid_records_spec s rg T). apply wp_ret.
    apply wp_bind.
    change (r_end version_record) with (24 + slen []).
    apply (shrink_all_spec s1 (lives 24 rg) s1 [] [] rg).
    { unfold oinv, s1. st. cbn [ser layout app]. change (24 + slen [] + lenN []) with 24.
      split; [exact Hcur|]. split; [reflexivity|]. split.
      { intros q i n Hi. apply TL. exact Hi. }
      split; [exact TW|]. split; [intros i v []|auto]. }
    { change (24 + slen [] + lenN []) with 24. reflexivity. }
    intros s2 D g R (Hcur2 & Hlen2 & LR2 & TW2 & HD2 & Htx2 & Hdur2 & Hver2) HFR Hlm.
    assert (ED : D = lmap rg) by (rewrite <- (lmap_live D HD2); exact Hlm).
    change (cur (sdata s1)) with (cur (sdata s)) in Hlen2. change (tx s1) with (tx s + 1) in Htx2.
    change (dur (sdata s1)) with (dur (sdata s)) in Hdur2. change (version s1) with (version s) in Hver2.
    apply wp_bind. unfold truncate. apply wp_bind, (wp_get_len ops CN).
    assert (HL2 : lenN (cur (sdata s2)) = 24 + slen D + lenN g + slen R).
    { rewrite Hcur2, !lenN_app, lenN_vrec. unfold slen. lia. }
    (* the state after the truncation *)
    assert (Fin : forall s3, cur (sdata s3) = vrec ++ ser D -> rtab s3 = rtab s2 -> tx s3 = tx s2 ->
                             dur (sdata s3) = dur (sdata s2) -> version s3 = version s2 ->
              wp (bind cdata (bind cdata (get_rtab cdata) (fun rs' => put_rtab cdata (clear_free rs')))
                     (fun _ => tx_commit cdata ops (tx s + 1))) s3
                 (fun s' _ => tiles s' (lmap rg) /\ fps (rtab s') = [] /\ fsp (rtab s') = [] /\
                              tx s' = tx s /\ dur (sdata s') = (if tx s =? 0 then cur (sdata s') else dur (sdata s)))
                 (fun _ _ => False)).
    { intros s3 Hc3 Hr3 Ht3 Hd3 Hv3.
      apply wp_bind, wp_bind, wp_get_rtab, wp_put_rtab.
      set (s4 := set_rtab cdata s3 (clear_free (rtab s3))).
      assert (T4 : tiles s4 D).
      { apply tiles_intro; unfold s4; st.
        - exact Hc3.
        - rewrite Hc3, lenN_app, lenN_vrec. fold (slen D). rewrite <- Hlen2, HL2 in Hlen. lia.
        - split.
          + intros q i n Hi. cbn [recs clear_free]. rewrite Hr3, <- (LR2 q i n Hi), in_app_iff.
            split; [intros H; left; exact H|]. intros [H|H]; [exact H|].
            apply layout_In in H. destruct H as (w & H & _). apply HFR in H. congruence.
          + intros q n. cbn [fps clear_free m_get]. split; [|discriminate]. intros H.
            apply layout_In in H. destruct H as (w & H & _). apply HD2 in H. congruence.
        - split; [cbn [recs clear_free]; rewrite Hr3; exact TW2|apply fwf_clear].
        - congruence. }
      apply (wp_tx_commit ops CN); [unfold s4; st; congruence|lia|].
      rewrite <- ED. split; [apply tiles_committed; exact T4|].
      assert (Hr4 : rtab (committed s4) = rtab s4)
        by (unfold committed; cbn zeta; destruct (tx (set_tx cdata s4 (tx s4 - 1)) =? 0); reflexivity).
      rewrite Hr4, committed_tx, committed_dur, committed_cur.
      assert (Ht4 : tx s4 = tx s + 1) by (unfold s4; st; congruence). rewrite Ht4.
      replace (tx s + 1 - 1) with (tx s) by lia.
      split; [reflexivity|]. split; [reflexivity|]. split; [reflexivity|].
      destruct (tx s =? 0); [reflexivity|]. unfold s4. st. congruence. }
    destruct (N.ltb_spec (24 + slen D) (lenN (cur (sdata s2)))) as [Hlt|Hge].
    - apply (wp_dresize ops CN). apply Fin; st; try reflexivity.
      rewrite Hcur2, (app_assoc vrec). apply bs_resize_prefix.
      rewrite app_length. change (length vrec) with 24%nat. unfold slen, lenN. lia.
    - apply wp_ret. assert (g = []) by (apply lenN_0_nil; lia). assert (R = []) by (apply slen_0; lia). subst g R.
      apply Fin; try reflexivity. rewrite Hcur2. cbn [ser app]. rewrite !app_nil_r. reflexivity.
  Qed.
End Optimize.
