(* StoredDbProofs.v — proofs (stored database, part 3): the L3 statements.
     load_db_of_stored         a record store that holds d loads (the executable `load_db`), and what it loads is d
                               up to `sd_eqv`
     stored_db_heq             the relation depends on the map index -> bytes only
     sd_maintenance            optimize / drop+open / backup+open (with no transaction open) keep `stored_db`, and
                               `load_db` afterwards returns THE SAME database (Leibniz equality) as before
     sd_maintenance_on_storage the same on the model of storage.rs (through C04's step_refines, which contains the L1
                               theorem of C05)
     sd_load_on_storage        the loader program run on the model of storage.rs
     sd_stores_agree           two record stores holding the same database (a file-like and a memory-like one) load
                               to databases equal up to sd_eqv (C06) *)
From Coq Require Import Permutation.
From Agdb Require Import Bytes BytesProofs Utf8 Codec DbValue ValueIndex Graph DbModel Records RecordsProofs Storage StorageSpec
  StorageLayout StorageWp StorageRefine StorageProofs Collections CollValues CollWp CollBytes CollVecBase CollVecOps CollVec
  CollVec2 CollElems CollSep CollMap CollGraph CollValuesProofs StoredDb StoredDbRep StoredDbRun StoredDbLoad.
From Coq Require Import ZifyBool ZifyNat ZifyN.
Open Scope N_scope.

(* ---------------- sd_eqv is an equivalence ---------------- *)
Lemma sd_index_eqv_refl a : sd_index_eqv a a.
Proof. split; reflexivity. Qed.
Lemma sd_index_eqv_sym a b : sd_index_eqv a b -> sd_index_eqv b a.
Proof. intros [H1 H2]. split; symmetry; assumption. Qed.
Lemma sd_index_eqv_trans a b c : sd_index_eqv a b -> sd_index_eqv b c -> sd_index_eqv a c.
Proof. intros [H1 H2] [H3 H4]. split; etransitivity; eassumption. Qed.

Lemma Forall2_refl' {A} (R : A -> A -> Prop) : (forall a, R a a) -> forall l, Forall2 R l l.
Proof. intros HR l. induction l; constructor; auto. Qed.
Lemma Forall2_sym' {A} (R : A -> A -> Prop) : (forall a b, R a b -> R b a) -> forall l l', Forall2 R l l' -> Forall2 R l' l.
Proof. intros HR l l' H. induction H; constructor; auto. Qed.
Lemma Forall2_trans' {A} (R : A -> A -> Prop) : (forall a b c, R a b -> R b c -> R a c) ->
  forall l1 l2 l3, Forall2 R l1 l2 -> Forall2 R l2 l3 -> Forall2 R l1 l3.
Proof.
  intros HR l1 l2 l3 H. revert l3. induction H as [|a b l1 l2 Hab _ IH]; intros l3 H3; inversion H3; subst; constructor; eauto.
Qed.

Lemma sd_eqv_refl d : sd_eqv d d.
Proof. constructor; try reflexivity; [split; reflexivity|apply Forall2_refl', sd_index_eqv_refl]. Qed.
Lemma sd_eqv_sym d d' : sd_eqv d d' -> sd_eqv d' d.
Proof.
  intros [H1 H2 H3 H4 [H5 H6] H7]. constructor.
  - symmetry; exact H1.
  - symmetry; exact H2.
  - intros a. symmetry. apply H3.
  - intros i. symmetry. apply H4.
  - split; symmetry; assumption.
  - apply Forall2_sym'; [apply sd_index_eqv_sym|exact H7].
Qed.
Lemma sd_eqv_trans d1 d2 d3 : sd_eqv d1 d2 -> sd_eqv d2 d3 -> sd_eqv d1 d3.
Proof.
  intros [A1 A2 A3 A4 [A5 A6] A7] [B1 B2 B3 B4 [B5 B6] B7]. constructor.
  - congruence.
  - congruence.
  - intros a. rewrite A3. apply B3.
  - intros i. rewrite A4. apply B4.
  - split; etransitivity; eassumption.
  - eapply Forall2_trans'; [apply sd_index_eqv_trans|exact A7|exact B7].
Qed.

(* ---------------- (a) a stored database loads ---------------- *)
Definition sd_spec_of (m : vmap) : spec := {| sm := m; sdepth := 0; scommitted := m |}.

Theorem load_db_of_stored m root d :
  stored_db (m_get m) root d ->
  exists d', load_db m root = Some d' /\ sd_eqv d d' /\ undo d' = [].
Proof.
  intros H.
  destruct (sd_run_sound true (sd_load root) (sd_spec_of m) _ (sd_reads_load root) (sd_load_spec true root d (sd_spec_of m) H))
    as (_ & _ & d' & Er & He & Hu).
  exists d'. unfold load_db. cbn [sd_spec_of sm] in Er. rewrite Er. auto.
Qed.

(* ---------------- the relation depends on the map only ---------------- *)
Lemma mrep_heq K V EK EV LK LV g g' d ss ks vs t :
  mrep K V EK EV LK LV g d ss ks vs t -> heq g' g -> mrep K V EK EV LK LV g' d ss ks vs t.
Proof. intros [H1 H2 H3] Hm. constructor; auto. eapply msep_heq; eauto. Qed.

Lemma dbv_rep_heq g g' bs v : dbv_rep g bs v -> heq g' g -> dbv_rep g' bs v.
Proof. intros H Hm. eapply (el_local ce_dbvalue law_dbvalue); [exact H|]. intros j _. apply Hm. Qed.

Lemma sd_map_rep_heq K V EK EV LK LV g g' w idx l :
  sd_map_rep K V EK EV LK LV g w idx l -> heq g' g -> sd_map_rep K V EK EV LK LV g' w idx l.
Proof. intros (H1 & H2 & H3) Hm. split; [eapply mrep_heq; eauto|auto]. Qed.

Lemma sd_ix_rep_heq g g' : heq g' g -> forall es ws ixs, sd_ix_rep g es ws ixs -> sd_ix_rep g' es ws ixs.
Proof.
  intros Hm. induction es as [|e r IH]; intros [|w ws] [|ix ixs] H; cbn [sd_ix_rep] in *; auto.
  destruct H as [(ixb & mi & E & Hmi & Hk & Hmap) Hr]. split; [|apply IH; exact Hr].
  exists ixb, mi. split; [exact E|]. split; [exact Hmi|]. split; [eapply dbv_rep_heq; eauto|].
  eapply sd_map_rep_heq; eauto.
Qed.

Lemma sd_kv_rep_heq g g' : heq g' g -> forall idxs ws kvs, sd_kv_rep g idxs ws kvs -> sd_kv_rep g' idxs ws kvs.
Proof.
  intros Hm. induction idxs as [|i r IH]; intros [|w ws] [|l kvs] H; cbn [sd_kv_rep] in *; auto.
  destruct H as [Hs Hr]. split; [|apply IH; exact Hr].
  destruct w as [[h bss]|]; cbn [sd_kv_slot_rep] in *; [|exact Hs].
  destruct Hs as (H1 & H2 & H3). split; [exact H1|]. split; [exact H2|]. eapply vrep_heq; eauto.
Qed.

Theorem stored_db_heq g g' root d : heq g' g -> stored_db g root d -> stored_db g' root d.
Proof.
  intros Hm (w & [Hroot Hu64 Hver Hg Hgi Ha1 Hk1 Ha2 Hk2 Hiv Hii Hix Hvv Hvi Hv Hnd]). exists w. constructor; auto.
  - rewrite Hm. exact Hroot.
  - eapply grep_heq; eauto.
  - eapply sd_map_rep_heq; eauto.
  - eapply sd_map_rep_heq; eauto.
  - eapply vrep_heq; eauto.
  - eapply sd_ix_rep_heq; eauto.
  - eapply vrep_heq; eauto.
  - eapply sd_kv_rep_heq; eauto.
Qed.

(* ---------------- (b) maintenance ---------------- *)
(* on the abstract record map: with no transaction open, optimize / drop+open / backup+open leave the map as it is *)
Lemma sd_maint_spec fl sp o v sp' :
  cv_is_maint o = true -> sdepth sp = 0 -> spec_step fl sp o v = Some sp' -> sm sp' = sm sp /\ sdepth sp' = 0.
Proof.
  intros Hm Hd Hs. destruct o; try discriminate Hm; cbn [spec_step] in Hs.
  - unfold guard in Hs. destruct (is_unit v); [|discriminate]. injection Hs as <-. auto.
  - rewrite Hd in Hs. cbn [N.eqb negb andb] in Hs. rewrite andb_false_r in Hs.
    unfold guard in Hs. destruct (is_unit v); [|discriminate]. injection Hs as <-. auto.
  - unfold guard in Hs. destruct (is_unit v); [|discriminate]. injection Hs as <-. auto.
Qed.

Theorem sd_maintenance fl sp o v sp' root d :
  cv_is_maint o = true -> sdepth sp = 0 -> spec_step fl sp o v = Some sp' ->
  stored_db (hp sp) root d ->
  stored_db (hp sp') root d /\ sdepth sp' = 0 /\ load_db (sm sp') root = load_db (sm sp) root.
Proof.
  intros Hm Hd Hs H. destruct (sd_maint_spec fl sp o v sp' Hm Hd Hs) as [E D'].
  unfold hp. rewrite E. auto.
Qed.

Section OnStorage.
  Variable ops : store_ops cdata.
  Variable fl : bool.
  Hypothesis K : kind ops fl.

  (* on the model of storage.rs: C04's step_refines carries the L1 maintenance theorem *)
  Theorem sd_maintenance_on_storage s sp o root d :
    Rel s sp -> sdepth sp = 0 -> cv_is_maint o = true -> stored_db (hp sp) root d ->
    snd (st_step cdata ops s o) = ObPanic \/
    exists sp', Rel (fst (st_step cdata ops s o)) sp' /\ sdepth sp' = 0 /\
                stored_db (hp sp') root d /\
                exists d', load_db (sm sp) root = Some d' /\ load_db (sm sp') root = Some d' /\ sd_eqv d d'.
  Proof.
    intros RL Hd Hm H. destruct (step_refines ops fl K s sp o RL) as [P|(sp' & Hs & RL')]; [left; exact P|right].
    destruct (sd_maintenance fl sp o _ sp' root d Hm Hd Hs H) as (H' & D' & EL).
    exists sp'. split; [exact RL'|]. split; [exact D'|]. split; [exact H'|].
    destruct (load_db_of_stored (sm sp) root d H) as (d' & E1 & He & _).
    exists d'. rewrite EL. auto.
  Qed.

  (* the loader program run on the model of storage.rs itself: it returns what `load_db` computes from the abstract map *)
  Theorem sd_load_on_storage s sp root d :
    Rel s sp -> stored_db (hp sp) root d ->
    let r := cp_run (st_step cdata ops) (sd_load root) s in
    snd r = CrDead \/
    (Rel (fst r) sp /\ exists d', snd r = CrOk d' /\ load_db (sm sp) root = Some d' /\ sd_eqv d d').
  Proof.
    intros RL H r.
    destruct (sd_run_model ops fl K (sd_load root) s sp (sd_reads_load root) RL) as [D|[E RL']]; [left; exact D|right].
    split; [exact RL'|]. destruct (load_db_of_stored (sm sp) root d H) as (d' & E1 & He & _).
    exists d'. split; [|auto]. unfold r. rewrite E. unfold load_db in E1.
    destruct (snd (cp_run sd_step (sd_load root) (sm sp))); cbn [sd_result] in E1; congruence.
  Qed.
End OnStorage.

(* ---------------- (c) two record stores holding one database ---------------- *)
Theorem sd_stores_agree m1 m2 root1 root2 d :
  stored_db (m_get m1) root1 d -> stored_db (m_get m2) root2 d ->
  exists d1 d2, load_db m1 root1 = Some d1 /\ load_db m2 root2 = Some d2 /\ sd_eqv d1 d2 /\
                gr d1 = gr d2 /\ vals d1 = vals d2.
Proof.
  intros H1 H2.
  destruct (load_db_of_stored m1 root1 d H1) as (d1 & E1 & He1 & _).
  destruct (load_db_of_stored m2 root2 d H2) as (d2 & E2 & He2 & _).
  exists d1, d2. split; [exact E1|]. split; [exact E2|].
  assert (He : sd_eqv d1 d2) by (eapply sd_eqv_trans; [apply sd_eqv_sym; exact He1|exact He2]).
  split; [exact He|]. split; [apply (se_graph _ _ He)|apply (se_vals _ _ He)].
Qed.

(* the file-like and the memory-like model of storage.rs, each in a state that holds d: the loader program gives
   databases equal up to sd_eqv on both (or the storage panics) *)
Theorem sd_variants_agree sf spf sm_ spm root d :
  Rel sf spf -> Rel sm_ spm -> stored_db (hp spf) root d -> stored_db (hp spm) root d ->
  let rf := cp_run (st_step cdata ops_file) (sd_load root) sf in
  let rm := cp_run (st_step cdata ops_mem) (sd_load root) sm_ in
  snd rf = CrDead \/ snd rm = CrDead \/
  exists df dm, snd rf = CrOk df /\ snd rm = CrOk dm /\ sd_eqv df dm /\ gr df = gr dm /\ vals df = vals dm.
Proof.
  intros RLf RLm Hf Hm rf rm.
  destruct (sd_load_on_storage ops_file true kind_file sf spf root d RLf Hf) as [D|(_ & df & Ef & _ & Hef)]; [left; exact D|].
  destruct (sd_load_on_storage ops_mem false kind_mem sm_ spm root d RLm Hm) as [D|(_ & dm & Em & _ & Hem)]; [right; left; exact D|].
  right. right. exists df, dm. split; [exact Ef|]. split; [exact Em|].
  assert (He : sd_eqv df dm) by (eapply sd_eqv_trans; [apply sd_eqv_sym; exact Hef|exact Hem]).
  split; [exact He|]. split; [apply (se_graph _ _ He)|apply (se_vals _ _ He)].
Qed.
