(* SearchLiveProofs.v — `search_live` (every id returned by a search exists) reduced to the two
   traversal engines: index searches and element scans are discharged here from the invariant;
   sorting and slicing only select from the engine's result. *)
From Agdb Require Import Bytes BytesProofs DbValue Graph DbModel Search Queries Revisions
  GraphSim GraphWf ElementsGraphProofs
  AliasProofs KvProofs KvDbProofs IndexProofs IndexDbProofs IndexDb3Proofs IndexDb4Proofs IndexInvProofs
  DbInvProofs QueryInvProofs.
From Coq Require Import ZifyBool.
Open Scope Z_scope.

(* what is assumed of the graph traversals (C14 / C17 territory): they only return existing elements *)
Definition traversal_live (rv : revision) : Prop :=
  (forall d a reverse origin conds h ids,
     wf (gr d) -> graph_index (gr d) origin = true ->
     graph_search rv d a reverse origin conds h = Some ids ->
     forall id, In id ids -> graph_index (gr d) id = true) /\
  (forall d conds origin dest ids,
     wf (gr d) -> path_search rv d conds origin dest = Some ids ->
     forall id, In id ids -> graph_index (gr d) id = true).

Lemma insert_sorted_in cmp x l y : In y (insert_sorted cmp x l) -> y = x \/ In y l.
Proof.
  induction l as [|z l IH]; cbn [insert_sorted].
  - intros [<-|[]]. now left.
  - destruct (cmp x z).
    + intros [<-|H]; [now left|now right].
    + intros [<-|H]; [now left|now right].
    + intros [<-|H]; [right; now left|]. apply IH in H. destruct H; [now left|right; now right].
Qed.

Lemma stable_sort_in cmp l y : In y (stable_sort cmp l) -> In y l.
Proof.
  unfold stable_sort. induction l as [|x l IH]; cbn [fold_right]; [trivial|].
  intros H. apply insert_sorted_in in H. destruct H as [->|H]; [now left|right; now apply IH].
Qed.

Lemma firstn_in {A} n (l : list A) y : In y (firstn n l) -> In y l.
Proof.
  revert l. induction n as [|n IH]; intros [|x l]; cbn [firstn In]; try tauto.
  intros [<-|H]; [now left|right; now apply IH].
Qed.

Lemma skipn_in {A} n (l : list A) y : In y (skipn n l) -> In y l.
Proof.
  revert l. induction n as [|n IH]; intros [|x l]; cbn [skipn In]; try tauto.
  intros H. right. now apply IH.
Qed.

Lemma slice_ids_in rv limit offset l out y : slice_ids rv limit offset l = SOk out -> In y out -> In y l.
Proof.
  unfold slice_ids.
  destruct ((limit =? 0) && (offset =? 0)); [intros H; inversion H; subst; trivial|].
  destruct (limit =? 0).
  - destruct (offset <=? Z.of_nat (length l)).
    + intros H; inversion H; subst. apply skipn_in.
    + destruct (fix_slice_clamp rv); [|discriminate]. intros H; inversion H; subst. intros [].
  - destruct (offset =? 0).
    + intros H; inversion H; subst. apply firstn_in.
    + destruct (offset + limit <=? Z.of_nat (length l)).
      * intros H; inversion H; subst. intros Hy. apply firstn_in in Hy. now apply skipn_in in Hy.
      * destruct (fix_slice_clamp rv); [|discriminate]. intros H; inversion H; subst.
        intros Hy. apply firstn_in in Hy. now apply skipn_in in Hy.
Qed.

Lemma sorted_slice_in rv limit offset cmp (r : sres) out y :
  match r with SOk ids => slice_ids rv limit offset (stable_sort cmp ids) | e => e end = SOk out ->
  In y out -> exists l, r = SOk l /\ In y l.
Proof.
  destruct r as [l|e|]; try discriminate. intros H Hy. exists l. split; [reflexivity|].
  apply (stable_sort_in cmp). now apply (slice_ids_in rv limit offset _ out).
Qed.

Lemma opt_ids_ok o l : opt_ids o = SOk l -> o = Some l.
Proof. destruct o; cbn; [intros H; now inversion H|discriminate]. Qed.

Lemma index_entry_live d key ids p :
  idx_exact d -> idx_find (indexes d) key = Some ids -> In p ids -> live d (snd p) = true.
Proof.
  intros Hd Hf Hp. pose proof (Hd key ids Hf _ respects_true (snd p)) as H.
  destruct (live d (snd p)); [reflexivity|]. exfalso.
  assert (Hpos : (0 < cntP ids (fun _ => true) (snd p))%nat); [|lia].
  clear -Hp. induction ids as [|q ids IH]; [destruct Hp|]. rewrite cntP_cons.
  destruct Hp as [->|Hp]; [rewrite Z.eqb_refl; cbn; lia|]. specialize (IH Hp). lia.
Qed.

Theorem search_live_of_traversal rv : traversal_live rv -> search_live rv.
Proof.
  intros [Hgs Hps] d s ids Hd Hs id Hin. unfold live.
  pose proof (proj1 Hd) as Hwf. pose proof (proj1 (proj2 (proj2 Hd))) as Hal.
  unfold search in Hs. destruct (s_algorithm s) eqn:Ealg.
  - (* breadth first *)
    destruct (is_zero_id (s_destination s)).
    + destruct (db_id d (s_origin s)) as [o|e] eqn:Eo; [|discriminate].
      pose proof (db_id_live d _ o Hal Eo) as Hlo.
      destruct (s_order_by s) as [|ko ord].
      * apply opt_ids_ok in Hs. now apply (Hgs d BFS false o _ _ ids Hwf Hlo Hs).
      * destruct (sorted_slice_in _ _ _ _ _ _ id Hs Hin) as (l0 & El & Hl). apply opt_ids_ok in El.
        now apply (Hgs d BFS false o _ _ l0 Hwf Hlo El).
    + destruct (is_zero_id (s_origin s)).
      * destruct (db_id d (s_destination s)) as [o|e] eqn:Eo; [|discriminate].
        pose proof (db_id_live d _ o Hal Eo) as Hlo.
        destruct (s_order_by s) as [|ko ord].
        -- apply opt_ids_ok in Hs. now apply (Hgs d BFS true o _ _ ids Hwf Hlo Hs).
        -- destruct (sorted_slice_in _ _ _ _ _ _ id Hs Hin) as (l0 & El & Hl). apply opt_ids_ok in El.
           now apply (Hgs d BFS true o _ _ l0 Hwf Hlo El).
      * destruct (db_id d (s_origin s)) as [o|e]; [|discriminate].
        destruct (db_id d (s_destination s)) as [t|e]; [|discriminate].
        destruct (sorted_slice_in _ _ _ _ _ _ id Hs Hin) as (l0 & El & Hl). apply opt_ids_ok in El.
        now apply (Hps d _ o t l0 Hwf El).
  - (* depth first *)
    destruct (is_zero_id (s_destination s)).
    + destruct (db_id d (s_origin s)) as [o|e] eqn:Eo; [|discriminate].
      pose proof (db_id_live d _ o Hal Eo) as Hlo.
      destruct (s_order_by s) as [|ko ord].
      * apply opt_ids_ok in Hs. now apply (Hgs d DFS false o _ _ ids Hwf Hlo Hs).
      * destruct (sorted_slice_in _ _ _ _ _ _ id Hs Hin) as (l0 & El & Hl). apply opt_ids_ok in El.
        now apply (Hgs d DFS false o _ _ l0 Hwf Hlo El).
    + destruct (is_zero_id (s_origin s)).
      * destruct (db_id d (s_destination s)) as [o|e] eqn:Eo; [|discriminate].
        pose proof (db_id_live d _ o Hal Eo) as Hlo.
        destruct (s_order_by s) as [|ko ord].
        -- apply opt_ids_ok in Hs. now apply (Hgs d DFS true o _ _ ids Hwf Hlo Hs).
        -- destruct (sorted_slice_in _ _ _ _ _ _ id Hs Hin) as (l0 & El & Hl). apply opt_ids_ok in El.
           now apply (Hgs d DFS true o _ _ l0 Hwf Hlo El).
      * destruct (db_id d (s_origin s)) as [o|e]; [|discriminate].
        destruct (db_id d (s_destination s)) as [t|e]; [|discriminate].
        destruct (sorted_slice_in _ _ _ _ _ _ id Hs Hin) as (l0 & El & Hl). apply opt_ids_ok in El.
        now apply (Hps d _ o t l0 Hwf El).
  - (* index *)
    destruct (s_conditions s) as [|[lg md cd] rest]; [discriminate|].
    destruct cd; try discriminate.
    destruct (idx_find (indexes d) key) as [ids0|] eqn:Ef; [|discriminate].
    inversion Hs; subst. apply in_map_iff in Hin. destruct Hin as [p [<- Hp]]. apply filter_In in Hp.
    apply (index_entry_live d key ids0 p); [apply Hd|exact Ef|tauto].
  - (* elements *)
    destruct (s_order_by s) as [|ko ord].
    + inversion Hs; subst. eapply elements_search_existing; eassumption.
    + apply (slice_ids_in _ _ _ _ _ id Hs) in Hin. apply stable_sort_in in Hin.
      eapply elements_search_existing; eassumption.
Qed.
