(* OpenMapRefineLookup.v — on a table satisfying the probe-chain invariant the lookups return exactly the
   stored pairs: `values k` = the values of ALL slots holding k, in probe order from hash(k) mod capacity;
   `value k` = the first of them.  The probe stops at the first Empty slot or after a full cycle (the
   `finished` flag of fix fc221a8); the chain invariant says no slot of k lies beyond that Empty slot. *)
From Coq Require Import List NArith ZArith Arith Bool Lia ZifyBool ZifyNat ZifyN Permutation.
Import ListNotations.
From Agdb Require Import OpenMap OpenMapProofs OpenMapSpec OpenMapRefineBase.
Ltac Zify.zify_post_hook ::= Z.div_mod_to_equations.

Lemma Permutation_flat_map_l : forall A B (f : A -> list B) l1 l2,
  Permutation l1 l2 -> Permutation (flat_map f l1) (flat_map f l2).
Proof.
  intros A B f l1 l2 HP. induction HP as [|x l1 l2 _ IH|x y l|l1 l2 l3 _ IH1 _ IH2]; cbn [flat_map].
  - constructor.
  - apply Permutation_app_head. exact IH.
  - rewrite !app_assoc. apply Permutation_app_tail. apply Permutation_app_comm.
  - eapply Permutation_trans; eassumption.
Qed.

Section Lookup.
  Variables K V : Type.
  Variable keqb : K -> K -> bool.
  Variable veqb : V -> V -> bool.
  Variable h : K -> N.
  Variable rv : om_revision.

  Notation slotT := (slot K V).
  Notation isv := (is_valid K V).
  Notation E := (@Empty K V).
  Notation D := (@Deleted K V).
  Notation ents := (entries K V).
  Notation hp := (hpos K h).
  Notation chainh := (chain K V h).
  Notation cap := (capacity K V).
  Notation omapT := (omap K V).
  Notation vals := (mm_values K V keqb).

  Lemma vals_app : forall k a b, vals k (a ++ b) = vals k a ++ vals k b.
  Proof. intros. unfold mm_values. rewrite filter_app, map_app. reflexivity. Qed.

  Lemma vals_perm : forall k a b, Permutation a b -> Permutation (vals k a) (vals k b).
  Proof. intros k a b HP. unfold mm_values. apply Permutation_map. apply Permutation_filter. exact HP. Qed.

  (* the slots at a list of positions *)
  Definition at_pos (sl : list slotT) (ps : list nat) : list slotT := map (fun p => nth p sl E) ps.

  (* values of key k stored at the positions ps, in that order *)
  Definition vals_at (sl : list slotT) (k : K) (ps : list nat) : list V := vals k (ents (at_pos sl ps)).

  Lemma vals_at_cons : forall sl k p ps,
    vals_at sl k (p :: ps) = vals k (ent K V (nth p sl E)) ++ vals_at sl k ps.
  Proof. intros. unfold vals_at, at_pos. cbn [map]. rewrite entries_cons, vals_app. reflexivity. Qed.

  Hypothesis keqb_eq : forall a b, keqb a b = true <-> a = b.

  Lemma vals_at_none : forall sl k ps,
    (forall q, In q ps -> matches_k K V keqb k (nth q sl E) = false) -> vals_at sl k ps = [].
  Proof.
    intros sl k. induction ps as [|p ps IH]; intros Hnone; [reflexivity|].
    rewrite vals_at_cons, IH by (intros q Hq; apply Hnone; right; exact Hq).
    pose proof (Hnone p (or_introl eq_refl)) as Hp. rewrite app_nil_r.
    destruct (nth p sl E) as [| |k' v']; try reflexivity. cbn in Hp. cbn. rewrite Hp. reflexivity.
  Qed.

  (* the rest of the probe cycle, from pos back to the start *)
  Definition rest (c start pos : nat) : list nat := pseq c pos (rem c start pos).

  Lemma rest_wrap : forall c start pos, start < c -> pos < c -> next_pos c pos = start -> rest c start pos = [pos].
  Proof. intros c start pos Hs Hp Hn. unfold rest. rewrite (rem_wrap c start pos Hs Hp Hn). reflexivity. Qed.

  Lemma rest_step : forall c start pos, start < c -> pos < c -> next_pos c pos <> start ->
    rest c start pos = pos :: rest c start (next_pos c pos).
  Proof.
    intros c start pos Hs Hp Hn. unfold rest. rewrite <- (rem_next c start pos Hp Hs Hn).
    rewrite Nat.add_1_r. reflexivity.
  Qed.

  (* an Empty slot at the probed position: no slot of k is left in the rest of the cycle *)
  Lemma rest_after_empty : forall c sl k pos, 0 < c -> chainh c sl -> pos < c -> nth pos sl E = E ->
    vals_at sl k (rest c (hp k c) pos) = [].
  Proof.
    intros c sl k pos Hc Hch Hpos He. apply vals_at_none. intros q Hq.
    pose proof (hpos_lt K keqb h k c Hc) as Hs.
    destruct (pseq_in c (hp k c) Hs _ pos q Hpos (le_n _) Hq) as [Hqc Hle].
    destruct (matches_k K V keqb k (nth q sl E)) eqn:Hm; [|reflexivity]. exfalso.
    destruct (matches_valid K V keqb keqb_eq k _ Hm) as [v Hv].
    pose proof (chain_empty_visited K V keqb h c sl pos q k v Hch Hc Hpos He Hqc Hv). lia.
  Qed.

  Hypothesis Hfin : fix_iter_finished rv = true.

  Lemma values_loop_spec : forall c sl k, 0 < c -> chainh c sl ->
    forall fuel pos acc, pos < c -> rem c (hp k c) pos <= fuel ->
      values_loop K V keqb rv fuel sl c (hp k c) k pos acc = Done (acc ++ vals_at sl k (rest c (hp k c) pos)).
  Proof.
    intros c sl k Hc Hch. pose proof (hpos_lt K keqb h k c Hc) as Hs.
    induction fuel as [|f IH]; intros pos acc Hpos Hrem.
    { pose proof (rem_pos c (hp k c) pos Hs Hpos). lia. }
    cbn [values_loop]. rewrite Hfin. cbn [andb].
    destruct (nth pos sl E) as [| |k' v'] eqn:Hsl.
    - rewrite rest_after_empty by assumption. rewrite app_nil_r. reflexivity.
    - destruct (Nat.eqb_spec (hp k c) (next_pos c pos)) as [Heq|Hne].
      + rewrite rest_wrap by auto. rewrite vals_at_cons, Hsl. cbn. rewrite app_nil_r. reflexivity.
      + rewrite rest_step by auto. rewrite vals_at_cons, Hsl. cbn [ent mm_values filter map app].
        apply IH; [apply next_pos_lt; exact Hpos|].
        pose proof (rem_next c (hp k c) pos Hpos Hs ltac:(lia)). lia.
    - destruct (Nat.eqb_spec (hp k c) (next_pos c pos)) as [Heq|Hne].
      + rewrite rest_wrap by auto. rewrite vals_at_cons, Hsl. cbn. destruct (keqb k' k); cbn; rewrite ?app_nil_r; reflexivity.
      + rewrite rest_step by auto. rewrite vals_at_cons, Hsl.
        assert (Hr : rem c (hp k c) (next_pos c pos) <= f).
        { pose proof (rem_next c (hp k c) pos Hpos Hs ltac:(lia)). lia. }
        pose proof (next_pos_lt c pos Hpos) as Hnp.
        cbn. destruct (keqb k' k); cbn.
        * rewrite IH by assumption. rewrite <- app_assoc. reflexivity.
        * apply IH; assumption.
  Qed.

  Lemma value_loop_spec : forall c sl k, 0 < c -> chainh c sl ->
    forall fuel pos, pos < c -> rem c (hp k c) pos <= fuel ->
      value_loop K V keqb fuel sl c (hp k c) k pos = Done (hd_error (vals_at sl k (rest c (hp k c) pos))).
  Proof.
    intros c sl k Hc Hch. pose proof (hpos_lt K keqb h k c Hc) as Hs.
    induction fuel as [|f IH]; intros pos Hpos Hrem.
    { pose proof (rem_pos c (hp k c) pos Hs Hpos). lia. }
    cbn [value_loop].
    destruct (nth pos sl E) as [| |k' v'] eqn:Hsl.
    - rewrite rest_after_empty by assumption. reflexivity.
    - destruct (Nat.eqb_spec (hp k c) (next_pos c pos)) as [Heq|Hne].
      + rewrite rest_wrap by auto. rewrite vals_at_cons, Hsl. reflexivity.
      + rewrite rest_step by auto. rewrite vals_at_cons, Hsl. cbn [ent mm_values filter map app].
        apply IH; [apply next_pos_lt; exact Hpos|].
        pose proof (rem_next c (hp k c) pos Hpos Hs ltac:(lia)). lia.
    - destruct (Nat.eqb_spec (hp k c) (next_pos c pos)) as [Heq|Hne].
      + rewrite rest_wrap by auto. rewrite vals_at_cons, Hsl. cbn. destruct (keqb k' k); reflexivity.
      + rewrite rest_step by auto. rewrite vals_at_cons, Hsl.
        cbn. destruct (keqb k' k); cbn; [reflexivity|].
        apply IH; [apply next_pos_lt; exact Hpos|].
        pose proof (rem_next c (hp k c) pos Hpos Hs ltac:(lia)). lia.
  Qed.

  (* a full cycle sees every slot once *)
  Lemma vals_at_full : forall sl k s, s < length sl ->
    Permutation (vals_at sl k (pseq (length sl) s (length sl))) (vals k (ents sl)).
  Proof.
    intros sl k s Hs. unfold vals_at. apply vals_perm. unfold entries. apply Permutation_flat_map_l.
    unfold at_pos.
    eapply Permutation_trans; [apply Permutation_map; apply pseq_full_perm; exact Hs|].
    rewrite (map_nth_seq_id _ E sl). apply Permutation_refl.
  Qed.

  (* the values of k in probe order *)
  Definition probe_values (m : omapT) (k : K) : list V :=
    vals_at (slots m) k (pseq (cap m) (hp k (cap m)) (cap m)).

  Theorem values_spec : forall (m : omapT) k, chainh (cap m) (slots m) ->
    values K V keqb h rv m k = Done (probe_values m k) /\
    value K V keqb h m k = Done (hd_error (probe_values m k)) /\
    Permutation (probe_values m k) (vals k (ents (slots m))).
  Proof.
    intros m k Hch. unfold values, values_fuel, value, value_fuel, probe_fuel, probe_values.
    destruct (Nat.eqb_spec (cap m) 0) as [Hz|Hnz].
    - unfold capacity in *. destruct (slots m); [|discriminate]. cbn. auto.
    - assert (Hc : 0 < cap m) by lia. pose proof (hpos_lt K keqb h k (cap m) Hc) as Hs.
      rewrite values_loop_spec, value_loop_spec; auto; try (rewrite rem_start; lia).
      unfold rest. rewrite rem_start. cbn [app]. repeat split.
      unfold capacity in *. apply vals_at_full. exact Hs.
  Qed.

End Lookup.
