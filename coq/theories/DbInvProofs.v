(* DbInvProofs.v — the combined state invariant of C09 / C10 / C11 and its preservation by the
   DbImpl-level mutations, including the ones that change the graph (uses the graph invariant `wf`
   of C08 through GraphLive.v). *)
From Agdb Require Import Bytes BytesProofs DbValue Graph DbModel Search Queries
  GraphArr GraphSim GraphProofs GraphRemove GraphSpec GraphWf GraphC08 GraphLive DbCascadeProofs
  AssocProofs ImapProofs DbFrameProofs AliasProofs DbValueEqProofs KvProofs KvDbProofs KvSelectProofs
  IndexProofs IndexDbProofs IndexDb2Proofs IndexDb3Proofs IndexDb4Proofs IndexInvProofs.
From Coq Require Import ZifyBool.
Open Scope Z_scope.

(* graph well-formed; aliases one-to-one and on existing nodes; no element with two equal keys;
   indexes exact, values only on existing elements, no key indexed twice *)
Definition Inv (d : db) : Prop :=
  wf (gr d) /\ alias_bij d /\ alias_nodes d /\ kvs_distinct (vals d) /\ idx_inv d.

Lemma Inv_new : Inv db_new.
Proof.
  split; [exact (proj2 new_wf)|]. split; [exact alias_bij_new|]. split; [exact alias_nodes_new|].
  split; [exact kvs_distinct_nil|exact idx_inv_new].
Qed.

Lemma live_pos_node d id : 0 < id -> live d id = is_node (gr d) id.
Proof.
  intros H. unfold live, graph_index. destruct (Z.ltb_spec id 0); [lia|].
  destruct (Z.ltb_spec 0 id); [reflexivity|lia].
Qed.

Lemma live_nonzero d id : live d id = true -> id <> 0.
Proof. intros H ->. unfold live, graph_index in H. cbn in H. discriminate. Qed.

Lemma alias_nodes_live d a id : alias_nodes d -> imap_value (aliases d) a = Some id -> 0 < id /\ live d id = true.
Proof. intros Hn H. destruct (Hn a id H) as [Hp Hi]. split; [exact Hp|]. now rewrite live_pos_node. Qed.

(* db_id resolves only to existing elements *)
Lemma db_id_live d q id : alias_nodes d -> db_id d q = ROk id -> live d id = true.
Proof.
  intros Hn. destruct q as [i|a]; cbn [db_id].
  - destruct (graph_index (gr d) i) eqn:E; [|discriminate]. intros H. inversion H; subst. exact E.
  - destruct (imap_value (aliases d) a) as [i|] eqn:E; [|discriminate]. intros H. inversion H; subst.
    now apply (alias_nodes_live d a).
Qed.

(* ---------- transport lemmas ---------- *)
Lemma idx_inv_transport d' (E : Z -> bool) :
  (forall i, E i = live d' i) -> idx_exact_on E d' -> vals_live_on E d' -> idx_distinct d' -> idx_inv d'.
Proof.
  intros He H1 H2 H3. split; [|split; [|exact H3]].
  - now apply (idx_exact_on_ext E).
  - now apply (vals_live_on_ext E).
Qed.

(* a step that keeps graph and aliases *)
Lemma Inv_same_ga d d' :
  Inv d -> same_ga d d' -> kvs_distinct (vals d') -> idx_inv d' -> Inv d'.
Proof.
  intros (H1 & H2 & H3 & _ & _) [Hg Ha] Hk Hi. unfold Inv, alias_bij, alias_nodes. rewrite Hg, Ha.
  exact (conj H1 (conj H2 (conj H3 (conj Hk Hi)))).
Qed.

(* a step that keeps graph, values and indexes *)
Lemma Inv_same_gvi d d' :
  Inv d -> same_gvi d d' -> alias_bij d' -> alias_nodes d' -> Inv d'.
Proof.
  intros (H1 & _ & _ & H4 & H5) (Hg & Hv & Hi) Hb Hn. unfold Inv. rewrite Hg, Hv.
  split; [exact H1|]. split; [exact Hb|]. split; [exact Hn|]. split; [exact H4|].
  destruct H5 as (A & B & C).
  apply (idx_inv_transport d' (live d)); [intros i; unfold live; now rewrite Hg| | |].
  - now apply (idx_exact_on_frame (live d) d d').
  - now apply (vals_live_on_frame (live d) d d').
  - unfold idx_distinct. now rewrite Hi.
Qed.

Section DbInv.
  Variable rv : revision.

  (* ---------- values ---------- *)
  Lemma insert_kvs_replace_Inv d id kvs : Inv d -> live d id = true -> Inv (insert_kvs_replace d id kvs).
  Proof.
    intros H Hid. apply (Inv_same_ga d); [exact H| | |].
    - unfold insert_kvs_replace. apply fold_left_inv; [apply reserve_kv_ga|].
      intros a x _ Ha. eapply same_ga_trans; [exact Ha|apply insert_or_replace_key_value_ga].
    - apply insert_kvs_replace_distinct. apply H.
    - apply insert_kvs_replace_inv; [apply H|exact Hid].
  Qed.

  Lemma insert_kvs_new_ga d id kvs : same_ga d (insert_kvs_new d id kvs).
  Proof.
    unfold insert_kvs_new. apply fold_left_inv; [apply reserve_kv_ga|].
    intros a x _ Ha. eapply same_ga_trans; [exact Ha|apply insert_key_value_ga].
  Qed.

  Lemma insert_kvs_new_Inv d id kvs :
    Inv d -> live d id = true -> kvs_get (vals d) id = [] -> keys_distinct kvs -> Inv (insert_kvs_new d id kvs).
  Proof.
    intros H Hid He Hk. apply (Inv_same_ga d); [exact H|apply insert_kvs_new_ga| |].
    - apply insert_kvs_new_distinct; [apply H|exact He|exact Hk].
    - apply insert_kvs_new_inv; [apply H|exact Hid].
  Qed.

  Lemma remove_keys_Inv d id keys : Inv d -> live d id = true -> Inv (snd (remove_keys d id keys)).
  Proof.
    intros H Hid. apply (Inv_same_ga d); [exact H|apply remove_keys_ga| |].
    - apply remove_keys_distinct. apply H.
    - apply remove_keys_inv; [apply H|apply H|exact Hid].
  Qed.

  (* ---------- indexes ---------- *)
  Lemma insert_index_Inv d key n d' : insert_index d key = ROk (n, d') -> Inv d -> Inv d'.
  Proof.
    intros Hi H. pose proof (insert_index_spec d key) as S. rewrite Hi in S.
    destruct S as (_ & A & B & C & _). apply (Inv_same_ga d); [exact H|split; assumption| |].
    - rewrite B. apply H.
    - apply (insert_index_inv d key n d' Hi). apply H.
  Qed.

  Lemma remove_index_Inv d key : Inv d -> Inv (snd (remove_index d key)).
  Proof.
    intros H. assert (Hd : idx_keys_distinct (indexes d)) by apply H.
    pose proof (remove_index_spec d key Hd) as S. cbv zeta in S. destruct S as (A & B & C & _).
    apply (Inv_same_ga d); [exact H|split; assumption| |].
    - rewrite C. apply H.
    - apply remove_index_inv. apply H.
  Qed.

  (* ---------- aliases ---------- *)
  Lemma insert_alias_Inv d id a : Inv d -> 0 < id -> live d id = true -> Inv (insert_alias rv d id a).
  Proof.
    intros H Hp Hl. apply (Inv_same_gvi d); [exact H|apply insert_alias_gvi| |].
    - apply insert_alias_bij. apply H.
    - apply insert_alias_nodes; [apply H|apply H|exact Hp|]. now rewrite <- live_pos_node.
  Qed.

  Lemma insert_new_alias_Inv d id a : Inv d -> 0 < id -> live d id = true -> Inv (insert_new_alias d id a).
  Proof.
    intros H Hp Hl. apply (Inv_same_gvi d); [exact H|apply insert_new_alias_gvi| |].
    - apply insert_new_alias_bij. apply H.
    - apply insert_new_alias_nodes; [apply H|apply H|exact Hp|]. now rewrite <- live_pos_node.
  Qed.

  Lemma remove_alias_Inv d a : Inv d -> Inv (snd (remove_alias d a)).
  Proof.
    intros H. apply (Inv_same_gvi d); [exact H|apply remove_alias_gvi| |].
    - apply remove_alias_bij. apply H.
    - apply remove_alias_nodes. apply H.
  Qed.

  (* ---------- new elements ---------- *)
  Lemma alias_nodes_mono d d' :
    aliases d' = aliases d -> (forall j, live d j = true -> live d' j = true) ->
    alias_nodes d -> alias_nodes d'.
  Proof.
    intros Ha Hm Hn a id H. rewrite Ha in H. destruct (alias_nodes_live d a id Hn H) as [Hp Hl].
    split; [exact Hp|]. rewrite <- live_pos_node by exact Hp. now apply Hm.
  Qed.

  Lemma insert_node_db_Inv d :
    Inv d ->
    Inv (snd (insert_node_db d)) /\ 0 < fst (insert_node_db d) /\
    live (snd (insert_node_db d)) (fst (insert_node_db d)) = true /\
    kvs_get (vals (snd (insert_node_db d))) (fst (insert_node_db d)) = [] /\
    (forall j, live d j = true -> live (snd (insert_node_db d)) j = true).
  Proof.
    intros (H1 & H2 & H3 & H4 & (A & B & C)).
    destruct (insert_node_db_fields d) as (Fa & Fv & Fi & Fg & Ff).
    pose proof (insert_node_live (gr d) H1) as L. destruct (insert_node (gr d)) as [x g'] eqn:E.
    cbn [fst snd] in *. destruct L as (W & Hp & N1 & N2 & Hj).
    set (d' := snd (insert_node_db d)) in *. rewrite Ff.
    assert (Hlive : forall j, live d' j = E_add (live d) x j).
    { intros j. unfold live, E_add. rewrite Fg. apply Hj. }
    assert (Hmono : forall j, live d j = true -> live d' j = true).
    { intros j Hl. rewrite Hlive. unfold E_add. rewrite Hl. apply orb_true_r. }
    split; [|split; [exact Hp|split; [|split; [|exact Hmono]]]].
    - unfold Inv. rewrite Fg, Fv. split; [exact W|]. split; [unfold alias_bij; now rewrite Fa|].
      split; [now apply (alias_nodes_mono d d')|]. split; [exact H4|].
      apply (idx_inv_transport d' (E_add (live d) x)); [intros i; now rewrite Hlive| | |].
      + apply (idx_exact_on_frame _ d d' Fv Fi). now apply idx_exact_on_add.
      + apply (vals_live_on_frame _ d d' Fv). now apply vals_live_on_add.
      + unfold idx_distinct. now rewrite Fi.
    - rewrite Hlive. unfold E_add. now rewrite Z.eqb_refl.
    - rewrite Fv. now apply B.
  Qed.

  Lemma insert_edge_db_Inv d f t e d' :
    Inv d -> live d f = true -> live d t = true -> insert_edge_db d f t = ROk (e, d') ->
    Inv d' /\ e < 0 /\ live d' e = true /\ kvs_get (vals d') e = [] /\
    (forall j, live d j = true -> live d' j = true).
  Proof.
    intros (H1 & H2 & H3 & H4 & (A & B & C)) Hf Ht Hi.
    destruct (insert_edge_db_fields d f t e d' Hi) as (g' & Eg & Fg & Fa & Fv & Fi).
    destruct (insert_edge_live (gr d) f t e g' H1 Hf Ht Eg) as (W & Hn & _ & _ & N1 & N2 & Hj).
    assert (Hlive : forall j, live d' j = E_add (live d) e j).
    { intros j. unfold live, E_add. rewrite Fg. apply Hj. }
    assert (Hmono : forall j, live d j = true -> live d' j = true).
    { intros j Hl. rewrite Hlive. unfold E_add. rewrite Hl. apply orb_true_r. }
    split; [|split; [exact Hn|split; [|split; [|exact Hmono]]]].
    - unfold Inv. rewrite Fg, Fv. split; [exact W|]. split; [unfold alias_bij; now rewrite Fa|].
      split; [now apply (alias_nodes_mono d d')|]. split; [exact H4|].
      apply (idx_inv_transport d' (E_add (live d) e)); [intros i; now rewrite Hlive| | |].
      + apply (idx_exact_on_frame _ d d' Fv Fi). now apply idx_exact_on_add.
      + apply (vals_live_on_frame _ d d' Fv). now apply vals_live_on_add.
      + unfold idx_distinct. now rewrite Fi.
    - rewrite Hlive. unfold E_add. now rewrite Z.eqb_refl.
    - rewrite Fv. now apply B.
  Qed.
End DbInv.
