(* DbInvariantProofs.v — the joint invariant `Inv` of C09 / C10 / C11 along histories, UNCONDITIONALLY
   for the revision of /repo (rv_fixed): the hypothesis `traversal_live` of HistoryInvProofs.v is
   replaced by the theorem `search_live_fixed` (TraversalLiveProofs.v: every id returned by any search —
   index, element scan, breadth/depth first with any conditions and handler, path search — exists,
   derived from the C14 / C17 / C18 developments under the graph invariant wf).

   Covered here: histories of queries in which no query fails, every state inside a running
   transaction (the partial state of a failing query included), committed transactions.
   States after a ROLLBACK are covered in HistoryAtomicProofs.v (C13). *)
From Agdb Require Import Bytes BytesProofs DbValue Graph DbModel Search Queries Revisions
  GraphSim GraphWf AliasProofs KvProofs KvDbProofs KvSelectProofs
  IndexProofs IndexDbProofs IndexDb3Proofs IndexDb4Proofs IndexInvProofs
  DbInvProofs QueryInvProofs SearchLiveProofs QStepProofs HistoryInvProofs TraversalLiveProofs.
Open Scope Z_scope.

Section History.
  Variable rv : revision.
  Hypothesis Hsearch : search_live rv.
  Hypothesis Hfix : fix_alias_nodes_only rv = true.

  Theorem history_Inv_sl qs : forall d,
    Forall query_ok qs -> Inv d -> all_succeed rv d qs -> Inv (exec_all rv d qs).
  Proof.
    induction qs as [|q r IH]; intros d Hq Hd Hs; [exact Hd|].
    inversion Hq as [|? ? Hq1 Hq2]; subst. destruct Hs as [Hs1 Hs2].
    unfold exec_all. cbn [fold_left]. fold (exec_all rv (fst (exec rv d q)) r).
    apply IH; [exact Hq2| |exact Hs2]. now apply (exec_ok_Inv rv Hsearch Hfix).
  Qed.

  Theorem txn_run_Inv_sl qs : forall d acc,
    Forall query_ok qs -> Inv d -> Inv (fst (fst (txn_run rv d qs acc))).
  Proof.
    induction qs as [|q r IH]; intros d acc Hq Hd; [exact Hd|].
    inversion Hq as [|? ? Hq1 Hq2]; subst. cbn [txn_run].
    pose proof (exec_in_txn_Inv rv Hsearch Hfix d q Hq1 Hd) as H.
    destruct (exec_in_txn rv d q) as [d1 res]. cbn [fst] in H.
    destruct (is_failure res); [exact H|now apply IH].
  Qed.

  Theorem transaction_commit_Inv_sl d qs :
    Forall query_ok qs -> Inv d ->
    (let '(d1, results, all_ok) := txn_run rv d qs [] in
     existsb (fun r => match r with QPanic => true | _ => false end) results = false /\ all_ok = true) ->
    Inv (fst (transaction rv d qs false)).
  Proof.
    intros Hq Hd. unfold transaction. pose proof (txn_run_Inv_sl qs d [] Hq Hd) as H.
    destruct (txn_run rv d qs []) as [[d1 results] all_ok]. cbn [fst] in H.
    intros [Hp Hok]. rewrite Hp, Hok. cbn [andb negb fst]. exact H.
  Qed.
End History.

(* ---------- rv_fixed: no hypothesis left ---------- *)
Theorem step_Inv_fixed d q : query_ok q -> Inv d -> Inv (step_db (exec_mut_step rv_fixed d q)).
Proof. exact (exec_mut_step_Inv rv_fixed search_live_fixed eq_refl d q). Qed.

Theorem history_Inv_fixed qs :
  Forall query_ok qs -> all_succeed rv_fixed db_new qs -> Inv (exec_all rv_fixed db_new qs).
Proof. intros Hq Hs. exact (history_Inv_sl rv_fixed search_live_fixed eq_refl qs db_new Hq Inv_new Hs). Qed.

Theorem transaction_state_Inv_fixed d qs acc :
  Forall query_ok qs -> Inv d -> Inv (fst (fst (txn_run rv_fixed d qs acc))).
Proof. exact (txn_run_Inv_sl rv_fixed search_live_fixed eq_refl qs d acc). Qed.

Theorem transaction_commit_Inv_fixed d qs :
  Forall query_ok qs -> Inv d ->
  (let '(d1, results, all_ok) := txn_run rv_fixed d qs [] in
   existsb (fun r => match r with QPanic => true | _ => false end) results = false /\ all_ok = true) ->
  Inv (fst (transaction rv_fixed d qs false)).
Proof. exact (transaction_commit_Inv_sl rv_fixed search_live_fixed eq_refl d qs). Qed.

(* ---------- what Inv gives, in the vocabulary of C09 / C10 / C11 ---------- *)
Lemma Inv_values d : Inv d -> kvs_distinct (vals d) /\ vals_live d.
Proof. intros H. split; [now apply Inv_distinct|apply (Inv_index _ H)]. Qed.

Lemma Inv_indexes d :
  Inv d ->
  idx_inv d /\
  (forall key ids value id, idx_find (indexes d) key = Some ids ->
     count_occ Z.eq_dec (map snd (filter (fun p : dbvalue * Z => dbv_eqb (fst p) value) ids)) id =
     if live d id then match kvs_value (vals d) id key with
                       | Some v' => b2nat (dbv_eqb v' value)
                       | None => 0%nat
                       end
     else 0%nat) /\
  (forall rv, exec_select rv d SelectIndexes =
    QOk (lenZ (indexes d))
        [ {| e_id := 0; e_from := 0; e_to := 0;
             e_values := map (fun ix : index => (fst ix, DU64 (N.of_nat (count_having d (fst ix))))) (indexes d) |} ]).
Proof.
  intros H. pose proof (Inv_index _ H) as (A & B & C). pose proof (Inv_distinct _ H) as K.
  split; [exact (conj A (conj B C))|]. split.
  - intros key ids value id Hf. now apply index_search_exact.
  - intros rv. now apply select_indexes_exact.
Qed.

(* the statements pinned as C09_history / C10_history / C11_history *)
Theorem history_values_fixed qs :
  Forall query_ok qs -> all_succeed rv_fixed db_new qs ->
  kvs_distinct (vals (exec_all rv_fixed db_new qs)) /\ vals_live (exec_all rv_fixed db_new qs).
Proof. intros Hq Hs. apply Inv_values. now apply history_Inv_fixed. Qed.

Theorem history_aliases_fixed qs :
  Forall query_ok qs -> all_succeed rv_fixed db_new qs ->
  alias_bij (exec_all rv_fixed db_new qs) /\ alias_nodes (exec_all rv_fixed db_new qs).
Proof. intros Hq Hs. apply Inv_aliases. now apply history_Inv_fixed. Qed.

Theorem history_indexes_fixed qs :
  Forall query_ok qs -> all_succeed rv_fixed db_new qs ->
  let d := exec_all rv_fixed db_new qs in
  idx_inv d /\
  (forall key ids value id, idx_find (indexes d) key = Some ids ->
     count_occ Z.eq_dec (map snd (filter (fun p : dbvalue * Z => dbv_eqb (fst p) value) ids)) id =
     if live d id then match kvs_value (vals d) id key with
                       | Some v' => b2nat (dbv_eqb v' value)
                       | None => 0%nat
                       end
     else 0%nat) /\
  exec_select rv_fixed d SelectIndexes =
    QOk (lenZ (indexes d))
        [ {| e_id := 0; e_from := 0; e_to := 0;
             e_values := map (fun ix : index => (fst ix, DU64 (N.of_nat (count_having d (fst ix))))) (indexes d) |} ].
Proof.
  intros Hq Hs. cbv zeta. destruct (Inv_indexes _ (history_Inv_fixed qs Hq Hs)) as (A & B & C).
  split; [exact A|]. split; [exact B|apply C].
Qed.
