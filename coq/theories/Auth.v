(* Auth.v — abstract model of the agdb HTTP server's authentication, per-database
   permissions, query batches and audit log (C24, C25).
   Transcribed from agdb_server/src: user_id.rs (token extractors), server_db.rs
   (tokens, role lookup), routes/user.rs, routes/db.rs, routes/db/user.rs,
   routes/admin/user.rs, routes/admin/db.rs, routes/admin/db/user.rs (guards, in
   the order they are coded), action/*.rs + db_pool.rs (effects),
   utilities.rs required_role and db_pool/user_db.rs t_exec / t_exec_mut
   (query classification, result injection, audit).
   Definitions only (executable, extracted).  Proofs: AuthProofs.v. *)
From Agdb Require Import Bytes.
Open Scope N_scope.

(* ------------------------------------------------------------------ *)
(* names, roles, kinds                                                  *)
(* ------------------------------------------------------------------ *)

(* user names, database names, passwords, token ids are opaque numbers; the
   harness maps them to strings ("user3", "db2", UUID tokens, ...) *)
Inductive role := RoAdmin | RoWrite | RoRead.                 (* agdb_api DbUserRole *)
Inductive dbkind := KMapped | KFile.                           (* DbKind without Memory *)

Definition role_eqb (a b : role) : bool :=
  match a, b with
  | RoAdmin, RoAdmin | RoWrite, RoWrite | RoRead, RoRead => true
  | _, _ => false
  end.
Definition dbkind_eqb (a b : dbkind) : bool :=
  match a, b with KMapped, KMapped | KFile, KFile => true | _, _ => false end.

(* ------------------------------------------------------------------ *)
(* queries: the 18 variants of agdb::QueryType and their classification *)
(* ------------------------------------------------------------------ *)

Inductive qkind :=
| KInsertAlias | KInsertEdges | KInsertIndex | KInsertNodes | KInsertValues
| KRemove | KRemoveAliases | KRemoveIndex | KRemoveValues
| KSearch | KSelectAliases | KSelectAllAliases | KSelectEdgeCount | KSelectIndexes
| KSelectKeys | KSelectKeyCount | KSelectNodeCount | KSelectValues.

(* utilities.rs required_role: the variants that make a batch require Write *)
Definition kind_is_write (k : qkind) : bool :=
  match k with
  | KInsertAlias | KInsertEdges | KInsertIndex | KInsertNodes | KInsertValues
  | KRemove | KRemoveAliases | KRemoveIndex | KRemoveValues => true
  | _ => false
  end.

(* user_db.rs t_exec: the variants the read-only transaction executes
   (everything else: "mutable query not allowed") *)
Definition kind_read_allowed (k : qkind) : bool :=
  match k with
  | KSearch | KSelectAliases | KSelectAllAliases | KSelectEdgeCount | KSelectIndexes
  | KSelectKeys | KSelectKeyCount | KSelectNodeCount | KSelectValues => true
  | _ => false
  end.

(* user_db.rs t_exec_mut: do_audit = true *)
Definition kind_audited (k : qkind) : bool :=
  match k with
  | KInsertAlias | KInsertEdges | KInsertNodes | KInsertValues | KRemove
  | KInsertIndex | KRemoveAliases | KRemoveIndex | KRemoveValues => true
  | _ => false
  end.

(* a reference to an element: a literal id or ":k" = the ids of result k *)
Inductive qref := QId (n : N) | QRes (k : nat).

(* effect-free (or always failing) fixed instances of the remaining variants *)
Inductive probe :=
| PInsertAlias      (* insert aliases [] ids []            : ok, no effect *)
| PInsertEdges      (* insert edges from [] to []          : always fails  *)
| PInsertIndex      (* insert index "pidx"                 : fails if it exists *)
| PRemove           (* remove ids []                       : ok, no effect *)
| PRemoveAliases    (* remove aliases ["nope"]             : ok, no effect *)
| PRemoveIndex      (* remove index "pidx"                 : ok *)
| PSelectAliases | PSelectAllAliases | PSelectEdgeCount | PSelectIndexes
| PSelectKeys | PSelectKeyCount.

(* The query family used on both sides.  Key "v" holds one number per node. *)
Inductive query :=
| QInsertNode (m : N)                       (* insert nodes values [[v = m]]           *)
| QSetValue (ids : list qref) (m : N)       (* insert values_uniform [v = m] ids ...    *)
| QRemoveValue (ids : list qref)            (* remove values ["v"] ids ...              *)
| QSelect (ids : list qref)                 (* select ids ...                           *)
| QCount                                    (* select node_count                        *)
| QSearch                                   (* search elements                          *)
| QProbe (p : probe).

Definition probe_kind (p : probe) : qkind :=
  match p with
  | PInsertAlias => KInsertAlias | PInsertEdges => KInsertEdges | PInsertIndex => KInsertIndex
  | PRemove => KRemove | PRemoveAliases => KRemoveAliases | PRemoveIndex => KRemoveIndex
  | PSelectAliases => KSelectAliases | PSelectAllAliases => KSelectAllAliases
  | PSelectEdgeCount => KSelectEdgeCount | PSelectIndexes => KSelectIndexes
  | PSelectKeys => KSelectKeys | PSelectKeyCount => KSelectKeyCount
  end.

Definition kind_of (q : query) : qkind :=
  match q with
  | QInsertNode _ => KInsertNodes
  | QSetValue _ _ => KInsertValues
  | QRemoveValue _ => KRemoveValues
  | QSelect _ => KSelectValues
  | QCount => KSelectNodeCount
  | QSearch => KSearch
  | QProbe p => probe_kind p
  end.

(* required_role(queries) == Write *)
Definition batch_is_write (qs : list query) : bool :=
  existsb (fun q => kind_is_write (kind_of q)) qs.

(* ------------------------------------------------------------------ *)
(* database content and query execution                                 *)
(* ------------------------------------------------------------------ *)

(* node i (1-based) holds value Some m of key "v", or no value *)
Record content := mkContent { c_nodes : list (option N); c_index : bool }.
Definition empty_content : content := mkContent [] false.

(* QueryResult: result count, elements (id, numeric values) *)
Record qresult := mkRes { qr_result : N; qr_elems : list (N * list N) }.
Definition res_ids (r : qresult) : list N := map fst (qr_elems r).

(* user_db.rs inject_results_ids: ":k" is replaced by all ids of result k
   (error when k is out of range); literal ids stay *)
Fixpoint inject (rs : list qresult) (ids : list qref) : option (list N) :=
  match ids with
  | [] => Some []
  | QId n :: t => match inject rs t with Some l => Some (n :: l) | None => None end
  | QRes k :: t =>
    match nth_error rs k, inject rs t with
    | Some r, Some l => Some (res_ids r ++ l)
    | _, _ => None
    end
  end.

Definition node_exists (c : content) (id : N) : bool :=
  (1 <=? id) && (id <=? lenN (c_nodes c)).

Fixpoint set_nth {A} (l : list A) (i : nat) (x : A) : list A :=
  match l, i with
  | [], _ => []
  | _ :: t, O => x :: t
  | h :: t, S j => h :: set_nth t j x
  end.

Definition node_value (c : content) (id : N) : option N :=
  match nth_error (c_nodes c) (N.to_nat (id - 1)) with Some v => v | None => None end.

(* insert values [v = m] into the listed ids, in order; id 0 creates a node
   (agdb: id 0 in InsertValuesQuery inserts a new element).
   Returns (content, number of values written, ids of created nodes). *)
Fixpoint set_values (c : content) (ids : list N) (m : N) : option (content * N * list N) :=
  match ids with
  | [] => Some (c, 0, [])
  | id :: t =>
    if id =? 0 then
      let c1 := mkContent (c_nodes c ++ [Some m]) (c_index c) in
      match set_values c1 t m with
      | Some (c2, n, created) => Some (c2, n + 1, lenN (c_nodes c1) :: created)
      | None => None
      end
    else if node_exists c id then
      let c1 := mkContent (set_nth (c_nodes c) (N.to_nat (id - 1)) (Some m)) (c_index c) in
      match set_values c1 t m with
      | Some (c2, n, created) => Some (c2, n + 1, created)
      | None => None
      end
    else None
  end.

Fixpoint remove_values (c : content) (ids : list N) : option (content * N) :=
  match ids with
  | [] => Some (c, 0)
  | id :: t =>
    if node_exists c id then
      let had := match node_value c id with Some _ => 1 | None => 0 end in
      let c1 := mkContent (set_nth (c_nodes c) (N.to_nat (id - 1)) None) (c_index c) in
      match remove_values c1 t with
      | Some (c2, n) => Some (c2, n + had)
      | None => None
      end
    else None
  end.

Fixpoint select_values (c : content) (ids : list N) : option (list (N * list N)) :=
  match ids with
  | [] => Some []
  | id :: t =>
    if node_exists c id then
      match select_values c t with
      | Some l => Some ((id, match node_value c id with Some v => [v] | None => [] end) :: l)
      | None => None
      end
    else None
  end.

Fixpoint iota (from : N) (n : nat) : list N :=
  match n with O => [] | S k => from :: iota (from + 1) k end.

Definition all_ids (c : content) : list N := iota 1 (length (c_nodes c)).

(* post-injection form of a query (what the audit log records) *)
Definition lit (ids : list N) : list qref := map QId ids.

(* one query inside a transaction: None = the query (hence the batch) fails;
   otherwise new content, the result, the query after result injection *)
Definition exec_query (c : content) (rs : list qresult) (q : query)
  : option (content * qresult * query) :=
  match q with
  | QInsertNode m =>
    let c1 := mkContent (c_nodes c ++ [Some m]) (c_index c) in
    Some (c1, mkRes 1 [(lenN (c_nodes c1), [])], q)
  | QSetValue ids m =>
    match inject rs ids with
    | Some l =>
      match set_values c l m with
      | Some (c1, n, created) => Some (c1, mkRes n (map (fun i => (i, [])) created), QSetValue (lit l) m)
      | None => None
      end
    | None => None
    end
  | QRemoveValue ids =>
    match inject rs ids with
    | Some l =>
      match remove_values c l with
      | Some (c1, n) => Some (c1, mkRes n [], QRemoveValue (lit l))
      | None => None
      end
    | None => None
    end
  | QSelect ids =>
    match inject rs ids with
    | Some l =>
      match select_values c l with
      | Some es => Some (c, mkRes (lenN es) es, QSelect (lit l))
      | None => None
      end
    | None => None
    end
  | QCount => Some (c, mkRes (lenN (c_nodes c)) [], q)
  | QSearch => Some (c, mkRes (lenN (c_nodes c)) (map (fun i => (i, [])) (all_ids c)), q)
  | QProbe p =>
    match p with
    | PInsertEdges => None
    | PInsertIndex => if c_index c then None else Some (mkContent (c_nodes c) true, mkRes 0 [], q)
    | PRemoveIndex => Some (mkContent (c_nodes c) false, mkRes 0 [], q)
    | PSelectIndexes => Some (c, if c_index c then mkRes 1 [(0, [0])] else mkRes 0 [(0, [])], q)
    | _ => Some (c, mkRes 0 [], q)
    end
  end.

(* an audit record: submitting user, query after injection *)
Definition aentry := (N * query)%type.

(* UserDb::exec_mut: transaction_mut over the batch (t_exec_mut per query).
   Accumulates results and the audit of mutating queries; any failing query
   fails the whole transaction (None: the database is left as it was). *)
Fixpoint exec_batch_mut (user : N) (c : content) (rs : list qresult) (au : list aentry) (qs : list query)
  : option (content * list qresult * list aentry) :=
  match qs with
  | [] => Some (c, rs, au)
  | q :: t =>
    match exec_query c rs q with
    | Some (c1, r, q') =>
      exec_batch_mut user c1 (rs ++ [r])
                     (if kind_audited (kind_of q) then au ++ [(user, q')] else au) t
    | None => None
    end
  end.

(* UserDb::exec: read transaction (t_exec): a mutating variant is an error *)
Fixpoint exec_batch_read (c : content) (rs : list qresult) (qs : list query) : option (list qresult) :=
  match qs with
  | [] => Some rs
  | q :: t =>
    if kind_read_allowed (kind_of q) then
      match exec_query c rs q with
      | Some (_, r, _) => exec_batch_read c (rs ++ [r]) t
      | None => None
      end
    else None
  end.

(* ------------------------------------------------------------------ *)
(* server state                                                         *)
(* ------------------------------------------------------------------ *)

Record dbrec := mkDb {
  d_owner : N; d_name : N; d_kind : dbkind;
  d_roles : list (N * role);                      (* user -> role edges (owner included) *)
  d_content : content;
  d_audit : list aentry;                          (* audit/<db>.log ([] = no file) *)
  d_backup : option (content * list aentry) }.    (* backups/<db>.bak + backups/<db>.log *)

Record tokrec := mkTok { t_id : N; t_user : N; t_exp : N }.   (* session id = token id *)

Record state := mkState {
  s_admin : N;                      (* config.admin *)
  s_ttl : N;                        (* token_expiry_seconds *)
  s_users : list (N * N);           (* user name, password *)
  s_tokens : list tokrec;
  s_next : N;                       (* next token id *)
  s_dbs : list dbrec;
  s_disk : list dbrec }.            (* files of removed (not deleted) databases *)

Definition init_state (admin ttl : N) (users : list (N * N)) : state :=
  mkState admin ttl users [] 0 [] [].

Definition db_is (o d : N) (r : dbrec) : bool := (d_owner r =? o) && (d_name r =? d).
Definition find_db (dbs : list dbrec) (o d : N) : option dbrec := find (db_is o d) dbs.
Definition lookup_role (rs : list (N * role)) (u : N) : option role :=
  match find (fun p => fst p =? u) rs with Some p => Some (snd p) | None => None end.

(* server_db.rs find_user_db_query + user_db_role: the database (owner, db)
   reachable from the user, and the role on that edge *)
Definition role_of (s : state) (u o d : N) : option role :=
  match find_db (s_dbs s) o d with
  | Some r => lookup_role (d_roles r) u
  | None => None
  end.

Definition update_db (dbs : list dbrec) (o d : N) (f : dbrec -> dbrec) : list dbrec :=
  map (fun r => if db_is o d r then f r else r) dbs.
Definition remove_db (dbs : list dbrec) (o d : N) : list dbrec :=
  filter (fun r => negb (db_is o d r)) dbs.

Definition set_role (rs : list (N * role)) (u : N) (r : role) : list (N * role) :=
  match lookup_role rs u with
  | Some _ => map (fun p => if fst p =? u then (u, r) else p) rs
  | None => rs ++ [(u, r)]
  end.
Definition drop_role (rs : list (N * role)) (u : N) : list (N * role) :=
  filter (fun p => negb (fst p =? u)) rs.

Definition user_exists (s : state) (u : N) : bool := existsb (fun p => fst p =? u) (s_users s).
Definition password_of (s : state) (u : N) : option N :=
  match find (fun p => fst p =? u) (s_users s) with Some p => Some (snd p) | None => None end.

(* user_id.rs + server_db.rs user_id_from_token: the token is found by index,
   `expires_at < now` rejects, the user is the token's neighbour *)
Definition find_token (s : state) (t : N) : option tokrec := find (fun r => t_id r =? t) (s_tokens s).
Definition user_of_token (s : state) (now : N) (tok : option N) : option N :=
  match tok with
  | None => None
  | Some t =>
    match find_token s t with
    | Some r => if t_exp r <? now then None else Some (t_user r)
    | None => None
    end
  end.

(* ------------------------------------------------------------------ *)
(* requests                                                             *)
(* ------------------------------------------------------------------ *)

Inductive logout_sel := LoCurrent | LoAll | LoOthers | LoSession (sid : N).
Inductive resource := ResAll | ResDb | ResAudit | ResBackup.

(* the operations of /db/{owner}/{db}/... and /admin/db/{owner}/{db}/... *)
Inductive dbop :=
| OAdd (k : dbkind) | OAudit | OBackup | OClear (r : resource) | OConvert (k : dbkind)
| OCopy (new_owner new_db : N)        (* user endpoint: new_owner is ignored (= caller) *)
| ODelete | OExec (qs : list query) | OExecMut (qs : list query) | OOptimize | ORemove
| ORename (new_owner new_db : N)      (* user endpoint: new_owner is ignored (= caller) *)
| ORestore | ORollback
| OUserAdd (u : N) (r : role) | OUserList | OUserRemove (u : N).

Inductive request :=
| ReqLogin (u pw : N)
| ReqLogout (sel : logout_sel)
| ReqChangePassword (old new : N)
| ReqStatus
| ReqDbList
| ReqDb (o d : N) (op : dbop)
| ReqAdminDbList
| ReqAdminDb (o d : N) (op : dbop)
| ReqAdminUserAdd (u pw : N)
| ReqAdminUserChangePassword (u pw : N)
| ReqAdminUserDelete (u : N)
| ReqAdminUserLogout (u : N) (sel : logout_sel)
| ReqAdminUserLogoutAll
| ReqAdminUserList
| ReqAdminStatus.

(* passwords < 100 stand for strings shorter than 8 bytes, user names >= 1000 for
   names shorter than 3 bytes (password.rs validate_password / validate_username) *)
Definition pw_short (p : N) : bool := p <? 100.
Definition name_short (u : N) : bool := 1000 <=? u.

Inductive decision := Allow | Deny (code : N).

Definition is_db_admin (s : state) (u o d : N) : bool :=
  match role_of s u o d with Some RoAdmin => true | _ => false end.
Definition db_exists (s : state) (o d : N) : bool :=
  match find_db (s_dbs s) o d with Some _ => true | None => false end.
Definition db_kind_of (s : state) (o d : N) : option dbkind :=
  match find_db (s_dbs s) o d with Some r => Some (d_kind r) | None => None end.

(* guards of routes/db.rs and routes/db/user.rs, in code order; `u` = caller *)
Definition authorize_db (s : state) (u o d : N) (op : dbop) : decision :=
  let visible := match role_of s u o d with Some _ => true | None => false end in
  let admin := is_db_admin s u o d in
  match op with
  | OAdd _ =>
    if negb (u =? o) then Deny 403
    else if visible then Deny 465 else Allow
  | OAudit | OUserList => if visible then Allow else Deny 404
  | OBackup | ORestore | ORollback | OClear _ | OConvert _ =>
    if negb visible then Deny 404 else if admin then Allow else Deny 403
  | OCopy _ nd =>
    if negb visible then Deny 404
    else match role_of s u u nd with Some _ => Deny 465 | None => Allow end
  | ODelete | ORemove =>
    if negb (o =? u) then Deny 403 else if visible then Allow else Deny 404
  | OExec qs =>
    if negb visible then Deny 404 else if batch_is_write qs then Deny 403 else Allow
  | OExecMut _ | OOptimize =>
    match role_of s u o d with
    | None => Deny 404
    | Some RoRead => Deny 403
    | Some _ => Allow
    end
  | ORename _ nd =>
    if negb (o =? u) then Deny 403
    else if nd =? d then Allow                      (* returns 201 without looking anything up *)
    else match role_of s u u nd with
         | Some _ => Deny 465
         | None => if visible then Allow else Deny 404    (* 404 comes from the DbRename action *)
         end
  | OUserAdd t _ =>
    if o =? t then Deny 403
    else if negb visible then Deny 404
    else if negb admin then Deny 403
    else if user_exists s t then Allow else Deny 404
  | OUserRemove t =>
    if o =? t then Deny 403
    else if negb visible then Deny 404
    else if negb (user_exists s t) then Deny 404
    else if (u =? t) || admin then Allow else Deny 403
  end.

(* guards of routes/admin/db.rs and routes/admin/db/user.rs (caller already
   known to be the server admin) *)
Definition authorize_admin_db (s : state) (o d : N) (op : dbop) : decision :=
  let ex := db_exists s o d in
  match op with
  | OExec qs => if batch_is_write qs then Deny 403 else if ex then Allow else Deny 404
  | OExecMut _ => if ex then Allow else Deny 404       (* 404 from DbPool::db *)
  | OUserAdd t _ | OUserRemove t =>
    if o =? t then Deny 403
    else if negb (user_exists s o) then Deny 404
    else if negb ex then Deny 404
    else if user_exists s t then Allow else Deny 404
  | OAdd _ =>
    if negb (user_exists s o) then Deny 404 else if ex then Deny 465 else Allow
  | OCopy no nd =>
    if negb (user_exists s o) then Deny 404
    else if negb ex then Deny 404
    else if negb (user_exists s no) then Deny 404
    else if db_exists s no nd then Deny 465 else Allow
  | ORename no nd =>
    if negb (user_exists s o) then Deny 404
    else if negb ex then Deny 404
    else if (o =? no) && (d =? nd) then Allow
    else if negb (user_exists s no) then Deny 404
    else if db_exists s no nd then Deny 465 else Allow
  | _ =>
    if negb (user_exists s o) then Deny 404 else if ex then Allow else Deny 404
  end.

(* the complete pre-action decision: authentication (user_id.rs: every failure
   is 401), then the route's guards *)
Definition authorize (s : state) (now : N) (tok : option N) (req : request) : decision :=
  match req with
  | ReqLogin u pw =>
    match password_of s u with
    | Some p => if p =? pw then Allow else Deny 401
    | None => Deny 401
    end
  | _ =>
    match user_of_token s now tok with
    | None => Deny 401
    | Some u =>
      let is_admin := u =? s_admin s in
      match req with
      | ReqLogin _ _ => Allow
      | ReqLogout (LoSession sid) =>
        if existsb (fun r => t_id r =? sid) (s_tokens s) then Allow else Deny 404
      | ReqLogout _ => Allow
      | ReqChangePassword old new =>
        match password_of s u with
        | Some p => if negb (p =? old) then Deny 403 else if pw_short new then Deny 461 else Allow
        | None => Deny 401
        end
      | ReqStatus | ReqDbList => Allow
      | ReqDb o d op => authorize_db s u o d op
      | ReqAdminDbList | ReqAdminUserLogoutAll | ReqAdminUserList | ReqAdminStatus =>
        if is_admin then Allow else Deny 401
      | ReqAdminDb o d op => if is_admin then authorize_admin_db s o d op else Deny 401
      | ReqAdminUserAdd t pw =>
        if negb is_admin then Deny 401
        else if name_short t then Deny 462
        else if pw_short pw then Deny 461
        else if user_exists s t then Deny 463 else Allow
      | ReqAdminUserChangePassword t _ | ReqAdminUserDelete t =>
        if negb is_admin then Deny 401 else if user_exists s t then Allow else Deny 404
      | ReqAdminUserLogout t sel =>
        if negb is_admin then Deny 401
        else if negb (user_exists s t) then Deny 404
        else match sel with
             | LoSession sid => if existsb (fun r => t_id r =? sid) (s_tokens s) then Allow else Deny 404
             | _ => Allow
             end
      end
    end
  end.

(* ------------------------------------------------------------------ *)
(* effects                                                              *)
(* ------------------------------------------------------------------ *)

Inductive body :=
| BNone
| BToken (t : N)
| BDbList (l : list (N * N * role))
| BUsers (l : list (N * role))
| BAudit (l : list aentry)
| BResults (l : list qresult)
| BStatus (u : N) (admin : bool) (sessions : N)
| BUserList (l : list (N * N)).

Inductive response := RespOk (code : N) (b : body) | RespErr (code : N).

Definition with_dbs (s : state) (dbs : list dbrec) : state :=
  mkState (s_admin s) (s_ttl s) (s_users s) (s_tokens s) (s_next s) dbs (s_disk s).
Definition with_dbs_disk (s : state) (dbs disk : list dbrec) : state :=
  mkState (s_admin s) (s_ttl s) (s_users s) (s_tokens s) (s_next s) dbs disk.
Definition with_tokens (s : state) (ts : list tokrec) : state :=
  mkState (s_admin s) (s_ttl s) (s_users s) ts (s_next s) (s_dbs s) (s_disk s).
Definition with_users (s : state) (us : list (N * N)) : state :=
  mkState (s_admin s) (s_ttl s) us (s_tokens s) (s_next s) (s_dbs s) (s_disk s).

Definition sessions_of (s : state) (now u : N) : N :=
  lenN (filter (fun r => (t_user r =? u) && negb (t_exp r <? now)) (s_tokens s)).

Definition set_content (c : content) (r : dbrec) : dbrec :=
  mkDb (d_owner r) (d_name r) (d_kind r) (d_roles r) c (d_audit r) (d_backup r).
Definition set_content_audit (c : content) (au : list aentry) (r : dbrec) : dbrec :=
  mkDb (d_owner r) (d_name r) (d_kind r) (d_roles r) c au (d_backup r).
Definition set_audit (au : list aentry) (r : dbrec) : dbrec :=
  mkDb (d_owner r) (d_name r) (d_kind r) (d_roles r) (d_content r) au (d_backup r).
Definition set_backup (b : option (content * list aentry)) (r : dbrec) : dbrec :=
  mkDb (d_owner r) (d_name r) (d_kind r) (d_roles r) (d_content r) (d_audit r) b.
Definition set_kind (k : dbkind) (r : dbrec) : dbrec :=
  mkDb (d_owner r) (d_name r) k (d_roles r) (d_content r) (d_audit r) (d_backup r).
Definition set_roles (rs : list (N * role)) (r : dbrec) : dbrec :=
  mkDb (d_owner r) (d_name r) (d_kind r) rs (d_content r) (d_audit r) (d_backup r).

(* the action behind one database operation (action/*.rs + db_pool.rs).
   `who` = user name recorded in the audit, `no` = effective new owner of
   copy/rename.  An error leaves the state as it was. *)
Definition apply_db (s : state) (who o d : N) (op : dbop) (no : N) : response * state :=
  match find_db (s_dbs s) o d with
  | None =>
    match op with
    | OAdd k =>
      (* DbPool::add_db opens the file if it is there (a removed database) *)
      match find_db (s_disk s) o d with
      | Some f =>
        (RespOk 201 BNone,
         with_dbs_disk s (s_dbs s ++ [mkDb o d k [(o, RoAdmin)] (d_content f) (d_audit f) (d_backup f)])
                       (remove_db (s_disk s) o d))
      | None =>
        (RespOk 201 BNone, with_dbs s (s_dbs s ++ [mkDb o d k [(o, RoAdmin)] empty_content [] None]))
      end
    | ORename _ nd => if nd =? d then (RespOk 201 BNone, s) else (RespErr 404, s)
    | _ => (RespErr 404, s)
    end
  | Some r =>
    match op with
    | OAdd _ => (RespErr 465, s)
    | OAudit => (RespOk 200 (BAudit (d_audit r)), s)
    | OBackup =>
      (RespOk 201 BNone, with_dbs s (update_db (s_dbs s) o d (set_backup (Some (d_content r, d_audit r)))))
    | OClear res =>
      let f := match res with
               | ResAll => fun x => set_backup None (set_content_audit empty_content [] x)
               | ResDb => set_content empty_content
               | ResAudit => set_audit []
               | ResBackup => set_backup None
               end in
      (RespOk 200 BNone, with_dbs s (update_db (s_dbs s) o d f))
    | OConvert k => (RespOk 201 BNone, with_dbs s (update_db (s_dbs s) o d (set_kind k)))
    | OCopy _ nd =>
      (* DbPool::copy_db: the target file must not exist *)
      if db_exists s no nd then (RespErr 465, s)
      else match find_db (s_disk s) no nd with
           | Some _ => (RespErr 465, s)
           | None =>
             (RespOk 201 BNone,
              with_dbs s (s_dbs s ++ [mkDb no nd (d_kind r) [(no, RoAdmin)] (d_content r) (d_audit r) None]))
           end
    | ODelete => (RespOk 204 BNone, with_dbs s (remove_db (s_dbs s) o d))
    | ORemove => (RespOk 204 BNone, with_dbs_disk s (remove_db (s_dbs s) o d) (s_disk s ++ [r]))
    | OExec qs =>
      match exec_batch_read (d_content r) [] qs with
      | Some rs => (RespOk 200 (BResults rs), s)
      | None => (RespErr 470, s)
      end
    | OExecMut qs =>
      if batch_is_write qs then
        match exec_batch_mut who (d_content r) [] [] qs with
        | Some (c, rs, au) =>
          (RespOk 200 (BResults rs),
           with_dbs s (update_db (s_dbs s) o d (set_content_audit c (d_audit r ++ au))))
        | None => (RespErr 470, s)
        end
      else
        match exec_batch_read (d_content r) [] qs with
        | Some rs => (RespOk 200 (BResults rs), s)
        | None => (RespErr 470, s)
        end
    | OOptimize => (RespOk 200 BNone, s)
    | ORename _ nd =>
      if (o =? no) && (d =? nd) then (RespOk 201 BNone, s)
      else if db_exists s no nd then (RespErr 465, s)
      else match find_db (s_disk s) no nd with
           | Some _ => (RespErr 465, s)
           | None =>
             let roles := if o =? no then d_roles r else set_role (d_roles r) no RoAdmin in
             (RespOk 201 BNone,
              with_dbs s (update_db (s_dbs s) o d
                            (fun x => mkDb no nd (d_kind x) roles (d_content x) (d_audit x) (d_backup x))))
           end
    | ORestore =>
      match d_backup r with
      | Some (c, au) => (RespOk 201 BNone, with_dbs s (update_db (s_dbs s) o d (set_content_audit c au)))
      | None => (RespErr 404, s)
      end
    | ORollback =>
      match d_backup r with
      | Some (c, au) =>
        (RespOk 201 BNone,
         with_dbs s (update_db (s_dbs s) o d
                       (fun x => set_backup (Some (d_content r, d_audit r)) (set_content_audit c au x))))
      | None => (RespErr 404, s)
      end
    | OUserAdd t ro =>
      (RespOk 201 BNone, with_dbs s (update_db (s_dbs s) o d (fun x => set_roles (set_role (d_roles x) t ro) x)))
    | OUserList => (RespOk 200 (BUsers (d_roles r)), s)
    | OUserRemove t =>
      (RespOk 204 BNone, with_dbs s (update_db (s_dbs s) o d (fun x => set_roles (drop_role (d_roles x) t) x)))
    end
  end.

Definition logout_tokens (s : state) (u : N) (cur : N) (sel : logout_sel) : list tokrec :=
  match sel with
  | LoCurrent => filter (fun r => negb (t_id r =? cur)) (s_tokens s)
  | LoAll => filter (fun r => negb (t_user r =? u)) (s_tokens s)
  | LoOthers => filter (fun r => negb (t_user r =? u) || (t_id r =? cur)) (s_tokens s)
  | LoSession sid => filter (fun r => negb (t_id r =? sid)) (s_tokens s)
  end.

(* effect of an allowed request; `u` = authenticated caller (ignored by login) *)
Definition apply (s : state) (now : N) (tok : option N) (u : N) (req : request) : response * state :=
  match req with
  | ReqLogin lu _ =>
    (RespOk 200 (BToken (s_next s)),
     mkState (s_admin s) (s_ttl s) (s_users s)
             (s_tokens s ++ [mkTok (s_next s) lu (now + s_ttl s)]) (s_next s + 1) (s_dbs s) (s_disk s))
  | ReqLogout sel =>
    (RespOk 201 BNone, with_tokens s (logout_tokens s u (match tok with Some t => t | None => 0 end) sel))
  | ReqChangePassword _ new =>
    (RespOk 201 BNone, with_users s (map (fun p => if fst p =? u then (u, new) else p) (s_users s)))
  | ReqStatus => (RespOk 200 (BStatus u (u =? s_admin s) (sessions_of s now u)), s)
  | ReqDbList =>
    (RespOk 200 (BDbList (flat_map (fun r => match lookup_role (d_roles r) u with
                                             | Some ro => [(d_owner r, d_name r, ro)]
                                             | None => [] end) (s_dbs s))), s)
  | ReqDb o d op => apply_db s u o d op u
  | ReqAdminDbList =>
    (RespOk 200 (BDbList (map (fun r => (d_owner r, d_name r, RoAdmin)) (s_dbs s))), s)
  | ReqAdminDb o d op =>
    apply_db s (s_admin s) o d op
             (match op with OCopy no _ => no | ORename no _ => no | _ => o end)
  | ReqAdminUserAdd t pw => (RespOk 201 BNone, with_users s (s_users s ++ [(t, pw)]))
  | ReqAdminUserChangePassword t pw =>
    (RespOk 201 BNone, with_users s (map (fun p => if fst p =? t then (t, pw) else p) (s_users s)))
  | ReqAdminUserDelete t =>
    (* server_db.rs remove_user + DbPool::remove_user_dbs: tokens, owned
       databases, role edges and the whole owner directory go *)
    (RespOk 204 BNone,
     mkState (s_admin s) (s_ttl s)
             (filter (fun p => negb (fst p =? t)) (s_users s))
             (filter (fun r => negb (t_user r =? t)) (s_tokens s))
             (s_next s)
             (map (fun r => set_roles (drop_role (d_roles r) t) r)
                  (filter (fun r => negb (d_owner r =? t)) (s_dbs s)))
             (filter (fun r => negb (d_owner r =? t)) (s_disk s)))
  | ReqAdminUserLogout t sel =>
    (RespOk 201 BNone,
     with_tokens s (match sel with
                    | LoSession sid => filter (fun r => negb (t_id r =? sid)) (s_tokens s)
                    | _ => filter (fun r => negb (t_user r =? t)) (s_tokens s)
                    end))
  | ReqAdminUserLogoutAll =>
    (RespOk 201 BNone, with_tokens s (filter (fun r => t_user r =? s_admin s) (s_tokens s)))
  | ReqAdminUserList =>
    (RespOk 200 (BUserList (map (fun p => (fst p, sessions_of s now (fst p))) (s_users s))), s)
  | ReqAdminStatus => (RespOk 200 BNone, s)
  end.

(* one request against the server *)
Definition step (s : state) (now : N) (tok : option N) (req : request) : response * state :=
  match authorize s now tok req with
  | Deny c => (RespErr c, s)
  | Allow =>
    apply s now tok (match user_of_token s now tok with Some u => u | None => 0 end) req
  end.

Definition resp_ok (r : response) : bool := match r with RespOk _ _ => true | RespErr _ => false end.

(* a request sequence *)
Definition event := (N * option N * request)%type.       (* time, token, request *)
Fixpoint run (s : state) (tr : list event) : state :=
  match tr with
  | [] => s
  | (now, tok, req) :: t => run (snd (step s now tok req)) t
  end.

(* ------------------------------------------------------------------ *)
(* the documented permission matrix (agdb_web/content/docs/03.references/02.server.md,
   "Database Actions": required permission per endpoint)                *)
(* ------------------------------------------------------------------ *)

Inductive perm := POwner | PAdmin | PWrite | PRead.

(* the endpoint of an operation (arguments erased) *)
Inductive optag :=
| TAdd | TAudit | TBackup | TClear | TConvert | TCopy | TDelete | TExec | TExecMut
| TOptimize | TRemove | TRename | TRestore | TRollback | TUserAdd | TUserList | TUserRemove.

Definition doc_perm (t : optag) : perm :=
  match t with
  | TAdd => POwner | TAudit => PRead | TBackup => PAdmin | TClear => PAdmin
  | TConvert => PAdmin | TCopy => PRead | TDelete => POwner | TExec => PRead
  | TExecMut => PWrite | TOptimize => PWrite | TRemove => POwner | TRename => POwner
  | TRestore => PAdmin | TRollback => PAdmin | TUserAdd => PAdmin | TUserList => PRead
  | TUserRemove => PAdmin
  end.

(* what a caller holds on a database *)
Inductive holds := HNone | HRead | HWrite | HAdmin | HOwner.

Definition doc_allows (p : perm) (h : holds) : bool :=
  match p, h with
  | POwner, HOwner => true
  | PAdmin, (HOwner | HAdmin) => true
  | PWrite, (HOwner | HAdmin | HWrite) => true
  | PRead, (HOwner | HAdmin | HWrite | HRead) => true
  | _, _ => false
  end.

Definition tag_of (op : dbop) : optag :=
  match op with
  | OAdd _ => TAdd | OAudit => TAudit | OBackup => TBackup | OClear _ => TClear
  | OConvert _ => TConvert | OCopy _ _ => TCopy | ODelete => TDelete | OExec _ => TExec
  | OExecMut _ => TExecMut | OOptimize => TOptimize | ORemove => TRemove | ORename _ _ => TRename
  | ORestore => TRestore | ORollback => TRollback | OUserAdd _ _ => TUserAdd
  | OUserList => TUserList | OUserRemove _ => TUserRemove
  end.

(* what user u holds on (o, d) in state s *)
Definition holds_of (s : state) (u o d : N) : holds :=
  match role_of s u o d with
  | None => HNone
  | Some ro => if u =? o then HOwner
               else match ro with RoAdmin => HAdmin | RoWrite => HWrite | RoRead => HRead end
  end.

Definition is_allow (d : decision) : bool := match d with Allow => true | Deny _ => false end.
