(* CollBytes.v — proofs (collections, part 2): the byte layout of a vector record,
     record = header ++ concat slots ++ spare        (every slot `k` bytes)
   and what the value operations of the abstract record map (StorageSpec.v: v_insert_at,
   v_resize, v_move) do to it: read a slot, overwrite a slot, append a slot into / beyond the
   spare bytes, rewrite the header, resize, move the tail down over a slot (remove), move one
   slot onto another (swap). *)
From Agdb Require Import Bytes BytesProofs Records Storage StorageSpec StorageLayout Collections.
From Coq Require Import ZifyBool ZifyNat ZifyN.
Ltac Zify.zify_post_hook ::= Z.div_mod_to_equations.
Open Scope N_scope.
Arguments N.add : simpl never.
Arguments N.mul : simpl never.
Arguments N.sub : simpl never.
Arguments N.of_nat : simpl never.
Arguments N.to_nat : simpl never.
Arguments N.eqb : simpl never.
Arguments N.ltb : simpl never.
Arguments N.leb : simpl never.
Arguments N.div : simpl never.

(* ---------- lists ---------- *)
Lemma cl_upd_length {T} (l : list T) i x : length (cl_upd l i x) = length l.
Proof. revert i; induction l as [|y t IH]; intros [|i]; cbn [cl_upd length]; auto. Qed.

Lemma cl_upd_split {T} (l : list T) i x :
  (i < length l)%nat -> cl_upd l i x = firstn i l ++ x :: skipn (S i) l.
Proof.
  revert i; induction l as [|y t IH]; intros [|i] H; cbn [length] in H; try lia; cbn [cl_upd firstn skipn app].
  - reflexivity.
  - f_equal. apply IH. lia.
Qed.

Lemma cl_upd_oob {T} (l : list T) i x : (length l <= i)%nat -> cl_upd l i x = l.
Proof.
  revert i; induction l as [|y t IH]; intros [|i] H; cbn [length] in H; try lia; cbn [cl_upd]; [reflexivity|reflexivity|].
  f_equal. apply IH. lia.
Qed.

Lemma cl_upd_upd {T} (l : list T) i x y : cl_upd (cl_upd l i x) i y = cl_upd l i y.
Proof. revert i; induction l as [|z t IH]; intros [|i]; cbn [cl_upd]; try reflexivity. f_equal. apply IH. Qed.

Lemma nth_error_cl_upd {T} (l : list T) i x j :
  nth_error (cl_upd l i x) j = if Nat.eqb i j then (if Nat.ltb i (length l) then Some x else None) else nth_error l j.
Proof.
  revert i j; induction l as [|y t IH]; intros [|i] [|j]; cbn [cl_upd nth_error length Nat.eqb]; try reflexivity.
  - destruct (Nat.eqb i j); reflexivity.
  - rewrite IH. destruct (Nat.eqb i j); [|reflexivity].
    destruct (Nat.ltb_spec i (length t)), (Nat.ltb_spec (S i) (S (length t))); try reflexivity; lia.
Qed.

Lemma split_nth {T} (l : list T) i d :
  (i < length l)%nat -> l = firstn i l ++ nth i l d :: skipn (S i) l.
Proof.
  revert i; induction l as [|y t IH]; intros [|i] H; cbn [length] in H; try lia; cbn [firstn skipn nth app].
  - reflexivity.
  - f_equal. apply IH. lia.
Qed.

Lemma nth_error_nth' {T} (l : list T) i d x : nth_error l i = Some x -> nth i l d = x.
Proof. revert i; induction l as [|y t IH]; intros [|i]; cbn [nth_error nth]; try discriminate; [congruence|apply IH]. Qed.

Lemma nth_error_Some_lt {T} (l : list T) i x : nth_error l i = Some x -> (i < length l)%nat.
Proof. intros H. apply nth_error_Some. congruence. Qed.

Lemma nth_error_lt_Some {T} (l : list T) i : (i < length l)%nat -> exists x, nth_error l i = Some x.
Proof. intros H. destruct (nth_error l i) eqn:E; [eauto|]. apply nth_error_None in E. lia. Qed.

(* ---------- slots ---------- *)
Definition chunks (k : nat) (bss : list bytes) : Prop := Forall (fun b => length b = k) bss.

Lemma chunks_app k a b : chunks k (a ++ b) <-> chunks k a /\ chunks k b.
Proof. apply Forall_app. Qed.

Lemma In_firstn_in {T} (l : list T) n x : In x (firstn n l) -> In x l.
Proof. revert n; induction l as [|y t IH]; intros [|n]; cbn [firstn In]; try tauto. intros [H|H]; [auto|right; eapply IH; eauto]. Qed.
Lemma In_skipn_in {T} (l : list T) n x : In x (skipn n l) -> In x l.
Proof. revert n; induction l as [|y t IH]; intros [|n]; cbn [skipn In]; try tauto. intros H. right. eapply IH; eauto. Qed.

Lemma chunks_firstn k bss n : chunks k bss -> chunks k (firstn n bss).
Proof. unfold chunks. rewrite !Forall_forall. intros H x Hx. apply H. eapply In_firstn_in; eauto. Qed.
Lemma chunks_skipn k bss n : chunks k bss -> chunks k (skipn n bss).
Proof. unfold chunks. rewrite !Forall_forall. intros H x Hx. apply H. eapply In_skipn_in; eauto. Qed.
Lemma chunks_nth k bss i : chunks k bss -> (i < length bss)%nat -> length (nth i bss []) = k.
Proof. unfold chunks. rewrite Forall_forall. intros H Hi. apply H. apply nth_In. exact Hi. Qed.
Lemma chunks_upd k bss i b : chunks k bss -> length b = k -> chunks k (cl_upd bss i b).
Proof.
  intros H Hb. destruct (Nat.ltb_spec i (length bss)) as [Hi|Hi].
  - rewrite cl_upd_split by exact Hi. apply chunks_app. split; [apply chunks_firstn; exact H|].
    constructor; [exact Hb|apply chunks_skipn; exact H].
  - rewrite cl_upd_oob by exact Hi. exact H.
Qed.

Lemma concat_length_chunks k bss : chunks k bss -> length (concat bss) = (k * length bss)%nat.
Proof.
  induction 1 as [|b t Hb Ht IH]; cbn [concat length]; [lia|]. rewrite app_length, IH, Hb. lia.
Qed.

Lemma concat_firstn_length k bss i :
  chunks k bss -> (i <= length bss)%nat -> length (concat (firstn i bss)) = (k * i)%nat.
Proof.
  intros H Hi. rewrite (concat_length_chunks k) by (apply chunks_firstn; exact H). rewrite firstn_length. f_equal. lia.
Qed.

(* record = P ++ concat bss ++ Sp, slot i at |P| + k * i *)
Lemma slot_decomp k (P Sp : bytes) bss i :
  chunks k bss -> (i < length bss)%nat ->
  P ++ concat bss ++ Sp = (P ++ concat (firstn i bss)) ++ nth i bss [] ++ (concat (skipn (S i) bss) ++ Sp) /\
  length (P ++ concat (firstn i bss)) = (length P + k * i)%nat /\ length (nth i bss []) = k.
Proof.
  intros H Hi. split; [|split].
  - rewrite (split_nth bss i [] Hi) at 1. rewrite concat_app. cbn [concat]. rewrite <- !app_assoc. reflexivity.
  - rewrite app_length. rewrite (concat_firstn_length k) by (auto; lia). reflexivity.
  - apply chunks_nth; assumption.
Qed.

Lemma slot_read k (P Sp : bytes) bss i :
  chunks k bss -> (i < length bss)%nat ->
  bs_read (P ++ concat bss ++ Sp) (length P + k * i) k = nth i bss [].
Proof.
  intros H Hi. destruct (slot_decomp k P Sp bss i H Hi) as (-> & HL & Hn).
  apply bs_read_mid; [symmetry; exact HL|symmetry; exact Hn].
Qed.

Lemma slot_write k (P Sp : bytes) bss i b :
  chunks k bss -> (i < length bss)%nat -> length b = k ->
  bs_write (P ++ concat bss ++ Sp) (length P + k * i) b = P ++ concat (cl_upd bss i b) ++ Sp.
Proof.
  intros H Hi Hb. destruct (slot_decomp k P Sp bss i H Hi) as (-> & HL & Hn).
  rewrite bs_write_mid by (try (symmetry; exact HL); lia).
  rewrite cl_upd_split by exact Hi. rewrite concat_app. cbn [concat]. rewrite <- !app_assoc. reflexivity.
Qed.

(* a write starting at the end of A: into the rest, or beyond it *)
Lemma bs_write_at (A Sp b : bytes) : bs_write (A ++ Sp) (length A) b = A ++ b ++ skipn (length b) Sp.
Proof.
  unfold bs_write. rewrite firstn_app_l by reflexivity.
  replace (length A - length (A ++ Sp))%nat with 0%nat by (rewrite app_length; lia). cbn [repeat app].
  f_equal. f_equal. rewrite skipn_app. rewrite (skipn_all2 A) by lia. cbn [app]. f_equal. lia.
Qed.

Lemma slot_append k (P Sp : bytes) bss b :
  chunks k bss -> length b = k ->
  bs_write (P ++ concat bss ++ Sp) (length P + k * length bss) b = P ++ concat (bss ++ [b]) ++ skipn k Sp.
Proof.
  intros H Hb. rewrite app_assoc.
  replace (length P + k * length bss)%nat with (length (P ++ concat bss)) by (rewrite app_length, (concat_length_chunks k) by exact H; lia).
  rewrite bs_write_at. rewrite concat_app. cbn [concat]. rewrite app_nil_r, Hb, <- !app_assoc. reflexivity.
Qed.

Lemma header_write (P P' R : bytes) : length P' = length P -> bs_write (P ++ R) 0 P' = P' ++ R.
Proof.
  intros HL. change (P ++ R) with ([] ++ P ++ R). rewrite bs_write_mid by (cbn; auto). reflexivity.
Qed.

(* resizing to at least the used part keeps it *)
Lemma pad_keep (A Sp : bytes) n :
  lenN A <= n -> exists S', pad_to (A ++ Sp) n = A ++ S' /\ lenN (A ++ S') = n.
Proof.
  intros H. destruct (N.le_ge_cases (lenN (A ++ Sp)) n) as [Hc|Hc].
  - rewrite pad_to_grow by exact Hc. exists (Sp ++ zeros (n - lenN (A ++ Sp))). rewrite <- app_assoc. split; [reflexivity|].
    rewrite !lenN_app, lenN_zeros. rewrite lenN_app in Hc. lia.
  - rewrite pad_to_shrink by exact Hc. exists (firstn (N.to_nat n - length A) Sp).
    rewrite firstn_app. rewrite firstn_all2 by (unfold lenN in H; lia). split; [reflexivity|].
    rewrite lenN_app. unfold lenN in *. rewrite firstn_length. rewrite app_length in Hc. lia.
Qed.

(* ---------- v_move ---------- *)
Lemma v_insert_at_eq v off bs : v_insert_at v off bs = bs_write v (N.to_nat off) bs.
Proof. reflexivity. Qed.

(* source and destination do not overlap: copy, then zero the source *)
Lemma v_move_disjoint x from to n :
  0 < n -> (to + n <= from \/ from + n <= to) ->
  v_move x from to n =
  bs_write (bs_write x (N.to_nat to) (bs_read x (N.to_nat from) (N.to_nat n))) (N.to_nat from) (zeros n).
Proof.
  intros Hn H. unfold v_move, v_insert_at.
  destruct (N.ltb_spec from to) as [L|L].
  - f_equal. f_equal. lia.
  - destruct (N.ltb_spec to from) as [L'|L']; [|lia].
    replace (N.max (to + n) from) with from by lia. f_equal. f_equal. lia.
Qed.

(* moving C down over B (|A| = to, |A ++ B| = from) *)
Lemma v_move_down (A B C D : bytes) :
  v_move (A ++ B ++ C ++ D) (lenN (A ++ B)) (lenN A) (lenN C) =
  A ++ C ++ skipn (length C) B ++ zeros (N.min (lenN B) (lenN C)) ++ D.
Proof.
  unfold v_move, v_insert_at.
  assert (Hr : bs_read (A ++ B ++ C ++ D) (N.to_nat (lenN (A ++ B))) (N.to_nat (lenN C)) = C).
  { rewrite !to_nat_lenN. rewrite app_assoc. apply bs_read_mid; reflexivity. }
  rewrite Hr. rewrite !to_nat_lenN.
  assert (H1 : bs_write (A ++ B ++ C ++ D) (length A) C = A ++ C ++ skipn (length C) (B ++ C ++ D)) by apply bs_write_at.
  rewrite H1. rewrite lenN_app.
  destruct (N.ltb_spec (lenN A + lenN B) (lenN A)) as [L|L]; [lia|].
  destruct (N.ltb_spec (lenN A) (lenN A + lenN B)) as [L'|L'].
  - destruct (N.le_ge_cases (lenN B) (lenN C)) as [Hc|Hc].
    + (* overlap: the zeroed part is the last |B| bytes of the source *)
      replace (N.max (lenN A + lenN C) (lenN A + lenN B)) with (lenN A + lenN C) by lia.
      replace (lenN A + lenN B + lenN C - (lenN A + lenN C)) with (lenN B) by lia.
      replace (N.min (lenN B) (lenN C)) with (lenN B) by lia.
      rewrite (skipn_all2 B) by (unfold lenN in Hc; lia). cbn [app].
      (* skipn |C| (B ++ C ++ D) = W ++ D with |W| = |B| *)
      rewrite (app_assoc B C D), skipn_app.
      replace (length C - length (B ++ C))%nat with 0%nat by (rewrite app_length; lia). cbn [skipn].
      rewrite (app_assoc A C), (app_assoc (A ++ C)).
      replace (N.to_nat (lenN A + lenN C)) with (length (A ++ C)) by (rewrite app_length; unfold lenN; lia).
      rewrite <- app_assoc at 1.
      rewrite bs_write_mid; [rewrite <- !app_assoc; reflexivity|reflexivity|].
      rewrite zeros_length, skipn_length, app_length. unfold lenN in *. lia.
    + (* no overlap: the whole source is zeroed *)
      replace (N.max (lenN A + lenN C) (lenN A + lenN B)) with (lenN A + lenN B) by lia.
      replace (lenN A + lenN B + lenN C - (lenN A + lenN B)) with (lenN C) by lia.
      replace (N.min (lenN B) (lenN C)) with (lenN C) by lia.
      rewrite skipn_app. replace (length C - length B)%nat with 0%nat by (unfold lenN in Hc; lia). cbn [skipn].
      replace (N.to_nat (lenN A + lenN B)) with (length (A ++ C ++ skipn (length C) B))
        by (rewrite !app_length, skipn_length; unfold lenN in *; lia).
      replace (A ++ C ++ skipn (length C) B ++ C ++ D) with ((A ++ C ++ skipn (length C) B) ++ C ++ D)
        by (rewrite <- !app_assoc; reflexivity).
      rewrite bs_write_mid; [rewrite <- !app_assoc; reflexivity|reflexivity|].
      rewrite zeros_length. unfold lenN. lia.
  - assert (HB : B = []) by (apply lenN_0_nil; lia). subst B. cbn [app skipn length].
    rewrite skipn_app_l by reflexivity. replace (N.min (lenN []) (lenN C)) with 0 by (unfold lenN; cbn; lia).
    rewrite skipn_nil. reflexivity.
Qed.
