(* ConcReadProofs.v — C23: every interleaving of `FileStorage::read` returns the sequential bytes. *)
From Agdb Require Import Bytes ConcRead.
From Coq Require Import Lia Arith.
Local Open Scope nat_scope.

(* ------------------------------------------------------------------ list update *)
Lemma upd_length : forall X (l : list X) i x, length (upd l i x) = length l.
Proof. induction l as [|y l IH]; intros [|i] x; cbn [upd length]; auto. Qed.

Lemma nth_error_upd_same : forall X (l : list X) i x, i < length l -> nth_error (upd l i x) i = Some x.
Proof.
  induction l as [|y l IH]; intros [|i] x Hi; cbn [upd nth_error length] in *; try lia; auto.
  apply IH; lia.
Qed.

Lemma nth_error_upd_other : forall X (l : list X) i j x, i <> j -> nth_error (upd l i x) j = nth_error l j.
Proof.
  induction l as [|y l IH]; intros [|i] [|j] x Hij; cbn [upd nth_error]; auto; try lia.
Qed.

Lemma nth_error_lt : forall X (l : list X) i x, nth_error l i = Some x -> i < length l.
Proof. intros X l i x H. apply nth_error_Some. congruence. Qed.

Lemma iter_add : forall X (f : X -> X) a b x, Nat.iter (a + b) f x = Nat.iter a f (Nat.iter b f x).
Proof. induction a as [|a IH]; intros b x; cbn [Nat.iter plus nat_rect]; [reflexivity|]. unfold Nat.iter in *. cbn. now rewrite IH. Qed.

(* ------------------------------------------------------------------ progress of one thread *)
Definition phase (p : pcst) : nat :=
  match p with
  | Idle => 0
  | LSeek | POpen => 1
  | LRead | PSeek => 2
  | LUnlock _ | PRead _ => 3
  end.

Definition is_locked (p : pcst) : bool :=
  match p with LSeek | LRead | LUnlock _ => true | _ => false end.

Lemma file_read_in content pos len : in_range content pos len = true -> file_read content pos len = sys_read content pos len.
Proof. unfold file_read. now intros ->. Qed.
Lemma file_read_oob content pos len : in_range content pos len = false -> file_read content pos len = None.
Proof. unfold file_read. now intros ->. Qed.

(* what one scheduled action does to (phase, code) of a thread that runs ALONE: a read out of range is
   answered at once (1 action), a read in range takes 4 actions on either branch *)
Definition adv {A} (content : bytes) (x : nat * prog A) : nat * prog A :=
  match snd x with
  | Ret _ => x
  | Rd pos len k =>
      if ((fst x =? 0) && negb (in_range content pos len)) || (fst x =? 3)
      then (0, k (file_read content pos len)) else (S (fst x), snd x)
  end.

Definition read_cost (content : bytes) (pos len : nat) : nat := if in_range content pos len then 4 else 1.

(* the number of actions a reader needs when run alone *)
Fixpoint steps_seq {A} (content : bytes) (p : prog A) : nat :=
  match p with
  | Ret _ => 0
  | Rd pos len k => read_cost content pos len + steps_seq content (k (file_read content pos len))
  end.

Lemma adv_ret : forall A content n ph (a : A), Nat.iter n (adv content) (ph, Ret a) = (ph, Ret a).
Proof. induction n as [|n IH]; intros; cbn [Nat.iter nat_rect]; auto. unfold Nat.iter in IH. rewrite IH. reflexivity. Qed.

Lemma adv_mid : forall A content pos len (k : option bytes -> prog A) ph,
  in_range content pos len = true -> ph < 3 -> adv content (ph, Rd pos len k) = (S ph, Rd pos len k).
Proof.
  intros A content pos len k ph Hr Hp. unfold adv. cbn [fst snd]. rewrite Hr, andb_false_r. cbn [orb].
  destruct (Nat.eqb_spec ph 3); [lia|reflexivity].
Qed.

Lemma iter_mid : forall A content pos len (k : option bytes -> prog A) n,
  in_range content pos len = true -> n <= 3 -> Nat.iter n (adv content) (0, Rd pos len k) = (n, Rd pos len k).
Proof.
  intros A content pos len k n Hr. induction n as [|n IH]; intros Hn; [reflexivity|].
  cbn [Nat.iter nat_rect]. unfold Nat.iter in IH. rewrite IH by lia. apply adv_mid; [exact Hr|lia].
Qed.

Lemma adv_read : forall A content pos len (k : option bytes -> prog A),
  Nat.iter (read_cost content pos len) (adv content) (0, Rd pos len k) = (0, k (file_read content pos len)).
Proof.
  intros A content pos len k. unfold read_cost. destruct (in_range content pos len) eqn:Hr.
  - change 4 with (1 + 3). rewrite iter_add, iter_mid by auto. cbn [Nat.iter nat_rect].
    unfold adv. cbn [fst snd Nat.eqb orb]. now rewrite orb_true_r.
  - cbn [Nat.iter nat_rect]. unfold adv. cbn [fst snd Nat.eqb]. rewrite Hr. reflexivity.
Qed.

Lemma adv_complete : forall A content (p : prog A) extra,
  Nat.iter (steps_seq content p + extra) (adv content) (0, p) = (0, Ret (run_seq content p)).
Proof.
  induction p as [a|pos len k IH]; intros extra; cbn [steps_seq run_seq].
  - apply adv_ret.
  - replace (read_cost content pos len + steps_seq content (k (file_read content pos len)) + extra)
      with ((steps_seq content (k (file_read content pos len)) + extra) + read_cost content pos len) by lia.
    rewrite iter_add, adv_read. apply IH.
Qed.

(* whatever the count, the code reached is a sequential continuation: if it returned, it returned
   the sequential value *)
Lemma adv_ret_value : forall A content n (p : prog A) ph a,
  Nat.iter n (adv content) (0, p) = (ph, Ret a) -> a = run_seq content p.
Proof.
  intros A content n. induction n as [n IH] using lt_wf_ind. intros p ph a H.
  destruct p as [b|pos len k].
  - rewrite adv_ret in H. cbn [run_seq]. congruence.
  - destruct (Nat.lt_ge_cases n (read_cost content pos len)) as [Hlt|Hge].
    + exfalso. unfold read_cost in Hlt. destruct (in_range content pos len) eqn:Hr.
      * rewrite iter_mid in H by (auto; lia). congruence.
      * assert (n = 0) by lia. subst. cbn in H. congruence.
    + replace n with ((n - read_cost content pos len) + read_cost content pos len) in H by lia.
      rewrite iter_add, adv_read in H.
      cbn [run_seq]. eapply IH; [|exact H]. unfold read_cost in *. destruct (in_range content pos len); lia.
Qed.

(* ------------------------------------------------------------------ tlog *)
Lemma tlog_app : forall t l1 l2, tlog t (l1 ++ l2) = tlog t l1 ++ tlog t l2.
Proof.
  induction l1 as [|[[[u pos] len] r] l1 IH]; intros l2; cbn [tlog app]; auto.
  destruct (u =? t); cbn [app]; now rewrite IH.
Qed.

Lemma tlog_one_same : forall t pos len r, tlog t [(t, pos, len, r)] = [(pos, len, r)].
Proof. intros. cbn [tlog]. now rewrite Nat.eqb_refl. Qed.

Lemma tlog_one_other : forall t u pos len r, u <> t -> tlog t [(u, pos, len, r)] = [].
Proof. intros. cbn [tlog]. destruct (Nat.eqb_spec u t); auto; lia. Qed.

(* ------------------------------------------------------------------ the invariant (with the lock) *)
Definition entry_ok (content : bytes) (e : entry) : Prop :=
  let '(_, pos, len, r) := e in r = file_read content pos len.

Section Inv.
Context {A : Type}.
Variable content : bytes.
Variable ps : list (prog A).

Definition head_ok (s : state A) (th : thread A) : Prop :=
  match code th with
  | Ret _ => pc th = Idle
  | Rd pos len _ =>
    match pc th with
    | Idle => True
    | LRead => in_range content pos len = true /\ cursor s = pos    (* between the holder's seek and read *)
    | LUnlock r => r = file_read content pos len
    | PRead cur => in_range content pos len = true /\ cur = pos
    | _ => in_range content pos len = true                          (* past the range check *)
    end
  end.

Record Inv (cnt : nat -> nat) (s : state A) : Prop := {
  inv_len : length (threads s) = length ps;
  (* a thread inside the locked branch is the lock holder (hence at most one such thread) *)
  inv_lock : forall t th, nth_error (threads s) t = Some th -> is_locked (pc th) = true -> lock s = Some t;
  inv_head : forall t th, nth_error (threads s) t = Some th -> head_ok s th;
  inv_log : Forall (entry_ok content) (log s);
  (* each thread is exactly where it would be after being scheduled `cnt t` times ALONE *)
  inv_prog : forall t th p0, nth_error (threads s) t = Some th -> nth_error ps t = Some p0 ->
     (phase (pc th), code th) = Nat.iter (cnt t) (adv content) (0, p0);
  (* its completed reads followed by the sequential reads of what is left = its sequential reads *)
  inv_trace : forall t th p0, nth_error (threads s) t = Some th -> nth_error ps t = Some p0 ->
     seq_trace content p0 = tlog t (log s) ++ seq_trace content (code th)
}.

Lemma Inv_init : forall c0, Inv (fun _ => 0) (init c0 ps).
Proof.
  intros c0. unfold init. constructor; cbn [threads lock cursor log].
  - now rewrite map_length.
  - intros t th H Hl. rewrite nth_error_map in H. destruct (nth_error ps t); cbn in H; inversion H; subst. discriminate.
  - intros t th H. rewrite nth_error_map in H. destruct (nth_error ps t) as [p|]; cbn in H; inversion H; subst.
    unfold head_ok. cbn [code pc]. destruct p; auto.
  - constructor.
  - intros t th p0 H Hp. rewrite nth_error_map, Hp in H. cbn in H. inversion H; subst. reflexivity.
  - intros t th p0 H Hp. rewrite nth_error_map, Hp in H. cbn in H. inversion H; subst. reflexivity.
Qed.

Definition bump (cnt : nat -> nat) (t : nat) : nat -> nat := fun u => if u =? t then S (cnt u) else cnt u.

Lemma step_out_of_range : forall ul (s : state A) t, length (threads s) <= t -> step ul content s t = s.
Proof. intros ul s t H. unfold step. apply nth_error_None in H. now rewrite H. Qed.

(* common shape of the preservation proof: thread t replaced by th', others untouched *)
Lemma Inv_step : forall cnt s t, Inv cnt s -> t < length ps -> Inv (bump cnt t) (step true content s t).
Proof.
  intros cnt s t I Ht.
  destruct I as [Hlen Hlock Hhead Hlog Hprog Htrace].
  assert (Htl : t < length (threads s)) by lia.
  destruct (nth_error (threads s) t) as [th|] eqn:Hth; [|apply nth_error_None in Hth; lia].
  destruct (nth_error ps t) as [p0|] eqn:Hp0; [|apply nth_error_None in Hp0; lia].
  unfold step. rewrite Hth.
  destruct (code th) as [a|pos len k] eqn:Hcode;
    pose proof (Hprog t th p0 Hth Hp0) as Hpt;
    pose proof (Htrace t th p0 Hth Hp0) as Htt;
    pose proof (Hhead t th Hth) as Hht.
  { (* finished: nothing happens, one more (idle) count *)
    constructor; auto.
    - intros u thu q Hu Hq. unfold bump. destruct (Nat.eqb_spec u t) as [->|Hne]; [|auto].
      rewrite Hth in Hu. inversion Hu; subst thu. rewrite Hp0 in Hq. inversion Hq; subst q.
      cbn [Nat.iter nat_rect]. unfold Nat.iter in Hpt. rewrite <- Hpt. rewrite Hcode. reflexivity. }
  unfold head_ok in Hht. rewrite Hcode in Hht.
  (* the count equation for thread t after one more action *)
  assert (Hadv : forall pc' code',
            (phase pc', code') = adv content (phase (pc th), code th) ->
            (phase pc', code') = Nat.iter (bump cnt t t) (adv content) (0, p0)).
  { intros pc' code' E. unfold bump. rewrite Nat.eqb_refl. cbn [Nat.iter nat_rect].
    unfold Nat.iter in Hpt. rewrite <- Hpt. exact E. }
  assert (Hother_cnt : forall u, u <> t -> bump cnt t u = cnt u).
  { intros u Hu. unfold bump. destruct (Nat.eqb_spec u t); auto; lia. }
  (* generic builder: new state with thread t := th', given the facts that differ per case *)
  assert (Build : forall cur' lk' th' lg',
     (forall u thu, u <> t -> nth_error (threads s) u = Some thu -> is_locked (pc thu) = true -> lk' = Some u) ->
     (is_locked (pc th') = true -> lk' = Some t) ->
     (forall u thu, u <> t -> nth_error (threads s) u = Some thu ->
         head_ok (mkState cur' lk' (upd (threads s) t th') lg') thu) ->
     head_ok (mkState cur' lk' (upd (threads s) t th') lg') th' ->
     Forall (entry_ok content) lg' ->
     (phase (pc th'), code th') = adv content (phase (pc th), code th) ->
     (forall u, u <> t -> tlog u lg' = tlog u (log s)) ->
     seq_trace content p0 = tlog t lg' ++ seq_trace content (code th') ->
     Inv (bump cnt t) (mkState cur' lk' (upd (threads s) t th') lg')).
  { intros cur' lk' th' lg' B1 B2 B3 B4 B5 B6 B7 B8.
    constructor; cbn [threads lock cursor log].
    - now rewrite upd_length.
    - intros u thu Hu Hl. destruct (Nat.eq_dec u t) as [->|Hne].
      + rewrite nth_error_upd_same in Hu by lia. inversion Hu; subst. auto.
      + rewrite nth_error_upd_other in Hu by lia. eauto.
    - intros u thu Hu. destruct (Nat.eq_dec u t) as [->|Hne].
      + rewrite nth_error_upd_same in Hu by lia. inversion Hu; subst. auto.
      + rewrite nth_error_upd_other in Hu by lia. eauto.
    - exact B5.
    - intros u thu q Hu Hq. destruct (Nat.eq_dec u t) as [->|Hne].
      + rewrite nth_error_upd_same in Hu by lia. inversion Hu; subst thu.
        rewrite Hp0 in Hq. inversion Hq; subst q. apply Hadv. exact B6.
      + rewrite nth_error_upd_other in Hu by lia. rewrite Hother_cnt by exact Hne. eauto.
    - intros u thu q Hu Hq. destruct (Nat.eq_dec u t) as [->|Hne].
      + rewrite nth_error_upd_same in Hu by lia. inversion Hu; subst thu.
        rewrite Hp0 in Hq. inversion Hq; subst q. exact B8.
      + rewrite nth_error_upd_other in Hu by lia. rewrite B7 by exact Hne. eauto. }
  (* head_ok of an untouched thread when the shared cursor does not change *)
  assert (Hkeep : forall cur' lk' thr lg' u thu, cur' = cursor s -> nth_error (threads s) u = Some thu ->
             head_ok (mkState cur' lk' thr lg') thu).
  { intros cur' lk' thr lg' u thu -> Hu. specialize (Hhead u thu Hu). unfold head_ok in *. cbn [cursor]. exact Hhead. }
  (* head_ok of an untouched thread that is not in LRead, whatever the cursor *)
  assert (Hkeep2 : forall cur' lk' thr lg' u thu, nth_error (threads s) u = Some thu -> pc thu <> LRead ->
             head_ok (mkState cur' lk' thr lg') thu).
  { intros cur' lk' thr lg' u thu Hu Hn. specialize (Hhead u thu Hu). unfold head_ok in *. cbn [cursor].
    destruct (code thu); auto. destruct (pc thu); auto. congruence. }
  assert (Hadv_mid : forall pc', phase pc' = S (phase (pc th)) -> phase (pc th) <> 3 ->
             in_range content pos len = true ->
             (phase pc', code th) = adv content (phase (pc th), code th)).
  { intros pc' E1 E2 Hr. rewrite Hcode, E1. symmetry. apply adv_mid; [exact Hr|]. destruct (pc th); cbn [phase] in *; lia. }
  assert (Hadv_fin : forall r, phase (pc th) = 3 -> r = file_read content pos len ->
             (phase Idle, k r) = adv content (phase (pc th), code th)).
  { intros r E1 ->. unfold adv. cbn [fst snd]. rewrite Hcode, E1. cbn [Nat.eqb]. now rewrite orb_true_r. }
  assert (Hadv_oob : phase (pc th) = 0 -> in_range content pos len = false ->
             (phase Idle, k None) = adv content (phase (pc th), code th)).
  { intros E1 Hr. unfold adv. cbn [fst snd]. rewrite Hcode, E1, Hr. cbn. now rewrite (file_read_oob _ _ _ Hr). }
  assert (Hlog_fin : forall r, r = file_read content pos len ->
             Forall (entry_ok content) (log s ++ [(t, pos, len, r)])).
  { intros r ->. apply Forall_app. split; auto. constructor; [|constructor]. cbn. reflexivity. }
  assert (Htr_fin : forall r, r = file_read content pos len ->
             seq_trace content p0 = tlog t (log s ++ [(t, pos, len, r)]) ++ seq_trace content (k r)).
  { intros r ->. rewrite tlog_app, tlog_one_same, <- app_assoc. rewrite Htt, Hcode. reflexivity. }
  assert (Htl_other : forall r u, u <> t -> tlog u (log s ++ [(t, pos, len, r)]) = tlog u (log s)).
  { intros r u Hu. rewrite tlog_app, tlog_one_other by lia. apply app_nil_r. }
  (* who can be inside the locked branch *)
  assert (Hexcl : forall u thu, u <> t -> nth_error (threads s) u = Some thu -> is_locked (pc thu) = true ->
             lock s = Some t -> False).
  { intros u thu Hu Hnu Hl Hlk. specialize (Hlock u thu Hnu Hl). congruence. }
  assert (Hlocked_me : is_locked (pc th) = true -> lock s = Some t) by (apply (Hlock t th Hth)).
  (* the eight goals of Build, each closed by the first tactic that applies *)
  Ltac build_goals Build Hlock Hkeep Hkeep2 Hexcl Hlog Hlog_fin Hadv_mid Hadv_fin Hadv_oob Htl_other Htr_fin Hcode Htt k :=
    apply Build; cbn [pc code is_locked];
     [ intros u thu Hu Hnu Hl;
       first [ solve [eauto] | exfalso; solve [eauto] | specialize (Hlock u thu Hnu Hl); congruence ]
     | intros; first [ discriminate | assumption | reflexivity | congruence ]
     | intros u thu Hu Hnu;
       first [ solve [eapply Hkeep; eauto]
             | eapply Hkeep2; eauto; intros E; eapply (Hexcl u thu); eauto; now rewrite E ]
     | unfold head_ok; cbn [code pc cursor];
       first [ solve [auto] | solve [split; auto] | match goal with |- match ?x with _ => _ end => destruct x end; solve [auto]
             | solve [subst; symmetry; apply file_read_in; auto] ]
     | first [ exact Hlog | apply Hlog_fin; solve [auto | subst; symmetry; apply file_read_in; auto | symmetry; apply file_read_oob; auto] ]
     | first [ rewrite <- Hcode; apply Hadv_mid; cbn [phase]; solve [auto | lia]
             | apply Hadv_fin; solve [auto | subst; symmetry; apply file_read_in; auto]
             | apply Hadv_oob; solve [auto] ]
     | intros; first [ reflexivity | apply Htl_other; auto ]
     | first [ rewrite <- Hcode; exact Htt
             | apply Htr_fin; solve [auto | subst; symmetry; apply file_read_in; auto | symmetry; apply file_read_oob; auto] ] ].
  destruct (pc th) eqn:Hpc; cbn [phase is_locked] in *.
  - (* Idle: the range check, then try_lock *)
    destruct (in_range content pos len) eqn:Hr; cbn [negb].
    + destruct (lock s) as [h|] eqn:Hlk;
        build_goals Build Hlock Hkeep Hkeep2 Hexcl Hlog Hlog_fin Hadv_mid Hadv_fin Hadv_oob Htl_other Htr_fin Hcode Htt k.
    + build_goals Build Hlock Hkeep Hkeep2 Hexcl Hlog Hlog_fin Hadv_mid Hadv_fin Hadv_oob Htl_other Htr_fin Hcode Htt k.
  - (* LSeek: the holder moves the shared cursor *)
    assert (Hme : lock s = Some t) by (apply Hlocked_me; reflexivity). pose proof Hht as Hr.
    build_goals Build Hlock Hkeep Hkeep2 Hexcl Hlog Hlog_fin Hadv_mid Hadv_fin Hadv_oob Htl_other Htr_fin Hcode Htt k.
  - (* LRead: the holder reads at the cursor it set *)
    assert (Hme : lock s = Some t) by (apply Hlocked_me; reflexivity). destruct Hht as [Hr Hc].
    build_goals Build Hlock Hkeep Hkeep2 Hexcl Hlog Hlog_fin Hadv_mid Hadv_fin Hadv_oob Htl_other Htr_fin Hcode Htt k.
  - (* LUnlock: drop the guard, return *)
    assert (Hme : lock s = Some t) by (apply Hlocked_me; reflexivity).
    build_goals Build Hlock Hkeep Hkeep2 Hexcl Hlog Hlog_fin Hadv_mid Hadv_fin Hadv_oob Htl_other Htr_fin Hcode Htt k.
  - (* POpen *)
    pose proof Hht as Hr.
    build_goals Build Hlock Hkeep Hkeep2 Hexcl Hlog Hlog_fin Hadv_mid Hadv_fin Hadv_oob Htl_other Htr_fin Hcode Htt k.
  - (* PSeek *)
    pose proof Hht as Hr.
    build_goals Build Hlock Hkeep Hkeep2 Hexcl Hlog Hlog_fin Hadv_mid Hadv_fin Hadv_oob Htl_other Htr_fin Hcode Htt k.
  - (* PRead: private cursor *)
    destruct Hht as [Hr Hc].
    build_goals Build Hlock Hkeep Hkeep2 Hexcl Hlog Hlog_fin Hadv_mid Hadv_fin Hadv_oob Htl_other Htr_fin Hcode Htt k.
Qed.

(* lifting to every schedule *)
Fixpoint occ (t : nat) (l : list nat) : nat :=
  match l with [] => 0 | u :: r => (if u =? t then 1 else 0) + occ t r end.

Lemma occ_app : forall t a b, occ t (a ++ b) = occ t a + occ t b.
Proof. induction a as [|u a IH]; intros b; cbn [occ app]; auto. rewrite IH. lia. Qed.

(* counts only matter for existing threads *)
Lemma Inv_ext : forall cnt cnt' s, (forall t, t < length ps -> cnt t = cnt' t) -> Inv cnt s -> Inv cnt' s.
Proof.
  intros cnt cnt' s E [H1 H2 H3 H4 H5 H6]. constructor; auto.
  intros t th p0 Ht Hp. rewrite <- E; eauto. eapply nth_error_lt; eauto.
Qed.

Lemma Inv_run : forall sched pre s, Inv (fun t => occ t pre) s ->
  Inv (fun t => occ t (pre ++ sched)) (run true content s sched).
Proof.
  induction sched as [|t sched IH]; intros pre s I; cbn [run fold_left].
  - now rewrite app_nil_r.
  - replace (pre ++ t :: sched) with ((pre ++ [t]) ++ sched) by now rewrite <- app_assoc.
    apply IH.
    destruct (Nat.lt_ge_cases t (length ps)) as [Hlt|Hge].
    + eapply Inv_ext; [|apply Inv_step; eauto].
      intros u _. unfold bump. rewrite occ_app. cbn [occ]. rewrite (Nat.eqb_sym t u).
      destruct (u =? t); lia.
    + rewrite step_out_of_range by (rewrite (inv_len _ _ I); exact Hge).
      eapply Inv_ext; [|exact I].
      intros u Hu. rewrite occ_app. cbn [occ]. destruct (Nat.eqb_spec t u); lia.
Qed.

Theorem Inv_reachable : forall c0 sched, Inv (fun t => occ t sched) (run true content (init c0 ps) sched).
Proof. intros. apply (Inv_run sched [] (init c0 ps)). apply Inv_init. Qed.

End Inv.

(* ------------------------------------------------------------------ the theorems *)

(* every completed read returned the sequential bytes (or the sequential error), for every
   number of threads, all programs, every schedule; and per thread the completed reads are a
   prefix of the reads it issues when run alone *)
Theorem reads_linear : forall A (content : bytes) (c0 : nat) (ps : list (prog A)) (sched : list nat),
  let s := run true content (init c0 ps) sched in
  (forall t pos len r, In (t, pos, len, r) (log s) -> r = file_read content pos len) /\
  (forall t p0 th, nth_error ps t = Some p0 -> nth_error (threads s) t = Some th ->
     seq_trace content p0 = tlog t (log s) ++ seq_trace content (code th)).
Proof.
  intros A content c0 ps sched s. pose proof (Inv_reachable content ps c0 sched) as I. fold s in I. split.
  - intros t pos len r Hin. pose proof (inv_log _ _ _ _ I) as F. rewrite Forall_forall in F.
    apply (F _ Hin).
  - intros t p0 th Hp Ht. eapply inv_trace; eauto.
Qed.

(* instance for fixed request lists: thread t's log is its request list (a prefix of it) with the
   sequential results *)
Lemma seq_trace_reqs : forall content rs acc,
  seq_trace content (prog_of_reqs rs acc) = map (fun '(p, l) => (p, l, file_read content p l)) rs.
Proof. induction rs as [|[p l] rs IH]; intros acc; cbn [prog_of_reqs seq_trace map]; auto. now rewrite IH. Qed.

Theorem reads_linear_reqs : forall (content : bytes) (c0 : nat) (reqs : list (list (nat * nat))) (sched : list nat) t rs,
  nth_error reqs t = Some rs ->
  exists n, tlog t (log (run true content (init_reqs c0 reqs) sched))
            = firstn n (map (fun '(p, l) => (p, l, file_read content p l)) rs).
Proof.
  intros content c0 reqs sched t rs Hrs. unfold init_reqs.
  set (ps := map (fun rs => prog_of_reqs rs []) reqs).
  destruct (reads_linear _ content c0 ps sched) as [_ H].
  assert (Hp : nth_error ps t = Some (prog_of_reqs rs [])) by (unfold ps; rewrite nth_error_map, Hrs; reflexivity).
  pose proof (Inv_reachable content ps c0 sched) as I.
  destruct (nth_error (threads (run true content (init c0 ps) sched)) t) as [th|] eqn:Hth.
  - specialize (H t _ th Hp Hth). rewrite seq_trace_reqs in H.
    exists (length (tlog t (log (run true content (init c0 ps) sched)))).
    rewrite H. rewrite firstn_app, Nat.sub_diag, firstn_all. cbn [firstn]. now rewrite app_nil_r.
  - exfalso. apply nth_error_None in Hth. rewrite (inv_len _ _ _ _ I) in Hth.
    apply nth_error_lt in Hp. lia.
Qed.

(* a reader that returned, returned what it returns when run alone *)
Theorem queries_equal : forall A (content : bytes) c0 (ps : list (prog A)) sched t p0 th a,
  nth_error ps t = Some p0 ->
  nth_error (threads (run true content (init c0 ps) sched)) t = Some th ->
  code th = Ret a -> a = run_seq content p0.
Proof.
  intros A content c0 ps sched t p0 th a Hp Ht Hc.
  pose proof (inv_prog _ _ _ _ (Inv_reachable content ps c0 sched) t th p0 Ht Hp) as E.
  rewrite Hc in E. symmetry in E. eapply adv_ret_value; eauto.
Qed.

(* no reader is ever blocked, and the number of actions a reader needs does not depend on the
   other threads: scheduled `steps_seq` times (4 per sequential read in range, 1 per rejected read) it has returned *)
Lemma steps_seq_bound : forall A content (p : prog A), steps_seq content p <= 4 * reads_seq content p.
Proof.
  induction p as [a|pos len k IH]; cbn [steps_seq reads_seq]; [lia|].
  specialize (IH (file_read content pos len)). unfold read_cost. destruct (in_range content pos len); lia.
Qed.

Theorem completes : forall A (content : bytes) c0 (ps : list (prog A)) sched t p0,
  nth_error ps t = Some p0 -> steps_seq content p0 <= occ t sched ->
  nth_error (threads (run true content (init c0 ps) sched)) t = Some (mkThread Idle (Ret (run_seq content p0))).
Proof.
  intros A content c0 ps sched t p0 Hp Hocc.
  pose proof (Inv_reachable content ps c0 sched) as I.
  destruct (nth_error (threads (run true content (init c0 ps) sched)) t) as [th|] eqn:Hth.
  - pose proof (inv_prog _ _ _ _ I t th p0 Hth Hp) as E. cbv beta in E.
    replace (occ t sched) with (steps_seq content p0 + (occ t sched - steps_seq content p0)) in E by lia.
    rewrite adv_complete in E. inversion E as [[E1 E2]].
    pose proof (inv_head _ _ _ _ I t th Hth) as Hh. unfold head_ok in Hh. rewrite E2 in Hh.
    destruct th as [pc0 code0]. cbn [pc code] in *. subst. reflexivity.
  - exfalso. apply nth_error_None in Hth. rewrite (inv_len _ _ _ _ I) in Hth. apply nth_error_lt in Hp. lia.
Qed.

(* the per-step form: a thread with pending work always has an enabled action — in ANY state, with
   or without the lock: its phase advances, or it completes the read and logs it *)
Theorem no_deadlock : forall A ul (content : bytes) (s : state A) t th pos len k,
  nth_error (threads s) t = Some th -> code th = Rd pos len k ->
  exists th', nth_error (threads (step ul content s t)) t = Some th' /\
    ((phase (pc th') = S (phase (pc th)) /\ code th' = code th /\ log (step ul content s t) = log s) \/
     ((phase (pc th) = 3 \/ (pc th = Idle /\ in_range content pos len = false)) /\ pc th' = Idle /\
      exists r, code th' = k r /\ log (step ul content s t) = log s ++ [(t, pos, len, r)])).
Proof.
  intros A ul content s t th pos len k Hth Hc.
  pose proof (nth_error_lt _ _ _ _ Hth) as Hlt.
  unfold step. rewrite Hth, Hc.
  destruct (pc th) eqn:Hpc; [destruct (in_range content pos len) eqn:Hr; cbn [negb]; [destruct ul; [destruct (lock s)|]|]|..];
    cbn [threads log];
    eexists; (split; [apply nth_error_upd_same; exact Hlt|]); cbn [pc code phase];
    try (left; repeat split; auto; fail); right; repeat split; eauto.
Qed.

(* ------------------------------------------------------------------ without the lock *)
Definition wit_content : bytes := [x01; x02; x03; x04].
Definition wit_reqs : list (list (nat * nat)) := [[(0, 2)]; [(2, 2)]].
Definition wit_sched : list nat := [0; 0; 1; 1; 0; 1; 0; 1].

Lemma refuted_without_lock :
  log (run false wit_content (init_reqs 4 wit_reqs) wit_sched)
    = [(0, 0, 2, Some [x03; x04]); (1, 2, 2, None)] /\
  file_read wit_content 0 2 = Some [x01; x02] /\ file_read wit_content 2 2 = Some [x03; x04] /\
  log (run true wit_content (init_reqs 4 wit_reqs) (wit_sched ++ [1; 1]))
    = [(0, 0, 2, Some [x01; x02]); (1, 2, 2, Some [x03; x04])].
Proof. vm_compute. repeat split. Qed.

(* non-vacuity: three threads, reads inside, straddling and beyond the end, an empty read,
   an adaptive reader (reads a length byte, then that many bytes) *)
Definition ex_content : bytes := [x02; x0a; x0b; x0c; x0d].
Definition ex_adaptive : prog (option bytes) :=
  Rd 0 1 (fun r => match r with
                   | Some [b] => Rd 1 (N.to_nat (b2n b)) (fun r2 => Ret r2)
                   | _ => Ret None
                   end).
Definition ex_progs : list (prog (option bytes)) :=
  [ex_adaptive; Rd 3 2 (fun r => Rd 4 2 (fun r2 => Rd 9 0 (fun r3 => Ret r3))); ex_adaptive].
Definition ex_sched : list nat := [0; 1; 2; 1; 0; 2; 0; 1; 1; 2; 0; 2; 1; 0; 1; 2; 0; 1; 2; 0; 1; 0; 1; 2; 1; 1; 2; 2; 1].

(* thread 1 takes the lock first, threads 0 and 2 are contended; later 0 holds it while 1 and 2 are contended *)
Lemma example_run :
  let s := run true ex_content (init 5 ex_progs) ex_sched in
  map code (threads s) = [Ret (Some [x0a; x0b]); Ret None; Ret (Some [x0a; x0b])] /\
  log s = [(1, 3, 2, Some [x0c; x0d]); (0, 0, 1, Some [x02]); (2, 0, 1, Some [x02]); (1, 4, 2, None); (1, 9, 0, None);
           (0, 1, 2, Some [x0a; x0b]); (2, 1, 2, Some [x0a; x0b])] /\
  lock s = None /\
  run_seq ex_content ex_adaptive = Some [x0a; x0b].
Proof. vm_compute. repeat split. Qed.

