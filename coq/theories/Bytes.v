(* Bytes.v — byte strings, little-endian fixed-width integers, outcome type.
   Definitions only (executable, extracted).  Proofs are in BytesProofs.v. *)
From Coq Require Export List NArith ZArith Bool Lia.
From Coq Require Export Strings.Byte.
Export ListNotations.
Open Scope N_scope.

Definition bytes := list byte.

Definition b2n (b : byte) : N := Byte.to_N b.
Definition n2b (n : N) : byte :=
  match Byte.of_N (n mod 256) with Some b => b | None => x00 end.

(* k little-endian bytes of n (wrapping: only n mod 256^k is represented) *)
Fixpoint le (k : nat) (n : N) : bytes :=
  match k with
  | O => []
  | S k' => n2b n :: le k' (n / 256)
  end.

Fixpoint de (bs : bytes) : N :=
  match bs with
  | [] => 0
  | b :: r => b2n b + 256 * de r
  end.

Definition le64 (n : N) : bytes := le 8 n.
Definition le32 (n : N) : bytes := le 4 n.

Definition two64 : N := 18446744073709551616.
Definition two63 : N := 9223372036854775808.
Definition two32 : N := 4294967296.

(* i64 <-> its two's complement u64 pattern *)
Definition z2u (z : Z) : N := Z.to_N (z mod 18446744073709551616)%Z.
Definition u2z (n : N) : Z :=
  if n <? two63 then Z.of_N n else (Z.of_N n - 18446744073709551616)%Z.

Definition lenN {A} (l : list A) : N := N.of_nat (length l).

(* slices with Rust semantics: None = out of range *)
Definition slice (bs : bytes) (from : nat) (len : nat) : option bytes :=
  if Nat.leb (from + len) (length bs) then Some (firstn len (skipn from bs)) else None.

(* Outcome of an operation of the real code that may fail in several ways.
   Err    : returns Err(..)
   Panic  : a Rust panic (index out of range, arithmetic overflow in debug,
            explicit panic!/unwrap)
   Alloc  : an allocation request whose size is not bounded by the input
   Fuel   : the model's fuel ran out (stands for non-termination) *)
Inductive outcome (A : Type) : Type :=
| Ok (a : A)
| Err
| Panic
| Alloc
| Fuel.
Arguments Ok {A} a.
Arguments Err {A}.
Arguments Panic {A}.
Arguments Alloc {A}.
Arguments Fuel {A}.

Definition obind {A B} (o : outcome A) (f : A -> outcome B) : outcome B :=
  match o with
  | Ok a => f a
  | Err => Err
  | Panic => Panic
  | Alloc => Alloc
  | Fuel => Fuel
  end.

Definition is_ok_or_err {A} (o : outcome A) : bool :=
  match o with Ok _ | Err => true | _ => false end.

Definition byte_eqb (a b : byte) : bool := Byte.eqb a b.

Fixpoint bytes_eqb (a b : bytes) : bool :=
  match a, b with
  | [], [] => true
  | x :: a', y :: b' => byte_eqb x y && bytes_eqb a' b'
  | _, _ => false
  end.
