(* StoredDbOpsLinkExample2.v — proofs (stored database, part 36): non-vacuity of the covered-history theorem of
   StoredDbOpsLinkHist2.v.  In the hand-built example file of StoredDbExampleBase.v node 2 has NO property vector (slot 0:
   slots_ok fails — a file written by the real database never looks like that, every public insertion reserves capacity).
   Running `insert values [] ids 2` on it (the program so_q_insert_values on the model of storage.rs, replayed on the
   abstract record map) allocates the vector and changes nothing else: the resulting record map holds the SAME database
   sx_db with slots_ok, sx_db satisfies HInv (reached by four public queries from db_new), and the history
   [insert edge 2 -> 1; remove that edge (-4, no properties)] is covered. *)
From Agdb Require Import Bytes DbValue Graph DbModel Search Queries Revisions Storage StorageSpec StorageWp Collections CollWp CollVecBase CollGraph StoredDbProofs
  StoredDb StoredDbRep StoredDbExampleBase StoredDbOps StoredDbOpsDb StoredDbOpsKv2 StoredDbOpsQuery StoredDbOpsExample
  StoredDbOpsLink StoredDbOpsLinkHist StoredDbOpsLinkKv StoredDbOpsLinkSlots StoredDbOpsLinkHist2 StoredDbOpsLinkFinal2 StoredDbOpsLinkExample.
From Agdb Require HistoryAtomicProofs.
From Coq Require Import ZifyBool ZifyNat ZifyN.
Open Scope Z_scope.

Definition sz_prog : cprog so_db := h <~ so_open 1 ;; so_q_insert_values h 2 [].

Lemma sx_elements id : graph_index (gr sx_db) id = true -> id = 1 \/ id = 2 \/ id = -3.
Proof.
  intros G.
  assert (B : -4 < id < 4).
  { unfold graph_index, is_edge, is_node, valid_index in G. change (capacity (gr sx_db)) with 4 in G.
    destruct (Z.ltb_spec id 0); [lia|]. destruct (Z.ltb_spec 0 id); [lia|discriminate]. }
  assert (C : id = -3 \/ id = -2 \/ id = -1 \/ id = 0 \/ id = 1 \/ id = 2 \/ id = 3) by lia.
  destruct C as [-> | [-> | [-> | [-> | [-> | [-> | -> ]]]]]]; vm_compute in G; try discriminate; auto.
Qed.

Lemma sz_cwp fl :
  cwp fl sz_prog (sd_spec_of sx_store)
      (fun r sp' => exists w', stored_db_w (hp sp') 1 sx_db w' /\ slots_ok sx_db w').
Proof.
  unfold sz_prog. apply cwp_bind. eapply so_open_spec'; [exact sx_stored|]. intros h w1 H1 Hh1 _ Ev. cbn [kont].
  eapply cwp_mono; [|eapply (so_q_insert_values_stored' fl); [exact H1|exact Hh1|vm_compute; reflexivity|exact I]].
  intros r sp' (h' & w' & -> & H' & Hh' & D' & F' & [K A]). exists w'. split; [exact H'|].
  intros id G. destruct (sx_elements id G) as [-> | [-> | -> ]].
  - apply K. rewrite Ev. vm_compute. discriminate.
  - exact A.
  - apply K. rewrite Ev. vm_compute. discriminate.
Qed.

Lemma sz_covered_all2 : so_covered_all2 rv_fixed sx_db [CqInsertEdge 2 1; CqRemove (-4)].
Proof.
  cbn [so_covered_all2]. split; [exact sx_covered_insert_edge|]. split; [cbn; constructor|].
  split; [unfold so_cap_ok; vm_compute; reflexivity|].
  split; [|split; [exact I|split; [unfold so_cap_ok; vm_compute; reflexivity|exact I]]].
  cbn [so_covered2]. split; [unfold so_cap_ok; vm_compute; reflexivity|]. split.
  - intros x Hx. vm_compute in Hx. destruct Hx.
  - left. split; [lia|vm_compute; reflexivity].
Qed.

Theorem sz_sample :
  exists sp w, stored_db_w (hp sp) 1 sx_db w /\ slots_ok sx_db w /\ HistoryAtomicProofs.HInv sx_db /\
               so_covered_all2 rv_fixed sx_db [CqInsertEdge 2 1; CqRemove (-4)] /\
               kvs_get (vals (fst (Queries.exec rv_fixed sx_db (cq_query (CqInsertEdge 2 1))))) (-4) = [].
Proof.
  destruct (so_replay (st_step cdata ops_file) true sz_prog (fst sx_run) (sd_spec_of sx_store)) as [[[s' sp'] r]|] eqn:ER;
    [|vm_compute in ER; discriminate ER].
  destruct (so_replay_sound (st_step cdata ops_file) true sz_prog _ _ _ _ _ _ (sz_cwp true) ER) as (w' & H' & S').
  exists sp', w'. split; [exact H'|]. split; [exact S'|]. split; [exact sx_HInv|]. split; [exact sz_covered_all2|].
  vm_compute. reflexivity.
Qed.
