(* StoredDbOpsExample.v — non-vacuity of the core-operation theorems (stored database, part 15): on the example database
   of StoredDbExampleBase.v (created on the model of storage.rs) the programs so_open; insert_node;
   reserve_key_value_capacity; insert_key_value are RUN on the storage model; the answers of the storage model are
   replayed on the abstract record map (`so_replay`: every answer is checked by spec_step, the acceptor C04 proves the
   storage to satisfy), so the theorems apply to this very run: the record store the storage model ends with satisfies
   stored_db for the database DbModel computes, and load_db returns it. *)
From Coq Require Import Permutation.
From Agdb Require Import Bytes BytesProofs Utf8 Codec DbValue ValueIndex Graph DbModel Records RecordsProofs Storage StorageSpec
  StorageLayout StorageWp StorageRefine StorageProofs Collections CollValues CollWp CollBytes CollVecBase CollVecOps CollVec
  CollVec2 CollElems CollSep CollMap CollMapHist CollGraph CollValuesProofs StoredDb StoredDbRep StoredDbRun StoredDbLoad StoredDbProofs
  StoredDbFrame StoredDbExampleBase StoredDbOps StoredDbOpsGraph StoredDbOpsDb StoredDbOpsKv StoredDbOpsKv2 StoredDbOpsDb2
  StoredDbOpsGraph2 StoredDbOpsGraph3 StoredDbOpsGraph4.
From Coq Require Import ZifyBool ZifyNat ZifyN.
Open Scope N_scope.

(* ---------------- replaying a run on the abstract record map ---------------- *)
Definition obs_okb (o : sop) (v : obs) : bool :=
  match o, v with
  | SInsert _, ObNum i => i <? two64
  | _, _ => true
  end.

Fixpoint so_replay {S A} (step : S -> sop -> S * obs) (fl : bool) (p : cprog A) (s : S) (sp : spec) : option (S * spec * cres A) :=
  match p with
  | CRet a => Some (s, sp, CrOk a)
  | CErr e => Some (s, sp, CrErr e)
  | CDead => None
  | CDo o k =>
    let '(s', v) := step s o in
    if obs_okb o v then
      match spec_step fl sp o v with
      | Some sp' => so_replay step fl (k v) s' sp'
      | None => None
      end
    else None
  end.

Lemma so_replay_sound {S A} (step : S -> sop -> S * obs) fl (p : cprog A) : forall s sp (Q : cres A -> spec -> Prop) s' sp' r,
  cwp fl p sp Q -> so_replay step fl p s sp = Some (s', sp', r) -> Q r sp'.
Proof.
  induction p as [a|e| |o k IH]; intros s sp Q s' sp' r H E; cbn [so_replay cwp] in *.
  - injection E as <- <- <-. exact H.
  - injection E as <- <- <-. exact H.
  - discriminate.
  - destruct (step s o) as [s1 v]. destruct (obs_okb o v) eqn:Eo; [|discriminate].
    destruct (spec_step fl sp o v) as [sp1|] eqn:Es; [|discriminate].
    eapply IH; [|exact E]. apply H; [exact Es|].
    destruct o; try exact I. destruct v; try exact I. cbn [obs_okb obs_ok] in *. apply N.ltb_lt. exact Eo.
Qed.

(* the replayed run is the run *)
Lemma so_replay_run {S A} (step : S -> sop -> S * obs) fl (p : cprog A) : forall s sp s' sp' r,
  so_replay step fl p s sp = Some (s', sp', r) -> cp_run step p s = (s', r).
Proof.
  induction p as [a|e| |o k IH]; intros s sp s' sp' r E; cbn [so_replay cp_run] in *.
  - injection E as <- <- <-. reflexivity.
  - injection E as <- <- <-. reflexivity.
  - discriminate.
  - destruct (step s o) as [s1 v]. destruct (obs_okb o v); [|discriminate].
    destruct (spec_step fl sp o v) as [sp1|] eqn:Es; [|discriminate].
    pose proof (IH v _ _ _ _ _ E) as R.
    destruct (spec_no_panic fl sp o) as [NP NF].
    destruct v; try exact R; exfalso; congruence.
Qed.

(* ---------------- the example ---------------- *)
Definition sy_kv : kv :=
  (DString [x71], DString [x41; x42; x43; x44; x45; x46; x47; x48; x49; x4a; x4b; x4c; x4d; x4e; x4f; x50; x51]).   (* "q" -> 17 bytes: out of line *)

Definition sy_id : Z := fst (insert_node_db sx_db).
Definition sy_db1 : db := snd (insert_node_db sx_db).
Definition sy_db2 : db := reserve_kv sy_db1 sy_id.
Definition sy_db : db := insert_key_value sy_db2 sy_id sy_kv.

Definition sy_prog : cprog (so_db * Z) :=
  h <~ so_open 1 ;;
  r <~ so_insert_node h ;;
  h1 <~ so_reserve_key_value_capacity (fst r) (snd r) 1 ;;
  h2 <~ so_insert_key_value h1 (snd r) sy_kv ;;
  CRet (h2, snd r).

Lemma sy_graph_ok : so_graph_ok (gr sx_db).
Proof.
  constructor; try reflexivity.
  - cbn. lia.
  - intros X. exfalso. apply X. reflexivity.
  - change (tmeta (gr sx_db) 0) with 2%Z. lia.
Qed.

Lemma sy_cwp fl :
  cwp fl sy_prog (sd_spec_of sx_store) (fun r sp' => (exists h, r = CrOk (h, sy_id)) /\ sdepth sp' = 0 /\ stored_db (hp sp') 1 sy_db).
Proof.
  unfold sy_prog.
  apply cwp_bind. eapply so_open_spec; [exact sx_stored|]. intros h w0 H0 Hh0 _. cbn [kont].
  apply cwp_bind. eapply so_insert_node_stored; [exact H0|exact Hh0|exact sy_graph_ok|].
  intros h1 dg1 s1 sp1 H1 Hh1 D1 _. cbn [kont fst snd]. fold sy_id. fold sy_db1 in H1.
  apply cwp_bind. eapply so_reserve_key_value_capacity_stored; [exact H1|exact Hh1|vm_compute; reflexivity|].
  intros h2 vh2 vs2 vi2 vw2 sp2 H2 Hh2 D2 _. cbn [kont]. fold sy_db2 in H2.
  apply cwp_bind. eapply so_insert_key_value_stored; [exact H2|exact Hh2|vm_compute; reflexivity|vm_compute; reflexivity| |vm_compute; reflexivity|].
  { split; vm_compute; reflexivity. }
  intros h3 vh3 vs3 vi3 vw3 sp3 H3 Hh3 D3 _. cbn [kont cwp]. fold sy_db in H3.
  split; [eexists; reflexivity|]. split; [cbn in *; congruence|]. eexists. exact H3.
Qed.

(* a replayed run: what the theorem says of it, the run itself, the abstract map at the end *)
Lemma so_replay_use {S A} (step : S -> sop -> S * obs) fl (p : cprog A) s sp (Q : cres A -> spec -> Prop) m :
  cwp fl p sp Q ->
  option_map (fun t : S * spec * cres A => sm (snd (fst t))) (so_replay step fl p s sp) = Some m ->
  exists s' sp' r, cp_run step p s = (s', r) /\ sm sp' = m /\ Q r sp'.
Proof.
  intros H E. destruct (so_replay step fl p s sp) as [[[s' sp'] r]|] eqn:ER; [|discriminate E].
  cbn [option_map fst snd] in E. injection E as E.
  exists s', sp', r. split; [eapply so_replay_run; exact ER|]. split; [exact E|]. eapply so_replay_sound; eassumption.
Qed.

Definition sy_run := cp_run (st_step cdata ops_file) sy_prog (fst sx_run).
Definition sy_store : vmap := Eval vm_compute in live_values cdata ops_file (fst sy_run).

Lemma sy_abs_eq :
  option_map (fun t : storage cdata * spec * cres (so_db * Z) => sm (snd (fst t)))
             (so_replay (st_step cdata ops_file) true sy_prog (fst sx_run) (sd_spec_of sx_store)) = Some sy_store.
Proof. vm_compute. reflexivity. Qed.

Lemma sy_id_eq : sy_id = 4%Z.
Proof. vm_compute. reflexivity. Qed.

Lemma sy_live : live_values cdata ops_file (fst sy_run) = sy_store.
Proof. vm_compute. reflexivity. Qed.

Lemma sy_loads : load_db sy_store 1 = Some (clear_undo sy_db).
Proof. vm_compute. reflexivity. Qed.

Theorem sy_sample :
  sy_id = 4%Z /\
  (exists h, snd sy_run = CrOk (h, 4%Z)) /\
  live_values cdata ops_file (fst sy_run) = sy_store /\
  stored_db (m_get sy_store) 1 sy_db /\
  load_db sy_store 1 = Some (clear_undo sy_db).
Proof.
  split; [exact sy_id_eq|].
  destruct (so_replay_use (st_step cdata ops_file) true sy_prog (fst sx_run) (sd_spec_of sx_store) _ sy_store (sy_cwp true) sy_abs_eq)
    as (s' & sp' & r & Hrun & EA & (h & Hr) & _ & HS).
  split; [exists h; unfold sy_run; rewrite Hrun, <- sy_id_eq; exact Hr|].
  split; [exact sy_live|].
  split; [|exact sy_loads].
  unfold hp in HS. rewrite EA in HS. exact HS.
Qed.

(* ---------------- remove_edge: the hypotheses hold of the example's edge -3 ---------------- *)
Lemma sy_unlink_ok_from : unlink_ok (gr sx_db) (length (g_from (gr sx_db))) GfFrom GfFromMeta (-3)%Z.
Proof.
  unfold unlink_ok. split; [vm_compute; lia|]. split; [vm_compute; lia|]. split.
  - intros X. vm_compute in X. discriminate X.
  - intros G' E. vm_compute in E. injection E as <-. unfold i64_range. vm_compute. split; [discriminate|reflexivity].
Qed.

Lemma sy_remove_edge_sample :
  so_graph_ok (gr sx_db) /\ so_remove_edge_ok (gr sx_db) (-3)%Z /\ is_edge (gr sx_db) (-3)%Z = true /\
  exists G', Graph.remove_edge (gr sx_db) (-3)%Z = Some G' /\ g_from G' = [0; 0; 0; 0]%Z /\ g_fmeta G' = [-3; 0; 0; -9223372036854775808]%Z.
Proof.
  split; [exact sy_graph_ok|]. split; [|split; [vm_compute; reflexivity|]].
  - intros _. split; [exact sy_unlink_ok_from|].
    intros G1 E1. vm_compute in E1. injection E1 as <-.
    unfold unlink_ok. split; [vm_compute; lia|]. split; [vm_compute; lia|]. split.
    + intros X. vm_compute in X. discriminate X.
    + intros G' E. vm_compute in E. injection E as <-. unfold i64_range. vm_compute. split; [discriminate|reflexivity].
  - eexists. split; [vm_compute; reflexivity|]. split; reflexivity.
Qed.
