(* StorageProofs.v — proofs (part 8, the summit of the C04 development): optimize and
   reopen steps, the refinement of every history, and the theorems pinned in Props/C04.v.

   Reading guide to the development:
     RecordsProofs / RecordsTableProofs / RecordsLoadProofs   the record table and the free maps
     StorageLayout    byte lists, regions, layout, table-vs-layout relation
     StorageWp        weakest preconditions, the tiling invariant, free_a_region
     StorageOps       insert, remove, enlarge_value, shrink_value, move_to_end
     StorageOps2      resize, insert_at, replace, move_at, reads
     StorageReopen    read_records on a tiled file
     StorageOptimize  optimize_storage
     StorageRefine    one step of the storage refines one step of the map specification *)
From Agdb Require Import Bytes BytesProofs Records RecordsProofs RecordsTableProofs RecordsLoadProofs Storage StorageSpec
  StorageLayout StorageWp StorageOps StorageOps2 StorageRefine StorageReopen StorageOptimize.
From Coq Require Import ZifyBool ZifyNat ZifyN.
Ltac Zify.zify_post_hook ::= Z.div_mod_to_equations.
Open Scope N_scope.
Arguments N.add : simpl never.
Arguments N.mul : simpl never.
Arguments N.sub : simpl never.
Arguments N.of_nat : simpl never.
Arguments N.to_nat : simpl never.
Arguments N.eqb : simpl never.
Arguments N.ltb : simpl never.
Arguments N.leb : simpl never.

Ltac st := cbn [sdata cur dur rtab tx version set_cur set_data set_rtab set_tx set_version].

(* the kind of byte store: file-like (a drop rolls an open transaction back) or memory-like *)
Definition kind (ops : store_ops cdata) (fl : bool) : Prop :=
  canon ops /\ so_reopen ops = (if fl then c_rollback else c_flush).

Lemma kind_file : kind ops_file true.
Proof. split; [apply canon_file|reflexivity]. Qed.
Lemma kind_mem : kind ops_mem false.
Proof. split; [apply canon_mem|reflexivity]. Qed.

Lemma agree_lmap rg m : agree rg m -> agree (lmap rg) m.
Proof. intros [A0 A]. split; [exact A0|]. intros j Hj. rewrite (A j Hj). symmetry. apply m_get_lmap. exact Hj. Qed.

Lemma spec_no_panic fl sp o : spec_step fl sp o ObPanic = None /\ spec_step fl sp o ObFault = None.
Proof.
  destruct o; cbn [spec_step]; repeat match goal with
    | |- context [match m_get ?m ?i with _ => _ end] => destruct (m_get m i)
    | |- context [if ?b then _ else _] => destruct b
    end; split; reflexivity.
Qed.

Section Main.
  Variable ops : store_ops cdata.
  Variable fl : bool.
  Hypothesis K : kind ops fl.

  Let CN : canon ops := proj1 K.

  (* ---------- the maintenance steps ---------- *)
  Lemma step_optimize s sp :
    Rel s sp ->
    snd (st_step cdata ops s SOptimize) = ObPanic \/
    exists sp', spec_step fl sp SOptimize (snd (st_step cdata ops s SOptimize)) = Some sp' /\
                Rel (fst (st_step cdata ops s SOptimize)) sp'.
  Proof.
    intros ((rg & T & Ag) & Htx & (s0 & rg0 & T0 & Hc0 & Ag0) & H0).
    cbn [st_step lift fst snd].
    pose proof (optimize_spec ops CN s rg T) as W. unfold wp in W.
    destruct (optimize_storage cdata ops s) as [s' [[]|e| |]]; cbn [fst snd to_obs ou]; [|destruct W|auto|destruct W].
    destruct W as (T' & _ & _ & Htx' & Hdur'). right. cbn [spec_step is_unit guard]. eexists; split; [reflexivity|].
    unfold Rel. split; [exists (lmap rg); split; [exact T'|apply agree_lmap; exact Ag]|]. split; [congruence|].
    rewrite Htx in Hdur'. destruct (N.eqb_spec (sdepth sp) 0) as [E0|N0].
    - destruct (H0 E0) as [_ Ecm]. split.
      + exists s', (lmap rg). split; [exact T'|]. split; [congruence|]. rewrite Ecm. apply agree_lmap; exact Ag.
      + intros _. split; [exact Hdur'|exact Ecm].
    - split; [exists s0, rg0; split; [exact T0|]; split; [congruence|exact Ag0]|]. intros E; congruence.
  Qed.

  Lemma step_reopen s sp (o : sop) :
    (o = SReopen \/ o = SReopenCopy) -> Rel s sp ->
    exists sp', spec_step fl sp o (snd (st_step cdata ops s o)) = Some sp' /\ Rel (fst (st_step cdata ops s o)) sp'.
  Proof.
    intros Ho ((rg & T & Ag) & Htx & (s0 & rg0 & T0 & Hc0 & Ag0) & H0).
    (* the content the storage is opened on, a tiling of it, and the map it holds *)
    assert (Hgen : forall d sX rgX m, tiles sX rgX -> cur d = cur (sdata sX) -> dur d = cur d -> agree rgX m ->
              let r := with_data cdata ops d in
              snd r = ROk tt /\ Rel (fst r) {| sm := m; sdepth := 0; scommitted := m |}).
    { intros d sX rgX m TX Hcd Hdd AgX r.
      destruct (with_data_spec ops CN sX rgX d TX Hcd) as (s' & Er & T' & Htx' & Hd'). unfold r. rewrite Er. cbn [fst snd].
      split; [reflexivity|]. unfold Rel. cbn [sm sdepth scommitted].
      split; [exists rgX; auto|]. split; [exact Htx'|].
      split; [exists s', rgX; split; [exact T'|]; split; [rewrite Hd'; symmetry; exact Hdd|exact AgX]|].
      intros _. split; [rewrite Hd'; exact Hdd|reflexivity]. }
    destruct Ho as [-> | ->]; cbn [st_step lift fst snd]; unfold reopen, reopen_copy.
    - rewrite (proj2 K). destruct fl.
      + (* file-like: the durable content *)
        cbn [spec_step andb].
        set (m := if negb (sdepth sp =? 0) then scommitted sp else sm sp).
        assert (Agm : agree rg0 m).
        { unfold m. destruct (N.eqb_spec (sdepth sp) 0) as [E0|]; cbn [negb]; [|exact Ag0].
          destruct (H0 E0) as [_ <-]. exact Ag0. }
        destruct (Hgen (c_rollback (sdata s)) s0 rg0 m T0 ltac:(cbn [c_rollback cur]; congruence) eq_refl Agm) as [Er RL].
        rewrite Er. cbn [to_obs ou is_unit guard]. eexists; split; [reflexivity|exact RL].
      + cbn [spec_step andb].
        destruct (Hgen (c_flush (sdata s)) s rg (sm sp) T eq_refl eq_refl Ag) as [Er RL].
        rewrite Er. cbn [to_obs ou is_unit guard]. eexists; split; [reflexivity|exact RL].
    - rewrite (cn_copy _ CN). cbn [spec_step].
      destruct (Hgen (c_flush (sdata s)) s rg (sm sp) T eq_refl eq_refl Ag) as [Er RL].
      rewrite Er. cbn [to_obs ou is_unit guard]. eexists; split; [reflexivity|exact RL].
  Qed.

  (* ---------- every step ---------- *)
  Theorem step_refines s sp o :
    Rel s sp ->
    snd (st_step cdata ops s o) = ObPanic \/
    exists sp', spec_step fl sp o (snd (st_step cdata ops s o)) = Some sp' /\ Rel (fst (st_step cdata ops s o)) sp'.
  Proof.
    intros RL. destruct (plain o) eqn:Ep.
    - apply (step_plain ops CN fl); assumption.
    - destruct o; try discriminate Ep.
      + apply step_optimize; exact RL.
      + right. apply step_reopen; auto.
      + right. apply step_reopen; auto.
  Qed.

  (* ---------- every history ---------- *)
  Theorem run_refines l : forall s sp, Rel s sp -> accepts fl sp l (st_run cdata ops s l) = true.
  Proof.
    induction l as [|o t IH]; intros s sp RL; [reflexivity|].
    cbn [st_run]. destruct (st_step cdata ops s o) as [s' v] eqn:Es.
    pose proof (step_refines s sp o RL) as H. rewrite Es in H. cbn [fst snd] in H.
    destruct H as [->|(sp' & Hs & RL')]; [destruct t; reflexivity|].
    destruct (spec_no_panic fl sp o) as [NP NF].
    destruct v; try congruence; cbn [accepts]; rewrite Hs; apply IH; exact RL'.
  Qed.

  Theorem exec_invariant l : forall s sp s', Rel s sp -> st_exec cdata ops s l = Some s' -> exists sp', Rel s' sp'.
  Proof.
    induction l as [|o t IH]; intros s sp s' RL; cbn [st_exec]; [intros [= <-]; eauto|].
    destruct (st_step cdata ops s o) as [s1 v] eqn:Es.
    pose proof (step_refines s sp o RL) as H. rewrite Es in H. cbn [fst snd] in H.
    destruct H as [->|(sp' & Hs & RL')]; [discriminate|].
    destruct v; try discriminate; apply (IH s1 sp' s' RL').
  Qed.
End Main.

(* ---------- the fresh storage ---------- *)
Definition s_init : ST := {| sdata := {| cur := vrec; dur := vrec |}; rtab := records_new; tx := 0; version := 1 |}.

Lemma init_file_eq : init_file = (s_init, ROk tt).
Proof. vm_compute. reflexivity. Qed.
Lemma init_mem_eq : init_mem = (s_init, ROk tt).
Proof. vm_compute. reflexivity. Qed.

Lemma tiles_init : tiles s_init [].
Proof.
  apply tiles_intro; unfold s_init; st.
  - cbn [ser]. now rewrite app_nil_r.
  - vm_compute. reflexivity.
  - exact trel_new.
  - exact rwf_new.
  - reflexivity.
Qed.

Lemma Rel_init : Rel s_init spec_init.
Proof.
  unfold Rel, spec_init. cbn [sm sdepth scommitted].
  assert (Ag : agree [] []) by (split; [reflexivity|intros j _; reflexivity]).
  split; [exists []; split; [exact tiles_init|exact Ag]|]. split; [reflexivity|].
  split; [exists s_init, []; split; [exact tiles_init|]; split; [reflexivity|exact Ag]|].
  intros _. split; reflexivity.
Qed.

(* ---------- the pinned theorems ---------- *)
(* C04_refines_map: for every operation list every observation of the storage (results, value
   reads, error kinds, transaction ids) is accepted by the abstract map; a history ends early only
   by a panic (a request that does not fit into 2^64 bytes), never by a back-end fault *)
Theorem refines_map_file : forall l, accepts true spec_init l (st_run cdata ops_file (fst init_file) l) = true.
Proof. intros l. rewrite init_file_eq. apply (run_refines ops_file true kind_file). exact Rel_init. Qed.
Theorem refines_map_mem : forall l, accepts false spec_init l (st_run cdata ops_mem (fst init_mem) l) = true.
Proof. intros l. rewrite init_mem_eq. apply (run_refines ops_mem false kind_mem). exact Rel_init. Qed.

(* the tiling invariant holds after every history *)
Theorem tiles_reachable ops fl : kind ops fl -> forall l s',
  st_exec cdata ops s_init l = Some s' -> exists rg, tiles s' rg.
Proof.
  intros K l s' H. destruct (exec_invariant ops fl K l _ _ _ Rel_init H) as (sp' & (rg & T & _) & _). eauto.
Qed.

(* slen as a sum *)
Definition region_sum (rg : list region) : N := fold_right (fun (r : N * bytes) a => 16 + lenN (snd r) + a) 24 rg.
Lemma slen_sum rg : 24 + slen rg = region_sum rg.
Proof. unfold region_sum. induction rg as [|r t IH]; cbn [fold_right]; [rewrite slen_nil; lia|]. rewrite slen_cons, <- IH. lia. Qed.

(* C04_optimize_tight *)
Theorem optimize_tight ops : canon ops -> forall s rg, tiles s rg ->
  let r := optimize_storage cdata ops s in
  snd r = RPanic \/
  (snd r = ROk tt /\ tiles (fst r) (lmap rg) /\ all_live (lmap rg) /\
   (forall j, j <> 0 -> m_get (lmap rg) j = m_get rg j) /\
   lenN (cur (sdata (fst r))) = region_sum (lmap rg) /\
   fps (rtab (fst r)) = [] /\ fsp (rtab (fst r)) = []).
Proof.
  intros CN s rg T r. pose proof (optimize_spec ops CN s rg T) as W. unfold wp in W. unfold r.
  destruct (optimize_storage cdata ops s) as [s' [[]|e| |]]; cbn [fst snd]; [|destruct W|auto|destruct W].
  destruct W as (T' & Hf & Hs & _). right. split; [reflexivity|]. split; [exact T'|].
  split. { intros i v H. unfold lmap in H. apply filter_In in H. destruct H as [_ H]. cbn [fst] in H. destruct (N.eqb_spec i 0); [discriminate|assumption]. }
  split; [intros j Hj; apply m_get_lmap; exact Hj|]. split; [|auto].
  destruct (tiles_elim _ _ T') as (Hcur & _). rewrite Hcur, lenN_app, lenN_vrec. fold (slen (lmap rg)). apply slen_sum.
Qed.

(* C04_reopen_preserves: opening the content of a tiled storage gives a tiled storage with the
   same regions (hence the same live values), no transaction open *)
Theorem reopen_preserves ops : canon ops -> forall s rg, tiles s rg ->
  (forall r, r = reopen_copy cdata ops s -> snd r = ROk tt /\ tiles (fst r) rg /\ tx (fst r) = 0) /\
  (tx s = 0 -> dur (sdata s) = cur (sdata s) ->
   forall r, r = reopen cdata ops s -> snd r = ROk tt /\ tiles (fst r) rg /\ tx (fst r) = 0).
Proof.
  intros CN s rg T. split.
  - intros r ->. unfold reopen_copy. rewrite (cn_copy _ CN).
    destruct (with_data_spec ops CN s rg (c_flush (sdata s)) T eq_refl) as (s' & Er & T' & Htx' & _).
    rewrite Er. auto.
  - intros _ Hd r ->. unfold reopen.
    assert (Hc : cur (so_reopen ops (sdata s)) = cur (sdata s)).
    { destruct (cn_reopen _ CN) as [-> | ->]; cbn [c_rollback c_flush cur]; [exact Hd|reflexivity]. }
    destruct (with_data_spec ops CN s rg _ T Hc) as (s' & Er & T' & Htx' & _).
    rewrite Er. auto.
Qed.
