(* RaftLogAck.v — the root-cause marker of the class `commit-without-quorum` (RaftLog.stale_ack_counted_b) and the
   acknowledgement repair (Raft.v: fix_ack_term; fixes/C28-count-only-current-term-acks.diff).

   THEOREM `stale_ack_never`: in every revision with the acknowledgement repair — in particular `rr_fixed` —, for every
   cluster size and every adversarial event list, no Leader ever counts, at a commit step, a row of its peer table that
   was not written by `commit()` from an Ok answer to an Append/Heartbeat request of its current term since it became
   Leader.  Invariant `AG`: every row (of another node) of a Leader's table that is not such an acknowledgement has
   log_index 0 — the rows are cleared when the node becomes Leader (`vote_received`), and while a node is and stays
   Leader the rows of other nodes are written by `commit()` only, which the guard of `response()` lets run only for
   answers to requests of the current term; a row with log_index 0 is never counted at a step that raises the commit
   index.  No election invariant is needed: the statement holds whatever the two election flags are.

   Witnesses (vm_compute): the two `commit_noquorum` corpus histories set the marker in the revisions without the
   repair (`rr_before_ack_fix`), and not in `rr_fixed`. *)
From Coq Require Import NArith List Bool Lia Arith.
From Agdb Require Import Raft RaftWitness RaftProofs RaftInv RaftElect RaftVote RaftLog RaftLogWf RaftLogProofs.
Import ListNotations.
Open Scope N_scope.

(* ================================================================== rows of the peer table, handler by handler *)

Lemma node_at_upd_peer_neq : forall nd k f j, j <> k -> node_at (upd_peer nd k f) j = node_at nd j.
Proof.
  intros nd k f j H. unfold node_at, upd_peer. cbn [n_peers set_peers].
  apply nth_upd_nth_neq. intros E. apply H. apply N2Nat.inj. congruence.
Qed.

Lemma commit_storage_rows : forall nd idx j,
  j <> n_index nd -> node_at (commit_storage nd idx) j = node_at nd j.
Proof.
  intros nd idx j H. unfold commit_storage, upd_local.
  change (n_index (st_commit nd idx)) with (n_index nd). rewrite node_at_upd_peer_neq by exact H. reflexivity.
Qed.

Lemma commit_rows : forall nd r,
  n_index (fst (commit nd r)) = n_index nd /\
  forall j, j <> n_index nd -> j <> q_to r -> node_at (fst (commit nd r)) j = node_at nd j.
Proof.
  intros nd r. unfold commit.
  set (nd1 := upd_peer nd (q_to r) (p_set_all (q_li r) (q_lt r) (q_lc r))).
  assert (R1 : forall j, j <> q_to r -> node_at nd1 j = node_at nd j) by (intros; apply node_at_upd_peer_neq; auto).
  destruct (_ && _); cbn [fst]; split; try reflexivity.
  - intros j H1 H2. rewrite commit_storage_rows by exact H1. apply R1; exact H2.
  - intros j _ H2. apply R1; exact H2.
Qed.

Lemma append_rows : forall nd d,
  n_index (fst (append nd d)) = n_index nd /\
  forall j, j <> n_index nd -> node_at (fst (append nd d)) j = node_at nd j.
Proof.
  intros nd d. unfold append. cbn [fst].
  set (nd1 := upd_local nd (fun p => p_set_log (p_li p + 1) (n_term nd) p)).
  assert (R1 : forall j, j <> n_index nd -> node_at nd1 j = node_at nd j)
    by (intros; unfold nd1, upd_local; apply node_at_upd_peer_neq; auto).
  destruct (_ =? 1); split; try reflexivity.
  - intros j H. rewrite commit_storage_rows by exact H. apply R1; exact H.
  - intros j H. apply R1; exact H.
Qed.

(* a response handled by a node that is and stays Leader: the rows of the other nodes are untouched, except the
   row of the answering node when the answer is an Ok to an Append/Heartbeat that passes the guard (`commit()`) *)
Lemma response_rows_leader : forall rv nd r s,
  n_state nd = Leader -> is_leader (n_state (fst (handle_response rv nd r s))) = true ->
  n_index (fst (handle_response rv nd r s)) = n_index nd /\
  forall j, j <> n_index nd ->
    node_at (fst (handle_response rv nd r s)) j = node_at nd j \/
    (is_append_or_hb (q_kind r) && is_ok (s_result s) = true /\ ack_counts rv nd r = true /\ j = q_to r).
Proof.
  intros rv nd r s S. unfold handle_response. rewrite S.
  destruct (q_kind r); destruct (s_result s); cbn [fst is_append_or_hb is_ok andb]; intros L';
    try (split; [reflexivity | intros j _; left; reflexivity]);
    try (destruct (ack_counts rv nd r) eqn:AC; cbn [fst];
         [ destruct (commit_rows nd r) as [I R]; split; [exact I|];
           intros j Hj; destruct (N.eq_dec j (q_to r)) as [E|E]; [right; auto | left; apply R; auto]
         | split; [reflexivity | intros j _; left; reflexivity] ]);
    try (match goal with |- context [if n_term nd <? ?l then _ else _] => destruct (n_term nd <? l) end; cbn [fst] in *;
         [ discriminate L' | split; [reflexivity | intros j _; left; reflexivity] ]).
Qed.

(* a node that becomes Leader (repaired revision): every row of another node is cleared *)
Lemma response_rows_elected : forall rv nd r s,
  fix_ack_term rv = true ->
  is_leader (n_state nd) = false -> is_leader (n_state (fst (handle_response rv nd r s))) = true ->
  forall j, j <> n_index (fst (handle_response rv nd r s)) -> p_li (node_at (fst (handle_response rv nd r s)) j) = 0.
Proof.
  intros rv nd r s F L L'.
  destruct (response_leader rv nd r s L' L) as (S & K & R & VC & Q & _).
  unfold handle_response. rewrite S, K, R, VC, vote_received_eq.
  apply N.ltb_lt in Q. rewrite Q, F. cbn [fst].
  intros j Hj. rewrite node_at_reset_rows.
  change (n_index (reset_rows (set_term (set_state (upd_peer nd (q_to r) (p_set_voted true)) Leader) (q_term r))))
    with (n_index nd) in Hj.
  change (n_index (set_term (set_state (upd_peer nd (q_to r) (p_set_voted true)) Leader) (q_term r))) with (n_index nd).
  apply N.eqb_neq in Hj. rewrite Hj. reflexivity.
Qed.

(* ================================================================== what one step does to the acting node *)

(* nd -> nd' is one of: not Leader afterwards; newly elected with all other rows cleared; Leader before and after
   with the rows of the other nodes untouched except the one `commit()` wrote from the counted Ok answer `ack` *)
Definition trans (rv : raftrev) (nd nd' : node) (ack : option request) : Prop :=
  is_leader (n_state nd') = false \/
  (is_leader (n_state nd) = false /\ forall j, j <> n_index nd' -> p_li (node_at nd' j) = 0) \/
  (is_leader (n_state nd) = true /\ n_index nd' = n_index nd /\
   forall j, j <> n_index nd ->
     node_at nd' j = node_at nd j \/ (exists r, ack = Some r /\ ack_counts rv nd r = true /\ j = q_to r)).

Lemma trans_same : forall rv nd ack, trans rv nd nd ack.
Proof.
  intros rv nd ack. destruct (is_leader (n_state nd)) eqn:L; [|left; exact L].
  right; right. split; [exact L|]. split; [reflexivity|]. intros; left; reflexivity.
Qed.

Lemma leader_cl : forall s, is_leader s = true -> cl s = true.
Proof. intros s H. unfold cl. rewrite H. apply orb_true_r. Qed.

Lemma trans_process : forall rv nd el due, trans rv nd (fst (process nd el due)) None.
Proof.
  intros rv nd el due. destruct (is_leader (n_state (fst (process nd el due)))) eqn:L'; [|left; exact L'].
  rewrite (process_keeps nd el due (leader_cl _ L')). apply trans_same.
Qed.

Lemma trans_request : forall rv nd r el, trans rv nd (fst (handle_request rv nd r el)) None.
Proof.
  intros rv nd r el. destruct (is_leader (n_state (fst (handle_request rv nd r el)))) eqn:L'; [|left; exact L'].
  rewrite (request_keeps rv nd r el (leader_cl _ L')). apply trans_same.
Qed.

Lemma trans_append : forall rv nd d, trans rv nd (fst (append nd d)) None.
Proof.
  intros rv nd d. destruct (is_leader (n_state nd)) eqn:L.
  - right; right. destruct (append_rows nd d) as [I R]. split; [exact L|]. split; [exact I|].
    intros j Hj. left. apply R; exact Hj.
  - left. rewrite append_state. exact L.
Qed.

Lemma trans_response : forall rv nd r s,
  fix_ack_term rv = true ->
  trans rv nd (fst (handle_response rv nd r s))
        (if is_append_or_hb (q_kind r) && is_ok (s_result s) then Some r else None).
Proof.
  intros rv nd r s F.
  destruct (is_leader (n_state (fst (handle_response rv nd r s)))) eqn:L'; [|left; exact L'].
  destruct (is_leader (n_state nd)) eqn:L.
  - right; right. assert (S : n_state nd = Leader) by (destruct (n_state nd); try discriminate; reflexivity).
    destruct (response_rows_leader rv nd r s S L') as [I R]. split; [exact L|]. split; [exact I|].
    intros j Hj. destruct (R j Hj) as [E|(C & AC & E)]; [left; exact E|].
    right. exists r. rewrite C. auto.
  - right; left. split; [exact L|]. apply response_rows_elected; auto.
Qed.

(* ================================================================== the invariant *)

(* every row, of another node, of a Leader's table that is not a fresh acknowledgement has log_index 0 *)
Definition AGn (nodes : list node) (g : ackg) : Prop :=
  forall i nd, nth_error nodes (N.to_nat i) = Some nd -> is_leader (n_state nd) = true ->
  forall j, j <> n_index nd -> g i j = false -> p_li (node_at nd j) = 0.

Definition AG (c : cluster) (g : ackg) : Prop := AGn (c_nodes c) g.

Lemma nth_error_put_eq : forall l i (nd nd' : node),
  nth_error l (N.to_nat i) = Some nd -> nth_error (upd_nth (N.to_nat i) (fun _ => nd') l) (N.to_nat i) = Some nd'.
Proof. intros l i nd nd' H. apply (nth_error_upd_nth_eq _ (fun _ => nd') _ _ _ H). Qed.

Lemma nth_error_put_neq : forall l i i' (nd' : node),
  i' <> i -> nth_error (upd_nth (N.to_nat i) (fun _ => nd') l) (N.to_nat i') = nth_error l (N.to_nat i').
Proof. intros l i i' nd' H. apply nth_error_upd_nth_neq. intros E. apply H. apply N2Nat.inj. congruence. Qed.

(* the step, seen from the acting node *)
Lemma step_acting : forall rv c ev i ack nd,
  fix_ack_term rv = true ->
  acting c ev = Some (i, ack) -> get_node c i = Some nd ->
  exists nd', get_node (step rv c ev) i = Some nd' /\ trans rv nd nd' ack /\
              forall i', i' <> i -> get_node (step rv c ev) i' = get_node c i'.
Proof.
  intros rv c ev i ack nd F A G. unfold get_node in *.
  destruct ev as [i0 el due | k el | k | k | i0 d]; cbn [acting] in A; try discriminate A.
  - (* Tick *)
    inversion A; subst i0 ack. cbn [step]. unfold get_node. rewrite G.
    pose proof (trans_process rv nd el due) as T. destruct (process nd el due) as [nd' reqs]. cbn [fst] in T.
    exists nd'. cbn [c_nodes]. unfold put_node. split; [eapply nth_error_put_eq; eauto|]. split; [exact T|].
    intros i' H. apply nth_error_put_neq; exact H.
  - (* Deliver *)
    cbn [step]. destruct (nth_error (c_net c) k) as [[r|r s]|] eqn:M; [| |discriminate A].
    + inversion A; subst i ack. unfold get_node. rewrite G.
      pose proof (trans_request rv nd r el) as T. destruct (handle_request rv nd r el) as [nd' s]. cbn [fst] in T.
      exists nd'. cbn [c_nodes]. unfold put_node. split; [eapply nth_error_put_eq; eauto|]. split; [exact T|].
      intros i' H. apply nth_error_put_neq; exact H.
    + inversion A; subst i ack. unfold get_node. rewrite G.
      pose proof (trans_response rv nd r s F) as T. destruct (handle_response rv nd r s) as [nd' reqs]. cbn [fst] in T.
      exists nd'. cbn [c_nodes]. unfold put_node. split; [eapply nth_error_put_eq; eauto|]. split; [exact T|].
      intros i' H. apply nth_error_put_neq; exact H.
  - (* ClientAppend *)
    inversion A; subst i0 ack. cbn [step]. unfold get_node. rewrite G.
    destruct (is_leader (n_state nd)) eqn:L.
    + pose proof (trans_append rv nd d) as T. destruct (append nd d) as [nd' reqs]. cbn [fst] in T.
      exists nd'. cbn [c_nodes]. unfold put_node. split; [eapply nth_error_put_eq; eauto|]. split; [exact T|].
      intros i' H. apply nth_error_put_neq; exact H.
    + exists nd. split; [exact G|]. split; [apply trans_same|]. reflexivity.
Qed.

(* steps without an acting node, or whose acting node does not exist, leave all nodes alone *)
Lemma step_no_actor : forall rv c ev,
  match acting c ev with
  | None => True
  | Some (i, _) => get_node c i = None
  end -> c_nodes (step rv c ev) = c_nodes c.
Proof.
  intros rv c ev H. destruct ev as [i0 el due | k el | k | k | i0 d]; cbn [acting step] in *.
  - rewrite H. reflexivity.
  - destruct (nth_error (c_net c) k) as [[r|r s]|]; [rewrite H; reflexivity | rewrite H; reflexivity | reflexivity].
  - reflexivity.
  - destruct (nth_error (c_net c) k); reflexivity.
  - rewrite H. reflexivity.
Qed.

Lemma ack_counts_fixed : forall rv nd r, fix_ack_term rv = true -> ack_counts rv nd r = (q_term r =? n_term nd).
Proof. intros rv nd r F. unfold ack_counts. rewrite F. cbn [negb]. apply orb_false_r. Qed.

Lemma ackg_step_inv : forall rv c g ev,
  fix_ack_term rv = true -> AG c g ->
  AG (step rv c ev) (fst (ackg_step rv c g ev)) /\ snd (ackg_step rv c g ev) = false.
Proof.
  intros rv c g ev F Ag. unfold ackg_step.
  destruct (acting c ev) as [[i ack]|] eqn:A.
  2:{ cbn [fst snd]. split; [|reflexivity]. unfold AG. rewrite (step_no_actor rv c ev) by (rewrite A; exact I). exact Ag. }
  destruct (get_node c i) as [nd|] eqn:G.
  2:{ cbn [fst snd]. split; [|reflexivity]. unfold AG. rewrite (step_no_actor rv c ev) by (rewrite A; exact G). exact Ag. }
  destruct (step_acting rv c ev i ack nd F A G) as (nd' & G' & T & O). rewrite G'.
  destruct (is_leader (n_state nd) && is_leader (n_state nd')) eqn:LL.
  - (* Leader before and after *)
    apply andb_true_iff in LL as [L L'].
    destruct T as [T|[[T _]|(_ & I & R)]]; [congruence|congruence|].
    set (g' := match ack with
               | Some r => if ack_counts rv nd r then ackg_set g i (q_to r) (q_term r =? n_term nd) else g
               | None => g end).
    cbn [fst snd].
    assert (Ag' : AG (step rv c ev) g').
    { intros i0 nd0 G0 L0 j Hj Hf. destruct (N.eq_dec i0 i) as [->|Hi].
      - unfold get_node in G'. rewrite G' in G0. inversion G0; subst nd0. rewrite I in Hj.
        assert (Hg : g i j = false \/ exists r, ack = Some r /\ ack_counts rv nd r = true /\ j = q_to r).
        { unfold g' in Hf. destruct ack as [r|]; [|left; exact Hf].
          destruct (ack_counts rv nd r) eqn:AC; [|left; exact Hf].
          unfold ackg_set in Hf. rewrite N.eqb_refl in Hf. cbn [andb] in Hf.
          destruct (N.eqb_spec j (q_to r)) as [E|E]; [right; exists r; auto | left; exact Hf]. }
        assert (No : ~ exists r, ack = Some r /\ ack_counts rv nd r = true /\ j = q_to r).
        { intros (r & E & AC & Ej). unfold g' in Hf. rewrite E, AC in Hf. unfold ackg_set in Hf.
          rewrite N.eqb_refl in Hf. subst j. rewrite N.eqb_refl in Hf. cbn [andb] in Hf.
          rewrite (ack_counts_fixed rv nd r F) in AC. congruence. }
        destruct Hg as [Hg|Hg]; [|contradiction].
        destruct (R j Hj) as [E|E]; [|contradiction].
        rewrite E. apply (Ag i nd G L j Hj Hg).
      - assert (E : g' i0 j = g i0 j).
        { unfold g'. destruct ack as [r|]; [|reflexivity]. destruct (ack_counts rv nd r); [|reflexivity].
          unfold ackg_set. apply N.eqb_neq in Hi. rewrite Hi. reflexivity. }
        rewrite E in Hf. pose proof (O i0 Hi) as Oi. unfold get_node in Oi. rewrite Oi in G0.
        apply (Ag i0 nd0 G0 L0 j Hj Hf). }
    split; [exact Ag'|].
    destruct (N.ltb_spec (n_commit nd) (n_commit nd')) as [Hc|Hc]; [|reflexivity]. cbn [andb].
    unfold stale_counted. destruct (existsb _ _) eqn:Ex; [|reflexivity]. exfalso.
    apply existsb_exists in Ex as (j & _ & Hj).
    apply andb_true_iff in Hj as [Hj Hf]. apply andb_true_iff in Hj as [Hj Hc'].
    apply negb_true_iff in Hj, Hf. apply N.eqb_neq in Hj. apply N.leb_le in Hc'.
    pose proof (Ag' i nd' G' L' j Hj Hf) as Z. lia.
  - (* not Leader before, or not Leader after: the rows are no acknowledgements any more *)
    cbn [fst snd]. split; [|reflexivity].
    intros i0 nd0 G0 L0 j Hj Hf. destruct (N.eq_dec i0 i) as [->|Hi].
    + unfold get_node in G'. rewrite G' in G0. inversion G0; subst nd0.
      destruct T as [T|[[_ Z]|(L & _)]]; [congruence | apply Z; exact Hj | rewrite L, L0 in LL; discriminate LL].
    + unfold ackg_clear in Hf. apply N.eqb_neq in Hi. rewrite Hi in Hf.
      apply N.eqb_neq in Hi. pose proof (O i0 Hi) as Oi. unfold get_node in Oi. rewrite Oi in G0.
      apply (Ag i0 nd0 G0 L0 j Hj Hf).
Qed.

Lemma stale_ack_from_false : forall rv, fix_ack_term rv = true ->
  forall evs c g, AG c g -> stale_ack_from rv c g evs = false.
Proof.
  intros rv F. induction evs as [|e evs IH]; intros c g Ag; cbn [stale_ack_from]; [reflexivity|].
  destruct (ackg_step_inv rv c g e F Ag) as [Ag' B].
  destruct (ackg_step rv c g e) as [g' b]. cbn [fst snd] in *. subst b. cbn [orb]. apply IH. exact Ag'.
Qed.

(* initially every row is 0.0.0 *)
Lemma init_rows_zero : forall (f : nat -> bool) l k, p_li (nth k (map (fun i => mkPeer 0 0 0 (f i)) l) peer0) = 0.
Proof. induction l as [|a l IH]; intros k; destruct k; cbn; auto. Qed.

Lemma init_AG : forall size, AG (init_default size) ackg0.
Proof.
  intros size i nd G _ j _ _. unfold init_default, init in G. cbn [c_nodes] in G.
  apply nth_error_In in G. apply in_map_iff in G as [k [<- _]].
  unfold node_at, new_node. cbn [n_peers]. apply init_rows_zero.
Qed.

(* ================================================================== the theorem *)

(* with the acknowledgement repair, a Leader never counts a row that is not an acknowledgement of its current term:
   every revision with fix_ack_term, EVERY cluster size, every adversarial event list *)
Theorem stale_ack_never : forall rv size evs,
  fix_ack_term rv = true -> stale_ack_counted_b rv size evs = false.
Proof. intros rv size evs F. unfold stale_ack_counted_b. apply stale_ack_from_false; [exact F | apply init_AG]. Qed.

Theorem stale_ack_never_fixed : forall size evs, stale_ack_counted_b rr_fixed size evs = false.
Proof. intros. apply stale_ack_never. reflexivity. Qed.

(* ================================================================== witnesses *)

(* the two `commit-without-quorum` corpus histories: before the repair the leader of term 2 counts the stale row of
   the deposed leader (root-cause marker set, and the semantic marker with it); under rr_fixed neither is set.
   The fault-free history `wlog_ok`-like runs do not set the marker in any revision (first election, rows 0). *)
Lemma stale_ack_witnesses : forall rv, fix_ack_term rv = false ->
  stale_ack_counted_b rv w28_commit_noquorum_n w28_commit_noquorum = true /\
  stale_ack_counted_b rv w29_commit_noquorum_n w29_commit_noquorum = true.
Proof. intros [[|] [|] [|]] F; try discriminate F; vm_compute; split; reflexivity. Qed.

Lemma stale_ack_witnesses_before_ack_fix :
  stale_ack_counted_b rr_before_ack_fix w28_commit_noquorum_n w28_commit_noquorum = true /\
  stale_ack_counted_b rr_before_ack_fix w29_commit_noquorum_n w29_commit_noquorum = true.
Proof. apply stale_ack_witnesses. reflexivity. Qed.

(* the marker is not trivially false where the semantic one is false: the other corpus witnesses of C28/C29
   (no stale row counted in them) have it false in every revision, the commit_noquorum ones have it true before
   the repair; and it is a genuine function of the run: a run of rr_before_ack_fix in which leaders commit *)
Lemma stale_ack_other_witnesses : forall rv,
  stale_ack_counted_b rv w28_ack_diverged_n w28_ack_diverged = false /\
  stale_ack_counted_b rv w29_late_leader_n w29_late_leader = false.
Proof. intros [[|] [|] [|]]; vm_compute; split; reflexivity. Qed.
