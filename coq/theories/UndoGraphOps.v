(* UndoGraphOps.v — C13: insert_edge and remove_edge of Graph.v are the abstract operations
   on the abstract graph (refinement), composed from the phase lemmas. *)
From Agdb Require Import Bytes BytesProofs DbValue Graph DbModel UndoBase UndoObs UndoKv UndoGraphBase UndoGraph
  UndoGraphAlloc UndoGraphEdge UndoGraphLinkIn UndoGraphUnlinkOut UndoGraphUnlinkOut2 UndoGraphUnlinkIn.
From Coq Require Import Permutation ZifyBool ZifyNat ZifyN.
Ltac Zify.zify_post_hook ::= Z.div_mod_to_equations.
Open Scope Z_scope.

Lemma cap_update_from_edge g n e : capacity (update_from_edge g n e) = capacity g.
Proof. unfold update_from_edge. rewrite cap_set_fmeta, cap_set_from, cap_set_fmeta. reflexivity. Qed.
Lemma cap_update_to_edge g n e : capacity (update_to_edge g n e) = capacity g.
Proof. unfold update_to_edge. rewrite cap_set_tmeta, cap_set_to, cap_set_tmeta. reflexivity. Qed.

(* what a_alloc produces *)
Lemma a_alloc_spec a :
  let '(e, a1) := a_alloc a in
  ak a1 = upd (ak a) e KNode /\ aout a1 = upd (aout a) e [] /\ ain a1 = upd (ain a) e [] /\
  acount a1 = acount a /\
  (e = match afree a with [] => acap a | s :: _ => s end) /\
  afree a1 = tl (afree a) /\ acap a1 = match afree a with [] => acap a + 1 | _ => acap a end.
Proof. unfold a_alloc. destruct (afree a); cbn; repeat split; reflexivity. Qed.

Lemma rep_alloc_fresh g a Xo Xi : rep_x g a Xo Xi -> 0 < fst (a_alloc a) /\ ak a (fst (a_alloc a)) = KFree.
Proof.
  intros R. unfold a_alloc. destruct (afree a) as [|s fl] eqn:E; cbn [fst].
  - pose proof (r_cap _ _ _ _ R). rewrite (r_acap _ _ _ _ R). split; [lia|].
    eapply rep_out_of_range; [exact R | lia].
  - assert (Hin : In s (afree a)) by (rewrite E; left; reflexivity).
    pose proof (rep_free_range _ _ _ _ R s Hin). split; [lia|]. eapply rep_free_kind; eassumption.
Qed.

(* ---- insert_edge ---- *)

Definition a_insert_edge (a : ag) (f t : Z) : Z * ag :=
  let '(e, a1) := a_alloc a in
  let a2 := a_make_edge a1 e f t in
  let a3 := a_set_out a2 f (e :: aout a2 f) in
  (e, a_set_in a3 t (e :: ain a3 t)).

Lemma rep_insert_edge g a f t i g' :
  rep g a -> 0 < f -> 0 < t -> ak a f = KNode -> ak a t = KNode ->
  insert_edge g f t = Some (i, g') -> capacity g' <= two63z ->
  i = - fst (a_insert_edge a f t) /\ rep g' (snd (a_insert_edge a f t)).
Proof.
  unfold rep. intros R Hf Ht Kf Kt Hins Hb. unfold insert_edge in Hins.
  destruct (is_node g f && is_node g t); [|discriminate].
  destruct (get_free_index g) as [slot g1] eqn:Eg. injection Hins as <- <-.
  rewrite cap_update_to_edge, cap_update_from_edge, cap_set_to, cap_set_from in Hb.
  destruct (rep_alloc _ _ _ _ _ _ R Eg Hb) as (Eslot & R1).
  destruct (rep_alloc_fresh _ _ _ _ R) as (Hepos & Hefree).
  unfold a_insert_edge. pose proof (a_alloc_spec a) as Hsp.
  destruct (a_alloc a) as [e a1]. cbn [fst snd] in *. subst slot.
  destruct Hsp as (Ek & Eo & Ei & _).
  assert (Hfe : f <> e) by (intros ->; congruence).
  assert (Hte : t <> e) by (intros ->; congruence).
  split; [reflexivity|].
  rewrite set_from_opp, set_to_opp.
  assert (R2 : rep_x (set_to (set_from g1 e (- f)) e (- t)) (a_make_edge a1 e f t) (eq e) (eq e)).
  { apply rep_make_edge; auto.
    - rewrite Ek. apply upd_same.
    - rewrite Eo. apply upd_same.
    - rewrite Ei. apply upd_same.
    - rewrite Ek, upd_other by assumption. assumption.
    - rewrite Ek, upd_other by assumption. assumption. }
  set (a2 := a_make_edge a1 e f t) in *.
  assert (K2 : ak a2 e = KEdge f t) by (unfold a2; cbn [a_make_edge ak]; apply upd_same).
  pose proof (rep_link_out _ _ _ _ e f t R2 Hepos K2 eq_refl) as R3.
  set (a3 := a_set_out a2 f (e :: aout a2 f)) in *.
  assert (K3 : ak a3 e = KEdge f t) by exact K2.
  pose proof (rep_link_in _ _ _ _ e f t R3 Hepos K3 eq_refl) as R4.
  eapply rep_x_ext; [| |exact R4]; intros x; unfold xnone; cbn beta; intuition congruence.
Qed.

Lemma insert_edge_some g a f t :
  rep g a -> 0 < f -> 0 < t -> ak a f = KNode -> ak a t = KNode -> exists i g', insert_edge g f t = Some (i, g').
Proof.
  unfold rep. intros R Hf Ht Kf Kt. unfold insert_edge.
  rewrite (r_kind _ _ _ _ R) in Kf, Kt by assumption.
  rewrite (proj2 (is_node_kind g f Hf) Kf), (proj2 (is_node_kind g t Ht) Kt). cbn [andb].
  destruct (get_free_index g). eauto.
Qed.

(* ---- remove_edge ---- *)

Definition a_remove_edge (a : ag) (e : Z) : ag :=
  match ak a e with
  | KEdge f t =>
    let a1 := a_set_out a f (lrem e (aout a f)) in
    let a2 := a_set_in a1 t (lrem e (ain a1 t)) in
    a_release a2 e
  | _ => a
  end.

Lemma rep_remove_edge g a e f t :
  rep g a -> 0 < e -> ak a e = KEdge f t ->
  exists g', remove_edge g (- e) = Some g' /\ rep g' (a_remove_edge a e) /\ capacity g' = capacity g.
Proof.
  unfold rep. intros R He Hk. unfold remove_edge, a_remove_edge. rewrite Hk.
  assert (Hie : is_edge g (- e) = true).
  { rewrite is_edge_opp. apply is_edge_kind; [assumption|]. rewrite <- (r_kind _ _ _ _ R) by assumption. eauto. }
  rewrite Hie.
  destruct (rep_unlink_out g a xnone xnone e f t R He Hk (fun x => x)) as (g1 & E1 & R1 & C1). rewrite E1.
  set (a1 := a_set_out a f (lrem e (aout a f))) in *.
  assert (K1 : ak a1 e = KEdge f t) by exact Hk.
  destruct (rep_unlink_in g1 a1 _ xnone e f t R1 He K1 (fun x => x)) as (g2 & E2 & R2 & C2). rewrite E2.
  set (a2 := a_set_in a1 t (lrem e (ain a1 t))) in *.
  assert (K2 : ak a2 e = KEdge f t) by exact Hk.
  rewrite Z.opp_involutive. eexists. split; [reflexivity|].
  destruct (rep_edge_arrays _ _ _ _ R2 e f t He K2) as (Her & Hefm & _).
  split.
  - eapply rep_x_ext; [| |apply (rep_release g2 a2 _ _ e R2); try lia].
    + intros x. unfold xnone. cbn beta. tauto.
    + intros x. unfold xnone. cbn beta. tauto.
    + intros n Hn Hkn. split; intros Hin.
      * apply (r_out_mem _ _ _ _ R2) in Hin; [|assumption|assumption]. destruct Hin as (_ & _ & Hc). apply Hc. right. reflexivity.
      * apply (r_in_mem _ _ _ _ R2) in Hin; [|assumption|assumption]. destruct Hin as (_ & _ & Hc). apply Hc. right. reflexivity.
    + intros x f' t' Hx Hne Hkx. destruct (r_edge _ _ _ _ R2 x f' t' Hx Hkx) as (_ & _ & Kf' & Kt').
      split; intros ->; congruence.
  - rewrite cap_free_index. lia.
Qed.

(* removing something that is not an edge is a no-op *)
Lemma remove_edge_not_edge g i : is_edge g i = false -> remove_edge g i = Some g.
Proof. unfold remove_edge. intros ->. reflexivity. Qed.
