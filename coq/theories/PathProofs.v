(* PathProofs.v — C17: the path search (Search.v path_loop / path_search) returns the selected
   elements of a minimum-cost usable path (Dijkstra), is empty exactly when there is none,
   and never runs out of fuel. *)
From Agdb Require Import Bytes DbValue Graph DbModel Search Revisions AdjOk.
From Coq Require Import ZifyBool ZifyNat ZifyN Permutation Sorted.
Ltac Zify.zify_post_hook ::= Z.div_mod_to_equations.
Open Scope Z_scope.

(* ====================================================================== *)
(* 1. distance-independent condition lists                                 *)
(* ====================================================================== *)

Definition mod_free (m : modifier) : bool := match m with MBeyond => false | _ => true end.

(* no CDistance and no Beyond modifier at any depth *)
Fixpoint dfree_data (c : cond_data) {struct c} : bool :=
  match c with
  | CDistance _ => false
  | CWhere cs =>
      (fix go (l : list cond) : bool :=
         match l with
         | [] => true
         | Cond _ m dd :: r => mod_free m && dfree_data dd && go r
         end) cs
  | _ => true
  end.

Definition dist_free (conds : list cond) : bool := dfree_data (CWhere conds).

Lemma dfree_where_cons : forall lg m dd r,
  dfree_data (CWhere (Cond lg m dd :: r)) = mod_free m && dfree_data dd && dfree_data (CWhere r).
Proof. reflexivity. Qed.

Definition cond_body (c : cond) : cond_data := match c with Cond _ _ dd => dd end.

Section CondInd.
  Variable P : cond_data -> Prop.
  Hypothesis Hleaf : forall c, match c with CWhere _ => True | _ => P c end.
  Hypothesis Hwhere : forall cs, Forall (fun x => P (cond_body x)) cs -> P (CWhere cs).

  Fixpoint cond_data_ind' (c : cond_data) : P c :=
    match c as c0 return P c0 with
    | CWhere cs =>
        Hwhere cs
          ((fix all (l : list cond) : Forall (fun x => P (cond_body x)) l :=
              match l with
              | [] => Forall_nil _
              | x :: r =>
                  Forall_cons x
                    (match x as x0 return P (cond_body x0) with Cond _ _ dd => cond_data_ind' dd end)
                    (all r)
              end) cs)
    | CDistance v => Hleaf (CDistance v)
    | CEdge => Hleaf CEdge
    | CEdgeCount v => Hleaf (CEdgeCount v)
    | CEdgeCountFrom v => Hleaf (CEdgeCountFrom v)
    | CEdgeCountTo v => Hleaf (CEdgeCountTo v)
    | CIds ids => Hleaf (CIds ids)
    | CKeyValue k o v => Hleaf (CKeyValue k o v)
    | CKeys ks => Hleaf (CKeys ks)
    | CNode => Hleaf CNode
    end.
End CondInd.

(* the loop of CWhere with the evaluation of the sub-conditions abstracted *)
Fixpoint where_go (ev : cond_data -> sc) (distance : Z) (cs : list cond) (result : sc) : sc :=
  match cs with
  | [] => result
  | Cond lg md data :: r =>
      let control0 := ev data in
      let control :=
        match md with
        | MBeyond => if sc_true control0 || (distance =? 0) then Continue (sc_true result)
                     else Stop (sc_true result)
        | MNot => sc_flip control0
        | MNotBeyond => if sc_true control0 then Stop (sc_true result) else Continue (sc_true result)
        | MNone => control0
        end in
      where_go ev distance r (match lg with LAnd => sc_and result control | LOr => sc_or result control end)
  end.

Lemma eval_data_where : forall rv d i k cs,
  eval_data rv d i k (CWhere cs) = where_go (eval_data rv d i k) k cs (Continue true).
Proof.
  intros rv d i k cs. cbn [eval_data]. generalize (Continue true) as result.
  induction cs as [|c r IH]; intros result; [reflexivity|].
  destruct c as [lg md data]. cbn [where_go]. apply IH.
Qed.

Lemma eval_data_dfree : forall rv d i k1 k2 c,
  dfree_data c = true -> eval_data rv d i k1 c = eval_data rv d i k2 c.
Proof.
  intros rv d i k1 k2 c. pattern c. apply cond_data_ind'; clear c.
  - intros c. destruct c; try exact I; intros Hf; try reflexivity. discriminate Hf.
  - intros cs IH Hf. rewrite !eval_data_where. generalize (Continue true) as result.
    induction IH as [|x r Hx _ IHr]; intros result; [reflexivity|].
    destruct x as [lg md data]. cbn [cond_body] in Hx.
    rewrite dfree_where_cons in Hf.
    apply andb_prop in Hf. destruct Hf as [Hf Hr]. apply andb_prop in Hf. destruct Hf as [Hm Hd].
    cbn [where_go]. rewrite (Hx Hd).
    destruct md; cbn [mod_free] in Hm; try discriminate Hm; apply IHr; exact Hr.
Qed.

Lemma eval_conditions_dist_free : forall rv d i k1 k2 conds,
  dist_free conds = true -> eval_conditions rv d i k1 conds = eval_conditions rv d i k2 conds.
Proof. intros. unfold eval_conditions. apply eval_data_dfree. assumption. Qed.

(* ====================================================================== *)
(* 2. sort_paths: a permutation, cost-descending; the popped path is a minimum *)
(* ====================================================================== *)

Lemma insert_path_perm : forall x l, Permutation (x :: l) (insert_path x l).
Proof.
  intros x l. induction l as [|y r IH]; cbn [insert_path]; [apply Permutation_refl|].
  destruct (path_before y x).
  - eapply Permutation_trans; [apply perm_swap|]. apply perm_skip. exact IH.
  - apply Permutation_refl.
Qed.

Lemma sort_paths_perm : forall l, Permutation l (sort_paths l).
Proof.
  induction l as [|x r IH]; cbn [sort_paths fold_right]; [apply perm_nil|].
  eapply Permutation_trans; [apply perm_skip; exact IH|]. apply insert_path_perm.
Qed.

Definition cost_ge (a b : path) : Prop := p_cost b <= p_cost a.

Lemma insert_path_sorted : forall x l, StronglySorted cost_ge l -> StronglySorted cost_ge (insert_path x l).
Proof.
  intros x l. induction l as [|y r IH]; intros Hs; cbn [insert_path].
  - constructor; constructor.
  - apply StronglySorted_inv in Hs. destruct Hs as [Hr Hy].
    destruct (path_before y x) eqn:E.
    + constructor; [apply IH; exact Hr|].
      eapply Permutation_Forall; [apply insert_path_perm|].
      constructor; [|exact Hy]. unfold cost_ge, path_before in *. lia.
    + constructor; [constructor; assumption|].
      assert (Hxy : cost_ge x y) by (unfold cost_ge, path_before in *; lia).
      constructor; [exact Hxy|].
      eapply Forall_impl; [|exact Hy]. unfold cost_ge in *. intros a Ha. lia.
Qed.

Lemma sort_paths_sorted : forall l, StronglySorted cost_ge (sort_paths l).
Proof.
  induction l as [|x r IH]; cbn [sort_paths fold_right]; [constructor|].
  apply insert_path_sorted. exact IH.
Qed.

Lemma sorted_last_min : forall l x, StronglySorted cost_ge (l ++ [x]) -> forall a, In a l -> p_cost x <= p_cost a.
Proof.
  induction l as [|y r IH]; intros x Hs a Hin; [contradiction|].
  cbn [app] in Hs. apply StronglySorted_inv in Hs. destruct Hs as [Hr Hy].
  destruct Hin as [Hin|Hin].
  - subst y. apply Forall_app in Hy. destruct Hy as [_ Hy]. inversion Hy; subst. assumption.
  - apply (IH x Hr a Hin).
Qed.

(* popping the last path of the sorted list *)
Definition pop (l : list path) : option (path * list path) :=
  match rev (sort_paths l) with
  | [] => None
  | cur :: rest_rev => Some (cur, rev rest_rev)
  end.

Lemma pop_none : forall l, pop l = None -> l = [].
Proof.
  intros l H. unfold pop in H. destruct (rev (sort_paths l)) as [|c rr] eqn:E; [|discriminate].
  apply Permutation_nil. apply Permutation_sym. eapply Permutation_trans; [apply sort_paths_perm|].
  rewrite <- (rev_involutive (sort_paths l)), E. apply perm_nil.
Qed.

Lemma pop_some : forall l cur rest, pop l = Some (cur, rest) ->
  Permutation l (cur :: rest) /\ forall a, In a l -> p_cost cur <= p_cost a.
Proof.
  intros l cur rest H. unfold pop in H.
  destruct (rev (sort_paths l)) as [|c rr] eqn:E; [discriminate|].
  injection H as H1 H2. subst c rest.
  assert (Es : sort_paths l = rev rr ++ [cur]).
  { rewrite <- (rev_involutive (sort_paths l)), E. reflexivity. }
  assert (Hp : Permutation l (cur :: rev rr)).
  { eapply Permutation_trans; [apply sort_paths_perm|]. rewrite Es.
    apply Permutation_sym. apply Permutation_cons_append. }
  split; [exact Hp|].
  intros a Ha. pose proof (sort_paths_sorted l) as Hs. rewrite Es in Hs.
  apply (Permutation_in _ Hp) in Ha. destruct Ha as [Ha|Ha]; [subst; lia|].
  apply (sorted_last_min _ _ Hs a Ha).
Qed.

(* ====================================================================== *)
(* 3. specification: paths, element cost, usable paths                     *)
(* ====================================================================== *)

(* cost / selection flag of an element as PathHandler::process computes them (distance 0;
   for dist_free condition lists the distance does not matter, path_cost_dist_free) *)
Definition ecost (rv : revision) (d : db) (conds : list cond) (x : Z) : Z := fst (path_cost rv d conds x 0).
Definition esel (rv : revision) (d : db) (conds : list cond) (x : Z) : bool := snd (path_cost rv d conds x 0).

(* is_path g o w p : p = [o; e1; n1; ...; ek; w] is a directed walk of existing edges from the
   existing node o to w (built from the origin by appending an edge and its target) *)
Inductive is_path (g : graph) (o : Z) : Z -> list Z -> Prop :=
| path_origin : node_id g o = true -> is_path g o o [o]
| path_snoc : forall u p e, is_path g o u p -> edge_id g e = true -> edge_from g e = u ->
    is_path g o (edge_to g e) (p ++ [e; edge_to g e]).

(* the cost of a path: its elements after the origin *)
Definition cost (rv : revision) (d : db) (conds : list cond) (p : list Z) : Z :=
  fold_right Z.add 0 (map (ecost rv d conds) (tl p)).
Definition usable_path (rv : revision) (d : db) (conds : list cond) (p : list Z) : Prop :=
  Forall (fun x => ecost rv d conds x <> 0) (tl p).

Lemma path_cost_dist_free : forall rv d conds x k, dist_free conds = true ->
  path_cost rv d conds x k = (ecost rv d conds x, esel rv d conds x).
Proof.
  intros rv d conds x k Hdf. unfold ecost, esel, path_cost.
  rewrite (eval_conditions_dist_free rv d x k 0 conds Hdf).
  destruct (eval_conditions rv d x 0 conds) as [b|b|b]; reflexivity.
Qed.

Lemma ecost_range : forall rv d conds x, 0 <= ecost rv d conds x <= 2.
Proof.
  intros. unfold ecost, path_cost.
  destruct (eval_conditions rv d x 0 conds) as [b|b|b]; try destruct b; cbn [fst]; lia.
Qed.

Lemma is_path_nonempty : forall g o w p, is_path g o w p -> exists t, p = o :: t.
Proof.
  intros g o w p H. induction H as [Ho | u p e H [t IH] He Hf].
  - exists []. reflexivity.
  - exists (t ++ [e; edge_to g e]). rewrite IH. reflexivity.
Qed.

Lemma sum_acc : forall l a, fold_right Z.add a l = fold_right Z.add 0 l + a.
Proof. induction l as [|x l IH]; intros a; cbn [fold_right]; [lia|]. rewrite IH. lia. Qed.

Lemma tl_app_cons :forall (x : Z) t l, tl ((x :: t) ++ l) = tl (x :: t) ++ l.
Proof. reflexivity. Qed.

Lemma node_id_pos : forall g n, 0 < n -> node_id g n = is_node g n.
Proof. intros g n H. unfold node_id. destruct (0 <? n) eqn:E; [reflexivity | lia]. Qed.

Lemma visited_pos : forall V n, 0 < n -> (visited V n = true <-> In n V).
Proof.
  intros V n Hn. unfold visited. rewrite Z.abs_eq by lia. apply existsb_eqb_In.
Qed.

Lemma visited_pos_false : forall V n, 0 < n -> (visited V n = false <-> ~ In n V).
Proof.
  intros V n Hn. rewrite <- (visited_pos V n Hn). destruct (visited V n); split; congruence.
Qed.

Lemma last_index_snoc : forall l x b c, last_index {| p_elems := l ++ [(x, b)]; p_cost := c |} = x.
Proof. intros. unfold last_index. cbn [p_elems]. rewrite rev_app_distr. reflexivity. Qed.

(* ====================================================================== *)
(* 4. the loop: soundness, optimality (Dijkstra), emptiness                 *)
(* ====================================================================== *)

Section Loop.
  Variable rv : revision.
  Variable d : db.
  Variable conds : list cond.
  Let g := gr d.
  Hypothesis Hok : adj_ok g.
  Hypothesis Hdf : dist_free conds = true.
  Variable o dst : Z.
  Variable add : bool.
  Hypothesis Ho : node_id g o = true.

  Let ec := ecost rv d conds.
  Let es := esel rv d conds.

  Lemma ec_nonneg : forall x, 0 <= ec x.
  Proof. intros x. pose proof (ecost_range rv d conds x). unfold ec. lia. Qed.

  (* usable path from the origin with its cost *)
  Inductive upath : Z -> list Z -> Z -> Prop :=
  | up_nil : upath o [o] 0
  | up_snoc : forall u p c e, upath u p c -> edge_id g e = true -> edge_from g e = u ->
      ec e <> 0 -> ec (edge_to g e) <> 0 ->
      upath (edge_to g e) (p ++ [e; edge_to g e]) (c + ec e + ec (edge_to g e)).

  Lemma upath_is_path : forall w p c, upath w p c ->
    is_path g o w p /\ usable_path rv d conds p /\ cost rv d conds p = c.
  Proof.
    intros w p c H. induction H as [|u p c e H (IH1 & IH2 & IH3) He Hf Hce Hcw].
    - split; [constructor; exact Ho|]. split; [constructor | reflexivity].
    - destruct (is_path_nonempty _ _ _ _ IH1) as [t Et]. subst p.
      split; [eapply path_snoc; eassumption|]. unfold usable_path, cost in *. rewrite tl_app_cons.
      split.
      + apply Forall_app. split; [exact IH2|]. constructor; [exact Hce|]. constructor; [exact Hcw|constructor].
      + rewrite map_app, fold_right_app. cbn [map fold_right].
        rewrite sum_acc, IH3. unfold ec. lia.
  Qed.

  Lemma is_path_upath : forall w p, is_path g o w p -> usable_path rv d conds p ->
    upath w p (cost rv d conds p).
  Proof.
    intros w p H. induction H as [Hn | u p e H IH He Hf]; intros Hu.
    - apply up_nil.
    - destruct (is_path_nonempty _ _ _ _ H) as [t Et]. subst p.
      unfold usable_path in Hu. rewrite tl_app_cons in Hu. apply Forall_app in Hu.
      destruct Hu as [Hu1 Hu2]. pose proof (Forall_inv Hu2) as Hce.
      pose proof (Forall_inv (Forall_inv_tail Hu2)) as Hcw. cbv beta in Hce, Hcw.
      pose proof (up_snoc _ _ _ e (IH Hu1) He Hf Hce Hcw) as Hs.
      destruct (upath_is_path _ _ _ Hs) as (_ & _ & Ec). rewrite Ec. exact Hs.
  Qed.

  Lemma upath_node : forall w p c, upath w p c -> node_id g w = true.
  Proof.
    intros w p c H. destruct H as [|u p c e H He Hf Hce Hcw]; [exact Ho|].
    apply (ao_to_node g Hok e He).
  Qed.

  Lemma upath_cost_nonneg : forall w p c, upath w p c -> 0 <= c.
  Proof.
    intros w p c H. induction H as [|u p c e H IH He Hf Hce Hcw]; [lia|].
    pose proof (ec_nonneg e). pose proof (ec_nonneg (edge_to g e)). lia.
  Qed.

  (* the (element, flag) list the search keeps for a path *)
  Definition flagged (p : list Z) : list (Z * bool) :=
    match p with
    | [] => []
    | x :: t => (x, add) :: map (fun y => (y, es y)) t
    end.

  Lemma map_fst_flagged : forall p, map fst (flagged p) = p.
  Proof.
    intros [|x t]; [reflexivity|]. cbn [flagged map fst]. f_equal.
    rewrite map_map. cbn [fst]. apply map_id.
  Qed.

  Lemma upath_head : forall w p c, upath w p c -> exists t, p = o :: t.
  Proof.
    intros w p c H. destruct (upath_is_path _ _ _ H) as (H1 & _). eapply is_path_nonempty; eassumption.
  Qed.

  (* P is a work-list entry for a usable path ending at w *)
  Definition wpath (P : path) (w : Z) : Prop :=
    exists p, upath w p (p_cost P) /\ p_elems P = flagged p.

  Lemma flagged_app : forall p l, p <> [] -> flagged (p ++ l) = flagged p ++ map (fun y => (y, es y)) l.
  Proof.
    intros [|x t] l Hp; [congruence|]. cbn [flagged app]. rewrite map_app. reflexivity.
  Qed.

  Lemma flagged_last : forall l w, exists l' b, flagged (l ++ [w]) = l' ++ [(w, b)].
  Proof.
    intros [|x t] w.
    - exists [], add. reflexivity.
    - exists (flagged (x :: t)), (es w). rewrite flagged_app by discriminate. reflexivity.
  Qed.

  Lemma upath_last : forall w p c, upath w p c -> exists l, p = l ++ [w].
  Proof.
    intros w p c H. destruct H as [|u p c e H He Hf Hce Hcw].
    - exists []. reflexivity.
    - exists (p ++ [e]). rewrite <- app_assoc. reflexivity.
  Qed.

  Lemma wpath_last_index : forall P w, wpath P w -> last_index P = w.
  Proof.
    intros [els c] w (p & Hp & Hel). cbn [p_elems p_cost] in *. subst els.
    destruct (upath_last _ _ _ Hp) as [l El]. subst p.
    destruct (flagged_last l w) as (l' & b & E). rewrite E. apply last_index_snoc.
  Qed.

  Lemma wpath_inj : forall P w1 w2, wpath P w1 -> wpath P w2 -> w1 = w2.
  Proof.
    intros P w1 w2 H1 H2. apply wpath_last_index in H1. apply wpath_last_index in H2. congruence.
  Qed.

  Lemma wpath_node : forall P w, wpath P w -> node_id g w = true.
  Proof. intros P w (p & Hp & _). eapply upath_node; eassumption. Qed.

  (* cur extended by the edge e and its target *)
  Definition ext (cur : path) (e : Z) : path :=
    {| p_elems := p_elems cur ++ [(e, es e); (edge_to g e, es (edge_to g e))];
       p_cost := p_cost cur + ec e + ec (edge_to g e) |}.

  Lemma wpath_ext : forall cur u e, wpath cur u -> edge_id g e = true -> edge_from g e = u ->
    ec e <> 0 -> ec (edge_to g e) <> 0 -> wpath (ext cur e) (edge_to g e).
  Proof.
    intros cur u e (p & Hp & Hel) He Hf Hce Hcw. exists (p ++ [e; edge_to g e]).
    cbn [ext p_cost p_elems]. split.
    - apply up_snoc with (u := u); assumption.
    - destruct (upath_head _ _ _ Hp) as [t Et]. rewrite flagged_app by (subst p; discriminate).
      rewrite Hel. reflexivity.
  Qed.

  Definition extend (cur : path) (V' : list Z) (e : Z) : list path :=
    let node := edge_to g e in
    if negb (ec e =? 0) && negb (visited V' node) then
      if negb (ec node =? 0) then [ext cur e] else []
    else [].

  Lemma extend_in : forall cur V' e P, In P (extend cur V' e) <->
    (ec e <> 0 /\ visited V' (edge_to g e) = false /\ ec (edge_to g e) <> 0 /\ P = ext cur e).
  Proof.
    intros cur V' e P. unfold extend.
    destruct (ec e =? 0) eqn:E1; destruct (visited V' (edge_to g e)) eqn:E2;
      destruct (ec (edge_to g e) =? 0) eqn:E3; cbn [negb andb In]; split; intros H;
      try contradiction; try (destruct H as (H1 & H2 & H3 & H4); try discriminate; try lia).
    - destruct H as [H|H]; [|contradiction]. repeat split; try lia. congruence.
    - left. congruence.
  Qed.

  Lemma path_loop_step : forall f L V,
    path_loop rv d conds dst (S f) L V =
    match pop L with
    | None => Some []
    | Some (cur, rest) =>
        let u := last_index cur in
        if visited V u then path_loop rv d conds dst f rest V
        else if u =? dst then Some (p_elems cur)
        else path_loop rv d conds dst f (rest ++ flat_map (extend cur (Z.abs u :: V)) (out_edges g u))
                       (Z.abs u :: V)
    end.
  Proof.
    intros f L V. cbn [path_loop]. unfold pop.
    destruct (rev (sort_paths L)) as [|cur rr]; [reflexivity|]. cbv zeta.
    destruct (visited V (last_index cur)); [reflexivity|].
    destruct (last_index cur =? dst); [reflexivity|].
    f_equal. f_equal. apply flat_map_ext. intros e. unfold extend, ext.
    rewrite !(path_cost_dist_free rv d conds _ _ Hdf). cbn [fst snd]. reflexivity.
  Qed.

  Definition init : path := {| p_elems := [(o, add)]; p_cost := 0 |}.

  Lemma wpath_init : wpath init o.
  Proof. exists [o]. split; [apply up_nil | reflexivity]. Qed.

  (* Dijkstra invariant; V = settled nodes, L = work list *)
  Record inv (L : list path) (V : list Z) : Prop := {
    inv_paths : forall P, In P L -> exists w, wpath P w;
    inv_front : forall v q c e, In v V -> upath v q c -> edge_id g e = true -> edge_from g e = v ->
        ec e <> 0 -> ec (edge_to g e) <> 0 -> ~ In (edge_to g e) V ->
        exists P, In P L /\ wpath P (edge_to g e) /\ p_cost P <= c + ec e + ec (edge_to g e);
    inv_origin : In o V \/ (V = [] /\ L = [init]);
    inv_dest : ~ In dst V
  }.

  Lemma inv_init : inv [init] [].
  Proof.
    constructor.
    - intros P [HP|[]]. subst P. exists o. apply wpath_init.
    - intros v q c e [].
    - right. split; reflexivity.
    - intros [].
  Qed.

  (* every usable path to an unsettled node is at least as expensive as some work-list entry *)
  Lemma frontier : forall L V, inv L V -> forall u q c, upath u q c -> ~ In u V ->
    exists P, In P L /\ p_cost P <= c.
  Proof.
    intros L V Hinv u q c Hq. induction Hq as [|u q c e Hq IH He Hf Hce Hcw]; intros Hnu.
    - destruct (inv_origin _ _ Hinv) as [Hin | [HV HL]]; [contradiction|].
      exists init. subst L. split; [left; reflexivity | cbn [init p_cost]; lia].
    - destruct (in_dec Z.eq_dec u V) as [Hin | Hnin].
      + destruct (inv_front _ _ Hinv u q c e Hin Hq He Hf Hce Hcw Hnu) as (P & HP & _ & Hc).
        exists P. split; assumption.
      + destruct (IH Hnin) as (P & HP & Hc). exists P. split; [exact HP|].
        pose proof (ec_nonneg e). pose proof (ec_nonneg (edge_to g e)). lia.
  Qed.

  Theorem path_loop_spec : forall f L V els, inv L V ->
    path_loop rv d conds dst f L V = Some els ->
    (els = [] /\ forall q c, ~ upath dst q c) \/
    (exists p c, upath dst p c /\ els = flagged p /\ forall q c', upath dst q c' -> c <= c').
  Proof.
    induction f as [|f IHf]; intros L V els Hinv H; [discriminate H|].
    rewrite path_loop_step in H. destruct (pop L) as [[cur rest]|] eqn:Epop.
    2:{ apply pop_none in Epop. subst L. injection H as H. subst els. left. split; [reflexivity|].
        intros q c Hq. destruct (frontier _ _ Hinv _ _ _ Hq (inv_dest _ _ Hinv)) as (P & HP & _).
        exact HP. }
    destruct (pop_some _ _ _ Epop) as [Hperm Hmin].
    assert (Hcur : In cur L) by (apply (Permutation_in _ (Permutation_sym Hperm)); left; reflexivity).
    assert (Hrest : forall P, In P rest -> In P L)
      by (intros P HP; apply (Permutation_in _ (Permutation_sym Hperm)); right; exact HP).
    assert (Hsplit : forall P, In P L -> P = cur \/ In P rest).
    { intros P HP. apply (Permutation_in _ Hperm) in HP. destruct HP as [HP|HP]; [left; congruence | right; exact HP]. }
    destruct (inv_paths _ _ Hinv cur Hcur) as [u Hu].
    pose proof (wpath_last_index _ _ Hu) as Elast. rewrite Elast in H. cbv zeta in H. clear Elast.
    pose proof (wpath_node _ _ Hu) as Hun. pose proof (node_id_bounds _ _ Hun) as (Hupos & _).
    destruct (visited V u) eqn:Evis.
    - (* popped path ends at a settled node: dropped *)
      apply visited_pos in Evis; [|exact Hupos].
      apply (IHf rest V els); [|exact H]. constructor.
      + intros P HP. apply (inv_paths _ _ Hinv). apply Hrest. exact HP.
      + intros v q c e Hv Hq He Hf Hce Hcw Hnw.
        destruct (inv_front _ _ Hinv v q c e Hv Hq He Hf Hce Hcw Hnw) as (P & HP & HwP & Hc).
        exists P. split; [|split; assumption].
        destruct (Hsplit P HP) as [E|HPr]; [|exact HPr]. subst P.
        exfalso. apply Hnw. rewrite (wpath_inj _ _ _ HwP Hu). exact Evis.
      + destruct (inv_origin _ _ Hinv) as [Hin | [HV _]]; [left; exact Hin|].
        subst V. contradiction.
      + apply (inv_dest _ _ Hinv).
    - apply visited_pos_false in Evis; [|exact Hupos].
      assert (Hcurmin : forall q c, upath u q c -> p_cost cur <= c).
      { intros q c Hq. destruct (frontier _ _ Hinv _ _ _ Hq Evis) as (P & HP & Hc).
        specialize (Hmin P HP). lia. }
      destruct (u =? dst) eqn:Ed.
      + (* destination reached *)
        assert (u = dst) by lia. subst u. right. destruct Hu as (p & Hp & Hel).
        exists p, (p_cost cur). split; [exact Hp|]. split; [injection H as H; congruence|].
        intros q c' Hq. apply (Hcurmin q c' Hq).
      + (* u gets settled, its out-edges are expanded *)
        assert (Hne : u <> dst) by lia.
        rewrite (Z.abs_eq u) in H by lia.
        apply (IHf _ _ els) in H; [exact H|]. constructor.
        * intros P HP. apply in_app_or in HP. destruct HP as [HP|HP].
          { apply (inv_paths _ _ Hinv). apply Hrest. exact HP. }
          apply in_flat_map in HP. destruct HP as (e & He & HP).
          apply extend_in in HP. destruct HP as (Hce & _ & Hcw & EP). subst P.
          apply (ao_out_spec g Hok u e Hun) in He. destruct He as [He Hf].
          exists (edge_to g e). apply (wpath_ext cur u e Hu He Hf Hce Hcw).
        * intros v q c e Hv Hq He Hf Hce Hcw Hnw.
          assert (Hwn : node_id g (edge_to g e) = true) by (apply (ao_to_node g Hok e He)).
          pose proof (node_id_bounds _ _ Hwn) as (Hwpos & _).
          destruct (Z.eq_dec v u) as [Evu | Nvu].
          { rewrite Evu in Hq, Hf. exists (ext cur e). split; [|split].
            - apply in_or_app. right. apply in_flat_map. exists e. split.
              + apply (ao_out_spec g Hok u e Hun). split; assumption.
              + apply extend_in. repeat split; try assumption.
                apply visited_pos_false; assumption.
            - apply (wpath_ext cur u e Hu He Hf Hce Hcw).
            - cbn [ext p_cost]. specialize (Hcurmin q c Hq). lia. }
          { assert (HvV : In v V) by (destruct Hv as [Hv|Hv]; [congruence | exact Hv]).
            assert (HnwV : ~ In (edge_to g e) V) by (intros Hc; apply Hnw; right; exact Hc).
            destruct (inv_front _ _ Hinv v q c e HvV Hq He Hf Hce Hcw HnwV) as (P & HP & HwP & Hc).
            exists P. split; [|split; assumption]. apply in_or_app. left.
            destruct (Hsplit P HP) as [E|HPr]; [|exact HPr]. subst P.
            exfalso. apply Hnw. left. apply (wpath_inj _ _ _ Hu HwP). }
        * left. destruct (inv_origin _ _ Hinv) as [Hin | [HV HL]]; [right; exact Hin|].
          subst L. apply Permutation_length_1_inv in Hperm. injection Hperm as E1 E2. subst cur.
          left. apply (wpath_inj _ _ _ Hu wpath_init).
        * intros [Hc|Hc]; [congruence|]. apply (inv_dest _ _ Hinv). exact Hc.
  Qed.
End Loop.

(* ====================================================================== *)
(* 5. the statements in terms of is_path / usable_path / cost               *)
(* ====================================================================== *)

Definition path_fuel (g : graph) : nat := length (g_from g) * length (g_from g) + 2.

Lemma init_eq : forall o add, init o add = {| p_elems := [(o, add)]; p_cost := 0 |}.
Proof. reflexivity. Qed.


(* the flags the search attaches to the elements after the origin *)
Definition flags_ok (rv : revision) (d : db) (conds : list cond) (add : bool) (els : list (Z * bool)) : Prop :=
  match els with
  | [] => True
  | (_, b) :: t => b = add /\ Forall (fun xb => snd xb = esel rv d conds (fst xb)) t
  end.

Lemma flagged_flags_ok : forall rv d conds add p, flags_ok rv d conds add (flagged rv d conds add p).
Proof.
  intros rv d conds add [|x t]; cbn [flagged flags_ok]; [exact I|]. split; [reflexivity|].
  apply Forall_forall. intros xb Hin. apply in_map_iff in Hin. destruct Hin as (y & E & _). subst xb. reflexivity.
Qed.

(* the loop started as path_search starts it *)
Theorem path_loop_init_spec : forall rv d conds o dst add fuel els,
  adj_ok (gr d) -> dist_free conds = true -> node_id (gr d) o = true ->
  path_loop rv d conds dst fuel [init o add] [] = Some els ->
  (els = [] /\ forall q, is_path (gr d) o dst q -> ~ usable_path rv d conds q) \/
  (is_path (gr d) o dst (map fst els) /\ usable_path rv d conds (map fst els) /\
   flags_ok rv d conds add els /\
   forall q, is_path (gr d) o dst q -> usable_path rv d conds q ->
             cost rv d conds (map fst els) <= cost rv d conds q).
Proof.
  intros rv d conds o dst add fuel els Hok Hdf Ho H.
  destruct (path_loop_spec rv d conds Hok Hdf o dst add Ho fuel _ _ els
              (inv_init rv d conds o dst add) H) as [[E Hno] | (p & c & Hp & E & Hopt)].
  - left. split; [exact E|]. intros q Hq Hu.
    apply (Hno q (cost rv d conds q)). apply is_path_upath; assumption.
  - right. subst els. rewrite map_fst_flagged.
    destruct (upath_is_path rv d conds o Ho _ _ _ Hp) as (H1 & H2 & H3).
    split; [exact H1|]. split; [exact H2|]. split; [apply flagged_flags_ok|].
    intros q Hq Hu. rewrite H3. apply (Hopt q). apply is_path_upath; assumption.
Qed.

Lemma filter_flagged : forall rv d conds o t,
  map fst (filter snd (flagged rv d conds (esel rv d conds o) (o :: t))) = filter (esel rv d conds) (o :: t).
Proof.
  intros rv d conds o t.
  assert (E : flagged rv d conds (esel rv d conds o) (o :: t) = map (fun y => (y, esel rv d conds y)) (o :: t))
    by reflexivity.
  rewrite E. generalize (o :: t) as l.
  induction l as [|x l IH]; [reflexivity|]. cbn [map filter snd].
  destruct (esel rv d conds x); cbn [map fst]; rewrite IH; reflexivity.
Qed.

Lemma path_search_unfold : forall rv d conds o dst,
  node_id (gr d) o = true -> node_id (gr d) dst = true -> o <> dst ->
  path_search rv d conds o dst =
  match path_loop rv d conds dst (path_fuel (gr d)) [init o (esel rv d conds o)] [] with
  | Some els => Some (map fst (filter snd els))
  | None => None
  end.
Proof.
  intros rv d conds o dst Ho Hd Hne. unfold path_search.
  unfold node_id in Ho, Hd. apply andb_prop in Ho. apply andb_prop in Hd.
  destruct Ho as [_ Ho]. destruct Hd as [_ Hd]. rewrite Ho, Hd.
  destruct (o =? dst) eqn:E; [lia|]. reflexivity.
Qed.

Theorem path_search_spec : forall rv d conds o dst r,
  adj_ok (gr d) -> dist_free conds = true ->
  node_id (gr d) o = true -> node_id (gr d) dst = true -> o <> dst ->
  path_search rv d conds o dst = Some r ->
  (r = [] /\ forall q, is_path (gr d) o dst q -> ~ usable_path rv d conds q) \/
  (exists p, is_path (gr d) o dst p /\ usable_path rv d conds p /\
             r = filter (esel rv d conds) p /\
             forall q, is_path (gr d) o dst q -> usable_path rv d conds q ->
                       cost rv d conds p <= cost rv d conds q).
Proof.
  intros rv d conds o dst r Hok Hdf Ho Hd Hne H.
  rewrite path_search_unfold in H by assumption.
  destruct (path_loop rv d conds dst (path_fuel (gr d)) [init o (esel rv d conds o)] []) as [els|] eqn:E;
    [|discriminate H].
  injection H as H. subst r.
  destruct (path_loop_spec rv d conds Hok Hdf o dst (esel rv d conds o) Ho _ _ _ els
              (inv_init rv d conds o dst _) E) as [[E1 Hno] | (p & c & Hp & E1 & Hopt)].
  - left. subst els. split; [reflexivity|]. intros q Hq Hu.
    apply (Hno q (cost rv d conds q)). apply is_path_upath; assumption.
  - right. exists p. destruct (upath_is_path rv d conds o Ho _ _ _ Hp) as (H1 & H2 & H3).
    split; [exact H1|]. split; [exact H2|]. split.
    + subst els. destruct (is_path_nonempty _ _ _ _ H1) as [t Et]. subst p. apply filter_flagged.
    + intros q Hq Hu. rewrite H3. apply (Hopt q). apply is_path_upath; assumption.
Qed.

(* ====================================================================== *)
(* 6. the fuel of path_search is never exhausted (any condition list)       *)
(* ====================================================================== *)

Lemma get_abs : forall l i, get l (Z.abs i) = get l i.
Proof. intros. unfold get, zabs_nat. rewrite Z.abs_involutive. reflexivity. Qed.

Lemma out_edges_abs : forall g n, out_edges g (Z.abs n) = out_edges g n.
Proof. intros. unfold out_edges, first_edge_from, from. rewrite get_abs. reflexivity. Qed.

Lemma is_node_abs : forall g n, is_node g (Z.abs n) = is_node g n.
Proof.
  intros. unfold is_node, valid_index, fmeta, from. rewrite !get_abs, Z.abs_involutive.
  replace (Z.abs n =? 0) with (n =? 0) by lia. reflexivity.
Qed.

Lemma visited_abs : forall V n, visited V (Z.abs n) = visited V n.
Proof. intros. unfold visited. rewrite Z.abs_involutive. reflexivity. Qed.

Lemma edge_list_length : forall next f e, (length (edge_list next f e) <= f)%nat.
Proof.
  intros next f. induction f as [|f IH]; intros e; cbn [edge_list length]; [lia|].
  destruct (e =? 0); cbn [length]; [lia|]. specialize (IH (next e)). lia.
Qed.

Lemma list_sum_cons : forall a l, list_sum (a :: l) = (a + list_sum l)%nat.
Proof. reflexivity. Qed.

Lemma list_sum_drop : forall (f f' : nat -> nat) (k : nat) l x,
  In x l -> (forall y, f' y <= f y)%nat -> (f' x + k <= f x)%nat ->
  (list_sum (map f' l) + k <= list_sum (map f l))%nat.
Proof.
  intros f f' k l x Hin Hle Hx. induction l as [|a l IH]; [contradiction|].
  cbn [map]; rewrite ?list_sum_cons. destruct Hin as [E|Hin].
  - subst a. assert (H : (list_sum (map f' l) <= list_sum (map f l))%nat).
    { clear IH. induction l as [|b l IHl]; cbn [map]; rewrite ?list_sum_cons; [lia|]. specialize (Hle b). lia. }
    lia.
  - specialize (IH Hin). specialize (Hle a). lia.
Qed.

Lemma list_sum_bound : forall (f : nat -> nat) b l, (forall y, f y <= b)%nat ->
  (list_sum (map f l) <= length l * b)%nat.
Proof.
  intros f b l Hb. induction l as [|a l IH]; cbn [map length]; rewrite ?list_sum_cons; [cbn; lia|].
  specialize (Hb a). nia.
Qed.

Section NoFuel.
  Variable rv : revision.
  Variable d : db.
  Variable conds : list cond.
  Variable dst : Z.
  Let g := gr d.
  Hypothesis Hok : adj_ok g.

  Definition extend_raw (cur : path) (V' : list Z) (dist : Z) (e : Z) : list path :=
    let node := edge_to g e in
    let ce := path_cost rv d conds e dist in
    if negb (fst ce =? 0) && negb (visited V' node) then
      let cn := path_cost rv d conds node dist in
      if negb (fst cn =? 0) then
        [ {| p_elems := p_elems cur ++ [(e, snd ce); (node, snd cn)];
             p_cost := p_cost cur + fst ce + fst cn |} ]
      else []
    else [].

  Lemma path_loop_step_raw : forall f L V,
    path_loop rv d conds dst (S f) L V =
    match pop L with
    | None => Some []
    | Some (cur, rest) =>
        let u := last_index cur in
        if visited V u then path_loop rv d conds dst f rest V
        else if u =? dst then Some (p_elems cur)
        else path_loop rv d conds dst f
               (rest ++ flat_map (extend_raw cur (Z.abs u :: V) (Z.of_nat (length (p_elems cur)) + 1))
                                 (out_edges g u))
               (Z.abs u :: V)
    end.
  Proof.
    intros f L V. cbn [path_loop]. unfold pop.
    destruct (rev (sort_paths L)) as [|cur rr]; reflexivity.
  Qed.

  Lemma extend_raw_length : forall cur V' k e, (length (extend_raw cur V' k e) <= 1)%nat.
  Proof.
    intros. unfold extend_raw.
    destruct (negb (fst (path_cost rv d conds e k) =? 0) && negb (visited V' (edge_to g e)));
      [|cbn [length]; lia].
    destruct (negb (fst (path_cost rv d conds (edge_to g e) k) =? 0)); cbn [length]; lia.
  Qed.

  Lemma extend_raw_last : forall cur V' k e P, In P (extend_raw cur V' k e) -> last_index P = edge_to g e.
  Proof.
    intros cur V' k e P H. unfold extend_raw in H.
    destruct (negb (fst (path_cost rv d conds e k) =? 0) && negb (visited V' (edge_to g e)));
      [|contradiction].
    destruct (negb (fst (path_cost rv d conds (edge_to g e) k) =? 0)); [|contradiction].
    destruct H as [H|[]]. subst P. unfold last_index. cbn [p_elems]. rewrite rev_app_distr. reflexivity.
  Qed.

  Lemma flat_map_length_le : forall (f : Z -> list path) l,
    (forall e, length (f e) <= 1)%nat -> (length (flat_map f l) <= length l)%nat.
  Proof.
    intros f l Hf. induction l as [|a l IH]; cbn [flat_map length]; [lia|].
    rewrite app_length. specialize (Hf a). lia.
  Qed.

  Definition slot_w (V : list Z) (s : nat) : nat :=
    if visited V (Z.of_nat s) then 0%nat else length (out_edges g (Z.of_nat s)).
  Definition wsum (V : list Z) : nat := list_sum (map (slot_w V) (seq 1 (length (g_from g) - 1))).
  Definition mu (L : list path) (V : list Z) : nat := (length L + wsum V)%nat.

  Lemma wsum_settle : forall V u, node_id g (Z.abs u) = true -> visited V u = false ->
    (wsum (Z.abs u :: V) + length (out_edges g u) <= wsum V)%nat.
  Proof.
    intros V u Hn Hv. unfold wsum.
    pose proof (node_id_bounds _ _ Hn) as (H1 & H2 & _). unfold capacity in H2.
    apply list_sum_drop with (x := Z.to_nat (Z.abs u)).
    - apply in_seq. lia.
    - intros y. unfold slot_w, visited. cbn [existsb].
      destruct (existsb (Z.eqb (Z.abs (Z.of_nat y))) V); rewrite ?orb_true_r, ?orb_false_r; [lia|].
      destruct (Z.abs (Z.of_nat y) =? Z.abs u); lia.
    - unfold slot_w. rewrite Z2Nat.id by lia. rewrite !visited_abs, Hv, out_edges_abs.
      unfold visited. cbn [existsb]. rewrite Z.eqb_refl. cbn [orb]. lia.
  Qed.

  Lemma wsum_bound : forall V, (wsum V <= (length (g_from g) - 1) * length (g_from g))%nat.
  Proof.
    intros V. unfold wsum.
    pose proof (list_sum_bound (slot_w V) (length (g_from g)) (seq 1 (length (g_from g) - 1))) as H.
    rewrite seq_length in H. apply H. intros y. unfold slot_w.
    destruct (visited V (Z.of_nat y)); [lia|]. apply edge_list_length.
  Qed.

  Definition ends_ok (L : list path) : Prop :=
    forall P, In P L -> node_id g (Z.abs (last_index P)) = true.

  Lemma path_loop_fuel : forall f L V, ends_ok L -> (mu L V < f)%nat ->
    path_loop rv d conds dst f L V <> None.
  Proof.
    induction f as [|f IHf]; intros L V Hends Hmu; [lia|].
    rewrite path_loop_step_raw. destruct (pop L) as [[cur rest]|] eqn:Epop; [|discriminate].
    destruct (pop_some _ _ _ Epop) as [Hperm _].
    pose proof (Permutation_length Hperm) as Hlen. cbn [length] in Hlen.
    assert (Hcur : In cur L) by (apply (Permutation_in _ (Permutation_sym Hperm)); left; reflexivity).
    assert (Hrest : ends_ok rest).
    { intros P HP. apply Hends. apply (Permutation_in _ (Permutation_sym Hperm)). right. exact HP. }
    pose proof (Hends cur Hcur) as Hun. cbv zeta. unfold mu in *.
    destruct (visited V (last_index cur)) eqn:Evis.
    - apply IHf; [exact Hrest | lia].
    - destruct (last_index cur =? dst); [discriminate|].
      apply IHf.
      + intros P HP. apply in_app_or in HP. destruct HP as [HP|HP]; [apply Hrest; exact HP|].
        apply in_flat_map in HP. destruct HP as (e & He & HP).
        apply extend_raw_last in HP. rewrite HP.
        rewrite <- out_edges_abs in He. apply (ao_out_spec g Hok _ e Hun) in He. destruct He as [He _].
        pose proof (ao_to_node g Hok e He) as Hw. pose proof (node_id_bounds _ _ Hw) as (Hpos & _).
        rewrite Z.abs_eq by lia. exact Hw.
      + rewrite app_length.
        pose proof (flat_map_length_le
                      (extend_raw cur (Z.abs (last_index cur) :: V) (Z.of_nat (length (p_elems cur)) + 1))
                      (out_edges g (last_index cur)) (extend_raw_length _ _ _)) as H1.
        pose proof (wsum_settle V (last_index cur) Hun Evis) as H2. lia.
  Qed.

  Theorem path_search_no_fuel : forall o, path_search rv d conds o dst <> None.
  Proof.
    intros o. unfold path_search.
    destruct (negb (o =? dst) && is_node (gr d) o && is_node (gr d) dst) eqn:E; [|discriminate].
    apply andb_prop in E. destruct E as [E _]. apply andb_prop in E. destruct E as [_ Ho].
    match goal with |- match ?x with _ => _ end <> None => assert (H : x <> None) end.
    2:{ destruct (path_loop rv d conds dst _ _ _); [discriminate | congruence]. }
    apply path_loop_fuel.
    - intros P [HP|[]]. subst P. unfold last_index. cbn [p_elems rev app].
      unfold node_id. fold g in Ho. rewrite is_node_abs, Ho.
      unfold is_node, valid_index in Ho. apply andb_prop in Ho. destruct Ho as [Ho _].
      apply andb_prop in Ho. destruct Ho as [Ho _]. apply andb_prop in Ho. destruct Ho as [Ho _].
      apply andb_true_intro. split; [lia | reflexivity].
    - unfold mu. cbn [length]. pose proof (wsum_bound []) as H. fold g. nia.
  Qed.

  Theorem path_loop_init_no_fuel : forall o add, node_id g o = true ->
    path_loop rv d conds dst (length (g_from g) * length (g_from g) + 2)
              [ {| p_elems := [(o, add)]; p_cost := 0 |} ] [] <> None.
  Proof.
    intros o add Ho. apply path_loop_fuel.
    - intros P [HP|[]]. subst P. unfold last_index. cbn [p_elems rev app].
      pose proof (node_id_bounds _ _ Ho) as (Hpos & _). rewrite Z.abs_eq by lia. exact Ho.
    - unfold mu. cbn [length]. pose proof (wsum_bound []) as H. nia.
  Qed.

  (* for ANY condition list (also distance-dependent ones) a non-empty internal result is a
     directed path from the origin to the destination *)
  Section AnyConds.
    Variable o : Z.
    Hypothesis Ho : node_id g o = true.

    Lemma last_index_map : forall P,
      last_index P = match rev (map fst (p_elems P)) with x :: _ => x | [] => 0 end.
    Proof.
      intros P. unfold last_index. rewrite <- map_rev.
      destruct (rev (p_elems P)) as [|[i b] r]; reflexivity.
    Qed.

    Lemma is_path_last : forall w p, is_path g o w p -> exists l, p = l ++ [w].
    Proof.
      intros w p H. destruct H as [_ | u p e H He Hf].
      - exists []. reflexivity.
      - exists (p ++ [e]). rewrite <- app_assoc. reflexivity.
    Qed.

    Lemma is_path_node : forall w p, is_path g o w p -> node_id g w = true.
    Proof.
      intros w p H. destruct H as [H | u p e H He Hf]; [exact H | apply (ao_to_node g Hok e He)].
    Qed.

    Lemma extend_raw_shape : forall cur V' k e P, In P (extend_raw cur V' k e) ->
      exists b1 b2, p_elems P = p_elems cur ++ [(e, b1); (edge_to g e, b2)].
    Proof.
      intros cur V' k e P H. unfold extend_raw in H.
      destruct (negb (fst (path_cost rv d conds e k) =? 0) && negb (visited V' (edge_to g e)));
        [|contradiction].
      destruct (negb (fst (path_cost rv d conds (edge_to g e) k) =? 0)); [|contradiction].
      destruct H as [H|[]]. subst P. cbn [p_elems]. eexists. eexists. reflexivity.
    Qed.

    Definition pinv (L : list path) : Prop :=
      forall P, In P L -> is_path g o (last_index P) (map fst (p_elems P)).

    Lemma path_loop_any_sound : forall f L V els, pinv L ->
      path_loop rv d conds dst f L V = Some els -> els = [] \/ is_path g o dst (map fst els).
    Proof.
      induction f as [|f IHf]; intros L V els Hinv H; [discriminate H|].
      rewrite path_loop_step_raw in H. destruct (pop L) as [[cur rest]|] eqn:Epop.
      2:{ injection H as H. left. congruence. }
      destruct (pop_some _ _ _ Epop) as [Hperm _].
      assert (Hcur : In cur L) by (apply (Permutation_in _ (Permutation_sym Hperm)); left; reflexivity).
      assert (Hrest : pinv rest).
      { intros P HP. apply Hinv. apply (Permutation_in _ (Permutation_sym Hperm)). right. exact HP. }
      pose proof (Hinv cur Hcur) as Hc. cbv zeta in H.
      destruct (visited V (last_index cur)); [apply (IHf rest V els Hrest H)|].
      destruct (last_index cur =? dst) eqn:Ed.
      - injection H as H. subst els. right. assert (E : last_index cur = dst) by lia.
        rewrite <- E. exact Hc.
      - apply (IHf _ _ els) in H; [exact H|].
        intros P HP. apply in_app_or in HP. destruct HP as [HP|HP]; [apply Hrest; exact HP|].
        apply in_flat_map in HP. destruct HP as (e & He & HP).
        pose proof (extend_raw_last _ _ _ _ _ HP) as El.
        destruct (extend_raw_shape _ _ _ _ _ HP) as (b1 & b2 & Es).
        apply (ao_out_spec g Hok _ e (is_path_node _ _ Hc)) in He. destruct He as [He Hf].
        rewrite El, Es, map_app. cbn [map fst].
        exact (path_snoc g o _ _ e Hc He Hf).
    Qed.
  End AnyConds.

  Theorem path_search_any_sound : forall o r, 0 < o -> 0 < dst ->
    path_search rv d conds o dst = Some r -> r <> [] ->
    exists els, r = map fst (filter snd els) /\ is_path g o dst (map fst els).
  Proof.
    intros o r Hopos Hdpos H Hne. unfold path_search in H.
    destruct (negb (o =? dst) && is_node (gr d) o && is_node (gr d) dst) eqn:E.
    2:{ injection H as H. congruence. }
    apply andb_prop in E. destruct E as [E _]. apply andb_prop in E. destruct E as [_ Ho].
    rewrite <- node_id_pos in Ho by exact Hopos.
    match type of H with match ?x with _ => _ end = _ => destruct x as [els|] eqn:El end; [|discriminate H].
    injection H as H. exists els. split; [congruence|].
    assert (Hinit : pinv o [ {| p_elems := [(o, snd (path_cost rv d conds o 0))]; p_cost := 0 |} ]).
    { intros P [HP|[]]. subst P. apply path_origin. exact Ho. }
    destruct (path_loop_any_sound o _ _ _ els Hinit El) as [E|Hp]; [|exact Hp].
    subst els r. cbn in Hne. congruence.
  Qed.
End NoFuel.

(* ====================================================================== *)
(* 7. the pinned statements                                                 *)
(* ====================================================================== *)

(* what the element cost and flag are *)
Lemma ecost_spec : forall rv d conds x,
  ecost rv d conds x = match eval_conditions rv d x 0 conds with
                       | Continue true => 1 | Continue false => 2 | _ => 0 end.
Proof.
  intros. unfold ecost, path_cost. destruct (eval_conditions rv d x 0 conds) as [b|b|b]; try destruct b; reflexivity.
Qed.

Lemma esel_spec : forall rv d conds x, esel rv d conds x = sc_true (eval_conditions rv d x 0 conds).
Proof.
  intros. unfold esel, path_cost. destruct (eval_conditions rv d x 0 conds) as [b|b|b]; reflexivity.
Qed.

Lemma is_path_not_nil : forall g o w, ~ is_path g o w [].
Proof. intros g o w H. destruct (is_path_nonempty _ _ _ _ H) as [t E]. discriminate E. Qed.

Theorem path_loop_sound : forall rv d conds o dst add fuel els,
  adj_ok (gr d) -> dist_free conds = true -> node_id (gr d) o = true ->
  path_loop rv d conds dst fuel [init o add] [] = Some els -> els <> [] ->
  is_path (gr d) o dst (map fst els) /\ usable_path rv d conds (map fst els) /\
  flags_ok rv d conds add els.
Proof.
  intros rv d conds o dst add fuel els Hok Hdf Ho H Hne.
  destruct (path_loop_init_spec rv d conds o dst add fuel els Hok Hdf Ho H) as [[E _] | (H1 & H2 & H3 & _)];
    [contradiction|]. repeat split; assumption.
Qed.

Theorem path_loop_optimal : forall rv d conds o dst add fuel els,
  adj_ok (gr d) -> dist_free conds = true -> node_id (gr d) o = true ->
  path_loop rv d conds dst fuel [init o add] [] = Some els -> els <> [] ->
  forall q, is_path (gr d) o dst q -> usable_path rv d conds q ->
            cost rv d conds (map fst els) <= cost rv d conds q.
Proof.
  intros rv d conds o dst add fuel els Hok Hdf Ho H Hne.
  destruct (path_loop_init_spec rv d conds o dst add fuel els Hok Hdf Ho H) as [[E _] | (_ & _ & _ & H4)];
    [contradiction | exact H4].
Qed.

Theorem path_loop_empty_iff : forall rv d conds o dst add fuel els,
  adj_ok (gr d) -> dist_free conds = true -> node_id (gr d) o = true ->
  path_loop rv d conds dst fuel [init o add] [] = Some els ->
  (els = [] <-> forall q, is_path (gr d) o dst q -> ~ usable_path rv d conds q).
Proof.
  intros rv d conds o dst add fuel els Hok Hdf Ho H.
  destruct (path_loop_init_spec rv d conds o dst add fuel els Hok Hdf Ho H) as [[E Hno] | (H1 & H2 & _)].
  - split; [intros _; exact Hno | intros _; exact E].
  - split.
    + intros E. subst els. exfalso. apply (is_path_not_nil _ _ _ H1).
    + intros Hno. exfalso. apply (Hno _ H1 H2).
Qed.

(* path_search: total, and its result *)
Theorem path_search_total : forall rv d conds o dst,
  adj_ok (gr d) -> dist_free conds = true ->
  node_id (gr d) o = true -> node_id (gr d) dst = true -> o <> dst ->
  exists r, path_search rv d conds o dst = Some r /\
    ((r = [] /\ forall q, is_path (gr d) o dst q -> ~ usable_path rv d conds q) \/
     (exists p, is_path (gr d) o dst p /\ usable_path rv d conds p /\
                r = filter (esel rv d conds) p /\
                forall q, is_path (gr d) o dst q -> usable_path rv d conds q ->
                          cost rv d conds p <= cost rv d conds q)).
Proof.
  intros rv d conds o dst Hok Hdf Ho Hd Hne.
  destruct (path_search rv d conds o dst) as [r|] eqn:E.
  - exists r. split; [reflexivity|]. apply path_search_spec; assumption.
  - exfalso. apply (path_search_no_fuel rv d conds dst Hok o E).
Qed.

Lemma path_search_degenerate : forall rv d conds o dst,
  o = dst \/ is_node (gr d) o = false \/ is_node (gr d) dst = false ->
  path_search rv d conds o dst = Some [].
Proof.
  intros rv d conds o dst H. unfold path_search.
  destruct (negb (o =? dst) && is_node (gr d) o && is_node (gr d) dst) eqn:E; [|reflexivity].
  apply andb_prop in E. destruct E as [E E3]. apply andb_prop in E. destruct E as [E1 E2].
  destruct H as [H|[H|H]]; [lia | congruence | congruence].
Qed.

(* a non-empty result: the selected elements of a minimum-cost usable path *)
Theorem path_search_sound : forall rv d conds o dst r,
  adj_ok (gr d) -> dist_free conds = true -> 0 < o -> 0 < dst ->
  path_search rv d conds o dst = Some r -> r <> [] ->
  exists p, is_path (gr d) o dst p /\ usable_path rv d conds p /\
            r = filter (esel rv d conds) p /\
            forall q, is_path (gr d) o dst q -> usable_path rv d conds q ->
                      cost rv d conds p <= cost rv d conds q.
Proof.
  intros rv d conds o dst r Hok Hdf Hopos Hdpos H Hne.
  destruct (Z.eq_dec o dst) as [E|Hod].
  { rewrite path_search_degenerate in H by (left; exact E). injection H as H. congruence. }
  destruct (is_node (gr d) o) eqn:Eo.
  2:{ rewrite path_search_degenerate in H by (right; left; exact Eo). injection H as H. congruence. }
  destruct (is_node (gr d) dst) eqn:Ed.
  2:{ rewrite path_search_degenerate in H by (right; right; exact Ed). injection H as H. congruence. }
  rewrite <- node_id_pos in Eo, Ed by assumption.
  destruct (path_search_spec rv d conds o dst r Hok Hdf Eo Ed Hod H) as [[E _] | Hp]; [contradiction | exact Hp].
Qed.

(* no conditions: every element costs 1 and is selected *)
Lemma ecost_nil : forall rv d x, ecost rv d [] x = 1.
Proof. reflexivity. Qed.
Lemma esel_nil : forall rv d x, esel rv d [] x = true.
Proof. reflexivity. Qed.

Lemma usable_path_nil : forall rv d p, usable_path rv d [] p.
Proof.
  intros. unfold usable_path. apply Forall_forall. intros x _. rewrite ecost_nil. lia.
Qed.

Lemma filter_esel_nil : forall rv d p, filter (esel rv d []) p = p.
Proof.
  intros rv d p. induction p as [|x p IH]; [reflexivity|]. cbn [filter]. rewrite esel_nil, IH. reflexivity.
Qed.

Lemma cost_nil : forall rv d p, cost rv d [] p = Z.of_nat (length (tl p)).
Proof.
  intros rv d p. unfold cost. induction (tl p) as [|x l IH]; [reflexivity|].
  cbn [map fold_right length]. rewrite IH, ecost_nil. lia.
Qed.

Theorem path_search_nil_empty_iff : forall rv d o dst,
  adj_ok (gr d) -> 0 < o -> 0 < dst ->
  (path_search rv d [] o dst = Some [] <->
   o = dst \/ node_id (gr d) o = false \/ node_id (gr d) dst = false \/
   forall q, ~ is_path (gr d) o dst q).
Proof.
  intros rv d o dst Hok Hopos Hdpos. rewrite !node_id_pos by assumption. split.
  - intros H. destruct (Z.eq_dec o dst) as [E|Hod]; [left; exact E|]. right.
    destruct (is_node (gr d) o) eqn:Eo; [|left; reflexivity]. right.
    destruct (is_node (gr d) dst) eqn:Ed; [|left; reflexivity]. right.
    rewrite <- node_id_pos in Eo, Ed by assumption.
    destruct (path_search_spec rv d [] o dst [] Hok eq_refl Eo Ed Hod H) as [[_ Hno] | (p & H1 & _ & H3 & _)].
    + intros q Hq. apply (Hno q Hq). apply usable_path_nil.
    + exfalso. rewrite filter_esel_nil in H3. subst p. apply (is_path_not_nil _ _ _ H1).
  - intros [E|[E|[E|Hno]]]; try (apply path_search_degenerate; tauto).
    destruct (Z.eq_dec o dst) as [E|Hod]; [apply path_search_degenerate; tauto|].
    destruct (is_node (gr d) o) eqn:Eo; [|apply path_search_degenerate; tauto].
    destruct (is_node (gr d) dst) eqn:Ed; [|apply path_search_degenerate; tauto].
    rewrite <- node_id_pos in Eo, Ed by assumption.
    destruct (path_search_total rv d [] o dst Hok eq_refl Eo Ed Hod) as (r & Hr & [[E _] | (p & H1 & _)]).
    + rewrite Hr, E. reflexivity.
    + exfalso. apply (Hno p H1).
Qed.

(* no conditions: the result is a whole path with the fewest elements *)
Theorem path_search_nil_shortest : forall rv d o dst r,
  adj_ok (gr d) -> 0 < o -> 0 < dst ->
  path_search rv d [] o dst = Some r -> r <> [] ->
  is_path (gr d) o dst r /\ forall q, is_path (gr d) o dst q -> (length r <= length q)%nat.
Proof.
  intros rv d o dst r Hok Hopos Hdpos H Hne.
  destruct (path_search_sound rv d [] o dst r Hok eq_refl Hopos Hdpos H Hne) as (p & H1 & _ & H3 & H4).
  rewrite filter_esel_nil in H3. subst p. split; [exact H1|].
  intros q Hq. specialize (H4 q Hq (usable_path_nil rv d q)). rewrite !cost_nil in H4.
  destruct (is_path_nonempty _ _ _ _ H1) as [t1 E1]. destruct (is_path_nonempty _ _ _ _ Hq) as [t2 E2].
  subst r q. cbn [tl length] in *. lia.
Qed.

(* ====================================================================== *)
(* 7b. is_path read from the front: an executable checker                   *)
(* ====================================================================== *)

(* l = [e1; n1; ...; ek; nk] continues a walk standing at node u and ends at w *)
Fixpoint walkb (g : graph) (u : Z) (l : list Z) (w : Z) : bool :=
  match l with
  | [] => u =? w
  | e :: v :: r => edge_id g e && (edge_from g e =? u) && (edge_to g e =? v) && walkb g v r w
  | _ => false
  end.

Definition is_pathb (g : graph) (o w : Z) (p : list Z) : bool :=
  match p with
  | [] => false
  | x :: l => (x =? o) && node_id g o && walkb g o l w
  end.

Lemma walkb_snoc : forall g n l u x e, (length l <= n)%nat ->
  walkb g u l x = true -> edge_id g e = true -> edge_from g e = x ->
  walkb g u (l ++ [e; edge_to g e]) (edge_to g e) = true.
Proof.
  intros g n. induction n as [|n IH]; intros l u x e Hlen H He Hf.
  - destruct l; [|cbn [length] in Hlen; lia]. cbn [walkb app] in *. rewrite He. lia.
  - destruct l as [|e' [|v' r]]; [| discriminate H |].
    + cbn [walkb app] in *. rewrite He. lia.
    + cbn [walkb app] in *. apply andb_prop in H. destruct H as [H1 H2]. rewrite H1. cbn [andb].
      apply (IH r v' x e); [cbn [length] in Hlen; lia | exact H2 | exact He | exact Hf].
Qed.

Lemma is_path_cons : forall g u e v w p, node_id g u = true -> edge_id g e = true ->
  edge_from g e = u -> edge_to g e = v -> is_path g v w p -> is_path g u w (u :: e :: p).
Proof.
  intros g u e v w p Hu He Hf Ht H. induction H as [Hv | x p e' H IH He' Hf'].
  - subst v. exact (path_snoc g u u [u] e (path_origin g u Hu) He Hf).
  - exact (path_snoc g u x (u :: e :: p) e' IH He' Hf').
Qed.

Lemma walkb_is_path : forall g, adj_ok g -> forall n l u w, (length l <= n)%nat -> node_id g u = true ->
  walkb g u l w = true -> is_path g u w (u :: l).
Proof.
  intros g Hok n. induction n as [|n IH]; intros l u w Hlen Hu H.
  - destruct l; [|cbn [length] in Hlen; lia]. cbn [walkb] in H.
    assert (E : u = w) by lia. subst w. apply path_origin. exact Hu.
  - destruct l as [|e [|v r]]; [| discriminate H |].
    + cbn [walkb] in H. assert (E : u = w) by lia. subst w. apply path_origin. exact Hu.
    + cbn [walkb] in H. apply andb_prop in H. destruct H as [H H4].
      apply andb_prop in H. destruct H as [H H3]. apply andb_prop in H. destruct H as [H1 H2].
      assert (Hv : node_id g v = true).
      { replace v with (edge_to g e) by lia. apply (ao_to_node g Hok e H1). }
      apply (is_path_cons g u e v w (v :: r) Hu H1); [lia | lia |].
      apply (IH r v w); [cbn [length] in Hlen; lia | exact Hv | exact H4].
Qed.

Theorem is_pathb_spec : forall g o w p, adj_ok g -> (is_pathb g o w p = true <-> is_path g o w p).
Proof.
  intros g o w p Hok. split.
  - intros H. destruct p as [|x l]; [discriminate H|]. cbn [is_pathb] in H.
    apply andb_prop in H. destruct H as [H H3]. apply andb_prop in H. destruct H as [H1 H2].
    assert (E : x = o) by lia. subst x. apply (walkb_is_path g Hok (length l) l o w (le_n _) H2 H3).
  - intros H. induction H as [Ho | u p e H IH He Hf].
    + cbn [is_pathb walkb]. rewrite Ho. lia.
    + destruct p as [|x l]; [discriminate IH|]. cbn [is_pathb app] in *.
      apply andb_prop in IH. destruct IH as [IH H3]. rewrite IH. cbn [andb].
      apply (walkb_snoc g (length l) l o u e (le_n _) H3 He Hf).
Qed.

(* ====================================================================== *)
(* 8. non-vacuity                                                           *)
(* ====================================================================== *)

Definition dbg : db := with_gr db_new example_graph.

(* 1 -> 2 -> 5 (edges -6, -7) and 1 -> 3 -> 4 -> 5 (edges -8, -9, -10) *)
Definition graph5 : graph :=
  let g := ins_node (ins_node (ins_node (ins_node (ins_node graph_new)))) in
  ins_edge (ins_edge (ins_edge (ins_edge (ins_edge g 1 2) 2 5) 1 3) 3 4) 4 5.
Definition db5 : db := with_gr db_new graph5.
(* everything except node 2 and the edges -6, -7 passes *)
Definition conds5 : list cond := [Cond LAnd MNot (CIds [QId 2; QId (-6); QId (-7)])].

Lemma graph5_adj_ok : adj_ok (gr db5).
Proof. apply adj_okb_sound. vm_compute. reflexivity. Qed.

Example ex_plain :
  adj_ok (gr dbg) /\ path_search rv_fixed dbg [] 1 3 = Some [1; -5; 3] /\
  is_path (gr dbg) 1 3 [1; -5; 3].
Proof.
  split; [exact example_graph_adj_ok|]. split; [vm_compute; reflexivity|].
  exact (path_snoc (gr dbg) 1 1 [1] (-5) (path_origin (gr dbg) 1 eq_refl) eq_refl eq_refl).
Qed.

(* the cheapest path is not the one with the fewest hops: 1 -6 2 -7 5 costs 2+2+2+1 = 7,
   1 -8 3 -9 4 -10 5 costs 6 *)
Example ex_cost_vs_hops :
  adj_ok (gr db5) /\ dist_free conds5 = true /\
  path_search rv_fixed db5 [] 1 5 = Some [1; -6; 2; -7; 5] /\
  path_search rv_fixed db5 conds5 1 5 = Some [1; -8; 3; -9; 4; -10; 5] /\
  is_pathb (gr db5) 1 5 [1; -6; 2; -7; 5] = true /\
  is_pathb (gr db5) 1 5 [1; -8; 3; -9; 4; -10; 5] = true /\
  cost rv_fixed db5 conds5 [1; -6; 2; -7; 5] = 7 /\
  cost rv_fixed db5 conds5 [1; -8; 3; -9; 4; -10; 5] = 6.
Proof. split; [exact graph5_adj_ok|]. vm_compute. repeat split. Qed.

(* an element at which the conditions stop the search cannot be used: edge -5 (1->3) *)
Example ex_stop :
  dist_free [Cond LAnd MNotBeyond (CIds [QId (-5)])] = true /\
  ecost rv_fixed dbg [Cond LAnd MNotBeyond (CIds [QId (-5)])] (-5) = 0 /\
  path_search rv_fixed dbg [Cond LAnd MNotBeyond (CIds [QId (-5)])] 1 3 = Some [1; -4; 2; -6; 3] /\
  path_search rv_fixed dbg [Cond LAnd MNotBeyond (CIds [QId (-5); QId 2])] 1 3 = Some [].
Proof. vm_compute. repeat split. Qed.

(* the final result can be empty although a usable path is found: no element of the cheapest
   path 1 -5 3 (cost 4; the alternative 1 -4 2 -6 3 costs 6) passes the conditions *)
Example ex_nothing_selected :
  let cs := [Cond LAnd MNone (CIds [QId 2; QId (-6)])] in
  dist_free cs = true /\
  path_loop rv_fixed dbg cs 3 (path_fuel (gr dbg)) [init 1 (esel rv_fixed dbg cs 1)] [] =
    Some [(1, false); (-5, false); (3, false)] /\
  path_search rv_fixed dbg cs 1 3 = Some [].
Proof. vm_compute. repeat split. Qed.

(* Why dist_free: with a distance condition the cost of an element depends on the path it is
   reached by, and settling a node through its cheapest path can lose the only usable
   continuation.  graph6: 1 -(-7)-> 2 -(-8)-> 3, 1 -(-9)-> 4 -(-10)-> 5 -(-11)-> 3, 3 -(-12)-> 6.
   Conditions: distance < 7 (an element met at a larger "distance" stops the search) and
   "not one of 2, -7, -8".  Node 3 is settled through the 3-hop path (cost 6 < 7); from there the
   edge -12 gets distance 8 and is refused.  Through the 2-hop path every element of
   1 -7 2 -8 3 -12 6 has a non-zero cost at the distance the search gives it (2 2 2 1 1 1),
   yet the result is empty; without the id condition that very path is returned. *)
Definition graph6 : graph :=
  let g := ins_node (ins_node (ins_node (ins_node (ins_node (ins_node graph_new))))) in
  ins_edge (ins_edge (ins_edge (ins_edge (ins_edge (ins_edge g 1 2) 2 3) 1 4) 4 5) 5 3) 3 6.
Definition db6 : db := with_gr db_new graph6.
Definition conds6 : list cond :=
  [Cond LAnd MNone (CDistance (KLessThan 7)); Cond LAnd MNot (CIds [QId 2; QId (-7); QId (-8)])].

Example ex_distance_dependent :
  adj_ok (gr db6) /\ dist_free conds6 = false /\
  path_search rv_fixed db6 conds6 1 6 = Some [] /\
  is_pathb (gr db6) 1 6 [1; -7; 2; -8; 3; -12; 6] = true /\
  map fst [path_cost rv_fixed db6 conds6 (-7) 2; path_cost rv_fixed db6 conds6 2 2;
           path_cost rv_fixed db6 conds6 (-8) 4; path_cost rv_fixed db6 conds6 3 4;
           path_cost rv_fixed db6 conds6 (-12) 6; path_cost rv_fixed db6 conds6 6 6] = [2; 2; 2; 1; 1; 1] /\
  path_search rv_fixed db6 [Cond LAnd MNone (CDistance (KLessThan 7))] 1 6 = Some [1; -7; 2; -8; 3; -12; 6].
Proof. split; [apply adj_okb_sound; vm_compute; reflexivity|]. vm_compute. repeat split. Qed.

(* degenerate searches *)
Example ex_degenerate :
  path_search rv_fixed dbg [] 1 1 = Some [] /\ path_search rv_fixed dbg [] 1 9 = Some [] /\
  path_search rv_fixed dbg [] 9 1 = Some [].
Proof. vm_compute. repeat split. Qed.
(* END-8 *)
