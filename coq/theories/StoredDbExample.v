(* StoredDbExample.v — non-vacuity of `stored_db`, second part (the first part, StoredDbExampleBase.v, creates the
   database on the model of storage.rs, reads off its record store and proves `stored_db` of it): the example assembled —
   the database is what three queries produce from the empty database, `load_db` returns it, maintenance of the storage
   model and the memory-like storage leave the same record store — and the alias tables under C19's invariant. *)
From Coq Require Import Permutation.
From Agdb Require Import Bytes BytesProofs Utf8 Codec DbValue ValueIndex Graph DbModel Records RecordsProofs Storage StorageSpec
  StorageLayout StorageWp StorageRefine StorageProofs Collections CollValues CollWp CollBytes CollVecBase CollVecOps CollVec
  CollVec2 CollElems CollSep CollMap CollMapHist CollGraph CollValuesProofs StoredDb StoredDbRep StoredDbRun StoredDbLoad StoredDbProofs
  Search Queries Revisions OpenMap OpenMapProofs OpenMapRefineBase OpenMapRefineStep StoredDbProbe.
From Agdb Require Export StoredDbExampleBase.
From Coq Require Import ZifyBool ZifyNat ZifyN.
Open Scope N_scope.

(* ---------------- the alias tables of the example satisfy C19's invariant (for hashes that send "root" to slot 1 and
   id 1 to slot 0, minimum capacity 2): the code's probing lookups return the model's lookups ---------------- *)
Lemma sx_probe :
  (forall a, value bytes Z bytes_eqb (fun _ => 1) (ct_omap bytes Z sx_t1) a = Done (imap_value (aliases sx_db) a)) /\
  (forall i, value Z bytes Z.eqb (fun _ => 0) (ct_omap Z bytes sx_t2) i = Done (imap_key (aliases sx_db) i)).
Proof.
  apply (sd_alias_lookups_by_probing (fun _ => 1) (fun _ => 0) 2 om_fixed sx_g 1 sx_db sx_wit eq_refl sx_stored).
  - split; [split; [reflexivity|right; cbn; lia]|].
    intros i k v Hi Hn j Hj Hd. cbn in Hi, Hj. destruct i as [|[|i]]; [discriminate Hn| |lia].
    vm_compute in Hd. destruct j as [|[|j]]; vm_compute in Hd; lia.
  - split; [split; [reflexivity|right; cbn; lia]|].
    intros i k v Hi Hn j Hj Hd. cbn in Hi, Hj. destruct i as [|[|i]]; [|discriminate Hn|lia].
    destruct j as [|[|j]]; vm_compute in Hd; lia.
Qed.

(* ---------------- the example, assembled ---------------- *)
(* the database is the one three queries produce from the empty database (model of the query layer) *)
Definition sx_queries : list query :=
  [InsertIndex sx_key;
   InsertNodes 2 (Multi [[(sx_key, DI64 7); (sx_name, sx_long)]; []]) [sx_alias] (Ids []);
   InsertEdges (Ids [QId 1%Z]) (Ids [QId 2%Z]) (Single [(DU64 1, DVecI64 [1; 2]%Z)]) false (Ids [])].

Lemma sx_db_is : fold_left (fun d q => fst (exec rv_fixed d q)) sx_queries db_new = sx_db.
Proof. vm_compute. reflexivity. Qed.

Definition sx_after (o : sop) : vmap := live_values cdata ops_file (fst (st_step cdata ops_file (fst sx_run) o)).
Definition sx_store_mem : vmap := live_values cdata ops_mem (fst (cp_run (st_step cdata ops_mem) sx_build s_init)).

Theorem sx_sample :
  snd sx_run = CrOk 1 /\
  live_values cdata ops_file (fst sx_run) = sx_store /\
  stored_db (m_get sx_store) 1 sx_db /\
  load_db sx_store 1 = Some sx_db /\
  (* optimize / drop+open / backup+open of the storage model: the record store, hence the loaded database, is the same *)
  sx_after SOptimize = sx_store /\ sx_after SReopen = sx_store /\ sx_after SReopenCopy = sx_store /\
  (* the memory-like storage: the same record store *)
  sx_store_mem = sx_store.
Proof.
  split; [vm_compute; reflexivity|]. split; [vm_compute; reflexivity|].
  split; [exists sx_wit; exact sx_stored|]. split; [vm_compute; reflexivity|].
  split; [vm_compute; reflexivity|]. split; [vm_compute; reflexivity|]. split; vm_compute; reflexivity.
Qed.
