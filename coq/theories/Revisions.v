(* Revisions.v — the two named revisions of the database model: the code of /repo after all
   fix: commits (every flag on) and the originally pinned code (every flag off). *)
From Agdb Require Import DbModel.

Definition rv_fixed : revision :=
  {| fix_rollback_replace := true; fix_alias_steal_undo := true; fix_alias_nodes_only := true;
     fix_strict_order := true; fix_slice_clamp := true; fix_edge_origin := true;
     fix_visited_chain := true; fix_nodes_ids_alias := true |}.

Definition rv_pinned : revision :=
  {| fix_rollback_replace := false; fix_alias_steal_undo := false; fix_alias_nodes_only := false;
     fix_strict_order := false; fix_slice_clamp := false; fix_edge_origin := false;
     fix_visited_chain := false; fix_nodes_ids_alias := false |}.
