(* Revisions.v — the two revisions of the modelled code that the theorems talk about:
   rv_fixed  = /repo with all the fix: commits (every flag on),
   rv_pinned = the pinned tree before them (every flag off). *)
From Agdb Require Import DbModel.

Definition rv_fixed : revision :=
  {| fix_rollback_replace := true; fix_alias_steal_undo := true; fix_alias_nodes_only := true;
     fix_strict_order := true; fix_slice_clamp := true; fix_edge_origin := true;
     fix_visited_chain := true; fix_nodes_ids_alias := true; fix_empty_alias := true |}.

Definition rv_pinned : revision :=
  {| fix_rollback_replace := false; fix_alias_steal_undo := false; fix_alias_nodes_only := false;
     fix_strict_order := false; fix_slice_clamp := false; fix_edge_origin := false;
     fix_visited_chain := false; fix_nodes_ids_alias := false; fix_empty_alias := false |}.
