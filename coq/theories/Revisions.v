(* Revisions.v — the two revisions of the modelled code that the theorems talk about:
   rv_fixed  = /repo with all eight fix: commits (every flag on),
   rv_pinned = the originally pinned tree (every flag off).  Definitions only. *)
From Agdb Require Import Bytes DbValue Graph DbModel.

Definition rv_fixed : revision :=
  {| fix_rollback_replace := true; fix_alias_steal_undo := true; fix_alias_nodes_only := true;
     fix_strict_order := true; fix_slice_clamp := true; fix_edge_origin := true; fix_visited_chain := true; fix_nodes_ids_alias := true |}.

Definition rv_pinned : revision :=
  {| fix_rollback_replace := false; fix_alias_steal_undo := false; fix_alias_nodes_only := false;
     fix_strict_order := false; fix_slice_clamp := false; fix_edge_origin := false; fix_visited_chain := false; fix_nodes_ids_alias := false |}.
