(* AdjOk.v — the hypotheses about the slot graph (Graph.v) that the search proofs (C14, C17)
   need, as one explicit predicate `adj_ok`, a boolean checker `adj_okb` with its soundness
   lemma (so concrete graphs are discharged by vm_compute), the derived facts about the
   adjacency chains, and a non-vacuity example.

   `adj_ok g` is meant to be discharged from the well-formedness invariant `wf` of
   GraphProofs.v:  for every existing node n
     - the out-list / in-list chain starting at first_edge_from / first_edge_to and following
       next_edge_from / next_edge_to reaches 0 before the fuel `length (g_from g)` runs out,
     - it has no duplicates and enumerates exactly the existing edges e with
       edge_from g e = n  (resp. edge_to g e = n),
   and the endpoints of every existing edge are existing nodes.
   (That ids of existing elements are non-zero with magnitude < capacity is part of
   `valid_index`, hence of `node_id` / `edge_id`.) *)
From Agdb Require Import Bytes DbValue Graph.
From Coq Require Import ZifyBool ZifyNat ZifyN.
Ltac Zify.zify_post_hook ::= Z.div_mod_to_equations.
Open Scope Z_scope.

(* existing node / edge ids (DbImpl::graph_index: the sign selects the check) *)
Definition node_id (g : graph) (n : Z) : bool := (0 <? n) && is_node g n.
Definition edge_id (g : graph) (e : Z) : bool := (e <? 0) && is_edge g e.
Definition elem_id (g : graph) (x : Z) : bool := node_id g x || edge_id g x.

Lemma graph_index_elem_id : forall g x, graph_index g x = elem_id g x.
Proof.
  intros g x. unfold graph_index, elem_id, node_id, edge_id.
  destruct (x <? 0) eqn:E1; destruct (0 <? x) eqn:E2; cbn [andb orb];
    rewrite ?orb_false_r; try reflexivity; lia.
Qed.

(* the chain starting at e reaches 0 within the fuel *)
Fixpoint chain_ends (next : Z -> Z) (fuel : nat) (e : Z) : bool :=
  match fuel with
  | O => false
  | S f => if e =? 0 then true else chain_ends next f (next e)
  end.

Record adj_ok (g : graph) : Prop := {
  ao_out_ends : forall n, node_id g n = true ->
      chain_ends (next_edge_from g) (length (g_from g)) (first_edge_from g n) = true;
  ao_in_ends : forall n, node_id g n = true ->
      chain_ends (next_edge_to g) (length (g_from g)) (first_edge_to g n) = true;
  ao_out_nodup : forall n, node_id g n = true -> NoDup (out_edges g n);
  ao_in_nodup : forall n, node_id g n = true -> NoDup (in_edges g n);
  ao_out_spec : forall n e, node_id g n = true ->
      (In e (out_edges g n) <-> edge_id g e = true /\ edge_from g e = n);
  ao_in_spec : forall n e, node_id g n = true ->
      (In e (in_edges g n) <-> edge_id g e = true /\ edge_to g e = n);
  ao_from_node : forall e, edge_id g e = true -> node_id g (edge_from g e) = true;
  ao_to_node : forall e, edge_id g e = true -> node_id g (edge_to g e) = true
}.

(* ---------- boolean checker ---------- *)

Fixpoint nodupb (l : list Z) : bool :=
  match l with
  | [] => true
  | x :: r => negb (existsb (Z.eqb x) r) && nodupb r
  end.

Definition adj_okb (g : graph) : bool :=
  let cap := length (g_from g) in
  forallb (fun x =>
    if 0 <? x then
      chain_ends (next_edge_from g) cap (first_edge_from g x)
      && chain_ends (next_edge_to g) cap (first_edge_to g x)
      && nodupb (out_edges g x) && nodupb (in_edges g x)
      && forallb (fun e => edge_id g e && (edge_from g e =? x)) (out_edges g x)
      && forallb (fun e => edge_id g e && (edge_to g e =? x)) (in_edges g x)
    else
      node_id g (edge_from g x) && node_id g (edge_to g x)
      && existsb (Z.eqb x) (out_edges g (edge_from g x))
      && existsb (Z.eqb x) (in_edges g (edge_to g x))) (elements g).

Lemma existsb_eqb_In : forall x l, existsb (Z.eqb x) l = true <-> In x l.
Proof.
  intros x l. rewrite existsb_exists. split.
  - intros [y [Hy E]]. apply Z.eqb_eq in E. subst. exact Hy.
  - intros H. exists x. split; [exact H | apply Z.eqb_refl].
Qed.

Lemma nodupb_NoDup : forall l, nodupb l = true -> NoDup l.
Proof.
  induction l as [|x r IH]; cbn [nodupb]; intros H.
  - constructor.
  - apply andb_prop in H. destruct H as [H1 H2]. constructor.
    + intros Hin. apply existsb_eqb_In in Hin. rewrite Hin in H1. discriminate.
    + apply IH. exact H2.
Qed.

Lemma zabs_nat_opp : forall i, zabs_nat (- i) = zabs_nat i.
Proof. intros. unfold zabs_nat. rewrite Z.abs_opp. reflexivity. Qed.

Lemma get_opp : forall l i, get l (- i) = get l i.
Proof. intros. unfold get. rewrite zabs_nat_opp. reflexivity. Qed.

Lemma valid_index_opp : forall g i, valid_index g (- i) = valid_index g i.
Proof.
  intros. unfold valid_index, fmeta. rewrite get_opp, Z.abs_opp.
  replace (- i =? 0) with (i =? 0) by lia. reflexivity.
Qed.

Lemma node_id_bounds : forall g n, node_id g n = true ->
  0 < n /\ n < capacity g /\ 0 <= fmeta g n /\ 0 <= from g n.
Proof.
  intros g n H. unfold node_id, is_node, valid_index in H.
  repeat (apply andb_prop in H; destruct H as [H ?]). lia.
Qed.

Lemma edge_id_bounds : forall g e, edge_id g e = true ->
  e < 0 /\ - e < capacity g /\ 0 <= fmeta g e /\ from g e < 0.
Proof.
  intros g e H. unfold edge_id, is_edge, valid_index in H.
  repeat (apply andb_prop in H; destruct H as [H ?]). lia.
Qed.

Lemma node_edge_disjoint : forall g x, node_id g x = true -> edge_id g x = true -> False.
Proof.
  intros g x Hn He. apply node_id_bounds in Hn. apply edge_id_bounds in He. lia.
Qed.

(* distinct existing elements occupy distinct slots *)
Lemma elem_id_abs_inj : forall g x y, elem_id g x = true -> elem_id g y = true -> Z.abs x = Z.abs y -> x = y.
Proof.
  intros g x y Hx Hy Habs. unfold elem_id in *.
  apply orb_prop in Hx. apply orb_prop in Hy.
  destruct Hx as [Hx|Hx]; destruct Hy as [Hy|Hy].
  - apply node_id_bounds in Hx. apply node_id_bounds in Hy. lia.
  - exfalso. apply node_id_bounds in Hx. apply edge_id_bounds in Hy.
    assert (E : y = - x) by lia. subst y. unfold from in *. rewrite get_opp in Hy. lia.
  - exfalso. apply edge_id_bounds in Hx. apply node_id_bounds in Hy.
    assert (E : x = - y) by lia. subst x. unfold from in *. rewrite get_opp in Hx. lia.
  - apply edge_id_bounds in Hx. apply edge_id_bounds in Hy. lia.
Qed.

Lemma elem_id_slot : forall g x, elem_id g x = true -> (1 <= Z.to_nat (Z.abs x) < length (g_from g))%nat.
Proof.
  intros g x H. unfold elem_id in H. apply orb_prop in H. destruct H as [H|H].
  - apply node_id_bounds in H. unfold capacity in H. lia.
  - apply edge_id_bounds in H. unfold capacity in H. lia.
Qed.

Lemma node_id_in_elements : forall g n, node_id g n = true -> In n (elements g).
Proof.
  intros g n H. pose proof (node_id_bounds g n H) as (H1 & H2 & H3 & H4).
  unfold elements. apply in_flat_map. exists (Z.to_nat n). split.
  - apply in_seq. unfold capacity in H2. lia.
  - unfold element_at. rewrite Z2Nat.id by lia.
    destruct (fmeta g n <? 0) eqn:E1; [lia|].
    destruct (from g n <? 0) eqn:E2; [lia|]. left. reflexivity.
Qed.

Lemma edge_id_in_elements : forall g e, edge_id g e = true -> In e (elements g).
Proof.
  intros g e H. pose proof (edge_id_bounds g e H) as (H1 & H2 & H3 & H4).
  unfold elements. apply in_flat_map. exists (Z.to_nat (- e)). split.
  - apply in_seq. unfold capacity in H2. lia.
  - unfold element_at. rewrite Z2Nat.id by lia.
    unfold fmeta, from in *. rewrite !get_opp.
    destruct (get (g_fmeta g) e <? 0) eqn:E1; [lia|].
    destruct (get (g_from g) e <? 0) eqn:E2; [|lia]. left. lia.
Qed.

Lemma adj_okb_sound : forall g, adj_okb g = true -> adj_ok g.
Proof.
  intros g H. unfold adj_okb in H. rewrite forallb_forall in H.
  assert (HN : forall n, node_id g n = true ->
      chain_ends (next_edge_from g) (length (g_from g)) (first_edge_from g n) = true
      /\ chain_ends (next_edge_to g) (length (g_from g)) (first_edge_to g n) = true
      /\ nodupb (out_edges g n) = true /\ nodupb (in_edges g n) = true
      /\ forallb (fun e => edge_id g e && (edge_from g e =? n)) (out_edges g n) = true
      /\ forallb (fun e => edge_id g e && (edge_to g e =? n)) (in_edges g n) = true).
  { intros n Hn. specialize (H n (node_id_in_elements g n Hn)).
    pose proof (node_id_bounds g n Hn) as (H1 & _).
    destruct (0 <? n) eqn:E; [|lia].
    repeat (apply andb_prop in H; destruct H as [H ?]). repeat split; assumption. }
  assert (HE : forall e, edge_id g e = true ->
      node_id g (edge_from g e) = true /\ node_id g (edge_to g e) = true
      /\ In e (out_edges g (edge_from g e)) /\ In e (in_edges g (edge_to g e))).
  { intros e He. specialize (H e (edge_id_in_elements g e He)).
    pose proof (edge_id_bounds g e He) as (H1 & _).
    destruct (0 <? e) eqn:E; [lia|].
    apply andb_prop in H. destruct H as [H Hd]. apply andb_prop in H. destruct H as [H Hc].
    apply andb_prop in H. destruct H as [Ha Hb].
    repeat split; try assumption; apply existsb_eqb_In; assumption. }
  constructor.
  - intros n Hn. apply HN. exact Hn.
  - intros n Hn. apply HN. exact Hn.
  - intros n Hn. apply nodupb_NoDup. apply HN. exact Hn.
  - intros n Hn. apply nodupb_NoDup. apply HN. exact Hn.
  - intros n e Hn. split.
    + intros Hin. destruct (HN n Hn) as (_ & _ & _ & _ & Hf & _).
      rewrite forallb_forall in Hf. specialize (Hf e Hin).
      apply andb_prop in Hf. destruct Hf as [Hf1 Hf2]. split; [exact Hf1 | lia].
    + intros [He Hfrom]. subst n. apply HE. exact He.
  - intros n e Hn. split.
    + intros Hin. destruct (HN n Hn) as (_ & _ & _ & _ & _ & Hf).
      rewrite forallb_forall in Hf. specialize (Hf e Hin).
      apply andb_prop in Hf. destruct Hf as [Hf1 Hf2]. split; [exact Hf1 | lia].
    + intros [He Hto]. subst n. apply HE. exact He.
  - intros e He. apply HE. exact He.
  - intros e He. apply HE. exact He.
Qed.

(* ---------- chains ---------- *)

Section Chain.
  Variable next : Z -> Z.

  Lemma chain_ends_mono : forall f f' a, chain_ends next f a = true -> (f <= f')%nat ->
    chain_ends next f' a = true /\ edge_list next f' a = edge_list next f a.
  Proof.
    induction f as [|f IH]; intros f' a H Hle; cbn [chain_ends] in H; [discriminate|].
    destruct f' as [|f']; [lia|]. cbn [chain_ends edge_list].
    destruct (a =? 0) eqn:E; [split; reflexivity|].
    destruct (IH f' (next a) H ltac:(lia)) as [H1 H2]. split; [exact H1 | rewrite H2; reflexivity].
  Qed.

  Lemma edge_list_nonzero : forall f a e, In e (edge_list next f a) -> e <> 0.
  Proof.
    induction f as [|f IH]; intros a e H; cbn [edge_list] in H; [contradiction|].
    destruct (a =? 0) eqn:E; [contradiction|]. destruct H as [H|H]; [lia|]. eapply IH; eassumption.
  Qed.

  (* every suffix of an ending chain is itself the (fuel-independent) chain of its head *)
  Lemma chain_split : forall f a l1 e l2, chain_ends next f a = true ->
    edge_list next f a = l1 ++ e :: l2 ->
    forall F, (f <= F)%nat ->
      chain_ends next F e = true /\ edge_list next F e = e :: l2 /\
      chain_ends next F (next e) = true /\ edge_list next F (next e) = l2.
  Proof.
    induction f as [|f IH]; intros a l1 e l2 H Hl F HF; cbn [chain_ends] in H; [discriminate|].
    cbn [edge_list] in Hl. destruct (a =? 0) eqn:E.
    { destruct l1; discriminate. }
    destruct l1 as [|x l1]; cbn [app] in Hl.
    - injection Hl as Ha Hl. subst a.
      destruct (chain_ends_mono f F (next e) H ltac:(lia)) as [H1 H2].
      assert (H3 : chain_ends next (S f) e = true) by (cbn [chain_ends]; rewrite E; exact H).
      destruct (chain_ends_mono (S f) F e H3 HF) as [H4 H5].
      repeat split; try assumption.
      + rewrite H5. cbn [edge_list]. rewrite E, Hl. reflexivity.
      + rewrite H2. exact Hl.
    - injection Hl as Ha Hl. apply (IH (next a) l1 e l2 H Hl F). lia.
  Qed.

  Lemma chain_next_in : forall f a e, chain_ends next f a = true ->
    In e (edge_list next f a) -> next e <> 0 -> In (next e) (edge_list next f a).
  Proof.
    intros f a e H Hin Hnz. apply in_split in Hin. destruct Hin as (l1 & l2 & Hl).
    destruct (chain_split f a l1 e l2 H Hl f (le_n _)) as (_ & _ & H3 & H4).
    rewrite Hl. apply in_or_app. right. right.
    rewrite <- H4. destruct f; cbn [chain_ends] in H3; [discriminate|].
    cbn [edge_list]. destruct (next e =? 0) eqn:E; [lia|]. left. reflexivity.
  Qed.
End Chain.

(* ---------- derived adjacency facts ---------- *)

(* the rest of the sibling chain starting at (and including) edge e *)
Definition sibs_from (g : graph) (e : Z) : list Z := edge_list (next_edge_from g) (length (g_from g)) e.
Definition sibs_to (g : graph) (e : Z) : list Z := edge_list (next_edge_to g) (length (g_from g)) e.

Lemma out_edges_sibs : forall g n, out_edges g n = sibs_from g (first_edge_from g n).
Proof. reflexivity. Qed.
Lemma in_edges_sibs : forall g n, in_edges g n = sibs_to g (first_edge_to g n).
Proof. reflexivity. Qed.

Lemma sibs_from_zero : forall g, sibs_from g 0 = [].
Proof. intros. unfold sibs_from. destruct (length (g_from g)); reflexivity. Qed.
Lemma sibs_to_zero : forall g, sibs_to g 0 = [].
Proof. intros. unfold sibs_to. destruct (length (g_from g)); reflexivity. Qed.

Section Derived.
  Variable g : graph.
  Hypothesis Hok : adj_ok g.

  Lemma out_edge_edge : forall n e, node_id g n = true -> In e (out_edges g n) -> edge_id g e = true.
  Proof. intros n e Hn H. apply (ao_out_spec g Hok n e Hn) in H. tauto. Qed.
  Lemma in_edge_edge : forall n e, node_id g n = true -> In e (in_edges g n) -> edge_id g e = true.
  Proof. intros n e Hn H. apply (ao_in_spec g Hok n e Hn) in H. tauto. Qed.

  Lemma edge_in_out : forall e, edge_id g e = true -> In e (out_edges g (edge_from g e)).
  Proof. intros e He. apply (ao_out_spec g Hok _ e (ao_from_node g Hok e He)). tauto. Qed.
  Lemma edge_in_in : forall e, edge_id g e = true -> In e (in_edges g (edge_to g e)).
  Proof. intros e He. apply (ao_in_spec g Hok _ e (ao_to_node g Hok e He)). tauto. Qed.

  (* an existing edge's chain is a suffix of its source's out-list *)
  Lemma sibs_from_edge : forall e, edge_id g e = true ->
    exists l1, out_edges g (edge_from g e) = l1 ++ sibs_from g e /\
               sibs_from g e = e :: sibs_from g (next_edge_from g e).
  Proof.
    intros e He. pose proof (edge_in_out e He) as Hin. apply in_split in Hin.
    destruct Hin as (l1 & l2 & Hl).
    pose proof (ao_out_ends g Hok _ (ao_from_node g Hok e He)) as Hends.
    destruct (chain_split _ _ _ l1 e l2 Hends Hl _ (le_n _)) as (_ & H2 & _ & H4).
    exists l1. unfold sibs_from. rewrite H2, H4. split; [exact Hl | reflexivity].
  Qed.
  Lemma sibs_to_edge : forall e, edge_id g e = true ->
    exists l1, in_edges g (edge_to g e) = l1 ++ sibs_to g e /\
               sibs_to g e = e :: sibs_to g (next_edge_to g e).
  Proof.
    intros e He. pose proof (edge_in_in e He) as Hin. apply in_split in Hin.
    destruct Hin as (l1 & l2 & Hl).
    pose proof (ao_in_ends g Hok _ (ao_to_node g Hok e He)) as Hends.
    destruct (chain_split _ _ _ l1 e l2 Hends Hl _ (le_n _)) as (_ & H2 & _ & H4).
    exists l1. unfold sibs_to. rewrite H2, H4. split; [exact Hl | reflexivity].
  Qed.

  (* the next sibling of an existing edge is 0 or an existing edge with the same source *)
  Lemma next_from_edge : forall e, edge_id g e = true -> next_edge_from g e <> 0 ->
    edge_id g (next_edge_from g e) = true /\ edge_from g (next_edge_from g e) = edge_from g e.
  Proof.
    intros e He Hnz.
    pose proof (ao_from_node g Hok e He) as Hn.
    apply (ao_out_spec g Hok _ _ Hn).
    apply chain_next_in; [apply (ao_out_ends g Hok _ Hn) | apply edge_in_out; exact He | exact Hnz].
  Qed.
  Lemma next_to_edge : forall e, edge_id g e = true -> next_edge_to g e <> 0 ->
    edge_id g (next_edge_to g e) = true /\ edge_to g (next_edge_to g e) = edge_to g e.
  Proof.
    intros e He Hnz.
    pose proof (ao_to_node g Hok e He) as Hn.
    apply (ao_in_spec g Hok _ _ Hn).
    apply chain_next_in; [apply (ao_in_ends g Hok _ Hn) | apply edge_in_in; exact He | exact Hnz].
  Qed.

  (* the first edge of an existing node is 0 or an existing edge of that node *)
  Lemma first_from_edge : forall n, node_id g n = true -> first_edge_from g n <> 0 ->
    edge_id g (first_edge_from g n) = true /\ edge_from g (first_edge_from g n) = n.
  Proof.
    intros n Hn Hnz. apply (ao_out_spec g Hok _ _ Hn).
    pose proof (ao_out_ends g Hok n Hn) as H. unfold out_edges.
    destruct (length (g_from g)); cbn [chain_ends] in H; [discriminate|].
    cbn [edge_list]. destruct (first_edge_from g n =? 0) eqn:E; [lia|]. left. reflexivity.
  Qed.
  Lemma first_to_edge : forall n, node_id g n = true -> first_edge_to g n <> 0 ->
    edge_id g (first_edge_to g n) = true /\ edge_to g (first_edge_to g n) = n.
  Proof.
    intros n Hn Hnz. apply (ao_in_spec g Hok _ _ Hn).
    pose proof (ao_in_ends g Hok n Hn) as H. unfold in_edges.
    destruct (length (g_from g)); cbn [chain_ends] in H; [discriminate|].
    cbn [edge_list]. destruct (first_edge_to g n =? 0) eqn:E; [lia|]. left. reflexivity.
  Qed.
End Derived.

(* ---------- non-vacuity: a concrete graph built with the real operations ---------- *)

Definition ins_node (g : graph) : graph := snd (insert_node g).
Definition ins_edge (g : graph) (f t : Z) : graph :=
  match insert_edge g f t with Some (_, g') => g' | None => g end.
Definition rem_edge (g : graph) (e : Z) : graph :=
  match remove_edge g e with Some g' => g' | None => g end.
Definition rem_node (g : graph) (n : Z) : graph :=
  match remove_node g n with Some g' => g' | None => g end.

(* three nodes; parallel edges, a self-loop, a cycle; one edge removed and its slot reused *)
Definition example_graph : graph :=
  let g := ins_node (ins_node (ins_node graph_new)) in        (* nodes 1 2 3 *)
  let g := ins_edge (ins_edge (ins_edge g 1 2) 1 2) 2 3 in     (* -4: 1->2, -5: 1->2, -6: 2->3 *)
  let g := ins_edge (ins_edge g 3 1) 2 2 in                    (* -7: 3->1, -8: 2->2 *)
  let g := rem_edge g (-5) in
  ins_edge g 1 3.                                              (* reuses slot 5: -5: 1->3 *)

Example example_graph_adj_ok : adj_ok example_graph.
Proof. apply adj_okb_sound. vm_compute. reflexivity. Qed.

Example example_graph_shape :
  out_edges example_graph 1 = [-5; -4] /\ out_edges example_graph 2 = [-8; -6] /\
  in_edges example_graph 2 = [-8; -4] /\ elements example_graph = [1; 2; 3; -4; -5; -6; -7; -8].
Proof. vm_compute. repeat split. Qed.
