(* AliasProofs.v — C10 at the level of DbModel.v: insert_alias / insert_new_alias / remove_alias /
   the alias handling of remove_node_db, and the two invariants
     alias_bij   : the alias map is one-to-one,
     alias_nodes : every aliased id is a positive id of an existing node. *)
From Agdb Require Import Bytes BytesProofs DbValue Graph DbModel AssocProofs ImapProofs DbFrameProofs.
Open Scope Z_scope.

(* two indexed maps that answer every lookup alike *)
Definition imap_equiv (m m' : imap) : Prop :=
  (forall x, imap_value m x = imap_value m' x) /\ (forall y, imap_key m y = imap_key m' y).

Lemma imap_equiv_refl m : imap_equiv m m.
Proof. split; reflexivity. Qed.

Lemma imap_equiv_trans m1 m2 m3 : imap_equiv m1 m2 -> imap_equiv m2 m3 -> imap_equiv m1 m3.
Proof. intros [A B] [C D]. split; intros; [rewrite A; apply C|rewrite B; apply D]. Qed.

Lemma imap_equiv_sym m1 m2 : imap_equiv m1 m2 -> imap_equiv m2 m1.
Proof. intros [A B]. split; intros; [now rewrite A|now rewrite B]. Qed.

(* the code removes the key twice (IndexedMap::remove_key, then Map::remove): the second is a no-op *)
Lemma remove_twice_equiv m a :
  imap_equiv (imap_remove_key (imap_remove_key m a) a) (imap_remove_key m a).
Proof.
  split.
  - intros x. rewrite !imap_remove_key_value. now destruct (bytes_eqb a x).
  - intros y. rewrite (imap_remove_key_key (imap_remove_key m a)).
    rewrite imap_remove_key_value, (keqb_refl bytes_eqb bytes_eqb_eq). reflexivity.
Qed.

Definition alias_bij (d : db) : Prop := bij (aliases d).
Definition alias_nodes (d : db) : Prop :=
  forall a id, imap_value (aliases d) a = Some id -> 0 < id /\ is_node (gr d) id = true.

Lemma alias_bij_new : alias_bij db_new.
Proof. exact bij_empty. Qed.

Lemma alias_nodes_new : alias_nodes db_new.
Proof. intros a id H. discriminate. Qed.

Section AliasDb.
  Variable rv : revision.

  (* ---- insert_new_alias ---- *)
  Lemma insert_new_alias_aliases d id a :
    aliases (insert_new_alias d id a) = imap_insert (aliases d) a id.
  Proof. reflexivity. Qed.

  Lemma insert_new_alias_bij d id a : alias_bij d -> alias_bij (insert_new_alias d id a).
  Proof. apply bij_imap_insert. Qed.

  (* ---- insert_alias ---- *)
  Definition insert_alias_map (m : imap) (id : Z) (a : bytes) : imap :=
    imap_insert (match imap_key m id with
                 | Some old => imap_remove_key (imap_remove_key m old) old
                 | None => m
                 end) a id.

  Lemma insert_alias_aliases d id a :
    aliases (insert_alias rv d id a) = insert_alias_map (aliases d) id a.
  Proof.
    unfold insert_alias, insert_alias_map.
    destruct (imap_key (aliases d) id) as [old|]; cbn zeta;
      destruct (fix_alias_steal_undo rv);
      repeat match goal with |- context [match ?x with Some _ => _ | None => _ end] => destruct x end;
      reflexivity.
  Qed.

  Lemma insert_alias_map_bij m id a : bij m -> bij (insert_alias_map m id a).
  Proof.
    intros Hb. unfold insert_alias_map. apply bij_imap_insert.
    destruct (imap_key m id); [|exact Hb]. now do 2 apply bij_imap_remove_key.
  Qed.

  (* on lookups insert_alias is exactly IndexedMap::insert *)
  Lemma insert_alias_map_equiv m id a :
    bij m -> imap_equiv (insert_alias_map m id a) (imap_insert m a id).
  Proof.
    intros Hb. unfold insert_alias_map.
    destruct (imap_key m id) as [old|] eqn:Eold; [|apply imap_equiv_refl].
    pose proof (proj2 (bij_value_key m old id Hb) Eold) as Hvold.
    assert (Hb1 : bij (imap_remove_key (imap_remove_key m old) old)) by now do 2 apply bij_imap_remove_key.
    destruct (remove_twice_equiv m old) as [Hv2 Hk2].
    split.
    - intros x. rewrite (imap_insert_value _ a id x Hb1), (imap_insert_value m a id x Hb).
      destruct (bytes_eqb a x); [reflexivity|].
      rewrite Hk2, imap_remove_key_key, Hvold, Z.eqb_refl, Eold.
      rewrite Hv2, imap_remove_key_value. reflexivity.
    - intros y. rewrite !imap_insert_key.
      destruct (Z.eqb_spec id y) as [->|Hiy]; [reflexivity|].
      rewrite Hv2, Hk2, imap_remove_key_value, imap_remove_key_key, Hvold.
      rewrite (proj2 (Z.eqb_neq id y) Hiy).
      destruct (keqb_spec bytes_eqb bytes_eqb_eq old a) as [->|Hoa].
      + rewrite Hvold, (proj2 (Z.eqb_neq id y) Hiy). reflexivity.
      + reflexivity.
  Qed.

  Lemma insert_alias_bij d id a : alias_bij d -> alias_bij (insert_alias rv d id a).
  Proof. unfold alias_bij. rewrite insert_alias_aliases. apply insert_alias_map_bij. Qed.

  Lemma insert_alias_equiv d id a :
    alias_bij d -> imap_equiv (aliases (insert_alias rv d id a)) (imap_insert (aliases d) a id).
  Proof. intros Hb. rewrite insert_alias_aliases. now apply insert_alias_map_equiv. Qed.

  (* the mapping after an insert (IndexedMap::insert semantics under the invariant) *)
  Lemma imap_insert_value_some m a id x y :
    bij m -> imap_value (imap_insert m a id) x = Some y ->
    (x = a /\ y = id) \/ (x <> a /\ y <> id /\ imap_value m x = Some y).
  Proof.
    intros Hb. rewrite (imap_insert_value m a id x Hb).
    destruct (keqb_spec bytes_eqb bytes_eqb_eq a x) as [->|Hax].
    - intros H. inversion H. now left.
    - intros H. right. split; [congruence|].
      destruct (imap_key m id) as [k|] eqn:Ek.
      + destruct (keqb_spec bytes_eqb bytes_eqb_eq k x) as [->|Hkx]; [discriminate|].
        split; [|exact H]. intros ->. apply (bij_value_key m x id Hb) in H. congruence.
      + split; [|exact H]. intros ->. apply (bij_value_key m x id Hb) in H. congruence.
  Qed.

  Lemma insert_new_alias_nodes d id a :
    alias_bij d -> alias_nodes d -> 0 < id -> is_node (gr d) id = true ->
    alias_nodes (insert_new_alias d id a).
  Proof.
    intros Hb Hn Hpos Hnode x y H.
    change (gr (insert_new_alias d id a)) with (gr d).
    rewrite insert_new_alias_aliases in H.
    apply (imap_insert_value_some _ _ _ _ _ Hb) in H.
    destruct H as [[-> ->]|(_ & _ & H)]; [tauto|now apply (Hn x)].
  Qed.

  Lemma insert_alias_nodes d id a :
    alias_bij d -> alias_nodes d -> 0 < id -> is_node (gr d) id = true ->
    alias_nodes (insert_alias rv d id a).
  Proof.
    intros Hb Hn Hpos Hnode x y H.
    destruct (insert_alias_gvi rv d id a) as (Hg & _). rewrite Hg.
    rewrite (proj1 (insert_alias_equiv d id a Hb)) in H.
    apply (imap_insert_value_some _ _ _ _ _ Hb) in H.
    destruct H as [[-> ->]|(_ & _ & H)]; [tauto|now apply (Hn x)].
  Qed.

  (* ---- remove_alias ---- *)
  Lemma remove_alias_equiv d a :
    imap_equiv (aliases (snd (remove_alias d a))) (imap_remove_key (aliases d) a).
  Proof.
    unfold remove_alias. destruct (imap_value (aliases d) a) as [id|] eqn:E; cbn [snd].
    - apply remove_twice_equiv.
    - split.
      + intros x. rewrite imap_remove_key_value.
        destruct (keqb_spec bytes_eqb bytes_eqb_eq a x) as [->|]; [exact E|reflexivity].
      + intros y. rewrite imap_remove_key_key, E. reflexivity.
  Qed.

  Lemma remove_alias_fst d a :
    fst (remove_alias d a) = match imap_value (aliases d) a with Some _ => true | None => false end.
  Proof. unfold remove_alias. now destruct (imap_value (aliases d) a). Qed.

  Lemma remove_alias_bij d a : alias_bij d -> alias_bij (snd (remove_alias d a)).
  Proof.
    unfold alias_bij, remove_alias. intros Hb.
    destruct (imap_value (aliases d) a); cbn [snd]; [|exact Hb].
    now do 2 apply bij_imap_remove_key.
  Qed.

  Lemma remove_alias_nodes d a : alias_nodes d -> alias_nodes (snd (remove_alias d a)).
  Proof.
    intros Hn x y H.
    destruct (remove_alias_gvi d a) as (Hg & _). rewrite Hg.
    rewrite (proj1 (remove_alias_equiv d a)), imap_remove_key_value in H.
    destruct (bytes_eqb a x); [discriminate|]. now apply (Hn x).
  Qed.

  (* after remove_alias the alias is unresolvable, every other alias resolves as before *)
  Lemma remove_alias_value d a x :
    imap_value (aliases (snd (remove_alias d a))) x = if bytes_eqb a x then None else imap_value (aliases d) x.
  Proof. rewrite (proj1 (remove_alias_equiv d a)). apply imap_remove_key_value. Qed.

  (* ---- removal of elements: what happens to the alias map ---- *)
  Definition drop_alias (m : imap) (al : option bytes) : imap :=
    match al with Some a => imap_remove_key (imap_remove_key m a) a | None => m end.

  Lemma remove_edge_db_aliases d e : aliases (fst (remove_edge_db d e)) = aliases d.
  Proof. unfold remove_edge_db. destruct (Graph.remove_edge (gr d) e); reflexivity. Qed.

  Lemma remove_all_values_aliases d id : aliases (remove_all_values d id) = aliases d.
  Proof. apply (remove_all_values_ga d id). Qed.

  Lemma remove_node_db_aliases d n al :
    aliases (fst (remove_node_db d n al)) = drop_alias (aliases d) al.
  Proof.
    unfold remove_node_db.
    set (d1 := match al with
               | Some a => with_aliases (push_undo d (CInsertAlias n a))
                                        (imap_remove_key (imap_remove_key (aliases d) a) a)
               | None => d end).
    assert (H1 : aliases d1 = drop_alias (aliases d) al) by (subst d1; destruct al; reflexivity).
    destruct (negb (is_node (gr d1) n)); [exact H1|].
    match goal with |- context [fold_left ?f ?l ?a0] =>
      assert (H2 : aliases (fst (fold_left f l a0)) = aliases d1) end.
    { apply (fold_left_inv (fun acc : db * option errkind => aliases (fst acc) = aliases d1)); [reflexivity|].
      intros [a [k|]] [[ei f] t] _ Hacc; cbn [fst] in *; [exact Hacc|].
      destruct (Graph.remove_edge (gr a) ei); cbn [fst]; [|exact Hacc].
      rewrite remove_all_values_aliases. exact Hacc. }
    match goal with |- context [fold_left ?f ?l ?a0] => set (r := fold_left f l a0) in * end.
    clearbody r d1. destruct r as [d2 [k|]]; cbn [fst] in *; [now rewrite H2|].
    destruct (Graph.remove_node (gr d2) n); cbn [fst]; [|now rewrite H2].
    change (aliases d2 = drop_alias (aliases d) al). now rewrite H2.
  Qed.

  Lemma remove_id_aliases d id :
    aliases (fst (remove_id d id)) =
    if graph_index (gr d) id && (0 <? id) then drop_alias (aliases d) (imap_key (aliases d) id) else aliases d.
  Proof.
    unfold remove_id. destruct (graph_index (gr d) id); [|reflexivity]. cbn [andb].
    destruct (0 <? id).
    - pose proof (remove_node_db_aliases d id (imap_key (aliases d) id)) as H.
      destruct (remove_node_db d id (imap_key (aliases d) id)) as [d1 [k|]]; cbn [fst] in *; [exact H|].
      now rewrite remove_all_values_aliases.
    - pose proof (remove_edge_db_aliases d id) as H.
      destruct (remove_edge_db d id) as [d1 [k|]]; cbn [fst] in *; [exact H|].
      now rewrite remove_all_values_aliases.
  Qed.

  Lemma remove_q_aliases d q :
    aliases (fst (remove_q d q)) =
    match q with
    | QId id => aliases (fst (remove_id d id))
    | QAlias a => match imap_value (aliases d) a with
                  | Some _ => drop_alias (aliases d) (Some a)
                  | None => aliases d
                  end
    end.
  Proof.
    destruct q as [id|a]; [reflexivity|]. cbn [remove_q].
    destruct (imap_value (aliases d) a) as [id|]; [|reflexivity].
    pose proof (remove_node_db_aliases d id (Some a)) as H.
    destruct (remove_node_db d id (Some a)) as [d1 [k|]]; cbn [fst] in *; [exact H|].
    now rewrite remove_all_values_aliases.
  Qed.

  Lemma drop_alias_bij m al : bij m -> bij (drop_alias m al).
  Proof. intros Hb. destruct al; [|exact Hb]. now do 2 apply bij_imap_remove_key. Qed.

  Lemma drop_alias_value m al x :
    imap_value (drop_alias m al) x =
    match al with Some a => if bytes_eqb a x then None else imap_value m x | None => imap_value m x end.
  Proof.
    destruct al as [a|]; [|reflexivity]. cbn [drop_alias].
    rewrite (proj1 (remove_twice_equiv m a)). apply imap_remove_key_value.
  Qed.

  (* removing the alias that names `id` (if any) leaves no alias resolving to `id` *)
  Lemma drop_alias_of_id_gone m id x :
    bij m -> imap_value (drop_alias m (imap_key m id)) x <> Some id.
  Proof.
    intros Hb. rewrite drop_alias_value.
    destruct (imap_key m id) as [a|] eqn:Ea.
    - destruct (keqb_spec bytes_eqb bytes_eqb_eq a x) as [->|Hax]; [discriminate|].
      intros H. apply (bij_value_key m x id Hb) in H. congruence.
    - intros H. apply (bij_value_key m x id Hb) in H. congruence.
  Qed.

  Lemma remove_id_bij d id : alias_bij d -> alias_bij (fst (remove_id d id)).
  Proof.
    unfold alias_bij. rewrite remove_id_aliases. intros Hb.
    destruct (graph_index (gr d) id && (0 <? id)); [now apply drop_alias_bij|exact Hb].
  Qed.

  Lemma remove_q_bij d q : alias_bij d -> alias_bij (fst (remove_q d q)).
  Proof.
    intros Hb. unfold alias_bij. rewrite remove_q_aliases. destruct q as [id|a].
    - now apply remove_id_bij.
    - destruct (imap_value (aliases d) a); [now apply drop_alias_bij|exact Hb].
  Qed.

  (* a removed node (by id) is no longer named by any alias; other aliases are untouched *)
  Lemma remove_id_node_alias_gone d id x :
    alias_bij d -> graph_index (gr d) id = true -> 0 < id ->
    imap_value (aliases (fst (remove_id d id))) x <> Some id /\
    (forall y, y <> id -> imap_value (aliases d) x = Some y ->
               imap_value (aliases (fst (remove_id d id))) x = Some y).
  Proof.
    intros Hb Hgi Hpos. rewrite remove_id_aliases, Hgi.
    rewrite (proj2 (Z.ltb_lt 0 id) Hpos). cbn [andb]. split.
    - now apply drop_alias_of_id_gone.
    - intros y Hy Hx. rewrite drop_alias_value.
      destruct (imap_key (aliases d) id) as [a|] eqn:Ea; [|exact Hx].
      destruct (keqb_spec bytes_eqb bytes_eqb_eq a x) as [->|Hax]; [|exact Hx].
      apply (bij_value_key _ x id Hb) in Ea. congruence.
  Qed.

  (* ---- resolution agrees with the map ---- *)
  Lemma db_id_alias d a id : db_id d (QAlias a) = ROk id <-> imap_value (aliases d) a = Some id.
  Proof.
    cbn [db_id]. destruct (imap_value (aliases d) a) as [v|]; split; intros H; inversion H; reflexivity.
  Qed.

  Lemma db_id_alias_err d a : db_id d (QAlias a) = RErr ENotFound <-> imap_value (aliases d) a = None.
  Proof.
    cbn [db_id]. destruct (imap_value (aliases d) a) as [v|]; split; intros H; inversion H; reflexivity.
  Qed.
End AliasDb.
