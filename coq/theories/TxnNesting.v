(* TxnNesting.v — Storage's nested transaction counter (agdb/src/storage.rs
   begin_transaction / end_transaction): data calls are grouped by Begin / Commit
   markers; the byte store is flushed exactly when the counter returns to 0.
   Definitions only. *)
From Agdb Require Import Bytes FileWal.
Open Scope nat_scope.

Inductive sevent :=
| SBegin                      (* Storage::transaction() *)
| SCommit                     (* Storage::commit(id) with the current id *)
| SData (o : op).             (* a StorageData write / resize issued by an operation *)

(* the StorageData-level calls (with flushes) produced by an event list from nesting depth n *)
Fixpoint sd_ops (n : nat) (evs : list sevent) : list op :=
  match evs with
  | [] => []
  | SBegin :: r => sd_ops (S n) r
  | SCommit :: r =>
      match n with
      | O => sd_ops O r                         (* end_transaction(0): nothing to do *)
      | S O => OFlush :: sd_ops O r
      | S m => sd_ops m r
      end
  | SData o :: r => o :: sd_ops n r
  end.

(* depth after an event list *)
Fixpoint depth_after (n : nat) (evs : list sevent) : nat :=
  match evs with
  | [] => n
  | SBegin :: r => depth_after (S n) r
  | SCommit :: r => depth_after (Nat.pred n) r
  | SData _ :: r => depth_after n r
  end.

(* the depth never returns to 0 inside the list (started at depth n >= 1) and the operations
   themselves issue no flush *)
Fixpoint stays_open (n : nat) (evs : list sevent) : bool :=
  match evs with
  | [] => true
  | SBegin :: r => stays_open (S n) r
  | SCommit :: r => Nat.leb 2 n && stays_open (Nat.pred n) r
  | SData o :: r => (match o with OFlush => false | _ => true end) && stays_open n r
  end.
