(* StoredDbQueries.v — proofs (stored database, part 5): what `sd_eqv` leaves open is invisible to every read-only
   query except the two that return a hash table's iteration order.

   `sd_eqv d d'` fixes the graph arrays, every property list (order included), both alias lookups, the index keys
   in order and each index's ids as a multiset.  The read-only queries of Queries.v use
     - the graph and the property lists                    (searches, select values / keys / key_count / edge_count / node_count)
     - the alias lookups                                   (ids given as aliases, `ids` conditions, select aliases)
     - the index keys and the NUMBER of ids per index      (select indexes)
   and only two of them anything else:
     - SelectAllAliases   lists k2v (sorted by the model; the code returns the table's iteration order)
     - a search with algorithm Index   returns the ids of one index value in the list's order
   `sd_query_ok` excludes exactly these two (also as the search inside the ids of another query); for every other
   read-only query the results on d and d' are EQUAL. *)
From Coq Require Import Permutation.
From Agdb Require Import Bytes DbValue Graph DbModel Search Queries StoredDbRep.
From Coq Require Import ZifyBool ZifyNat ZifyN.
Open Scope Z_scope.

(* ---- induction over conditions (nested in lists) ---- *)
Definition sd_cond_payload (c : cond) : cond_data := match c with Cond _ _ d => d end.
Section CondInd.
  Variable P : cond_data -> Prop.
  Hypothesis HDistance : forall c, P (CDistance c).
  Hypothesis HEdge : P CEdge.
  Hypothesis HEdgeCount : forall c, P (CEdgeCount c).
  Hypothesis HEdgeCountFrom : forall c, P (CEdgeCountFrom c).
  Hypothesis HEdgeCountTo : forall c, P (CEdgeCountTo c).
  Hypothesis HIds : forall ids, P (CIds ids).
  Hypothesis HKeyValue : forall key op value, P (CKeyValue key op value).
  Hypothesis HKeys : forall keys, P (CKeys keys).
  Hypothesis HNode : P CNode.
  Hypothesis HWhere : forall conds, Forall (fun c => P (sd_cond_payload c)) conds -> P (CWhere conds).
  Fixpoint sd_cond_ind (c : cond_data) : P c :=
    match c with
    | CDistance v => HDistance v
    | CEdge => HEdge
    | CEdgeCount v => HEdgeCount v
    | CEdgeCountFrom v => HEdgeCountFrom v
    | CEdgeCountTo v => HEdgeCountTo v
    | CIds ids => HIds ids
    | CKeyValue key op value => HKeyValue key op value
    | CKeys keys => HKeys keys
    | CNode => HNode
    | CWhere conds =>
        HWhere conds
          ((fix all (l : list cond) : Forall (fun c => P (sd_cond_payload c)) l :=
              match l with
              | [] => Forall_nil _
              | Cond lg md data :: r => Forall_cons (Cond lg md data) (sd_cond_ind data) (all r)
              end) conds)
    end.
End CondInd.

(* two databases with the same graph, the same property lists and the same alias -> id lookup *)
Definition sd_core (d d' : db) : Prop :=
  gr d = gr d' /\ vals d = vals d' /\ forall a, imap_value (aliases d) a = imap_value (aliases d') a.

Lemma sd_eqv_core d d' : sd_eqv d d' -> sd_core d d'.
Proof. intros H. split; [apply (se_graph _ _ H)|]. split; [apply (se_vals _ _ H)|apply (se_alias_value _ _ H)]. Qed.

Section Rev.
  Variable rv : revision.
  Variables d d' : db.
  Hypothesis HC : sd_core d d'.

  Let Hg : gr d = gr d' := proj1 HC.
  Let Hv : vals d = vals d' := proj1 (proj2 HC).
  Let Ha : forall a, imap_value (aliases d) a = imap_value (aliases d') a := proj2 (proj2 HC).

  Lemma sd_ids_match index ids : ids_match d index ids = ids_match d' index ids.
  Proof.
    unfold ids_match. induction ids as [|q r IH]; cbn [existsb]; [reflexivity|]. rewrite IH.
    destruct q as [id|a]; [reflexivity|]. rewrite Ha. reflexivity.
  Qed.

  Lemma sd_eval_data index distance c : eval_data rv d index distance c = eval_data rv d' index distance c.
  Proof.
    revert index distance. induction c as [v| |v|v|v|ids|key op value|keys| |conds IH] using sd_cond_ind; intros index distance;
      cbn [eval_data]; rewrite <- ?Hg, <- ?Hv; try reflexivity.
    - rewrite sd_ids_match. reflexivity.
    - generalize (Continue true). induction IH as [|[lg md data] r Hx _ IHr]; intros result; [reflexivity|].
      cbn [sd_cond_payload] in Hx. rewrite Hx. apply IHr.
  Qed.

  Lemma sd_eval_conditions index distance conds : eval_conditions rv d index distance conds = eval_conditions rv d' index distance conds.
  Proof. unfold eval_conditions. apply sd_eval_data. Qed.

  Lemma sd_search_loop a reverse origin conds h : forall fuel work vis counter acc,
    search_loop rv d a reverse origin conds h fuel work vis counter acc =
    search_loop rv d' a reverse origin conds h fuel work vis counter acc.
  Proof.
    induction fuel as [|f IH]; intros work vis counter acc; cbn [search_loop]; [reflexivity|].
    destruct work as [|[index dist] rest]; [reflexivity|]. rewrite <- Hg.
    destruct (visited vis index); [apply IH|].
    rewrite sd_eval_conditions. destruct (handle h counter _) as [control counter'].
    destruct control; rewrite ?IH; reflexivity.
  Qed.

  Lemma sd_graph_search a reverse origin conds h :
    graph_search rv d a reverse origin conds h = graph_search rv d' a reverse origin conds h.
  Proof. unfold graph_search. rewrite <- Hg. destruct (_ || _); [apply sd_search_loop|reflexivity]. Qed.

  Lemma sd_elements_loop conds h : forall els distance counter acc,
    elements_loop rv d conds h els distance counter acc = elements_loop rv d' conds h els distance counter acc.
  Proof.
    induction els as [|index r IH]; intros distance counter acc; cbn [elements_loop]; [reflexivity|].
    rewrite sd_eval_conditions. destruct (handle h counter _) as [control counter']. destruct control; rewrite ?IH; reflexivity.
  Qed.

  Lemma sd_elements_search conds h : elements_search rv d conds h = elements_search rv d' conds h.
  Proof. unfold elements_search. rewrite <- Hg. apply sd_elements_loop. Qed.

  Lemma sd_path_cost conds index distance : path_cost rv d conds index distance = path_cost rv d' conds index distance.
  Proof. unfold path_cost. rewrite sd_eval_conditions. reflexivity. Qed.

  Lemma sd_path_loop conds dest : forall fuel paths vis, path_loop rv d conds dest fuel paths vis = path_loop rv d' conds dest fuel paths vis.
  Proof.
    induction fuel as [|f IH]; intros paths vis; cbn [path_loop]; [reflexivity|].
    destruct (rev (sort_paths paths)) as [|cur rest_rev]; [reflexivity|].
    destruct (visited vis (last_index cur)); [apply IH|]. destruct (last_index cur =? dest); [reflexivity|].
    rewrite <- Hg. rewrite IH. f_equal. f_equal. apply flat_map_ext. intros e. rewrite !sd_path_cost. reflexivity.
  Qed.

  Lemma sd_path_search conds origin dest : path_search rv d conds origin dest = path_search rv d' conds origin dest.
  Proof. unfold path_search. rewrite <- Hg, sd_path_cost, sd_path_loop. reflexivity. Qed.

  Lemma sd_order_cmp orders l r : order_cmp d orders l r = order_cmp d' orders l r.
  Proof. induction orders as [|o rest IH]; cbn [order_cmp]; [reflexivity|]. rewrite <- Hv, IH. reflexivity. Qed.

  Lemma sd_stable_sort_ext (c1 c2 : Z -> Z -> comparison) (l : list Z) : (forall x y, c1 x y = c2 x y) -> stable_sort c1 l = stable_sort c2 l.
  Proof.
    intros H. unfold stable_sort. induction l as [|x r IH]; cbn [fold_right]; [reflexivity|]. rewrite IH.
    generalize (fold_right (fun x0 acc => insert_sorted c2 x0 acc) [] r). intros s.
    induction s as [|y t IHs]; cbn [insert_sorted]; [reflexivity|]. rewrite H, IHs. reflexivity.
  Qed.

  Lemma sd_db_id q : db_id d q = db_id d' q.
  Proof. destruct q as [id|a]; cbn [db_id]; [rewrite Hg; reflexivity|rewrite Ha; reflexivity]. Qed.

  Lemma sd_sorted_slice s r :
    match r with
    | SOk ids => slice_ids rv (s_limit s) (s_offset s) (stable_sort (order_cmp d (s_order_by s)) ids)
    | e => e
    end =
    match r with
    | SOk ids => slice_ids rv (s_limit s) (s_offset s) (stable_sort (order_cmp d' (s_order_by s)) ids)
    | e => e
    end.
  Proof.
    destruct r; try reflexivity.
    rewrite (sd_stable_sort_ext (order_cmp d (s_order_by s)) (order_cmp d' (s_order_by s))) by (intros; apply sd_order_cmp). reflexivity.
  Qed.

  Ltac sd_ss :=
    try (match goal with |- context [match ?x with SOk _ => _ | SErr _ => _ | SPanic => _ end] => destruct x end);
    rewrite ?(sd_stable_sort_ext (order_cmp d _) (order_cmp d' _)) by (intros; apply sd_order_cmp); reflexivity.

  Lemma sd_search s : s_algorithm s <> AIndex -> search rv d s = search rv d' s.
  Proof.
    intros Hn. unfold search. cbv beta zeta.
    destruct (s_algorithm s); try contradiction.
    - rewrite !sd_db_id. destruct (is_zero_id (s_destination s)).
      + destruct (db_id d' (s_origin s)); [|reflexivity]. rewrite !sd_graph_search. sd_ss.
      + destruct (is_zero_id (s_origin s)).
        * destruct (db_id d' (s_destination s)); [|reflexivity]. rewrite !sd_graph_search. sd_ss.
        * destruct (db_id d' (s_origin s)); [|reflexivity]. destruct (db_id d' (s_destination s)); [|reflexivity].
          rewrite sd_path_search. sd_ss.
    - rewrite !sd_db_id. destruct (is_zero_id (s_destination s)).
      + destruct (db_id d' (s_origin s)); [|reflexivity]. rewrite !sd_graph_search. sd_ss.
      + destruct (is_zero_id (s_origin s)).
        * destruct (db_id d' (s_destination s)); [|reflexivity]. rewrite !sd_graph_search. sd_ss.
        * destruct (db_id d' (s_origin s)); [|reflexivity]. destruct (db_id d' (s_destination s)); [|reflexivity].
          rewrite sd_path_search. sd_ss.
    - rewrite !sd_elements_search. sd_ss.
  Qed.
End Rev.

(* ---------------- the read-only queries ---------------- *)
Definition sd_ids_ok (ids : qids) : Prop :=
  match ids with Ids _ => True | QSearch s => s_algorithm s <> AIndex end.

(* read-only queries whose result does not depend on a hash table's iteration order *)
Definition sd_query_ok (q : query) : Prop :=
  match q with
  | SelectValues _ ids | SelectKeys ids | SelectKeyCount ids | SelectAliases ids | SelectEdgeCount ids _ _ => sd_ids_ok ids
  | SelectIndexes | SelectNodeCount => True
  | SearchQ s => s_algorithm s <> AIndex
  | _ => False      (* SelectAllAliases; the mutating queries (not covered here: see C05_db_operations_preserve_stored_db) *)
  end.

Section Select.
  Variable rv : revision.
  Variables d d' : db.
  Hypothesis HE : sd_eqv d d'.

  Let HC : sd_core d d' := sd_eqv_core d d' HE.
  Let Hg : gr d = gr d' := se_graph _ _ HE.
  Let Hv : vals d = vals d' := se_vals _ _ HE.

  Lemma sd_elem id values : elem d id values = elem d' id values.
  Proof. unfold elem, from_id, to_id. rewrite Hg. reflexivity. Qed.

  Lemma sd_resolve_all l : resolve_all d l = resolve_all d' l.
  Proof. induction l as [|q r IH]; cbn [resolve_all]; [reflexivity|]. rewrite (sd_db_id d d' HC), IH. reflexivity. Qed.

  Lemma sd_resolve_ids ids : sd_ids_ok ids -> resolve_ids rv d ids = resolve_ids rv d' ids.
  Proof. destruct ids as [l|s]; cbn [resolve_ids sd_ids_ok]; intros H; [rewrite sd_resolve_all; reflexivity|apply sd_search; assumption]. Qed.

  Lemma sd_map_elem (f f' : Z -> list kv) l : (forall id, f id = f' id) ->
    map (fun id => elem d id (f id)) l = map (fun id => elem d' id (f' id)) l.
  Proof. intros H. apply map_ext. intros id. rewrite H. apply sd_elem. Qed.

  Lemma sd_select_simple ids f f' total total' :
    sd_ids_ok ids -> (forall id, f id = f' id) -> (forall l, total l = total' l) ->
    select_simple rv d ids f total = select_simple rv d' ids f' total'.
  Proof.
    intros Hi Hf Ht. unfold select_simple. rewrite (sd_resolve_ids ids Hi).
    destruct (resolve_ids rv d' ids); try reflexivity. rewrite Ht, (sd_map_elem f f' _ Hf). reflexivity.
  Qed.

  Lemma sd_select_values keys ids : sd_ids_ok ids -> select_values rv d keys ids = select_values rv d' keys ids.
  Proof.
    intros Hi. unfold select_values. rewrite (sd_resolve_ids ids Hi).
    destruct (resolve_ids rv d' ids) as [db_ids| |]; try reflexivity.
    match goal with |- match ?A with _ => _ end = match ?B with _ => _ end => assert (E : A = B); [|rewrite E; reflexivity] end.
    rewrite <- Hv. induction db_ids as [|id r IH]; [reflexivity|]. cbn beta iota.
    match goal with |- (if ?c then _ else _) = _ => destruct c end; [reflexivity|].
    rewrite IH. rewrite sd_elem. reflexivity.
  Qed.

  Lemma sd_select_aliases ids : sd_ids_ok ids -> select_aliases rv d ids = select_aliases rv d' ids.
  Proof.
    intros Hi. destruct ids as [l|s]; cbn [select_aliases sd_ids_ok] in *.
    - match goal with |- match ?A with _ => _ end = match ?B with _ => _ end => assert (E : A = B); [|rewrite E; reflexivity] end.
      induction l as [|q r IH]; [reflexivity|]. cbn beta iota. rewrite IH.
      destruct q as [id|a].
      + rewrite (se_alias_key _ _ HE). destruct (imap_key (aliases d') id); [rewrite sd_elem|]; reflexivity.
      + rewrite (sd_db_id d d' HC). destruct (db_id d' (QAlias a)); [rewrite sd_elem|]; reflexivity.
    - rewrite (sd_search rv d d' HC s Hi). destruct (search rv d' s) as [db_ids| |]; try reflexivity.
      assert (E : flat_map (fun id => match imap_key (aliases d) id with Some a => [elem d id [alias_kv a]] | None => [] end) db_ids =
                  flat_map (fun id => match imap_key (aliases d') id with Some a => [elem d' id [alias_kv a]] | None => [] end) db_ids).
      { apply flat_map_ext. intros id. rewrite (se_alias_key _ _ HE). destruct (imap_key (aliases d') id); [rewrite sd_elem|]; reflexivity. }
      rewrite E. reflexivity.
  Qed.

  Lemma sd_select_indexes :
    map (fun ix : index => (fst ix, DU64 (N.of_nat (length (snd ix))))) (indexes d) =
    map (fun ix : index => (fst ix, DU64 (N.of_nat (length (snd ix))))) (indexes d').
  Proof.
    induction (se_indexes _ _ HE) as [|a b l l' [H1 H2] _ IH]; cbn [map]; [reflexivity|].
    rewrite IH, H1, (Permutation_length H2). reflexivity.
  Qed.

  Theorem sd_exec_select q : sd_query_ok q -> exec_select rv d q = exec_select rv d' q.
  Proof.
    destruct q; cbn [sd_query_ok exec_select]; intros Hq; try contradiction.
    - apply sd_select_values; exact Hq.
    - apply sd_select_simple; [exact Hq|intros id; rewrite Hv; reflexivity|reflexivity].
    - apply sd_select_simple; [exact Hq|intros id; rewrite Hv; reflexivity|intros l; rewrite Hv; reflexivity].
    - apply sd_select_aliases; exact Hq.
    - apply sd_select_simple; [exact Hq|intros id; unfold edge_count; rewrite Hg; reflexivity|intros l; unfold edge_count; rewrite Hg; reflexivity].
    - rewrite sd_select_indexes. reflexivity.
    - rewrite Hg. reflexivity.
    - rewrite (sd_search rv d d' HC s Hq). destruct (search rv d' s); try reflexivity.
      rewrite (sd_map_elem (fun _ => []) (fun _ => []) ids) by reflexivity. reflexivity.
  Qed.

  (* one query = one transaction (DbImpl::exec): on databases at rest (empty undo stack) *)
  Theorem sd_exec q : sd_query_ok q -> undo d = [] -> undo d' = [] ->
    snd (exec rv d q) = snd (exec rv d' q) /\ sd_eqv (fst (exec rv d q)) (fst (exec rv d' q)).
  Proof.
    intros Hq Hu Hu'.
    assert (Hm : is_mutating q = false) by (destruct q; cbn [sd_query_ok] in Hq; try contradiction; reflexivity).
    assert (Hc : sd_eqv (clear_undo d) (clear_undo d')) by (destruct HE; constructor; assumption).
    unfold exec, exec_in_txn. rewrite Hm, (sd_exec_select q Hq).
    destruct (exec_select rv d' q) as [n els|e|]; cbn [fst snd commit].
    - split; [reflexivity|exact Hc].
    - unfold rollback. rewrite Hu, Hu'. cbn [rollback_cmds fst snd]. split; [reflexivity|exact Hc].
    - split; [reflexivity|exact HE].
  Qed.
End Select.
