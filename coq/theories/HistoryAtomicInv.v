(* HistoryAtomicInv.v — the failure theorems of HistoryAtomicProofs.v with the joint invariant `Inv`
   of C09 / C10 / C11 as the ONLY assumption on the state (plus: outside a transaction, capacity <= 2^63):
   the C13 well-formedness db_ok follows from Inv (WfRepProofs.Inv_db_ok). *)
From Agdb Require Import Bytes BytesProofs DbValue Graph DbModel Search Queries Revisions
  DbInvProofs QueryInvProofs TraversalLiveProofs DbInvariantProofs
  UndoObs UndoGraph UndoDb PstepOpsProofs QueryPstepsProofs WfRepProofs HistoryAtomicProofs.
From Coq Require Import ZifyBool ZifyNat ZifyN.
Open Scope Z_scope.

Lemma HInv_of_Inv d : Inv d -> undo d = [] -> capacity (gr d) <= two63z -> HInv d.
Proof. intros Hi Hu Hc. split; [exact Hi|]. split; [now apply Inv_db_ok|exact Hu]. Qed.

Lemma HInv_cap d : HInv d -> capacity (gr d) <= two63z.
Proof. intros (_ & Hok & _). destruct (UndoStepsGraph.db_ok_rep d Hok) as (a & R). apply (r_cap _ _ _ _ R). Qed.

Theorem exec_failure_restores_Inv d q d' e :
  query_ok q -> Inv d -> undo d = [] -> capacity (gr (fst (exec_in_txn rv_fixed d q))) <= two63z ->
  exec rv_fixed d q = (d', QErr e) ->
  restored d d' /\ Inv d' /\ undo d' = [] /\ capacity (gr d') <= two63z.
Proof.
  intros Hq Hi Hu Hb He.
  destruct (exec_in_txn_reach rv_fixed eq_refl eq_refl eq_refl search_live_fixed d q Hq Hi) as [Hc _].
  assert (Hd : HInv d) by (apply HInv_of_Inv; [exact Hi|exact Hu|lia]).
  destruct (exec_failure_restores_fixed d q d' e Hq Hd Hb He) as [Hr Hd'].
  split; [exact Hr|]. split; [apply Hd'|]. split; [apply Hd'|now apply HInv_cap].
Qed.

Theorem transaction_atomic_Inv d qs fail_at_end :
  Forall query_ok qs -> Inv d -> undo d = [] -> capacity (gr (fst (fst (txn_run rv_fixed d qs [])))) <= two63z ->
  let r := transaction rv_fixed d qs fail_at_end in
  (Inv (fst r) /\ undo (fst r) = [] /\ capacity (gr (fst r)) <= two63z) /\
  snd r = snd (fst (txn_run rv_fixed d qs [])) /\
  (txn_failed rv_fixed d qs fail_at_end = true -> restored d (fst r)).
Proof.
  intros Hq Hi Hu Hb. cbv zeta.
  destruct (txn_run_reach rv_fixed eq_refl eq_refl eq_refl eq_refl search_live_fixed qs d [] Hq Hi) as [Hc _].
  assert (Hd : HInv d) by (apply HInv_of_Inv; [exact Hi|exact Hu|lia]).
  destruct (transaction_atomic_fixed d qs fail_at_end Hq Hd Hb) as (H1 & H2 & H3).
  split; [|split; [exact H2|exact H3]]. split; [apply H1|]. split; [apply H1|now apply HInv_cap].
Qed.
