(* FileWalGuardProofs.v — C01 with the position guard of apply_wal_record (fixes/C07-wal-position.diff):
   on every log the storage itself wrote, at every crash cut, the guard never fires and the guarded
   recovery returns exactly what the unguarded one returns.  The invariant of FileWalProofs.v (Good) is
   strengthened by "every logged position is <= the length of the data at the moment that record is
   undone" (Good'); the old development is reused, not changed. *)
From Agdb Require Import Bytes BytesProofs FileWal FileWalProofs.
From Coq Require Import ZifyBool ZifyNat ZifyN.
Ltac Zify.zify_post_hook ::= Z.div_mod_to_equations.
Open Scope nat_scope.
Arguments N.of_nat : simpl never.
Arguments N.to_nat : simpl never.
Arguments N.ltb : simpl never.

(* ---------- the guard along a list of records (in the order they are applied) ---------- *)

Fixpoint gok (rs : list (nat * bytes)) (d : bytes) : Prop :=
  match rs with
  | [] => True
  | r :: rest => fst r <= length d /\ gok rest (apply_rec d r)
  end.

Lemma apply_all_g_ok rs : forall d, gok rs d -> apply_all_g rs d = Some (fold_left apply_rec rs d).
Proof.
  induction rs as [|r rs IH]; intros d H; cbn [apply_all_g fold_left]; [reflexivity|].
  destruct H as [H1 H2]. unfold apply_rec_g.
  destruct (Nat.ltb_spec (length d) (fst r)); [lia|]. now apply IH.
Qed.

(* ... and only then: a success of the guarded replay is the unguarded result with every guard passed *)
Lemma apply_all_g_some rs : forall d d', apply_all_g rs d = Some d' -> gok rs d /\ d' = fold_left apply_rec rs d.
Proof.
  induction rs as [|r rs IH]; intros d d' H; cbn [apply_all_g fold_left gok] in *.
  - split; [exact I|congruence].
  - unfold apply_rec_g in H. destruct (Nat.ltb_spec (length d) (fst r)); [discriminate|].
    destruct (IH _ _ H) as [G E]. repeat split; [lia|exact G|exact E].
Qed.

Lemma gok_app a : forall b d, gok (a ++ b) d <-> gok a d /\ gok b (fold_left apply_rec a d).
Proof.
  induction a as [|r a IH]; intros b d; cbn [app gok fold_left]; [tauto|]. rewrite IH. tauto.
Qed.

(* rs in log order, applied newest first *)
Definition gok_nf (rs : list (nat * bytes)) (d : bytes) : Prop := gok (rev rs) d.

Lemma gok_nf_app a b d : gok_nf (a ++ b) d <-> gok_nf b d /\ gok_nf a (replay_nf b d).
Proof. unfold gok_nf, replay_nf. rewrite rev_app_distr. apply gok_app. Qed.

Lemma gok_nf_one r d : gok_nf [r] d <-> fst r <= length d.
Proof. unfold gok_nf. cbn [rev app gok]. tauto. Qed.

Lemma replay_nf_one r d : replay_nf [r] d = apply_rec d r.
Proof. reflexivity. Qed.

(* ---------- the strengthened invariant ---------- *)

Definition Good' (d0 : bytes) (st : fstate) : Prop :=
  exists rs, wal st = encs rs /\ Forall ok_rec rs /\ replay_nf rs (data st) = d0 /\ gok_nf rs (data st).

Definition GSafe (d0 : bytes) (st : fstate) : Prop :=
  recover_g walrev_fixed st = Some {| data := d0; wal := [] |}.

(* what a crash leaves: the log of a Good' state followed by a torn record *)
Definition Recoverable (d0 : bytes) (st : fstate) : Prop :=
  exists rs t, wal st = encs rs ++ t /\ incomplete t /\ Forall ok_rec rs /\
               replay_nf rs (data st) = d0 /\ gok_nf rs (data st).

Lemma good'_good d0 st : Good' d0 st -> Good d0 st.
Proof. intros (rs & Hw & Hok & Hr & _). exists rs. auto. Qed.

Lemma good'_committed d0 : Good' d0 {| data := d0; wal := [] |}.
Proof. exists []. cbn [data wal]. repeat split; constructor. Qed.

Lemma rec_tail d0 st rs t :
  wal st = encs rs ++ t -> incomplete t -> Forall ok_rec rs ->
  replay_nf rs (data st) = d0 -> gok_nf rs (data st) -> Recoverable d0 st.
Proof. intros. exists rs, t. auto. Qed.

Lemma rec_gsafe d0 st : Recoverable d0 st -> GSafe d0 st.
Proof.
  intros (rs & t & Hw & Ht & Hok & Hr & Hg). unfold GSafe, recover_g, replay_g. cbn [w_newest_first walrev_fixed].
  rewrite Hw, records_encs by assumption. rewrite apply_all_g_ok by exact Hg.
  unfold replay_nf in Hr. now rewrite Hr.
Qed.

Lemma rec_safe d0 st : Recoverable d0 st -> Safe d0 st.
Proof. intros (rs & t & Hw & Ht & Hok & Hr & Hg). now apply (safe_tail d0 st rs t). Qed.

Lemma good'_rec d0 st : Good' d0 st -> Recoverable d0 st.
Proof.
  intros (rs & Hw & Hok & Hr & Hg).
  apply (rec_tail d0 st rs []); [now rewrite app_nil_r|apply incomplete_nil|exact Hok|exact Hr|exact Hg].
Qed.

(* a record that describes the current content and lies inside it *)
Definition fits (d : bytes) (r : nat * bytes) : Prop :=
  ok_rec r /\ apply_rec d r = d /\ fst r <= length d.

Lemma good'_snoc d0 d w rs r :
  w = encs rs -> Forall ok_rec rs -> replay_nf rs d = d0 -> gok_nf rs d -> fits d r ->
  w ++ enc_rec (fst r) (snd r) = encs (rs ++ [r]) /\ Forall ok_rec (rs ++ [r]) /\
  replay_nf (rs ++ [r]) d = d0 /\ gok_nf (rs ++ [r]) d.
Proof.
  intros Hw Hok Hr Hg (Hr1 & Hr2 & Hr3). repeat split.
  - rewrite Hw, encs_app. cbn [encs map concat]. now rewrite app_nil_r.
  - apply Forall_app; split; [exact Hok|now constructor].
  - rewrite replay_nf_app, replay_nf_one, Hr2. exact Hr.
  - apply gok_nf_app. rewrite gok_nf_one, replay_nf_one, Hr2. split; assumption.
Qed.

Lemma log_rec d0 st r k j :
  Good' d0 st -> fits (data st) r -> k < 3 -> Recoverable d0 (crash st (log_calls (fst r) (snd r)) k j).
Proof.
  intros (rs & Hw & Hok & Hr & Hg) Hfit Hk.
  destruct (log_crash st (fst r) (snd r) k j Hk) as [m ->].
  destruct (Nat.ltb_spec m (length (enc_rec (fst r) (snd r)))) as [Hm|Hm].
  - apply (rec_tail d0 _ rs (firstn m (enc_rec (fst r) (snd r)))); cbn [data wal];
      [now rewrite Hw| |exact Hok|exact Hr|exact Hg].
    apply prefix_incomplete; [|exact Hm]. destruct r; apply Hfit.
  - rewrite firstn_all2 by exact Hm.
    destruct (good'_snoc d0 (data st) (wal st) rs r Hw Hok Hr Hg Hfit) as (A & B & C & D).
    apply (rec_tail d0 _ (rs ++ [r]) []); cbn [data wal];
      [now rewrite app_nil_r|apply incomplete_nil|exact B|exact C|exact D].
Qed.

Lemma log_good' d0 st r :
  Good' d0 st -> fits (data st) r -> Good' d0 (run_calls st (log_calls (fst r) (snd r))).
Proof.
  intros (rs & Hw & Hok & Hr & Hg) Hfit. rewrite log_done.
  destruct (good'_snoc d0 (data st) (wal st) rs r Hw Hok Hr Hg Hfit) as (A & B & C & D).
  exists (rs ++ [r]). cbn [data wal]. auto.
Qed.

(* ---------- a sequence of undo records, then one data call ---------- *)

Definition logs (extra : list (nat * bytes)) : list sys :=
  concat (map (fun r => log_calls (fst r) (snd r)) extra).

Lemma logs_cons r extra : logs (r :: extra) = log_calls (fst r) (snd r) ++ logs extra.
Proof. reflexivity. Qed.

Lemma logs_steps d0 extra : forall st,
  Good' d0 st -> Forall (fits (data st)) extra ->
  (forall k j, k < length (logs extra) -> Recoverable d0 (crash st (logs extra) k j)) /\
  Good' d0 (run_calls st (logs extra)) /\
  data (run_calls st (logs extra)) = data st /\
  wal (run_calls st (logs extra)) = wal st ++ encs extra.
Proof.
  induction extra as [|r extra IH]; intros st HG Hf.
  - cbn [logs map concat length run_calls fold_left encs]. rewrite app_nil_r. repeat split; [intros; lia|exact HG].
  - inversion Hf as [|? ? Hr Hrest]; subst.
    set (st1 := run_calls st (log_calls (fst r) (snd r))).
    assert (G1 : Good' d0 st1) by now apply log_good'.
    assert (D1 : data st1 = data st) by apply run_log_data.
    assert (W1 : wal st1 = wal st ++ enc_rec (fst r) (snd r)) by (unfold st1; now rewrite log_done).
    destruct (IH st1 G1) as (S2 & G2 & D2 & W2); [now rewrite D1|].
    rewrite logs_cons. repeat split.
    + intros k j Hk. rewrite crash_app. change (length (log_calls (fst r) (snd r))) with 3.
      destruct (Nat.ltb_spec k 3) as [K|K]; [now apply log_rec|].
      fold st1. apply S2. rewrite app_length in Hk. change (length (log_calls (fst r) (snd r))) with 3 in Hk. lia.
    + rewrite run_calls_app. exact G2.
    + rewrite run_calls_app. fold st1. now rewrite D2.
    + rewrite run_calls_app. fold st1. rewrite W2, W1, encs_cons. now rewrite <- app_assoc.
Qed.

Definition data_call (c : sys) : Prop :=
  match c with DataWrite _ _ | DataSetLen _ => True | _ => False end.

(* the data content a (complete or torn) data call leaves *)
Definition after_call (d : bytes) (c : sys) : bytes := data (apply_sys {| data := d; wal := [] |} c).
Definition after_torn (d : bytes) (c : sys) (j : nat) : bytes := data (apply_torn {| data := d; wal := [] |} c j).

Lemma apply_sys_data st c : data_call c -> apply_sys st c = {| data := after_call (data st) c; wal := wal st |}.
Proof. destruct c; cbn; try tauto; reflexivity. Qed.

Lemma apply_torn_data st c j : data_call c -> apply_torn st c j = {| data := after_torn (data st) c j; wal := wal st |}.
Proof. destruct c; cbn; try tauto; intros _; destruct st; reflexivity. Qed.

(* the undo records `extra` are logged (each describes the current content), then the data call c is
   issued; whatever c leaves behind — completely or torn — is undone by `extra` with every guard passed *)
Lemma logged_op d0 st extra c :
  Good' d0 st -> Forall (fits (data st)) extra -> data_call c ->
  (forall d', (d' = after_call (data st) c \/ exists j, d' = after_torn (data st) c j) ->
              replay_nf extra d' = data st /\ gok_nf extra d') ->
  let cs := logs extra ++ [c] in
  (forall k j, Recoverable d0 (crash st cs k j)) /\
  Good' d0 (run_calls st cs) /\ data (run_calls st cs) = after_call (data st) c.
Proof.
  intros HG Hf Hc Hundo cs. subst cs.
  destruct (logs_steps d0 extra st HG Hf) as (S1 & G1 & D1 & W1).
  set (stb := run_calls st (logs extra)) in *.
  destruct HG as (rs & Hw & Hok & Hr & Hg).
  assert (Hfok : Forall ok_rec extra) by (eapply Forall_impl; [|exact Hf]; intros a Ha; apply Ha).
  assert (After : forall d', (d' = after_call (data st) c \/ exists j, d' = after_torn (data st) c j) ->
                             Good' d0 {| data := d'; wal := wal stb |}).
  { intros d' Hd'. destruct (Hundo d' Hd') as (U1 & U2).
    exists (rs ++ extra). cbn [data wal]. repeat split.
    - now rewrite W1, Hw, encs_app.
    - apply Forall_app; split; assumption.
    - now rewrite replay_nf_app, U1.
    - apply gok_nf_app. rewrite U1. split; assumption. }
  assert (Full : run_calls stb [c] = {| data := after_call (data st) c; wal := wal stb |}).
  { cbn [run_calls fold_left]. rewrite apply_sys_data by exact Hc. now rewrite D1. }
  repeat split.
  - intros k j. rewrite crash_app.
    destruct (Nat.ltb_spec k (length (logs extra))) as [K|K]; [now apply S1|].
    fold stb. destruct (k - length (logs extra)) as [|k2].
    + unfold crash. cbn [firstn nth_error run_calls fold_left]. rewrite apply_torn_data by exact Hc.
      rewrite D1. apply good'_rec, After. right. now exists j.
    + rewrite crash_all by (cbn; lia). rewrite Full. apply good'_rec, After. now left.
  - rewrite run_calls_app. fold stb. rewrite Full. apply After. now left.
  - rewrite run_calls_app. fold stb. now rewrite Full.
Qed.

(* ---------- one operation ---------- *)

Lemma op_write_g d0 st pos bs :
  Good' d0 st -> pos <= length (data st) -> (N.of_nat (length (data st)) < bound)%N ->
  (N.of_nat (length (write_at (data st) pos bs)) < bound)%N ->
  let cs := calls_of walrev_fixed (data st) (OWrite pos bs) in
  (forall k j, Recoverable d0 (crash st cs k j)) /\
  Good' d0 (run_calls st cs) /\ data (run_calls st cs) = write_at (data st) pos bs.
Proof.
  intros HG Hpos Hb Hb2 cs. subst cs. set (d := data st) in *. set (len := length d) in *.
  destruct bs as [|b0 bs'] eqn:Ebs.
  { (* empty write: no calls *)
    unfold calls_of. cbn [w_skip_empty walrev_fixed]. repeat split.
    - intros k j. rewrite crash_all by (cbn; lia). cbn. now apply good'_rec.
    - exact HG.
    - cbn. fold d. now rewrite write_at_nil. }
  rewrite <- Ebs in *. assert (Hne : 0 < length bs) by (rewrite Ebs; cbn; lia).
  set (e := pos + length bs) in *.
  set (old := slice_of d pos (Nat.min len e)).
  set (growth := Nat.ltb pos len && Nat.ltb len e).
  set (extra := (if growth then [(len, @nil byte)] else []) ++ [(pos, old)]).
  assert (Ecalls : calls_of walrev_fixed d (OWrite pos bs) = logs extra ++ [DataWrite pos bs]).
  { unfold calls_of. cbn [w_skip_empty w_log_growth walrev_fixed andb]. fold len e old growth.
    rewrite Ebs at 1. unfold extra. destruct growth; reflexivity. }
  rewrite Ecalls. clear Ebs b0 bs'.
  assert (Hnew : length (write_at d pos bs) = Nat.max len e) by (apply write_at_length; exact Hpos).
  assert (Hold : length old = Nat.min len e - pos) by (unfold old; apply slice_of_length; lia).
  assert (Fold : fits d (pos, old)).
  { split; [|split]; cbn [fst snd].
    - apply small_ok; rewrite ?Hold; lia.
    - destruct (Nat.eq_dec (length old) 0) as [Z|Z].
      + rewrite (length_zero_nil old Z), apply_rec_nil. assert (pos = len) by lia. subst pos. apply set_len_same.
      + rewrite apply_rec_nonempty by lia. unfold old. apply write_at_same; lia.
    - exact Hpos. }
  assert (Flen : fits d (len, [])).
  { split; [|split]; cbn [fst snd].
    - apply small_ok; cbn [length]; unfold bound in *; lia.
    - apply set_len_same.
    - lia. }
  assert (Hfit : Forall (fits d) extra).
  { unfold extra. destruct growth; cbn [app]; [apply Forall_cons; [exact Flen|]|]; (apply Forall_cons; [exact Fold|apply Forall_nil]). }
  pose proof (logged_op d0 st extra (DataWrite pos bs) HG Hfit I) as L.
  cbn [after_call after_torn apply_sys apply_torn data] in L. fold d in L.
  apply L. clear L.
  (* every (torn) write is a prefix write *)
  intros d' Hd'.
  assert (Hj : exists j, d' = write_at d pos (firstn j bs)).
  { destruct Hd' as [->|[j ->]]; [exists (length bs); now rewrite firstn_all|now exists j]. }
  clear Hd'. destruct Hj as [j ->].
  set (t := firstn j bs). assert (Ht : length t <= length bs) by (unfold t; rewrite firstn_length; lia).
  assert (Lx : length (write_at d pos t) = Nat.max len (pos + length t)) by (apply write_at_length; exact Hpos).
  pose proof (undo_write d pos bs j Hpos) as U. fold len e old t in U.
  unfold extra, growth.
  destruct (Nat.ltb_spec pos len) as [P|P]; destruct (Nat.ltb_spec len e) as [Q|Q]; cbn [andb app].
  - (* straddling *)
    split.
    + unfold replay_nf. cbn [rev app fold_left].
      rewrite (apply_rec_nonempty _ pos old) by lia. rewrite apply_rec_nil. exact U.
    + unfold gok_nf. cbn [rev app gok fst]. repeat split; [lia|].
      rewrite (apply_rec_nonempty _ pos old) by lia. rewrite write_at_length by lia. lia.
  - (* in place *)
    split.
    + unfold replay_nf. cbn [rev app fold_left].
      rewrite apply_rec_nonempty by lia.
      pose proof (undo_write_inplace d pos bs j ltac:(fold len e; lia)) as V.
      unfold old. replace (Nat.min len e) with e by lia. exact V.
    + apply gok_nf_one. cbn [fst]. lia.
  - (* append at the end *)
    assert (pos = len) by lia. subst pos.
    assert (Z : old = []) by (apply length_zero_nil; lia).
    split.
    + unfold replay_nf. cbn [rev app fold_left].
      rewrite Z in *. rewrite apply_rec_nil. rewrite write_at_nil in U. exact U.
    + apply gok_nf_one. cbn [fst]. lia.
  - lia.
Qed.

Lemma op_resize_g d0 st n :
  Good' d0 st -> (N.of_nat (length (data st)) < bound)%N -> (N.of_nat n < bound)%N ->
  let cs := calls_of walrev_fixed (data st) (OResize n) in
  (forall k j, Recoverable d0 (crash st cs k j)) /\
  Good' d0 (run_calls st cs) /\ data (run_calls st cs) = set_len (data st) n.
Proof.
  intros HG Hb Hn cs. subst cs. set (d := data st) in *. set (len := length d) in *.
  set (r := if Nat.ltb n len then (n, skipn n d) else (len, @nil byte)).
  assert (Ecalls : calls_of walrev_fixed d (OResize n) = logs [r] ++ [DataSetLen n]).
  { unfold calls_of, r. cbn [w_log_growth walrev_fixed]. fold len. destruct (Nat.ltb n len); reflexivity. }
  rewrite Ecalls.
  assert (Fr : fits d r).
  { unfold r. destruct (Nat.ltb_spec n len) as [L|L]; (split; [|split]); cbn [fst snd].
    - apply small_ok; rewrite ?skipn_length; unfold bound in *; lia.
    - rewrite apply_rec_nonempty by (rewrite skipn_length; fold len; lia).
      unfold write_at. rewrite skipn_length. fold len.
      replace (n + (len - n)) with (length d) by (fold len; lia). rewrite skipn_all.
      rewrite app_nil_r. apply firstn_skipn.
    - fold len. lia.
    - apply small_ok; cbn [length]; unfold bound in *; lia.
    - apply set_len_same.
    - fold len. lia. }
  pose proof (logged_op d0 st [r] (DataSetLen n) HG (Forall_cons _ Fr (Forall_nil _)) I) as L.
  cbn [after_call after_torn apply_sys apply_torn data] in L. fold d in L.
  apply L. clear L.
  intros d' Hd'. rewrite gok_nf_one, replay_nf_one.
  destruct Hd' as [->|[_ ->]].
  - (* the length change completed *)
    rewrite set_len_length. unfold r. destruct (Nat.ltb_spec n len) as [L|L]; cbn [fst]; split; try lia.
    + rewrite apply_rec_nonempty by (rewrite skipn_length; fold len; lia). apply undo_shrink. fold len. lia.
    + rewrite apply_rec_nil. apply undo_grow. fold len. lia.
  - (* not yet *)
    destruct Fr as (_ & Same & Le). split; assumption.
Qed.

Lemma op_flush_g d0 st :
  Good' d0 st ->
  let cs := calls_of walrev_fixed (data st) OFlush in
  (forall j, Recoverable d0 (crash st cs 0 j)) /\
  Good' (data st) (run_calls st cs) /\ data (run_calls st cs) = data st.
Proof.
  intros HG cs. subst cs. cbn [calls_of]. split; [|split].
  - intros j. unfold crash. cbn. now apply good'_rec.
  - cbn [run_calls fold_left apply_sys]. exists []. cbn [data wal]. repeat split; constructor.
  - reflexivity.
Qed.

(* ---------- all operation lists, all cuts ---------- *)

Theorem crash_recoverable : forall ops st d0 k j,
  Good' d0 st -> wp (data st) ops ->
  Recoverable (expect d0 st ops k) (crash st (trace walrev_fixed st ops) k j).
Proof.
  induction ops as [|o r IH]; intros st d0 k j HG Hwp.
  - cbn [trace expect]. rewrite crash_all by (cbn; lia). cbn. now apply good'_rec.
  - cbn [trace expect]. rewrite crash_app.
    set (cs := calls_of walrev_fixed (data st) o).
    destruct (Nat.ltb_spec k (length cs)) as [K|K].
    + destruct o as [pos bs|n|].
      * destruct Hwp as (Hb & Hpos & Hnext).
        apply (op_write_g d0 st pos bs HG Hpos Hb (wp_bound _ _ Hnext)).
      * destruct Hwp as (Hb & Hnext).
        pose proof (wp_bound _ _ Hnext) as B. rewrite set_len_length in B.
        apply (op_resize_g d0 st n HG Hb B).
      * unfold cs in K. cbn in K. assert (k = 0) by lia. subst k.
        apply (op_flush_g d0 st HG).
    + destruct o as [pos bs|n|].
      * destruct Hwp as (Hb & Hpos & Hnext).
        destruct (op_write_g d0 st pos bs HG Hpos Hb (wp_bound _ _ Hnext)) as (_ & G' & D').
        apply IH; [exact G'|]. fold cs in D'. rewrite D'. exact Hnext.
      * destruct Hwp as (Hb & Hnext).
        pose proof (wp_bound _ _ Hnext) as B. rewrite set_len_length in B.
        destruct (op_resize_g d0 st n HG Hb B) as (_ & G' & D').
        apply IH; [exact G'|]. fold cs in D'. rewrite D'. exact Hnext.
      * destruct Hwp as (Hb & Hnext).
        destruct (op_flush_g d0 st HG) as (_ & G' & D').
        apply IH; [exact G'|]. fold cs in D'. rewrite D'. exact Hnext.
Qed.

Theorem recover_g_restores_state : forall ops st d0 k j,
  Good' d0 st -> wp (data st) ops ->
  GSafe (expect d0 st ops k) (crash st (trace walrev_fixed st ops) k j).
Proof. intros. now apply rec_gsafe, crash_recoverable. Qed.

(* the guard never fires on a log the storage wrote: guarded = unguarded recovery *)
Theorem recover_g_restores : forall ops st d0 k j,
  Good' d0 st -> wp (data st) ops ->
  recover_g walrev_fixed (crash st (trace walrev_fixed st ops) k j)
  = Some (recover walrev_fixed (crash st (trace walrev_fixed st ops) k j)).
Proof.
  intros ops st d0 k j HG Hwp.
  pose proof (recover_g_restores_state ops st d0 k j HG Hwp) as A.
  pose proof (recover_restores ops st d0 k j (good'_good _ _ HG) Hwp) as B.
  unfold GSafe in A. unfold Safe in B. now rewrite A, B.
Qed.

(* from a committed file with an empty log: exactly the hypotheses of recover_from_committed *)
Corollary recover_g_from_committed d0 ops k j :
  wp d0 ops ->
  let c := crash {| data := d0; wal := [] |} (trace walrev_fixed {| data := d0; wal := [] |} ops) k j in
  recover_g walrev_fixed c = Some (recover walrev_fixed c) /\
  recover_g walrev_fixed c = Some {| data := expect d0 {| data := d0; wal := [] |} ops k; wal := [] |}.
Proof.
  intros H c. subst c. split.
  - apply (recover_g_restores ops _ d0); [apply good'_committed|exact H].
  - apply (recover_g_restores_state ops _ d0); [apply good'_committed|exact H].
Qed.

(* whenever the guarded recovery succeeds — on ANY files — it returns what the unguarded one returns *)
Lemma recover_g_some rv st st' : recover_g rv st = Some st' -> st' = recover rv st.
Proof.
  unfold recover_g, recover, replay_g, replay.
  destruct (apply_all_g _ _) as [d|] eqn:E; [|discriminate].
  intros H. injection H as <-. apply apply_all_g_some in E. destruct E as [_ ->]. reflexivity.
Qed.

(* ---------- the guard does fire on a log the storage did not write ---------- *)

(* a single record positioned beyond the end of the file: 16 bytes of garbage next to an intact file
   suffice (p = 2^40, v = [] is the witness of the two C07 findings) *)
Lemma guard_fires d p v : ok_rec (p, v) -> length d < p ->
  recover_g walrev_fixed {| data := d; wal := enc_rec p v |} = None.
Proof.
  intros Hok Hp. unfold recover_g, replay_g. cbn [w_newest_first walrev_fixed data wal].
  replace (enc_rec p v) with (encs [(p, v)] ++ []) by (cbn [encs map concat fst snd]; now rewrite !app_nil_r).
  rewrite records_encs; [|apply Forall_cons; [exact Hok|apply Forall_nil]|apply incomplete_nil].
  cbn [rev app apply_all_g]. unfold apply_rec_g. cbn [fst].
  destruct (Nat.ltb_spec (length d) p); [reflexivity|lia].
Qed.

Lemma guard_fires_far :
  let d := [x01; x02; x03] in
  recover_g walrev_fixed {| data := d; wal := le64 1000 ++ le64 0 |} = None.
Proof. vm_compute. reflexivity. Qed.

(* one byte beyond the end is enough, and the end is the CURRENT end: the newer record (applied first)
   truncates to 2, the older one writes at 3 *)
Lemma guard_fires_current_end :
  let d := [x01; x02; x03] in
  recover_g walrev_fixed {| data := d; wal := enc_rec 3 [x0a] ++ enc_rec 2 [] |} = None /\
  recover_g walrev_fixed {| data := d; wal := enc_rec 3 [x0a] |} = Some {| data := [x01; x02; x03; x0a]; wal := [] |} /\
  recover_g walrev_fixed {| data := d; wal := enc_rec 2 [] ++ enc_rec 3 [x0a] |} = Some {| data := [x01; x02]; wal := [] |}.
Proof. vm_compute. repeat split. Qed.
