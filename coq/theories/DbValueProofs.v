(* DbValueProofs.v — the derived order of DbValue (dbv_cmp) is a total order
   (as a three-way comparison: antisymmetric, Eq is a congruence, Lt transitive),
   and the combinators that build SearchQuery::sort's comparator preserve that.
   Used by C15 (symmetry of key equality) and C16 (sort). *)
From Agdb Require Import Bytes DbValue.
From Coq Require Import ZifyBool ZifyNat ZifyN.
Open Scope Z_scope.

Record cmp_ok {A} (cmp : A -> A -> comparison) : Prop := {
  cmp_antisym : forall x y, cmp x y = CompOpp (cmp y x);
  cmp_eq_trans : forall x y z c, cmp x y = Eq -> cmp y z = c -> cmp x z = c;
  cmp_lt_trans : forall x y z, cmp x y = Lt -> cmp y z = Lt -> cmp x z = Lt
}.

Section Derived.
  Context {A} (cmp : A -> A -> comparison) (OK : cmp_ok cmp).

  Lemma cmp_refl x : cmp x x = Eq.
  Proof. pose proof (cmp_antisym cmp OK x x) as H. destruct (cmp x x); try reflexivity; discriminate. Qed.

  Lemma cmp_eq_sym x y : cmp x y = Eq -> cmp y x = Eq.
  Proof. intros H. rewrite (cmp_antisym cmp OK), H. reflexivity. Qed.

  Lemma cmp_gt_lt x y : cmp x y = Gt <-> cmp y x = Lt.
  Proof. rewrite (cmp_antisym cmp OK x y). destruct (cmp y x); cbn; split; congruence. Qed.

  Lemma cmp_trans_eq_r x y z c : cmp x y = c -> cmp y z = Eq -> cmp x z = c.
  Proof.
    intros H1 H2. rewrite (cmp_antisym cmp OK x z).
    rewrite (cmp_eq_trans cmp OK z y x (cmp y x)); [|apply cmp_eq_sym; exact H2|reflexivity].
    rewrite <- (cmp_antisym cmp OK x y). exact H1.
  Qed.

  Lemma cmp_gt_trans x y z : cmp x y = Gt -> cmp y z = Gt -> cmp x z = Gt.
  Proof.
    rewrite !cmp_gt_lt. intros H1 H2. exact (cmp_lt_trans cmp OK z y x H2 H1).
  Qed.

  (* "x <= y" := cmp x y <> Gt is a total preorder *)
  Lemma cmp_le_trans x y z : cmp x y <> Gt -> cmp y z <> Gt -> cmp x z <> Gt.
  Proof.
    intros H1 H2. destruct (cmp x y) eqn:E1; [| |congruence].
    - rewrite (cmp_eq_trans cmp OK x y z (cmp y z) E1 eq_refl). exact H2.
    - destruct (cmp y z) eqn:E2; [| |congruence].
      + rewrite (cmp_trans_eq_r x y z Lt E1 E2). discriminate.
      + rewrite (cmp_lt_trans cmp OK x y z E1 E2). discriminate.
  Qed.

  Lemma cmp_le_total x y : cmp x y <> Gt \/ cmp y x <> Gt.
  Proof.
    destruct (cmp x y) eqn:E; [left; discriminate|left; discriminate|right].
    apply cmp_gt_lt in E. rewrite E. discriminate.
  Qed.
End Derived.

(* ---------- base instances ---------- *)

Lemma Zcompare_ok : cmp_ok Z.compare.
Proof.
  split.
  - intros x y. apply Z.compare_antisym.
  - intros x y z c H <-. apply Z.compare_eq in H. now subst.
  - intros x y z. rewrite !Z.compare_lt_iff. lia.
Qed.

Lemma Ncompare_ok : cmp_ok N.compare.
Proof.
  split.
  - intros x y. apply N.compare_antisym.
  - intros x y z c H <-. apply N.compare_eq in H. now subst.
  - intros x y z. rewrite !N.compare_lt_iff. lia.
Qed.

Lemma cmp_ok_key {A B} (f : A -> B) (cmp : B -> B -> comparison) :
  cmp_ok cmp -> cmp_ok (fun x y => cmp (f x) (f y)).
Proof.
  intros OK. split.
  - intros x y. apply (cmp_antisym cmp OK).
  - intros x y z c. apply (cmp_eq_trans cmp OK).
  - intros x y z. apply (cmp_lt_trans cmp OK).
Qed.

Lemma cmp_ok_opp {A} (cmp : A -> A -> comparison) :
  cmp_ok cmp -> cmp_ok (fun x y => CompOpp (cmp x y)).
Proof.
  intros OK. split.
  - intros x y. rewrite (cmp_antisym cmp OK x y). reflexivity.
  - intros x y z c H1 H2.
    assert (E : cmp x y = Eq) by (destruct (cmp x y); cbn in H1; congruence).
    rewrite (cmp_eq_trans cmp OK x y z (cmp y z) E eq_refl). exact H2.
  - intros x y z H1 H2.
    assert (E1 : cmp x y = Gt) by (destruct (cmp x y); cbn in H1; congruence).
    assert (E2 : cmp y z = Gt) by (destruct (cmp y z); cbn in H2; congruence).
    rewrite (cmp_gt_trans cmp OK x y z E1 E2). reflexivity.
Qed.

(* lexicographic combination of two comparisons of the same things *)
Lemma cmp_then_eq c d : cmp_then c d = Eq <-> c = Eq /\ d = Eq.
Proof. destruct c, d; cbn; intuition congruence. Qed.

Lemma cmp_then_lt c d : cmp_then c d = Lt <-> c = Lt \/ (c = Eq /\ d = Lt).
Proof. destruct c, d; cbn; intuition congruence. Qed.

Lemma cmp_ok_then {A} (c1 c2 : A -> A -> comparison) :
  cmp_ok c1 -> cmp_ok c2 -> cmp_ok (fun x y => cmp_then (c1 x y) (c2 x y)).
Proof.
  intros O1 O2. split.
  - intros x y. rewrite (cmp_antisym c1 O1 x y), (cmp_antisym c2 O2 x y).
    destruct (c1 y x), (c2 y x); reflexivity.
  - intros x y z c H1 H2. apply cmp_then_eq in H1 as [E1 E2].
    rewrite (cmp_eq_trans c1 O1 x y z _ E1 eq_refl), (cmp_eq_trans c2 O2 x y z _ E2 eq_refl).
    exact H2.
  - intros x y z H1 H2. apply cmp_then_lt in H1 as [L1|[E1 L1]]; apply cmp_then_lt in H2 as [L2|[E2 L2]];
      apply cmp_then_lt.
    + left. exact (cmp_lt_trans c1 O1 x y z L1 L2).
    + left. exact (cmp_trans_eq_r c1 O1 x y z Lt L1 E2).
    + left. rewrite (cmp_eq_trans c1 O1 x y z _ E1 eq_refl). exact L2.
    + right. split.
      * rewrite (cmp_eq_trans c1 O1 x y z _ E1 eq_refl). exact E2.
      * exact (cmp_lt_trans c2 O2 x y z L1 L2).
Qed.

(* options with the absent value last *)
Definition opt_cmp {A} (cmp : A -> A -> comparison) (a b : option A) : comparison :=
  match a, b with
  | None, None => Eq
  | None, Some _ => Gt
  | Some _, None => Lt
  | Some x, Some y => cmp x y
  end.

Lemma cmp_ok_opt {A} (cmp : A -> A -> comparison) : cmp_ok cmp -> cmp_ok (opt_cmp cmp).
Proof.
  intros OK. split.
  - intros [x|] [y|]; cbn; try reflexivity. apply (cmp_antisym cmp OK).
  - intros [x|] [y|] [z|] c; cbn; try congruence. apply (cmp_eq_trans cmp OK).
  - intros [x|] [y|] [z|]; cbn; try congruence. apply (cmp_lt_trans cmp OK).
Qed.

(* lists, lexicographically *)
Lemma lex_cmp_ok {A} (cmp : A -> A -> comparison) : cmp_ok cmp -> cmp_ok (lex_cmp cmp).
Proof.
  intros OK. split.
  - induction x as [|a x IH]; destruct y as [|b y]; cbn [lex_cmp]; try reflexivity.
    rewrite (cmp_antisym cmp OK a b), IH. destruct (cmp b a), (lex_cmp cmp y x); reflexivity.
  - induction x as [|a x IH]; destruct y as [|b y]; destruct z as [|c' z]; cbn [lex_cmp]; intros c H1 H2;
      try discriminate; try exact H2.
    apply cmp_then_eq in H1 as [E1 E2].
    rewrite (cmp_eq_trans cmp OK a b c' _ E1 eq_refl).
    rewrite (IH y z (lex_cmp cmp y z) E2 eq_refl). exact H2.
  - induction x as [|a x IH]; destruct y as [|b y]; destruct z as [|c' z]; cbn [lex_cmp]; intros H1 H2;
      try discriminate; try reflexivity.
    apply cmp_then_lt in H1 as [L1|[E1 L1]]; apply cmp_then_lt in H2 as [L2|[E2 L2]]; apply cmp_then_lt.
    + left. exact (cmp_lt_trans cmp OK a b c' L1 L2).
    + left. exact (cmp_trans_eq_r cmp OK a b c' Lt L1 E2).
    + left. rewrite (cmp_eq_trans cmp OK a b c' _ E1 eq_refl). exact L2.
    + right. split.
      * rewrite (cmp_eq_trans cmp OK a b c' _ E1 eq_refl). exact E2.
      * exact (IH y z L1 L2).
Qed.

Lemma byte_cmp_ok : cmp_ok byte_cmp.
Proof. exact (cmp_ok_key b2n N.compare Ncompare_ok). Qed.
Lemma bytes_cmp_ok : cmp_ok bytes_cmp.
Proof. exact (lex_cmp_ok byte_cmp byte_cmp_ok). Qed.
Lemma f64_cmp_ok : cmp_ok f64_cmp.
Proof. exact (cmp_ok_key f64_key Z.compare Zcompare_ok). Qed.

Local Hint Resolve Zcompare_ok Ncompare_ok bytes_cmp_ok f64_cmp_ok lex_cmp_ok : cmpok.

(* ---------- DbValue ---------- *)

Lemma dbv_cmp_antisym x y : dbv_cmp x y = CompOpp (dbv_cmp y x).
Proof.
  destruct x, y; try reflexivity; cbn [dbv_cmp];
    match goal with |- ?c _ _ = _ => apply (cmp_antisym c) end; auto with cmpok.
Qed.

Lemma dbv_cmp_eq_kind x y : dbv_cmp x y = Eq -> kind x = kind y.
Proof. destruct x, y; cbn [dbv_cmp kind]; intros H; try reflexivity; discriminate H. Qed.

Lemma dbv_cmp_eq_trans x y z c : dbv_cmp x y = Eq -> dbv_cmp y z = c -> dbv_cmp x z = c.
Proof.
  intros H1 H2.
  destruct x, y; try discriminate H1; destruct z; try exact H2; cbn [dbv_cmp] in *;
    match goal with |- ?c _ _ = _ => eapply (cmp_eq_trans c); eauto with cmpok end.
Qed.

Lemma dbv_cmp_lt_trans x y z : dbv_cmp x y = Lt -> dbv_cmp y z = Lt -> dbv_cmp x z = Lt.
Proof.
  intros H1 H2.
  destruct x, y; try discriminate H1; try (destruct z; first [discriminate H2|reflexivity]);
    destruct z; try discriminate H2; try reflexivity; cbn [dbv_cmp] in *;
    match goal with |- ?c _ _ = _ => eapply (cmp_lt_trans c); eauto with cmpok end.
Qed.

Theorem dbv_cmp_ok : cmp_ok dbv_cmp.
Proof. split; [exact dbv_cmp_antisym|exact dbv_cmp_eq_trans|exact dbv_cmp_lt_trans]. Qed.

Lemma dbv_eqb_sym x y : dbv_eqb x y = dbv_eqb y x.
Proof. unfold dbv_eqb. rewrite dbv_cmp_antisym. destruct (dbv_cmp y x); reflexivity. Qed.

Lemma dbv_eqb_refl x : dbv_eqb x x = true.
Proof. unfold dbv_eqb. rewrite (cmp_refl dbv_cmp dbv_cmp_ok). reflexivity. Qed.
