(* SliceProofs.v — C16: limit / offset.  The streaming handlers (LimitHandler,
   OffsetHandler, LimitOffsetHandler) of the unordered searches return exactly the
   slice [offset, offset+limit) of the search without them; SearchQuery::slice (ordered and
   path searches) returns the same slice of the sorted full result and — after the
   fix_slice_clamp repair — never panics. *)
From Agdb Require Import Bytes DbValue DbValueProofs Graph DbModel Search Revisions CondProofs SortProofs.
From Coq Require Import ZifyBool ZifyNat ZifyN.
Ltac Zify.zify_post_hook ::= Z.div_mod_to_equations.
Import DocSpec.
Open Scope Z_scope.

(* the elements at positions offset .. offset+limit-1 (limit 0 = unlimited), clipped to what exists *)
Definition clip (limit offset : Z) (l : list Z) : list Z :=
  (if limit =? 0 then (fun x => x) else firstn (Z.to_nat limit)) (skipn (Z.to_nat offset) l).

Lemma clip_nil limit offset : clip limit offset [] = [].
Proof. unfold clip. rewrite skipn_nil. destruct (limit =? 0); [reflexivity|apply firstn_nil]. Qed.

Lemma clip_0_0 l : clip 0 0 l = l.
Proof. reflexivity. Qed.

Lemma clip_length limit offset l :
  0 <= limit -> 0 <= offset ->
  Z.of_nat (length (clip limit offset l)) =
  let rest := Z.max 0 (Z.of_nat (length l) - offset) in
  if limit =? 0 then rest else Z.min limit rest.
Proof.
  intros Hl Ho. unfold clip. cbv zeta.
  destruct (Z.eqb_spec limit 0); [rewrite skipn_length; lia|].
  rewrite firstn_length, skipn_length. lia.
Qed.

Lemma nth_skipn_add {A} (dflt : A) : forall n i (l : list A), nth i (skipn n l) dflt = nth (n + i) l dflt.
Proof.
  induction n as [|n IH]; intros i l; [reflexivity|].
  destruct l as [|x l]; [destruct i; reflexivity|]. cbn [skipn Nat.add nth]. apply IH.
Qed.

Lemma nth_firstn_lt {A} (dflt : A) : forall n i (l : list A), (i < n)%nat -> nth i (firstn n l) dflt = nth i l dflt.
Proof.
  induction n as [|n IH]; intros i l Hi; [lia|].
  destruct l as [|x l]; [reflexivity|]. destruct i as [|i]; [reflexivity|].
  cbn [firstn nth]. apply IH. lia.
Qed.

Lemma clip_nth limit offset l i :
  0 <= limit -> 0 <= offset ->
  (i < length (clip limit offset l))%nat ->
  nth i (clip limit offset l) 0 = nth (Z.to_nat offset + i) l 0.
Proof.
  intros Hl Ho Hi. unfold clip in *.
  destruct (Z.eqb_spec limit 0).
  - apply nth_skipn_add.
  - rewrite firstn_length in Hi. rewrite nth_firstn_lt by lia. apply nth_skipn_add.
Qed.

(* ====================================================================== *)
(* (c) SearchQuery::slice                                                  *)
(* ====================================================================== *)

Lemma firstn_clamp (k : Z) (n : nat) (l : list Z) :
  (length l <= n)%nat -> firstn (Z.to_nat (Z.min k (Z.of_nat n))) l = firstn (Z.to_nat k) l.
Proof.
  intros Hn. destruct (Z.le_ge_cases k (Z.of_nat n)); [now rewrite Z.min_l|].
  rewrite Z.min_r by assumption. rewrite !firstn_all2 by lia. reflexivity.
Qed.

Lemma skipn_clamp (k : Z) (l : list Z) :
  skipn (Z.to_nat (Z.min k (Z.of_nat (length l)))) l = skipn (Z.to_nat k) l.
Proof.
  destruct (Z.le_ge_cases k (Z.of_nat (length l))); [now rewrite Z.min_l|].
  rewrite Z.min_r by assumption. rewrite !skipn_all2 by lia. reflexivity.
Qed.

Lemma slice_ids_clip rv limit offset ids :
  fix_slice_clamp rv = true -> slice_ids rv limit offset ids = SOk (clip limit offset ids).
Proof.
  intros Hrv. unfold slice_ids, clip. rewrite Hrv.
  rewrite !skipn_clamp, !firstn_clamp by (rewrite ?skipn_length; lia).
  destruct (Z.eqb_spec limit 0) as [->|Hl]; destruct (Z.eqb_spec offset 0) as [->|Ho]; cbn [andb].
  - reflexivity.
  - destruct (Z.leb_spec offset (Z.of_nat (length ids))); [reflexivity|].
    rewrite skipn_all2 by lia. reflexivity.
  - reflexivity.
  - destruct (offset + limit <=? Z.of_nat (length ids)); reflexivity.
Qed.

Lemma slice_ids_no_panic rv limit offset ids :
  fix_slice_clamp rv = true -> slice_ids rv limit offset ids <> SPanic.
Proof. intros Hrv. rewrite slice_ids_clip by exact Hrv. discriminate. Qed.

(* the defect of the pinned code: `ids[offset..]` / `ids[offset..offset+limit]` panic past the end;
   e.g. an ordered elements search with offset 1 on the empty database *)
Definition panic_query : search_query :=
  {| s_algorithm := AElements; s_origin := QId 0; s_destination := QId 0; s_limit := 0; s_offset := 1;
     s_order_by := [Asc (DI64 1)]; s_conditions := [] |}.

Lemma slice_pinned_refuted :
  slice_ids rv_pinned 0 3 [1; 2] = SPanic /\
  slice_ids rv_pinned 2 2 [1; 2; 3] = SPanic /\
  search rv_pinned db_new panic_query = SPanic /\
  slice_ids rv_fixed 0 3 [1; 2] = SOk [] /\
  slice_ids rv_fixed 2 2 [1; 2; 3] = SOk [3] /\
  search rv_fixed db_new panic_query = SOk [].
Proof. repeat split. Qed.

(* ====================================================================== *)
(* The handlers as one counter automaton                                  *)
(* ====================================================================== *)

Definition lim_of (h : handler_kind) : option Z :=
  match h with HDefault | HOffset _ => None | HLimit l => Some l | HLimitOffset l _ => Some l end.
Definition off_of (h : handler_kind) : Z :=
  match h with HOffset o | HLimitOffset _ o => o | _ => 0 end.
Definition at_lim (L : option Z) (c : Z) : bool :=
  match L with Some l => c =? l | None => false end.

Lemma sc_set_true c v : sc_true (sc_set c v) = v.
Proof. destruct c; reflexivity. Qed.
Lemma sc_set_kind c v : kind_of (sc_set c v) = kind_of c.
Proof. destruct c; reflexivity. Qed.
Lemma sc_set_follows c v : follows (sc_set c v) = follows c.
Proof. destruct c; reflexivity. Qed.
Lemma sc_set_id c : sc_set c (sc_true c) = c.
Proof. destruct c; reflexivity. Qed.

(* with `counter` = the number of selected elements so far: a selected element is number
   counter+1; it is recorded iff offset < counter+1, and the search finishes when
   counter+1 reaches the limit (+offset); a rejected element changes nothing *)
Lemma handle_spec h c control :
  h <> HDefault -> 0 <= c -> at_lim (lim_of h) c = false ->
  handle h c control =
  if sc_true control then
    ((if at_lim (lim_of h) (c + 1) then Finish (off_of h <? c + 1) else sc_set control (off_of h <? c + 1)), c + 1)
  else (control, c).
Proof.
  intros Hh Hc Hl. destruct h as [|l|o|l o]; [congruence| | |]; cbn [handle lim_of off_of at_lim] in *.
  - destruct (sc_true control) eqn:T.
    + replace (0 <? c + 1) with true by lia. rewrite <- T at 3. rewrite sc_set_id.
      destruct (c + 1 =? l); reflexivity.
    + rewrite Hl. reflexivity.
  - destruct (sc_true control); reflexivity.
  - destruct (sc_true control) eqn:T.
    + rewrite sc_set_true. destruct (c + 1 =? l); reflexivity.
    + rewrite Hl. reflexivity.
Qed.

(* what the automaton records of a list of selected elements, from counter c on *)
Fixpoint window (off : Z) (L : option Z) (c : Z) (l : list Z) : list Z :=
  match l with
  | [] => []
  | x :: r => (if off <? c + 1 then [x] else []) ++ (if at_lim L (c + 1) then [] else window off L (c + 1) r)
  end.

Lemma window_spec off L : forall l c,
  0 <= c -> (forall lim, L = Some lim -> c < lim) ->
  window off L c l =
  skipn (Z.to_nat (off - c)) (match L with Some lim => firstn (Z.to_nat (lim - c)) l | None => l end).
Proof.
  induction l as [|x r IH]; intros c Hc HL.
  - cbn [window]. destruct L; rewrite ?firstn_nil, skipn_nil; reflexivity.
  - cbn [window]. destruct L as [lim|]; cbn [at_lim].
    + specialize (HL lim eq_refl).
      replace (Z.to_nat (lim - c)) with (S (Z.to_nat (lim - (c + 1)))) by lia. cbn [firstn].
      destruct (Z.eqb_spec (c + 1) lim) as [E|E].
      * replace (Z.to_nat (lim - (c + 1))) with O by lia. cbn [firstn]. rewrite app_nil_r.
        destruct (Z.ltb_spec off (c + 1)).
        -- replace (Z.to_nat (off - c)) with O by lia. reflexivity.
        -- replace (Z.to_nat (off - c)) with (S (Z.to_nat (off - (c + 1)))) by lia. cbn [skipn].
           now rewrite skipn_nil.
      * rewrite IH by (try lia; intros ? [= <-]; lia).
        destruct (Z.ltb_spec off (c + 1)).
        -- replace (Z.to_nat (off - c)) with O by lia. replace (Z.to_nat (off - (c + 1))) with O by lia.
           reflexivity.
        -- replace (Z.to_nat (off - c)) with (S (Z.to_nat (off - (c + 1)))) by lia. reflexivity.
    + rewrite IH by (try lia; discriminate).
      destruct (Z.ltb_spec off (c + 1)).
      * replace (Z.to_nat (off - c)) with O by lia. replace (Z.to_nat (off - (c + 1))) with O by lia.
        reflexivity.
      * replace (Z.to_nat (off - c)) with (S (Z.to_nat (off - (c + 1)))) by lia. reflexivity.
Qed.

(* SearchQuery::search picks the handler; either there is none, or the automaton's window
   from counter 0 is the clip *)
Lemma handler_of_cases limit offset :
  0 <= limit -> 0 <= offset ->
  (limit = 0 /\ offset = 0 /\ handler_of limit offset = HDefault) \/
  (handler_of limit offset <> HDefault /\
   at_lim (lim_of (handler_of limit offset)) 0 = false /\
   forall l, window (off_of (handler_of limit offset)) (lim_of (handler_of limit offset)) 0 l = clip limit offset l).
Proof.
  intros Hl Ho. unfold handler_of, clip.
  destruct (Z.eqb_spec limit 0) as [->|Hl0]; destruct (Z.eqb_spec offset 0) as [->|Ho0]; cbn [andb].
  - left. repeat split.
  - right. split; [discriminate|]. split; [reflexivity|]. intros l.
    rewrite window_spec by (try lia; discriminate). cbn [lim_of off_of]. now rewrite Z.sub_0_r.
  - right. split; [discriminate|]. cbn [lim_of off_of at_lim]. split; [lia|]. intros l.
    rewrite window_spec by (try lia; intros ? [= <-]; lia). now rewrite !Z.sub_0_r.
  - right. split; [discriminate|]. cbn [lim_of off_of at_lim]. split; [lia|]. intros l.
    rewrite window_spec by (try lia; intros ? [= <-]; lia). rewrite !Z.sub_0_r.
    rewrite firstn_skipn_comm. f_equal. f_equal. lia.
Qed.

(* ====================================================================== *)
(* (a) the elements search                                                *)
(* ====================================================================== *)

Section Stream.
  Variable rv : revision.
  Variable d : db.
  Variable conds : list cond.

  Lemma elements_default_acc : forall els distance c c' acc,
    elements_loop rv d conds HDefault els distance c acc =
    rev acc ++ elements_loop rv d conds HDefault els distance c' [].
  Proof.
    induction els as [|index r IH]; intros distance c c' acc.
    - cbn [elements_loop rev]. now rewrite app_nil_r.
    - cbn [elements_loop handle].
      destruct (eval_conditions rv d index distance conds) as [b|b|b] eqn:E;
        [|exfalso; exact (no_finish rv d index distance conds b E)|]; cbn [sc_true];
        rewrite (IH (distance + 1) c c' (if b then index :: acc else acc)),
                (IH (distance + 1) c' c' (if b then [index] else []));
        destruct b; cbn [rev app]; rewrite <- ?app_assoc; reflexivity.
  Qed.

  Lemma elements_default_cons index r distance c :
    elements_loop rv d conds HDefault (index :: r) distance c [] =
    (if sc_true (eval_conditions rv d index distance conds) then [index] else []) ++
    elements_loop rv d conds HDefault r (distance + 1) c [].
  Proof.
    cbn [elements_loop handle].
    destruct (eval_conditions rv d index distance conds) as [b|b|b] eqn:E;
      [|exfalso; exact (no_finish rv d index distance conds b E)|]; cbn [sc_true];
      rewrite (elements_default_acc r (distance + 1) c c (if b then [index] else []));
      destruct b; reflexivity.
  Qed.

  Lemma elements_loop_window h :
    h <> HDefault ->
    forall els distance c c0 acc,
      0 <= c -> at_lim (lim_of h) c = false ->
      elements_loop rv d conds h els distance c acc =
      rev acc ++ window (off_of h) (lim_of h) c (elements_loop rv d conds HDefault els distance c0 []).
  Proof.
    intros Hh. induction els as [|index r IH]; intros distance c c0 acc Hc Hl.
    - cbn [elements_loop window rev]. now rewrite app_nil_r.
    - rewrite elements_default_cons. cbn [elements_loop].
      rewrite (handle_spec h c _ Hh Hc Hl).
      pose proof (no_finish rv d index distance conds) as NF.
      destruct (eval_conditions rv d index distance conds) as [b|b|b];
        [|exfalso; exact (NF b eq_refl)|]; cbn [sc_true]; destruct b; cbn [app].
      + cbn [window]. destruct (at_lim (lim_of h) (c + 1)) eqn:L1; cbn [sc_true sc_set].
        * destruct (off_of h <? c + 1); cbn [rev app]; now rewrite ?app_nil_r.
        * rewrite (IH (distance + 1) (c + 1) c0) by (try lia; exact L1).
          destruct (off_of h <? c + 1); cbn [rev app]; rewrite <- ?app_assoc; reflexivity.
      + cbn [sc_true]. apply IH; assumption.
      + cbn [window]. destruct (at_lim (lim_of h) (c + 1)) eqn:L1; cbn [sc_true sc_set].
        * destruct (off_of h <? c + 1); cbn [rev app]; now rewrite ?app_nil_r.
        * rewrite (IH (distance + 1) (c + 1) c0) by (try lia; exact L1).
          destruct (off_of h <? c + 1); cbn [rev app]; rewrite <- ?app_assoc; reflexivity.
      + cbn [sc_true]. apply IH; assumption.
  Qed.

  Theorem elements_stream_clip limit offset :
    0 <= limit -> 0 <= offset ->
    elements_search rv d conds (handler_of limit offset) =
    clip limit offset (elements_search rv d conds HDefault).
  Proof.
    intros Hl Ho. unfold elements_search.
    destruct (handler_of_cases limit offset Hl Ho) as [(-> & -> & _)|(Hh & L0 & W)]; [reflexivity|].
    rewrite (elements_loop_window _ Hh (elements (gr d)) 0 0 0 []) by (try lia; exact L0).
    cbn [rev app]. apply W.
  Qed.

  (* ==================================================================== *)
  (* (b) breadth-first / depth-first search, forward and reverse          *)
  (* ==================================================================== *)

  Variable a : algo.
  Variable reverse : bool.
  Variable origin : Z.

  Lemma search_default_acc : forall fuel work vis c c' acc,
    search_loop rv d a reverse origin conds HDefault fuel work vis c acc =
    option_map (app (rev acc)) (search_loop rv d a reverse origin conds HDefault fuel work vis c' []).
  Proof.
    induction fuel as [|f IH]; intros work vis c c' acc; [reflexivity|].
    destruct work as [|[index dist] rest].
    - cbn [search_loop option_map rev]. now rewrite app_nil_r.
    - cbn [search_loop handle]. destruct (visited vis index); [apply IH|].
      destruct (eval_conditions rv d index dist conds) as [b|b|b] eqn:E;
        [|exfalso; exact (no_finish rv d index dist conds b E)|];
        rewrite (IH _ _ c c' (if b then index :: acc else acc)),
                (IH _ _ c' c' (if b then [index] else []));
        match goal with |- context [search_loop ?r ?dd ?aa ?rr ?oo ?cc ?hh ?ff ?ww ?vv ?c1 []] =>
          destruct (search_loop r dd aa rr oo cc hh ff ww vv c1 []) end;
        cbn [option_map]; try reflexivity;
        destruct b; cbn [rev app]; rewrite <- ?app_assoc; reflexivity.
  Qed.

  (* the simulation: from the same work list and visited set, the run with a limit/offset
     handler (counter c = number of elements selected so far) records the window of what
     the plain run selects; the control's kind — hence the traversal — is the same until
     the handler finishes *)
  Lemma search_loop_window h :
    h <> HDefault ->
    forall fuel work vis c c0 acc l,
      0 <= c -> at_lim (lim_of h) c = false ->
      search_loop rv d a reverse origin conds HDefault fuel work vis c0 [] = Some l ->
      search_loop rv d a reverse origin conds h fuel work vis c acc =
      Some (rev acc ++ window (off_of h) (lim_of h) c l).
  Proof.
    intros Hh. induction fuel as [|f IH]; intros work vis c c0 acc l Hc Hl Hbase; [discriminate|].
    destruct work as [|[index dist] rest].
    - cbn [search_loop] in *. injection Hbase as <-. cbn [window]. now rewrite app_nil_r.
    - destruct (visited vis index) eqn:V.
      + rewrite search_loop_visited in * by exact V. eapply IH; eassumption.
      + rewrite (search_loop_step rv d a reverse origin conds HDefault f index dist rest vis c0 []
                   _ _ V eq_refl) in Hbase.
        pose proof (no_finish rv d index dist conds) as NF.
        pose proof (handle_spec h c (eval_conditions rv d index dist conds) Hh Hc Hl) as HS.
        set (e := eval_conditions rv d index dist conds) in *.
        assert (K : kind_of e <> KFinish)
          by (destruct e as [b|b|b]; [discriminate|exact (fun _ => NF b eq_refl)|discriminate]).
        cbv zeta in Hbase.
        assert (Hb : search_loop rv d a reverse origin conds HDefault f
                       (expand rv (gr d) a reverse origin rest (index, dist) (follows e))
                       (Z.abs index :: vis) c0 (if sc_true e then [index] else []) = Some l)
          by (destruct e; cbn [kind_of] in *; [exact Hbase|congruence|exact Hbase]).
        clear Hbase.
        rewrite (search_default_acc f _ _ c0 c0 (if sc_true e then [index] else [])) in Hb.
        destruct (search_loop rv d a reverse origin conds HDefault f
                    (expand rv (gr d) a reverse origin rest (index, dist) (follows e))
                    (Z.abs index :: vis) c0 []) as [l'|] eqn:Hl'; [|discriminate].
        cbn [option_map] in Hb. injection Hb as <-.
        destruct (sc_true e) eqn:T; cbn [rev app].
        * cbn [window]. destruct (at_lim (lim_of h) (c + 1)) eqn:L1.
          -- rewrite (search_loop_step rv d a reverse origin conds h f index dist rest vis c acc _ _ V HS).
             cbv zeta. cbn [kind_of sc_true].
             destruct (off_of h <? c + 1); cbn [rev app]; now rewrite ?app_nil_r.
          -- rewrite (search_loop_step rv d a reverse origin conds h f index dist rest vis c acc _ _ V HS).
             cbv zeta. rewrite sc_set_kind, sc_set_follows, sc_set_true.
             rewrite (IH _ _ (c + 1) c0 _ l') by (try lia; assumption).
             destruct (kind_of e); [| |congruence];
               destruct (off_of h <? c + 1); cbn [rev app]; rewrite <- ?app_assoc; reflexivity.
        * rewrite (search_loop_step rv d a reverse origin conds h f index dist rest vis c acc _ _ V HS).
          cbv zeta. rewrite T. rewrite (IH _ _ c c0 acc l') by assumption.
          destruct (kind_of e); [reflexivity|reflexivity|congruence].
  Qed.

  Theorem graph_search_stream_clip limit offset l :
    0 <= limit -> 0 <= offset ->
    graph_search rv d a reverse origin conds HDefault = Some l ->
    graph_search rv d a reverse origin conds (handler_of limit offset) = Some (clip limit offset l).
  Proof.
    intros Hl Ho. unfold graph_search.
    destruct (handler_of_cases limit offset Hl Ho) as [(-> & -> & _)|(Hh & L0 & W)]; [exact (fun H => H)|].
    destruct (is_node (gr d) origin || is_edge (gr d) origin).
    - intros Hbase. rewrite (search_loop_window _ Hh _ _ _ 0 0 [] l) by (try lia; assumption).
      cbn [rev app]. now rewrite W.
    - intros [= <-]. now rewrite clip_nil.
  Qed.
End Stream.

(* ====================================================================== *)
(* (e) SearchQuery::search                                                *)
(* ====================================================================== *)

(* the same query without limit and offset *)
Definition unsliced (s : search_query) : search_query :=
  {| s_algorithm := s_algorithm s; s_origin := s_origin s; s_destination := s_destination s;
     s_limit := 0; s_offset := 0; s_order_by := s_order_by s; s_conditions := s_conditions s |}.

Lemma sorted_slice_clip rv cmp limit offset (r : sres) l :
  fix_slice_clamp rv = true ->
  match r with SOk ids => slice_ids rv 0 0 (stable_sort cmp ids) | e => e end = SOk l ->
  match r with SOk ids => slice_ids rv limit offset (stable_sort cmp ids) | e => e end = SOk (clip limit offset l).
Proof.
  intros Hrv. destruct r as [ids|e|]; try discriminate.
  rewrite !slice_ids_clip by exact Hrv. intros [= <-]. reflexivity.
Qed.

Lemma stream_clip rv d a reverse origin conds limit offset l :
  0 <= limit -> 0 <= offset ->
  opt_ids (graph_search rv d a reverse origin conds HDefault) = SOk l ->
  opt_ids (graph_search rv d a reverse origin conds (handler_of limit offset)) = SOk (clip limit offset l).
Proof.
  intros Hl Ho. destruct (graph_search rv d a reverse origin conds HDefault) as [l0|] eqn:E; [|discriminate].
  cbn [opt_ids]. intros [= <-]. now rewrite (graph_search_stream_clip rv d conds a reverse origin limit offset l0 Hl Ho E).
Qed.

(* every graph search (breadth-first, depth-first, forward or reverse, path, elements; ordered
   or not) with offset O and limit L returns the elements at positions O .. O+L-1 of the
   same search without them *)
Theorem search_clip rv d s l :
  fix_slice_clamp rv = true ->
  0 <= s_limit s -> 0 <= s_offset s -> s_algorithm s <> AIndex ->
  search rv d (unsliced s) = SOk l ->
  search rv d s = SOk (clip (s_limit s) (s_offset s) l).
Proof.
  intros Hrv. destruct s as [alg o dst lim off ord conds].
  unfold search, unsliced;
    cbn [s_algorithm s_origin s_destination s_limit s_offset s_order_by s_conditions].
  intros Hl Ho Halg.
  change (handler_of 0 0) with HDefault.
  destruct alg; [| |congruence|].
  - destruct (is_zero_id dst); [|destruct (is_zero_id o)].
    + destruct (db_id d o) as [origin|e]; [|discriminate].
      destruct ord; [apply stream_clip; assumption|apply sorted_slice_clip; exact Hrv].
    + destruct (db_id d dst) as [dest|e]; [|discriminate].
      destruct ord; [apply stream_clip; assumption|apply sorted_slice_clip; exact Hrv].
    + destruct (db_id d o) as [origin|e]; [|discriminate].
      destruct (db_id d dst) as [dest|e]; [|discriminate].
      apply sorted_slice_clip; exact Hrv.
  - destruct (is_zero_id dst); [|destruct (is_zero_id o)].
    + destruct (db_id d o) as [origin|e]; [|discriminate].
      destruct ord; [apply stream_clip; assumption|apply sorted_slice_clip; exact Hrv].
    + destruct (db_id d dst) as [dest|e]; [|discriminate].
      destruct ord; [apply stream_clip; assumption|apply sorted_slice_clip; exact Hrv].
    + destruct (db_id d o) as [origin|e]; [|discriminate].
      destruct (db_id d dst) as [dest|e]; [|discriminate].
      apply sorted_slice_clip; exact Hrv.
  - destruct ord.
    + intros [= <-]. now rewrite elements_stream_clip.
    + apply (sorted_slice_clip rv _ lim off (SOk _) l Hrv).
Qed.

(* ... and no limit / offset (however large) makes any search panic *)
Theorem search_no_panic rv d s :
  fix_slice_clamp rv = true -> search rv d s <> SPanic.
Proof.
  intros Hrv.
  assert (S1 : forall cmp (r : sres), r <> SPanic ->
             match r with SOk ids => slice_ids rv (s_limit s) (s_offset s) (stable_sort cmp ids) | e => e end
             <> SPanic).
  { intros cmp [ids|e|] Hr; [|discriminate|congruence]. apply slice_ids_no_panic. exact Hrv. }
  assert (S2 : forall o : option (list Z), opt_ids o <> SPanic) by (intros [x|]; discriminate).
  unfold search.
  destruct (s_algorithm s).
  - destruct (is_zero_id (s_destination s)); [|destruct (is_zero_id (s_origin s))].
    + destruct (db_id d (s_origin s)); [|discriminate]. destruct (s_order_by s); [apply S2|apply S1, S2].
    + destruct (db_id d (s_destination s)); [|discriminate]. destruct (s_order_by s); [apply S2|apply S1, S2].
    + destruct (db_id d (s_origin s)); [|discriminate]. destruct (db_id d (s_destination s)); [|discriminate].
      apply S1, S2.
  - destruct (is_zero_id (s_destination s)); [|destruct (is_zero_id (s_origin s))].
    + destruct (db_id d (s_origin s)); [|discriminate]. destruct (s_order_by s); [apply S2|apply S1, S2].
    + destruct (db_id d (s_destination s)); [|discriminate]. destruct (s_order_by s); [apply S2|apply S1, S2].
    + destruct (db_id d (s_origin s)); [|discriminate]. destruct (db_id d (s_destination s)); [|discriminate].
      apply S1, S2.
  - destruct (s_conditions s) as [|[lg md [| | | | | |k op v| | |]] r]; try discriminate.
    destruct (idx_find (indexes d) k); discriminate.
  - destruct (s_order_by s); [discriminate|]. apply slice_ids_no_panic. exact Hrv.
Qed.

(* ordered and path searches: the result is that slice of the stably sorted full result.
   `plain s` is the same search without limit, offset and ordering. *)
Definition plain (s : search_query) : search_query :=
  {| s_algorithm := s_algorithm s; s_origin := s_origin s; s_destination := s_destination s;
     s_limit := 0; s_offset := 0; s_order_by := []; s_conditions := s_conditions s |}.

Lemma stable_sort_noorder d l : stable_sort (order_cmp d []) l = l.
Proof.
  induction l as [|x l IH]; [reflexivity|]. rewrite stable_sort_cons, IH. destruct l; reflexivity.
Qed.

Lemma sorted_slice_of_plain rv d ord limit offset (r : sres) ids :
  fix_slice_clamp rv = true ->
  match r with SOk l => slice_ids rv 0 0 (stable_sort (order_cmp d []) l) | e => e end = SOk ids ->
  match r with SOk l => slice_ids rv limit offset (stable_sort (order_cmp d ord) l) | e => e end =
  SOk (clip limit offset (stable_sort (order_cmp d ord) ids)).
Proof.
  intros Hrv. destruct r as [l|e|]; try discriminate.
  rewrite !slice_ids_clip by exact Hrv. rewrite stable_sort_noorder. intros [= <-]. reflexivity.
Qed.

Lemma plain_branch rv d ord lim off (r r' : sres) ids :
  fix_slice_clamp rv = true ->
  (r = SOk ids -> r' = SOk (clip lim off ids)) ->
  r = SOk ids ->
  (if match ord with [] => false | _ :: _ => true end
   then match r with SOk l => slice_ids rv lim off (stable_sort (order_cmp d ord) l) | e => e end
   else r') = SOk (clip lim off (stable_sort (order_cmp d ord) ids)).
Proof.
  intros Hrv H' H. destruct ord as [|o1 ord'].
  - rewrite stable_sort_noorder. exact (H' H).
  - rewrite H. apply slice_ids_clip. exact Hrv.
Qed.

Theorem search_sorted_clip rv d s ids :
  fix_slice_clamp rv = true ->
  0 <= s_limit s -> 0 <= s_offset s -> s_algorithm s <> AIndex ->
  search rv d (plain s) = SOk ids ->
  search rv d s = SOk (clip (s_limit s) (s_offset s) (stable_sort (order_cmp d (s_order_by s)) ids)).
Proof.
  intros Hrv. destruct s as [alg o dst lim off ord conds].
  unfold search, plain;
    cbn [s_algorithm s_origin s_destination s_limit s_offset s_order_by s_conditions].
  intros Hl Ho Halg.
  change (handler_of 0 0) with HDefault.
  destruct alg; [| |congruence|].
  - destruct (is_zero_id dst); [|destruct (is_zero_id o)].
    + destruct (db_id d o) as [origin|e]; [|discriminate]. intros H.
      apply plain_branch; [exact Hrv|intros H'; apply stream_clip; assumption|exact H].
    + destruct (db_id d dst) as [dest|e]; [|discriminate]. intros H.
      apply plain_branch; [exact Hrv|intros H'; apply stream_clip; assumption|exact H].
    + destruct (db_id d o) as [origin|e]; [|discriminate].
      destruct (db_id d dst) as [dest|e]; [|discriminate].
      apply sorted_slice_of_plain; exact Hrv.
  - destruct (is_zero_id dst); [|destruct (is_zero_id o)].
    + destruct (db_id d o) as [origin|e]; [|discriminate]. intros H.
      apply plain_branch; [exact Hrv|intros H'; apply stream_clip; assumption|exact H].
    + destruct (db_id d dst) as [dest|e]; [|discriminate]. intros H.
      apply plain_branch; [exact Hrv|intros H'; apply stream_clip; assumption|exact H].
    + destruct (db_id d o) as [origin|e]; [|discriminate].
      destruct (db_id d dst) as [dest|e]; [|discriminate].
      apply sorted_slice_of_plain; exact Hrv.
  - intros [= <-]. destruct ord as [|o1 ord'].
    + rewrite stable_sort_noorder. now rewrite elements_stream_clip.
    + apply slice_ids_clip. exact Hrv.
Qed.

(* ====================================================================== *)
(* a concrete database: 1 -(-4)-> 2 -(-5)-> 3                              *)
(* ====================================================================== *)

Definition ex_db : db :=
  let '(n1, d1) := insert_node_db db_new in
  let '(n2, d2) := insert_node_db d1 in
  let '(n3, d3) := insert_node_db d2 in
  match insert_edge_db d3 n1 n2 with
  | ROk (_, d4) => match insert_edge_db d4 n2 n3 with ROk (_, d5) => d5 | _ => d4 end
  | _ => d3
  end.

Definition ex_q alg o dst lim off ord conds : search_query :=
  {| s_algorithm := alg; s_origin := QId o; s_destination := QId dst; s_limit := lim; s_offset := off;
     s_order_by := ord; s_conditions := conds |}.

Lemma slice_examples :
  search rv_fixed ex_db (ex_q ABreadthFirst 1 0 0 0 [] []) = SOk [1; -4; 2; -5; 3] /\
  search rv_fixed ex_db (ex_q ABreadthFirst 1 0 2 1 [] []) = SOk [-4; 2] /\
  search rv_fixed ex_db (ex_q ADepthFirst 0 3 2 2 [] [Cond LAnd MNone CNode]) = SOk [1] /\
  search rv_fixed ex_db (ex_q ABreadthFirst 1 3 0 0 [] []) = SOk [1; -4; 2; -5; 3] /\
  search rv_fixed ex_db (ex_q ABreadthFirst 1 3 2 9 [] []) = SOk [] /\
  search rv_pinned ex_db (ex_q ABreadthFirst 1 3 2 9 [] []) = SPanic /\
  search rv_fixed ex_db (ex_q AElements 0 0 3 1 [] []) = SOk [2; 3; -4] /\
  search rv_fixed ex_db (ex_q AElements 0 0 3 9 [Asc (DI64 1)] []) = SOk [] /\
  search rv_pinned ex_db (ex_q AElements 0 0 3 9 [Asc (DI64 1)] []) = SPanic.
Proof. vm_compute. repeat split. Qed.

(* ====================================================================== *)
(* u64 arithmetic of LimitOffsetHandler::new                              *)
(* ====================================================================== *)

(* The code keeps `limit + offset` in a u64.  Before fix: commit ea4fd27 the sum was unchecked
   (debug: overflow panic; release: wrapped, e.g. offset 2, limit u64::MAX on 5 elements gave []
   instead of [3; 4; 5]); now it is `limit.saturating_add(offset)`.  The model adds in Z.  As long
   as fewer than 2^64 - 2 elements have been selected the saturated and the exact sum make the
   handler behave identically, so the theorems above transfer to the repaired code. *)
Definition u64_max : Z := 18446744073709551615.

Lemma limit_offset_no_wrap limit offset counter control :
  0 <= counter -> counter + 1 < u64_max ->
  handle (HLimitOffset (Z.min (limit + offset) u64_max) offset) counter control =
  handle (HLimitOffset (limit + offset) offset) counter control.
Proof.
  intros Hc Hm. unfold handle.
  destruct (sc_true control).
  - replace (counter + 1 =? Z.min (limit + offset) u64_max) with (counter + 1 =? limit + offset) by lia.
    reflexivity.
  - replace (counter =? Z.min (limit + offset) u64_max) with (counter =? limit + offset) by lia.
    reflexivity.
Qed.
