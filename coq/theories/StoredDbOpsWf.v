(* StoredDbOpsWf.v — proofs (stored database, part 21): the side condition so_graph_ok of the core-operation theorems is a
   consequence of C08's well-formedness (`wf g`: some abstract multigraph with a free list simulates the arrays — what every
   history of graph.rs operations from graph_new satisfies, C08_history_refines) and the capacity bound 2^60. *)
From Agdb Require Import Bytes Graph GraphArr GraphSim GraphSim2 GraphSim3 GraphOps GraphOps2 GraphProofs GraphRemove GraphSpec GraphWf.
From Agdb Require Import DbModel Collections CollGraph StoredDbRep StoredDbOps StoredDbOpsGraph.
From Coq Require Import ZifyBool ZifyNat ZifyN.
Open Scope Z_scope.

Theorem wf_so_graph_ok g : wf g -> capacity g < 1152921504606846976 -> so_graph_ok g.
Proof.
  intros W Hcap. pose proof (wf_node_count g W) as Hcnt. pose proof (wf_capacity_pos g W) as Hpos.
  destruct W as [a [fl [[L1 [L2 L3]] HS]]]. unfold capacity in *.
  constructor; try assumption; try lia.
  - (* the free-list head *)
    pose proof (r_free _ _ _ _ _ _ _ _ _ _ _ _ _ HS) as HF.
    rewrite (f_head _ _ _ _ _ _ _ _ _ HF). destruct fl as [|x r]; cbn [fhead]; [intros X; contradiction X; reflexivity|].
    intros _. destruct (f_fl _ _ _ _ _ _ _ _ _ HF x (or_introl eq_refl)) as [Hr _]. unfold zabs_nat. unfold capacity in Hr. lia.
  - unfold node_count in Hcnt. lia.
Qed.
