(* Paths.v — model of the file-system paths the agdb server derives from an
   owner (user) name and a database name
   (agdb_server/src/db_pool.rs, agdb/src/storage/write_ahead_log.rs), with Unix
   path semantics (std::path on cfg(unix): the only separator is '/', a path is
   absolute iff it starts with '/').
   Definitions only (executable, extracted).  Proofs are in PathsProofs.v. *)
From Agdb Require Import Bytes.
Local Open Scope nat_scope.

Definition name := bytes.
Definition path := bytes.

(* ---------- byte-string literals (spelled out so that nothing but `byte`
   constructors is extracted; PathsProofs.v checks each against its string) ---------- *)
Definition c_slash : byte := x2f.       (* '/'  *)
Definition c_dot : byte := x2e.         (* '.'  *)
Definition c_backslash : byte := x5c.   (* '\\' *)
Definition c_nul : byte := x00.

Definition s_dot : bytes := [x2e].                                  (* "."       *)
Definition s_dotdot : bytes := [x2e; x2e].                          (* ".."      *)
Definition s_backups : bytes := [x62; x61; x63; x6b; x75; x70; x73]. (* "backups" *)
Definition s_audit : bytes := [x61; x75; x64; x69; x74].            (* "audit"   *)
Definition s_bak : bytes := [x2e; x62; x61; x6b].                   (* ".bak"    *)
Definition s_log : bytes := [x2e; x6c; x6f; x67].                   (* ".log"    *)
Definition s_audit_ext : bytes := [x2e; x61; x75; x64; x69; x74].   (* ".audit"  *)

Definition is_sep (c : byte) : bool := byte_eqb c c_slash.
(* '/' or '\\': what the name validator treats as a separator *)
Definition is_anysep (c : byte) : bool := byte_eqb c c_slash || byte_eqb c c_backslash.
Definition is_nil (l : bytes) : bool := match l with [] => true | _ => false end.

(* ---------- Path::join ---------- *)

(* Path::is_absolute / has_root on Unix: the first byte is '/' *)
Definition is_abs (p : path) : bool :=
  match p with c :: _ => is_sep c | [] => false end.

(* the last byte is '/' (false for the empty path) *)
Definition last_is_sep (p : path) : bool :=
  match rev p with c :: _ => is_sep c | [] => false end.

(* PathBuf::push (library/std/src/path.rs, `_push`) on Unix:
     need_sep = buf.last().map(|c| !is_sep_byte(c)).unwrap_or(false);
     if path.is_absolute() { buf.truncate(0) }            -- absolute right operand replaces
     else if need_sep { buf.push('/') }
     buf.push(path)
   Hence join "" b = b, join "a/" b = "a/b", join "a" b = "a/b", and join "a" "" = "a/". *)
Definition join (a b : path) : path :=
  if is_abs b then b
  else if is_nil a || last_is_sep a then a ++ b
  else a ++ c_slash :: b.

(* format!(".{db}")   db_pool.rs:206, 324 *)
Definition dot_name (d : name) : name := c_dot :: d.

(* db_pool.rs:678  Path::new(&config.data_dir).join(owner).join(db) *)
Definition db_file (data : path) (o d : name) : path := join (join data o) d.
(* db_pool.rs:662 *)
Definition db_backup_dir (data : path) (o : name) : path := join (join data o) s_backups.
(* db_pool.rs:670 *)
Definition db_audit_dir (data : path) (o : name) : path := join (join data o) s_audit.
(* db_pool.rs:658  db_backup_dir(..).join(format!("{db}.bak")) *)
Definition db_backup_file (data : path) (o d : name) : path := join (db_backup_dir data o) (d ++ s_bak).
(* db_pool.rs:666  db_backup_dir(..).join(format!("{db}.log")) *)
Definition db_backup_audit_file (data : path) (o d : name) : path := join (db_backup_dir data o) (d ++ s_log).
(* db_pool.rs:674  db_audit_dir(..).join(format!("{db}.log")) *)
Definition db_audit_file (data : path) (o d : name) : path := join (db_audit_dir data o) (d ++ s_log).

(* ---------- WriteAheadLog::wal_filename (write_ahead_log.rs:62) ---------- *)

(* insert '.' right after the LAST occurrence of sep; None if sep does not occur
   (str::rfind + String::insert; both separators are ASCII, so byte positions and
   char positions agree on UTF-8 input) *)
Fixpoint insert_dot_after_last (sep : byte) (p : bytes) : option bytes :=
  match p with
  | [] => None
  | c :: r =>
      match insert_dot_after_last sep r with
      | Some r' => Some (c :: r')
      | None => if byte_eqb c sep then Some (c :: c_dot :: r) else None
      end
  end.

(* if let Some(slash) = rfind('/') { slash+1 } else if let Some(b) = rfind('\\') { b+1 } else { 0 } *)
Definition wal_filename (p : path) : path :=
  match insert_dot_after_last c_slash p with
  | Some q => q
  | None =>
      match insert_dot_after_last c_backslash p with
      | Some q => q
      | None => c_dot :: p
      end
  end.

(* the file delete_db (db_pool.rs:324) and do_clear_db (db_pool.rs:206) remove as "the WAL":
   db_file(owner, &format!(".{db}"), ..) *)
Definition server_wal (data : path) (o d : name) : path := db_file data o (dot_name d).
(* do_rollback (db_pool.rs:586): db_backup_dir(owner).join(db) *)
Definition rollback_tmp (data : path) (o d : name) : path := join (db_backup_dir data o) d.
(* swap_audit_with_backup (db_pool.rs:612): db_backup_dir(owner).join(format!("{db}.audit")) *)
Definition rollback_audit_tmp (data : path) (o d : name) : path :=
  join (db_backup_dir data o) (d ++ s_audit_ext).

Inductive fkind :=
| FDb           (* the database file *)
| FWal          (* wal_filename (db_file ..): the WAL agdb itself creates next to the database *)
| FWalServer    (* server_wal: the file the server removes as the WAL *)
| FBackup       (* backups/<db>.bak *)
| FBackupAudit  (* backups/<db>.log *)
| FAudit        (* audit/<db>.log *)
| FTmpDb        (* backups/<db>        (rollback temporary) *)
| FTmpAudit.    (* backups/<db>.audit  (rollback temporary) *)

Definition fkind_eqb (a b : fkind) : bool :=
  match a, b with
  | FDb, FDb | FWal, FWal | FWalServer, FWalServer | FBackup, FBackup
  | FBackupAudit, FBackupAudit | FAudit, FAudit | FTmpDb, FTmpDb | FTmpAudit, FTmpAudit => true
  | _, _ => false
  end.

(* every path the server (or agdb on its behalf) creates, renames or removes for database (o, d) *)
Definition files (data : path) (o d : name) : list (fkind * path) :=
  [ (FDb, db_file data o d);
    (FWal, wal_filename (db_file data o d));
    (FWalServer, server_wal data o d);
    (FBackup, db_backup_file data o d);
    (FBackupAudit, db_backup_audit_file data o d);
    (FAudit, db_audit_file data o d);
    (FTmpDb, rollback_tmp data o d);
    (FTmpAudit, rollback_audit_tmp data o d) ].

(* the directories the server create_dir_all's for an owner:
   Path::new(data_dir).join(owner) (db_pool.rs:292, 421), db_audit_dir (77, 293, 602, 618),
   db_backup_dir (126, 253, 619) *)
Definition dirs (data : path) (o : name) : list path :=
  [ join data o; db_audit_dir data o; db_backup_dir data o ].

(* ---------- lexical resolution ---------- *)

(* raw split on '/', keeping empty pieces; never the empty list *)
Fixpoint split_sep (p : path) : list bytes :=
  match p with
  | [] => [[]]
  | c :: r =>
      if is_sep c then [] :: split_sep r
      else match split_sep r with
           | h :: t => (c :: h) :: t
           | [] => [[c]]      (* unreachable *)
           end
  end.

(* Path::components without the root: the non-empty pieces ("a//b/" -> ["a"; "b"]) *)
Definition components (p : path) : list bytes :=
  filter (fun c => negb (is_nil c)) (split_sep p).

(* lexical normal form of a path: absolute?, number of leading ".." that climbed above the
   starting point (always 0 for an absolute path: ".." at the root stays at the root), and the
   remaining normal components, outermost first *)
Record rpath := { r_abs : bool; r_ups : nat; r_comps : list bytes }.

(* one component; state = (ups, stack of components, innermost first) *)
Definition resolve_step (abs : bool) (st : nat * list bytes) (c : bytes) : nat * list bytes :=
  if bytes_eqb c s_dot then st
  else if bytes_eqb c s_dotdot then
    match snd st with
    | _ :: t => (fst st, t)
    | [] => if abs then st else (S (fst st), [])
    end
  else (fst st, c :: snd st).

(* no symlinks: what the kernel does with the path when every intermediate directory is a
   real directory *)
Definition resolve (p : path) : rpath :=
  let st := fold_left (resolve_step (is_abs p)) (components p) (0, []) in
  {| r_abs := is_abs p; r_ups := fst st; r_comps := rev (snd st) |}.

(* r extended by further normal components *)
Definition r_extend (r : rpath) (l : list bytes) : rpath :=
  {| r_abs := r_abs r; r_ups := r_ups r; r_comps := r_comps r ++ l |}.

(* where each file of database d lies relative to the owner's directory when the names are
   plain components (PathsProofs.files_resolved: for valid names,
   resolve f = r_extend (resolve data) (o :: rel_path k d)) *)
Definition rel_path (k : fkind) (d : name) : list bytes :=
  match k with
  | FDb => [d]
  | FWal | FWalServer => [dot_name d]
  | FBackup => [s_backups; d ++ s_bak]
  | FBackupAudit => [s_backups; d ++ s_log]
  | FAudit => [s_audit; d ++ s_log]
  | FTmpDb => [s_backups; d]
  | FTmpAudit => [s_backups; d ++ s_audit_ext]
  end.

Fixpoint comps_eqb (a b : list bytes) : bool :=
  match a, b with
  | [], [] => true
  | x :: a', y :: b' => bytes_eqb x y && comps_eqb a' b'
  | _, _ => false
  end.

Definition rpath_eqb (a b : rpath) : bool :=
  Bool.eqb (r_abs a) (r_abs b) && Nat.eqb (r_ups a) (r_ups b) && comps_eqb (r_comps a) (r_comps b).

(* b = a ++ rest with rest <> [] *)
Fixpoint strict_prefix (a b : list bytes) : bool :=
  match a, b with
  | [], _ :: _ => true
  | x :: a', y :: b' => bytes_eqb x y && strict_prefix a' b'
  | _, _ => false
  end.

(* f lies strictly below dir: f = dir extended by at least one component *)
Definition inside (dir f : rpath) : bool :=
  Bool.eqb (r_abs dir) (r_abs f) && Nat.eqb (r_ups dir) (r_ups f)
  && strict_prefix (r_comps dir) (r_comps f).

(* ---------- name validation ---------- *)

(* Up to /repo 7a9106f the server validated neither owner nor database names on the routes that
   create files (routes/db.rs add/copy/rename, routes/admin/db.rs): the strings went straight into
   db_file (`accepts_today`).  Since 7a9106f utilities::validate_db_name = `valid_name` below is
   applied to database names there.  Only user names have a length check (password.rs:109, len >= 3), which does not
   restrict their content. *)
Definition accepts_today (n : name) : bool := true.

Fixpoint starts_with (pre n : bytes) : bool :=
  match pre, n with
  | [], _ => true
  | x :: pre', y :: n' => byte_eqb x y && starts_with pre' n'
  | _ :: _, [] => false
  end.

Definition ends_with (suf n : bytes) : bool := starts_with (rev suf) (rev n).

Inductive name_defect :=
| NEmpty            (* ""                                                        *)
| NNul              (* contains NUL                                              *)
| NSeparator        (* contains '/' or '\\'                                      *)
| NDotName          (* "." or ".."                                               *)
| NLeadingDot       (* starts with '.': would be the WAL of another database     *)
| NReserved         (* "audit" or "backups": the per-owner directories           *)
| NReservedSuffix.  (* ends with ".bak", ".log" or ".audit": backups/<db> (the rollback temporary)
                       would be the backup / backup audit / audit temporary of another database *)

(* first violated rule, in the order of the constructors *)
Definition name_defect_of (n : name) : option name_defect :=
  if is_nil n then Some NEmpty
  else if existsb (fun c => byte_eqb c c_nul) n then Some NNul
  else if existsb is_anysep n then Some NSeparator
  else if bytes_eqb n s_dot || bytes_eqb n s_dotdot then Some NDotName
  else if starts_with s_dot n then Some NLeadingDot
  else if bytes_eqb n s_audit || bytes_eqb n s_backups then Some NReserved
  else if ends_with s_bak n || ends_with s_log n || ends_with s_audit_ext n then Some NReservedSuffix
  else None.

(* the candidate validator (for owner and database names alike) *)
Definition valid_name (n : name) : bool :=
  match name_defect_of n with None => true | Some _ => false end.

(* a component that resolve pushes as is: non-empty, no '/', neither "." nor ".." *)
Definition normal_comp (c : bytes) : bool :=
  negb (is_nil c) && negb (existsb is_sep c) && negb (bytes_eqb c s_dot) && negb (bytes_eqb c s_dotdot).

(* ---------- the two observable defects ---------- *)

(* some file of database (o, d) is not strictly inside the owner's directory *)
Definition escapes (data : path) (o d : name) : bool :=
  existsb (fun kf => negb (inside (resolve (join data o)) (resolve (snd kf)))) (files data o d).

(* two resolved paths that cannot both be used as files: equal, or one an ancestor of the other *)
Definition overlap (a b : rpath) : bool := rpath_eqb a b || inside a b || inside b a.

(* a file that equals a needed directory or is an ancestor of it *)
Definition file_blocks_dir (f g : rpath) : bool := rpath_eqb f g || inside f g.

(* databases (o, d) and (o', d') interfere: some file of one overlaps a file of the other, or
   some file of one equals / is an ancestor of a directory the server needs for the other's
   owner (symmetric in the two databases) *)
Definition clashes (data : path) (o d o' d' : name) : bool :=
  let fs := map (fun kf => resolve (snd kf)) (files data o d) in
  let fs' := map (fun kf => resolve (snd kf)) (files data o' d') in
  let ds := map resolve (dirs data o) in
  let ds' := map resolve (dirs data o') in
  existsb (fun f => existsb (overlap f) fs') fs
  || existsb (fun f => existsb (file_blocks_dir f) ds') fs
  || existsb (fun f' => existsb (file_blocks_dir f') ds) fs'.

(* ---------- which files an operation creates / removes ----------
   (file-backed databases: DbKind::Mapped / DbKind::File; db_pool.rs add_db, copy_db,
   rename_db/do_rename, backup_db, clear_db, delete_db, exec_mut).  Used by the correspondence
   check: the files that appear / disappear on the real server's disk for one request must be
   exactly the listed kinds of `files data o d` (those whose source existed). *)
Inductive fsop :=
| FsAdd          (* add (o,d)                       *)
| FsCopyTo       (* copy .. -> (o,d)                *)
| FsRenameFrom   (* rename (o,d) -> ..  (old name)  *)
| FsRenameTo     (* rename .. -> (o,d)  (new name)  *)
| FsBackup       (* backup (o,d)                    *)
| FsClearAll     (* clear (o,d) resource=all        *)
| FsDelete       (* delete (o,d)                    *)
| FsExecMut.     (* first mutating batch on (o,d)   *)

Definition op_creates (op : fsop) : list fkind :=
  match op with
  | FsAdd => [FDb; FWal]
  | FsCopyTo => [FDb; FWal; FAudit]
  | FsRenameTo => [FDb; FWal; FBackup; FBackupAudit; FAudit]
  | FsBackup => [FBackup; FBackupAudit]
  | FsExecMut => [FAudit]
  | _ => []
  end.

Definition op_removes (op : fsop) : list fkind :=
  match op with
  | FsRenameFrom => [FDb; FWal; FBackup; FBackupAudit; FAudit]
  | FsClearAll => [FBackup; FBackupAudit; FAudit]
  | FsDelete => [FDb; FWalServer; FBackup; FBackupAudit; FAudit]
  | _ => []
  end.

Definition paths_of_kinds (data : path) (o d : name) (ks : list fkind) : list (fkind * rpath) :=
  flat_map (fun kf => if existsb (fkind_eqb (fst kf)) ks then [(fst kf, resolve (snd kf))] else [])
           (files data o d).
