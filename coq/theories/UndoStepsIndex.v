(* UndoStepsIndex.v — C13_step_inverse for insert_index (with back-fill) and remove_index. *)
From Agdb Require Import Bytes BytesProofs DbValue Graph DbModel Revisions UndoBase UndoObs UndoAlias UndoKv
  UndoGraphBase UndoGraph UndoAbs UndoDb UndoStepsKv UndoStepsKv2.
From Coq Require Import Permutation ZifyBool ZifyNat ZifyN.
Open Scope Z_scope.

Lemma db_eta d : d = {| gr := gr d; aliases := aliases d; vals := vals d; indexes := indexes d; undo := undo d |}.
Proof. destruct d; reflexivity. Qed.

Section Steps.
  Variable rv : revision.
  Hypothesis Hrv : fix_rollback_replace rv = true.

  (* ---- insert_index ---- *)

  (* what the back-fill can change: only the contents of the index on `key` *)
  Definition backfill_inv (key : dbvalue) (d0 a : db) : Prop :=
    gr a = gr d0 /\ aliases a = aliases d0 /\ vals a = vals d0 /\ undo a = undo d0 /\
    map fst (indexes a) = map fst (indexes d0) /\
    (forall key', key' <> key -> idx_find (indexes a) key' = idx_find (indexes d0) key').

  Lemma backfill_inv_insert key d0 a v id :
    backfill_inv key d0 a -> backfill_inv key d0 (index_insert_if a key v id).
  Proof.
    intros (H1 & H2 & H3 & H4 & H5 & H6). repeat split; cbn [index_insert_if with_indexes gr aliases vals undo indexes]; auto.
    - unfold idx_insert_id. rewrite idx_update_keys. assumption.
    - intros key' Hne. unfold idx_insert_id. rewrite idx_find_update'.
      destruct (dbv_eqb_spec key key'); [congruence|]. apply H6, Hne.
  Qed.

  Lemma backfill_inv_inner key d0 id l : forall a,
    backfill_inv key d0 a ->
    backfill_inv key d0 (fold_left (fun a (x : kv) => if dbv_eqb (fst x) key then index_insert_if a key (snd x) id else a) l a).
  Proof.
    induction l as [|x r IH]; intros a Ha; cbn [fold_left]; [assumption|].
    apply IH. destruct (dbv_eqb (fst x) key); [apply backfill_inv_insert|]; assumption.
  Qed.

  Lemma backfill_inv_outer key d0 slots : forall a,
    backfill_inv key d0 a ->
    backfill_inv key d0
      (fold_left (fun acc i =>
                    let iz := Z.of_nat i in
                    let id := if is_node (gr acc) iz then iz else - iz in
                    fold_left (fun a (x : kv) => if dbv_eqb (fst x) key then index_insert_if a key (snd x) id else a)
                              (kvs_get (vals acc) iz) acc) slots a).
  Proof.
    induction slots as [|s r IH]; intros a Ha; cbn [fold_left]; [assumption|].
    apply IH. apply backfill_inv_inner. assumption.
  Qed.

  Lemma step_insert_index d key n d1 :
    db_ok d -> insert_index d key = ROk (n, d1) -> db_ok d1 /\ undoable rv d d1.
  Proof.
    intros Hok Hins. unfold insert_index in Hins.
    destruct (idx_find (indexes d) key) as [l|] eqn:Enone; [discriminate|].
    injection Hins as En Ed. clear En. subst d1.
    set (d2 := with_indexes (push_undo d (CRemoveIndex key)) (indexes (push_undo d (CRemoveIndex key)) ++ [(key, [])])).
    match goal with |- db_ok ?X /\ _ => set (d3 := X) end.
    assert (Hinv : backfill_inv key d2 d3).
    { unfold d3. apply backfill_inv_outer. repeat split. }
    destruct Hinv as (Eg & Ea & Ev & Eu & Ek & Ef).
    pose proof Hok as [G A V I]. destruct I as (Iok & _ & _).
    rewrite (db_eta d3), Eg, Ea, Ev, Eu. cbn [d2 gr aliases vals undo with_indexes push_undo].
    apply kv_step'; auto.
    - split; [|split]; try (intros k; apply idx_rel_refl);
        unfold idx_ok; rewrite Ek; cbn [d2 indexes with_indexes push_undo]; apply idx_ok_app_new; assumption.
    - intros e (Ie1 & Ie2 & Ie3) Ve. exists (idx_remove (indexes e) key), (vals e).
      split; [reflexivity|]. split; [|exact Ve].
      split; [apply idx_ok_remove; assumption|]. split; [assumption|]. intros key'.
      rewrite idx_find_remove by assumption. destruct (dbv_eqb_spec key key') as [<-|Hne].
      + rewrite Enone. exact I.
      + specialize (Ie3 key'). rewrite Ef in Ie3 by congruence.
        cbn [d2 indexes with_indexes push_undo] in Ie3. rewrite idx_find_app_new in Ie3.
        destruct (idx_find (indexes d) key') eqn:E'; [exact Ie3|].
        destruct (dbv_eqb_spec key key'); [contradiction | exact Ie3].
  Qed.

  (* ---- remove_index ---- *)

  Definition cmd_to_index (key : dbvalue) (p : dbvalue * Z) : command := CInsertToIndex key (fst p) (snd p).

  Lemma push_fold_fields key l : forall d,
    let d1 := fold_left (fun acc (p : dbvalue * Z) => push_undo acc (CInsertToIndex key (fst p) (snd p))) l d in
    gr d1 = gr d /\ aliases d1 = aliases d /\ vals d1 = vals d /\ indexes d1 = indexes d /\
    undo d1 = rev (map (cmd_to_index key) l) ++ undo d.
  Proof.
    induction l as [|p r IH]; intros d; cbn [fold_left]; [repeat split|].
    destruct (IH (push_undo d (CInsertToIndex key (fst p) (snd p)))) as (H1 & H2 & H3 & H4 & H5).
    repeat split; try assumption. rewrite H5. cbn [map rev push_undo undo]. rewrite <- app_assoc. reflexivity.
  Qed.

  Lemma rollback_to_index key l : forall e,
    rollback_cmds rv e (map (cmd_to_index key) l) =
    ROk (with_indexes e (fold_left (fun ix (p : dbvalue * Z) => idx_insert_id ix key (fst p) (snd p)) l (indexes e))).
  Proof.
    induction l as [|p r IH]; intros e; cbn [map rollback_cmds fold_left].
    - rewrite (db_eta e) at 1. reflexivity.
    - cbn [cmd_to_index undo_one]. rewrite IH. reflexivity.
  Qed.

  Lemma fold_insert_id_find key l : forall ix key',
    idx_find (fold_left (fun ix (p : dbvalue * Z) => idx_insert_id ix key (fst p) (snd p)) l ix) key' =
    if dbv_eqb key key' then omap (fun l0 => l0 ++ l) (idx_find ix key') else idx_find ix key'.
  Proof.
    induction l as [|p r IH]; intros ix key'; cbn [fold_left].
    - destruct (dbv_eqb key key'); [|reflexivity]. destruct (idx_find ix key'); cbn [omap]; [rewrite app_nil_r|]; reflexivity.
    - rewrite IH. unfold idx_insert_id. rewrite idx_find_update'. destruct (dbv_eqb key key'); [|reflexivity].
      destruct (idx_find ix key'); cbn [omap]; [|reflexivity]. rewrite <- app_assoc. destruct p. reflexivity.
  Qed.

  Lemma fold_insert_id_ok key l : forall ix,
    idx_ok ix -> idx_ok (fold_left (fun ix (p : dbvalue * Z) => idx_insert_id ix key (fst p) (snd p)) l ix).
  Proof.
    induction l as [|p r IH]; intros ix Hok; cbn [fold_left]; [assumption|]. apply IH, idx_ok_update, Hok.
  Qed.

  Lemma step_remove_index d key :
    db_ok d -> db_ok (snd (remove_index d key)) /\ undoable rv d (snd (remove_index d key)).
  Proof.
    intros Hok. unfold remove_index.
    destruct (idx_find (indexes d) key) as [ids|] eqn:Eids; cbn [snd];
      [|split; [assumption | apply undoable_refl; assumption]].
    destruct (push_fold_fields key ids d) as (Eg & Ea & Ev & Ei & Eu).
    set (d1 := fold_left (fun acc (p : dbvalue * Z) => push_undo acc (CInsertToIndex key (fst p) (snd p))) ids d) in *.
    pose proof Hok as [G A V I]. pose proof I as (Iok & _ & _).
    set (dr := with_indexes (push_undo d1 (CInsertIndex key)) (idx_remove (indexes (push_undo d1 (CInsertIndex key))) key)).
    assert (Hfind : forall key', idx_find (indexes dr) key' = if dbv_eqb key key' then None else idx_find (indexes d) key').
    { intros key'. cbn [dr indexes with_indexes push_undo]. rewrite Ei. apply idx_find_remove, Iok. }
    assert (Iokr : idx_ok (indexes dr)).
    { cbn [dr indexes with_indexes push_undo]. rewrite Ei. apply idx_ok_remove, Iok. }
    split.
    - constructor; cbn [dr gr aliases vals indexes with_indexes push_undo]; rewrite ?Eg, ?Ea, ?Ev; auto.
      split; [|split]; auto. intros k. apply idx_rel_refl.
    - exists (CInsertIndex key :: rev (map (cmd_to_index key) ids)). split.
      { cbn [dr undo with_indexes push_undo]. rewrite Eu. reflexivity. }
      intros e [Ge Ae Ve Ie]. cbn [dr gr aliases vals with_indexes push_undo] in Ge, Ae, Ve.
      rewrite Eg in Ge. rewrite Ea in Ae. rewrite Ev in Ve.
      destruct Ie as (Ie1 & _ & Ie3).
      assert (Hnone : idx_find (indexes e) key = None).
      { specialize (Ie3 key). rewrite Hfind, dbv_eqb_refl in Ie3. destruct (idx_find (indexes e) key); [contradiction | reflexivity]. }
      cbn [rollback_cmds undo_one]. rewrite <- map_rev, rollback_to_index.
      eexists. split; [reflexivity|].
      constructor; cbn [gr aliases vals indexes with_indexes]; auto.
      split; [apply fold_insert_id_ok, idx_ok_app_new; assumption|]. split; [assumption|].
      intros key'. rewrite fold_insert_id_find, idx_find_app_new.
      specialize (Ie3 key'). rewrite Hfind in Ie3.
      destruct (dbv_eqb_spec key key') as [E|Hne].
      + subst key'. rewrite Hnone, Eids. cbn [omap idx_rel app]. symmetry. apply Permutation_rev.
      + destruct (idx_find (indexes e) key'); exact Ie3.
  Qed.
End Steps.
