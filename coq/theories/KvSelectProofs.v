(* KvSelectProofs.v — C09, part 3: reading properties.  values_by_keys (a stable sort by request
   position) returns the requested pairs in request order; SelectValues and its missing-key error. *)
From Agdb Require Import Bytes DbValue Graph DbModel Search Queries Revisions DbValueEqProofs DbFrameProofs KvProofs KvDbProofs QStepProofs.
From Coq Require Import ZifyBool ZifyNat ZifyN.
Open Scope nat_scope.

(* ---------- the stable insertion sort = concatenation of the key classes ---------- *)
Section Sort.
  Context {A : Type} (key : A -> nat).

  Definition bucket (a n : nat) (l : list A) : list A :=
    flat_map (fun m => filter (fun y => Nat.eqb (key y) m) l) (seq a n).

  Lemma bucket_S a n l : bucket a (S n) l = filter (fun y => Nat.eqb (key y) a) l ++ bucket (S a) n l.
  Proof. reflexivity. Qed.

  Lemma bucket_nil a n : bucket a n [] = [].
  Proof. revert a. induction n as [|n IH]; intros a; [reflexivity|]. rewrite bucket_S. cbn [filter app]. apply IH. Qed.

  Lemma in_bucket a n l y : In y (bucket a n l) -> a <= key y < a + n /\ In y l.
  Proof.
    unfold bucket. rewrite in_flat_map. intros [m [Hm Hy]]. apply in_seq in Hm.
    apply filter_In in Hy. destruct Hy as [Hy Hk]. apply Nat.eqb_eq in Hk. split; [lia|exact Hy].
  Qed.

  Lemma bucket_snoc_out a n l x : key x < a \/ a + n <= key x -> bucket a n (l ++ [x]) = bucket a n l.
  Proof.
    revert a. induction n as [|n IH]; intros a Hx; [reflexivity|].
    rewrite !bucket_S, IH by lia. f_equal. rewrite filter_app. cbn [filter].
    destruct (Nat.eqb_spec (key x) a); [lia|]. apply app_nil_r.
  Qed.

  Lemma insert_by_lt l x : (forall y, In y l -> key x < key y) -> insert_by key x l = x :: l.
  Proof.
    destruct l as [|y l]; cbn [insert_by]; [reflexivity|]. intros H.
    specialize (H y (or_introl eq_refl)). destruct (Nat.ltb_spec (key x) (key y)); [reflexivity|lia].
  Qed.

  Lemma insert_by_app_le F R x :
    (forall y, In y F -> key y <= key x) -> insert_by key x (F ++ R) = F ++ insert_by key x R.
  Proof.
    induction F as [|y F IH]; intros H; cbn [app insert_by]; [reflexivity|].
    pose proof (H y (or_introl eq_refl)) as Hy.
    destruct (Nat.ltb_spec (key x) (key y)); [lia|]. f_equal. apply IH. intros z Hz. apply H. now right.
  Qed.

  Lemma insert_by_bucket n : forall a l x,
    a <= key x < a + n -> insert_by key x (bucket a n l) = bucket a n (l ++ [x]).
  Proof.
    induction n as [|n IH]; intros a l x Hx; [lia|].
    rewrite !bucket_S, insert_by_app_le.
    - rewrite filter_app. cbn [filter]. destruct (Nat.eqb_spec (key x) a) as [E|E].
      + rewrite bucket_snoc_out by lia. rewrite insert_by_lt.
        * now rewrite <- app_assoc.
        * intros y Hy. apply in_bucket in Hy. lia.
      + rewrite app_nil_r. f_equal. apply IH. lia.
    - intros y Hy. apply filter_In in Hy. destruct Hy as [_ Hy]. apply Nat.eqb_eq in Hy. lia.
  Qed.

  Lemma sort_by_key_snoc l x : sort_by_key key (l ++ [x]) = insert_by key x (sort_by_key key l).
  Proof. unfold sort_by_key. now rewrite fold_left_app. Qed.

  Lemma sort_by_key_bucket n l : (forall y, In y l -> key y < n) -> sort_by_key key l = bucket 0 n l.
  Proof.
    induction l as [|x l IH] using rev_ind; intros H.
    - now rewrite bucket_nil.
    - rewrite sort_by_key_snoc, IH.
      + apply insert_by_bucket. specialize (H x). rewrite in_app_iff in H. cbn [In] in H.
        assert (key x < n) by (apply H; tauto). lia.
      + intros y Hy. apply H. rewrite in_app_iff. now left.
  Qed.
End Sort.

(* ---------- values_by_keys ---------- *)
Lemma position_bounds keys k : forall s n, position keys k s = Some n -> s <= n < s + length keys.
Proof.
  induction keys as [|x keys IH]; intros s n; cbn [position length]; [discriminate|].
  destruct (dbv_eqb x k).
  - intros H. inversion H. lia.
  - intros H. apply IH in H. lia.
Qed.

(* request position m is the FIRST position of the request whose key equals k *)
Definition pos_is (keys : list dbvalue) (k : dbvalue) (m : nat) : bool :=
  match position keys k 0 with Some n => Nat.eqb n m | None => false end.

Definition tag_of (keys : list dbvalue) (p : kv) : list (nat * kv) :=
  match position keys (fst p) 0 with Some n => [(n, p)] | None => [] end.

Lemma tagged_filter keys (l : list kv) m :
  map snd (filter (fun t : nat * kv => Nat.eqb (fst t) m) (flat_map (tag_of keys) l)) =
  filter (fun p => pos_is keys (fst p) m) l.
Proof.
  induction l as [|p l IH]; cbn [flat_map filter map]; [reflexivity|].
  rewrite filter_app, map_app, IH. unfold tag_of, pos_is.
  destruct (position keys (fst p) 0) as [n|]; cbn [filter fst]; [|reflexivity].
  destruct (Nat.eqb n m); reflexivity.
Qed.

Lemma map_flat_map {A B C} (f : B -> C) (g : A -> list B) (l : list A) :
  map f (flat_map g l) = flat_map (fun x => map f (g x)) l.
Proof. induction l as [|x l IH]; cbn [flat_map map]; [reflexivity|]. now rewrite map_app, IH. Qed.

(* exact characterisation, no side condition: for each request position in order, the element's
   pairs (in map order) whose key first occurs in the request at that position *)
Lemma kvs_values_by_keys_buckets s i keys :
  kvs_values_by_keys s i keys =
  flat_map (fun m => filter (fun p : kv => pos_is keys (fst p) m) (kvs_get s i)) (seq 0 (length keys)).
Proof.
  unfold kvs_values_by_keys. fold (tag_of keys).
  rewrite (sort_by_key_bucket (fun t : nat * kv => fst t) (length keys)).
  - unfold bucket. rewrite map_flat_map. apply flat_map_ext. intros m. apply tagged_filter.
  - intros [n p] Hin. apply in_flat_map in Hin. destruct Hin as [q [_ Hq]]. unfold tag_of in Hq.
    destruct (position keys (fst q) 0) as [n'|] eqn:E; [|destruct Hq].
    destruct Hq as [Hq|[]]. inversion Hq; subst. apply position_bounds in E. cbn [fst]. lia.
Qed.

(* request lists with pairwise different keys *)
Fixpoint vals_distinct (keys : list dbvalue) : Prop :=
  match keys with
  | [] => True
  | x :: r => mem dbv_eqb x r = false /\ vals_distinct r
  end.

Lemma mem_false_nth x r m d : mem dbv_eqb x r = false -> m < length r -> dbv_eqb (nth m r d) x = false.
Proof.
  revert m. induction r as [|y r IH]; intros m; cbn [mem length nth]; [lia|].
  intros H Hm. apply orb_false_iff in H. destruct H as [H1 H2].
  destruct m as [|m]; [exact H1|]. apply IH; [exact H2|lia].
Qed.

Lemma pos_from_distinct keys k d : forall s m,
  vals_distinct keys -> m < length keys ->
  match position keys k s with Some n => Nat.eqb n (s + m) | None => false end = dbv_eqb (nth m keys d) k.
Proof.
  induction keys as [|x keys IH]; intros s m; cbn [vals_distinct length position]; [lia|].
  intros [Hx Hd] Hm. destruct m as [|m]; cbn [nth].
  - destruct (dbv_eqb x k) eqn:E.
    + apply Nat.eqb_eq. lia.
    + destruct (position keys k (S s)) as [n|] eqn:P; [|reflexivity].
      apply position_bounds in P. apply Nat.eqb_neq. lia.
  - destruct (dbv_eqb x k) eqn:E.
    + rewrite <- (dbv_eqb_congr_r x k (nth m keys d) E).
      rewrite (mem_false_nth x keys m d Hx) by lia. apply Nat.eqb_neq. lia.
    + rewrite <- (IH (S s) m Hd) by lia. replace (S s + m) with (s + S m) by lia. reflexivity.
Qed.

Lemma pos_is_distinct keys k m d :
  vals_distinct keys -> m < length keys -> pos_is keys k m = dbv_eqb (nth m keys d) k.
Proof. intros Hd Hm. unfold pos_is. apply (pos_from_distinct keys k d 0 m Hd Hm). Qed.

Lemma filter_key_find (l : list kv) k :
  keys_distinct l ->
  filter (fun p : kv => dbv_eqb k (fst p)) l = match kv_find l k with Some p => [p] | None => [] end.
Proof.
  induction l as [|y l IH]; cbn [keys_distinct filter kv_find find]; [reflexivity|].
  intros [Hy Hd]. fold (kv_find l k). rewrite (dbv_eqb_sym k (fst y)).
  destruct (dbv_eqb (fst y) k) eqn:E.
  - f_equal. assert (Hn : has_key l k = false) by (rewrite <- Hy; symmetry; now apply has_key_congr).
    clear -Hn. induction l as [|z l IH]; cbn [filter]; [reflexivity|].
    cbn [has_key existsb] in Hn. apply orb_false_iff in Hn. destruct Hn as [H1 H2].
    rewrite dbv_eqb_sym, H1. now apply IH.
  - now apply IH.
Qed.

Lemma flat_map_nth_seq {A B} (f : A -> list B) (l : list A) (d : A) :
  flat_map (fun m => f (nth m l d)) (seq 0 (length l)) = flat_map f l.
Proof.
  induction l as [|x l IH]; [reflexivity|]. cbn [length seq flat_map nth]. f_equal.
  rewrite <- seq_shift, flat_map_concat_map, map_map, <- flat_map_concat_map. exact IH.
Qed.

Lemma flat_map_ext_in' {A B} (f g : A -> list B) (l : list A) :
  (forall x, In x l -> f x = g x) -> flat_map f l = flat_map g l.
Proof.
  induction l as [|x l IH]; intros H; cbn [flat_map]; [reflexivity|].
  rewrite (H x (or_introl eq_refl)), IH; [reflexivity|]. intros y Hy. apply H. now right.
Qed.

Definition found_pair (l : list kv) (k : dbvalue) : list kv :=
  match kv_find l k with Some p => [p] | None => [] end.

(* for element lists and requests with distinct keys: the pair of each requested key that is
   present, in request order *)
Lemma kvs_values_by_keys_distinct s i keys :
  keys_distinct (kvs_get s i) -> vals_distinct keys ->
  kvs_values_by_keys s i keys = flat_map (found_pair (kvs_get s i)) keys.
Proof.
  intros Hl Hk. rewrite kvs_values_by_keys_buckets.
  rewrite <- (flat_map_nth_seq (found_pair (kvs_get s i)) keys (DI64 0)).
  apply flat_map_ext_in'. intros m Hm. apply in_seq in Hm. unfold found_pair.
  rewrite <- (filter_key_find _ _ Hl). apply filter_ext. intros p.
  rewrite (pos_is_distinct keys (fst p) m (DI64 0) Hk) by lia. reflexivity.
Qed.

Lemma flat_map_found_length l keys :
  length (flat_map (found_pair l) keys) = length (filter (has_key l) keys).
Proof.
  induction keys as [|k keys IH]; cbn [flat_map filter]; [reflexivity|].
  rewrite app_length, IH, has_key_find. unfold found_pair. now destruct (kv_find l k).
Qed.

Lemma has_key_flat_map_found l keys k :
  In k keys -> has_key (flat_map (found_pair l) keys) k = has_key l k.
Proof.
  intros Hin. destruct (has_key l k) eqn:E.
  - rewrite has_key_find in E. destruct (kv_find l k) as [p|] eqn:F; [|discriminate].
    unfold has_key. apply existsb_exists. exists p. split; [|now apply (kv_find_some l k p)].
    apply in_flat_map. exists k. split; [exact Hin|]. unfold found_pair. rewrite F. now left.
  - destruct (has_key (flat_map (found_pair l) keys) k) eqn:E2; [|reflexivity].
    unfold has_key in E2. apply existsb_exists in E2. destruct E2 as [p [Hp Hk]].
    apply in_flat_map in Hp. destruct Hp as [k' [_ Hp]]. unfold found_pair in Hp.
    destruct (kv_find l k') as [q|] eqn:F; [|destruct Hp]. destruct Hp as [->|[]].
    apply kv_find_some in F. destruct F as [Hin' _].
    pose proof (has_key_false_in l k p E Hin'). congruence.
Qed.

Lemma filter_length_le {A} (f : A -> bool) l : length (filter f l) <= length l.
Proof. induction l as [|x l IH]; cbn [filter length]; [lia|]. destruct (f x); cbn [length]; lia. Qed.

Lemma filter_length_all {A} (f : A -> bool) l : length (filter f l) = length l <-> forallb f l = true.
Proof.
  induction l as [|x l IH]; cbn [filter length forallb]; [tauto|].
  pose proof (filter_length_le f l). destruct (f x); cbn [length andb].
  - rewrite <- IH. lia.
  - split; [lia|discriminate].
Qed.

Lemma existsb_ext_in' {A} (f g : A -> bool) (l : list A) :
  (forall x, In x l -> f x = g x) -> existsb f l = existsb g l.
Proof.
  induction l as [|x l IH]; intros H; cbn [existsb]; [reflexivity|].
  rewrite (H x (or_introl eq_refl)), IH; [reflexivity|]. intros y Hy. apply H. now right.
Qed.

(* ---------- SelectValues ---------- *)
Open Scope Z_scope.
Section Select.
  Variable rv : revision.

  Definition values_of (d : db) (keys : list dbvalue) (id : Z) : list kv :=
    match keys with [] => kvs_get (vals d) id | _ => kvs_values_by_keys (vals d) id keys end.

  (* the error test of SelectValuesQuery as written in the code *)
  Definition missing_key (d : db) (keys : list dbvalue) (id : Z) : bool :=
    negb (Nat.eqb (length (values_of d keys id)) (length keys)) &&
    existsb (fun k => negb (has_key (values_of d keys id) k)) keys.

  Fixpoint sv_go (d : db) (keys : list dbvalue) (is_search : bool) (l : list Z) : res (list element) :=
    match l with
    | [] => ROk []
    | id :: r =>
      if negb is_search && missing_key d keys id then RErr ENotFound
      else match sv_go d keys is_search r with
           | RErr e => RErr e
           | ROk els => ROk (elem d id (values_of d keys id) :: els)
           end
    end.

  Lemma select_values_unfold d keys ids :
    select_values rv d keys ids =
    match resolve_ids rv d ids with
    | SErr e => QErr e
    | SPanic => QPanic
    | SOk db_ids =>
      match sv_go d keys (match ids with QSearch _ => true | _ => false end) db_ids with
      | RErr e => QErr e
      | ROk els => QOk (lenZ db_ids) els
      end
    end.
  Proof.
    unfold select_values. destruct (resolve_ids rv d ids) as [db_ids|e|]; try reflexivity.
    set (is_search := match ids with QSearch _ => true | _ => false end).
    match goal with |- match ?g db_ids with _ => _ end = _ => assert (H : forall l, g l = sv_go d keys is_search l) end.
    { induction l as [|id r IH]; [reflexivity|]. cbn [sv_go]. rewrite <- IH.
      unfold missing_key, values_of, has_key. rewrite andb_assoc. reflexivity. }
    now rewrite H.
  Qed.

  Lemma sv_go_spec d keys is_search l :
    sv_go d keys is_search l =
    if negb is_search && existsb (missing_key d keys) l then RErr ENotFound
    else ROk (map (fun id => elem d id (values_of d keys id)) l).
  Proof.
    induction l as [|id r IH]; cbn [sv_go existsb map].
    - now rewrite andb_false_r.
    - rewrite IH. destruct is_search; cbn [negb andb]; [reflexivity|].
      destruct (missing_key d keys id); cbn [orb]; [reflexivity|].
      now destruct (existsb (missing_key d keys) r).
  Qed.

  (* SelectValues with explicit ids: NotFound iff some id misses some requested key (as tested by
     the code); otherwise one element per id with `values_of` *)
  Lemma select_values_ids d keys l :
    select_values rv d keys (Ids l) =
    match resolve_all d l with
    | RErr e => QErr e
    | ROk ids =>
      if existsb (missing_key d keys) ids then QErr ENotFound
      else QOk (lenZ ids) (map (fun id => elem d id (values_of d keys id)) ids)
    end.
  Proof.
    rewrite select_values_unfold. cbn [resolve_ids].
    destruct (resolve_all d l) as [ids|e]; [|reflexivity].
    rewrite sv_go_spec. cbn [negb andb]. now destruct (existsb (missing_key d keys) ids).
  Qed.

  (* SelectValues over a search: missing keys are skipped silently *)
  Lemma select_values_search d keys s :
    select_values rv d keys (QSearch s) =
    match search rv d s with
    | SErr e => QErr e
    | SPanic => QPanic
    | SOk ids => QOk (lenZ ids) (map (fun id => elem d id (values_of d keys id)) ids)
    end.
  Proof.
    rewrite select_values_unfold. cbn [resolve_ids].
    destruct (search rv d s) as [ids|e|]; try reflexivity. now rewrite sv_go_spec.
  Qed.

  (* full selection never reports a missing key *)
  Lemma missing_key_all d id : missing_key d [] id = false.
  Proof. unfold missing_key. cbn [existsb]. apply andb_false_r. Qed.

  (* under the distinctness invariant the code's test is exactly "some requested key is absent" *)
  Lemma missing_key_distinct d keys id :
    keys <> [] -> keys_distinct (kvs_get (vals d) id) -> vals_distinct keys ->
    missing_key d keys id = existsb (fun k => negb (has_key (kvs_get (vals d) id) k)) keys.
  Proof.
    intros Hne Hl Hk. unfold missing_key.
    assert (Hv : values_of d keys id = flat_map (found_pair (kvs_get (vals d) id)) keys).
    { unfold values_of. destruct keys; [congruence|]. now apply kvs_values_by_keys_distinct. }
    rewrite Hv. set (l := kvs_get (vals d) id).
    assert (He : existsb (fun k => negb (has_key (flat_map (found_pair l) keys) k)) keys =
                 existsb (fun k => negb (has_key l k)) keys).
    { apply existsb_ext_in'. intros k Hin. now rewrite has_key_flat_map_found. }
    rewrite He, flat_map_found_length.
    destruct (existsb (fun k => negb (has_key l k)) keys) eqn:Ex; [|apply andb_false_r].
    rewrite andb_true_r. apply negb_true_iff. apply Nat.eqb_neq. intros Hlen.
    apply filter_length_all in Hlen. apply existsb_exists in Ex. destruct Ex as [k [Hin Hk']].
    rewrite forallb_forall in Hlen. specialize (Hlen k Hin). rewrite Hlen in Hk'. discriminate.
  Qed.

  (* keys and key counts are read off the same lists *)
  Lemma exec_select_keys d ids :
    exec_select rv d (SelectKeys ids) =
    match resolve_ids rv d ids with
    | SErr e => QErr e
    | SPanic => QPanic
    | SOk l => QOk (lenZ l) (map (fun id => elem d id (map (fun x : kv => (fst x, default_value)) (kvs_get (vals d) id))) l)
    end.
  Proof. reflexivity. Qed.

  Lemma exec_select_key_count d ids :
    exec_select rv d (SelectKeyCount ids) =
    match resolve_ids rv d ids with
    | SErr e => QErr e
    | SPanic => QPanic
    | SOk l => QOk (fold_left (fun a id => a + lenZ (kvs_get (vals d) id)) l 0)
                   (map (fun id => elem d id [key_count_kv (lenZ (kvs_get (vals d) id))]) l)
    end.
  Proof. reflexivity. Qed.
End Select.

(* ---------- a concrete history (non-vacuity of the C09 statements) ---------- *)
Definition c09_k (n : Z) : dbvalue := DI64 n.
Definition c09_history : list query :=
  [InsertNodes 1 (Single [(c09_k 1, DI64 10); (c09_k 2, DI64 20); (c09_k 3, DI64 30)]) [] (Ids []);
   InsertValues (Ids [QId 1]) (Single [(c09_k 2, DI64 21); (c09_k 4, DI64 40)]);
   RemoveValues (Ids [QId 1]) [c09_k 1]].

Lemma c09_example :
  let d := exec_all rv_fixed db_new c09_history in
  kvs_get (vals d) 1 = [(c09_k 2, DI64 21); (c09_k 3, DI64 30); (c09_k 4, DI64 40)] /\
  keys_distinct (kvs_get (vals d) 1) /\
  exec_select rv_fixed d (SelectValues [c09_k 4; c09_k 2] (Ids [QId 1])) =
    QOk 1 [elem d 1 [(c09_k 4, DI64 40); (c09_k 2, DI64 21)]] /\
  exec_select rv_fixed d (SelectValues [c09_k 1] (Ids [QId 1])) = QErr ENotFound.
Proof.
  cbv zeta. split; [vm_compute; reflexivity|]. split; [vm_compute; tauto|].
  split; vm_compute; reflexivity.
Qed.
