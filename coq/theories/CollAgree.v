(* CollAgree.v — proofs (collections, part 14): corollaries for C02 (readable after a reopen at a
   transaction boundary) and C06 (the file-like and the memory-like storage give the same
   observations at the collection level). *)
From Agdb Require Import Bytes BytesProofs Records RecordsProofs Storage StorageSpec StorageLayout StorageWp
  StorageRefine StorageProofs Collections CollWp CollBytes CollVecBase CollVecOps CollVec CollVec2 CollElems
  CollVecHist CollSep CollMap CollMapHist CollGraph CollGraphNew.
Open Scope N_scope.

(* ---------------- C06: both kinds of storage, one list of observations ---------------- *)
Section Agree.
  Variable T : Type.
  Variable E : cv_elem T.
  Variable L : elem_law E.

  Theorem cv_variants_agree (l : list (cv_op T)) : ops_ok T E L [] l ->
    let rf := cp_run (st_step cdata ops_file) (h <~ cv_new ;; cv_run T E h l) s_init in
    let rm := cp_run (st_step cdata ops_mem) (h <~ cv_new ;; cv_run T E h l) s_init in
    snd rf = CrDead \/ snd rm = CrDead \/
    exists hf hm, snd rf = CrOk (hf, snd (cl_run [] l)) /\ snd rm = CrOk (hm, snd (cl_run [] l)).
  Proof.
    intros Hok rf rm.
    destruct (cv_history_on_storage T E L ops_file true kind_file l Hok) as [D|(hf & _ & _ & Ef & _)]; [left; exact D|].
    destruct (cv_history_on_storage T E L ops_mem false kind_mem l Hok) as [D|(hm & _ & _ & Em & _)]; [right; left; exact D|].
    right. right. exists hf, hm. split; assumption.
  Qed.
End Agree.

Section AgreeMap.
  Variables K V : Type.
  Variable EK : cv_elem K.
  Variable EV : cv_elem V.
  Variable LK : elem_law EK.
  Variable LV : elem_law EV.
  Variable kdef : K.
  Variable vdef : V.
  Hypothesis kdef_ok : el_valid LK kdef.
  Hypothesis vdef_ok : el_valid LV vdef.

  Theorem cm_variants_agree (l : list (cm_op K V)) : Forall (mop_ok K V EK EV LK LV) l ->
    let p := d <~ cm_new ;; cm_run K V EK EV kdef vdef d l in
    let rf := cp_run (st_step cdata ops_file) p s_init in
    let rm := cp_run (st_step cdata ops_mem) p s_init in
    snd rf = CrDead \/ snd rm = CrDead \/
    exists df dm, snd rf = CrOk (df, snd (ct_run K V kdef vdef (ct_empty K V) l)) /\
                  snd rm = CrOk (dm, snd (ct_run K V kdef vdef (ct_empty K V) l)).
  Proof.
    intros Hok p rf rm.
    destruct (cm_history_on_storage K V EK EV LK LV kdef vdef kdef_ok vdef_ok ops_file true kind_file l Hok) as [D|(df & _ & _ & _ & _ & Ef & _)]; [left; exact D|].
    destruct (cm_history_on_storage K V EK EV LK LV kdef vdef kdef_ok vdef_ok ops_mem false kind_mem l Hok) as [D|(dm & _ & _ & _ & _ & Em & _)]; [right; left; exact D|].
    right. right. exists df, dm. split; assumption.
  Qed.
End AgreeMap.

Theorem cg_variants_agree (l : list cg_op) : gops_ok ga_init l ->
  let rf := cp_run (st_step cdata ops_file) (d <~ cg_new ;; cg_run d l) s_init in
  let rm := cp_run (st_step cdata ops_mem) (d <~ cg_new ;; cg_run d l) s_init in
  snd rf = CrDead \/ snd rm = CrDead \/
  exists df dm, snd rf = CrOk (df, snd (ga_run ga_init l)) /\ snd rm = CrOk (dm, snd (ga_run ga_init l)).
Proof.
  intros Hok rf rm.
  destruct (cg_history_on_storage ops_file true kind_file l Hok) as [D|(df & _ & _ & Ef & _)]; [left; exact D|].
  destruct (cg_history_on_storage ops_mem false kind_mem l Hok) as [D|(dm & _ & _ & Em & _)]; [right; left; exact D|].
  right. right. exists df, dm. split; assumption.
Qed.

(* ---------------- C02: at a transaction boundary every structure loads ---------------- *)
(* A crash is reduced by C01 / C02_reduction to the file at a flush point, i.e. (C03) a boundary between
   storage transactions; there the record map is the committed one.  In every state of the abstract record map
   in which the representation invariants hold the loaders succeed and return handles for the same content. *)
Section Readable.
  Variable fl : bool.

  Theorem vec_loads (T : Type) (E : cv_elem T) (L : elem_law E) h slots l sp :
    vrep T E L (hp sp) h slots l ->
    cwp fl (h' <~ cv_from_storage T E (cv_index h) ;; cv_values T E h') sp (fun r sp' => r = CrOk l /\ sp' = sp).
  Proof.
    intros HR. apply cwp_bind. eapply cv_from_storage_spec; [exact HR|]. intros h' HR' _ _. cbn [kont].
    eapply cv_values_spec; [exact HR'|]. auto.
  Qed.

  Theorem map_loads (K V : Type) (EK : cv_elem K) (EV : cv_elem V) (LK : elem_law EK) (LV : elem_law EV) d ss ks vs t sp :
    mrep K V EK EV LK LV (hp sp) d ss ks vs t ->
    cwp fl (cm_from_storage K V EK EV (cm_index d)) sp
        (fun r sp' => exists d', r = CrOk d' /\ sp' = sp /\ mrep K V EK EV LK LV (hp sp) d' ss ks vs t).
  Proof.
    intros HM. eapply cm_from_storage_spec; [exact (mr_sep _ _ _ _ _ _ _ _ _ _ _ _ HM)|].
    intros d' HS' Ii Il Ic Ef. exists d'. split; [reflexivity|]. split; [reflexivity|].
    constructor; [exact HS'|rewrite Il; exact (mr_len _ _ _ _ _ _ _ _ _ _ _ _ HM)|exact (mr_same _ _ _ _ _ _ _ _ _ _ _ _ HM)].
  Qed.

  Theorem graph_loads d s a sp :
    grep (hp sp) d s a -> sdepth sp = 0 ->
    cwp fl (cg_step d GoReload) sp (fun r sp' => exists d' s', r = CrOk (d', GbUnit) /\ grep (hp sp') d' s' a).
  Proof.
    intros H Hd. eapply cg_step_spec; [exact H|exact Hd|exact I| |].
    - intros f. exact (vr_fits _ _ _ _ _ _ _ (gr_vec _ _ _ _ H f)).
    - intros d' s' sp' H' _ _ _. cbn [ga_step fst snd] in *. exists d', s'. split; [reflexivity|exact H'].
  Qed.
End Readable.
