(* EmptyAliasProofs.v — C10: empty aliases are rejected without effect by EVERY alias-inserting query
   (fix: b8b5b10 — before it only InsertAliases checked; InsertNodes (new nodes and insert-or-update by ids)
   and InsertValues (insert-or-update by an unknown alias) created a listed, resolvable empty alias). *)
From Coq Require Import List ZArith Bool Lia.
From Agdb Require Import Bytes DbValue Graph DbModel Search Queries Revisions QStepProofs.
Import ListNotations.
Open Scope Z_scope.

Definition is_empty_alias (al : bytes) : bool := match al with [] => true | _ => false end.

Lemma existsb_empty (als : list bytes) : In ([] : bytes) als -> existsb is_empty_alias als = true.
Proof. intros H. apply existsb_exists. exists []. split; [exact H|reflexivity]. Qed.

Section Rev.
  Variable rv : revision.
  Hypothesis Hfix : fix_empty_alias rv = true.

  (* InsertNodes with an empty alias at ANY position: NotAllowed, the step leaves the database untouched
     (the check precedes every mutation and every id resolution) *)
  Lemma insert_nodes_empty_alias d count values (als : list bytes) ids :
    In ([] : bytes) als -> insert_nodes rv d count values als ids = StErr d ENotAllowed.
  Proof.
    intros Hin. unfold insert_nodes. rewrite Hfix. cbn [andb].
    change (fun al : bytes => match al with [] => true | _ :: _ => false end) with is_empty_alias.
    now rewrite (existsb_empty als Hin).
  Qed.

  (* the whole query, as DbImpl::exec_mut runs it (one transaction, rollback of an empty undo stack) *)
  Lemma exec_insert_nodes_empty_alias d count values (als : list bytes) ids :
    undo d = [] -> In ([] : bytes) als ->
    exec rv d (InsertNodes count values als ids) = (d, QErr ENotAllowed).
  Proof.
    intros Hu Hin. unfold exec, exec_in_txn. cbn [is_mutating exec_mut_step].
    rewrite (insert_nodes_empty_alias d count values als ids Hin).
    unfold rollback. rewrite Hu. cbn [rollback_cmds]. now rewrite (clear_undo_id d Hu).
  Qed.

  (* InsertValues: an id given as the empty alias that does not resolve is NotAllowed (it used to create a node
     named ""); the step leaves the database untouched *)
  Lemma insert_values_q_empty_alias d acc kvs e :
    db_id d (QAlias []) = RErr e -> insert_values_q rv d acc (QAlias []) kvs = StErr d ENotAllowed.
  Proof. intros He. unfold insert_values_q. rewrite He, Hfix. reflexivity. Qed.

  Lemma exec_insert_values_empty_alias d kvs e :
    undo d = [] -> db_id d (QAlias []) = RErr e ->
    exec rv d (InsertValues (Ids [QAlias []]) (Single kvs)) = (d, QErr ENotAllowed).
  Proof.
    intros Hu He. unfold exec, exec_in_txn. cbn [is_mutating exec_mut_step insert_values st_fold].
    rewrite (insert_values_q_empty_alias d (0, []) kvs e He).
    unfold rollback. rewrite Hu. cbn [rollback_cmds]. now rewrite (clear_undo_id d Hu).
  Qed.
End Rev.

(* the pinned code accepted them: a node named "" is created, listed and resolvable *)
Definition q_nodes_empty : query := InsertNodes 0 (Single []) [[]] (Ids []).
Definition q_values_empty : query := InsertValues (Ids [QAlias []]) (Single []).

Lemma empty_alias_nodes_pinned_refuted :
  let d := fst (exec rv_pinned db_new q_nodes_empty) in
  snd (exec rv_pinned db_new q_nodes_empty) <> QErr ENotAllowed /\ db_id d (QAlias []) = ROk 1.
Proof. vm_compute. split; [discriminate|reflexivity]. Qed.

Lemma empty_alias_values_pinned_refuted :
  let d := fst (exec rv_pinned db_new q_values_empty) in
  snd (exec rv_pinned db_new q_values_empty) <> QErr ENotAllowed /\ db_id d (QAlias []) = ROk 1.
Proof. vm_compute. split; [discriminate|reflexivity]. Qed.

(* the last flag alone decides: everything repaired except this one still accepts it *)
Definition rv_no_empty_fix : revision :=
  {| fix_rollback_replace := true; fix_alias_steal_undo := true; fix_alias_nodes_only := true; fix_strict_order := true;
     fix_slice_clamp := true; fix_edge_origin := true; fix_visited_chain := true; fix_nodes_ids_alias := true;
     fix_empty_alias := false |}.

Lemma empty_alias_before_fix_refuted :
  db_id (fst (exec rv_no_empty_fix db_new q_nodes_empty)) (QAlias []) = ROk 1 /\
  db_id (fst (exec rv_no_empty_fix db_new q_values_empty)) (QAlias []) = ROk 1.
Proof. vm_compute. split; reflexivity. Qed.

Example empty_alias_fixed_example :
  exec rv_fixed db_new q_nodes_empty = (db_new, QErr ENotAllowed) /\
  exec rv_fixed db_new q_values_empty = (db_new, QErr ENotAllowed).
Proof. vm_compute. split; reflexivity. Qed.
