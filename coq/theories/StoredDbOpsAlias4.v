(* StoredDbOpsAlias4.v — MultiMapImpl::rehash_values (multi_map.rs) as a PROGRAM over the DbMapData interface, and its
   proof against OpenMap.v's rehash_loop.

     so_rehash_loop   while i != current_capacity { state(i); Empty: i += 1; Deleted: if i < new_capacity { set_state(i,
                      Empty) } i += 1; Valid: if i < new_capacity && occupancy[i] { i += 1 } else { key(i); probe the
                      occupancy bits from hash % new_capacity for the first clear one (rehash_probe: in memory), set it,
                      swap(i, pos), if i == pos { i += 1 } } } — on fuel (out of fuel = CDead; the occupancy BitSet is in
                      memory: a list of booleans)
     so_rehash_values fuel = current + new + 1 (OpenMap.rehash_fuel), all bits clear, i = 0

   so_rehash_loop_spec: on a represented table (msep) whose slot list is sl, if OpenMap.v's rehash_loop returns Done sl'
   then the program ends in a represented table (same handle) whose slot list is sl'; depth kept; frame. *)
From Coq Require Import List NArith ZArith Arith Bool Lia Permutation.
Import ListNotations.
From Agdb Require Import Bytes BytesProofs Records RecordsProofs Storage StorageSpec StorageLayout
  Collections CollWp CollBytes CollVecBase CollVecOps CollVec CollVec2 CollElems CollSep CollMap CollMapHist
  OpenMap OpenMapProofs OpenMapSpec OpenMapRefineBase OpenMapRefineOps OpenMapRefineStep OpenMapRefine
  StoredDb StoredDbRep StoredDbProbe StoredDbOpsAlias.
From Coq Require Import ZifyBool ZifyNat ZifyN.
Open Scope N_scope.

Section RehashProg.
  Variables K V : Type.
  Variable EK : cv_elem K.
  Variable EV : cv_elem V.
  Variable h : K -> N.

  Fixpoint so_rehash_loop (fuel : nat) (d : cm_data) (cur newcap : nat) (occ : list bool) (i : nat) : cprog unit :=
    match fuel with
    | O => CDead
    | S f =>
      if (i =? cur)%nat then CRet tt
      else
        s <~ cm_state d (N.of_nat i) ;;
        match s with
        | StEmpty => so_rehash_loop f d cur newcap occ (i + 1)
        | StDeleted =>
          (if (i <? newcap)%nat then cm_set_state d (N.of_nat i) StEmpty else CRet tt) ;;~
          so_rehash_loop f d cur newcap occ (i + 1)
        | StValid =>
          if (i <? newcap)%nat && nth i occ false then so_rehash_loop f d cur newcap occ (i + 1)
          else
            key <~ cm_key K EK d (N.of_nat i) ;;
            match rehash_probe newcap occ newcap (hpos K h key newcap) with
            | None => CDead
            | Some pos =>
              cm_swap K V EK EV d (N.of_nat i) (N.of_nat pos) ;;~
              so_rehash_loop f d cur newcap (upd pos true occ) (if (i =? pos)%nat then i + 1 else i)
            end
        end
    end.

  Definition so_rehash_values (d : cm_data) (cur newcap : nat) : cprog unit :=
    so_rehash_loop (rehash_fuel cur newcap) d cur newcap (repeat false newcap) 0.
End RehashProg.

Section SlotLemmas.
  Variables K V : Type.

  Definition slot_of (s : cm_st) (k : K) (v : V) : slot K V :=
    match s with StEmpty => Empty | StDeleted => Deleted | StValid => Valid k v end.

  Lemma ct_slots_upd3 : forall (ls : list cm_st) (lk : list K) (lv : list V) j s k v,
    length lk = length ls -> length lv = length ls ->
    ct_slots K V (cl_upd ls j s) (cl_upd lk j k) (cl_upd lv j v) = upd j (slot_of s k v) (ct_slots K V ls lk lv).
  Proof.
    induction ls as [|s0 ls IH]; intros [|k0 lk] [|v0 lv] j s k v H1 H2; cbn [length] in *; try discriminate; [destruct j; reflexivity|].
    destruct j as [|j]; cbn [cl_upd ct_slots upd]; [reflexivity|]. f_equal. apply IH; congruence.
  Qed.

  Lemma cl_upd_same {T} : forall (l : list T) j x, nth_error l j = Some x -> cl_upd l j x = l.
  Proof.
    induction l as [|y l IH]; intros [|j] x H; cbn [nth_error cl_upd] in *; try discriminate.
    - injection H as ->. reflexivity.
    - f_equal. apply IH. exact H.
  Qed.

  Lemma upd_nth_same {T} : forall (l : list T) j d, upd j (nth j l d) l = l.
  Proof.
    induction l as [|y l IH]; intros [|j] d; cbn [upd nth]; try reflexivity. f_equal. apply IH.
  Qed.
End SlotLemmas.

Section RehashProof.
  Variables K V : Type.
  Variable EK : cv_elem K.
  Variable EV : cv_elem V.
  Variable LK : elem_law EK.
  Variable LV : elem_law EV.
  Variable keqb : K -> K -> bool.
  Variable h : K -> N.
  Variable fl : bool.

  Notation msepT := (msep K V EK EV LK LV).
  Notation mfootT := (mfoot K V EK EV LK LV).
  Notation slotsT := (ct_slots K V).

  Lemma with_s_same d : with_s d (cm_states d) = d.
  Proof. destruct d; reflexivity. Qed.
  Lemma with_k_same d : with_k d (cm_keys d) = d.
  Proof. destruct d; reflexivity. Qed.
  Lemma with_v_same d : with_v d (cm_values d) = d.
  Proof. destruct d; reflexivity. Qed.

  (* swap(i, j) of DbMapData, i <> j both in range, at any transaction depth *)
  Lemma so_cm_swap_spec d ss ks vs ls lk lv i j sa ka va sb kb vb sp (Q : cres unit -> spec -> Prop) :
    msepT (hp sp) d ss ks vs ls lk lv -> i <> j ->
    nth_error ls i = Some sa -> nth_error lk i = Some ka -> nth_error lv i = Some va ->
    nth_error ls j = Some sb -> nth_error lk j = Some kb -> nth_error lv j = Some vb ->
    (forall ss' ks' vs' sp',
        msepT (hp sp') d ss' ks' vs' (cl_upd (cl_upd ls i sb) j sa) (cl_upd (cl_upd lk i kb) j ka) (cl_upd (cl_upd lv i vb) j va) ->
        sdepth sp' = sdepth sp -> frame (hp sp) (hp sp') (mfootT d ss ks vs) (mfootT d ss' ks' vs') -> Q (CrOk tt) sp') ->
    cwp fl (cm_swap K V EK EV d (N.of_nat i) (N.of_nat j)) sp Q.
  Proof.
    intros HS Nij Esi Eki Evi Esj Ekj Evj HQ. unfold cm_swap.
    assert (Nn : N.of_nat i <> N.of_nat j) by lia.
    apply cwp_bind. eapply cv_swap_spec; [exact (ms_s _ _ _ _ _ _ _ _ _ _ _ _ _ _ HS)|].
    destruct (N.eqb_spec (N.of_nat i) (N.of_nat j)); [contradiction|]. rewrite !Nat2N.id, Esi, Esj.
    intros ss' sp1 R1 D1 Fr1. cbn [kont].
    destruct (msep_update_s K V EK EV LK LV _ _ _ _ _ _ _ _ _ _ _ _ HS eq_refl R1 Fr1) as [HS1 Ff1]. rewrite with_s_same in HS1, Ff1.
    apply cwp_bind. eapply cv_swap_spec; [exact (ms_k _ _ _ _ _ _ _ _ _ _ _ _ _ _ HS1)|].
    destruct (N.eqb_spec (N.of_nat i) (N.of_nat j)); [contradiction|]. rewrite !Nat2N.id, Eki, Ekj.
    intros ks' sp2 R2 D2 Fr2. cbn [kont].
    destruct (msep_update_k K V EK EV LK LV _ _ _ _ _ _ _ _ _ _ _ _ HS1 eq_refl R2 Fr2) as [HS2 Ff2]. rewrite with_k_same in HS2, Ff2.
    eapply cv_swap_spec; [exact (ms_v _ _ _ _ _ _ _ _ _ _ _ _ _ _ HS2)|].
    destruct (N.eqb_spec (N.of_nat i) (N.of_nat j)); [contradiction|]. rewrite !Nat2N.id, Evi, Evj.
    intros vs' sp3 R3 D3 Fr3.
    destruct (msep_update_v K V EK EV LK LV _ _ _ _ _ _ _ _ _ _ _ _ HS2 eq_refl R3 Fr3) as [HS3 Ff3]. rewrite with_v_same in HS3, Ff3.
    eapply HQ; [exact HS3|lia|eapply frame_trans; [exact Ff1|eapply frame_trans; [exact Ff2|exact Ff3]]].
  Qed.

  Lemma so_rehash_loop_spec d cur newcap : (0 < newcap)%nat ->
    forall fuel ss ks vs ls lk lv occ i sl' sp (Q : cres unit -> spec -> Prop),
      msepT (hp sp) d ss ks vs ls lk lv -> length lk = length ls -> length lv = length ls ->
      (cur <= length ls)%nat -> (newcap <= length ls)%nat -> (i <= cur)%nat ->
      rehash_loop K V h fuel cur newcap (slotsT ls lk lv) occ i = Done sl' ->
      (forall ss' ks' vs' ls' lk' lv' sp',
          msepT (hp sp') d ss' ks' vs' ls' lk' lv' -> length lk' = length ls' -> length lv' = length ls' -> length ls' = length ls ->
          slotsT ls' lk' lv' = sl' -> sdepth sp' = sdepth sp ->
          frame (hp sp) (hp sp') (mfootT d ss ks vs) (mfootT d ss' ks' vs') -> Q (CrOk tt) sp') ->
      cwp fl (so_rehash_loop K V EK EV h fuel d cur newcap occ i) sp Q.
  Proof.
    intros Hn. induction fuel as [|f IH]; intros ss ks vs ls lk lv occ i sl' sp Q HS L1 L2 Hcur Hnew Hi Hr HQ;
      cbn [rehash_loop] in Hr; [discriminate|]. cbn [so_rehash_loop].
    destruct (Nat.eqb_spec i cur) as [E|E].
    { injection Hr as <-. cbn [cwp]. eapply HQ; eauto. apply frame_refl. intros j; reflexivity. }
    destruct (ct_slots_nth K V ls lk lv i L1 L2) as (s & k & v & Es & Ek & Ev & En); [lia|].
    rewrite En in Hr.
    apply cwp_bind. unfold cm_state. eapply cv_value_spec; [exact (ms_s _ _ _ _ _ _ _ _ _ _ _ _ _ _ HS)|].
    rewrite Nat2N.id, Es. cbn [kont]. destruct s.
    - (* Empty *)
      eapply IH; eauto. lia.
    - (* Valid *)
      destruct ((i <? newcap)%nat && nth i occ false) eqn:Eocc.
      + eapply IH; eauto. lia.
      + apply cwp_bind. unfold cm_key. eapply cv_value_spec; [exact (ms_k _ _ _ _ _ _ _ _ _ _ _ _ _ _ HS)|].
        rewrite Nat2N.id, Ek. cbn [kont].
        destruct (rehash_probe newcap occ newcap (hpos K h k newcap)) as [pos|] eqn:Hp; [|discriminate].
        pose proof (rehash_probe_lt _ _ _ _ _ Hn (hpos_lt K keqb h k newcap Hn) Hp) as Hpos.
        destruct (Nat.eqb_spec i pos) as [Eip|Nip].
        * (* i = pos: the swap is the identity *)
          subst pos. apply cwp_bind. unfold cm_swap.
          apply cwp_bind. eapply cv_swap_spec; [exact (ms_s _ _ _ _ _ _ _ _ _ _ _ _ _ _ HS)|]. rewrite N.eqb_refl. cbn [kont].
          apply cwp_bind. eapply cv_swap_spec; [exact (ms_k _ _ _ _ _ _ _ _ _ _ _ _ _ _ HS)|]. rewrite N.eqb_refl. cbn [kont].
          eapply cv_swap_spec; [exact (ms_v _ _ _ _ _ _ _ _ _ _ _ _ _ _ HS)|]. rewrite N.eqb_refl. cbn [kont].
          unfold swap_nth in Hr. rewrite !upd_nth_same in Hr.
          eapply IH; eauto. lia.
        * destruct (nth_error_lt_Some ls pos) as (sb & Esb); [lia|].
          destruct (nth_error_lt_Some lk pos) as (kb & Ekb); [lia|].
          destruct (nth_error_lt_Some lv pos) as (vb & Evb); [lia|].
          apply cwp_bind.
          eapply (so_cm_swap_spec d ss ks vs ls lk lv i pos StValid k v sb kb vb); eauto.
          intros ss' ks' vs' sp1 HS1 D1 F1. cbn [kont].
          assert (Esl : slotsT (cl_upd (cl_upd ls i sb) pos StValid) (cl_upd (cl_upd lk i kb) pos k) (cl_upd (cl_upd lv i vb) pos v)
                        = swap_nth Empty i pos (slotsT ls lk lv)).
          { rewrite ct_slots_upd3 by (rewrite !cl_upd_length; auto). rewrite ct_slots_upd3 by auto.
            unfold swap_nth. rewrite En.
            destruct (ct_slots_nth K V ls lk lv pos L1 L2) as (s2 & k2 & v2 & Es2 & Ek2 & Ev2 & En2); [lia|].
            rewrite En2. rewrite Esb in Es2. rewrite Ekb in Ek2. rewrite Evb in Ev2.
            injection Es2 as <-. injection Ek2 as <-. injection Ev2 as <-. reflexivity. }
          rewrite <- Esl in Hr.
          eapply IH; [exact HS1|rewrite !cl_upd_length; auto|rewrite !cl_upd_length; auto|rewrite !cl_upd_length; lia|
                      rewrite !cl_upd_length; lia|lia|exact Hr|].
          intros ss2 ks2 vs2 ls2 lk2 lv2 sp2 HS2 A B C D2 E2 F2.
          eapply HQ; eauto; [rewrite C, !cl_upd_length; reflexivity|lia|eapply frame_trans; [exact F1|exact F2]].
    - (* Deleted *)
      destruct (Nat.ltb_spec i newcap) as [Lt|Ge].
      + apply cwp_bind. unfold cm_set_state. apply cwp_bind.
        eapply cv_replace_spec; [exact (ms_s _ _ _ _ _ _ _ _ _ _ _ _ _ _ HS)|exact I|]. rewrite Nat2N.id, Es.
        intros ss' sp1 R1 D1 F1. cbn [kont cwp].
        destruct (msep_update_s K V EK EV LK LV _ _ _ _ _ _ _ _ _ _ _ _ HS eq_refl R1 F1) as [HS1 Ff1]. rewrite with_s_same in HS1, Ff1.
        assert (Esl : slotsT (cl_upd ls i StEmpty) lk lv = upd i Empty (slotsT ls lk lv)).
        { rewrite <- (cl_upd_same lk i k Ek) at 1. rewrite <- (cl_upd_same lv i v Ev) at 1. rewrite ct_slots_upd3 by auto. reflexivity. }
        rewrite <- Esl in Hr.
        eapply IH; [exact HS1|rewrite cl_upd_length; auto|rewrite cl_upd_length; auto|rewrite cl_upd_length; lia|
                    rewrite cl_upd_length; lia|lia|exact Hr|].
        intros ss2 ks2 vs2 ls2 lk2 lv2 sp2 HS2 A B C D2 E2 F2.
        eapply HQ; eauto; [rewrite C, cl_upd_length; reflexivity|lia|eapply frame_trans; [exact Ff1|exact F2]].
      + cbn [cbind cwp]. eapply IH; eauto. lia.
  Qed.
End RehashProof.
