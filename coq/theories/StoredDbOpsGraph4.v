(* StoredDbOpsGraph4.v — proofs (stored database, part 20): GraphImpl::remove_edge as a program over the storage computes
   Graph.remove_edge: validate_edge, transaction, remove_from_edge, remove_to_edge (each: three reads, the head case or the
   `while` walk to the predecessor, the degree counter), free_index, commit.

     so_remove_edge_ok G e   what the code needs to run without an error (each a consequence of C08's wf): the slots it
                             visits are inside the arrays, the walks end within `capacity` rounds, the decremented degree
                             counters stay i64 values *)
From Agdb Require Import Bytes BytesProofs Utf8 Codec DbValue ValueIndex Graph DbModel Records RecordsProofs Storage StorageSpec
  StorageLayout Collections CollValues CollWp CollBytes CollVecBase CollVecOps CollVec CollVec2 CollElems CollSep CollMap
  CollGraph CollValuesProofs StoredDb StoredDbRep StoredDbFrame StoredDbOps StoredDbOpsGraph StoredDbOpsGraph2 StoredDbOpsDb
  StoredDbOpsGraph3.
From Coq Require Import ZifyBool ZifyNat ZifyN.
Ltac Zify.zify_post_hook ::= Z.div_mod_to_equations.
Open Scope N_scope.
Arguments N.add : simpl never.
Arguments N.mul : simpl never.
Arguments N.sub : simpl never.
Arguments N.of_nat : simpl never.
Arguments N.to_nat : simpl never.
Arguments N.eqb : simpl never.
Arguments N.ltb : simpl never.
Arguments N.leb : simpl never.
Arguments N.div : simpl never.

(* ---------------- the two unlink operations as one, over the field selector ---------------- *)
Definition so_unlink (g : cg_data) (f fm : cg_field) (index : Z) : cprog unit :=
  fi <~ cg_get g f index ;;
  let node_index := (- fi)%Z in
  ff <~ cg_get g f node_index ;;
  let first_index := (- ff)%Z in
  next <~ cg_get g fm index ;;
  (if (first_index =? index)%Z then cg_set g f node_index next
   else previous <~ so_find_prev g fm (N.to_nat (cg_capacity g)) first_index (- index) ;;
        cg_set g fm previous next) ;;~
  count <~ cg_get g fm node_index ;;
  cg_set g fm node_index (count - 1).

Lemma so_remove_from_edge_unlink g index : so_remove_from_edge g index = so_unlink g GfFrom GfFromMeta index.
Proof. reflexivity. Qed.
Lemma so_remove_to_edge_unlink g index : so_remove_to_edge g index = so_unlink g GfTo GfToMeta index.
Proof. reflexivity. Qed.

Definition g_unlink (G : graph) (f fm : cg_field) (index : Z) : option graph :=
  let node_index := (- get (garr G f) index)%Z in
  let first_index := (- get (garr G f) node_index)%Z in
  let next := get (garr G fm) index in
  let og :=
    if (first_index =? index)%Z then Some (gset G f node_index next)
    else match find_prev (fun p => get (garr G fm) p) (length (g_from G)) first_index (- index) with
         | Some previous => Some (gset G fm previous next)
         | None => None
         end in
  match og with
  | Some g1 => let count := get (garr g1 fm) node_index in Some (gset g1 fm node_index (count - 1))
  | None => None
  end.

Lemma remove_from_edge_unlink G index : remove_from_edge G index = g_unlink G GfFrom GfFromMeta index.
Proof. reflexivity. Qed.
Lemma remove_to_edge_unlink G index : remove_to_edge G index = g_unlink G GfTo GfToMeta index.
Proof. reflexivity. Qed.

Fixpoint prev_ok (next : Z -> Z) (n : nat) (fuel : nat) (previous target : Z) : Prop :=
  match fuel with
  | O => True
  | S k => (zabs_nat previous < n)%nat /\ ((next previous =? target)%Z = false -> prev_ok next n k (next previous) target)
  end.

Lemma find_prev_range next n : forall fuel previous target p,
  prev_ok next n fuel previous target -> find_prev next fuel previous target = Some p -> (zabs_nat p < n)%nat.
Proof.
  induction fuel as [|k IH]; intros previous target p Hok E; cbn [find_prev prev_ok] in *; [discriminate|].
  destruct Hok as [Hr Hn]. destruct (next previous =? target)%Z eqn:Eq.
  - injection E as <-. exact Hr.
  - eapply IH; [apply Hn; reflexivity|exact E].
Qed.

Definition unlink_ok (G : graph) (n : nat) (f fm : cg_field) (index : Z) : Prop :=
  let node_index := (- get (garr G f) index)%Z in
  let first_index := (- get (garr G f) node_index)%Z in
  (zabs_nat index < n)%nat /\ (zabs_nat node_index < n)%nat /\
  ((first_index =? index)%Z = false ->
     prev_ok (fun p => get (garr G fm) p) n (length (g_from G)) first_index (- index) /\
     find_prev (fun p => get (garr G fm) p) (length (g_from G)) first_index (- index) <> None) /\
  (forall G', g_unlink G f fm index = Some G' -> i64_range (get (garr G' fm) node_index)).

Lemma glen_unlink G n f fm index G' : glen G n -> g_unlink G f fm index = Some G' -> glen G' n.
Proof.
  intros HL. unfold g_unlink.
  destruct (- get (garr G f) (- get (garr G f) index) =? index)%Z.
  - intros [= <-]. apply glen_gset. apply glen_gset. exact HL.
  - destruct (find_prev _ _ _ _); [|discriminate]. intros [= <-]. apply glen_gset. apply glen_gset. exact HL.
Qed.

Lemma garr_gset_same G n f i v : glen G n -> (zabs_nat i < n)%nat -> get (garr (gset G f i v) f) i = v.
Proof.
  intros HL Hi. unfold gset. unfold garr at 1. rewrite sd_arrays_of. unfold get.
  destruct f; cbn [ga_put ga_get ga_from ga_to ga_from_meta ga_to_meta]; unfold Graph.set; (rewrite nth_set_nth by (rewrite HL; exact Hi)); rewrite Nat.eqb_refl; reflexivity.
Qed.

Section EdgeRemoval.
  Variable fl : bool.

  Lemma so_validate_edge_spec d s G i sp (Q : cres bool -> spec -> Prop) :
    grep (hp sp) d s (sd_arrays G) -> so_graph_ok G ->
    Q (CrOk (is_edge G i)) sp -> cwp fl (so_validate_edge d i) sp Q.
  Proof.
    intros H OK HQ. pose proof (glen_of_ok G OK) as HL. pose proof (go_cap _ OK) as Hcap.
    unfold so_validate_edge, so_is_valid_index. unfold is_edge, valid_index in HQ.
    destruct (Z.eqb_spec i 0) as [->|Hi]; cbn [negb andb] in HQ; [cbn [cbind cwp]; exact HQ|].
    rewrite (cap_of_grep _ _ _ _ H). unfold capacity in HQ.
    destruct (N.leb_spec (lenN (g_from G)) (cg_as_u64 i)) as [Hle|Hlt].
    - destruct (Z.ltb_spec (Z.abs i) (Z.of_nat (length (g_from G)))) as [X|_]; [unfold lenN, cg_as_u64 in Hle; lia|].
      cbn [andb cbind cwp] in *. exact HQ.
    - destruct (Z.ltb_spec (Z.abs i) (Z.of_nat (length (g_from G)))) as [_|X]; [|unfold lenN, cg_as_u64 in Hlt; lia].
      assert (Hr : (zabs_nat i < length (g_from G))%nat) by (unfold lenN, cg_as_u64, zabs_nat in *; lia).
      cbn [andb] in HQ. apply cwp_bind. apply cwp_bind.
      eapply (gget_spec fl d s G GfFromMeta); [exact H|rewrite HL; exact Hr|]. cbn [kont cwp].
      change (get (garr G GfFromMeta) i) with (fmeta G i).
      destruct (fmeta G i <? 0)%Z; cbn [negb andb] in *; [exact HQ|].
      apply cwp_bind. eapply (gget_spec fl d s G GfFrom); [exact H|rewrite HL; exact Hr|]. cbn [kont cwp]. exact HQ.
  Qed.

  Lemma so_find_prev_spec d s G n fm sp : grep (hp sp) d s (sd_arrays G) -> glen G n ->
    forall fuel previous target (Q : cres Z -> spec -> Prop),
      prev_ok (fun p => get (garr G fm) p) n fuel previous target ->
      match find_prev (fun p => get (garr G fm) p) fuel previous target with
      | Some p => Q (CrOk p) sp
      | None => Q (CrErr CvData) sp
      end ->
      cwp fl (so_find_prev d fm fuel previous target) sp Q.
  Proof.
    intros H HL. induction fuel as [|k IH]; intros previous target Q Hok HQ; cbn [so_find_prev find_prev prev_ok] in *; [exact HQ|].
    destruct Hok as [Hr Hn].
    apply cwp_bind. eapply (gget_spec fl d s G fm); [exact H|rewrite HL; exact Hr|]. cbn [kont].
    destruct (get (garr G fm) previous =? target)%Z eqn:Eq; [cbn [cwp]; exact HQ|].
    apply cwp_bind. eapply (gget_spec fl d s G fm); [exact H|rewrite HL; exact Hr|]. cbn [kont].
    apply IH; [apply Hn; reflexivity|exact HQ].
  Qed.

  Lemma so_unlink_spec d s0 g0 s G n f fm index sp (Q : cres unit -> spec -> Prop) :
    grep (hp sp) d s (sd_arrays G) -> glen G n -> n = length (g_from G) -> unlink_ok G n f fm index ->
    frame g0 (hp sp) (gfoot d s0) (gfoot d s) ->
    (forall G' s' sp', g_unlink G f fm index = Some G' -> grep (hp sp') d s' (sd_arrays G') -> sdepth sp' = sdepth sp ->
        frame g0 (hp sp') (gfoot d s0) (gfoot d s') -> Q (CrOk tt) sp') ->
    cwp fl (so_unlink d f fm index) sp Q.
  Proof.
    intros H HL En (Hi & Hnode & Hwalk & Hcnt) F0 HQ. unfold so_unlink. unfold g_unlink in HQ, Hcnt.
    set (node_index := (- get (garr G f) index)%Z) in *.
    set (first_index := (- get (garr G f) node_index)%Z) in *.
    set (next := get (garr G fm) index) in *.
    assert (Hnext : i64_range next) by apply (grep_range _ _ _ G fm index H).
    apply cwp_bind. eapply (gget_spec fl d s G f); [exact H|rewrite HL; exact Hi|]. cbn [kont]. fold node_index.
    apply cwp_bind. eapply (gget_spec fl d s G f); [exact H|rewrite HL; exact Hnode|]. cbn [kont]. fold first_index.
    apply cwp_bind. eapply (gget_spec fl d s G fm); [exact H|rewrite HL; exact Hi|]. cbn [kont]. fold next.
    (* the tail: count, count - 1 *)
    assert (Tail : forall G1 s1 sp1, glen G1 n -> grep (hp sp1) d s1 (sd_arrays G1) -> sdepth sp1 = sdepth sp ->
              frame g0 (hp sp1) (gfoot d s0) (gfoot d s1) ->
              i64_range (get (garr (gset G1 fm node_index (get (garr G1 fm) node_index - 1)) fm) node_index) ->
              (forall s' sp', grep (hp sp') d s' (sd_arrays (gset G1 fm node_index (get (garr G1 fm) node_index - 1))) ->
                  sdepth sp' = sdepth sp -> frame g0 (hp sp') (gfoot d s0) (gfoot d s') -> Q (CrOk tt) sp') ->
              cwp fl (count <~ cg_get d fm node_index ;; cg_set d fm node_index (count - 1)) sp1 Q).
    { intros G1 s1 sp1 HL1 H1 D1 F1 Hc HQ1.
      apply cwp_bind. eapply (gget_spec fl d s1 G1 fm); [exact H1|rewrite HL1; exact Hnode|]. cbn [kont].
      rewrite (garr_gset_same G1 n fm node_index _ HL1 Hnode) in Hc.
      eapply (gset_spec fl d s1 G1 fm); [exact H1|exact Hc|rewrite HL1; exact Hnode|].
      intros s2 sp2 H2 D2 F2. eapply HQ1; [exact H2|congruence|eapply frame_trans; eassumption]. }
    apply cwp_bind. destruct (first_index =? index)%Z eqn:Eh.
    - eapply (gset_spec fl d s G f); [exact H|exact Hnext|rewrite HL; exact Hnode|].
      intros s1 sp1 H1 D1 F1. cbn [kont].
      eapply (Tail _ s1 sp1); [apply glen_gset; exact HL|exact H1|exact D1|eapply frame_trans; eassumption|apply Hcnt; reflexivity|].
      intros s' sp' H' D' F'. eapply HQ; [reflexivity|exact H'|exact D'|exact F'].
    - destruct (Hwalk eq_refl) as [Hok Hsome].
      apply cwp_bind. rewrite (cap_of_grep _ _ _ _ H). replace (N.to_nat (lenN (g_from G))) with (length (g_from G)) by (unfold lenN; lia).
      eapply (so_find_prev_spec d s G n fm); [exact H|exact HL|exact Hok|].
      destruct (find_prev (fun p => get (garr G fm) p) (length (g_from G)) first_index (- index)) as [previous|] eqn:Ep; [|contradiction].
      cbn [kont]. pose proof (find_prev_range _ _ _ _ _ _ Hok Ep) as Hp.
      eapply (gset_spec fl d s G fm); [exact H|exact Hnext|rewrite HL; exact Hp|].
      intros s1 sp1 H1 D1 F1. cbn [kont].
      eapply (Tail _ s1 sp1); [apply glen_gset; exact HL|exact H1|exact D1|eapply frame_trans; eassumption|apply Hcnt; reflexivity|].
      intros s' sp' H' D' F'. eapply HQ; [reflexivity|exact H'|exact D'|exact F'].
  Qed.

  Definition so_remove_edge_ok (G : graph) (e : Z) : Prop :=
    is_edge G e = true ->
    unlink_ok G (length (g_from G)) GfFrom GfFromMeta e /\
    (forall G1, remove_from_edge G e = Some G1 -> unlink_ok G1 (length (g_from G)) GfTo GfToMeta e).

  (* GraphImpl::remove_edge *)
  Theorem so_graph_remove_edge_spec d s G e sp (Q : cres unit -> spec -> Prop) :
    grep (hp sp) d s (sd_arrays G) -> so_graph_ok G -> so_remove_edge_ok G e ->
    (forall G', Graph.remove_edge G e = Some G' ->
       forall s' sp', grep (hp sp') d s' (sd_arrays G') -> sdepth sp' = sdepth sp ->
         frame (hp sp) (hp sp') (gfoot d s) (gfoot d s') -> Q (CrOk tt) sp') ->
    cwp fl (so_graph_remove_edge d e) sp Q.
  Proof.
    intros H OK Hok HQ. pose proof (glen_of_ok G OK) as HL. pose proof OK as [_ _ _ Lpos Lcap _ _].
    unfold so_graph_remove_edge, Graph.remove_edge in *.
    apply cwp_bind. eapply so_validate_edge_spec; [exact H|exact OK|]. cbn [kont].
    destruct (is_edge G e) eqn:Ne; cbn [negb].
    2:{ cbn [cwp]. eapply (HQ G eq_refl s sp); [exact H|reflexivity|apply frame_refl; intros j; reflexivity]. }
    destruct (Hok Ne) as [U1 U2]. pose proof U1 as (Hi & _).
    apply cwp_bind. apply hwp_transaction. intros sp0 Hm0 Hd0. cbn [kont].
    assert (H0 : grep (hp sp0) d s (sd_arrays G)) by (eapply grep_heq; [exact H|exact Hm0]).
    apply cwp_bind. rewrite so_remove_from_edge_unlink.
    eapply (so_unlink_spec d s (hp sp0) s G _ GfFrom GfFromMeta e); [exact H0|exact HL|reflexivity|exact U1|apply frame_refl; intros j; reflexivity|].
    intros G1 s1 sp1 E1 H1 D1 F1. cbn [kont]. rewrite <- remove_from_edge_unlink in E1. rewrite E1 in HQ.
    pose proof (glen_unlink G _ GfFrom GfFromMeta e G1 HL E1) as HL1.
    apply cwp_bind. rewrite so_remove_to_edge_unlink.
    eapply (so_unlink_spec d s (hp sp0) s1 G1 _ GfTo GfToMeta e); [exact H1|exact HL1|symmetry; apply (HL1 GfFrom)|apply U2; exact E1|exact F1|].
    intros G2 s2 sp2 E2 H2 D2 F2. cbn [kont]. rewrite <- remove_to_edge_unlink in E2. rewrite E2 in HQ.
    pose proof (glen_unlink G1 _ GfTo GfToMeta e G2 HL1 E2) as HL2.
    apply cwp_bind.
    eapply (so_free_index_spec fl d s (hp sp0) s2 G2 _ (- e)%Z); [exact H2|exact HL2|rewrite zabs_opp; exact Hi|exact Lpos|lia|exact F2|].
    intros s3 sp3 H3 D3 F3. cbn [kont].
    apply hwp_commit; [lia|lia|]. intros sp4 Hm4 Hd4.
    eapply (HQ _ eq_refl s3 sp4); [eapply grep_heq; [exact H3|exact Hm4]|lia|].
    eapply frame_trans; [apply frame_refl; exact Hm0|]. eapply frame_trans; [exact F3|apply frame_refl; exact Hm4].
  Qed.

  (* lifted to the stored database: the graph component only (the edge's properties are DbImpl's business) *)
  Theorem so_remove_edge_stored root d w h e sp (Q : cres unit -> spec -> Prop) :
    stored_db_w (hp sp) root d w -> so_handles h w -> so_graph_ok (gr d) -> so_remove_edge_ok (gr d) e ->
    (forall G', Graph.remove_edge (gr d) e = Some G' ->
       forall s' sp', stored_db_w (hp sp') root (with_gr d G') (sd_with_graph w (sw_g w) s') -> sdepth sp' = sdepth sp ->
         frame (hp sp) (hp sp') (sd_foot root w) (sd_foot root (sd_with_graph w (sw_g w) s')) -> Q (CrOk tt) sp') ->
    cwp fl (so_graph_remove_edge (so_graph h) e) sp Q.
  Proof.
    intros H [Hh1 _] OK Hok HQ. rewrite Hh1.
    eapply so_graph_remove_edge_spec; [exact (sr_graph _ _ _ _ H)|exact OK|exact Hok|].
    intros G' EG s' sp' HG Hd Hf.
    rewrite <- (sd_arrays_of (sd_arrays _)) in HG.
    destruct (sd_graph_update _ _ root d w (sw_g w) s' _ H eq_refl HG Hf) as [H' F'].
    eapply (HQ G' EG s' sp'); [|exact Hd|exact F'].
    eapply stored_db_w_same; [exact H'| | | |]; cbn [with_gr gr aliases vals indexes sd_graph_of sd_arrays ga_from ga_to ga_from_meta ga_to_meta]; try reflexivity.
    destruct G'; reflexivity.
  Qed.
End EdgeRemoval.
