(* StoredDbOpsKv2.v — proofs (stored database, part 13): DbKeyValues::insert_value / reserve_capacity as programs over
   the storage compute DbModel's kvs_insert_value / kvs_reserve on the values component (kvrep) of a stored database. *)
From Coq Require Import Permutation.
From Agdb Require Import Bytes BytesProofs Utf8 Codec DbValue ValueIndex Graph DbModel Records RecordsProofs Storage StorageSpec
  StorageLayout Collections CollValues CollWp CollBytes CollVecBase CollVecOps CollVec CollVec2 CollElems CollSep CollMap
  CollGraph CollValuesProofs StoredDb StoredDbRep StoredDbLoad StoredDbFrame StoredDbOps StoredDbOpsKv.
From Coq Require Import ZifyBool ZifyNat ZifyN.
Ltac Zify.zify_post_hook ::= Z.div_mod_to_equations.
Open Scope N_scope.
Arguments N.add : simpl never.
Arguments N.mul : simpl never.
Arguments N.sub : simpl never.
Arguments N.of_nat : simpl never.
Arguments N.to_nat : simpl never.
Arguments N.eqb : simpl never.
Arguments N.ltb : simpl never.
Arguments N.leb : simpl never.
Arguments N.div : simpl never.

Definition so_index_ok (index : N) : Prop := index < 1152921504606846976.        (* 2^60 *)

(* the slot vector changes under a frame while the element vectors X stay *)
Lemma kv_step_vec_raw g g' vh vs vh' vs' vi' (X : list N) :
  NoDup (footU vh vs ++ X) -> live_all g X -> vrepU g' vh' vs' vi' -> frame g g' (footU vh vs) (footU vh' vs') ->
  NoDup (footU vh' vs' ++ X) /\ frame g g' (footU vh vs ++ X) (footU vh' vs' ++ X) /\ (forall j, In j X -> g' j = g j).
Proof.
  intros C Hl HR' Hf.
  destruct (sep_update g g' [] _ _ X Hf C) as (N' & F' & Same); [exact Hl|eapply vrep_nodup; exact HR'|].
  cbn [app] in *. split; [exact N'|split; [exact F'|exact Same]].
Qed.

(* one element's vector replaced under a frame *)
Lemma kvrep_slot_update g g' vh vs ia i ib a k bss b ka l kb k' bss' l' :
  kvrep g vh vs (ia ++ i :: ib) (a ++ Some (k, bss) :: b) (ka ++ l :: kb) ->
  length a = length ia -> length ka = length ia ->
  vrepK g' k' bss' l' -> cv_index k' = cv_index k -> frame g g' (footK k bss) (footK k' bss') ->
  kvrep g' vh vs (ia ++ i :: ib) (a ++ Some (k', bss') :: b) (ka ++ l' :: kb) /\
  frame g g' (kvfoot vh vs (a ++ Some (k, bss) :: b)) (kvfoot vh vs (a ++ Some (k', bss') :: b)).
Proof.
  intros H La Lka HR' Hi Hf.
  destruct (kv_step_slot g g' vh vs ia i ib a (Some (k, bss)) b ka l kb (footK k' bss') H La Lka Hf) as (A & Ba & Bb & N' & Fr).
  { eapply vrep_nodup. exact HR'. }
  destruct (sd_kv_rep_split g ia a ka (i :: ib) (Some (k, bss) :: b) (l :: kb) La Lka (kr_kv _ _ _ _ _ _ H)) as [_ Bs].
  cbn [sd_kv_rep sd_kv_slot_rep] in Bs. destruct Bs as [(Hnz & Hki & _) _].
  split; [|unfold kvfoot at 2; rewrite sd_kv_foot_mid; exact Fr].
  constructor; [exact A| |unfold kvfoot; rewrite sd_kv_foot_mid; exact N'].
  apply sd_kv_rep_mid; [exact Ba| |exact Bb]. cbn [sd_kv_slot_rep]. split; [exact Hnz|]. split; [congruence|exact HR'].
Qed.

Section KvOps.
  Variable fl : bool.

  (* ---- grow the slot vector up to the index ---- *)
  Lemma so_kv_grow_spec vh vs vi vw kvs index sp (Q : cres cv_vec -> spec -> Prop) :
    kvrep (hp sp) vh vs vi vw kvs -> so_index_ok index ->
    (forall vh1 vs1 vi1 vw1 sp',
        kvrep (hp sp') vh1 vs1 vi1 vw1 (kvs_pad kvs (N.to_nat index)) -> cv_index vh1 = cv_index vh -> sdepth sp' = sdepth sp ->
        frame (hp sp) (hp sp') (kvfoot vh vs vw) (kvfoot vh1 vs1 vw1) -> Q (CrOk vh1) sp') ->
    cwp fl (if cv_len vh <=? index then cv_resize N ce_u64 vh (index + 1) 0 else CRet vh) sp Q.
  Proof.
    intros H Hix HQ. pose proof H as [A B C]. unfold so_index_ok in Hix.
    destruct (sd_kv_rep_lengths _ _ _ _ B) as [L1 L2].
    pose proof (vr_len _ _ _ _ _ _ _ A) as Hlen. unfold lenN in Hlen.
    destruct (N.leb_spec (cv_len vh) index) as [Hle|Hlt].
    - eapply cv_resize_spec; [exact A|cbn; unfold two64; lia|cbn [ce_size ce_u64]; unfold two64; lia|].
      intros vh1 vs1 sp1 R1 I1 D1 F1.
      destruct (kv_step_vec _ _ _ _ _ _ _ _ _ _ H R1 F1) as (B1 & N1 & Fr1).
      set (k := (S (N.to_nat index) - length kvs)%nat).
      assert (Er : cl_resize vi (N.to_nat (index + 1)) 0 = vi ++ repeat 0 k).
      { unfold cl_resize, k. rewrite firstn_all2 by lia. f_equal. f_equal. lia. }
      rewrite Er in R1.
      apply (HQ vh1 vs1 (vi ++ repeat 0 k) (vw ++ repeat None k) sp1); [|exact I1|exact D1|].
      + constructor; [exact R1| |].
        * unfold kvs_pad. fold k. apply sd_kv_rep_app; [exact B1|apply sd_kv_rep_none].
        * unfold kvfoot in *. rewrite sd_kv_foot_app, sd_kv_foot_none, app_nil_r. exact N1.
      + unfold kvfoot in *. rewrite sd_kv_foot_app, sd_kv_foot_none, app_nil_r. exact Fr1.
    - cbn [cwp]. apply (HQ vh vs vi vw sp); [|reflexivity|reflexivity|apply frame_refl; intros j; reflexivity].
      rewrite kvs_pad_in by lia. exact H.
  Qed.

  (* ---- read the slot; create the element's vector or rebuild its handle ---- *)
  Lemma so_kv_slot_spec {R} (rest : cv_vec -> cprog R) vh vs vi vw kvs index sp (Q : cres R -> spec -> Prop) :
    kvrep (hp sp) vh vs vi vw kvs -> (N.to_nat index < length kvs)%nat ->
    (forall vs1 ia i ib a k bss b ka l kb sp',
        kvrep (hp sp') vh vs1 (ia ++ i :: ib) (a ++ Some (k, bss) :: b) (ka ++ l :: kb) ->
        length ia = N.to_nat index -> length a = N.to_nat index -> length ka = N.to_nat index ->
        ka ++ l :: kb = kvs -> sdepth sp' = sdepth sp ->
        frame (hp sp) (hp sp') (kvfoot vh vs vw) (kvfoot vh vs1 (a ++ Some (k, bss) :: b)) -> cwp fl (rest k) sp' Q) ->
    cwp fl (si <~ cv_value N ce_u64 vh index ;;
            k <~ (if si =? 0 then k0 <~ cv_new ;; cv_replace N ce_u64 vh index (cv_index k0) ;;~ CRet k0
                  else cv_from_storage kv ce_dbkv si) ;; rest k) sp Q.
  Proof.
    intros H Hn HQ. pose proof H as [A B C].
    destruct (sd_kv_rep_at _ _ _ _ _ B Hn) as (ia & i & ib & a & w & b & ka & l & kb & -> & -> & -> & Lia & La & Lka & Ba & Bs & Bb).
    apply cwp_bind. eapply cv_value_spec; [exact A|]. rewrite <- Lia, nth_error_mid. cbn [kont].
    destruct w as [[k bss]|]; cbn [sd_kv_slot_rep] in Bs.
    - (* the element has a vector: from_storage *)
      destruct Bs as (Hnz & Hki & HR). destruct (N.eqb_spec i 0) as [X|_]; [contradiction|].
      apply cwp_bind. rewrite <- Hki. eapply cv_from_storage_spec; [exact HR|]. intros k' HR' Hi' Hl'. cbn [kont].
      destruct (kvrep_slot_update _ _ _ _ _ _ _ _ _ _ _ _ _ _ k' bss l H (eq_trans La (eq_sym Lia)) (eq_trans Lka (eq_sym Lia)) HR' Hi') as [H' F'].
      { unfold foot. rewrite Hi'. apply frame_refl. intros j; reflexivity. }
      eapply (HQ vs ia i ib a k' bss b ka l kb sp); [exact H'|exact Lia|exact La|exact Lka|reflexivity|reflexivity|exact F'].
    - (* no vector yet: DbVec::new, then the slot is replaced by its index *)
      destruct Bs as [-> ->]. rewrite N.eqb_refl.
      apply cwp_bind. apply cwp_bind. apply (cv_new_spec kv ce_dbkv law_dbkv fl). intros k0 sp1 R0 Z0 B0 N0 D0 F0. cbn [kont].
      destruct (kv_step_slot _ _ vh vs ia 0 ib a None b ka [] kb (footK k0 []) H (eq_trans La (eq_sym Lia)) (eq_trans Lka (eq_sym Lia)) F0)
        as (A1 & Ba1 & Bb1 & N1 & Fr1); [eapply vrep_nodup; exact R0|].
      apply cwp_bind.
      eapply cv_replace_spec; [exact A1|cbn; exact B0|]. rewrite <- Lia, nth_error_mid.
      intros vs2 sp2 R2 D2 F2. cbn [kont cwp]. rewrite cl_upd_mid in R2.
      assert (Hlive : live_all (hp sp1) (sd_kv_foot a ++ footK k0 [] ++ sd_kv_foot b)).
      { apply live_all_app. split; [eapply sd_kv_live; exact Ba1|]. apply live_all_app. split; [eapply vrep_live; exact R0|eapply sd_kv_live; exact Bb1]. }
      destruct (kv_step_vec_raw (hp sp1) (hp sp2) vh vs vh vs2 _ (sd_kv_foot a ++ footK k0 [] ++ sd_kv_foot b) N1 Hlive R2 F2) as (N2 & Fr2 & Same).
      assert (R0' : vrepK (hp sp2) k0 [] []).
      { eapply vrep_transport; [exact R0|]. intros j Hj. apply Same. apply in_or_app. right. apply in_or_app. left. exact Hj. }
      eapply (HQ vs2 ia (cv_index k0) ib a k0 [] b ka [] kb sp2); [|exact Lia|exact La|exact Lka|reflexivity|congruence|].
      + constructor; [exact R2| |unfold kvfoot; rewrite sd_kv_foot_mid; exact N2].
        apply sd_kv_rep_mid.
        * eapply sd_transport_kv; [exact Ba1|]. intros j Hj. apply Same. apply in_or_app. left. exact Hj.
        * cbn [sd_kv_slot_rep]. split; [exact Z0|]. split; [reflexivity|exact R0'].
        * eapply sd_transport_kv; [exact Bb1|]. intros j Hj. apply Same. apply in_or_app. right. apply in_or_app. right. exact Hj.
      + eapply frame_trans; [exact Fr1|]. unfold kvfoot. rewrite sd_kv_foot_mid. exact Fr2.
  Qed.

  Lemma so_kv_open_slot_spec vh vs vi vw kvs index sp (Q : cres (cv_vec * cv_vec) -> spec -> Prop) :
    kvrep (hp sp) vh vs vi vw kvs -> so_index_ok index ->
    (forall vh1 vs1 ia i ib a k bss b ka l kb sp',
        kvrep (hp sp') vh1 vs1 (ia ++ i :: ib) (a ++ Some (k, bss) :: b) (ka ++ l :: kb) ->
        length ia = N.to_nat index -> length a = N.to_nat index -> length ka = N.to_nat index ->
        ka ++ l :: kb = kvs_pad kvs (N.to_nat index) -> cv_index vh1 = cv_index vh -> sdepth sp' = sdepth sp ->
        frame (hp sp) (hp sp') (kvfoot vh vs vw) (kvfoot vh1 vs1 (a ++ Some (k, bss) :: b)) -> Q (CrOk (vh1, k)) sp') ->
    cwp fl (so_kv_open_slot vh index) sp Q.
  Proof.
    intros H Hix HQ. unfold so_kv_open_slot.
    apply cwp_bind. eapply so_kv_grow_spec; [exact H|exact Hix|].
    intros vh1 vs1 vi1 vw1 sp1 H1 I1 D1 F1. cbn [kont].

    eapply so_kv_slot_spec; [exact H1|apply kvs_pad_length|].
    intros vs2 ia i ib a k bss b ka l kb sp2 H2 Lia La Lka Ek D2 F2. cbn [cwp].
    eapply HQ; [exact H2|exact Lia|exact La|exact Lka|exact Ek|exact I1|congruence|eapply frame_trans; eassumption].
  Qed.

  (* ---- DbKeyValues::insert_value ---- *)
  Theorem so_kv_insert_value_spec vh vs vi vw kvs index x sp (Q : cres cv_vec -> spec -> Prop) :
    kvrep (hp sp) vh vs vi vw kvs -> so_index_ok index -> el_valid law_dbkv x ->
    8 + ce_size ce_dbkv * (lenN (nth (N.to_nat index) kvs []) + 1) < two64 ->
    (forall vh1 vs1 vi1 vw1 sp',
        kvrep (hp sp') vh1 vs1 vi1 vw1 (kvs_set_nth kvs (N.to_nat index) (nth (N.to_nat index) kvs [] ++ [x])) ->
        cv_index vh1 = cv_index vh -> sdepth sp' = sdepth sp ->
        frame (hp sp) (hp sp') (kvfoot vh vs vw) (kvfoot vh1 vs1 vw1) -> Q (CrOk vh1) sp') ->
    cwp fl (so_kv_insert_value vh index x) sp Q.
  Proof.
    intros H Hix Hx Hfit HQ. unfold so_kv_insert_value.
    apply cwp_bind. eapply so_kv_open_slot_spec; [exact H|exact Hix|].
    intros vh1 vs1 ia i ib a k bss b ka l kb sp1 H1 Lia La Lka Ek I1 D1 F1. cbn [kont fst snd].
    assert (El : l = nth (N.to_nat index) kvs []).
    { rewrite <- (kvs_pad_nth kvs (N.to_nat index)), <- Ek, <- Lka. symmetry. apply nth_mid. }
    destruct (sd_kv_rep_split _ ia a ka (i :: ib) (Some (k, bss) :: b) (l :: kb) (eq_trans La (eq_sym Lia)) (eq_trans Lka (eq_sym Lia)) (kr_kv _ _ _ _ _ _ H1)) as [_ Bs].
    cbn [sd_kv_rep sd_kv_slot_rep] in Bs. destruct Bs as [(_ & _ & HR) _].
    apply cwp_bind. eapply cv_reserve_spec; [exact HR|]. intros k1 sp2 HR1 Ik1 _ D2 F2. cbn [kont].
    apply cwp_bind. eapply cv_push_spec; [exact HR1|exact Hx|rewrite El; exact Hfit|].
    intros k2 bss2 sp3 HR2 Ik2 D3 F3. cbn [kont cwp].
    destruct (kvrep_slot_update _ _ _ _ _ _ _ _ _ _ _ _ _ _ k2 bss2 (l ++ [x]) H1 (eq_trans La (eq_sym Lia)) (eq_trans Lka (eq_sym Lia)) HR2) as [H3 Fr3];
      [congruence|eapply frame_trans; eassumption|].
    eapply HQ; [|exact I1|congruence|eapply frame_trans; eassumption].
    rewrite <- El, <- (kvs_set_nth_pad (N.to_nat index) kvs), <- Ek, <- Lka, kvs_set_nth_mid. exact H3.
  Qed.

  (* ---- DbKeyValues::reserve_capacity ---- *)
  Lemma kvs_pad_reserve kvs n : kvs_pad kvs n = if Nat.ltb n (length kvs) then kvs else kvs_set_nth kvs n [].
  Proof.
    destruct (Nat.ltb_spec n (length kvs)) as [Hl|Hl]; [apply kvs_pad_in; exact Hl|].
    rewrite <- kvs_set_nth_pad. pose proof (kvs_pad_length kvs n) as Hp.
    destruct (split_at (kvs_pad kvs n) n Hp) as (ka & l & kb & E & Lka).
    assert (El : l = []).
    { rewrite <- (nth_overflow kvs [] Hl), <- (kvs_pad_nth kvs n), E, <- Lka. symmetry. apply nth_mid. }
    rewrite E, <- Lka, kvs_set_nth_mid, El. reflexivity.
  Qed.

  Theorem so_kv_reserve_capacity_spec vh vs vi vw kvs index len sp (Q : cres cv_vec -> spec -> Prop) :
    kvrep (hp sp) vh vs vi vw kvs -> so_index_ok index ->
    (forall vh1 vs1 vi1 vw1 sp',
        kvrep (hp sp') vh1 vs1 vi1 vw1 (kvs_pad kvs (N.to_nat index)) ->
        cv_index vh1 = cv_index vh -> sdepth sp' = sdepth sp ->
        frame (hp sp) (hp sp') (kvfoot vh vs vw) (kvfoot vh1 vs1 vw1) -> Q (CrOk vh1) sp') ->
    cwp fl (so_kv_reserve_capacity vh index len) sp Q.
  Proof.
    intros H Hix HQ. unfold so_kv_reserve_capacity.
    apply cwp_bind. eapply so_kv_open_slot_spec; [exact H|exact Hix|].
    intros vh1 vs1 ia i ib a k bss b ka l kb sp1 H1 Lia La Lka Ek I1 D1 F1. cbn [kont fst snd].
    destruct (sd_kv_rep_split _ ia a ka (i :: ib) (Some (k, bss) :: b) (l :: kb) (eq_trans La (eq_sym Lia)) (eq_trans Lka (eq_sym Lia)) (kr_kv _ _ _ _ _ _ H1)) as [_ Bs].
    cbn [sd_kv_rep sd_kv_slot_rep] in Bs. destruct Bs as [(_ & _ & HR) _].
    apply cwp_bind. eapply cv_reserve_spec; [exact HR|]. intros k1 sp2 HR1 Ik1 _ D2 F2. cbn [kont cwp].
    destruct (kvrep_slot_update _ _ _ _ _ _ _ _ _ _ _ _ _ _ k1 bss l H1 (eq_trans La (eq_sym Lia)) (eq_trans Lka (eq_sym Lia)) HR1 Ik1 F2) as [H3 Fr3].
    eapply HQ; [|exact I1|congruence|eapply frame_trans; eassumption].
    rewrite <- Ek. exact H3.
  Qed.
End KvOps.
