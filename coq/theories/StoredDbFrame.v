(* StoredDbFrame.v — proofs (stored database, part 9): the SHAPE of the missing link
   (C05_db_operations_preserve_stored_db), carried out for one component: an operation on ONE component of a stored
   database that keeps that component's invariant and touches exactly its footprint (`frame`, what every L2 history
   theorem delivers) keeps the WHOLE database stored — the other components are untouched and stay disjoint, because
   all footprints of `stored_db` are pairwise distinct and live.

     stored_db_live        every record of the footprint of a stored database is live
     sd_transport_*        a component is still represented in any heap that agrees with the old one on its footprint
     sd_graph_update       the graph component replaced under a frame: the database with the new graph is stored
     sd_graph_history      EVERY history of the GraphData interface (set / get of from, to, from_meta, to_meta, grow,
                           shrink_to_fit, capacity, reload, maintenance — C05_graph_history) run on the graph of a stored
                           database keeps the database stored, the graph arrays evolving as the plain arrays; everything
                           else (aliases, indexes, values) is the same
   graph.rs (GraphImpl) is written against exactly this interface, so each of its operations is such a history; what is
   still missing for DbImpl::insert_node etc. is the statement that the history graph.rs issues computes Graph.v's
   function (C08's simulation is on the plain arrays) and the analogous liftings for the other components. *)
From Coq Require Import Permutation.
From Agdb Require Import Bytes BytesProofs Utf8 Codec DbValue ValueIndex Graph DbModel Records RecordsProofs Storage StorageSpec
  StorageLayout Collections CollValues CollWp CollBytes CollVecBase CollVecOps CollVec CollVec2 CollElems CollSep CollMap
  CollGraph CollValuesProofs StoredDb StoredDbRep.
From Coq Require Import ZifyBool ZifyNat ZifyN.
Open Scope N_scope.

(* ---------------- liveness of the footprint ---------------- *)
Lemma sd_map_live K V EK EV LK LV g (w : sd_mapw K V) idx l :
  sd_map_rep K V EK EV LK LV g w idx l -> live_all g (sd_map_foot K V EK EV LK LV w).
Proof. intros (HM & _ & _). destruct HM as [HS _ _]. eapply msep_live. exact HS. Qed.

Lemma sd_ixb_firstn g ixb key (r : bytes) : dbv_rep g ixb key -> firstn 16 (ixb ++ r) = ixb.
Proof.
  intros Hk. pose proof (el_len ce_dbvalue law_dbvalue _ _ _ Hk) as HL. cbn [ce_size ce_dbvalue] in HL. unfold lenN in HL.
  apply firstn_app_l. lia.
Qed.

Lemma sd_ix_live g : forall es ws ixs, sd_ix_rep g es ws ixs -> live_all g (sd_ix_foot es ws).
Proof.
  induction es as [|e r IH]; intros [|w ws] [|ix ixs] H; cbn [sd_ix_rep sd_ix_foot] in *; try contradiction; try (intros j []).
  destruct H as [(ixb & mi & -> & _ & Hk & Hm) Hr]. rewrite (sd_ixb_firstn g ixb (fst ix) _ Hk).
  apply live_all_app. split.
  - intros j Hj. eapply (el_live ce_dbvalue law_dbvalue); [exact Hk|exact Hj].
  - apply live_all_app. split; [eapply sd_map_live; exact Hm|apply (IH ws ixs Hr)].
Qed.

Lemma sd_kv_live g : forall idxs ws kvs, sd_kv_rep g idxs ws kvs -> live_all g (sd_kv_foot ws).
Proof.
  induction idxs as [|i r IH]; intros [|w ws] [|l kvs] H; cbn [sd_kv_rep sd_kv_foot] in *; try contradiction; try (intros j []).
  destruct H as [Hs Hr]. destruct w as [[h bss]|]; cbn [sd_kv_slot_rep] in Hs; [|apply (IH ws kvs Hr)].
  destruct Hs as (_ & _ & HR). apply live_all_app. split; [eapply vrep_live; exact HR|apply (IH ws kvs Hr)].
Qed.

Definition sd_rest (w : sd_wit) : list N :=
  sd_foot_a1 (sw_a1 w) ++ sd_foot_a2 (sw_a2 w) ++
  foot bytes (ce_raw 24) sd_law24 (sw_ih w) (sw_is w) ++ sd_ix_foot (sw_ie w) (sw_iw w) ++
  foot N ce_u64 law_u64 (sw_vh w) (sw_vs w) ++ sd_kv_foot (sw_vw w).

Lemma sd_foot_split root w : sd_foot root w = [root] ++ gfoot (sw_g w) (sw_gs w) ++ sd_rest w.
Proof. reflexivity. Qed.

Lemma sd_rest_live g root d w : stored_db_w g root d w -> live_all g (sd_rest w).
Proof.
  intros [_ _ _ _ _ Ha1 _ Ha2 _ Hiv _ Hix Hvv _ Hv _]. unfold sd_rest.
  apply live_all_app. split; [eapply sd_map_live; exact Ha1|].
  apply live_all_app. split; [eapply sd_map_live; exact Ha2|].
  apply live_all_app. split; [eapply vrep_live; exact Hiv|].
  apply live_all_app. split; [eapply sd_ix_live; exact Hix|].
  apply live_all_app. split; [eapply vrep_live; exact Hvv|eapply sd_kv_live; exact Hv].
Qed.

Theorem stored_db_live g root d w : stored_db_w g root d w -> live_all g (sd_foot root w).
Proof.
  intros H. rewrite sd_foot_split. apply live_all_app. split; [|apply live_all_app; split].
  - intros j [<-|[]]. rewrite (sr_root _ _ _ _ H). discriminate.
  - eapply grep_live. exact (sr_graph _ _ _ _ H).
  - eapply sd_rest_live. exact H.
Qed.

(* ---------------- a component in a heap that agrees on its footprint ---------------- *)
Lemma sd_transport_map K V EK EV LK LV g g' (w : sd_mapw K V) idx l :
  sd_map_rep K V EK EV LK LV g w idx l -> (forall j, In j (sd_map_foot K V EK EV LK LV w) -> g' j = g j) ->
  sd_map_rep K V EK EV LK LV g' w idx l.
Proof.
  intros (HM & Hi & HP) Hs. split; [|auto]. destruct HM as [[Hrec Rs Rk Rv Hb Hnd] Hl Hsame].
  unfold sd_map_foot, mfoot in Hs. constructor; [|exact Hl|exact Hsame]. constructor; auto.
  - rewrite Hs; [exact Hrec|left; reflexivity].
  - eapply vrep_transport; [exact Rs|]. intros j Hj. apply Hs. right. apply in_or_app. left. exact Hj.
  - eapply vrep_transport; [exact Rk|]. intros j Hj. apply Hs. right. apply in_or_app. right. apply in_or_app. left. exact Hj.
  - eapply vrep_transport; [exact Rv|]. intros j Hj. apply Hs. right. apply in_or_app. right. apply in_or_app. right. exact Hj.
Qed.

Lemma sd_transport_ix g g' : forall es ws ixs,
  sd_ix_rep g es ws ixs -> (forall j, In j (sd_ix_foot es ws) -> g' j = g j) -> sd_ix_rep g' es ws ixs.
Proof.
  induction es as [|e r IH]; intros [|w ws] [|ix ixs] H Hs; cbn [sd_ix_rep sd_ix_foot] in *; auto.
  destruct H as [(ixb & mi & -> & Hmi & Hk & Hm) Hr]. rewrite (sd_ixb_firstn g ixb (fst ix) _ Hk) in Hs.
  split.
  - exists ixb, mi. split; [reflexivity|]. split; [exact Hmi|]. split.
    + eapply (el_local ce_dbvalue law_dbvalue); [exact Hk|]. intros j Hj. apply Hs. apply in_or_app. left. exact Hj.
    + eapply sd_transport_map; [exact Hm|]. intros j Hj. apply Hs. apply in_or_app. right. apply in_or_app. left. exact Hj.
  - apply IH; [exact Hr|]. intros j Hj. apply Hs. apply in_or_app. right. apply in_or_app. right. exact Hj.
Qed.

Lemma sd_transport_kv g g' : forall idxs ws kvs,
  sd_kv_rep g idxs ws kvs -> (forall j, In j (sd_kv_foot ws) -> g' j = g j) -> sd_kv_rep g' idxs ws kvs.
Proof.
  induction idxs as [|i r IH]; intros [|w ws] [|l kvs] H Hs; cbn [sd_kv_rep sd_kv_foot] in *; auto.
  destruct H as [Hslot Hr]. destruct w as [[h bss]|]; cbn [sd_kv_slot_rep] in *.
  - destruct Hslot as (H1 & H2 & HR). split.
    + split; [exact H1|]. split; [exact H2|]. eapply vrep_transport; [exact HR|]. intros j Hj. apply Hs. apply in_or_app. left. exact Hj.
    + apply IH; [exact Hr|]. intros j Hj. apply Hs. apply in_or_app. right. exact Hj.
  - split; [exact Hslot|]. apply IH; [exact Hr|exact Hs].
Qed.

(* ---------------- the graph component replaced under a frame ---------------- *)
Definition sd_with_graph (w : sd_wit) (dg : cg_data) (gs : cg_slots) : sd_wit :=
  {| sw_root := sw_root w; sw_g := dg; sw_gs := gs; sw_a1 := sw_a1 w; sw_a2 := sw_a2 w;
     sw_ih := sw_ih w; sw_is := sw_is w; sw_ie := sw_ie w; sw_iw := sw_iw w;
     sw_vh := sw_vh w; sw_vs := sw_vs w; sw_vi := sw_vi w; sw_vw := sw_vw w |}.

Theorem sd_graph_update g g' root d w dg' s' gr' :
  stored_db_w g root d w -> cg_index dg' = cg_index (sw_g w) ->
  grep g' dg' s' (sd_arrays gr') -> frame g g' (gfoot (sw_g w) (sw_gs w)) (gfoot dg' s') ->
  stored_db_w g' root (with_gr d gr') (sd_with_graph w dg' s') /\
  frame g g' (sd_foot root w) (sd_foot root (sd_with_graph w dg' s')).
Proof.
  intros H Hi HG Hf.
  pose proof (sr_nodup _ _ _ _ H) as Hnd. rewrite sd_foot_split in Hnd.
  assert (Hl : live_all g ([root] ++ sd_rest w)).
  { apply live_all_app. split; [|eapply sd_rest_live; exact H]. intros j [<-|[]]. rewrite (sr_root _ _ _ _ H). discriminate. }
  destruct (sep_update g g' [root] _ _ (sd_rest w) Hf Hnd Hl (gr_nodup _ _ _ _ HG)) as (N' & F' & Same).
  assert (SameR : forall j, In j (sd_rest w) -> g' j = g j) by (intros j Hj; apply Same; apply in_or_app; right; exact Hj).
  split; [|rewrite !sd_foot_split; exact F'].
  destruct H as [Hroot Hu64 Hver Hg Hgi Ha1 Hk1 Ha2 Hk2 Hiv Hii Hix Hvv Hvi Hv _].
  unfold sd_rest in SameR.
  constructor; cbn [sd_with_graph sw_root sw_g sw_gs sw_a1 sw_a2 sw_ih sw_is sw_ie sw_iw sw_vh sw_vs sw_vi sw_vw with_gr gr aliases vals indexes].
  - rewrite Same; [exact Hroot|left; reflexivity].
  - exact Hu64.
  - exact Hver.
  - exact HG.
  - congruence.
  - eapply sd_transport_map; [exact Ha1|]. intros j Hj. apply SameR. apply in_or_app. left. exact Hj.
  - exact Hk1.
  - eapply sd_transport_map; [exact Ha2|]. intros j Hj. apply SameR. apply in_or_app. right. apply in_or_app. left. exact Hj.
  - exact Hk2.
  - eapply vrep_transport; [exact Hiv|]. intros j Hj. apply SameR. do 2 (apply in_or_app; right). apply in_or_app. left. exact Hj.
  - exact Hii.
  - eapply sd_transport_ix; [exact Hix|]. intros j Hj. apply SameR. do 3 (apply in_or_app; right). apply in_or_app. left. exact Hj.
  - eapply vrep_transport; [exact Hvv|]. intros j Hj. apply SameR. do 4 (apply in_or_app; right). apply in_or_app. left. exact Hj.
  - exact Hvi.
  - eapply sd_transport_kv; [exact Hv|]. intros j Hj. apply SameR. do 5 (apply in_or_app; right). exact Hj.
  - rewrite sd_foot_split. exact N'.
Qed.

(* ---------------- every history of the GraphData interface on the graph of a stored database ---------------- *)
Definition sd_graph_of (a : cg_arrays) : graph :=
  {| g_from := ga_from a; g_to := ga_to a; g_fmeta := ga_from_meta a; g_tmeta := ga_to_meta a |}.
Lemma sd_arrays_of a : sd_arrays (sd_graph_of a) = a.
Proof. destruct a. reflexivity. Qed.

Theorem sd_graph_history fl ops root d w sp (Q : cres (cg_data * list cg_obs) -> spec -> Prop) :
  stored_db_w (hp sp) root d w -> sdepth sp = 0 -> gops_ok (sd_arrays (gr d)) ops ->
  (forall dg' s' sp',
      stored_db_w (hp sp') root (with_gr d (sd_graph_of (fst (ga_run (sd_arrays (gr d)) ops)))) (sd_with_graph w dg' s') ->
      sdepth sp' = 0 ->
      frame (hp sp) (hp sp') (sd_foot root w) (sd_foot root (sd_with_graph w dg' s')) ->
      Q (CrOk (dg', snd (ga_run (sd_arrays (gr d)) ops))) sp') ->
  cwp fl (cg_run (sw_g w) ops) sp Q.
Proof.
  intros H Hd Hok HQ.
  eapply cg_run_spec; [exact (sr_graph _ _ _ _ H)|exact Hd|exact Hok|].
  intros dg' s' sp' HG Hi Hd' Hf.
  rewrite <- (sd_arrays_of (fst (ga_run (sd_arrays (gr d)) ops))) in HG.
  destruct (sd_graph_update _ _ root d w dg' s' _ H Hi HG Hf) as [H' F'].
  apply (HQ dg' s' sp'); assumption.
Qed.
