(* TraverseSpec.v — textbook EAGER breadth-first / depth-first specifications over the
   abstract adjacency of the graph (out_edges / edge_to forward, in_edges / edge_from in
   reverse), reachability, walks and distances.  Used by TraverseProofs.v (C14).

   The elements of the searched graph are the node ids (> 0) and the edge ids (< 0); one
   step of the successor relation goes from a node to each of its out-edges (newest first)
   and from an edge to its target node (reverse: in-edges / source node).  Every step counts
   1 in the distance.

   BFS: queue of (element, distance); when an unvisited element is dequeued it is appended to
        the result and ALL its successors are enqueued at the back (newest edge first).
   DFS: stack; when an unvisited element is popped it is appended to the result and ALL its
        successors are pushed so that the newest edge is on top.
   The visited test is made when an item is dequeued / popped. *)
From Agdb Require Import Bytes DbValue Graph DbModel Search.
Open Scope Z_scope.

Definition inb (x : Z) (l : list Z) : bool := existsb (Z.eqb x) l.

Section Spec.
  Variable g : graph.
  Variable a : algo.
  Variable rv : bool.      (* reverse search *)

  Definition succs (x : Z) : list Z :=
    if 0 <? x then (if rv then in_edges g x else out_edges g x)
    else [if rv then edge_from g x else edge_to g x].

  (* one iteration: None = the work list is empty *)
  Definition spec_step (E acc : list (Z * Z)) : option (list (Z * Z) * list (Z * Z)) :=
    match E with
    | [] => None
    | (x, k) :: rest =>
      if inb x (map fst acc) then Some (rest, acc)
      else
        let new := map (fun y => (y, k + 1)) (succs x) in
        Some (match a with BFS => rest ++ new | DFS => new ++ rest end, (x, k) :: acc)
    end.

  (* iterate; None = out of fuel (never happens with search_fuel, see C14_no_fuel) *)
  Fixpoint spec_run (fuel : nat) (E acc : list (Z * Z)) : option (list (Z * Z)) :=
    match fuel with
    | O => None
    | S f =>
      match spec_step E acc with
      | None => Some (rev acc)
      | Some (E', acc') => spec_run f E' acc'
      end
    end.

  (* result: the visited elements with their distances, in visiting order *)
  Definition search_spec (origin : Z) : list (Z * Z) :=
    match spec_run (search_fuel g) [(origin, 0)] [] with
    | Some r => r
    | None => []
    end.

  (* ---- reachability, walks ---- *)
  Inductive reach (o : Z) : Z -> Prop :=
  | reach_refl : reach o o
  | reach_step : forall x y, reach o x -> In y (succs x) -> reach o y.

  (* walk o x k : x is reached from o by exactly k successor steps *)
  Inductive walk (o : Z) : Z -> Z -> Prop :=
  | walk_refl : walk o o 0
  | walk_step : forall x y k, walk o x k -> In y (succs x) -> walk o y (k + 1).

  (* k is the length of a shortest walk from o to x *)
  Definition shortest (o x k : Z) : Prop :=
    walk o x k /\ forall k', walk o x k' -> k <= k'.

  (* ---- the recursive textbook depth-first search (pre-order, newest edge first) ---- *)
  (* dfs_rec fuel x seen = seen extended by the pre-order of the DFS tree of x (first visits
     only), most recent first *)
  Fixpoint dfs_rec (fuel : nat) (x : Z) (seen : list Z) : list Z :=
    match fuel with
    | O => seen
    | S f =>
      if inb x seen then seen
      else fold_left (fun s y => dfs_rec f y s) (succs x) (x :: seen)
    end.
End Spec.

Definition bfs_spec (g : graph) (reverse : bool) (origin : Z) : list (Z * Z) := search_spec g BFS reverse origin.
Definition dfs_spec (g : graph) (reverse : bool) (origin : Z) : list (Z * Z) := search_spec g DFS reverse origin.
