(* StoredDbOpsAlias.v — the alias tables as PROGRAMS over the storage (layer L3): MapImpl::insert (map.rs) =
   MultiMapImpl::insert_or_replace(|_| true) (multi_map.rs) over the DbMapData interface of Collections.v, and its
   proof for the insertion of an ABSENT key that needs neither the grow (`len >= max_len`: rehash(capacity * 2)) nor
   the in-place rehash after a full probe cycle.

     so_ior_loop       the probe loop of insert_or_replace on fuel (= capacity; out of fuel = CDead: the theorem shows it
                       is not reached): data.state(pos); Empty: free_pos = pos, stop; Deleted: remember the first free
                       slot; Valid: data.key(pos), on the key data.value(pos) + data.set_value (predicate |_| true), stop;
                       next_pos; back at the start: full_cycle, stop
     so_map_do_insert  set_state(Valid), set_key, set_value, set_len(len + 1)
     so_map_insert     transaction; [len >= max_len: GROW]; the loop; do_insert at free_pos; [full_cycle: REHASH IN
                       PLACE]; commit.  The two bracketed branches are NOT modelled: they are PARAMETERS (`so_map_rest`)
                       of the program and the theorem holds for every choice of them because, under its side
                       conditions, they are not executed.

   so_map_insert_absent: on a represented table (mrep) whose open-addressing map satisfies C19's invariant PInv, for a
   key that no Valid slot holds, with len < max_len(capacity) (no grow) and a probe that does not come back to its start
   (so_no_full_cycle, stated on OpenMap.v's ior_loop at the repaired revision — the revision of the wrap guard, which is
   what /repo's multi_map.rs has), the program returns None, ends in a represented table t' whose map is the one
   OpenMap.v's insert_or_replace computes: PInv again, the pairs are (key, value) :: the old ones as a multiset; the
   transaction depth is restored; only the footprint of the map changed (frame). *)
From Coq Require Import List NArith ZArith Arith Bool Lia Permutation.
Import ListNotations.
From Agdb Require Import Bytes BytesProofs Records RecordsProofs Storage StorageSpec StorageLayout
  Collections CollWp CollBytes CollVecBase CollVecOps CollVec CollVec2 CollElems CollSep CollMap CollMapHist
  OpenMap OpenMapProofs OpenMapSpec OpenMapRefineBase OpenMapRefineOps OpenMapRefineStep OpenMapRefine
  StoredDb StoredDbRep StoredDbProbe.
From Coq Require Import ZifyBool ZifyNat ZifyN.
Ltac Zify.zify_post_hook ::= Z.div_mod_to_equations.
Open Scope N_scope.

(* the branches of insert_or_replace that are not modelled *)
Record so_map_rest := { smr_grow : cm_data -> cprog cm_data; smr_rehash_in_place : cm_data -> cprog cm_data }.

Definition so_next_pos (cap pos : N) : N := if pos =? cap - 1 then 0 else pos + 1.
Definition so_max_len (cap : N) : N := cap * 15 / 16.

Section MapInsertProg.
  Variables K V : Type.
  Variable EK : cv_elem K.
  Variable EV : cv_elem V.
  Variable keqb : K -> K -> bool.
  Variable h : K -> N.

  Fixpoint so_ior_loop (fuel : nat) (d : cm_data) (key : K) (nv : V) (cap start pos : N) (free : option N)
    : cprog (option N * option V * bool) :=
    match fuel with
    | O => CDead
    | S f =>
      let continue (free' : option N) :=
        let pos' := so_next_pos cap pos in
        if pos' =? start then CRet (free', None, true) else so_ior_loop f d key nv cap start pos' free' in
      s <~ cm_state d pos ;;
      match s with
      | StEmpty => CRet (Some pos, None, false)
      | StDeleted => continue (match free with None => Some pos | Some _ => free end)
      | StValid =>
        k' <~ cm_key K EK d pos ;;
        if keqb k' key then
          old <~ cm_value V EV d pos ;;
          cm_set_value V EV d pos nv ;;~
          CRet (None, Some old, false)
        else continue free
      end
    end.

  Definition so_map_do_insert (d : cm_data) (pos : N) (key : K) (nv : V) : cprog cm_data :=
    cm_set_state d pos StValid ;;~
    cm_set_key K EK d pos key ;;~
    cm_set_value V EV d pos nv ;;~
    cm_set_len d (cm_len d + 1).

  Definition so_map_insert (x : so_map_rest) (d : cm_data) (key : K) (nv : V) : cprog (cm_data * option V) :=
    id <~ cp_transaction ;;
    d1 <~ (if so_max_len (cm_capacity d) <=? cm_len d then smr_grow x d else CRet d) ;;
    let cap := cm_capacity d1 in
    let start := (h key) mod cap in
    r <~ so_ior_loop (N.to_nat cap) d1 key nv cap start start None ;;
    d2 <~ match fst (fst r) with Some pos => so_map_do_insert d1 pos key nv | None => CRet d1 end ;;
    d3 <~ (if snd r then smr_rehash_in_place x d2 else CRet d2) ;;
    cp_commit id ;;~
    CRet (d3, snd (fst r)).
End MapInsertProg.

(* ---- the table as a list of slots ---- *)
Section Slots.
  Variables K V : Type.

  Lemma ct_slots_length : forall (ls : list cm_st) (lk : list K) (lv : list V),
    length lk = length ls -> length lv = length ls -> length (ct_slots K V ls lk lv) = length ls.
  Proof.
    induction ls as [|s ls IH]; intros [|k lk] [|v lv] H1 H2; cbn [ct_slots length] in *; try discriminate; [reflexivity|].
    f_equal. apply IH; congruence.
  Qed.

  Lemma ct_slots_nth : forall (ls : list cm_st) (lk : list K) (lv : list V) j,
    length lk = length ls -> length lv = length ls -> (j < length ls)%nat ->
    exists s k v, nth_error ls j = Some s /\ nth_error lk j = Some k /\ nth_error lv j = Some v /\
      nth j (ct_slots K V ls lk lv) Empty = match s with StEmpty => Empty | StDeleted => Deleted | StValid => Valid k v end.
  Proof.
    induction ls as [|s ls IH]; intros [|k lk] [|v lv] j H1 H2 Hj; cbn [length] in *; try discriminate; [lia|].
    destruct j as [|j].
    - exists s, k, v. cbn [nth_error ct_slots nth]. auto.
    - cbn [nth_error ct_slots nth]. apply IH; [congruence|congruence|lia].
  Qed.

  Lemma ct_slots_upd : forall (ls : list cm_st) (lk : list K) (lv : list V) j k v,
    length lk = length ls -> length lv = length ls ->
    ct_slots K V (cl_upd ls j StValid) (cl_upd lk j k) (cl_upd lv j v) = upd j (Valid k v) (ct_slots K V ls lk lv).
  Proof.
    induction ls as [|s ls IH]; intros [|k0 lk] [|v0 lv] j k v H1 H2; cbn [length] in *; try discriminate; [destruct j; reflexivity|].
    destruct j as [|j]; cbn [cl_upd ct_slots upd]; [reflexivity|]. f_equal. apply IH; congruence.
  Qed.

  Lemma omap_to_of (o : option N) : option_map N.of_nat (option_map N.to_nat o) = o.
  Proof. destruct o as [n|]; cbn [option_map]; [rewrite N2Nat.id|]; reflexivity. Qed.
End Slots.

Section MapInsertProof.
  Variables K V : Type.
  Variable EK : cv_elem K.
  Variable EV : cv_elem V.
  Variable LK : elem_law EK.
  Variable LV : elem_law EV.
  Variable keqb : K -> K -> bool.
  Variable veqb : V -> V -> bool.
  Variable h : K -> N.
  Variable mincap : nat.
  Variable fl : bool.
  Hypothesis keqb_eq : forall a b, keqb a b = true <-> a = b.
  Hypothesis veqb_eq : forall a b, veqb a b = true <-> a = b.
  Hypothesis Hmin : (4 <= mincap)%nat.

  Notation msepT := (msep K V EK EV LK LV).
  Notation mrepT := (mrep K V EK EV LK LV).
  Notation mfootT := (mfoot K V EK EV LK LV).
  Notation slotsT := (ct_slots K V).
  Notation loopM := (ior_loop K V keqb om_fixed).

  (* no Valid slot holds the key *)
  Definition so_key_absent (sl : list (slot K V)) (key : K) : Prop :=
    forall j k v, nth j sl Empty = Valid k v -> keqb k key = false.

  (* ---- the probe loop: reads only ---- *)
  Lemma so_ior_loop_spec d ss ks vs ls lk lv key nv cap start sp :
    msepT (hp sp) d ss ks vs ls lk lv -> length lk = length ls -> length lv = length ls ->
    N.to_nat cap = length ls -> so_key_absent (slotsT ls lk lv) key ->
    forall fuel pos free r (Q : cres (option N * option V * bool) -> spec -> Prop),
      pos < cap ->
      loopM fuel (slotsT ls lk lv) (N.to_nat cap) (N.to_nat start) key (fun _ => true) nv (N.to_nat pos)
            (option_map N.to_nat free) = Done r ->
      Q (CrOk (option_map N.of_nat (ior_free K V r), None, ior_full_cycle K V r)) sp ->
      cwp fl (so_ior_loop K V EK EV keqb fuel d key nv cap start pos free) sp Q.
  Proof.
    intros HS L1 L2 Hc Habs. induction fuel as [|f IH]; intros pos free r Q Hpos Hr HQ; cbn [ior_loop] in Hr; [discriminate|].
    cbn [so_ior_loop]. cbn [fix_insert_wrap_guard om_fixed andb] in Hr.
    destruct (ct_slots_nth K V ls lk lv (N.to_nat pos) L1 L2) as (s & k & v & Es & Ek & Ev & En); [lia|].
    rewrite En in Hr.
    assert (Hnext : N.to_nat (so_next_pos cap pos) = next_pos (N.to_nat cap) (N.to_nat pos)).
    { unfold so_next_pos, next_pos. destruct (N.eqb_spec pos (cap - 1)) as [E|E]; destruct (Nat.eqb_spec (N.to_nat pos) (N.to_nat cap - 1)) as [E'|E']; lia. }
    assert (Hnlt : so_next_pos cap pos < cap).
    { unfold so_next_pos. destruct (N.eqb_spec pos (cap - 1)); lia. }
    assert (Hcont : forall free',
      (if (next_pos (N.to_nat cap) (N.to_nat pos) =? N.to_nat start)%nat
       then Done {| ior_free := option_map N.to_nat free'; ior_ret := None; ior_slots := slotsT ls lk lv; ior_full_cycle := true |}
       else loopM f (slotsT ls lk lv) (N.to_nat cap) (N.to_nat start) key (fun _ => true) nv
                  (next_pos (N.to_nat cap) (N.to_nat pos)) (option_map N.to_nat free')) = Done r ->
      cwp fl (if so_next_pos cap pos =? start then CRet (free', None, true)
              else so_ior_loop K V EK EV keqb f d key nv cap start (so_next_pos cap pos) free') sp Q).
    { intros free' Hr'. rewrite <- Hnext in Hr'.
      destruct (N.eqb_spec (so_next_pos cap pos) start) as [E|E];
        destruct (Nat.eqb_spec (N.to_nat (so_next_pos cap pos)) (N.to_nat start)) as [E'|E']; try lia.
      - inversion Hr' as [Hr2]. rewrite <- Hr2 in HQ. cbn [ior_free ior_full_cycle] in HQ. rewrite omap_to_of in HQ. exact HQ.
      - eapply IH; [exact Hnlt|exact Hr'|exact HQ]. }
    apply cwp_bind. unfold cm_state. eapply cv_value_spec; [exact (ms_s _ _ _ _ _ _ _ _ _ _ _ _ _ _ HS)|].
    rewrite Es. cbn [kont]. destruct s.
    - inversion Hr as [Hr2]. rewrite <- Hr2 in HQ. cbn [ior_free ior_full_cycle option_map] in HQ. rewrite N2Nat.id in HQ. exact HQ.
    - apply cwp_bind. unfold cm_key. eapply cv_value_spec; [exact (ms_k _ _ _ _ _ _ _ _ _ _ _ _ _ _ HS)|].
      rewrite Ek. cbn [kont]. rewrite (Habs _ _ _ En) in *. cbn [andb] in Hr. apply Hcont. exact Hr.
    - apply Hcont. destruct free as [n|]; cbn [option_map] in *; exact Hr.
  Qed.

  (* ---- do_insert ---- *)
  Lemma so_map_do_insert_spec d ss ks vs t pos key nv sp (Q : cres cm_data -> spec -> Prop) :
    mrepT (hp sp) d ss ks vs t -> pos < lenN (ct_states t) -> el_valid LK key -> el_valid LV nv -> ct_len t + 1 < two64 ->
    (forall d' ss' ks' vs' sp',
        mrepT (hp sp') d' ss' ks' vs'
              {| ct_states := cl_upd (ct_states t) (N.to_nat pos) StValid; ct_keys := cl_upd (ct_keys t) (N.to_nat pos) key;
                 ct_values := cl_upd (ct_values t) (N.to_nat pos) nv; ct_len := ct_len t + 1 |} ->
        cm_index d' = cm_index d -> sdepth sp' = sdepth sp ->
        frame (hp sp) (hp sp') (mfootT d ss ks vs) (mfootT d' ss' ks' vs') -> Q (CrOk d') sp') ->
    cwp fl (so_map_do_insert K V EK EV d pos key nv) sp Q.
  Proof.
    intros HM Hpos VK VV Hlen HQ.
    destruct d as [di dl hs0 hk0 hv0]. pose proof (mr_sep _ _ _ _ _ _ _ _ _ _ _ _ HM) as HS.
    destruct (mr_same _ _ _ _ _ _ _ _ _ _ _ _ HM) as [SK SV]. pose proof (mr_len _ _ _ _ _ _ _ _ _ _ _ _ HM) as HL.
    destruct t as [ls lk lv ln]. cbn [ct_states ct_keys ct_values ct_len cm_len] in *.
    assert (Hp : (N.to_nat pos < length ls)%nat) by (unfold lenN in Hpos; lia).
    destruct (nth_error_lt_Some ls (N.to_nat pos)) as (s0 & Es); [lia|].
    destruct (nth_error_lt_Some lk (N.to_nat pos)) as (k0 & Ek); [lia|].
    destruct (nth_error_lt_Some lv (N.to_nat pos)) as (v0 & Ev); [lia|].
    unfold so_map_do_insert.
    apply cwp_bind. unfold cm_set_state. apply cwp_bind.
    eapply cv_replace_spec; [exact (ms_s _ _ _ _ _ _ _ _ _ _ _ _ _ _ HS)|exact I|]. rewrite Es.
    intros ss' sp1 R1 D1 F1. cbn [kont cwp].
    destruct (msep_update_s K V EK EV LK LV _ _ _ _ _ _ _ _ _ _ _ _ HS eq_refl R1 F1) as [HS1 Ff1].
    apply cwp_bind. unfold cm_set_key. apply cwp_bind.
    eapply cv_replace_spec; [exact (ms_k _ _ _ _ _ _ _ _ _ _ _ _ _ _ HS1)|exact VK|]. rewrite Ek.
    intros ks' sp2 R2 D2 F2. cbn [kont cwp].
    destruct (msep_update_k K V EK EV LK LV _ _ _ _ _ _ _ _ _ _ _ _ HS1 eq_refl R2 F2) as [HS2 Ff2].
    apply cwp_bind. unfold cm_set_value. apply cwp_bind.
    eapply cv_replace_spec; [exact (ms_v _ _ _ _ _ _ _ _ _ _ _ _ _ _ HS2)|exact VV|]. rewrite Ev.
    intros vs' sp3 R3 D3 F3. cbn [kont cwp].
    destruct (msep_update_v K V EK EV LK LV _ _ _ _ _ _ _ _ _ _ _ _ HS2 eq_refl R3 F3) as [HS3 Ff3].
    eapply cm_set_len_spec; [exact HS3|cbn [cm_len]; lia|].
    intros sp4 HS4 D4 F4.
    eapply HQ; [|reflexivity|lia|eapply frame_trans; [exact Ff1|eapply frame_trans; [exact Ff2|eapply frame_trans; [exact Ff3|exact F4]]]].
    constructor; cbn [ct_states ct_keys ct_values ct_len cm_len cm_with with_s with_k with_v cm_states cm_keys cm_values cm_index] in *.
    - exact HS4.
    - rewrite HL. reflexivity.
    - rewrite !cl_upd_length. auto.
  Qed.

  (* the probe of insert_or_replace does not come back to its start *)
  Definition so_no_full_cycle (t : cm_table K V) (key : K) (nv : V) : Prop :=
    let sl := slotsT (ct_states t) (ct_keys t) (ct_values t) in
    forall r, loopM (length sl) sl (length sl) (hpos K h key (length sl)) key (fun _ => true) nv (hpos K h key (length sl)) None = Done r ->
              ior_full_cycle K V r = false.
  (* len < max_len: no grow *)
  Definition so_no_grow (t : cm_table K V) : Prop := ct_len t < so_max_len (lenN (ct_states t)).

  Theorem so_map_insert_absent x d ss ks vs t key nv sp (Q : cres (cm_data * option V) -> spec -> Prop) :
    mrepT (hp sp) d ss ks vs t -> PInv K V h mincap (ct_omap K V t) ->
    so_key_absent (slotsT (ct_states t) (ct_keys t) (ct_values t)) key ->
    so_no_grow t -> so_no_full_cycle t key nv ->
    el_valid LK key -> el_valid LV nv -> ct_len t + 1 < two64 ->
    (forall d' ss' ks' vs' t' sp',
        mrepT (hp sp') d' ss' ks' vs' t' -> cm_index d' = cm_index d -> PInv K V h mincap (ct_omap K V t') ->
        Permutation (sd_table_entries t') ((key, nv) :: sd_table_entries t) ->
        sdepth sp' = sdepth sp -> frame (hp sp) (hp sp') (mfootT d ss ks vs) (mfootT d' ss' ks' vs') ->
        Q (CrOk (d', None)) sp') ->
    cwp fl (so_map_insert K V EK EV keqb h x d key nv) sp Q.
  Proof.
    intros HM HP Habs Hng Hnf VK VV Hlen HQ.
    pose proof (mr_sep _ _ _ _ _ _ _ _ _ _ _ _ HM) as HS.
    destruct (mr_same _ _ _ _ _ _ _ _ _ _ _ _ HM) as [SK SV]. pose proof (mr_len _ _ _ _ _ _ _ _ _ _ _ _ HM) as HL.
    assert (Hcap : cm_capacity d = lenN (ct_states t)).
    { unfold cm_capacity. exact (vr_len _ _ _ _ _ _ _ (ms_s _ _ _ _ _ _ _ _ _ _ _ _ _ _ HS)). }
    unfold so_map_insert.
    apply cwp_bind. apply hwp_transaction. intros sp0 Hm0 Hd0. cbn [kont].
    assert (HM0 : mrepT (hp sp0) d ss ks vs t).
    { constructor; [eapply msep_heq; [exact HS|exact Hm0]|exact HL|auto]. }
    unfold so_no_grow in Hng. rewrite Hcap, HL.
    destruct (N.leb_spec (so_max_len (lenN (ct_states t))) (ct_len t)) as [X|_]; [lia|]. cbn [cbind].
    rewrite Hcap.
    set (sl := slotsT (ct_states t) (ct_keys t) (ct_values t)) in *.
    assert (Lsl : length sl = length (ct_states t)) by (apply ct_slots_length; auto).
    (* the model's insert_or_replace on the table *)
    destruct (insert_or_replace_spec K V keqb veqb h mincap om_fixed keqb_eq veqb_eq Hmin eq_refl
                (ct_omap K V t) key (fun _ => true) nv HP) as (m' & ret & Hior & HP' & Hpost).
    unfold insert_or_replace, insert_or_replace_fuel, probe_fuel, grow_if_full in Hior.
    unfold capacity, ct_omap in Hior. cbn [slots len] in Hior. fold sl in Hior.
    assert (Hmax : (max_len (length sl) <=? N.to_nat (ct_len t))%nat = false).
    { apply Nat.leb_gt. unfold max_len, so_max_len, lenN in *. rewrite Lsl. lia. }
    rewrite Hmax in Hior. cbn [slots len] in Hior.
    destruct (loopM (length sl) sl (length sl) (hpos K h key (length sl)) key (fun _ => true) nv (hpos K h key (length sl)) None)
      as [r|] eqn:Hloop; [|discriminate].
    pose proof (Hnf r Hloop) as Hfull. rewrite Hfull in Hior. cbn [andb] in Hior.
    assert (Hlen0 : (0 < length sl)%nat).
    { unfold so_max_len, lenN in Hng. rewrite Lsl. destruct (ct_states t); cbn [length] in *; [|lia]. cbn in Hng. lia. }
    assert (Hstart : h key mod lenN (ct_states t) < lenN (ct_states t)) by (apply N.mod_lt; unfold lenN; lia).
    assert (Ehp : hpos K h key (length sl) = N.to_nat (h key mod lenN (ct_states t))).
    { unfold hpos, lenN. rewrite Lsl. reflexivity. }
    (* what the loop found *)
    assert (Hc0 : (0 < length sl)%nat) by exact Hlen0.
    destruct HP as [HInv Hch]. unfold capacity in Hch. cbn [ct_omap slots] in Hch. fold sl in Hch.
    pose proof (hpos_lt K keqb h key (length sl) Hc0) as Hs.
    destruct (ior_loop_spec K V keqb veqb h om_fixed keqb_eq veqb_eq eq_refl (length sl) sl key (fun _ => true) nv Hc0 Hch
                (length sl) (hpos K h key (length sl)) None Hs) as (r2 & Hr2 & Hpost2).
    { rewrite rem_start. lia. }
    { intros j Hj Hd. rewrite dist_self in Hd. lia. }
    { intros j Hj Hd. rewrite dist_self in Hd. lia. }
    rewrite Hloop in Hr2. inversion Hr2; subst r2. clear Hr2. unfold ior_post in Hpost2.
    destruct (ior_ret K V r) as [w|] eqn:Hret.
    { exfalso. destruct Hpost2 as (p & Hp & Hv & _). pose proof (Habs _ _ _ Hv) as X. rewrite (proj2 (keqb_eq key key) eq_refl) in X. discriminate. }
    destruct Hpost2 as (Hsl & _ & Hfree).
    destruct (ior_free K V r) as [p|] eqn:Hfr.
    2:{ exfalso. destruct HInv as [Hcv Hor]. unfold ct_omap, capacity in Hcv, Hor. cbn [slots len] in Hcv, Hor. fold sl in Hcv, Hor.
        pose proof (cnt_all_prefix _ (is_valid K V) Empty (length sl) sl (le_n _) Hfree) as Hall.
        unfold cv in Hcv. lia. }
    destruct Hfree as (Hp & Hpv & _).
    apply cwp_bind.
    eapply (so_ior_loop_spec d ss ks vs (ct_states t) (ct_keys t) (ct_values t) key nv (lenN (ct_states t))
              (h key mod lenN (ct_states t)) sp0 (mr_sep _ _ _ _ _ _ _ _ _ _ _ _ HM0) SK SV)
      with (r := r); [unfold lenN; lia|exact Habs|exact Hstart| |].
    { fold sl. replace (N.to_nat (lenN (ct_states t))) with (length sl) by (unfold lenN; lia). rewrite <- Ehp. exact Hloop. }
    rewrite Hfr, Hfull. cbn [option_map kont fst snd].
    apply cwp_bind.
    eapply so_map_do_insert_spec; [exact HM0|unfold lenN; lia|exact VK|exact VV|exact Hlen|].
    intros d' ss' ks' vs' sp1 HM1 Hi1 Hd1 Hf1. cbn [kont cbind].
    apply cwp_bind. apply hwp_commit; [lia|lia|]. intros sp2 Hm2 Hd2. cbn [kont cwp].
    rewrite Nat2N.id in HM1.
    set (t' := {| ct_states := cl_upd (ct_states t) p StValid; ct_keys := cl_upd (ct_keys t) p key;
                  ct_values := cl_upd (ct_values t) p nv; ct_len := ct_len t + 1 |}) in *.
    assert (Em : ct_omap K V t' = m' /\ ret = None).
    { rewrite Hsl in Hior. inversion Hior. split; [|reflexivity]. unfold ct_omap, do_insert. cbn [t' ct_states ct_keys ct_values ct_len].
      rewrite ct_slots_upd by auto. f_equal. lia. }
    destruct Em as [Em ->]. destruct Hpost as [_ Hperm].
    eapply HQ.
    - constructor; [eapply msep_heq; [exact (mr_sep _ _ _ _ _ _ _ _ _ _ _ _ HM1)|exact Hm2]|
                    exact (mr_len _ _ _ _ _ _ _ _ _ _ _ _ HM1)|exact (mr_same _ _ _ _ _ _ _ _ _ _ _ _ HM1)].
    - exact Hi1.
    - rewrite Em. exact HP'.
    - rewrite !(sd_table_entries_iter_all K V). rewrite Em. exact Hperm.
    - lia.
    - eapply frame_trans; [apply frame_refl; exact Hm0|]. eapply frame_trans; [exact Hf1|apply frame_refl; exact Hm2].
  Qed.
End MapInsertProof.
