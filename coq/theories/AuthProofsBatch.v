(* AuthProofsBatch.v — query batches: all-or-nothing, exact audit log, result injection (C25). *)
From Agdb Require Import Bytes Auth AuthProofs AuthProofsTokens AuthProofsPerm.
From Coq Require Import Lia ZifyBool ZifyN.
Open Scope N_scope.

Arguments N.add : simpl never.
Arguments N.ltb : simpl never.
Arguments N.leb : simpl never.
Arguments N.eqb : simpl never.

(* ---------- result injection ---------- *)

(* what ":k" / literal ids stand for *)
Definition ref_ids (rs : list qresult) (r : qref) : list N :=
  match r with
  | QId n => [n]
  | QRes k => match nth_error rs k with Some x => res_ids x | None => [] end
  end.
Definition ref_ok (rs : list qresult) (r : qref) : bool :=
  match r with QId _ => true | QRes k => Nat.ltb k (length rs) end.

Theorem inject_spec : forall rs ids,
  inject rs ids = if forallb (ref_ok rs) ids then Some (flat_map (ref_ids rs) ids) else None.
Proof.
  intros rs ids. induction ids as [|r t IH]; cbn [inject forallb flat_map]; [reflexivity|].
  destruct r as [n|k]; cbn [ref_ok ref_ids].
  - rewrite IH. cbn. destruct (forallb (ref_ok rs) t); reflexivity.
  - rewrite IH. destruct (nth_error rs k) as [x|] eqn:E.
    + assert (L : Nat.ltb k (length rs) = true).
      { apply PeanoNat.Nat.ltb_lt. apply nth_error_Some. congruence. }
      rewrite L. cbn. destruct (forallb (ref_ok rs) t); reflexivity.
    + assert (L : Nat.ltb k (length rs) = false).
      { apply PeanoNat.Nat.ltb_ge. apply nth_error_None. exact E. }
      rewrite L. reflexivity.
Qed.

(* a query that references a result which does not exist fails (and with it the batch) *)
Theorem bad_reference_fails : forall c rs ids m,
  forallb (ref_ok rs) ids = false ->
  exec_query c rs (QSetValue ids m) = None /\ exec_query c rs (QRemoveValue ids) = None /\
  exec_query c rs (QSelect ids) = None.
Proof.
  intros c rs ids m H. cbn [exec_query]. rewrite inject_spec, H. auto.
Qed.

(* ---------- the audit a batch produces ---------- *)

(* the queries of a batch in the form they have after result injection, as far as the batch runs *)
Fixpoint injected (c : content) (rs : list qresult) (qs : list query) : list query :=
  match qs with
  | [] => []
  | q :: t =>
    match exec_query c rs q with
    | Some (c1, r, q') => q' :: injected c1 (rs ++ [r]) t
    | None => []
    end
  end.

(* specification of the audit records of a successful batch: its mutating queries, in order, after
   injection, attributed to the submitting user *)
Definition audit_of_batch (who : N) (c : content) (qs : list query) : list aentry :=
  map (fun q => (who, q)) (filter (fun q => kind_is_write (kind_of q)) (injected c [] qs)).

Lemma exec_batch_mut_audit : forall who qs c rs au c' rs' au',
  exec_batch_mut who c rs au qs = Some (c', rs', au') ->
  au' = au ++ map (fun q => (who, q)) (filter (fun q => kind_is_write (kind_of q)) (injected c rs qs)).
Proof.
  intros who qs. induction qs as [|q t IH]; intros c rs au c' rs' au' H; cbn [exec_batch_mut injected] in *.
  - inversion H; subst. cbn. rewrite app_nil_r. reflexivity.
  - destruct (exec_query c rs q) as [[[c1 r] q']|] eqn:E; [|discriminate H].
    apply IH in H. rewrite H. cbn [filter].
    rewrite (exec_query_kind _ _ _ _ _ _ E).
    destruct (kind_tables_agree (kind_of q)) as [_ K]. rewrite K.
    destruct (kind_is_write (kind_of q)); cbn [map]; [rewrite <- app_assoc; reflexivity|reflexivity].
Qed.

(* a batch without mutating queries audits nothing *)
Lemma audit_of_read_batch : forall who c qs, batch_is_write qs = false -> audit_of_batch who c qs = [].
Proof.
  intros who c qs. unfold audit_of_batch. generalize (@nil qresult). revert c.
  induction qs as [|q t IH]; intros c rs H; cbn [injected]; [reflexivity|].
  cbn [batch_is_write existsb] in H. apply Bool.orb_false_iff in H. destruct H as [H1 H2].
  destruct (exec_query c rs q) as [[[c1 r] q']|] eqn:E; [|reflexivity].
  cbn [filter]. rewrite (exec_query_kind _ _ _ _ _ _ E), H1. apply IH. exact H2.
Qed.

(* ---------- one batch request against the server ---------- *)

Definition is_batch (req : request) : bool :=
  match req with
  | ReqDb _ _ (OExec _) | ReqDb _ _ (OExecMut _) | ReqAdminDb _ _ (OExec _) | ReqAdminDb _ _ (OExecMut _) => true
  | _ => false
  end.

(* the user a batch is attributed to *)
Definition submitter (s : state) (now : N) (tok : option N) (req : request) : N :=
  match req with
  | ReqAdminDb _ _ _ => s_admin s
  | _ => match user_of_token s now tok with Some u => u | None => 0 end
  end.

(* what one request contributes to the audit log of (o, d): the audit of its batch if it is a
   successful exec_mut on (o, d), nothing otherwise *)
Definition contribution (s : state) (now : N) (tok : option N) (req : request) (o d : N) : list aentry :=
  match req with
  | ReqDb o' d' (OExecMut qs) | ReqAdminDb o' d' (OExecMut qs) =>
    if (o' =? o) && (d' =? d) && resp_ok (fst (step s now tok req)) then
      match find_db (s_dbs s) o d with
      | Some r => audit_of_batch (submitter s now tok req) (d_content r) qs
      | None => []
      end
    else []
  | _ => []
  end.

Definition audit_view (s : state) (o d : N) : option (list aentry) := proj d_audit (s_dbs s) o d.

Lemma proj_update_same : forall {A} (g : dbrec -> A) l o d f r,
  find_db l o d = Some r -> d_owner (f r) = d_owner r -> d_name (f r) = d_name r ->
  proj g (update_db l o d f) o d = Some (g (f r)).
Proof.
  intros A g l o d f r. unfold proj, find_db, update_db. induction l as [|a l IH]; cbn; intros F E1 E2; [discriminate|].
  destruct (db_is o d a) eqn:E.
  - inversion F; subst a. assert (E' : db_is o d (f r) = true) by (unfold db_is in *; rewrite E1, E2; exact E).
    rewrite E'. reflexivity.
  - rewrite E. apply IH; assumption.
Qed.

Lemma exec_batch_effect : forall s who o' d' qs (mutq : bool) no o d,
  let op := if mutq then OExecMut qs else OExec qs in
  audit_view (snd (apply_db s who o' d' op no)) o d =
  match audit_view s o d with
  | None => None
  | Some au =>
    Some (au ++ if mutq && ((o' =? o) && (d' =? d)) && resp_ok (fst (apply_db s who o' d' op no))
                then match find_db (s_dbs s) o d with Some r => audit_of_batch who (d_content r) qs | None => [] end
                else [])
  end.
Proof.
  intros s who o' d' qs mutq no o d op. unfold audit_view.
  destruct ((o' =? o) && (d' =? d)) eqn:K.
  - apply Bool.andb_true_iff in K. destruct K as [K1 K2]. apply N.eqb_eq in K1, K2. subst o' d'.
    unfold apply_db, op. destruct (find_db (s_dbs s) o d) as [r|] eqn:F.
    2:{ destruct mutq; cbn [snd]; unfold proj; rewrite F; reflexivity. }
    assert (P0 : proj d_audit (s_dbs s) o d = Some (d_audit r)) by (unfold proj; rewrite F; reflexivity).
    destruct mutq; cbn [andb].
    + destruct (batch_is_write qs) eqn:W.
      * destruct (exec_batch_mut who (d_content r) [] [] qs) as [[[c rs] au]|] eqn:B; cbn [snd fst resp_ok with_dbs s_dbs].
        -- rewrite P0. rewrite (proj_update_same d_audit (s_dbs s) o d (set_content_audit c (d_audit r ++ au)) r F eq_refl eq_refl). cbn [set_content_audit d_audit].
           apply exec_batch_mut_audit in B. cbn in B. rewrite B. unfold audit_of_batch. reflexivity.
        -- rewrite P0, app_nil_r. reflexivity.
      * destruct (exec_batch_read (d_content r) [] qs); cbn [snd fst resp_ok]; rewrite P0.
        -- rewrite (audit_of_read_batch who _ _ W), app_nil_r. reflexivity.
        -- rewrite app_nil_r. reflexivity.
    + destruct (exec_batch_read (d_content r) [] qs); cbn [snd]; rewrite P0, app_nil_r; reflexivity.
  - rewrite Bool.andb_false_r. cbn [andb].
    assert (E : proj d_audit (s_dbs (snd (apply_db s who o' d' op no))) o d = proj d_audit (s_dbs s) o d).
    { unfold apply_db, op. destruct (find_db (s_dbs s) o' d') as [r'|]; destruct mutq; cbn [snd]; dm; cbn [snd with_dbs s_dbs];
        try reflexivity. apply proj_update_other; [exact K|]. intros r0 H0. unfold db_is. cbn. exact (db_is_diff _ _ _ _ _ K H0). }
    rewrite E. destruct (proj d_audit (s_dbs s) o d); [rewrite app_nil_r|]; reflexivity.
Qed.

Lemma batch_step_audit : forall s now tok req o d,
  is_batch req = true ->
  audit_view (snd (step s now tok req)) o d =
  match audit_view s o d with
  | None => None
  | Some au => Some (au ++ contribution s now tok req o d)
  end.
Proof.
  intros s now tok req o d B.
  assert (Z : forall (x : option (list aentry)), x = match x with None => None | Some au => Some (au ++ []) end).
  { intros [au|]; [rewrite app_nil_r|]; reflexivity. }
  unfold step at 1. destruct (authorize s now tok req) eqn:A.
  2:{ cbn [snd].
      destruct req as [| | | | |o' d' op| |o' d' op| | | | | | |]; try discriminate B; destruct op; try discriminate B;
        cbn [contribution]; try apply Z; unfold step; rewrite A; cbn [fst resp_ok]; rewrite Bool.andb_false_r; apply Z. }
  destruct req as [| | | | |o' d' op| |o' d' op| | | | | | |]; try discriminate B; destruct op; try discriminate B;
    cbn [apply contribution submitter].
  - (* user exec *)
    rewrite (exec_batch_effect s _ o' d' qs false _ o d). cbn [andb]. first [reflexivity | apply Z].
  - (* user exec_mut *)
    rewrite (exec_batch_effect s _ o' d' qs true _ o d). cbn [andb]. unfold step. rewrite A. cbn [apply].
    destruct (audit_view s o d); [|reflexivity]. reflexivity.
  - rewrite (exec_batch_effect s _ o' d' qs false _ o d). cbn [andb]. first [reflexivity | apply Z].
  - rewrite (exec_batch_effect s _ o' d' qs true _ o d). cbn [andb]. unfold step. rewrite A. cbn [apply].
    destruct (audit_view s o d); [|reflexivity]. reflexivity.
Qed.

Fixpoint contributions (s : state) (tr : list event) (o d : N) : list aentry :=
  match tr with
  | [] => []
  | (now, tok, req) :: t => contribution s now tok req o d ++ contributions (snd (step s now tok req)) t o d
  end.

(* for every sequence of batches (any users, tokens, databases, endpoints): the audit log of (o, d)
   is its initial log followed, in order, by the audit of exactly the successful exec_mut batches on (o, d) *)
Theorem audit_exact : forall tr s o d au,
  forallb (fun e => is_batch (snd e)) tr = true ->
  audit_view s o d = Some au ->
  audit_view (run s tr) o d = Some (au ++ contributions s tr o d).
Proof.
  induction tr as [|[[now tok] req] tr IH]; intros s o d au B H; cbn [run contributions].
  - rewrite app_nil_r. exact H.
  - cbn [forallb snd] in B. apply Bool.andb_true_iff in B. destruct B as [B1 B2].
    pose proof (batch_step_audit s now tok req o d B1) as S. rewrite H in S.
    rewrite (IH _ _ _ _ B2 S). rewrite app_assoc. reflexivity.
Qed.

(* all-or-nothing, for both endpoints and both callers *)
Theorem batch_all_or_nothing : forall s now tok req,
  is_batch req = true -> resp_ok (fst (step s now tok req)) = false -> snd (step s now tok req) = s.
Proof. intros. apply step_err_unchanged. assumption. Qed.

(* the read-only endpoint never changes anything, whatever it answers *)
Theorem exec_endpoint_pure : forall s now tok o d qs,
  snd (step s now tok (ReqDb o d (OExec qs))) = s /\ snd (step s now tok (ReqAdminDb o d (OExec qs))) = s.
Proof.
  intros. split; unfold step; destruct (authorize s now tok _); try reflexivity; cbn [apply]; unfold apply_db;
    destruct (find_db (s_dbs s) o d); cbn [snd]; try reflexivity; destruct (exec_batch_read _ _ _); reflexivity.
Qed.
