(* KvDbProofs.v — C09, part 2: the key-value store operations and their DbImpl users
   (insert_key_value, insert_or_replace_key_value, remove_keys, remove_all_values, insert_kvs_new, insert_kvs_replace). *)
From Agdb Require Import Bytes DbValue Graph DbModel Search Queries DbValueEqProofs DbFrameProofs KvProofs.
From Coq Require Import ZifyBool ZifyNat ZifyN.
Open Scope Z_scope.

(* every element's list has pairwise different keys (w.r.t. dbv_eqb) *)
Definition kvs_distinct (s : kvstore) : Prop := forall i, keys_distinct (kvs_get s i).

Lemma kvs_distinct_nil : kvs_distinct [].
Proof. intros i. unfold kvs_get. destruct (zabs_nat i); exact I. Qed.

Lemma abs_eqb_refl i : (Z.abs i =? Z.abs i) = true.
Proof. apply Z.eqb_refl. Qed.

(* ---------- store level ---------- *)
Lemma kvs_get_insert_value s i x j :
  kvs_get (kvs_insert_value s i x) j = if Z.abs i =? Z.abs j then kvs_get s i ++ [x] else kvs_get s j.
Proof. apply kvs_get_set. Qed.

Lemma kvs_get_remove_value s i k j :
  kvs_get (kvs_remove_value s i k) j =
  if Z.abs i =? Z.abs j then remove_first_key (kvs_get s i) k else kvs_get s j.
Proof. apply kvs_get_set. Qed.

(* insert_or_replace: an existing key keeps its position (and the list its length), only that pair
   changes; a new key is appended; other elements are untouched *)
Lemma kvs_insert_or_replace_spec s i x :
  let '(o, s') := kvs_insert_or_replace s i x in
  (forall j, Z.abs i <> Z.abs j -> kvs_get s' j = kvs_get s j) /\
  match o with
  | Some old => exists l1 l2, kvs_get s i = l1 ++ old :: l2 /\ kvs_get s' i = l1 ++ x :: l2 /\
                              has_key l1 (fst x) = false /\ dbv_eqb (fst old) (fst x) = true
  | None => has_key (kvs_get s i) (fst x) = false /\ kvs_get s' i = kvs_get s i ++ [x]
  end.
Proof.
  unfold kvs_insert_or_replace.
  destruct (replace_first (kvs_get s i) x) as [[old l']|] eqn:E.
  - split.
    + intros j Hj. rewrite kvs_get_set. now rewrite (proj2 (Z.eqb_neq _ _) Hj).
    + destruct (replace_first_some _ _ _ _ E) as (l1 & l2 & H1 & H2 & H3 & H4).
      exists l1, l2. rewrite kvs_get_set, abs_eqb_refl. tauto.
  - split.
    + intros j Hj. rewrite kvs_get_insert_value. now rewrite (proj2 (Z.eqb_neq _ _) Hj).
    + split; [now apply replace_first_none|].
      now rewrite kvs_get_insert_value, abs_eqb_refl.
Qed.

Lemma kvs_insert_or_replace_find s i x k :
  kv_find (kvs_get (snd (kvs_insert_or_replace s i x)) i) k =
  if dbv_eqb (fst x) k then Some x else kv_find (kvs_get s i) k.
Proof.
  pose proof (kvs_insert_or_replace_spec s i x) as H.
  destruct (kvs_insert_or_replace s i x) as [[old|] s']; cbn [snd]; destruct H as [_ H].
  - destruct H as (l1 & l2 & H1 & H2 & H3 & H4). rewrite H1, H2. now apply kv_find_replace_shape.
  - destruct H as [H1 H2]. rewrite H2. now apply kv_find_snoc_new.
Qed.

Lemma kvs_insert_or_replace_value s i x k :
  kvs_value (snd (kvs_insert_or_replace s i x)) i k =
  if dbv_eqb (fst x) k then Some (snd x) else kvs_value s i k.
Proof.
  rewrite !kvs_value_lookup. unfold kv_lookup. rewrite kvs_insert_or_replace_find.
  now destruct (dbv_eqb (fst x) k).
Qed.

Lemma kvs_insert_or_replace_other s i x j :
  Z.abs i <> Z.abs j -> kvs_get (snd (kvs_insert_or_replace s i x)) j = kvs_get s j.
Proof.
  pose proof (kvs_insert_or_replace_spec s i x) as H.
  destruct (kvs_insert_or_replace s i x) as [o s']; cbn [snd]. apply H.
Qed.

Lemma kvs_insert_or_replace_distinct s i x :
  kvs_distinct s -> kvs_distinct (snd (kvs_insert_or_replace s i x)).
Proof.
  intros Hd j. pose proof (kvs_insert_or_replace_spec s i x) as H.
  destruct (kvs_insert_or_replace s i x) as [o s']; cbn [snd]. destruct H as [Ho H].
  destruct (Z.eq_dec (Z.abs i) (Z.abs j)) as [E|E]; [|rewrite (Ho j E); apply Hd].
  assert (Hij : forall t, kvs_get t j = kvs_get t i).
  { intros t. unfold kvs_get. f_equal. symmetry. now apply zabs_nat_eq. }
  rewrite Hij. destruct o as [old|].
  - destruct H as (l1 & l2 & H1 & H2 & H3 & H4). rewrite H2.
    apply (replace_shape_distinct l1 l2 old x H4). pose proof (Hd i) as Hdi. rewrite H1 in Hdi. exact Hdi.
  - destruct H as [H1 H2]. rewrite H2. apply keys_distinct_snoc; [apply Hd|exact H1].
Qed.

Lemma kvs_remove_value_distinct s i k : kvs_distinct s -> kvs_distinct (kvs_remove_value s i k).
Proof.
  intros Hd j. rewrite kvs_get_remove_value. destruct (Z.abs i =? Z.abs j); [|apply Hd].
  apply remove_first_key_distinct, Hd.
Qed.

Lemma kvs_remove_distinct s i : kvs_distinct s -> kvs_distinct (kvs_remove s i).
Proof. intros Hd j. rewrite kvs_get_remove. destruct (Z.abs i =? Z.abs j); [exact I|apply Hd]. Qed.

Lemma kvs_reserve_distinct s i : kvs_distinct s -> kvs_distinct (kvs_reserve s i).
Proof. intros Hd j. rewrite kvs_get_reserve. apply Hd. Qed.

(* ---------- DbImpl level ---------- *)
Section KvDb.
  Variable rv : revision.

  Lemma insert_key_value_vals d id x : vals (insert_key_value d id x) = kvs_insert_value (vals d) id x.
  Proof. reflexivity. Qed.

  Lemma insert_or_replace_key_value_vals d id x :
    vals (insert_or_replace_key_value d id x) = snd (kvs_insert_or_replace (vals d) id x).
  Proof.
    unfold insert_or_replace_key_value. destruct (kvs_insert_or_replace (vals d) id x) as [[old|] s]; reflexivity.
  Qed.

  Lemma reserve_kv_vals d id : vals (reserve_kv d id) = kvs_reserve (vals d) id.
  Proof. reflexivity. Qed.

  Lemma remove_all_values_vals d id : vals (remove_all_values d id) = kvs_remove (vals d) id.
  Proof.
    unfold remove_all_values. cbn [vals with_vals]. f_equal.
    apply (fold_left_inv (fun a : db => vals a = vals d)); [reflexivity|].
    intros acc x _ H. exact H.
  Qed.

  (* removing an element's values leaves it with no property at all *)
  Lemma remove_all_values_get d id j :
    kvs_get (vals (remove_all_values d id)) j = if Z.abs id =? Z.abs j then [] else kvs_get (vals d) j.
  Proof. rewrite remove_all_values_vals. apply kvs_get_remove. Qed.

  (* a successfully removed element (node or edge, by id or by alias) keeps no property; a later
     element reusing the slot therefore starts empty *)
  Lemma remove_id_clears d id d' : remove_id d id = (d', ROk true) -> kvs_get (vals d') id = [].
  Proof.
    unfold remove_id. destruct (graph_index (gr d) id); [|discriminate].
    destruct (if 0 <? id then remove_node_db d id (imap_key (aliases d) id) else remove_edge_db d id) as [d1 [k|]];
      [discriminate|].
    intros H. inversion H; subst. now rewrite remove_all_values_get, abs_eqb_refl.
  Qed.

  Lemma remove_q_clears d q d' id :
    remove_q d q = (d', ROk true) -> db_id d q = ROk id -> kvs_get (vals d') id = [].
  Proof.
    destruct q as [i|a]; cbn [remove_q db_id].
    - destruct (graph_index (gr d) i) eqn:E; [|discriminate]. intros H1 H2. inversion H2; subst.
      now apply (remove_id_clears d id).
    - destruct (imap_value (aliases d) a) as [i|]; [|discriminate].
      destruct (remove_node_db d i (Some a)) as [d1 [k|]]; [discriminate|].
      intros H1 H2. inversion H1; inversion H2; subst. now rewrite remove_all_values_get, abs_eqb_refl.
  Qed.

  (* ---- remove_keys ---- *)
  Definition rk_step (id : Z) (keys : list dbvalue) (acc : Z * db) (x : kv) : Z * db :=
    let '(n, a) := acc in
    if mem dbv_eqb (fst x) keys then
      let a1 := index_remove_if a (fst x) (snd x) id in
      let a2 := with_vals a1 (kvs_remove_value (vals a1) id (fst x)) in
      (n + 1, push_undo a2 (CInsertKeyValue id x))
    else (n, a).

  Lemma remove_keys_unfold d id keys :
    remove_keys d id keys = fold_left (rk_step id keys) (kvs_get (vals d) id) (0, d).
  Proof. reflexivity. Qed.

  Definition listed (keys : list dbvalue) (p : kv) : bool := mem dbv_eqb (fst p) keys.

  Lemma rk_fold id keys todo : forall pre n a,
    keys_distinct (pre ++ todo) -> kvs_get (vals a) id = pre ++ todo ->
    let r := fold_left (rk_step id keys) todo (n, a) in
    kvs_get (vals (snd r)) id = pre ++ filter (fun p => negb (listed keys p)) todo /\
    fst r = n + Z.of_nat (length (filter (listed keys) todo)) /\
    (forall j, Z.abs id <> Z.abs j -> kvs_get (vals (snd r)) j = kvs_get (vals a) j).
  Proof.
    induction todo as [|x todo IH]; intros pre n a Hd Hget; cbv zeta; cbn [fold_left filter].
    - cbn [fst snd length]. repeat split; [exact Hget|lia].
    - change (listed keys x) with (mem dbv_eqb (fst x) keys). cbn [rk_step]. destruct (mem dbv_eqb (fst x) keys) eqn:Em; cbn [negb].
      + set (a' := push_undo _ _).
        assert (Hget' : kvs_get (vals a') id = pre ++ todo).
        { subst a'. cbn [vals push_undo with_vals index_remove_if with_indexes].
          rewrite kvs_get_remove_value, abs_eqb_refl, Hget.
          apply keys_distinct_app in Hd. destruct Hd as (_ & _ & Hpre).
          rewrite remove_first_key_app.
          - cbn [remove_first_key]. now rewrite dbv_eqb_refl.
          - destruct (has_key pre (fst x)) eqn:Eh; [|reflexivity].
            unfold has_key in Eh. apply existsb_exists in Eh. destruct Eh as [p [Hin Hp]].
            specialize (Hpre p Hin). cbn [has_key existsb] in Hpre.
            apply orb_false_iff in Hpre. destruct Hpre as [Hpre _].
            rewrite dbv_eqb_sym in Hpre. congruence. }
        assert (Hd' : keys_distinct (pre ++ todo)).
        { apply keys_distinct_app in Hd. apply keys_distinct_app. cbn [keys_distinct] in Hd.
          destruct Hd as (H1 & [H2 H3] & H4). repeat split; try assumption.
          intros p Hin. specialize (H4 p Hin). cbn [has_key existsb] in H4.
          apply orb_false_iff in H4. tauto. }
        pose proof (IH pre (n + 1) a' Hd' Hget') as R. cbv zeta in R. destruct R as (R1 & R2 & R3).
        repeat split; [exact R1|rewrite R2; cbn [length]; lia|].
        intros j Hj. rewrite (R3 j Hj). subst a'.
        cbn [vals push_undo with_vals index_remove_if with_indexes].
        rewrite kvs_get_remove_value. now rewrite (proj2 (Z.eqb_neq _ _) Hj).
      + assert (Hd' : keys_distinct ((pre ++ [x]) ++ todo)) by now rewrite <- app_assoc.
        assert (Hget' : kvs_get (vals a) id = (pre ++ [x]) ++ todo) by now rewrite <- app_assoc.
        pose proof (IH (pre ++ [x]) n a Hd' Hget') as R. cbv zeta in R. destruct R as (R1 & R2 & R3).
        repeat split; [rewrite R1; now rewrite <- app_assoc|exact R2|exact R3].
  Qed.

  (* remove_keys deletes exactly the listed keys, keeps the order of the rest, reports their number,
     and leaves every other element alone *)
  Lemma remove_keys_spec d id keys :
    keys_distinct (kvs_get (vals d) id) ->
    let r := remove_keys d id keys in
    kvs_get (vals (snd r)) id = filter (fun p => negb (listed keys p)) (kvs_get (vals d) id) /\
    fst r = Z.of_nat (length (filter (listed keys) (kvs_get (vals d) id))) /\
    (forall j, Z.abs id <> Z.abs j -> kvs_get (vals (snd r)) j = kvs_get (vals d) j).
  Proof.
    intros Hd. rewrite remove_keys_unfold.
    apply (rk_fold id keys (kvs_get (vals d) id) [] 0 d Hd eq_refl).
  Qed.

  Lemma remove_keys_distinct d id keys :
    kvs_distinct (vals d) -> kvs_distinct (vals (snd (remove_keys d id keys))).
  Proof.
    intros Hd j. pose proof (remove_keys_spec d id keys (Hd id)) as R. cbv zeta in R. destruct R as (R1 & _ & R3).
    destruct (Z.eq_dec (Z.abs id) (Z.abs j)) as [E|E]; [|rewrite (R3 j E); apply Hd].
    assert (Hij : forall t, kvs_get t j = kvs_get t id).
    { intros t. unfold kvs_get. f_equal. symmetry. now apply zabs_nat_eq. }
    rewrite Hij, R1. apply filter_keys_distinct, Hd.
  Qed.

  (* ---- the insertion loops of the query layer ---- *)
  Lemma insert_kvs_new_vals kvs : forall d id,
    vals (fold_left (fun a x => insert_key_value a id x) kvs d) =
    fold_left (fun s x => kvs_insert_value s id x) kvs (vals d).
  Proof. induction kvs as [|x kvs IH]; intros d id; cbn [fold_left]; [reflexivity|]. now rewrite IH. Qed.

  Lemma fold_insert_value_get kvs : forall s id j,
    kvs_get (fold_left (fun s x => kvs_insert_value s id x) kvs s) j =
    if Z.abs id =? Z.abs j then kvs_get s id ++ kvs else kvs_get s j.
  Proof.
    induction kvs as [|x kvs IH]; intros s id j; cbn [fold_left].
    - rewrite app_nil_r. destruct (Z.eqb_spec (Z.abs id) (Z.abs j)) as [E|E]; [|reflexivity].
      unfold kvs_get. f_equal. now apply zabs_nat_eq.
    - rewrite IH, !kvs_get_insert_value, abs_eqb_refl, <- app_assoc.
      now destruct (Z.abs id =? Z.abs j).
  Qed.

  (* values of a freshly created element: appended in the given order *)
  Lemma insert_kvs_new_get d id kvs j :
    kvs_get (vals (insert_kvs_new d id kvs)) j =
    if Z.abs id =? Z.abs j then kvs_get (vals d) id ++ kvs else kvs_get (vals d) j.
  Proof.
    unfold insert_kvs_new. rewrite insert_kvs_new_vals, fold_insert_value_get, reserve_kv_vals.
    now rewrite !kvs_get_reserve.
  Qed.

  Lemma keys_distinct_of_list (kvs : list kv) : keys_distinct kvs -> keys_distinct ([] ++ kvs).
  Proof. trivial. Qed.

  Lemma insert_kvs_new_distinct d id kvs :
    kvs_distinct (vals d) -> kvs_get (vals d) id = [] -> keys_distinct kvs ->
    kvs_distinct (vals (insert_kvs_new d id kvs)).
  Proof.
    intros Hd He Hk j. rewrite insert_kvs_new_get, He.
    destruct (Z.abs id =? Z.abs j); [exact Hk|apply Hd].
  Qed.

  Lemma insert_kvs_replace_vals kvs : forall d id,
    vals (fold_left (fun a x => insert_or_replace_key_value a id x) kvs d) =
    fold_left (fun s x => snd (kvs_insert_or_replace s id x)) kvs (vals d).
  Proof.
    induction kvs as [|x kvs IH]; intros d id; cbn [fold_left]; [reflexivity|].
    now rewrite IH, insert_or_replace_key_value_vals.
  Qed.

  Lemma insert_kvs_replace_distinct d id kvs :
    kvs_distinct (vals d) -> kvs_distinct (vals (insert_kvs_replace d id kvs)).
  Proof.
    intros Hd. unfold insert_kvs_replace. rewrite insert_kvs_replace_vals, reserve_kv_vals.
    apply fold_left_inv; [now apply kvs_reserve_distinct|].
    intros s x _ Hs. now apply kvs_insert_or_replace_distinct.
  Qed.

  Lemma insert_kvs_replace_other d id kvs j :
    Z.abs id <> Z.abs j -> kvs_get (vals (insert_kvs_replace d id kvs)) j = kvs_get (vals d) j.
  Proof.
    intros Hj. unfold insert_kvs_replace. rewrite insert_kvs_replace_vals, reserve_kv_vals.
    apply (fold_left_inv (fun s => kvs_get s j = kvs_get (vals d) j)); [apply kvs_get_reserve|].
    intros s x _ Hs. now rewrite kvs_insert_or_replace_other.
  Qed.

  (* insert-or-update of a list of pairs: afterwards a key reads the LAST value given for it in the
     list, keys not in the list read as before *)
  Fixpoint last_value (kvs : list kv) (k : dbvalue) (dflt : option dbvalue) : option dbvalue :=
    match kvs with
    | [] => dflt
    | x :: r => last_value r k (if dbv_eqb (fst x) k then Some (snd x) else dflt)
    end.

  Lemma insert_kvs_replace_value d id kvs k :
    kvs_value (vals (insert_kvs_replace d id kvs)) id k = last_value kvs k (kvs_value (vals d) id k).
  Proof.
    unfold insert_kvs_replace. rewrite insert_kvs_replace_vals, reserve_kv_vals.
    assert (H0 : kvs_value (kvs_reserve (vals d) id) id k = kvs_value (vals d) id k).
    { rewrite !kvs_value_lookup. now rewrite kvs_get_reserve. }
    rewrite <- H0. generalize (kvs_reserve (vals d) id) as s. clear H0.
    induction kvs as [|x kvs IH]; intros s; cbn [fold_left last_value]; [reflexivity|].
    now rewrite IH, kvs_insert_or_replace_value.
  Qed.

  (* for a list with distinct keys: the value given in the list, else the old one *)
  Lemma last_value_distinct kvs k dflt :
    keys_distinct kvs ->
    last_value kvs k dflt = match kv_lookup kvs k with Some v => Some v | None => dflt end.
  Proof.
    revert dflt. induction kvs as [|x kvs IH]; intros dflt; cbn [keys_distinct last_value]; [reflexivity|].
    intros [Hx Hd]. rewrite (IH _ Hd). unfold kv_lookup. cbn [kv_find find]. fold (kv_find kvs k).
    destruct (dbv_eqb (fst x) k) eqn:E; [|reflexivity].
    assert (Hn : has_key kvs k = false) by (rewrite <- Hx; symmetry; now apply has_key_congr).
    rewrite has_key_find in Hn. now destruct (kv_find kvs k).
  Qed.
End KvDb.
