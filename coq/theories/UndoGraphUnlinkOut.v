(* UndoGraphUnlinkOut.v — C13: remove_from_edge unlinks an edge slot from its source's
   out-list (head case and find_prev case) and decrements the out-degree. *)
From Agdb Require Import Bytes BytesProofs DbValue Graph DbModel UndoBase UndoObs UndoKv UndoGraphBase UndoGraph UndoGraphAlloc UndoGraphEdge.
From Coq Require Import Permutation ZifyBool ZifyNat ZifyN.
Ltac Zify.zify_post_hook ::= Z.div_mod_to_equations.
Open Scope Z_scope.

Lemma chain_cons_inv nx s x l : chain nx s (x :: l) -> s = x /\ 0 < x /\ chain nx (nx x) l.
Proof. inversion 1. subst. auto. Qed.

(* what remove_from_edge does to the arrays, given the position of e in f's out-list *)
Lemma remove_from_edge_arrays g a Xo Xi e f t l1 l2 :
  rep_x g a Xo Xi -> 0 < e -> ak a e = KEdge f t -> aout a f = l1 ++ e :: l2 ->
  exists g', remove_from_edge g (- e) = Some g' /\ lens_ok g' /\ capacity g' = capacity g /\
    (forall j, to g' j = to g j) /\ (forall j, tmeta g' j = tmeta g j) /\
    chain (fmeta g') (from g' f) (l1 ++ l2) /\ fmeta g' f = fmeta g f - 1 /\ 0 <= from g' f /\
    (forall j, 0 <= j -> j <> f -> from g' j = from g j) /\
    (forall j, 0 <= j -> j <> f -> ~ In j l1 -> fmeta g' j = fmeta g j) /\
    (forall j, In j l1 -> 0 <= fmeta g' j).
Proof.
  intros R He Hk El.
  pose proof (r_lens _ _ _ _ R) as Hl. pose proof (r_cap _ _ _ _ R) as Hcap.
  destruct (rep_edge_arrays _ _ _ _ R e f t He Hk) as (Her & Hefm & Hefr & Heto & Hf & Ht).
  destruct (r_edge _ _ _ _ R e f t He Hk) as (_ & _ & Kf & Kt).
  destruct (rep_node_range _ _ _ _ R f Hf Kf) as (Hfr' & Hffm & Hffr).
  destruct (r_out _ _ _ _ R f Hf Kf) as (Hc & Hnd & Hdeg). rewrite El in Hc, Hnd, Hdeg.
  assert (Hfe : f <> e) by (intros ->; congruence).
  (* members of f's out-list are valid edge slots different from f *)
  assert (Hmem : forall x, In x (l1 ++ e :: l2) -> 0 < x < capacity g /\ x <> f /\ 0 <= fmeta g x).
  { intros x Hx. rewrite <- El in Hx. pose proof (rep_out_range _ _ _ _ R f x Hf Kf Hx).
    destruct (rep_out_edge _ _ _ _ R f x Hf Kf Hx) as (t' & Ht').
    destruct (rep_edge_arrays _ _ _ _ R x f t' (proj1 H) Ht') as (_ & Hxfm & _).
    repeat split; try lia. intros ->. congruence. }
  unfold remove_from_edge. rewrite !from_opp, fmeta_opp, Hefr, !from_opp, !Z.opp_involutive.
  destruct l1 as [|x0 l1r].
  - (* e is the head *)
    cbn [app] in *. pose proof (chain_head _ _ _ Hc) as Hh. cbn in Hh. rewrite Hh, Z.eqb_refl.
    eexists. split; [reflexivity|].
    set (g1 := set_from g f (fmeta g e)).
    assert (Hl1 : lens_ok g1) by (apply lens_set_from, Hl).
    destruct (chain_cons_inv _ _ _ _ Hc) as (_ & _ & Hc2).
    apply NoDup_cons_iff in Hnd. destruct Hnd as (Hne & Hnd2).
    assert (Hfm' : forall j, 0 <= j -> fmeta (set_fmeta g1 f (fmeta g1 f - 1)) j = if f =? j then fmeta g f - 1 else fmeta g j).
    { intros j Hj. rewrite fmeta_set_fmeta by (auto; unfold g1; rewrite ?cap_set_from; lia). reflexivity. }
    assert (Hfr2 : forall j, 0 <= j -> from (set_fmeta g1 f (fmeta g1 f - 1)) j = if f =? j then fmeta g e else from g j).
    { intros j Hj. rewrite from_set_fmeta. unfold g1. apply from_set_from; auto; lia. }
    split; [apply lens_set_fmeta, Hl1|]. split; [unfold g1; rewrite cap_set_fmeta, cap_set_from; reflexivity|].
    split; [reflexivity|]. split; [reflexivity|].
    split.
    { rewrite Hfr2 by lia. rewrite Z.eqb_refl. eapply chain_ext; [exact Hc2|]. intros x Hx.
      destruct (Hmem x (or_intror Hx)) as (Hxr & Hxf & _). rewrite Hfm' by lia.
      destruct (Z.eqb_spec f x); [congruence | reflexivity]. }
    split; [rewrite Hfm' by lia; rewrite Z.eqb_refl; reflexivity|].
    split; [rewrite Hfr2 by lia; rewrite Z.eqb_refl; assumption|].
    split; [intros j Hj Hne'; rewrite Hfr2 by lia; destruct (Z.eqb_spec f j); [congruence | reflexivity]|].
    split; [intros j Hj Hne' _; rewrite Hfm' by lia; destruct (Z.eqb_spec f j); [congruence | reflexivity]|].
    intros j [].
  - (* e has a predecessor p *)
    destruct (exists_last (l := x0 :: l1r)) as (l1' & p & El1); [discriminate|]. rewrite El1 in *.
    rewrite <- app_assoc in Hc, Hnd, Hdeg, Hmem. cbn [app] in Hc, Hnd, Hdeg, Hmem.
    assert (Hhead : from g f <> e).
    { pose proof (chain_head _ _ _ Hc) as Hh. intros E. rewrite E in Hh.
      assert (Hin : In e (l1' ++ [p])).
      { destruct l1' as [|y r]; cbn [app] in Hh |- *; left; congruence. }
      assert (Hnd' : NoDup ((l1' ++ [p]) ++ e :: l2)) by (rewrite <- app_assoc; exact Hnd).
      apply NoDup_remove_2 in Hnd'. apply Hnd'. apply in_or_app. left. exact Hin. }
    destruct (Z.eqb_spec (- from g f) (- e)) as [E|_]; [lia|].
    assert (Hlen : (length l1' < length (g_from g))%nat).
    { pose proof (rep_out_length _ _ _ _ R f Hf Kf) as Hle. rewrite El, <- app_assoc in Hle.
      rewrite app_length in Hle. cbn [length app] in Hle. lia. }
    destruct (find_prev_spec (fun q => fmeta g q) (from g f) l1' p e l2 (length (g_from g)) (- from g f) Hc Hnd
                (fun x => fmeta_opp g x) Hlen (or_intror eq_refl)) as (q & Hq & Hqp).
    rewrite Hq.
    assert (Eq : set_fmeta g q (fmeta g e) = set_fmeta g p (fmeta g e)).
    { destruct Hqp as [->| ->]; [reflexivity | apply set_fmeta_opp]. }
    rewrite Eq. eexists. split; [reflexivity|].
    assert (Hpin : In p (l1' ++ p :: e :: l2)) by (apply in_or_app; right; left; reflexivity).
    destruct (Hmem p Hpin) as (Hpr & Hpf & Hpfm).
    set (g1 := set_fmeta g p (fmeta g e)).
    assert (Hl1 : lens_ok g1) by (apply lens_set_fmeta, Hl).
    assert (Hfm' : forall j, 0 <= j -> fmeta (set_fmeta g1 f (fmeta g1 f - 1)) j =
                     if f =? j then fmeta g f - 1 else if p =? j then fmeta g e else fmeta g j).
    { intros j Hj. rewrite fmeta_set_fmeta by (auto; unfold g1; rewrite ?cap_set_fmeta; lia).
      unfold g1. rewrite !fmeta_set_fmeta by (auto; lia). destruct (Z.eqb_spec p f); [congruence | reflexivity]. }
    split; [apply lens_set_fmeta, Hl1|]. split; [reflexivity|].
    split; [reflexivity|]. split; [reflexivity|].
    split.
    { rewrite from_set_fmeta. unfold g1. rewrite from_set_fmeta. rewrite <- app_assoc. cbn [app].
      eapply chain_unlink; [exact Hc | exact Hnd | |].
      - rewrite Hfm' by lia. destruct (Z.eqb_spec f p); [congruence|]. rewrite Z.eqb_refl. reflexivity.
      - intros x Hx.
        assert (Hx' : In x (l1' ++ p :: e :: l2)).
        { apply in_or_app. destruct Hx as [Hx|Hx]; [left; assumption | right; right; right; assumption]. }
        destruct (Hmem x Hx') as (Hxr & Hxf & _). rewrite Hfm' by lia.
        destruct (Z.eqb_spec f x); [congruence|].
        destruct (Z.eqb_spec p x) as [<-|]; [|reflexivity].
        exfalso. apply NoDup_remove_2 in Hnd. apply Hnd. apply in_or_app.
        destruct Hx as [Hx|Hx]; [left; assumption | right; right; assumption]. }
    split; [rewrite Hfm' by lia; rewrite Z.eqb_refl; reflexivity|].
    split; [assumption|].
    split; [reflexivity|].
    split.
    { intros j Hj Hne' Hnin. rewrite Hfm' by lia. destruct (Z.eqb_spec f j); [congruence|].
      destruct (Z.eqb_spec p j) as [<-|]; [|reflexivity]. exfalso. apply Hnin, in_or_app. right. left. reflexivity. }
    intros j Hj.
    assert (Hj' : In j (l1' ++ p :: e :: l2)).
    { apply in_app_or in Hj. apply in_or_app. destruct Hj as [Hj|[<-|[]]]; [left; assumption | right; left; reflexivity]. }
    destruct (Hmem j Hj') as (Hjr & Hjf & Hjfm). rewrite Hfm' by lia.
    destruct (Z.eqb_spec f j); [congruence|]. destruct (Z.eqb_spec p j); lia.
Qed.
