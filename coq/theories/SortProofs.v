(* SortProofs.v — C16: SearchQuery::sort.  The comparator order_cmp is the lexicographic
   combination of the listed keys in their directions with absent keys last, it is a
   total preorder; stable_sort returns a sorted, stable permutation of its input. *)
From Agdb Require Import Bytes DbValue DbValueProofs Graph DbModel Search.
From Coq Require Import Permutation Sorted.
Open Scope Z_scope.

(* ====================================================================== *)
(* the comparator                                                         *)
(* ====================================================================== *)

(* one key: elements having the key first (in both directions), then by the derived order
   of DbValue, reversed for Desc *)
Definition dir_cmp (o : key_order) : dbvalue -> dbvalue -> comparison :=
  match o with Asc _ => dbv_cmp | Desc _ => fun a b => CompOpp (dbv_cmp a b) end.

Definition key_cmp (d : db) (o : key_order) (l r : Z) : comparison :=
  opt_cmp (dir_cmp o) (kvs_value (vals d) l (order_key o)) (kvs_value (vals d) r (order_key o)).

Lemma order_cmp_nil d l r : order_cmp d [] l r = Eq.
Proof. reflexivity. Qed.

(* the first key decides unless it compares Eq *)
Lemma order_cmp_cons d o rest l r :
  order_cmp d (o :: rest) l r = cmp_then (key_cmp d o l r) (order_cmp d rest l r).
Proof.
  cbn [order_cmp]. unfold key_cmp, opt_cmp, dir_cmp.
  destruct (kvs_value (vals d) l (order_key o)) as [x|], (kvs_value (vals d) r (order_key o)) as [y|];
    try reflexivity; destruct o; cbn [cmp_then]; destruct (dbv_cmp x y); reflexivity.
Qed.

Lemma cmp_ok_ext {A} (c1 c2 : A -> A -> comparison) :
  (forall x y, c1 x y = c2 x y) -> cmp_ok c1 -> cmp_ok c2.
Proof.
  intros E OK. split.
  - intros x y. rewrite <- !E. apply (cmp_antisym c1 OK).
  - intros x y z c. rewrite <- !E. apply (cmp_eq_trans c1 OK).
  - intros x y z. rewrite <- !E. apply (cmp_lt_trans c1 OK).
Qed.

Lemma dir_cmp_ok o : cmp_ok (dir_cmp o).
Proof. destruct o; cbn [dir_cmp]; [exact dbv_cmp_ok|exact (cmp_ok_opp dbv_cmp dbv_cmp_ok)]. Qed.

Lemma key_cmp_ok d o : cmp_ok (key_cmp d o).
Proof.
  unfold key_cmp.
  exact (cmp_ok_key (fun i => kvs_value (vals d) i (order_key o)) (opt_cmp (dir_cmp o))
           (cmp_ok_opt (dir_cmp o) (dir_cmp_ok o))).
Qed.

Theorem order_cmp_ok d orders : cmp_ok (order_cmp d orders).
Proof.
  induction orders as [|o rest IH].
  - split; intros; cbn [order_cmp CompOpp] in *; congruence.
  - apply (cmp_ok_ext (fun l r => cmp_then (key_cmp d o l r) (order_cmp d rest l r))).
    + intros x y. symmetry. apply order_cmp_cons.
    + apply cmp_ok_then; [apply key_cmp_ok|exact IH].
Qed.

(* ====================================================================== *)
(* the sort                                                               *)
(* ====================================================================== *)

Section Sort.
  Variable cmp : Z -> Z -> comparison.

  Definition le (x y : Z) : Prop := cmp x y <> Gt.

  Lemma stable_sort_cons x l : stable_sort cmp (x :: l) = insert_sorted cmp x (stable_sort cmp l).
  Proof. reflexivity. Qed.

  Lemma insert_sorted_perm x l : Permutation (x :: l) (insert_sorted cmp x l).
  Proof.
    induction l as [|y r IH]; cbn [insert_sorted]; [reflexivity|].
    destruct (cmp x y); try reflexivity.
    eapply perm_trans; [apply perm_swap|]. apply perm_skip. exact IH.
  Qed.

  Theorem stable_sort_perm l : Permutation l (stable_sort cmp l).
  Proof.
    induction l as [|x l IH]; [reflexivity|]. rewrite stable_sort_cons.
    eapply perm_trans; [apply perm_skip; exact IH|]. apply insert_sorted_perm.
  Qed.

  Hypothesis OK : cmp_ok cmp.

  Lemma insert_sorted_sorted x l :
    StronglySorted le l -> StronglySorted le (insert_sorted cmp x l).
  Proof.
    induction 1 as [|y r SS IH HF]; cbn [insert_sorted].
    - constructor; constructor.
    - destruct (cmp x y) eqn:E.
      + constructor; [constructor; assumption|].
        constructor; [unfold le; congruence|].
        eapply Forall_impl; [|exact HF]. intros z Hz. unfold le in *.
        apply (cmp_le_trans cmp OK x y z); congruence.
      + constructor; [constructor; assumption|].
        constructor; [unfold le; congruence|].
        eapply Forall_impl; [|exact HF]. intros z Hz. unfold le in *.
        apply (cmp_le_trans cmp OK x y z); congruence.
      + constructor; [exact IH|].
        eapply Permutation_Forall; [apply insert_sorted_perm|].
        constructor; [|exact HF].
        unfold le. apply (cmp_gt_lt cmp OK) in E. congruence.
  Qed.

  Theorem stable_sort_sorted l : StronglySorted le (stable_sort cmp l).
  Proof.
    induction l as [|x l IH]; [constructor|]. rewrite stable_sort_cons. apply insert_sorted_sorted, IH.
  Qed.

  Lemma sorted_pairs l :
    StronglySorted le l -> forall l1 x l2 y l3, l = l1 ++ x :: l2 ++ y :: l3 -> le x y.
  Proof.
    intros SS l1. revert l SS. induction l1 as [|a l1 IH]; intros l SS x l2 y l3 ->; cbn [app] in SS.
    - apply StronglySorted_inv in SS as [_ HF]. rewrite Forall_forall in HF. apply HF.
      apply in_or_app. right. left. reflexivity.
    - apply StronglySorted_inv in SS as [SS _]. exact (IH _ SS x l2 y l3 eq_refl).
  Qed.

  Theorem stable_sort_ordered l l1 x l2 y l3 :
    stable_sort cmp l = l1 ++ x :: l2 ++ y :: l3 -> cmp x y <> Gt.
  Proof. intros E. exact (sorted_pairs _ (stable_sort_sorted l) l1 x l2 y l3 E). Qed.

  Corollary stable_sort_adjacent l l1 x y l3 :
    stable_sort cmp l = l1 ++ x :: y :: l3 -> cmp x y <> Gt.
  Proof. intros E. exact (stable_sort_ordered l l1 x [] y l3 E). Qed.

  (* stability: the elements that compare Eq to any given x keep their relative order *)
  Lemma insert_sorted_filter x a l :
    filter (fun y => is_eq (cmp x y)) (insert_sorted cmp a l) =
    if is_eq (cmp x a) then a :: filter (fun y => is_eq (cmp x y)) l else filter (fun y => is_eq (cmp x y)) l.
  Proof.
    induction l as [|y r IH]; cbn [insert_sorted].
    - cbn [filter]. destruct (is_eq (cmp x a)); reflexivity.
    - destruct (cmp a y) eqn:E; try (cbn [filter]; destruct (is_eq (cmp x a)); reflexivity).
      cbn [filter]. rewrite IH.
      destruct (is_eq (cmp x a)) eqn:Ea; [|reflexivity].
      assert (Exa : cmp x a = Eq) by (destruct (cmp x a); cbn in Ea; congruence).
      rewrite (cmp_eq_trans cmp OK x a y Gt Exa E). reflexivity.
  Qed.

  Theorem stable_sort_stable x l :
    filter (fun y => is_eq (cmp x y)) (stable_sort cmp l) = filter (fun y => is_eq (cmp x y)) l.
  Proof.
    induction l as [|a l IH]; [reflexivity|]. rewrite stable_sort_cons, insert_sorted_filter, IH.
    cbn [filter]. reflexivity.
  Qed.
End Sort.

(* ====================================================================== *)
(* SearchQuery::sort                                                       *)
(* ====================================================================== *)

Theorem sort_spec d orders l :
  let cmp := order_cmp d orders in
  let r := stable_sort cmp l in
  Permutation l r /\
  StronglySorted (fun x y => cmp x y <> Gt) r /\
  (forall l1 x y l3, r = l1 ++ x :: y :: l3 -> cmp x y <> Gt) /\
  (forall l1 x l2 y l3, r = l1 ++ x :: l2 ++ y :: l3 -> cmp x y <> Gt) /\
  (forall x, filter (fun y => is_eq (cmp x y)) r = filter (fun y => is_eq (cmp x y)) l).
Proof.
  cbv zeta. pose proof (order_cmp_ok d orders) as OK.
  split; [apply stable_sort_perm|]. split; [exact (stable_sort_sorted _ OK l)|].
  split; [intros l1 x y l3; apply (stable_sort_adjacent _ OK)|].
  split; [intros l1 x l2 y l3; apply (stable_sort_ordered _ OK)|].
  intros x. apply (stable_sort_stable _ OK).
Qed.

(* elements lacking the first key come after those having it — in both directions *)
Theorem absent_last d o rest l l1 x l2 y l3 :
  stable_sort (order_cmp d (o :: rest)) l = l1 ++ x :: l2 ++ y :: l3 ->
  kvs_value (vals d) x (order_key o) = None ->
  kvs_value (vals d) y (order_key o) = None.
Proof.
  intros E Hx. pose proof (stable_sort_ordered _ (order_cmp_ok d (o :: rest)) l l1 x l2 y l3 E) as H.
  rewrite order_cmp_cons in H. unfold key_cmp in H. rewrite Hx in H.
  destruct (kvs_value (vals d) y (order_key o)); [exfalso; apply H; reflexivity|reflexivity].
Qed.

(* the comparator is a total preorder *)
Theorem order_cmp_total_preorder d orders :
  (forall x, order_cmp d orders x x = Eq) /\
  (forall x y, order_cmp d orders x y = CompOpp (order_cmp d orders y x)) /\
  (forall x y, order_cmp d orders x y <> Gt \/ order_cmp d orders y x <> Gt) /\
  (forall x y z, order_cmp d orders x y <> Gt -> order_cmp d orders y z <> Gt -> order_cmp d orders x z <> Gt).
Proof.
  pose proof (order_cmp_ok d orders) as OK.
  split; [apply (cmp_refl _ OK)|]. split; [apply (cmp_antisym _ OK)|].
  split; [apply (cmp_le_total _ OK)|apply (cmp_le_trans _ OK)].
Qed.

(* the comparator is "by the listed keys in the given directions, absent keys last" *)
Theorem order_cmp_spec d :
  (forall l r, order_cmp d [] l r = Eq) /\
  (forall o rest l r,
     order_cmp d (o :: rest) l r = cmp_then (key_cmp d o l r) (order_cmp d rest l r)) /\
  (forall o l r,
     key_cmp d o l r =
     match kvs_value (vals d) l (order_key o), kvs_value (vals d) r (order_key o) with
     | None, None => Eq
     | None, Some _ => Gt
     | Some _, None => Lt
     | Some a, Some b => match o with Asc _ => dbv_cmp a b | Desc _ => dbv_cmp b a end
     end).
Proof.
  split; [reflexivity|]. split; [apply order_cmp_cons|].
  intros o l r. unfold key_cmp, opt_cmp.
  destruct (kvs_value (vals d) l (order_key o)) as [a|], (kvs_value (vals d) r (order_key o)) as [b|];
    try reflexivity.
  destruct o; cbn [dir_cmp]; [reflexivity|]. symmetry. apply dbv_cmp_antisym.
Qed.

(* a concrete run: sort by "k" descending then "n" ascending; 4 lacks "k" and goes last,
   2 and 5 are equal on both keys and keep their order *)
Definition sort_example_db : db :=
  let k := DString [x6b] in let n := DString [x6e] in
  {| gr := graph_new; aliases := imap_empty;
     vals := [[]; [(k, DI64 1); (n, DI64 7)]; [(k, DI64 2); (n, DI64 5)]; [(k, DI64 3)];
              [(n, DI64 0)]; [(k, DI64 2); (n, DI64 5)]; [(k, DI64 2); (n, DI64 4)]];
     indexes := []; undo := [] |}.

Lemma sort_example :
  stable_sort (order_cmp sort_example_db [Desc (DString [x6b]); Asc (DString [x6e])]) [1; 2; 3; 4; 5; 6]
  = [3; 6; 2; 5; 1; 4] /\
  stable_sort (order_cmp sort_example_db [Asc (DString [x6b]); Asc (DString [x6e])]) [5; 4; 3; 2; 1; 6]
  = [1; 6; 5; 2; 3; 4].
Proof. split; reflexivity. Qed.
