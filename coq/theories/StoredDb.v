(* StoredDb.v — the whole database as it lies in the record store (layer L3), executable part:
   the LOADER.  Definitions only (extracted; depends on no proof file).

   db.rs, DbImpl::try_new_with_storage, second branch (a file that already holds a database):

       index  = storage.value::<DbStorageIndex>(StorageIndex(1))          root record: version, graph, aliases.0,
                                                                           aliases.1, indexes, values   (6 x u64)
       graph   = DbGraph::from_storage(index.graph)                        index record + four DbVec<i64>
       aliases = DbIndexedMap::from_storage(index.aliases)                 DbMap<String, DbId>, DbMap<DbId, String>
                                                                           (each: DbMapData = index record + 3 vectors)
       indexes = DbIndexes::from_storage(index.indexes)                    DbVec<DbIndexStorageIndex> (24 bytes: the
                                                                           16-byte value index of the key ++ the storage
                                                                           index of a MultiMapStorage<DbValue, DbId>);
                                                                           every entry is loaded: load_db_value(key),
                                                                           MultiMapStorage::from_storage(ids)
       values  = DbKeyValues::from_storage(index.values)                   DbVec<StorageIndex>, one slot per element
                                                                           slot; 0 = no property vector, else the
                                                                           index of a DbVec<DbKeyValue>

   `sd_load root` composes the L2 loaders of Collections.v / CollValues.v in exactly this order.  DbImpl::new stops at
   the HANDLES (the code reads the contents lazily: graph.rs / multi_map.rs / db_key_value.rs go back to the storage
   on every access); the loader here reads every component to the end at once, with the same calls the code uses when
   it reads a component completely (VecIterator = `cv_values`: value(i).ok() until the first failure; for a map the
   three vectors states / keys / values, of which MapIterator reads the states and the keys / values of the Valid
   slots; DbKeyValues::values = valid_index, kvs = DbVec::from_storage, iter().collect()).  The result is a `db` of
   DbModel.v:
       gr       the four arrays, in order                         (determined exactly)
       vals     one list per slot of the values vector, in order  (determined exactly; slot value 0 => [])
       aliases  k2v / v2k = the (key, value) pairs of the Valid slots of the two tables IN SLOT ORDER
       indexes  in vector order; ids = the pairs of the Valid slots of the entry's table in slot order
       undo     []                                                (the undo stack is not persistent)
   Not modelled: the legacy-format conversion (`legacy::convert_to_current_version`, taken when record 1 does not
   deserialize as a DbStorageIndex): such a file gives None here.

   The record store is read through `sd_step`, the read-only part of the abstract record map of StorageSpec.v
   (value / value_as_bytes_at_size / value_size; the loader issues no other call). *)
From Agdb Require Import Bytes Utf8 Codec DbValue ValueIndex Graph DbModel Records Storage StorageSpec Collections CollValues.
Open Scope N_scope.

(* ---- reading a record store (index |-> bytes) ---- *)
Definition sd_is_read (o : sop) : bool :=
  match o with SValue _ | SValueAtSize _ _ _ | SValueSize _ => true | _ => false end.

Definition sd_step (m : vmap) (o : sop) : vmap * obs :=
  match o with
  | SValue i => (m, match m_get m i with Some x => ObBytes x | None => ObErr SeNotFound end)
  | SValueAtSize i off n =>
    (m, match m_get m i with
        | None => ObErr SeNotFound
        | Some x => if (lenN x <? off) || (lenN x <? off + n) then ObErr SeOutOfBounds
                    else ObBytes (bs_read x (N.to_nat off) (N.to_nat n))
        end)
  | SValueSize i => (m, match m_get m i with Some x => ObNum (lenN x) | None => ObErr SeNotFound end)
  | _ => (m, ObFault)
  end.

(* ---- a whole vector: DbVec::from_storage(index) then iter().collect() ---- *)
Definition sd_vec_load (T : Type) (E : cv_elem T) (i : N) : cprog (list T) :=
  h <~ cv_from_storage T E i ;; cv_values T E h.

(* ---- a whole map: the pairs of the Valid slots, in slot order (MapIterator) ---- *)
Fixpoint sd_entries {K V : Type} (ss : list cm_st) (ks : list K) (vs : list V) : list (K * V) :=
  match ss, ks, vs with
  | s :: ss', k :: ks', v :: vs' =>
    match s with
    | StValid => (k, v) :: sd_entries ss' ks' vs'
    | _ => sd_entries ss' ks' vs'
    end
  | _, _, _ => []
  end.

Definition sd_map_load (K V : Type) (EK : cv_elem K) (EV : cv_elem V) (i : N) : cprog (list (K * V)) :=
  d <~ cm_from_storage K V EK EV i ;;
  ss <~ cv_values cm_st ce_state (cm_states d) ;;
  ks <~ cv_values K EK (cm_keys d) ;;
  vs <~ cv_values V EV (cm_values d) ;;
  CRet (sd_entries ss ks vs).

(* ---- the graph: GraphDataStorage::from_storage, then the four arrays ---- *)
Definition sd_graph_load (i : N) : cprog graph :=
  d <~ cg_from_storage i ;;
  f <~ cv_values Z ce_i64 (cg_from d) ;;
  t <~ cv_values Z ce_i64 (cg_to d) ;;
  fm <~ cv_values Z ce_i64 (cg_from_meta d) ;;
  tm <~ cv_values Z ce_i64 (cg_to_meta d) ;;
  CRet {| g_from := f; g_to := t; g_fmeta := fm; g_tmeta := tm |}.

(* ---- DbKeyValues: the vector of storage indexes, then each element's DbVec<DbKeyValue> ---- *)
Fixpoint sd_kvs_load (idxs : list N) : cprog (list (list kv)) :=
  match idxs with
  | [] => CRet []
  | i :: r =>
    l <~ (if i =? 0 then CRet [] else sd_vec_load kv ce_dbkv i) ;;      (* valid_index: the slot is not 0 *)
    t <~ sd_kvs_load r ;;
    CRet (l :: t)
  end.
Definition sd_values_load (i : N) : cprog kvstore :=
  idxs <~ sd_vec_load N ce_u64 i ;; sd_kvs_load idxs.

(* ---- DbIndexes: the vector of 24-byte entries, then each DbIndex ---- *)
(* DbIndexStorageIndex::load: DbValueIndex::deserialize(bytes) (the first 16 bytes), StorageIndex::deserialize(&bytes[16..]);
   DbIndex::from_storage: load_db_value(key_index), MultiMapStorage::from_storage(ids_index) *)
Definition sd_index_load (e : bytes) : cprog index :=
  key <~ ce_load ce_dbvalue (firstn 16 e) ;;
  mi <~ cp_de64 (skipn 16 e) ;;
  ids <~ sd_map_load dbvalue Z ce_dbvalue ce_i64 mi ;;
  CRet (key, ids).
Fixpoint sd_index_list_load (es : list bytes) : cprog (list index) :=
  match es with
  | [] => CRet []
  | e :: r => x <~ sd_index_load e ;; t <~ sd_index_list_load r ;; CRet (x :: t)
  end.
Definition sd_indexes_load (i : N) : cprog (list index) :=
  es <~ sd_vec_load bytes (ce_raw 24) i ;; sd_index_list_load es.

(* ---- the root record and the whole database ---- *)
Definition sd_root_load (root : N) : cprog cr_root := b <~ cp_value root ;; cr_de b.      (* cr_load = sd_root_load 1 *)

Definition sd_load (root : N) : cprog db :=
  r <~ sd_root_load root ;;
  g <~ sd_graph_load (cr_graph r) ;;
  a1 <~ sd_map_load bytes Z ce_string ce_i64 (cr_aliases1 r) ;;
  a2 <~ sd_map_load Z bytes ce_i64 ce_string (cr_aliases2 r) ;;
  ix <~ sd_indexes_load (cr_indexes r) ;;
  vs <~ sd_values_load (cr_values r) ;;
  CRet {| gr := g; aliases := {| k2v := a1; v2k := a2 |}; vals := vs; indexes := ix; undo := [] |}.

Definition sd_result {A} (r : cres A) : option A := match r with CrOk a => Some a | _ => None end.

(* the database a record store holds (None: some loader failed) *)
Definition load_db (m : vmap) (root : N) : option db := sd_result (snd (cp_run sd_step (sd_load root) m)).
