(* UndoRemoveNode2.v — C13: remove_node_db is a sequence of primitives (see UndoRemoveNode.v). *)
From Agdb Require Import Bytes BytesProofs DbValue Graph DbModel Revisions UndoBase UndoObs UndoAlias UndoKv
  UndoGraphBase UndoGraph UndoGraphAlloc UndoGraphEdge UndoGraphOps UndoAbs UndoDb
  UndoStepsAlias UndoStepsKv UndoStepsKv2 UndoStepsIndex UndoStepsGraph UndoBridge UndoMain UndoFinal UndoLift UndoRemoveNode.
From Coq Require Import Permutation ZifyBool ZifyNat ZifyN.
Ltac Zify.zify_post_hook ::= Z.div_mod_to_equations.
Open Scope Z_scope.

(* removing the values of one element keeps the index entries of every other element *)
Lemma remove_first_pair_in_other l v id p : In p l -> snd p <> id -> In p (remove_first_pair l v id).
Proof.
  induction l as [|[v' id'] r IH]; cbn [remove_first_pair In]; [tauto|]. intros Hin Hne.
  destruct (dbv_eqb v' v && (id' =? id)) eqn:E.
  - destruct Hin as [<-|Hin]; [|assumption]. apply andb_true_iff in E. cbn [snd] in Hne. lia.
  - destruct Hin as [<-|Hin]; [left; reflexivity | right; auto].
Qed.

Lemma fold_remove_sel_idx ej l : forall d key ids',
  idx_find (indexes (fold_left (remove_sel ej (fun _ => true)) l d)) key = Some ids' ->
  exists ids, idx_find (indexes d) key = Some ids /\ forall p, snd p <> ej -> In p ids -> In p ids'.
Proof.
  induction l as [|x r IH]; intros d key ids' H; cbn [fold_left] in H; [eauto|].
  destruct (IH _ _ _ H) as (ids1 & H1 & Hsub). unfold remove_sel in H1. cbn [remove_kv indexes] in H1.
  unfold idx_remove_id in H1. rewrite idx_find_update' in H1.
  destruct (dbv_eqb (fst x) key); [|eauto].
  destruct (idx_find (indexes d) key) as [ids|]; cbn [omap] in H1; [|discriminate]. injection H1 as <-.
  exists ids. split; [reflexivity|]. intros p Hp Hin. apply Hsub; [assumption|]. apply remove_first_pair_in_other; assumption.
Qed.

Lemma idx_has_all_after_remove_all d ej ei :
  same_slot ej ei = false -> idx_has_all d ei -> idx_has_all (remove_all_values d ej) ei.
Proof.
  intros Hs Hall x Hx ids' Hids'. unfold remove_all_values in Hx, Hids'. cbn [vals indexes with_vals] in Hx, Hids'.
  destruct (remove_all_fold_fields (kvs_get (vals d) ej) ej d) as (_ & _ & Ei & _ & Ev).
  rewrite kvs_get_remove, Hs, Ev in Hx. rewrite Ei in Hids'.
  destruct (fold_remove_sel_idx ej _ _ _ _ Hids') as (ids & Hids & Hsub).
  apply Hsub; [cbn [snd]; intros ->; rewrite same_slot_refl in Hs; discriminate|]. apply (Hall x Hx ids Hids).
Qed.

Lemma gr_remove_all_values d id : gr (remove_all_values d id) = gr d.
Proof.
  unfold remove_all_values. cbn [gr with_vals].
  destruct (remove_all_fold_fields (kvs_get (vals d) id) id d) as (Eg & _). rewrite Eg. apply gr_remove_sel_fold.
Qed.

Lemma aliases_remove_sel_fold id sel l : forall d, aliases (fold_left (remove_sel id sel) l d) = aliases d.
Proof.
  induction l as [|x r IH]; intros d; cbn [fold_left]; [reflexivity|]. rewrite IH.
  unfold remove_sel. destruct (sel x); reflexivity.
Qed.

Lemma aliases_remove_all_values d id : aliases (remove_all_values d id) = aliases d.
Proof.
  unfold remove_all_values. cbn [aliases with_vals].
  destruct (remove_all_fold_fields (kvs_get (vals d) id) id d) as (_ & Ea & _). rewrite Ea.
  apply aliases_remove_sel_fold.
Qed.

Definition rn_step (acc : db * option errkind) (e : Z * Z * Z) : db * option errkind :=
  match acc with
  | (a, Some k) => (a, Some k)
  | (a, None) =>
    let '(ei, f, t) := e in
    match Graph.remove_edge (gr a) ei with
    | Some g => (remove_all_values (push_undo (with_gr a g) (CInsertEdge f t)) ei, None)
    | None => (a, Some EFuel)
    end
  end.

Section RemoveNode.
  Variable rv : revision.
  Hypothesis Hrv : fix_rollback_replace rv = true.
  Hypothesis Hsteal : fix_alias_steal_undo rv = true.

  Lemma rn_fold n : forall l acc a,
    db_ok acc -> rep (gr acc) a -> 0 < n -> ak a n = KNode ->
    Forall (fun x => exists e, ne_id x = - e /\ 0 < e /\ ak a e = KEdge (snd (fst x)) (snd x)) l ->
    NoDup (map ne_id l) ->
    (forall x, In x l -> idx_has_all acc (ne_id x)) ->
    exists acc' a', fold_left rn_step l (acc, None) = (acc', None) /\ psteps rv acc acc' /\ db_ok acc' /\
      rep (gr acc') a' /\ capacity (gr acc') = capacity (gr acc) /\ aliases acc' = aliases acc /\
      ak a' n = KNode /\
      (forall e, In e (aout a' n) -> In e (aout a n) /\ ~ In (- e) (map ne_id l)) /\
      (forall e, In e (ain a' n) -> In e (ain a n) /\ ~ In (- e) (map ne_id l)).
  Proof.
    induction l as [|x r IH]; intros acc a Hok R Hn Kn Hall Hnd Hidx; cbn [fold_left].
    - exists acc, a. split; [reflexivity|]. split; [apply pss_nil|]. repeat (split; [assumption || reflexivity|]).
      split; intros e He; (split; [assumption | intros []]).
    - inversion Hall as [|? ? (e & Ee & He & Ke) Hall']. subst.
      cbn [map] in Hnd. apply NoDup_cons_iff in Hnd. destruct Hnd as (Hnx & Hnd').
      destruct x as [[ei f] t]. unfold ne_id in Ee. cbn [fst snd] in Ee, Ke. subst ei.
      destruct (step_remove_edge_db rv Hrv acc a e f t Hok R He Ke) as (d1 & E1 & Hok1 & _ & Hc1 & Ea1 & Ev1 & Ei1 & R1).
      (* the model's step is remove_edge_db followed by remove_all_values *)
      assert (Estep : exists g, Graph.remove_edge (gr acc) (- e) = Some g /\ d1 = push_undo (with_gr acc g) (CInsertEdge f t)).
      { unfold remove_edge_db in E1. destruct (Graph.remove_edge (gr acc) (- e)) as [g|]; [|discriminate].
        injection E1 as <-. exists g. split; [reflexivity|].
        unfold rep in R. destruct (rep_edge_arrays _ _ _ _ R e f t He Ke) as (_ & _ & Efr & Eto & _).
        unfold edge_from, edge_to. rewrite from_opp, to_opp, Efr, Eto, !Z.opp_involutive. reflexivity. }
      destruct Estep as (g & Eg & Ed1). cbn [rn_step]. rewrite Eg, <- Ed1.
      assert (Hp1 : pstep rv acc d1).
      { apply (ps_remove_edge rv acc e d1 He); [|assumption].
        apply is_edge_kind; [assumption|]. unfold rep in R. rewrite <- (r_kind _ _ _ _ R) by assumption. eauto. }
      assert (Hidx1 : idx_has_all d1 (- e)).
      { intros y Hy ids Hids. rewrite Ev1 in Hy. unfold idx_has in *. rewrite Ei1 in Hids.
        apply (Hidx (- e, f, t) (or_introl eq_refl) y Hy ids Hids). }
      set (d2 := remove_all_values d1 (- e)).
      assert (Hp2 : pstep rv d1 d2) by (apply ps_remove_all_values, Hidx1).
      assert (Hg2 : gr d2 = gr d1) by apply gr_remove_all_values.
      destruct (pstep_ok rv Hrv Hsteal d1 d2 Hok1 Hp2) as (Hok2 & _).
      { rewrite Hg2. apply db_ok_cap, Hok1. }
      assert (KA : ak (a_remove_edge a e) = upd (ak a) e KFree) by (unfold a_remove_edge; rewrite Ke; reflexivity).
      assert (Hne : n <> e) by (intros ->; congruence).
      destruct (IH d2 (a_remove_edge a e)) as (acc' & a' & Ef & Hps & Hok' & R' & Hc' & Ea' & Kn' & Ho' & Hi'); auto.
      + rewrite Hg2. exact R1.
      + rewrite KA, upd_other by assumption. assumption.
      + apply Forall_forall. intros y Hy. rewrite Forall_forall in Hall'. destruct (Hall' y Hy) as (e' & Ee' & He' & Ke').
        exists e'. split; [assumption|]. split; [assumption|]. rewrite KA, upd_other; [assumption|].
        intros ->. apply Hnx. apply in_map_iff. exists y. split; [exact Ee' | exact Hy].
      + intros y Hy. apply idx_has_all_after_remove_all.
        * rewrite Forall_forall in Hall'. destruct (Hall' y Hy) as (e' & Ee' & He' & _). rewrite Ee'.
          destruct (same_slot_spec (- e) (- e')); [|reflexivity]. exfalso. apply Hnx.
          apply in_map_iff. exists y. split; [|exact Hy]. rewrite Ee'. unfold ne_id. cbn [fst]. lia.
        * intros z Hz ids Hids. rewrite Ev1 in Hz. unfold idx_has in *. rewrite Ei1 in Hids.
          apply (Hidx y (or_intror Hy) z Hz ids Hids).
      + exists acc', a'. split; [exact Ef|]. split.
        { eapply psteps_trans; [|exact Hps]. eapply pss_snoc; [apply psteps_one, Hp1 | exact Hp2]. }
        split; [exact Hok'|]. split; [exact R'|].
        split; [rewrite Hc', Hg2; exact Hc1|].
        split; [rewrite Ea'; unfold d2; rewrite aliases_remove_all_values; exact Ea1|].
        split; [exact Kn'|].
        (* lists of n only lose the removed edge *)
        unfold rep in R.
        assert (Hout : forall e0, In e0 (aout (a_remove_edge a e) n) -> In e0 (aout a n) /\ e0 <> e).
        { intros e0. unfold a_remove_edge. rewrite Ke. cbn [a_release a_set_in a_set_out aout]. unfold upd.
          destruct (Z.eqb_spec n f) as [->|Hnf].
          - rewrite lrem_in. tauto.
          - intros Hin. split; [assumption|]. intros ->.
            destruct (rep_out_edge _ _ _ _ R n e Hn Kn Hin) as (t' & Ht'). congruence. }
        assert (Hinn : forall e0, In e0 (ain (a_remove_edge a e) n) -> In e0 (ain a n) /\ e0 <> e).
        { intros e0. unfold a_remove_edge. rewrite Ke. cbn [a_release a_set_in a_set_out ain aout]. unfold upd.
          destruct (Z.eqb_spec n t) as [->|Hnt].
          - rewrite lrem_in. tauto.
          - intros Hin. split; [assumption|]. intros ->.
            destruct (rep_in_edge _ _ _ _ R n e Hn Kn Hin) as (f' & Hf'). congruence. }
        split; intros e0 He0.
        * destruct (Ho' e0 He0) as (H1 & H2). destruct (Hout e0 H1) as (H3 & H4). split; [assumption|].
          cbn [map In]. unfold ne_id at 1. cbn [fst]. intros [Hc|Hc]; [lia | contradiction].
        * destruct (Hi' e0 He0) as (H1 & H2). destruct (Hinn e0 H1) as (H3 & H4). split; [assumption|].
          cbn [map In]. unfold ne_id at 1. cbn [fst]. intros [Hc|Hc]; [lia | contradiction].
  Qed.

  Lemma remove_node_db_unfold d n alias :
    remove_node_db d n alias =
    let d1 := match alias with
              | Some a => with_aliases (push_undo d (CInsertAlias n a)) (imap_remove_key (imap_remove_key (aliases d) a) a)
              | None => d end in
    if negb (is_node (gr d1) n) then (d1, Some ENotFound) else
    match fold_left rn_step (node_edges d1 n) (d1, None) with
    | (d2, Some k) => (d2, Some k)
    | (d2, None) =>
      match Graph.remove_node (gr d2) n with
      | Some g => (push_undo (with_gr d2 g) CInsertNode, None)
      | None => (d2, Some EFuel)
      end
    end.
  Proof. reflexivity. Qed.

  (* C13_step_inverse for remove_node_db: it decomposes into primitives *)
  Theorem remove_node_db_psteps d n alias :
    db_ok d -> 0 < n -> is_node (gr d) n = true ->
    match alias with Some a => imap_value (aliases d) a = Some n | None => True end ->
    (forall x, In x (node_edges d n) -> idx_has_all d (ne_id x)) ->
    exists d1, remove_node_db d n alias = (d1, None) /\ psteps rv d d1 /\ capacity (gr d1) = capacity (gr d).
  Proof.
    intros Hok Hn Hnode Halias Hidx. rewrite remove_node_db_unfold. cbv zeta.
    set (d0 := match alias with
               | Some a => with_aliases (push_undo d (CInsertAlias n a)) (imap_remove_key (imap_remove_key (aliases d) a) a)
               | None => d end).
    assert (H0 : db_ok d0 /\ psteps rv d d0 /\ gr d0 = gr d /\ vals d0 = vals d /\ indexes d0 = indexes d).
    { unfold d0. destruct alias as [al|].
      - destruct (step_remove_existing_alias rv Hrv d n al Hok Halias) as (H1 & _).
        split; [exact H1|]. split; [|auto].
        assert (E : with_aliases (push_undo d (CInsertAlias n al)) (imap_remove_key (imap_remove_key (aliases d) al) al)
                    = snd (remove_alias d al)) by (unfold remove_alias; rewrite Halias; reflexivity).
        rewrite E. apply psteps_one, ps_remove_alias.
      - split; [exact Hok|]. split; [apply pss_nil | auto]. }
    destruct H0 as (Hok0 & Hps0 & Eg0 & Ev0 & Ei0).
    rewrite Eg0, Hnode. cbn [negb].
    destruct (db_ok_rep d0 Hok0) as (a & R).
    assert (Kn : ak a n = KNode).
    { unfold rep in R. rewrite (r_kind _ _ _ _ R) by assumption. apply is_node_kind; [assumption|]. rewrite Eg0. exact Hnode. }
    destruct (node_edges_spec d0 a n R Hn Kn) as (Hall & Hnd & Hcov).
    assert (Ene : node_edges d0 n = node_edges d n) by (unfold node_edges; rewrite Eg0; reflexivity).
    destruct (rn_fold n (node_edges d0 n) d0 a Hok0 R Hn Kn Hall Hnd) as (d2 & a2 & Ef & Hps & Hok2 & R2 & Hc2 & _ & Kn2 & Ho2 & Hi2).
    { intros x Hx y Hy ids Hids. rewrite Ene in Hx. rewrite Ev0 in Hy. unfold idx_has in *. rewrite Ei0 in Hids.
      apply (Hidx x Hx y Hy ids Hids). }
    rewrite Ef.
    assert (Ho : aout a2 n = []).
    { destruct (aout a2 n) as [|e r] eqn:E; [reflexivity|]. exfalso.
      destruct (Ho2 e) as (H1 & H2); [try rewrite E; left; reflexivity|]. apply H2, Hcov. left. exact H1. }
    assert (Hi : ain a2 n = []).
    { destruct (ain a2 n) as [|e r] eqn:E; [reflexivity|]. exfalso.
      destruct (Hi2 e) as (H1 & H2); [try rewrite E; left; reflexivity|]. apply H2, Hcov. right. exact H1. }
    destruct (step_remove_isolated_node rv Hrv d2 a2 n Hok2 R2 Hn Kn2 Ho Hi) as (g' & Erm & _ & _ & Hc3).
    rewrite Erm. eexists. split; [reflexivity|]. split.
    - eapply psteps_trans; [exact Hps0|]. eapply pss_snoc; [exact Hps|].
      unfold rep in R2. apply (ps_remove_isolated_node rv d2 n g'); try assumption.
      + apply is_node_kind; [assumption|]. rewrite <- (r_kind _ _ _ _ R2) by assumption. exact Kn2.
      + rewrite (rep_out_edges _ _ R2 n Hn Kn2), Ho. reflexivity.
      + rewrite (rep_in_edges _ _ R2 n Hn Kn2), Hi. reflexivity.
    - cbv zeta in Hc3. rewrite Hc3, Hc2, Eg0. reflexivity.
  Qed.
End RemoveNode.
