(* LoadOutcomeProofs.v — C07 above the storage layer: `load_outcome` (LoadOutcome.v) is TOTAL on every record store:
   loaded / error / fresh / legacy, or the panic of DbValue::load_db_value for an unknown type nibble (only while the
   revision lacks the type check), never a read buffer above the limit. *)
From Agdb Require Import Bytes BytesProofs Utf8 Codec CodecProofs DbValue ValueIndex ValueIndexProofs ValueLoadProofs
  Graph DbModel Records Storage StorageSpec Collections CollValues StoredDb LoadOutcome.
From Coq Require Import ZifyBool ZifyNat ZifyN.
Ltac Zify.zify_post_hook ::= Z.div_mod_to_equations.
Open Scope N_scope.
Arguments N.add : simpl never.
Arguments N.mul : simpl never.
Arguments N.sub : simpl never.
Arguments N.ltb : simpl never.
Arguments N.leb : simpl never.
Arguments N.eqb : simpl never.
Arguments N.div : simpl never.

(* ---- lo_run and bind ---- *)
Definition lo_bind {A B} (r : lo_res A) (f : A -> lo_res B) : lo_res B :=
  match r with LoOk a => f a | LoErr => LoErr | LoPanic => LoPanic | LoAlloc n => LoAlloc n end.

Lemma lo_run_bind {A B} L (p : cprog A) (f : A -> cprog B) m :
  lo_run L (cbind p f) m = lo_bind (lo_run L p m) (fun a => lo_run L (f a) m).
Proof.
  induction p as [a|e| |o k IH]; cbn [cbind lo_run lo_bind]; try reflexivity.
  destruct (lo_request m o) as [n|].
  - destruct (L <? n); [reflexivity|]. destruct (snd (sd_step m o)); cbn [lo_bind]; try reflexivity; apply IH.
  - destruct (snd (sd_step m o)); cbn [lo_bind]; try reflexivity; apply IH.
Qed.

Lemma lo_run_try {A} L (p : cprog A) m :
  lo_run L (cp_try p) m =
  match lo_run L p m with LoOk a => LoOk (Some a) | LoErr => LoOk None | LoPanic => LoPanic | LoAlloc n => LoAlloc n end.
Proof.
  induction p as [a|e| |o k IH]; cbn [cp_try lo_run]; try reflexivity.
  destruct (lo_request m o) as [n|].
  - destruct (L <? n); [reflexivity|]. destruct (snd (sd_step m o)); try reflexivity; apply IH.
  - destruct (snd (sd_step m o)); try reflexivity; apply IH.
Qed.

(* ---- what "crash free" means for one run ---- *)
Definition guards_off (g : vguards) : Prop := vg_num_checked g = false \/ vg_type_checked g = false.
Definition fine {A} (g : vguards) (r : lo_res A) : Prop :=
  match r with LoOk _ | LoErr => True | LoPanic => guards_off g | LoAlloc _ => False end.

Lemma fine_bind' {A B} g (r : lo_res A) (f : A -> lo_res B) :
  fine g r -> (forall a, r = LoOk a -> fine g (f a)) -> fine g (lo_bind r f).
Proof. destruct r; cbn [lo_bind fine]; intros H1 H2; try tauto. apply H2. reflexivity. Qed.

Lemma fine_bind {A B} g L m (p : cprog A) (f : A -> cprog B) :
  fine g (lo_run L p m) -> (forall a, lo_run L p m = LoOk a -> fine g (lo_run L (f a) m)) ->
  fine g (lo_run L (cbind p f) m).
Proof. intros H1 H2. rewrite lo_run_bind. apply fine_bind'; assumption. Qed.

Lemma fine_bind_all {A B} g L m (p : cprog A) (f : A -> cprog B) :
  fine g (lo_run L p m) -> (forall a, fine g (lo_run L (f a) m)) -> fine g (lo_run L (cbind p f) m).
Proof. intros H1 H2. apply fine_bind; [exact H1|]. intros a _. apply H2. Qed.

(* ---- the storage calls ---- *)
Definition big (L : N) (m : vmap) : Prop := forall i b, m_get m i = Some b -> lenN b <= L.
Definition lo_small (m : vmap) : Prop := forall i b, m_get m i = Some b -> lenN b < two60.

Lemma lo_run_value L m i : big L m ->
  lo_run L (cp_value i) m = match m_get m i with Some b => LoOk b | None => LoErr end.
Proof.
  intros Hb. unfold cp_value, cp_bytes. cbn [lo_run lo_request sd_step snd].
  destruct (m_get m i) as [b|] eqn:E; [|reflexivity].
  assert (H := Hb i b E). destruct (L <? lenN b) eqn:E1; [lia|]. reflexivity.
Qed.

Lemma lo_run_value_size L m i :
  lo_run L (cp_value_size i) m = match m_get m i with Some b => LoOk (lenN b) | None => LoErr end.
Proof.
  unfold cp_value_size, cp_num. cbn [lo_run lo_request sd_step snd].
  destruct (m_get m i) as [b|]; reflexivity.
Qed.

Lemma fine_value g L m i : big L m -> fine g (lo_run L (cp_value i) m).
Proof. intros Hb. rewrite lo_run_value by exact Hb. destruct (m_get m i); exact I. Qed.

Lemma fine_value_size g L m i : fine g (lo_run L (cp_value_size i) m).
Proof. rewrite lo_run_value_size. destruct (m_get m i); exact I. Qed.

Lemma fine_value_at_size g L m i off n : big L m -> fine g (lo_run L (cp_value_at_size i off n) m).
Proof.
  intros Hb. unfold cp_value_at_size, cp_bytes. cbn [lo_run lo_request sd_step snd].
  destruct (m_get m i) as [x|] eqn:E; [|exact I].
  assert (H := Hb i x E).
  destruct ((lenN x <? off) || (lenN x <? off + n)) eqn:E1; [exact I|].
  destruct (L <? n) eqn:E2; [lia|]. exact I.
Qed.

Lemma fine_de64 g L m bs : fine g (lo_run L (cp_de64 bs) m).
Proof. unfold cp_de64. destruct (lenN bs <? 8); exact I. Qed.

Lemma fine_of_outcome {A} g L m (o : outcome A) : ok_or_err o -> fine g (lo_run L (cp_of_outcome o) m).
Proof. destruct o; cbn; tauto. Qed.

(* ---- the element classes ---- *)
Definition elem_fine {T} g L m (E : cv_elem T) : Prop := forall bs, fine g (lo_run L (ce_load E bs) m).

Lemma elem_u64 g L m : elem_fine g L m ce_u64.
Proof. intros bs. apply fine_de64. Qed.
Lemma elem_i64 g L m : elem_fine g L m ce_i64.
Proof. intros bs. cbn [ce_load ce_i64]. apply fine_bind_all; [apply fine_de64|]. intros a. exact I. Qed.
Lemma elem_raw g L m n : elem_fine g L m (ce_raw n).
Proof. intros bs. cbn [ce_load ce_raw]. destruct (lenN bs <? n); exact I. Qed.
Lemma elem_state g L m : elem_fine g L m ce_state.
Proof. intros bs. cbn [ce_load ce_state]. destruct (cm_state_of bs); exact I. Qed.

Lemma fine_str_de g L m b : fine g (lo_run L (cv_str_de b) m).
Proof.
  unfold cv_str_de. apply fine_bind_all; [apply fine_de64|]. intros len.
  destruct (two64 <=? 8 + len); [exact I|]. destruct (lenN b <? 8 + len); [exact I|].
  destruct (utf8_valid _); exact I.
Qed.
Lemma elem_string g L m : big L m -> elem_fine g L m ce_string.
Proof.
  intros Hb bs. cbn [ce_load ce_string]. apply fine_bind_all; [apply fine_de64|]. intros i.
  apply fine_bind_all; [apply fine_value, Hb|]. intros b. apply fine_str_de.
Qed.

Lemma vi_deserialize_total bs : ok_or_err (vi_deserialize bs).
Proof. unfold vi_deserialize. destruct (slice bs 0 16); exact I. Qed.

Lemma store_small_one i b : lenN b < two60 -> store_small [(i, b)].
Proof.
  intros H j c. unfold ValueIndex.lookup. destruct (i =? j); intros E; inversion E; subst; exact H.
Qed.
Lemma store_small_nil : store_small [].
Proof. intros j c. unfold ValueIndex.lookup. intros E. inversion E. Qed.

Lemma fine_value_load g L m ix : big L m -> lo_small m -> fine g (lo_run L (lo_value_load g ix) m).
Proof.
  intros Hb Hs. unfold lo_value_load.
  destruct (is_numeric_type (vi_type ix) && negb (vi_size ix =? 8)) eqn:E1.
  { destruct (vg_num_checked g) eqn:G; [exact I|]. cbn [lo_run fine]. left. exact G. }
  destruct (is_known_type (vi_type ix)) eqn:E2; cbn [negb].
  2:{ destruct (vg_type_checked g) eqn:G; [exact I|]. cbn [lo_run fine]. right. exact G. }
  assert (Hn : is_numeric_type (vi_type ix) = true -> vi_size ix = 8).
  { intros Hn. rewrite Hn in E1. cbn [andb] in E1. lia. }
  destruct (lo_needs_record ix).
  - apply fine_bind; [apply fine_value, Hb|]. intros b Hrun.
    rewrite lo_run_value in Hrun by exact Hb.
    destruct (m_get m (vi_index ix)) as [b'|] eqn:E; [|discriminate]. injection Hrun as ->.
    apply fine_of_outcome, load_known_total; [apply store_small_one, (Hs _ _ E)|exact E2|exact Hn].
  - apply fine_of_outcome, load_known_total; [apply store_small_nil|exact E2|exact Hn].
Qed.

Lemma elem_dbvalue g L m : big L m -> lo_small m -> elem_fine g L m (lo_ce_dbvalue g).
Proof.
  intros Hb Hs bs. cbn [ce_load lo_ce_dbvalue].
  apply fine_bind_all; [apply fine_of_outcome, vi_deserialize_total|]. intros ix. apply fine_value_load; assumption.
Qed.

Lemma elem_pair {A B} g L m (EA : cv_elem A) (EB : cv_elem B) :
  elem_fine g L m EA -> elem_fine g L m EB -> elem_fine g L m (ce_pair EA EB).
Proof.
  intros HA HB bs. cbn [ce_load ce_pair]. apply fine_bind_all; [apply HA|]. intros a.
  apply fine_bind_all; [apply HB|]. intros b. exact I.
Qed.
Lemma elem_dbkv g L m : big L m -> lo_small m -> elem_fine g L m (lo_ce_dbkv g).
Proof. intros Hb Hs. apply elem_pair; apply elem_dbvalue; assumption. Qed.

(* ---- vectors ---- *)
Section VecFine.
  Variables (T : Type) (E : cv_elem T) (g : vguards) (L : N) (m : vmap).
  Hypothesis Hb : big L m.
  Hypothesis HE : elem_fine g L m E.

  Lemma fine_from_storage i : fine g (lo_run L (cv_from_storage T E i) m).
  Proof.
    unfold cv_from_storage. apply fine_bind_all; [apply fine_value, Hb|]. intros b.
    apply fine_bind_all; [apply fine_de64|]. intros len.
    apply fine_bind_all; [apply fine_value_size|]. intros dl.
    destruct (_ || _); exact I.
  Qed.

  Lemma fine_cv_value h i : fine g (lo_run L (cv_value T E h i) m).
  Proof.
    unfold cv_value, cv_validate, cv_read_slot.
    apply fine_bind_all; [destruct (cv_len h <=? i); exact I|]. intros _.
    apply fine_bind_all; [apply fine_value_at_size, Hb|]. intros bs. apply HE.
  Qed.

  Lemma fine_cv_iter h fuel i : fine g (lo_run L (cv_iter T E h fuel i) m).
  Proof.
    revert i. induction fuel as [|f IH]; intros i; cbn [cv_iter]; [exact I|].
    rewrite lo_run_bind, lo_run_try.
    pose proof (fine_cv_value h i) as Hv.
    destruct (lo_run L (cv_value T E h i) m) as [x| | |n]; cbn [lo_bind fine] in *; try exact Hv; try exact I.
    apply fine_bind_all; [apply IH|]. intros l. exact I.
  Qed.

  Lemma fine_cv_values h : fine g (lo_run L (cv_values T E h) m).
  Proof. apply fine_cv_iter. Qed.

  Lemma fine_vec_load i : fine g (lo_run L (sd_vec_load T E i) m).
  Proof. unfold sd_vec_load. apply fine_bind_all; [apply fine_from_storage|]. intros h. apply fine_cv_values. Qed.
End VecFine.

(* ---- tables, graph, root ---- *)
Lemma fine_cm_from_storage {K V} g L m (EK : cv_elem K) (EV : cv_elem V) i :
  big L m -> elem_fine g L m EK -> elem_fine g L m EV -> fine g (lo_run L (cm_from_storage K V EK EV i) m).
Proof.
  intros Hb HK HV. unfold cm_from_storage. apply fine_bind_all; [apply fine_value, Hb|]. intros b.
  destruct (lenN b <? 32); [exact I|].
  apply fine_bind_all; [apply fine_from_storage, Hb|]. intros s.
  apply fine_bind_all; [apply fine_from_storage; assumption|]. intros k.
  apply fine_bind_all; [apply fine_from_storage; assumption|]. intros v. exact I.
Qed.

Lemma fine_cg_from_storage g L m i : big L m -> fine g (lo_run L (cg_from_storage i) m).
Proof.
  intros Hb. unfold cg_from_storage. apply fine_bind_all; [apply fine_value, Hb|]. intros b.
  do 4 (apply fine_bind_all; [apply fine_de64|]; intros ?).
  do 4 (apply fine_bind_all; [apply fine_from_storage, Hb|]; intros ?). exact I.
Qed.

Lemma fine_cr_de g L m b : fine g (lo_run L (cr_de b) m).
Proof. unfold cr_de. do 6 (apply fine_bind_all; [apply fine_de64|]; intros ?). exact I. Qed.

Lemma fine_map_read {K V} g L m (EK : cv_elem K) (EV : cv_elem V) d :
  big L m -> elem_fine g L m EK -> elem_fine g L m EV -> fine g (lo_run L (lo_map_read K V EK EV d) m).
Proof.
  intros Hb HK HV. unfold lo_map_read.
  apply fine_bind_all; [apply fine_cv_values; [exact Hb|apply elem_state]|]. intros ss.
  apply fine_bind_all; [apply fine_cv_values; assumption|]. intros ks.
  apply fine_bind_all; [apply fine_cv_values; assumption|]. intros vs. exact I.
Qed.

Section Top.
  Variables (g : vguards) (L : N) (m : vmap).
  Hypothesis Hb : big L m.
  Hypothesis Hs : lo_small m.

  Lemma fine_index_open e : fine g (lo_run L (lo_index_open g e) m).
  Proof.
    unfold lo_index_open. apply fine_bind_all; [apply elem_dbvalue; assumption|]. intros key.
    apply fine_bind_all; [apply fine_de64|]. intros mi.
    apply fine_bind_all; [apply fine_cm_from_storage; [exact Hb|apply elem_dbvalue; assumption|apply elem_i64]|].
    intros d. exact I.
  Qed.
  Lemma fine_index_list_open es : fine g (lo_run L (lo_index_list_open g es) m).
  Proof.
    induction es as [|e r IH]; cbn [lo_index_list_open]; [exact I|].
    apply fine_bind_all; [apply fine_index_open|]. intros x.
    apply fine_bind_all; [apply IH|]. intros t. exact I.
  Qed.
  Lemma fine_indexes_open i : fine g (lo_run L (lo_indexes_open g i) m).
  Proof.
    unfold lo_indexes_open. apply fine_bind_all; [apply fine_vec_load; [exact Hb|apply elem_raw]|].
    intros es. apply fine_index_list_open.
  Qed.

  Lemma fine_open_root r : fine g (lo_run L (lo_open_root g r) m).
  Proof.
    unfold lo_open_root. apply fine_bind_all; [apply fine_cg_from_storage, Hb|]. intros gd.
    apply fine_bind_all; [apply fine_cm_from_storage; [exact Hb|apply elem_string, Hb|apply elem_i64]|]. intros a1.
    apply fine_bind_all; [apply fine_cm_from_storage; [exact Hb|apply elem_i64|apply elem_string, Hb]|]. intros a2.
    apply fine_bind_all; [apply fine_indexes_open|]. intros ix.
    apply fine_bind_all; [apply fine_from_storage, Hb|]. intros vs. exact I.
  Qed.

  Lemma fine_graph_read d : fine g (lo_run L (lo_graph_read d) m).
  Proof.
    unfold lo_graph_read.
    do 4 (apply fine_bind_all; [apply fine_cv_values; [exact Hb|apply elem_i64]|]; intros ?). exact I.
  Qed.
  Lemma fine_index_list_read hs : fine g (lo_run L (lo_index_list_read g hs) m).
  Proof.
    induction hs as [|h r IH]; cbn [lo_index_list_read]; [exact I|].
    apply fine_bind_all; [apply fine_map_read; [exact Hb|apply elem_dbvalue; assumption|apply elem_i64]|]. intros ids.
    apply fine_bind_all; [apply IH|]. intros t. exact I.
  Qed.
  Lemma fine_kvs_read idxs : fine g (lo_run L (lo_kvs_read g idxs) m).
  Proof.
    induction idxs as [|i r IH]; cbn [lo_kvs_read]; [exact I|].
    apply fine_bind_all.
    - destruct (i =? 0); [exact I|]. apply fine_vec_load; [exact Hb|apply elem_dbkv; assumption].
    - intros l. apply fine_bind_all; [apply IH|]. intros t. exact I.
  Qed.
  Lemma fine_read h : fine g (lo_run L (lo_read g h) m).
  Proof.
    unfold lo_read. apply fine_bind_all; [apply fine_graph_read|]. intros gr0.
    apply fine_bind_all; [apply fine_map_read; [exact Hb|apply elem_string, Hb|apply elem_i64]|]. intros a1.
    apply fine_bind_all; [apply fine_map_read; [exact Hb|apply elem_i64|apply elem_string, Hb]|]. intros a2.
    apply fine_bind_all; [apply fine_index_list_read|]. intros ix.
    apply fine_bind_all; [apply fine_cv_values; [exact Hb|apply elem_u64]|]. intros idxs.
    apply fine_bind_all; [apply fine_kvs_read|]. intros vs. exact I.
  Qed.
End Top.

(* ---- the outcome ---- *)
Definition out_fine (g : vguards) (o : lo_outcome) : Prop :=
  match o with
  | Loaded _ | LErr | LFresh | LLegacy => True
  | LPanic => guards_off g
  | LHugeAlloc _ => False
  end.

Lemma out_fine_of_res {A} g (f : A -> lo_outcome) (r : lo_res A) :
  fine g r -> (forall a, out_fine g (f a)) -> out_fine g (lo_of_res f r).
Proof. destruct r; cbn [lo_of_res fine out_fine]; intros H1 H2; try tauto. apply H2. Qed.

Theorem load_outcome_g_total g L m root :
  big L m -> lo_small m -> out_fine g (load_outcome_g g L m root).
Proof.
  intros Hb Hs. unfold load_outcome_g, lo_open.
  destruct (m_get m root) as [b|] eqn:E; [|exact I].
  assert (H := Hb root b E). destruct (L <? lenN b) eqn:E1; [lia|].
  destruct (lenN b <? 40); [exact I|].
  destruct (lenN b <? 48).
  - apply out_fine_of_res; [|intros a; exact I].
    apply fine_cm_from_storage; [exact Hb|apply elem_i64|apply elem_dbkv; assumption].
  - apply out_fine_of_res.
    + apply fine_bind_all; [apply fine_cr_de|]. intros r. apply fine_open_root; assumption.
    + intros h. apply out_fine_of_res; [apply fine_read; assumption|]. intros d. exact I.
Qed.

Lemma m_get_total (m : vmap) i b : m_get m i = Some b -> lenN b <= lo_total m.
Proof.
  induction m as [|[j c] r IH]; cbn [m_get lo_total]; [discriminate|].
  destruct (j =? i).
  - intros E. injection E as ->. lia.
  - intros E. specialize (IH E). lia.
Qed.

Lemma big_limit m : big (lo_limit m) m.
Proof. intros i b E. apply m_get_total in E. unfold lo_limit. lia. Qed.

(* the tree as it is: the only crash is the pinned panic!() *)
Theorem load_outcome_total m root :
  lo_small m ->
  match load_outcome m root with
  | Loaded _ | LErr | LFresh | LLegacy | LPanic => True
  | LHugeAlloc _ => False
  end.
Proof.
  intros Hs. pose proof (load_outcome_g_total vg_current (lo_limit m) m root (big_limit m) Hs) as H.
  unfold load_outcome. destruct (load_outcome_g vg_current (lo_limit m) m root); cbn [out_fine] in H; tauto.
Qed.

(* with the type check of fixes/C07-value-type.diff: no crash at all *)
Theorem load_outcome_fixed_total m root :
  lo_small m ->
  match load_outcome_g vg_fixed (lo_limit m) m root with
  | Loaded _ | LErr | LFresh | LLegacy => True
  | LPanic | LHugeAlloc _ => False
  end.
Proof.
  intros Hs. pose proof (load_outcome_g_total vg_fixed (lo_limit m) m root (big_limit m) Hs) as H.
  destruct (load_outcome_g vg_fixed (lo_limit m) m root); cbn [out_fine] in H; try tauto.
  destruct H as [H|H]; discriminate.
Qed.
