(* UndoGraphUnlinkIn.v — C13: remove_to_edge unlinks an edge slot from its target's in-list;
   mirror image of UndoGraphUnlinkOut / UndoGraphUnlinkOut2. *)
From Agdb Require Import Bytes BytesProofs DbValue Graph DbModel UndoBase UndoObs UndoKv UndoGraphBase UndoGraph UndoGraphAlloc UndoGraphEdge UndoGraphUnlinkOut UndoGraphUnlinkOut2.
From Coq Require Import Permutation ZifyBool ZifyNat ZifyN.
Ltac Zify.zify_post_hook ::= Z.div_mod_to_equations.
Open Scope Z_scope.

Lemma remove_to_edge_arrays g a Xo Xi e f t l1 l2 :
  rep_x g a Xo Xi -> 0 < e -> ak a e = KEdge f t -> ain a t = l1 ++ e :: l2 ->
  exists g', remove_to_edge g (- e) = Some g' /\ lens_ok g' /\ capacity g' = capacity g /\
    (forall j, from g' j = from g j) /\ (forall j, fmeta g' j = fmeta g j) /\
    chain (tmeta g') (to g' t) (l1 ++ l2) /\ tmeta g' t = tmeta g t - 1 /\
    (forall j, 0 <= j -> j <> t -> to g' j = to g j) /\
    (forall j, 0 <= j -> j <> t -> ~ In j l1 -> tmeta g' j = tmeta g j).
Proof.
  intros R He Hk El.
  pose proof (r_lens _ _ _ _ R) as Hl. pose proof (r_cap _ _ _ _ R) as Hcap.
  destruct (rep_edge_arrays _ _ _ _ R e f t He Hk) as (Her & Hefm & Hefr & Heto & Hf & Ht).
  destruct (r_edge _ _ _ _ R e f t He Hk) as (_ & _ & Kf & Kt).
  destruct (rep_node_range _ _ _ _ R t Ht Kt) as (Htr' & Htfm & Htfr).
  destruct (r_in _ _ _ _ R t Ht Kt) as (Hc & Hnd & Hdeg). rewrite El in Hc, Hnd, Hdeg.
  assert (Hte : t <> e) by (intros ->; congruence).
  assert (Hmem : forall x, In x (l1 ++ e :: l2) -> 0 < x < capacity g /\ x <> t).
  { intros x Hx. rewrite <- El in Hx. pose proof (rep_in_range _ _ _ _ R t x Ht Kt Hx).
    destruct (rep_in_edge _ _ _ _ R t x Ht Kt Hx) as (f' & Hf').
    repeat split; try lia. intros ->. congruence. }
  unfold remove_to_edge. rewrite !to_opp, tmeta_opp, Heto, !to_opp, !Z.opp_involutive.
  destruct l1 as [|x0 l1r].
  - cbn [app] in *. pose proof (chain_head _ _ _ Hc) as Hh. cbn in Hh. rewrite Hh, Z.eqb_refl.
    eexists. split; [reflexivity|].
    set (g1 := set_to g t (tmeta g e)).
    assert (Hl1 : lens_ok g1) by (apply lens_set_to, Hl).
    destruct (chain_cons_inv _ _ _ _ Hc) as (_ & _ & Hc2).
    apply NoDup_cons_iff in Hnd. destruct Hnd as (Hne & Hnd2).
    assert (Htm' : forall j, 0 <= j -> tmeta (set_tmeta g1 t (tmeta g1 t - 1)) j = if t =? j then tmeta g t - 1 else tmeta g j).
    { intros j Hj. rewrite tmeta_set_tmeta by (auto; unfold g1; rewrite ?cap_set_to; lia). reflexivity. }
    assert (Hto2 : forall j, 0 <= j -> to (set_tmeta g1 t (tmeta g1 t - 1)) j = if t =? j then tmeta g e else to g j).
    { intros j Hj. rewrite to_set_tmeta. unfold g1. apply to_set_to; auto; lia. }
    split; [apply lens_set_tmeta, Hl1|]. split; [reflexivity|].
    split; [reflexivity|]. split; [reflexivity|].
    split.
    { rewrite Hto2 by lia. rewrite Z.eqb_refl. eapply chain_ext; [exact Hc2|]. intros x Hx.
      destruct (Hmem x (or_intror Hx)) as (Hxr & Hxt). rewrite Htm' by lia.
      destruct (Z.eqb_spec t x); [congruence | reflexivity]. }
    split; [rewrite Htm' by lia; rewrite Z.eqb_refl; reflexivity|].
    split; [intros j Hj Hne'; rewrite Hto2 by lia; destruct (Z.eqb_spec t j); [congruence | reflexivity]|].
    intros j Hj Hne' _; rewrite Htm' by lia; destruct (Z.eqb_spec t j); [congruence | reflexivity].
  - destruct (exists_last (l := x0 :: l1r)) as (l1' & p & El1); [discriminate|]. rewrite El1 in *.
    rewrite <- app_assoc in Hc, Hnd, Hdeg, Hmem. cbn [app] in Hc, Hnd, Hdeg, Hmem.
    assert (Hhead : to g t <> e).
    { pose proof (chain_head _ _ _ Hc) as Hh. intros E. rewrite E in Hh.
      assert (Hin : In e (l1' ++ [p])).
      { destruct l1' as [|y r]; cbn [app] in Hh |- *; left; congruence. }
      assert (Hnd' : NoDup ((l1' ++ [p]) ++ e :: l2)) by (rewrite <- app_assoc; exact Hnd).
      apply NoDup_remove_2 in Hnd'. apply Hnd'. apply in_or_app. left. exact Hin. }
    destruct (Z.eqb_spec (- to g t) (- e)) as [E|_]; [lia|].
    assert (Hlen : (length l1' < length (g_from g))%nat).
    { pose proof (rep_in_length _ _ _ _ R t Ht Kt) as Hle. rewrite El, <- app_assoc in Hle.
      rewrite app_length in Hle. cbn [length app] in Hle. lia. }
    destruct (find_prev_spec (fun q => tmeta g q) (to g t) l1' p e l2 (length (g_from g)) (- to g t) Hc Hnd
                (fun x => tmeta_opp g x) Hlen (or_intror eq_refl)) as (q & Hq & Hqp).
    rewrite Hq.
    assert (Eq : set_tmeta g q (tmeta g e) = set_tmeta g p (tmeta g e)).
    { destruct Hqp as [->| ->]; [reflexivity | apply set_tmeta_opp]. }
    rewrite Eq. eexists. split; [reflexivity|].
    assert (Hpin : In p (l1' ++ p :: e :: l2)) by (apply in_or_app; right; left; reflexivity).
    destruct (Hmem p Hpin) as (Hpr & Hpt).
    set (g1 := set_tmeta g p (tmeta g e)).
    assert (Hl1 : lens_ok g1) by (apply lens_set_tmeta, Hl).
    assert (Htm' : forall j, 0 <= j -> tmeta (set_tmeta g1 t (tmeta g1 t - 1)) j =
                     if t =? j then tmeta g t - 1 else if p =? j then tmeta g e else tmeta g j).
    { intros j Hj. rewrite tmeta_set_tmeta by (auto; unfold g1; rewrite ?cap_set_tmeta; lia).
      unfold g1. rewrite !tmeta_set_tmeta by (auto; lia). destruct (Z.eqb_spec p t); [congruence | reflexivity]. }
    split; [apply lens_set_tmeta, Hl1|]. split; [reflexivity|].
    split; [reflexivity|]. split; [reflexivity|].
    split.
    { rewrite to_set_tmeta. unfold g1. rewrite to_set_tmeta. rewrite <- app_assoc. cbn [app].
      eapply chain_unlink; [exact Hc | exact Hnd | |].
      - rewrite Htm' by lia. destruct (Z.eqb_spec t p); [congruence|]. rewrite Z.eqb_refl. reflexivity.
      - intros x Hx.
        assert (Hx' : In x (l1' ++ p :: e :: l2)).
        { apply in_or_app. destruct Hx as [Hx|Hx]; [left; assumption | right; right; right; assumption]. }
        destruct (Hmem x Hx') as (Hxr & Hxt). rewrite Htm' by lia.
        destruct (Z.eqb_spec t x); [congruence|].
        destruct (Z.eqb_spec p x) as [<-|]; [|reflexivity].
        exfalso. apply NoDup_remove_2 in Hnd. apply Hnd. apply in_or_app.
        destruct Hx as [Hx|Hx]; [left; assumption | right; right; assumption]. }
    split; [rewrite Htm' by lia; rewrite Z.eqb_refl; reflexivity|].
    split; [reflexivity|].
    intros j Hj Hne' Hnin. rewrite Htm' by lia. destruct (Z.eqb_spec t j); [congruence|].
    destruct (Z.eqb_spec p j) as [<-|]; [|reflexivity]. exfalso. apply Hnin, in_or_app. right. left. reflexivity.
Qed.

Lemma rep_unlink_in g a Xo Xi e f t :
  rep_x g a Xo Xi -> 0 < e -> ak a e = KEdge f t -> ~ Xi e ->
  exists g', remove_to_edge g (- e) = Some g' /\
             rep_x g' (a_set_in a t (lrem e (ain a t))) Xo (fun x => Xi x \/ x = e) /\
             capacity g' = capacity g.
Proof.
  intros R He Hk Hnx.
  pose proof (r_lens _ _ _ _ R) as Hl. pose proof (r_cap _ _ _ _ R) as Hcap.
  destruct (rep_edge_arrays _ _ _ _ R e f t He Hk) as (Her & Hefm & Hefr & Heto & Hf & Ht).
  destruct (r_edge _ _ _ _ R e f t He Hk) as (_ & _ & Kf & Kt).
  destruct (r_in _ _ _ _ R t Ht Kt) as (Hc & Hnd & Hdeg).
  assert (Hin : In e (ain a t)).
  { apply (r_in_mem _ _ _ _ R); [assumption|assumption|]. split; [assumption|]. split; [eauto | assumption]. }
  destruct (in_split _ _ Hin) as (l1 & l2 & El).
  destruct (remove_to_edge_arrays g a Xo Xi e f t l1 l2 R He Hk El)
    as (g' & Hrm & Hl' & Hcp & Hfr & Hfm & Hch & Hdeg' & Hto & Htm).
  exists g'. split; [exact Hrm|]. split; [|exact Hcp].
  assert (Elr : lrem e (ain a t) = l1 ++ l2) by (rewrite El; apply lrem_split; rewrite <- El; exact Hnd).
  assert (Hl1k : forall x, In x l1 -> 0 < x /\ exists f', ak a x = KEdge f' t).
  { intros x Hx. assert (Hx' : In x (ain a t)) by (rewrite El; apply in_or_app; left; exact Hx).
    pose proof (rep_in_range _ _ _ _ R t x Ht Kt Hx').
    split; [lia|]. apply (rep_in_edge _ _ _ _ R t x Ht Kt Hx'). }
  assert (Htm' : forall j, 0 <= j -> (forall f', ak a j <> KEdge f' t) -> j <> t -> tmeta g' j = tmeta g j).
  { intros j Hj Hnk Hjt. apply Htm; try assumption. intros Hjin. destruct (Hl1k j Hjin) as (_ & f' & Hf'). exact (Hnk f' Hf'). }
  constructor; cbn [a_set_in ak aout ain acount afree acap].
  - assumption.
  - rewrite Hcp. assumption.
  - rewrite Hcp. apply (r_acap _ _ _ _ R).
  - rewrite (r_count _ _ _ _ R). unfold node_count. symmetry.
    apply Htm; [lia | lia |]. intros Hc0. destruct (Hl1k 0 Hc0). lia.
  - rewrite Hfm. eapply fchain_ext; [apply (r_free _ _ _ _ R)|]. intros x Hx. apply Hfm.
  - apply (r_free_nd _ _ _ _ R).
  - intros x Hx. rewrite Hcp. destruct (r_free_in _ _ _ _ R x Hx) as (Hr & Hneg & H1 & H2 & H3).
    pose proof (rep_free_kind _ _ _ _ R x Hx) as Hkx.
    assert (x <> t) by (intros ->; congruence).
    rewrite Hfm, Hfr, Hto, Htm' by (try lia; try assumption; intros f' Hf'; congruence). auto.
  - intros i Hi. rewrite (r_kind _ _ _ _ R) by assumption. symmetry.
    destruct (Z.eq_dec i t) as [->|Hit].
    + rewrite <- (r_kind _ _ _ _ R), Kt by assumption. apply slot_kind_node; [assumption|].
      rewrite Hcp, Hfm, Hfr. apply (rep_node_range _ _ _ _ R t Ht Kt).
    + apply slot_kind_ext; auto.
      * rewrite Hcp. reflexivity.
      * apply Hto; [lia | assumption].
  - intros n Hn Hkn. destruct (r_out _ _ _ _ R n Hn Hkn) as (Hcn & Hndn & Hdegn).
    rewrite Hfr, Hfm. repeat split; try assumption.
    eapply chain_ext; [exact Hcn|]. intros x Hx. apply Hfm.
  - intros n Hn Hkn. destruct (Z.eq_dec n t) as [->|Hnt].
    + rewrite upd_same, Elr. split; [exact Hch|]. split.
      * rewrite El in Hnd. apply NoDup_remove_1 in Hnd. exact Hnd.
      * rewrite Hdeg', Hdeg, El, !app_length. cbn [length]. lia.
    + rewrite upd_other by assumption. destruct (r_in _ _ _ _ R n Hn Hkn) as (Hcn & Hndn & Hdegn).
      rewrite Hto by (try lia; assumption).
      rewrite Htm' by (try lia; try assumption; intros f' Hf'; congruence).
      repeat split; try assumption.
      eapply chain_ext; [exact Hcn|]. intros x Hx.
      pose proof (rep_in_range _ _ _ _ R n x Hn Hkn Hx).
      destruct (rep_in_edge _ _ _ _ R n x Hn Hkn Hx) as (f' & Hf').
      apply Htm'; [lia | intros f'' Hf''; congruence | intros ->; congruence].
  - intros n x Hn Hkn. apply (r_out_mem _ _ _ _ R); assumption.
  - intros n x Hn Hkn. destruct (Z.eq_dec n t) as [->|Hnt].
    + rewrite upd_same, lrem_in, (r_in_mem _ _ _ _ R) by assumption. tauto.
    + rewrite upd_other by assumption. rewrite (r_in_mem _ _ _ _ R) by assumption. split.
      * intros (Hx0 & Hex & Hnxx). split; [assumption|]. split; [assumption|].
        intros [Hc0| ->]; [tauto|]. destruct Hex as (f' & Hf'). congruence.
      * intros (Hx0 & Hex & Hnxx). tauto.
  - apply (r_edge _ _ _ _ R).
Qed.
