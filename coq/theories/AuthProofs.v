(* AuthProofs.v — lemmas about the server model Auth.v (C24, C25). *)
From Agdb Require Import Bytes Auth.
From Coq Require Import Lia ZifyBool ZifyN.
Open Scope N_scope.

Arguments N.add : simpl never.
Arguments N.ltb : simpl never.
Arguments N.leb : simpl never.
Arguments N.eqb : simpl never.

(* destruct the scrutinee of the first match in the goal *)
Ltac dm1 :=
  match goal with
  | |- context [match ?x with _ => _ end] =>
    lazymatch x with
    | context [match _ with _ => _ end] => fail
    | _ => destruct x eqn:?
    end
  end.
Ltac dm := repeat dm1.

(* ------------------------------------------------------------------ *)
(* 1. an error response leaves the state unchanged                      *)
(* ------------------------------------------------------------------ *)

Lemma apply_db_err : forall s who o d op no,
  resp_ok (fst (apply_db s who o d op no)) = false -> snd (apply_db s who o d op no) = s.
Proof.
  intros s who o d op no. unfold apply_db.
  destruct (find_db (s_dbs s) o d) eqn:F; destruct op; cbn [fst snd resp_ok];
    try (intros; reflexivity); try (intros H; discriminate H);
    dm; cbn [fst snd resp_ok]; intros H; try reflexivity; try discriminate H.
Qed.

Lemma apply_err : forall s now tok u req,
  resp_ok (fst (apply s now tok u req)) = false -> snd (apply s now tok u req) = s.
Proof.
  intros s now tok u req. destruct req; cbn [apply fst snd resp_ok];
    try (intros H; discriminate H); try (intros; reflexivity); apply apply_db_err.
Qed.

Lemma step_err_unchanged : forall s now tok req,
  resp_ok (fst (step s now tok req)) = false -> snd (step s now tok req) = s.
Proof.
  intros s now tok req. unfold step. destruct (authorize s now tok req).
  - apply apply_err.
  - reflexivity.
Qed.

Lemma step_deny : forall s now tok req c,
  authorize s now tok req = Deny c -> step s now tok req = (RespErr c, s).
Proof. intros. unfold step. rewrite H. reflexivity. Qed.
