(* AuthProofs.v — lemmas about the server model Auth.v (C24, C25). *)
From Agdb Require Import Bytes Auth.
From Coq Require Import Lia ZifyBool ZifyN.
Open Scope N_scope.

Arguments N.add : simpl never.
Arguments N.ltb : simpl never.
Arguments N.leb : simpl never.
Arguments N.eqb : simpl never.

(* destruct the scrutinee of the first match in the goal *)
Ltac dm1 :=
  match goal with
  | |- context [match ?x with _ => _ end] =>
    lazymatch x with
    | context [match _ with _ => _ end] => fail
    | _ => destruct x eqn:?
    end
  end.
Ltac dm := repeat dm1.

(* ------------------------------------------------------------------ *)
(* 1. an error response leaves the state unchanged                      *)
(* ------------------------------------------------------------------ *)

Lemma apply_db_err : forall s who o d op no,
  resp_ok (fst (apply_db s who o d op no)) = false -> snd (apply_db s who o d op no) = s.
Proof.
  intros s who o d op no. unfold apply_db.
  destruct (find_db (s_dbs s) o d) eqn:F; destruct op; cbn [fst snd resp_ok];
    try (intros; reflexivity); try (intros H; discriminate H);
    dm; cbn [fst snd resp_ok]; intros H; try reflexivity; try discriminate H.
Qed.

Lemma apply_err : forall s now tok u req,
  resp_ok (fst (apply s now tok u req)) = false -> snd (apply s now tok u req) = s.
Proof.
  intros s now tok u req. destruct req; cbn [apply fst snd resp_ok];
    try (intros H; discriminate H); try (intros; reflexivity); apply apply_db_err.
Qed.

Lemma step_err_unchanged : forall s now tok req,
  resp_ok (fst (step s now tok req)) = false -> snd (step s now tok req) = s.
Proof.
  intros s now tok req. unfold step. destruct (authorize s now tok req).
  - apply apply_err.
  - reflexivity.
Qed.

Lemma step_deny : forall s now tok req c,
  authorize s now tok req = Deny c -> step s now tok req = (RespErr c, s).
Proof. intros. unfold step. rewrite H. reflexivity. Qed.

(* ------------------------------------------------------------------ *)
(* 2. query classification                                              *)
(* ------------------------------------------------------------------ *)

Lemma kind_tables_agree : forall k,
  kind_is_write k = negb (kind_read_allowed k) /\ kind_audited k = kind_is_write k.
Proof. destruct k; split; reflexivity. Qed.

Lemma exec_query_kind : forall c rs q c' r q',
  exec_query c rs q = Some (c', r, q') -> kind_of q' = kind_of q.
Proof.
  intros c rs q c' r q' H. destruct q; cbn [exec_query] in H.
  - inversion H; reflexivity.
  - destruct (inject rs ids); [|discriminate]. destruct (set_values c l m) as [[[? ?] ?]|]; [|discriminate].
    inversion H; reflexivity.
  - destruct (inject rs ids); [|discriminate]. destruct (remove_values c l) as [[? ?]|]; [|discriminate].
    inversion H; reflexivity.
  - destruct (inject rs ids); [|discriminate]. destruct (select_values c l); [|discriminate].
    inversion H; reflexivity.
  - inversion H; reflexivity.
  - inversion H; reflexivity.
  - destruct p; try (inversion H; reflexivity); try discriminate;
      destruct (c_index c); try discriminate; inversion H; reflexivity.
Qed.

(* a read-only batch accepted by the exec endpoint never hits t_exec's "mutable query not allowed" *)
Lemma read_batch_all_allowed : forall qs,
  batch_is_write qs = false -> forallb (fun q => kind_read_allowed (kind_of q)) qs = true.
Proof.
  induction qs as [|q t IH]; cbn [batch_is_write existsb forallb]; [reflexivity|].
  intros H. apply Bool.orb_false_iff in H. destruct H as [H1 H2].
  destruct (kind_tables_agree (kind_of q)) as [E _]. rewrite E in H1.
  apply Bool.negb_false_iff in H1. rewrite H1. cbn. apply IH. exact H2.
Qed.

(* ------------------------------------------------------------------ *)
(* 3. authentication                                                    *)
(* ------------------------------------------------------------------ *)

Definition is_login (req : request) : bool := match req with ReqLogin _ _ => true | _ => false end.

Lemma unauthenticated_401 : forall s now tok req,
  user_of_token s now tok = None -> is_login req = false -> authorize s now tok req = Deny 401.
Proof.
  intros s now tok req H L. destruct req; cbn [is_login] in L; try discriminate L;
    cbn [authorize]; rewrite H; reflexivity.
Qed.

Lemma unauthenticated_step : forall s now tok req,
  user_of_token s now tok = None -> is_login req = false -> step s now tok req = (RespErr 401, s).
Proof. intros. apply step_deny. apply unauthenticated_401; assumption. Qed.
