(* FileWalProofs.v — C01: recovery restores the committed content at every crash cut *)
From Agdb Require Import Bytes BytesProofs FileWal.
From Coq Require Import ZifyBool ZifyNat ZifyN.
Ltac Zify.zify_post_hook ::= Z.div_mod_to_equations.
Open Scope nat_scope.
Arguments N.of_nat : simpl never.
Arguments N.to_nat : simpl never.
Arguments N.ltb : simpl never.

(* ---------- nth toolkit ---------- *)
Section Nth.
  Context {A : Type} (dflt : A).
  Lemma nth_firstn_lt (l : list A) n i : i < n -> nth i (firstn n l) dflt = nth i l dflt.
  Proof.
    revert n i; induction l as [|x l IH]; intros [|n] [|i] H; cbn [firstn nth]; try reflexivity; try lia.
    apply IH. lia.
  Qed.
  Lemma nth_skipn_add (l : list A) n i : nth i (skipn n l) dflt = nth (n + i) l dflt.
  Proof.
    revert n; induction l as [|x l IH]; intros [|n]; cbn [skipn nth Nat.add]; try reflexivity.
    - destruct i; reflexivity.
    - apply IH.
  Qed.
  Lemma list_ext (l l' : list A) :
    length l = length l' -> (forall i, i < length l -> nth i l dflt = nth i l' dflt) -> l = l'.
  Proof. intros HL H. apply (nth_ext l l' dflt dflt HL H). Qed.
End Nth.

(* nth of a three-part append *)
Lemma nth_app3 {A} (d : A) (a b c : list A) i :
  nth i (a ++ b ++ c) d =
  if Nat.ltb i (length a) then nth i a d
  else if Nat.ltb i (length a + length b) then nth (i - length a) b d
  else nth (i - length a - length b) c d.
Proof.
  destruct (Nat.ltb_spec i (length a)).
  - now rewrite app_nth1.
  - rewrite app_nth2 by lia. destruct (Nat.ltb_spec i (length a + length b)).
    + rewrite app_nth1 by lia. reflexivity.
    + rewrite app_nth2 by lia. reflexivity.
Qed.

(* ---------- byte-list operations ---------- *)

Lemma write_at_length d pos bs : pos <= length d ->
  length (write_at d pos bs) = Nat.max (length d) (pos + length bs).
Proof.
  intros H. unfold write_at. rewrite !app_length, firstn_length, skipn_length. lia.
Qed.

Lemma write_at_nil d pos : write_at d pos [] = d.
Proof. unfold write_at. cbn [length app]. rewrite Nat.add_0_r. apply firstn_skipn. Qed.

Lemma set_len_same d : set_len d (length d) = d.
Proof. unfold set_len. rewrite firstn_all, Nat.sub_diag. cbn [repeat]. apply app_nil_r. Qed.

Lemma set_len_length d n : length (set_len d n) = n.
Proof. unfold set_len. rewrite app_length, firstn_length, repeat_length. lia. Qed.

Lemma nth_write_at (d : bytes) pos bs i : pos <= length d ->
  nth i (write_at d pos bs) x00 =
  if Nat.ltb i pos then nth i d x00
  else if Nat.ltb i (pos + length bs) then nth (i - pos) bs x00
  else nth i d x00.
Proof.
  intros H. unfold write_at. rewrite nth_app3, firstn_length.
  replace (Nat.min pos (length d)) with pos by lia.
  destruct (Nat.ltb_spec i pos).
  - now apply nth_firstn_lt.
  - destruct (Nat.ltb_spec i (pos + length bs)); [reflexivity|].
    rewrite nth_skipn_add. f_equal. lia.
Qed.

(* undoing a (possibly torn) write: restoring the recorded old bytes and the old length *)
Lemma undo_write d pos bs j :
  pos <= length d ->
  set_len (write_at (write_at d pos (firstn j bs)) pos
                    (slice_of d pos (Nat.min (length d) (pos + length bs)))) (length d) = d.
Proof.
  intros Hpos. unfold slice_of.
  set (len := length d).
  set (t := firstn j bs). assert (Ht : length t <= length bs) by (unfold t; rewrite firstn_length; lia).
  set (old := firstn (Nat.min len (pos + length bs) - pos) (skipn pos d)).
  assert (Hold : length old = Nat.min len (pos + length bs) - pos).
  { unfold old. rewrite firstn_length, skipn_length. fold len. lia. }
  assert (Hy : length (write_at d pos t) = Nat.max len (pos + length t)) by (apply write_at_length; exact Hpos).
  assert (Hx : length (write_at (write_at d pos t) pos old) = Nat.max len (pos + length t)).
  { rewrite write_at_length by lia. lia. }
  apply (list_ext x00).
  - apply set_len_length.
  - rewrite set_len_length. intros i Hi. unfold set_len.
    rewrite app_nth1 by (rewrite firstn_length; lia).
    rewrite nth_firstn_lt by exact Hi.
    rewrite nth_write_at by lia.
    destruct (Nat.ltb_spec i pos) as [H1|H1].
    + rewrite nth_write_at by exact Hpos. destruct (Nat.ltb_spec i pos); [reflexivity|lia].
    + destruct (Nat.ltb_spec i (pos + length old)) as [H2|H2].
      * unfold old. rewrite nth_firstn_lt by lia. rewrite nth_skipn_add. f_equal. lia.
      * rewrite nth_write_at by exact Hpos.
        destruct (Nat.ltb_spec i pos); [lia|].
        destruct (Nat.ltb_spec i (pos + length t)); [lia|reflexivity].
Qed.

(* without growth the old length is already in place *)
Lemma undo_write_inplace d pos bs j :
  pos + length bs <= length d ->
  write_at (write_at d pos (firstn j bs)) pos (slice_of d pos (pos + length bs)) = d.
Proof.
  intros H.
  pose proof (undo_write d pos bs j ltac:(lia)) as U.
  replace (Nat.min (length d) (pos + length bs)) with (pos + length bs) in U by lia.
  set (x := write_at (write_at d pos (firstn j bs)) pos (slice_of d pos (pos + length bs))) in *.
  assert (L : length x = length d).
  { unfold x. rewrite write_at_length.
    - rewrite write_at_length by lia. unfold slice_of. rewrite !firstn_length, skipn_length. lia.
    - rewrite write_at_length by lia. lia. }
  rewrite <- L in U. rewrite set_len_same in U. exact U.
Qed.

Lemma undo_shrink d n : n <= length d -> write_at (set_len d n) n (skipn n d) = d.
Proof.
  intros H. unfold set_len, write_at.
  replace (n - length d) with 0 by lia. cbn [repeat]. rewrite app_nil_r.
  rewrite firstn_firstn. replace (Nat.min n n) with n by lia.
  rewrite skipn_length.
  rewrite (skipn_all2 (firstn n d)) by (rewrite firstn_length; lia).
  rewrite app_nil_r. apply firstn_skipn.
Qed.

Lemma undo_grow d n : length d <= n -> set_len (set_len d n) (length d) = d.
Proof.
  intros H. apply (list_ext x00).
  - apply set_len_length.
  - rewrite set_len_length. intros i Hi. unfold set_len.
    rewrite app_nth1 by (rewrite firstn_length, app_length, firstn_length, repeat_length; lia).
    rewrite nth_firstn_lt by exact Hi.
    rewrite app_nth1 by (rewrite firstn_length; lia).
    apply nth_firstn_lt. lia.
Qed.

(* ---------- the log: encoding, parsing ---------- *)

Definition ok_rec (r : nat * bytes) : Prop :=
  (N.of_nat (fst r) < two64)%N /\ (lenN (snd r) < two64)%N.

Definition encs (rs : list (nat * bytes)) : bytes :=
  concat (map (fun r => enc_rec (fst r) (snd r)) rs).

Definition incomplete (t : bytes) : Prop :=
  length t < 16 \/ (N.of_nat (length t - 16) < de (firstn 8 (skipn 8 t)))%N.

Lemma enc_rec_length p v : length (enc_rec p v) = 16 + length v.
Proof. unfold enc_rec. rewrite !app_length, !le64_length. lia. Qed.

Lemma encs_app a b : encs (a ++ b) = encs a ++ encs b.
Proof. unfold encs. now rewrite map_app, concat_app. Qed.

Lemma encs_cons r rs : encs (r :: rs) = enc_rec (fst r) (snd r) ++ encs rs.
Proof. reflexivity. Qed.

Lemma firstn_app_exact {A} (a b : list A) n : length a = n -> firstn n (a ++ b) = a.
Proof. intros <-. now rewrite firstn_app, Nat.sub_diag, firstn_all, firstn_O, app_nil_r. Qed.

Lemma skipn_app_exact {A} (a b : list A) n : length a = n -> skipn n (a ++ b) = b.
Proof. intros <-. now rewrite skipn_app, skipn_all, Nat.sub_diag. Qed.

Lemma parse_incomplete fuel t : incomplete t -> parse fuel t = [].
Proof.
  intros H. destruct fuel as [|f]; [reflexivity|]. cbn [parse].
  destruct (Nat.ltb_spec (length t) 16) as [|L]; [reflexivity|].
  destruct H as [H|H]; [lia|].
  destruct (N.ltb_spec (N.of_nat (length t - 16)) (de (firstn 8 (skipn 8 t)))); [reflexivity|lia].
Qed.

Lemma parse_step f p v rest :
  ok_rec (p, v) ->
  parse (S f) (enc_rec p v ++ rest) = (p, v) :: parse f rest.
Proof.
  intros [Hp Hv]. cbn [fst snd] in *. cbn [parse].
  assert (L : length (enc_rec p v ++ rest) = 16 + length v + length rest)
    by (rewrite app_length, enc_rec_length; lia).
  destruct (Nat.ltb_spec (length (enc_rec p v ++ rest)) 16); [lia|].
  unfold enc_rec in *. rewrite <- !app_assoc.
  rewrite (firstn_app_exact (le64 (N.of_nat p))) by apply le64_length.
  rewrite (skipn_app_exact (le64 (N.of_nat p))) by apply le64_length.
  rewrite (firstn_app_exact (le64 (lenN v))) by apply le64_length.
  rewrite !de_le64 by assumption.
  rewrite <- !app_assoc in L. rewrite L.
  destruct (N.ltb_spec (N.of_nat (16 + length v + length rest - 16)) (lenN v)) as [C|_].
  { unfold lenN in C. lia. }
  unfold lenN. rewrite !Nat2N.id.
  replace (le64 (N.of_nat p) ++ le64 (N.of_nat (length v)) ++ v ++ rest)
    with ((le64 (N.of_nat p) ++ le64 (N.of_nat (length v))) ++ v ++ rest) by now rewrite <- app_assoc.
  rewrite (skipn_app_exact (le64 (N.of_nat p) ++ le64 (N.of_nat (length v)))) by (rewrite app_length, !le64_length; reflexivity).
  rewrite (firstn_app_exact v) by reflexivity.
  f_equal.
  replace ((le64 (N.of_nat p) ++ le64 (N.of_nat (length v))) ++ v ++ rest)
    with (((le64 (N.of_nat p) ++ le64 (N.of_nat (length v))) ++ v) ++ rest) by now rewrite <- !app_assoc.
  rewrite skipn_app_exact by (rewrite !app_length, !le64_length; lia).
  reflexivity.
Qed.

Lemma parse_encs rs : Forall ok_rec rs ->
  forall t fuel, incomplete t -> length (encs rs ++ t) < fuel -> parse fuel (encs rs ++ t) = rs.
Proof.
  induction 1 as [|r rs Hr _ IH]; intros t fuel Ht Hf.
  - cbn [encs map concat app]. now apply parse_incomplete.
  - destruct fuel as [|f]; [lia|]. destruct r as [p v]. rewrite encs_cons. cbn [fst snd].
    rewrite <- app_assoc, parse_step by exact Hr. f_equal. apply IH; [exact Ht|].
    rewrite encs_cons in Hf. cbn [fst snd] in Hf. rewrite <- app_assoc, app_length, enc_rec_length in Hf. lia.
Qed.

Lemma records_encs rs t : Forall ok_rec rs -> incomplete t -> records (encs rs ++ t) = rs.
Proof. intros H Ht. unfold records. apply parse_encs; [exact H|exact Ht|lia]. Qed.

Lemma incomplete_nil : incomplete [].
Proof. left. cbn. lia. Qed.

Lemma prefix_incomplete p v m : ok_rec (p, v) -> m < length (enc_rec p v) -> incomplete (firstn m (enc_rec p v)).
Proof.
  intros [_ Hv] Hm. cbn [snd] in Hv. rewrite enc_rec_length in Hm. unfold incomplete.
  rewrite firstn_length, enc_rec_length.
  destruct (Nat.ltb_spec m 16) as [L|L]; [left; lia|right].
  replace (Nat.min m (16 + length v)) with m by lia.
  unfold enc_rec.
  (* the first 16 bytes are intact *)
  replace m with (8 + (8 + (m - 16))) at 2 by lia.
  rewrite (firstn_app (8 + (8 + (m - 16)))), le64_length.
  rewrite (firstn_all2 (le64 (N.of_nat p))) by (rewrite le64_length; lia).
  rewrite (skipn_app_exact (le64 (N.of_nat p))) by apply le64_length.
  replace (8 + (8 + (m - 16)) - 8) with (8 + (m - 16)) by lia.
  rewrite firstn_app, le64_length.
  rewrite (firstn_all2 (le64 (lenN v))) by (rewrite le64_length; lia).
  rewrite (firstn_app_exact (le64 (lenN v))) by apply le64_length.
  rewrite de_le64 by exact Hv. unfold lenN. lia.
Qed.

(* ---------- crash states of one logging sequence ---------- *)

Lemma run_calls_app st a b : run_calls st (a ++ b) = run_calls (run_calls st a) b.
Proof. unfold run_calls. apply fold_left_app. Qed.

Lemma crash_app st a b k j :
  crash st (a ++ b) k j =
  if Nat.ltb k (length a) then crash st a k j else crash (run_calls st a) b (k - length a) j.
Proof.
  unfold crash. destruct (Nat.ltb_spec k (length a)) as [H|H].
  - rewrite firstn_app. replace (k - length a) with 0 by lia. cbn [firstn]. rewrite app_nil_r.
    rewrite nth_error_app1 by exact H. reflexivity.
  - rewrite firstn_app, (firstn_all2 a) by lia. rewrite run_calls_app.
    rewrite nth_error_app2 by exact H. reflexivity.
Qed.

Lemma crash_all st cs k j : length cs <= k -> crash st cs k j = run_calls st cs.
Proof.
  intros H. unfold crash. rewrite firstn_all2 by exact H.
  destruct (nth_error cs k) eqn:E; [|reflexivity].
  exfalso. assert (N : nth_error cs k <> None) by congruence. apply nth_error_Some in N. lia.
Qed.

Lemma firstn_min_len {A} (l : list A) j : firstn (Nat.min j (length l)) l = firstn j l.
Proof.
  destruct (Nat.le_ge_cases j (length l)).
  - now replace (Nat.min j (length l)) with j by lia.
  - replace (Nat.min j (length l)) with (length l) by lia. now rewrite firstn_all, firstn_all2.
Qed.

Lemma log_done st p v :
  run_calls st (log_calls p v) = {| data := data st; wal := wal st ++ enc_rec p v |}.
Proof. unfold run_calls, log_calls, enc_rec. cbn [fold_left apply_sys data wal]. now rewrite <- !app_assoc. Qed.

Lemma firstn_app_len {A} (a b : list A) n x : length a = n -> firstn (n + x) (a ++ b) = a ++ firstn x b.
Proof. intros <-. apply firstn_app_2. Qed.

Lemma firstn_short {A} (a b : list A) j : firstn (Nat.min j (length a)) (a ++ b) = firstn j a.
Proof.
  rewrite firstn_app. replace (Nat.min j (length a) - length a) with 0 by lia. cbn [firstn].
  rewrite app_nil_r. apply firstn_min_len.
Qed.

Lemma log_crash st p v k j : k < 3 ->
  exists m, crash st (log_calls p v) k j = {| data := data st; wal := wal st ++ firstn m (enc_rec p v) |}.
Proof.
  intros Hk. unfold crash, log_calls, enc_rec.
  pose proof (le64_length (N.of_nat p)) as L1. pose proof (le64_length (lenN v)) as L2.
  destruct k as [|[|[|k]]]; [| | |lia]; cbn [firstn nth_error run_calls fold_left apply_sys apply_torn data wal].
  - exists (Nat.min j (length (le64 (N.of_nat p)))). now rewrite firstn_short.
  - exists (8 + Nat.min j (length (le64 (lenN v)))). rewrite <- app_assoc. do 2 f_equal.
    rewrite (firstn_app_len (le64 (N.of_nat p))) by exact L1. f_equal. now rewrite firstn_short.
  - exists (8 + (8 + Nat.min j (length v))). rewrite <- !app_assoc. do 2 f_equal.
    rewrite (firstn_app_len (le64 (N.of_nat p))) by exact L1. f_equal.
    rewrite (firstn_app_len (le64 (lenN v))) by exact L2. f_equal. symmetry. apply firstn_min_len.
Qed.

(* ---------- the invariant ---------- *)

Definition replay_nf (rs : list (nat * bytes)) (d : bytes) : bytes := fold_left apply_rec (rev rs) d.

Lemma replay_nf_app a b d : replay_nf (a ++ b) d = replay_nf a (replay_nf b d).
Proof. unfold replay_nf. now rewrite rev_app_distr, fold_left_app. Qed.

Definition Good (d0 : bytes) (st : fstate) : Prop :=
  exists rs, wal st = encs rs /\ Forall ok_rec rs /\ replay_nf rs (data st) = d0.

Definition Safe (d0 : bytes) (st : fstate) : Prop :=
  recover walrev_fixed st = {| data := d0; wal := [] |}.

Lemma safe_tail d0 st rs t :
  wal st = encs rs ++ t -> incomplete t -> Forall ok_rec rs -> replay_nf rs (data st) = d0 -> Safe d0 st.
Proof.
  intros Hw Ht Hok Hr. unfold Safe, recover, replay. cbn [w_newest_first walrev_fixed].
  rewrite Hw, records_encs by assumption. unfold replay_nf in Hr. now rewrite Hr.
Qed.

Lemma good_safe d0 st : Good d0 st -> Safe d0 st.
Proof.
  intros (rs & Hw & Hok & Hr). apply (safe_tail d0 st rs []); [now rewrite app_nil_r|apply incomplete_nil|exact Hok|exact Hr].
Qed.

(* a record that describes the current content may be appended (completely or torn) *)
Lemma log_safe d0 st p v k j :
  Good d0 st -> ok_rec (p, v) -> apply_rec (data st) (p, v) = data st -> k < 3 ->
  Safe d0 (crash st (log_calls p v) k j).
Proof.
  intros (rs & Hw & Hok & Hr) Hpv Hsame Hk.
  destruct (log_crash st p v k j Hk) as [m ->].
  destruct (Nat.ltb_spec m (length (enc_rec p v))) as [Hm|Hm].
  - apply (safe_tail d0 _ rs (firstn m (enc_rec p v))); cbn [data wal];
      [now rewrite Hw|now apply prefix_incomplete|exact Hok|exact Hr].
  - rewrite firstn_all2 by exact Hm.
    apply (safe_tail d0 _ (rs ++ [(p, v)]) []); cbn [data wal].
    + rewrite Hw, encs_app, app_nil_r. cbn [encs map concat fst snd]. now rewrite app_nil_r.
    + apply incomplete_nil.
    + apply Forall_app; split; [exact Hok|now constructor].
    + rewrite replay_nf_app. unfold replay_nf at 2. cbn [rev app fold_left]. rewrite Hsame. exact Hr.
Qed.

Lemma log_good d0 st p v :
  Good d0 st -> ok_rec (p, v) -> apply_rec (data st) (p, v) = data st ->
  Good d0 (run_calls st (log_calls p v)).
Proof.
  intros (rs & Hw & Hok & Hr) Hpv Hsame. rewrite log_done. exists (rs ++ [(p, v)]). cbn [data wal]. repeat split.
  - rewrite Hw, encs_app. cbn [encs map concat fst snd]. now rewrite app_nil_r.
  - apply Forall_app; split; [exact Hok|now constructor].
  - rewrite replay_nf_app. unfold replay_nf at 2. cbn [rev app fold_left]. rewrite Hsame. exact Hr.
Qed.

(* Good is about the log being a valid undo log of the current data; the data call that follows
   must be undone by the records appended for it *)
Lemma good_data_call d0 st (extra : list (nat * bytes)) (rs : list (nat * bytes)) d' :
  wal st = encs (rs ++ extra) -> Forall ok_rec (rs ++ extra) ->
  replay_nf extra d' = replay_nf extra (data st) -> replay_nf (rs ++ extra) (data st) = d0 ->
  Good d0 {| data := d'; wal := wal st |}.
Proof.
  intros Hw Hok Hu Hr. exists (rs ++ extra). cbn [data wal]. repeat split; [exact Hw|exact Hok|].
  rewrite replay_nf_app in *. now rewrite Hu.
Qed.

(* ---------- one operation ---------- *)

Definition bound : N := 1152921504606846976.   (* 2^60 *)

Fixpoint wp (d : bytes) (ops : list op) : Prop :=
  (N.of_nat (length d) < bound)%N /\
  match ops with
  | [] => True
  | OWrite pos bs :: r => pos <= length d /\ wp (write_at d pos bs) r
  | OResize n :: r => wp (set_len d n) r
  | OFlush :: r => wp d r
  end.

Lemma wp_bound d ops : wp d ops -> (N.of_nat (length d) < bound)%N.
Proof. destruct ops; intros H; apply H. Qed.

Definition next_data (d : bytes) (o : op) : bytes :=
  match o with
  | OWrite pos bs => write_at d pos bs
  | OResize n => set_len d n
  | OFlush => d
  end.

Lemma run_log_data st p v : data (run_calls st (log_calls p v)) = data st.
Proof. now rewrite log_done. Qed.

Lemma small_ok p (v : bytes) : (N.of_nat p < bound)%N -> (N.of_nat (length v) < bound)%N -> ok_rec (p, v).
Proof. unfold ok_rec, bound, two64, lenN. cbn [fst snd]. lia. Qed.

Lemma slice_of_length d a b : b <= length d -> length (slice_of d a b) = b - a.
Proof. intros H. unfold slice_of. rewrite firstn_length, skipn_length. lia. Qed.

Lemma write_at_same d pos e : pos <= e -> e <= length d -> write_at d pos (slice_of d pos e) = d.
Proof.
  intros H1 H2. apply (list_ext x00).
  - rewrite write_at_length by lia. rewrite slice_of_length by lia. lia.
  - intros i Hi. rewrite nth_write_at by lia. rewrite slice_of_length by lia.
    destruct (Nat.ltb_spec i pos); [reflexivity|].
    destruct (Nat.ltb_spec i (pos + (e - pos))); [|reflexivity].
    unfold slice_of. rewrite nth_firstn_lt by lia. rewrite nth_skipn_add. f_equal. lia.
Qed.

Lemma apply_rec_nonempty d p (v : bytes) : 0 < length v -> apply_rec d (p, v) = write_at d p v.
Proof. destruct v; cbn [length]; [lia|reflexivity]. Qed.
Lemma apply_rec_nil d p : apply_rec d (p, []) = set_len d p.
Proof. reflexivity. Qed.
Lemma length_zero_nil {A} (l : list A) : length l = 0 -> l = [].
Proof. destruct l; [reflexivity|discriminate]. Qed.

(* the result of one complete operation and the safety of all its crash cuts *)
Lemma op_write d0 st pos bs :
  Good d0 st -> pos <= length (data st) -> (N.of_nat (length (data st)) < bound)%N ->
  (N.of_nat (length (write_at (data st) pos bs)) < bound)%N ->
  let cs := calls_of walrev_fixed (data st) (OWrite pos bs) in
  (forall k j, Safe d0 (crash st cs k j)) /\
  Good d0 (run_calls st cs) /\ data (run_calls st cs) = write_at (data st) pos bs.
Proof.
  intros HG Hpos Hb Hb2 cs. subst cs. set (d := data st) in *. set (len := length d) in *.
  unfold calls_of. cbn [w_skip_empty w_log_growth walrev_fixed andb]. fold d. fold len.
  destruct bs as [|b0 bs'] eqn:Ebs.
  { (* empty write: no calls *)
    cbn [length]. split; [|split].
    - intros k j. rewrite crash_all by (cbn; lia). cbn. now apply good_safe.
    - exact HG.
    - cbn. fold d. now rewrite write_at_nil. }
  rewrite <- Ebs in *. assert (Hne : 0 < length bs) by (rewrite Ebs; cbn; lia). clear Ebs b0 bs'.
  set (e := pos + length bs) in *.
  set (old := slice_of d pos (Nat.min len e)).
  assert (Hnew : length (write_at d pos bs) = Nat.max len e) by (apply write_at_length; exact Hpos).
  assert (Hold : length old = Nat.min len e - pos) by (unfold old; apply slice_of_length; lia).
  assert (OKold : ok_rec (pos, old)) by (apply small_ok; rewrite ?Hold; lia).
  assert (OKlen : ok_rec (len, [])) by (apply small_ok; cbn [length]; unfold bound in *; lia).
  assert (SameOld : apply_rec d (pos, old) = d).
  { destruct (Nat.eq_dec (length old) 0) as [Z|Z].
    - rewrite (length_zero_nil old Z), apply_rec_nil. assert (pos = len) by lia. subst pos. apply set_len_same.
    - rewrite apply_rec_nonempty by lia. unfold old. apply write_at_same; lia. }
  assert (SameLen : apply_rec d (len, []) = d) by (cbn; apply set_len_same).
  (* the undo of a torn data write *)
  assert (Undo : forall j extra,
             extra = (if Nat.ltb pos len && Nat.ltb len e then [(len, [])] else []) ++ [(pos, old)] ->
             replay_nf extra (write_at d pos (firstn j bs)) = d).
  { intros j extra ->. pose proof (undo_write d pos bs j Hpos) as U. fold len e old in U.
    destruct (Nat.ltb_spec pos len) as [P|P]; destruct (Nat.ltb_spec len e) as [Q|Q]; cbn [andb app].
    - (* straddling *)
      unfold replay_nf. cbn [rev app fold_left].
      rewrite (apply_rec_nonempty _ pos old) by lia. rewrite apply_rec_nil. exact U.
    - (* in place *)
      unfold replay_nf. cbn [rev app fold_left].
      rewrite apply_rec_nonempty by lia.
      pose proof (undo_write_inplace d pos bs j ltac:(fold len e; lia)) as V.
      unfold old. replace (Nat.min len e) with e by lia. exact V.
    - (* append at the end *)
      assert (pos = len) by lia. subst pos.
      unfold replay_nf. cbn [rev app fold_left].
      assert (Z : old = []) by (apply length_zero_nil; lia).
      rewrite Z in *. rewrite apply_rec_nil. rewrite write_at_nil in U. exact U.
    - lia. }
  set (growth := Nat.ltb pos len && Nat.ltb len e) in *.
  set (La := if growth then log_calls len [] else []).
  set (sta := run_calls st La).
  assert (Ga : Good d0 sta /\ data sta = d).
  { unfold sta, La. destruct growth; [|split; [exact HG|reflexivity]].
    split; [apply log_good; assumption|apply run_log_data]. }
  destruct Ga as [Ga Da].
  set (stb := run_calls sta (log_calls pos old)).
  assert (Gb : Good d0 stb) by (apply log_good; [exact Ga|exact OKold|rewrite Da; exact SameOld]).
  assert (Db : data stb = d) by (unfold stb; rewrite run_log_data; exact Da).
  (* the log after both sequences *)
  destruct HG as (rs & Hw & Hok & Hr).
  set (extra := (if growth then [(len, [])] else []) ++ [(pos, old)]).
  assert (Wb : wal stb = encs (rs ++ extra)).
  { unfold stb, sta, La, extra. rewrite log_done. cbn [wal]. destruct growth.
    - rewrite log_done. cbn [wal]. rewrite Hw, !encs_app. cbn [encs map concat fst snd app]. now rewrite !app_nil_r, <- app_assoc.
    - cbn [run_calls fold_left]. rewrite Hw, encs_app. cbn [encs map concat fst snd app]. now rewrite app_nil_r. }
  assert (OKb : Forall ok_rec (rs ++ extra)).
  { apply Forall_app; split; [exact Hok|]. unfold extra.
    destruct growth; cbn [app]; [apply Forall_cons; [exact OKlen|]|]; (apply Forall_cons; [exact OKold|apply Forall_nil]). }
  assert (Rb : replay_nf (rs ++ extra) d = d0).
  { rewrite replay_nf_app. replace (replay_nf extra d) with d; [exact Hr|].
    unfold extra. destruct growth; unfold replay_nf; cbn [rev app fold_left]; now rewrite ?SameOld, ?SameLen. }
  assert (Torn : forall j, Good d0 {| data := write_at d pos (firstn j bs); wal := wal stb |}).
  { intros j. apply (good_data_call d0 stb extra rs); [exact Wb|exact OKb| |rewrite Db; exact Rb].
    rewrite Db. rewrite (Undo j extra eq_refl).
    unfold extra. destruct growth; unfold replay_nf; cbn [rev app fold_left]; now rewrite ?SameOld, ?SameLen. }
  assert (Full : run_calls stb [DataWrite pos bs] = {| data := write_at d pos bs; wal := wal stb |}).
  { cbn [run_calls fold_left apply_sys]. now rewrite Db. }
  split; [|split].
  - intros k j. change (calls_of walrev_fixed d (OWrite pos bs)) with (calls_of walrev_fixed d (OWrite pos bs)).
    rewrite crash_app. fold La.
    destruct (Nat.ltb_spec k (length La)) as [Ka|Ka].
    + unfold La in *. destruct growth; [|cbn in Ka; lia].
      apply log_safe; [exists rs; auto|exact OKlen|exact SameLen|cbn in Ka; lia].
    + fold sta. rewrite crash_app.
      destruct (Nat.ltb_spec (k - length La) (length (log_calls pos old))) as [Kb|Kb].
      * apply log_safe; [exact Ga|exact OKold|rewrite Da; exact SameOld|cbn in Kb; lia].
      * fold stb. set (k2 := k - length La - length (log_calls pos old)).
        destruct k2 as [|k2'] eqn:E2.
        -- unfold crash. cbn [firstn nth_error run_calls fold_left apply_torn]. rewrite Db.
           apply good_safe, Torn.
        -- rewrite crash_all by (cbn; lia). rewrite Full.
           apply good_safe. specialize (Torn (length bs)). now rewrite firstn_all in Torn.
  - rewrite !run_calls_app. fold La sta stb. rewrite Full.
    specialize (Torn (length bs)). now rewrite firstn_all in Torn.
  - rewrite !run_calls_app. fold La sta stb. now rewrite Full.
Qed.

Lemma op_resize d0 st n :
  Good d0 st -> (N.of_nat (length (data st)) < bound)%N -> (N.of_nat n < bound)%N ->
  let cs := calls_of walrev_fixed (data st) (OResize n) in
  (forall k j, Safe d0 (crash st cs k j)) /\
  Good d0 (run_calls st cs) /\ data (run_calls st cs) = set_len (data st) n.
Proof.
  intros HG Hb Hn cs. subst cs. set (d := data st) in *. set (len := length d) in *.
  unfold calls_of. cbn [w_log_growth walrev_fixed]. fold d. fold len.
  (* the single undo record of a resize *)
  set (r := if Nat.ltb n len then (n, skipn n d) else (len, @nil byte)).
  assert (Ecalls : (if Nat.ltb n len then log_calls n (skipn n d) else log_calls len []) = log_calls (fst r) (snd r))
    by (unfold r; destruct (Nat.ltb n len); reflexivity).
  rewrite Ecalls.
  assert (OKr : ok_rec r).
  { unfold r. destruct (Nat.ltb_spec n len); apply small_ok; cbn [length]; rewrite ?skipn_length; unfold bound in *; lia. }
  assert (Same : apply_rec d r = d).
  { unfold r. destruct (Nat.ltb_spec n len) as [L|L].
    - rewrite apply_rec_nonempty by (rewrite skipn_length; fold len; lia).
      unfold write_at. rewrite skipn_length. fold len.
      replace (n + (len - n)) with (length d) by (fold len; lia). rewrite skipn_all.
      rewrite app_nil_r. apply firstn_skipn.
    - rewrite apply_rec_nil. apply set_len_same. }
  assert (Undo : apply_rec (set_len d n) r = d).
  { unfold r. destruct (Nat.ltb_spec n len) as [L|L].
    - rewrite apply_rec_nonempty by (rewrite skipn_length; fold len; lia). apply undo_shrink. fold len. lia.
    - rewrite apply_rec_nil. apply undo_grow. fold len. lia. }
  set (sta := run_calls st (log_calls (fst r) (snd r))).
  assert (Ga : Good d0 sta) by (apply log_good; [exact HG|destruct r; exact OKr|destruct r; exact Same]).
  assert (Da : data sta = d) by apply run_log_data.
  destruct HG as (rs & Hw & Hok & Hr).
  assert (Wa : wal sta = encs (rs ++ [r])).
  { unfold sta. rewrite log_done. cbn [wal]. rewrite Hw, encs_app. cbn [encs map concat]. now rewrite app_nil_r. }
  assert (After : Good d0 {| data := set_len d n; wal := wal sta |}).
  { exists (rs ++ [r]). cbn [data wal]. repeat split; [exact Wa|apply Forall_app; split; [exact Hok|now constructor]|].
    rewrite replay_nf_app. unfold replay_nf at 2. cbn [rev app fold_left]. rewrite Undo. exact Hr. }
  assert (Full : run_calls sta [DataSetLen n] = {| data := set_len d n; wal := wal sta |}).
  { cbn [run_calls fold_left apply_sys]. now rewrite Da. }
  split; [|split].
  - intros k j. rewrite crash_app.
    destruct (Nat.ltb_spec k (length (log_calls (fst r) (snd r)))) as [K|K].
    + apply log_safe; [exists rs; auto|destruct r; exact OKr|destruct r; exact Same|cbn in K; lia].
    + fold sta. destruct (k - length (log_calls (fst r) (snd r))) as [|k2] eqn:E2.
      * unfold crash. cbn [firstn nth_error run_calls fold_left apply_torn]. now apply good_safe.
      * rewrite crash_all by (cbn; lia). rewrite Full. now apply good_safe.
  - rewrite run_calls_app. fold sta. rewrite Full. exact After.
  - rewrite run_calls_app. fold sta. now rewrite Full.
Qed.

Lemma op_flush d0 st :
  Good d0 st ->
  let cs := calls_of walrev_fixed (data st) OFlush in
  (forall j, Safe d0 (crash st cs 0 j)) /\
  Good (data st) (run_calls st cs) /\ data (run_calls st cs) = data st.
Proof.
  intros HG cs. subst cs. cbn [calls_of]. split; [|split].
  - intros j. unfold crash. cbn. now apply good_safe.
  - cbn [run_calls fold_left apply_sys]. exists []. cbn [data wal]. repeat split; constructor.
  - reflexivity.
Qed.

(* ---------- all operation lists, all cuts ---------- *)

(* the committed content a crash at call index k must recover: the content at the last
   flush completed before the cut *)
Fixpoint expect (d0 : bytes) (st : fstate) (ops : list op) (k : nat) : bytes :=
  match ops with
  | [] => d0
  | o :: r =>
    let cs := calls_of walrev_fixed (data st) o in
    if Nat.ltb k (length cs) then d0
    else
      let st' := run_calls st cs in
      expect (match o with OFlush => data st' | _ => d0 end) st' r (k - length cs)
  end.

Theorem recover_restores : forall ops st d0 k j,
  Good d0 st -> wp (data st) ops ->
  Safe (expect d0 st ops k) (crash st (trace walrev_fixed st ops) k j).
Proof.
  induction ops as [|o r IH]; intros st d0 k j HG Hwp.
  - cbn [trace expect]. rewrite crash_all by (cbn; lia). cbn. now apply good_safe.
  - cbn [trace expect]. rewrite crash_app.
    set (cs := calls_of walrev_fixed (data st) o).
    destruct (Nat.ltb_spec k (length cs)) as [K|K].
    + destruct o as [pos bs|n|].
      * destruct Hwp as (Hb & Hpos & Hnext).
        apply (op_write d0 st pos bs HG Hpos Hb (wp_bound _ _ Hnext)).
      * destruct Hwp as (Hb & Hnext).
        pose proof (wp_bound _ _ Hnext) as B. rewrite set_len_length in B.
        apply (op_resize d0 st n HG Hb B).
      * unfold cs in K. cbn in K. assert (k = 0) by lia. subst k.
        apply (op_flush d0 st HG).
    + destruct o as [pos bs|n|].
      * destruct Hwp as (Hb & Hpos & Hnext).
        destruct (op_write d0 st pos bs HG Hpos Hb (wp_bound _ _ Hnext)) as (_ & G' & D').
        apply IH; [exact G'|]. fold cs in D'. rewrite D'. exact Hnext.
      * destruct Hwp as (Hb & Hnext).
        pose proof (wp_bound _ _ Hnext) as B. rewrite set_len_length in B.
        destruct (op_resize d0 st n HG Hb B) as (_ & G' & D').
        apply IH; [exact G'|]. fold cs in D'. rewrite D'. exact Hnext.
      * destruct Hwp as (Hb & Hnext).
        destruct (op_flush d0 st HG) as (_ & G' & D').
        apply IH; [exact G'|]. fold cs in D'. rewrite D'. exact Hnext.
Qed.

(* starting from a committed file with an empty log *)
Corollary recover_from_committed d0 ops k j :
  wp d0 ops ->
  recover walrev_fixed (crash {| data := d0; wal := [] |} (trace walrev_fixed {| data := d0; wal := [] |} ops) k j)
  = {| data := expect d0 {| data := d0; wal := [] |} ops k; wal := [] |}.
Proof.
  intros H. apply recover_restores; [|exact H].
  exists []. cbn [data wal]. repeat split; constructor.
Qed.

(* a transaction without flush: every cut recovers the content before it *)
Fixpoint no_flush (ops : list op) : bool :=
  match ops with [] => true | OFlush :: _ => false | _ :: r => no_flush r end.

Lemma expect_no_flush ops : no_flush ops = true -> forall d0 st k, expect d0 st ops k = d0.
Proof.
  induction ops as [|o r IH]; intros H d0 st k; cbn [expect]; [reflexivity|].
  destruct (Nat.ltb k (length (calls_of walrev_fixed (data st) o))); [reflexivity|].
  destruct o; cbn [no_flush] in H; try discriminate; apply IH; exact H.
Qed.

(* ---------- the defects of the pre-fix code ---------- *)
Definition st0 (d : bytes) := {| data := d; wal := [] |}.

(* (a) records replayed oldest first: a region written twice keeps its intermediate content *)
Lemma pinned_replay_order :
  let d0 := [x01; x02; x03; x04] in
  let ops := [OWrite 1 [x0a]; OWrite 1 [x0b]] in
  let rv := {| w_newest_first := false; w_log_growth := true; w_skip_empty := true |} in
  data (recover rv (crash (st0 d0) (trace rv (st0 d0) ops) 8 0)) = [x01; x0a; x03; x04].
Proof. vm_compute. reflexivity. Qed.

(* (b) growing the file is not undone *)
Lemma pinned_growth :
  let d0 := [x01; x02] in
  let rv := {| w_newest_first := true; w_log_growth := false; w_skip_empty := true |} in
  data (recover rv (crash (st0 d0) (trace rv (st0 d0) [OResize 4]) 4 0)) = [x01; x02; x00; x00].
Proof. vm_compute. reflexivity. Qed.

(* (c) an empty write inside the file truncates it at recovery *)
Lemma pinned_empty_write :
  let d0 := [x01; x02; x03; x04] in
  let rv := {| w_newest_first := true; w_log_growth := true; w_skip_empty := false |} in
  data (recover rv (crash (st0 d0) (trace rv (st0 d0) [OWrite 2 []]) 4 0)) = [x01; x02].
Proof. vm_compute. reflexivity. Qed.

(* non-vacuity: a transaction with in-place, straddling and appending writes, shrink and growth *)
Example wp_example :
  let d0 := [x01; x02; x03; x04; x05; x06] in
  let ops := [OWrite 1 [x0a; x0b]; OWrite 5 [x0c; x0d; x0e]; OResize 3; OWrite 3 [x0f]; OResize 9; OWrite 2 []] in
  wp d0 ops /\ no_flush ops = true /\
  forall k j, k <= 30 -> j <= 3 ->
    recover walrev_fixed (crash (st0 d0) (trace walrev_fixed (st0 d0) ops) k j) = st0 d0.
Proof.
  cbv zeta. split; [|split].
  - cbn [wp length write_at set_len firstn skipn app Nat.add Nat.sub repeat]. unfold bound. repeat split; lia.
  - reflexivity.
  - intros k j Hk Hj.
    assert (W : wp [x01; x02; x03; x04; x05; x06]
                   [OWrite 1 [x0a; x0b]; OWrite 5 [x0c; x0d; x0e]; OResize 3; OWrite 3 [x0f]; OResize 9; OWrite 2 []]).
    { cbn [wp length write_at set_len firstn skipn app Nat.add Nat.sub repeat]. unfold bound. repeat split; lia. }
    unfold st0. rewrite (recover_from_committed _ _ k j W). f_equal. now apply expect_no_flush.
Qed.
