(* FileWalProofs.v — C01: recovery restores the committed content at every crash cut *)
From Agdb Require Import Bytes BytesProofs FileWal.
From Coq Require Import ZifyBool ZifyNat ZifyN.
Ltac Zify.zify_post_hook ::= Z.div_mod_to_equations.
Open Scope nat_scope.
Arguments N.of_nat : simpl never.
Arguments N.to_nat : simpl never.
Arguments N.ltb : simpl never.

(* ---------- nth toolkit ---------- *)
Section Nth.
  Context {A : Type} (dflt : A).
  Lemma nth_firstn_lt (l : list A) n i : i < n -> nth i (firstn n l) dflt = nth i l dflt.
  Proof.
    revert n i; induction l as [|x l IH]; intros [|n] [|i] H; cbn [firstn nth]; try reflexivity; try lia.
    apply IH. lia.
  Qed.
  Lemma nth_skipn_add (l : list A) n i : nth i (skipn n l) dflt = nth (n + i) l dflt.
  Proof.
    revert n; induction l as [|x l IH]; intros [|n]; cbn [skipn nth Nat.add]; try reflexivity.
    - destruct i; reflexivity.
    - apply IH.
  Qed.
  Lemma list_ext (l l' : list A) :
    length l = length l' -> (forall i, i < length l -> nth i l dflt = nth i l' dflt) -> l = l'.
  Proof. intros HL H. apply (nth_ext l l' dflt dflt HL H). Qed.
End Nth.

(* nth of a three-part append *)
Lemma nth_app3 {A} (d : A) (a b c : list A) i :
  nth i (a ++ b ++ c) d =
  if Nat.ltb i (length a) then nth i a d
  else if Nat.ltb i (length a + length b) then nth (i - length a) b d
  else nth (i - length a - length b) c d.
Proof.
  destruct (Nat.ltb_spec i (length a)).
  - now rewrite app_nth1.
  - rewrite app_nth2 by lia. destruct (Nat.ltb_spec i (length a + length b)).
    + rewrite app_nth1 by lia. reflexivity.
    + rewrite app_nth2 by lia. reflexivity.
Qed.

(* ---------- byte-list operations ---------- *)

Lemma write_at_length d pos bs : pos <= length d ->
  length (write_at d pos bs) = Nat.max (length d) (pos + length bs).
Proof.
  intros H. unfold write_at. rewrite !app_length, firstn_length, skipn_length. lia.
Qed.

Lemma write_at_nil d pos : write_at d pos [] = d.
Proof. unfold write_at. cbn [length app]. rewrite Nat.add_0_r. apply firstn_skipn. Qed.

Lemma set_len_same d : set_len d (length d) = d.
Proof. unfold set_len. rewrite firstn_all, Nat.sub_diag. cbn [repeat]. apply app_nil_r. Qed.

Lemma set_len_length d n : length (set_len d n) = n.
Proof. unfold set_len. rewrite app_length, firstn_length, repeat_length. lia. Qed.

Lemma nth_write_at (d : bytes) pos bs i : pos <= length d ->
  nth i (write_at d pos bs) x00 =
  if Nat.ltb i pos then nth i d x00
  else if Nat.ltb i (pos + length bs) then nth (i - pos) bs x00
  else nth i d x00.
Proof.
  intros H. unfold write_at. rewrite nth_app3, firstn_length.
  replace (Nat.min pos (length d)) with pos by lia.
  destruct (Nat.ltb_spec i pos).
  - now apply nth_firstn_lt.
  - destruct (Nat.ltb_spec i (pos + length bs)); [reflexivity|].
    rewrite nth_skipn_add. f_equal. lia.
Qed.

(* undoing a (possibly torn) write: restoring the recorded old bytes and the old length *)
Lemma undo_write d pos bs j :
  pos <= length d ->
  set_len (write_at (write_at d pos (firstn j bs)) pos
                    (slice_of d pos (Nat.min (length d) (pos + length bs)))) (length d) = d.
Proof.
  intros Hpos. unfold slice_of.
  set (len := length d).
  set (t := firstn j bs). assert (Ht : length t <= length bs) by (unfold t; rewrite firstn_length; lia).
  set (old := firstn (Nat.min len (pos + length bs) - pos) (skipn pos d)).
  assert (Hold : length old = Nat.min len (pos + length bs) - pos).
  { unfold old. rewrite firstn_length, skipn_length. fold len. lia. }
  assert (Hy : length (write_at d pos t) = Nat.max len (pos + length t)) by (apply write_at_length; exact Hpos).
  assert (Hx : length (write_at (write_at d pos t) pos old) = Nat.max len (pos + length t)).
  { rewrite write_at_length by lia. lia. }
  apply (list_ext x00).
  - apply set_len_length.
  - rewrite set_len_length. intros i Hi. unfold set_len.
    rewrite app_nth1 by (rewrite firstn_length; lia).
    rewrite nth_firstn_lt by exact Hi.
    rewrite nth_write_at by lia.
    destruct (Nat.ltb_spec i pos) as [H1|H1].
    + rewrite nth_write_at by exact Hpos. destruct (Nat.ltb_spec i pos); [reflexivity|lia].
    + destruct (Nat.ltb_spec i (pos + length old)) as [H2|H2].
      * unfold old. rewrite nth_firstn_lt by lia. rewrite nth_skipn_add. f_equal. lia.
      * rewrite nth_write_at by exact Hpos.
        destruct (Nat.ltb_spec i pos); [lia|].
        destruct (Nat.ltb_spec i (pos + length t)); [lia|reflexivity].
Qed.

(* without growth the old length is already in place *)
Lemma undo_write_inplace d pos bs j :
  pos + length bs <= length d ->
  write_at (write_at d pos (firstn j bs)) pos (slice_of d pos (pos + length bs)) = d.
Proof.
  intros H.
  pose proof (undo_write d pos bs j ltac:(lia)) as U.
  replace (Nat.min (length d) (pos + length bs)) with (pos + length bs) in U by lia.
  set (x := write_at (write_at d pos (firstn j bs)) pos (slice_of d pos (pos + length bs))) in *.
  assert (L : length x = length d).
  { unfold x. rewrite write_at_length.
    - rewrite write_at_length by lia. unfold slice_of. rewrite !firstn_length, skipn_length. lia.
    - rewrite write_at_length by lia. lia. }
  rewrite <- L in U. rewrite set_len_same in U. exact U.
Qed.

Lemma undo_shrink d n : n <= length d -> write_at (set_len d n) n (skipn n d) = d.
Proof.
  intros H. unfold set_len, write_at.
  replace (n - length d) with 0 by lia. cbn [repeat]. rewrite app_nil_r.
  rewrite firstn_firstn. replace (Nat.min n n) with n by lia.
  rewrite skipn_length.
  rewrite (skipn_all2 (firstn n d)) by (rewrite firstn_length; lia).
  rewrite app_nil_r. apply firstn_skipn.
Qed.

Lemma undo_grow d n : length d <= n -> set_len (set_len d n) (length d) = d.
Proof.
  intros H. apply (list_ext x00).
  - apply set_len_length.
  - rewrite set_len_length. intros i Hi. unfold set_len.
    rewrite app_nth1 by (rewrite firstn_length, app_length, firstn_length, repeat_length; lia).
    rewrite nth_firstn_lt by exact Hi.
    rewrite app_nth1 by (rewrite firstn_length; lia).
    apply nth_firstn_lt. lia.
Qed.
