(* StoredDbOpsLinkFinal.v — proofs (stored database, part 31): C05 END TO END for covered histories, on the model of storage.rs:
   after the programs of a covered history, a maintenance operation (optimize_storage / drop + open / backup + open), and a
   reload, the loaded database answers every order-independent read-only query exactly as the fold of `exec rv_fixed`
   over the history does. *)
From Agdb Require Import Bytes BytesProofs Utf8 Codec DbValue ValueIndex Graph DbModel Search Queries Revisions Records RecordsProofs
  Storage StorageSpec StorageLayout StorageWp StorageRefine StorageProofs Collections CollValues CollWp CollBytes CollVecBase
  StoredDb StoredDbRep StoredDbRun StoredDbLoad StoredDbProofs StoredDbQueries StoredDbFinal StoredDbFrame StoredDbOps StoredDbOpsDb
  StoredDbOpsQuery StoredDbOpsLink StoredDbOpsLinkHist StoredDbOpsLinkStorage.
From Agdb Require HistoryAtomicProofs.
Open Scope N_scope.

Theorem so_covered_then_maintenance (ops : store_ops cdata) (fl : bool) : kind ops fl ->
  forall rv s sp root d l o,
    Rel s sp -> sdepth sp = 0 -> stored_db (hp sp) root d -> HistoryAtomicProofs.HInv d -> so_covered_all rv_fixed d l ->
    cv_is_maint o = true ->
    let r := cp_run (st_step cdata ops) (h <~ so_open root ;; cq_runs h l) s in
    let dN := fst (cq_model rv_fixed d l) in
    snd r = CrDead \/
    snd (st_step cdata ops (fst r) o) = ObPanic \/
    exists h' sp2 d1,
      snd r = CrOk (h', snd (cq_model rv_fixed d l)) /\
      Rel (fst (st_step cdata ops (fst r) o)) sp2 /\ sdepth sp2 = 0 /\ stored_db (hp sp2) root dN /\
      load_db (sm sp2) root = Some d1 /\ sd_eqv dN d1 /\
      forall q, sd_query_ok q -> snd (Queries.exec rv d1 q) = snd (Queries.exec rv dN q).
Proof.
  intros K rv s sp root d l o RL Hd H HI OK Hm r dN.
  destruct (so_covered_on_storage ops fl K s sp root d l RL H HI OK) as [D|(sp1 & h' & w & w' & RL1 & E & _ & H1 & _ & HI1 & D1 & _)];
    [left; exact D|right]. fold r in RL1, E. fold dN in H1, HI1.
  destruct HI1 as (_ & _ & Hu).
  destruct (sd_queries_after_maintenance ops fl K rv (fst r) sp1 o root dN RL1 (eq_trans D1 Hd) Hm (ex_intro _ w' H1) Hu)
    as [P|(sp2 & d1 & RL2 & Hd2 & H2 & _ & E2 & He & Hq)]; [left; exact P|right].
  exists h', sp2, d1. repeat (split; [assumption|]). exact Hq.
Qed.
