(* UndoDb.v — C13, database level: the simulation relation `sim` (both states well formed and
   observationally equal, component by component), the notion `undoable d d1` (rolling back the
   commands pushed between d and d1 from ANY state similar to d1 gives a state similar to d),
   its composition, and the final rollback statement. *)
From Agdb Require Import Bytes BytesProofs DbValue Graph DbModel Revisions UndoBase UndoObs UndoAlias UndoKv
  UndoGraphBase UndoGraph UndoGraphAlloc UndoGraphEdge UndoGraphOps UndoAbs.
From Coq Require Import Permutation ZifyBool ZifyNat ZifyN.
Ltac Zify.zify_post_hook ::= Z.div_mod_to_equations.
Open Scope Z_scope.

(* ---- component relations ---- *)

Definition gsim (g g' : graph) : Prop := exists a a', rep g a /\ rep g' a' /\ aeqv a a'.
Definition asim (m m' : imap) : Prop := alias_ok m /\ alias_ok m' /\ alias_eq m m'.
Definition vsim (s s' : kvstore) : Prop :=
  (forall i, keys_ok (kvs_get s i)) /\ (forall i, keys_ok (kvs_get s' i)) /\
  (forall i, Permutation (kvs_get s i) (kvs_get s' i)).
Definition isim (ix ix' : list index) : Prop :=
  idx_ok ix /\ idx_ok ix' /\ (forall key, idx_rel (idx_find ix key) (idx_find ix' key)).

Record sim (d d' : db) : Prop := {
  sim_g : gsim (gr d) (gr d');
  sim_a : asim (aliases d) (aliases d');
  sim_v : vsim (vals d) (vals d');
  sim_i : isim (indexes d) (indexes d')
}.

(* well-formedness of one state = similarity with itself *)
Definition db_ok (d : db) : Prop := sim d d.

(* a graph has (up to extensional equality) one abstract view *)
Lemma rep_unique g a a' : rep g a -> rep g a' -> aeqv a a'.
Proof.
  unfold rep. intros R R'. constructor.
  - intros i Hi. rewrite (r_kind _ _ _ _ R), (r_kind _ _ _ _ R') by assumption. reflexivity.
  - rewrite (r_count _ _ _ _ R), (r_count _ _ _ _ R'). reflexivity.
  - intros n Hn Hk. assert (Hk' : ak a' n = KNode).
    { rewrite (r_kind _ _ _ _ R') by assumption. rewrite <- (r_kind _ _ _ _ R) by assumption. exact Hk. }
    destruct (r_out _ _ _ _ R n Hn Hk) as (Hc & _). destruct (r_out _ _ _ _ R' n Hn Hk') as (Hc' & _).
    rewrite (chain_det _ _ _ _ Hc Hc'). reflexivity.
  - intros n Hn Hk. assert (Hk' : ak a' n = KNode).
    { rewrite (r_kind _ _ _ _ R') by assumption. rewrite <- (r_kind _ _ _ _ R) by assumption. exact Hk. }
    destruct (r_in _ _ _ _ R n Hn Hk) as (Hc & _). destruct (r_in _ _ _ _ R' n Hn Hk') as (Hc' & _).
    rewrite (chain_det _ _ _ _ Hc Hc'). reflexivity.
  - intros k. rewrite (fchain_det _ _ _ _ (r_free _ _ _ _ R) (r_free _ _ _ _ R')).
    rewrite (r_acap _ _ _ _ R), (r_acap _ _ _ _ R'). reflexivity.
Qed.

Lemma gsim_sym g g' : gsim g g' -> gsim g' g.
Proof. intros (a & a' & R & R' & E). exists a', a. auto using aeqv_sym. Qed.
Lemma gsim_trans g1 g2 g3 : gsim g1 g2 -> gsim g2 g3 -> gsim g1 g3.
Proof.
  intros (a1 & a2 & R1 & R2 & E12) (a2' & a3 & R2' & R3 & E23). exists a1, a3. split; [assumption|]. split; [assumption|].
  eapply aeqv_trans; [exact E12|]. eapply aeqv_trans; [|exact E23]. apply (rep_unique g2); assumption.
Qed.
Lemma gsim_refl_l g g' : gsim g g' -> gsim g g.
Proof. intros (a & a' & R & R' & E). exists a, a. auto using aeqv_refl. Qed.
Lemma gsim_of_rep g a : rep g a -> gsim g g.
Proof. intros R. exists a, a. auto using aeqv_refl. Qed.

Lemma asim_sym m m' : asim m m' -> asim m' m.
Proof. intros (H1 & H2 & H3). split; [|split]; auto using alias_eq_sym. Qed.
Lemma asim_trans m1 m2 m3 : asim m1 m2 -> asim m2 m3 -> asim m1 m3.
Proof. intros (H1 & H2 & H3) (H4 & H5 & H6). split; [|split]; eauto using alias_eq_trans. Qed.
Lemma asim_refl_l m m' : asim m m' -> asim m m.
Proof. intros (H1 & H2 & H3). split; [|split]; auto using alias_eq_refl. Qed.

Lemma vsim_sym s s' : vsim s s' -> vsim s' s.
Proof. intros (H1 & H2 & H3). repeat split; auto. intros i. symmetry. apply H3. Qed.
Lemma vsim_trans s1 s2 s3 : vsim s1 s2 -> vsim s2 s3 -> vsim s1 s3.
Proof. intros (H1 & H2 & H3) (H4 & H5 & H6). repeat split; auto. intros i. rewrite H3. apply H6. Qed.
Lemma vsim_refl_l s s' : vsim s s' -> vsim s s.
Proof. intros (H1 & H2 & H3). repeat split; auto. Qed.

Lemma isim_sym ix ix' : isim ix ix' -> isim ix' ix.
Proof. intros (H1 & H2 & H3). repeat split; auto. intros k. apply idx_rel_sym, H3. Qed.
Lemma isim_trans i1 i2 i3 : isim i1 i2 -> isim i2 i3 -> isim i1 i3.
Proof. intros (H1 & H2 & H3) (H4 & H5 & H6). repeat split; auto. intros k. eapply idx_rel_trans; [apply H3 | apply H6]. Qed.
Lemma isim_refl_l ix ix' : isim ix ix' -> isim ix ix.
Proof. intros (H1 & H2 & H3). repeat split; auto. intros k. apply idx_rel_refl. Qed.

Lemma sim_sym d d' : sim d d' -> sim d' d.
Proof. intros [G A V I]. constructor; auto using gsim_sym, asim_sym, vsim_sym, isim_sym. Qed.
Lemma sim_trans d1 d2 d3 : sim d1 d2 -> sim d2 d3 -> sim d1 d3.
Proof.
  intros [G A V I] [G' A' V' I']. constructor;
    eauto using gsim_trans, asim_trans, vsim_trans, isim_trans.
Qed.
Lemma sim_ok_l d d' : sim d d' -> db_ok d.
Proof. intros [G A V I]. constructor; eauto using gsim_refl_l, asim_refl_l, vsim_refl_l, isim_refl_l. Qed.
Lemma sim_ok_r d d' : sim d d' -> db_ok d'.
Proof. intros H. apply sim_sym in H. eapply sim_ok_l, H. Qed.

(* the undo stack is not observable *)
Lemma sim_undo_irrelevant d d' u : sim d d' -> sim {| gr := gr d; aliases := aliases d; vals := vals d; indexes := indexes d; undo := u |} d'.
Proof. intros [G A V I]. constructor; assumption. Qed.

Lemma db_ok_new : db_ok db_new.
Proof.
  constructor; cbn [db_new gr aliases vals indexes].
  - apply (gsim_of_rep _ _ rep_new).
  - split; [|split]; [apply alias_ok_empty | apply alias_ok_empty | apply alias_eq_refl].
  - assert (E : forall i, kvs_get [] i = []) by (intros i; unfold kvs_get; destruct (zabs_nat i); reflexivity).
    split; [|split]; intros i; rewrite !E.
    + constructor.
    + constructor.
    + constructor.
  - repeat split; try constructor.
Qed.

(* ---- rollback over a concatenation ---- *)

Lemma rollback_cmds_app rv d cs cs' :
  fix_rollback_replace rv = true ->
  rollback_cmds rv d (cs ++ cs') =
  match rollback_cmds rv d cs with ROk d1 => rollback_cmds rv d1 cs' | RErr k => RErr k end.
Proof.
  intros Hrv. revert d. induction cs as [|c r IH]; intros d; cbn [app rollback_cmds]; [reflexivity|].
  destruct (undo_one d c) as [d1|k]; [|reflexivity]. rewrite Hrv. destruct c; apply IH.
Qed.

Lemma rollback_cmds_one rv d c :
  fix_rollback_replace rv = true -> rollback_cmds rv d [c] = undo_one d c.
Proof.
  intros Hrv. cbn [rollback_cmds]. destruct (undo_one d c); [|reflexivity]. rewrite Hrv. destruct c; reflexivity.
Qed.

(* ---- undoable ---- *)

Section Undoable.
  Variable rv : revision.
  Hypothesis Hrv : fix_rollback_replace rv = true.

  Definition undoable (d d1 : db) : Prop :=
    exists cs, undo d1 = cs ++ undo d /\
      forall e, sim e d1 -> exists e', rollback_cmds rv e cs = ROk e' /\ sim e' d.

  Lemma undoable_refl d : db_ok d -> undoable d d.
  Proof. intros Hok. exists []. split; [reflexivity|]. intros e He. exists e. split; [reflexivity | assumption]. Qed.

  Lemma undoable_trans d d1 d2 : undoable d d1 -> undoable d1 d2 -> undoable d d2.
  Proof.
    intros (cs1 & E1 & H1) (cs2 & E2 & H2). exists (cs2 ++ cs1). split.
    - rewrite E2, E1, app_assoc. reflexivity.
    - intros e He. destruct (H2 e He) as (e1 & R1 & S1). destruct (H1 e1 S1) as (e2 & R2 & S2).
      exists e2. split; [|assumption]. rewrite rollback_cmds_app, R1 by assumption. exact R2.
  Qed.

  (* a step that pushes nothing and keeps the state similar *)
  Lemma undoable_neutral d d1 : undo d1 = undo d -> sim d1 d -> undoable d d1.
  Proof.
    intros Eu S. exists []. split; [assumption|]. intros e He. exists e. split; [reflexivity|].
    eapply sim_trans; eassumption.
  Qed.

  (* the target may be replaced by a similar state with the same undo stack *)
  Lemma undoable_sim_r d d1 d1' : undoable d d1 -> sim d1' d1 -> undo d1' = undo d1 -> undoable d d1'.
  Proof.
    intros (cs & E & H) S Eu. exists cs. split; [congruence|]. intros e He. apply H. eapply sim_trans; eassumption.
  Qed.

  (* the final statement: roll back everything pushed since d *)
  Theorem undoable_rollback d d1 :
    undo d = [] -> undoable d d1 -> db_ok d1 ->
    exists e', rollback rv d1 = ROk e' /\ sim e' d.
  Proof.
    intros Eu (cs & E & H) Hok. unfold rollback. rewrite E, Eu, app_nil_r. apply H.
    unfold clear_undo. apply sim_undo_irrelevant, Hok.
  Qed.
End Undoable.
