(* StoredDbOpsAlias9.v — the size side conditions of so_alias_insert_new_stored_full from ONE bound: both alias tables have
   fewer than 2^56 slots.  Then (with C19's invariant: len = number of Valid slots <= capacity) len + 1 < 2^64 and the
   three vectors of a grown table (max(2 * capacity, 64) slots of 1 / 8 / 8 bytes) stay below 2^64 bytes.

   so_alias_insert_new_stored_caps: the theorem with so_alias_new_ok2 replaced by: capacities < 2^56, the alias a valid
   String element (valid UTF-8, 8 + length < 2^64), the id an i64. *)
From Coq Require Import List NArith ZArith Arith Bool Lia Permutation.
Import ListNotations.
From Agdb Require Import Bytes BytesProofs Utf8 Codec DbValue ValueIndex Graph DbModel Records RecordsProofs Storage StorageSpec
  StorageLayout Collections CollValues CollWp CollBytes CollVecBase CollVecOps CollVec CollVec2 CollElems CollSep CollMap CollMapHist
  CollGraph CollValuesProofs OpenMap OpenMapProofs OpenMapSpec OpenMapRefineBase OpenMapRefineStep OpenMapRefine
  StoredDb StoredDbRep StoredDbLoad StoredDbProbe StoredDbFrame StoredDbOps StoredDbOpsDb StoredDbOpsDb2 StoredDbOpsAlias
  StoredDbOpsAlias2 StoredDbOpsAlias3 StoredDbOpsAlias4 StoredDbOpsAlias5 StoredDbOpsAlias6 StoredDbOpsAlias7 StoredDbOpsAlias8.
From Coq Require Import ZifyBool ZifyNat ZifyN.
Open Scope N_scope.

Definition so_cap_bound : N := 72057594037927936.   (* 2^56 *)

Section Caps.
  Variables K V : Type.
  Variable h : K -> N.

  Lemma so_len_from_pinv (t : cm_table K V) :
    length (ct_keys t) = length (ct_states t) -> length (ct_values t) = length (ct_states t) ->
    PInv K V h 64 (ct_omap K V t) -> lenN (ct_states t) < so_cap_bound -> ct_len t + 1 < two64.
  Proof.
    intros SK SV [[Hcv _] _] Hb.
    pose proof (cv_le_length K V (slots (ct_omap K V t))) as Hle.
    unfold ct_omap in Hcv, Hle. cbn [slots len] in Hcv, Hle. rewrite ct_slots_length in Hle by auto.
    unfold so_cap_bound, lenN, two64 in *. lia.
  Qed.
End Caps.

Lemma so_grow_ok_a1 (t : cm_table bytes Z) : lenN (ct_states t) < so_cap_bound -> so_grow_ok bytes Z ce_string ce_i64 t.
Proof.
  intros Hb. unfold so_grow_ok. change (ce_size ce_string) with 8. change (ce_size ce_i64) with 8.
  unfold so_cap_bound, two64 in *. cbv zeta. lia.
Qed.
Lemma so_grow_ok_a2 (t : cm_table Z bytes) : lenN (ct_states t) < so_cap_bound -> so_grow_ok Z bytes ce_i64 ce_string t.
Proof.
  intros Hb. unfold so_grow_ok. change (ce_size ce_string) with 8. change (ce_size ce_i64) with 8.
  unfold so_cap_bound, two64 in *. cbv zeta. lia.
Qed.

Theorem so_alias_insert_new_stored_caps (hs : bytes -> N) (hi : Z -> N) (fl : bool) rm1 rm2 root d w h a id alias sp :
  stored_db_w (hp sp) root d w -> so_handles h w -> so_alias_handles a w -> so_alias_tables_ok hs hi 64 w ->
  imap_value (aliases d) alias = None -> imap_key (aliases d) id = None ->
  lenN (ct_states (mw_t (sw_a1 w))) < so_cap_bound -> lenN (ct_states (mw_t (sw_a2 w))) < so_cap_bound ->
  el_valid law_string alias -> el_valid law_i64 id ->
  cwp fl (so_alias_insert_new hs hi (so_alias_code hs hi rm1 rm2) a id alias) sp
      (fun r sp' => exists a' w', r = CrOk a' /\ stored_db_w (hp sp') root (insert_new_alias d id alias) w' /\
                      so_handles h w' /\ so_alias_handles a' w' /\ so_alias_tables_ok hs hi 64 w' /\
                      (exists m1 m2, w' = sd_with_a2 (sd_with_a1 w m1) m2) /\
                      sdepth sp' = sdepth sp /\ frame (hp sp) (hp sp') (sd_foot root w) (sd_foot root w')).
Proof.
  intros H Hh Ha [P1 P2] Hv Hk B1 B2 VA VI.
  apply (so_alias_insert_new_stored_full hs hi fl rm1 rm2 root d w h a id alias sp H Hh Ha (conj P1 P2) Hv Hk).
  destruct (sr_a1 _ _ _ _ H) as (HM1 & _ & _). destruct (sr_a2 _ _ _ _ H) as (HM2 & _ & _).
  destruct (mr_same _ _ _ _ _ _ _ _ _ _ _ _ HM1) as [SK1 SV1]. destruct (mr_same _ _ _ _ _ _ _ _ _ _ _ _ HM2) as [SK2 SV2].
  split; [intros _; apply so_grow_ok_a1; exact B1|]. split; [intros _; apply so_grow_ok_a2; exact B2|].
  split; [exact VA|]. split; [exact VI|].
  split; [eapply so_len_from_pinv; eauto|eapply so_len_from_pinv; eauto].
Qed.
