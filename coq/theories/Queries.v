(* Queries.v — model of the query layer (agdb/src/query/*.rs) on top of DbModel/Search:
   one function per QueryMut/Query::process, and transactions with rollback
   (DbImpl::transaction_mut).  Definitions only. *)
From Agdb Require Import Bytes DbValue Graph DbModel Search.
Open Scope Z_scope.

Inductive qids := Ids (l : list qid) | QSearch (s : search_query).
Inductive qvalues := Single (l : list kv) | Multi (l : list (list kv)).

Inductive query :=
| InsertNodes (count : Z) (values : qvalues) (aliases : list bytes) (ids : qids)
| InsertEdges (from to : qids) (values : qvalues) (each : bool) (ids : qids)
| InsertAliases (ids : qids) (aliases : list bytes)
| InsertValues (ids : qids) (values : qvalues)
| InsertIndex (key : dbvalue)
| RemoveIndex (key : dbvalue)
| Remove (ids : qids)
| RemoveAliases (aliases : list bytes)
| RemoveValues (ids : qids) (keys : list dbvalue)
| SelectValues (keys : list dbvalue) (ids : qids)
| SelectKeys (ids : qids)
| SelectKeyCount (ids : qids)
| SelectAliases (ids : qids)
| SelectAllAliases
| SelectEdgeCount (ids : qids) (from to : bool)
| SelectIndexes
| SelectNodeCount
| SearchQ (s : search_query).

Record element := { e_id : Z; e_from : Z; e_to : Z; e_values : list kv }.

(* outcome of a query: result count + elements, an error, or a panic (slice) *)
Inductive qres :=
| QOk (result : Z) (elements : list element)
| QErr (e : errkind)
| QPanic.

Definition is_mutating (q : query) : bool :=
  match q with
  | InsertNodes _ _ _ _ | InsertEdges _ _ _ _ _ | InsertAliases _ _ | InsertValues _ _
  | InsertIndex _ | RemoveIndex _ | Remove _ | RemoveAliases _ | RemoveValues _ _ => true
  | _ => false
  end.

Section Rev.
  Variable rv : revision.

  (* monad for steps that may fail leaving the partial state: (state, Ok a | Err | Panic) *)
  Inductive step (A : Type) := StOk (d : db) (a : A) | StErr (d : db) (e : errkind) | StPanic (d : db).
  Arguments StOk {A} d a.
  Arguments StErr {A} d e.
  Arguments StPanic {A} d.

  Definition elem (d : db) (id : Z) (values : list kv) : element :=
    {| e_id := id; e_from := from_id d id; e_to := to_id d id; e_values := values |}.

  (* ids.iter().map(db.db_id).collect::<Result<..>>()? *)
  Fixpoint resolve_all (d : db) (l : list qid) : res (list Z) :=
    match l with
    | [] => ROk []
    | q :: r => match db_id d q with
                | RErr e => RErr e
                | ROk id => match resolve_all d r with RErr e => RErr e | ROk ids => ROk (id :: ids) end
                end
    end.

  Definition resolve_ids (d : db) (ids : qids) : sres :=
    match ids with
    | Ids l => match resolve_all d l with ROk x => SOk x | RErr e => SErr e end
    | QSearch s => search rv d s
    end.

  (* fold over a list with an early return on the first failing step *)
  Fixpoint st_fold {A B} (f : db -> B -> A -> step B) (d : db) (b : B) (l : list A) : step B :=
    match l with
    | [] => StOk d b
    | x :: r => match f d b x with
                | StOk d1 b1 => st_fold f d1 b1 r
                | StErr d1 e => StErr d1 e
                | StPanic d1 => StPanic d1
                end
    end.

  Definition insert_kvs_replace (d : db) (id : Z) (kvs : list kv) : db :=
    fold_left (fun a x => insert_or_replace_key_value a id x) kvs (reserve_kv d id).
  Definition insert_kvs_new (d : db) (id : Z) (kvs : list kv) : db :=
    fold_left (fun a x => insert_key_value a id x) kvs (reserve_kv d id).

  Definition lenZ {A} (l : list A) : Z := Z.of_nat (length l).

  Definition ok_elements (d : db) (ids : list Z) : step (Z * list element) :=
    StOk d (lenZ ids, map (fun id => elem d id []) ids).

  (* ---- insert nodes ---- *)
  Definition insert_nodes (d : db) (count : Z) (values : qvalues) (als : list bytes) (ids : qids)
    : step (Z * list element) :=
    let count := Z.max count (lenZ als) in
    if fix_empty_alias rv && existsb (fun al : bytes => match al with [] => true | _ => false end) als then StErr d ENotAllowed
    else
    match resolve_ids d ids with
    | SErr e => StErr d e
    | SPanic => StPanic d
    | SOk query_ids =>
      let vals_list := match values with
                       | Single v => repeat v (Nat.max (length query_ids) (Z.to_nat count))
                       | Multi v => v
                       end in
      if Nat.ltb (length vals_list) (length als) then StErr d ENotEnoughData
      else if negb (Nat.eqb (length query_ids) 0) then
        if existsb (fun id => id <? 0) query_ids then StErr d ENotAllowed
        else if negb (Nat.eqb (length vals_list) (length query_ids)) then StErr d ENotEnoughData
        else
          let d1 := fold_left (fun a (t : nat * (Z * list kv)) =>
                       let '(i, (id, kvs)) := t in
                       let a1 := insert_kvs_replace a id kvs in
                       match nth_error als i with
                       | Some al => if fix_nodes_ids_alias rv then insert_alias rv a1 id al
                                    else insert_new_alias a1 id al
                       | None => a1
                       end)
                     (combine (seq 0 (length query_ids)) (combine query_ids vals_list)) d in
          ok_elements d1 query_ids
      else
        let '(d1, ids_rev) :=
          fold_left (fun (acc : db * list Z) (t : nat * list kv) =>
            let '(a, out) := acc in
            let '(i, kvs) := t in
            match nth_error als i with
            | Some al =>
              match db_id a (QAlias al) with
              | ROk id => (insert_kvs_replace a id kvs, id :: out)
              | RErr _ =>
                let '(id, a1) := insert_node_db a in
                let a2 := insert_new_alias a1 id al in
                (insert_kvs_new a2 id kvs, id :: out)
              end
            | None =>
              let '(id, a1) := insert_node_db a in
              (insert_kvs_new a1 id kvs, id :: out)
            end)
          (combine (seq 0 (length vals_list)) vals_list) (d, []) in
        ok_elements d1 (rev ids_rev)
    end.

  (* ---- insert edges ---- *)
  Definition edge_values (values : qvalues) (count : nat) : res (list (list kv)) :=
    let l := match values with Single v => repeat v (Nat.max 1 count) | Multi v => v end in
    if Nat.eqb (length l) count then ROk l else RErr ENotEnoughData.

  (* InsertEdgesQuery::db_ids *)
  Definition edge_db_ids (d : db) (ids : qids) : sres :=
    match ids with
    | Ids l => match resolve_all d l with ROk x => SOk x | RErr e => SErr e end
    | QSearch s => match search rv d s with SOk l => SOk (filter (fun id => 0 <? id) l) | r => r end
    end.

  Definition insert_edge_list (d : db) (pairs : list ((Z * Z) * list kv)) : step (list Z) :=
    match st_fold (fun a (out : list Z) (t : (Z * Z) * list kv) =>
                     let '((f, t'), kvs) := t in
                     match insert_edge_db a f t' with
                     | RErr e => StErr a e
                     | ROk (id, a1) => StOk (insert_kvs_new a1 id kvs) (id :: out)
                     end) d [] pairs with
    | StOk d1 out => StOk d1 (rev out)
    | StErr d1 e => StErr d1 e
    | StPanic d1 => StPanic d1
    end.

  Definition insert_edges (d : db) (from to : qids) (values : qvalues) (each : bool) (ids : qids)
    : step (Z * list element) :=
    match resolve_ids d ids with
    | SErr e => StErr d e
    | SPanic => StPanic d
    | SOk query_ids =>
      if negb (Nat.eqb (length query_ids) 0) then
        if existsb (fun id => 0 <? id) query_ids then StErr d ENotAllowed
        else match edge_values values (length query_ids) with
             | RErr e => StErr d e
             | ROk vl =>
               let d1 := fold_left (fun a (t : Z * list kv) => insert_kvs_replace a (fst t) (snd t))
                                   (combine query_ids vl) d in
               ok_elements d1 query_ids
             end
      else
        match edge_db_ids d from with
        | SErr e => StErr d e
        | SPanic => StPanic d
        | SOk fl =>
          match edge_db_ids d to with
          | SErr e => StErr d e
          | SPanic => StPanic d
          | SOk tl =>
            let pairs := if each || negb (Nat.eqb (length fl) (length tl))
                         then flat_map (fun f => map (fun t => (f, t)) tl) fl
                         else combine fl tl in
            match edge_values values (length pairs) with
            | RErr e => StErr d e
            | ROk vl =>
              match insert_edge_list d (combine pairs vl) with
              | StOk d1 out => ok_elements d1 out
              | StErr d1 e => StErr d1 e
              | StPanic d1 => StPanic d1
              end
            end
          end
        end
    end.

  (* ---- insert aliases ---- *)
  Definition insert_aliases (d : db) (ids : qids) (als : list bytes) : step (Z * list element) :=
    match ids with
    | QSearch _ => StErr d ENotAllowed
    | Ids l =>
      if negb (Nat.eqb (length l) (length als)) then StErr d ENotEnoughData
      else
        match st_fold (fun a (n : Z) (t : qid * bytes) =>
                         let '(q, al) := t in
                         match al with
                         | [] => StErr a ENotAllowed
                         | _ =>
                           match db_id a q with
                           | RErr e => StErr a e
                           | ROk id =>
                             if fix_alias_nodes_only rv && (id <? 0) then StErr a ENotAllowed
                             else StOk (insert_alias rv a id al) (n + 1)
                           end
                         end) d 0 (combine l als) with
        | StOk d1 n => StOk d1 (n, [])
        | StErr d1 e => StErr d1 e
        | StPanic d1 => StPanic d1
        end
    end.

  (* ---- insert values ---- *)
  Definition insert_values_id (d : db) (acc : Z * list element) (id : Z) (kvs : list kv) : db * (Z * list element) :=
    (insert_kvs_replace d id kvs, (fst acc + lenZ kvs, snd acc)).

  Definition insert_values_new (d : db) (acc : Z * list element) (alias : option bytes) (kvs : list kv)
    : db * (Z * list element) :=
    let '(id, d1) := insert_node_db d in
    let d2 := match alias with Some al => insert_new_alias d1 id al | None => d1 end in
    let d3 := insert_kvs_new d2 id kvs in
    (d3, (fst acc + lenZ kvs, snd acc ++ [elem d3 id []])).

  Definition insert_values_q (d : db) (acc : Z * list element) (q : qid) (kvs : list kv) : step (Z * list element) :=
    match db_id d q with
    | ROk id => let '(d1, a) := insert_values_id d acc id kvs in StOk d1 a
    | RErr e =>
      match q with
      | QId id => if id =? 0 then let '(d1, a) := insert_values_new d acc None kvs in StOk d1 a
                  else StErr d e
      | QAlias al => if fix_empty_alias rv && match al with [] => true | _ => false end then StErr d ENotAllowed
                     else let '(d1, a) := insert_values_new d acc (Some al) kvs in StOk d1 a
      end
    end.

  Definition insert_values (d : db) (ids : qids) (values : qvalues) : step (Z * list element) :=
    match ids with
    | Ids l =>
      match values with
      | Single kvs => st_fold (fun a acc q => insert_values_q a acc q kvs) d (0, []) l
      | Multi vl =>
        if negb (Nat.eqb (length l) (length vl)) then StErr d ENotEnoughData
        else st_fold (fun a acc (t : qid * list kv) => insert_values_q a acc (fst t) (snd t)) d (0, []) (combine l vl)
      end
    | QSearch s =>
      match search rv d s with
      | SErr e => StErr d e
      | SPanic => StPanic d
      | SOk db_ids =>
        match values with
        | Single kvs =>
          st_fold (fun a acc id => let '(d1, a1) := insert_values_id a acc id kvs in StOk d1 a1) d (0, []) db_ids
        | Multi vl =>
          if negb (Nat.eqb (length db_ids) (length vl)) then StErr d ENotEnoughData
          else st_fold (fun a acc (t : Z * list kv) =>
                          let '(d1, a1) := insert_values_id a acc (fst t) (snd t) in StOk d1 a1)
                       d (0, []) (combine db_ids vl)
        end
      end
    end.

  (* ---- removals ---- *)
  Definition remove_query (d : db) (ids : qids) : step (Z * list element) :=
    let finish (r : step Z) : step (Z * list element) :=
      match r with StOk d1 n => StOk d1 (n, []) | StErr d1 e => StErr d1 e | StPanic d1 => StPanic d1 end in
    match ids with
    | Ids l =>
      finish (st_fold (fun a n q => match remove_q a q with
                                    | (a1, ROk true) => StOk a1 (n + 1)
                                    | (a1, ROk false) => StOk a1 n
                                    | (a1, RErr e) => StErr a1 e
                                    end) d 0 l)
    | QSearch s =>
      match search rv d s with
      | SErr e => StErr d e
      | SPanic => StPanic d
      | SOk db_ids =>
        finish (st_fold (fun a n id => match remove_id a id with
                                       | (a1, ROk true) => StOk a1 (n + 1)
                                       | (a1, ROk false) => StOk a1 n
                                       | (a1, RErr e) => StErr a1 e
                                       end) d 0 db_ids)
      end
    end.

  Definition remove_aliases (d : db) (als : list bytes) : step (Z * list element) :=
    let '(n, d1) := fold_left (fun (acc : Z * db) al =>
                       let '(b, a1) := remove_alias (snd acc) al in
                       (if b then fst acc + 1 else fst acc, a1)) als (0, d) in
    StOk d1 (n, []).

  Definition remove_values (d : db) (ids : qids) (keys : list dbvalue) : step (Z * list element) :=
    let finish (r : step Z) : step (Z * list element) :=
      match r with StOk d1 n => StOk d1 (n, []) | StErr d1 e => StErr d1 e | StPanic d1 => StPanic d1 end in
    match ids with
    | Ids l =>
      finish (st_fold (fun a n q => match db_id a q with
                                    | RErr e => StErr a e
                                    | ROk id => let '(k, a1) := remove_keys a id keys in StOk a1 (n + k)
                                    end) d 0 l)
    | QSearch s =>
      match search rv d s with
      | SErr e => StErr d e
      | SPanic => StPanic d
      | SOk db_ids =>
        finish (st_fold (fun a n id => let '(k, a1) := remove_keys a id keys in StOk a1 (n + k)) d 0 db_ids)
      end
    end.

  (* ---- selects ---- *)
  Definition key_count_kv (n : Z) : kv := (DString [x6b; x65; x79; x5f; x63; x6f; x75; x6e; x74], DU64 (Z.to_N n)).
  Definition edge_count_kv (n : Z) : kv :=
    (DString [x65; x64; x67; x65; x5f; x63; x6f; x75; x6e; x74], DU64 (Z.to_N n)).
  Definition alias_kv (a : bytes) : kv := (DString [x61; x6c; x69; x61; x73], DString a).
  Definition default_value : dbvalue := DI64 0.

  Definition select_values (d : db) (keys : list dbvalue) (ids : qids) : qres :=
    let is_search := match ids with QSearch _ => true | _ => false end in
    match resolve_ids d ids with
    | SErr e => QErr e
    | SPanic => QPanic
    | SOk db_ids =>
      let go := fix go (l : list Z) : res (list element) :=
        match l with
        | [] => ROk []
        | id :: r =>
          let values := match keys with [] => kvs_get (vals d) id | _ => kvs_values_by_keys (vals d) id keys end in
          if negb is_search && negb (Nat.eqb (length values) (length keys)) &&
             existsb (fun k => negb (existsb (fun x : kv => dbv_eqb (fst x) k) values)) keys
          then RErr ENotFound
          else match go r with RErr e => RErr e | ROk els => ROk (elem d id values :: els) end
        end in
      match go db_ids with
      | RErr e => QErr e
      | ROk els => QOk (lenZ db_ids) els
      end
    end.

  Definition select_simple (d : db) (ids : qids) (f : Z -> list kv) (total : list Z -> Z) : qres :=
    match resolve_ids d ids with
    | SErr e => QErr e
    | SPanic => QPanic
    | SOk db_ids => QOk (total db_ids) (map (fun id => elem d id (f id)) db_ids)
    end.

  Definition edge_count (d : db) (id : Z) (from to : bool) : Z :=
    if is_node (gr d) id then
      (if from then edge_count_from (gr d) id else 0) + (if to then edge_count_to (gr d) id else 0)
    else 0.

  Fixpoint alias_insert_sorted (x : bytes * Z) (l : list (bytes * Z)) : list (bytes * Z) :=
    match l with
    | [] => [x]
    | y :: r => match cmp_then (bytes_cmp (fst x) (fst y)) (Z.compare (snd x) (snd y)) with
                | Gt => y :: alias_insert_sorted x r
                | _ => x :: y :: r
                end
    end.

  Definition select_aliases (d : db) (ids : qids) : qres :=
    match ids with
    | Ids l =>
      let go := fix go (l : list qid) : res (list element) :=
        match l with
        | [] => ROk []
        | q :: r =>
          let e := match q with
                   | QId id => match imap_key (aliases d) id with
                               | Some a => ROk (elem d id [alias_kv a])
                               | None => RErr ENotFound
                               end
                   | QAlias a => match db_id d q with
                                 | ROk id => ROk (elem d id [alias_kv a])
                                 | RErr e => RErr e
                                 end
                   end in
          match e with
          | RErr k => RErr k
          | ROk x => match go r with RErr k => RErr k | ROk els => ROk (x :: els) end
          end
        end in
      match go l with RErr e => QErr e | ROk els => QOk (lenZ l) els end
    | QSearch s =>
      match search rv d s with
      | SErr e => QErr e
      | SPanic => QPanic
      | SOk db_ids =>
        let els := flat_map (fun id => match imap_key (aliases d) id with
                                       | Some a => [elem d id [alias_kv a]]
                                       | None => [] end) db_ids in
        QOk (lenZ els) els
      end
    end.

  Definition exec_select (d : db) (q : query) : qres :=
    match q with
    | SelectValues keys ids => select_values d keys ids
    | SelectKeys ids =>
        select_simple d ids (fun id => map (fun x : kv => (fst x, default_value)) (kvs_get (vals d) id)) lenZ
    | SelectKeyCount ids =>
        select_simple d ids (fun id => [key_count_kv (lenZ (kvs_get (vals d) id))])
                      (fun l => fold_left (fun a id => a + lenZ (kvs_get (vals d) id)) l 0)
    | SelectAliases ids => select_aliases d ids
    | SelectAllAliases =>
        let sorted := fold_right alias_insert_sorted [] (k2v (aliases d)) in
        QOk (lenZ sorted) (map (fun p : bytes * Z => elem d (snd p) [alias_kv (fst p)]) sorted)
    | SelectEdgeCount ids from to =>
        select_simple d ids (fun id => [edge_count_kv (edge_count d id from to)])
                      (fun l => fold_left (fun a id => a + edge_count d id from to) l 0)
    | SelectIndexes =>
        let kvs := map (fun ix : index => (fst ix, DU64 (N.of_nat (length (snd ix))))) (indexes d) in
        QOk (lenZ kvs) [ {| e_id := 0; e_from := 0; e_to := 0; e_values := kvs |} ]
    | SelectNodeCount => QOk (node_count (gr d)) []
    | SearchQ s =>
        match search rv d s with
        | SErr e => QErr e
        | SPanic => QPanic
        | SOk ids => QOk (lenZ ids) (map (fun id => elem d id []) ids)
        end
    | _ => QErr ENotAllowed
    end.

  Definition exec_mut_step (d : db) (q : query) : step (Z * list element) :=
    match q with
    | InsertNodes count values als ids => insert_nodes d count values als ids
    | InsertEdges from to values each ids => insert_edges d from to values each ids
    | InsertAliases ids als => insert_aliases d ids als
    | InsertValues ids values => insert_values d ids values
    | InsertIndex key =>
        match insert_index d key with
        | ROk (n, d1) => StOk d1 (n, [])
        | RErr e => StErr d e
        end
    | RemoveIndex key => let '(n, d1) := remove_index d key in StOk d1 (n, [])
    | Remove ids => remove_query d ids
    | RemoveAliases als => remove_aliases d als
    | RemoveValues ids keys => remove_values d ids keys
    | _ => StErr d ENotAllowed
    end.

  (* a query executed inside a running transaction (no commit / rollback yet) *)
  Definition exec_in_txn (d : db) (q : query) : db * qres :=
    if is_mutating q then
      match exec_mut_step d q with
      | StOk d1 (n, els) => (d1, QOk n els)
      | StErr d1 e => (d1, QErr e)
      | StPanic d1 => (d1, QPanic)
      end
    else (d, exec_select d q).

  Definition is_failure (r : qres) : bool := match r with QOk _ _ => false | _ => true end.

  (* DbImpl::exec / exec_mut: one query = one transaction.  A panic unwinds without rollback. *)
  Definition exec (d : db) (q : query) : db * qres :=
    let '(d1, r) := exec_in_txn d q in
    match r with
    | QOk _ _ => (commit d1, r)
    | QErr _ => match rollback rv d1 with ROk d2 => (d2, r) | RErr e => (clear_undo d1, QErr e) end
    | QPanic => (d1, r)
    end.

  (* transaction_mut(|t| { for q in qs { t.exec_mut(q)? } ; if fail_at_end { Err } else { Ok } }):
     results of the queries executed, then commit or rollback *)
  Fixpoint txn_run (d : db) (qs : list query) (acc : list qres) : db * list qres * bool :=
    match qs with
    | [] => (d, rev acc, true)
    | q :: r =>
      let '(d1, res) := exec_in_txn d q in
      if is_failure res then (d1, rev (res :: acc), false) else txn_run d1 r (res :: acc)
    end.

  Definition transaction (d : db) (qs : list query) (fail_at_end : bool) : db * list qres :=
    let '(d1, results, all_ok) := txn_run d qs [] in
    if existsb (fun r => match r with QPanic => true | _ => false end) results then (d1, results)
    else if all_ok && negb fail_at_end then (commit d1, results)
    else match rollback rv d1 with
         | ROk d2 => (d2, results)
         | RErr e => (clear_undo d1, results ++ [QErr e])
         end.
End Rev.
