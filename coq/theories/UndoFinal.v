(* UndoFinal.v — C13: the statements pinned in Props/C13.v, on the model's own read functions,
   and a concrete non-trivial history satisfying the hypotheses. *)
From Agdb Require Import Bytes BytesProofs DbValue Graph DbModel Revisions UndoBase UndoObs UndoAlias UndoKv
  UndoGraphBase UndoGraph UndoGraphAlloc UndoGraphEdge UndoGraphOps UndoAbs UndoDb
  UndoStepsAlias UndoStepsKv UndoStepsKv2 UndoStepsIndex UndoStepsGraph UndoBridge UndoMain.
From Coq Require Import Permutation ZifyBool ZifyNat ZifyN.
Ltac Zify.zify_post_hook ::= Z.div_mod_to_equations.
Open Scope Z_scope.

(* what `sim d' d` means for an observer *)
Lemma sim_observable d' d :
  sim d' d ->
  obs_eq d d' /\
  (forall n, slot_kind (gr d) n = KNode ->
     edge_count_from (gr d) n = edge_count_from (gr d') n /\ edge_count_to (gr d) n = edge_count_to (gr d') n) /\
  (forall k, capacity (gr d) + Z.of_nat k <= two63z -> capacity (gr d') + Z.of_nat k <= two63z ->
     next_slots k (gr d) = next_slots k (gr d')) /\
  db_ok d'.
Proof.
  intros S. pose proof (sim_sym _ _ S) as S'. split; [apply sim_obs_eq, S'|]. split; [|split].
  - intros n Hn. apply gsim_degrees; [apply (sim_g _ _ S') | assumption].
  - intros k Hb Hb'. destruct (sim_g _ _ S') as (a & a' & R & R' & E). eapply gsim_next_slots; eassumption.
  - eapply sim_ok_l, S.
Qed.

Section Final.
  Variable rv : revision.
  Hypothesis Hrv : fix_rollback_replace rv = true.
  Hypothesis Hsteal : fix_alias_steal_undo rv = true.

  (* C13_step_inverse: rolling back the commands pushed by one primitive, from the post-state
     itself or from any state similar to it, gives a state similar to the pre-state *)
  Theorem step_inverse d d1 :
    db_ok d -> pstep rv d d1 -> capacity (gr d1) <= two63z ->
    exists cs, undo d1 = cs ++ undo d /\
      (forall e, sim e d1 -> exists e', rollback_cmds rv e cs = ROk e' /\ sim e' d) /\
      (exists d', rollback_cmds rv d1 cs = ROk d' /\ obs_eq d d') /\
      db_ok d1.
  Proof.
    intros Hok Hs Hb. destruct (pstep_ok rv Hrv Hsteal d d1 Hok Hs Hb) as (Hok1 & cs & Eu & Hinv).
    exists cs. split; [assumption|]. split; [assumption|]. split; [|assumption].
    destruct (Hinv d1 Hok1) as (d' & Hr & S). exists d'. split; [assumption|].
    apply sim_obs_eq, sim_sym, S.
  Qed.

  (* the congruence of one undo command for the equivalence, as used in the induction:
     similar states stay similar under the commands of a primitive *)
  Theorem undo_congruence d d1 e1 e2 cs :
    db_ok d -> pstep rv d d1 -> capacity (gr d1) <= two63z -> undo d1 = cs ++ undo d ->
    sim e1 d1 -> sim e2 d1 ->
    exists e1' e2', rollback_cmds rv e1 cs = ROk e1' /\ rollback_cmds rv e2 cs = ROk e2' /\ sim e1' e2'.
  Proof.
    intros Hok Hs Hb Eu S1 S2. destruct (pstep_ok rv Hrv Hsteal d d1 Hok Hs Hb) as (Hok1 & cs' & Eu' & Hinv).
    assert (cs' = cs) by (rewrite Eu in Eu'; apply app_inv_tail in Eu'; congruence). subst cs'.
    destruct (Hinv e1 S1) as (e1' & H1 & T1). destruct (Hinv e2 S2) as (e2' & H2 & T2).
    exists e1', e2'. split; [assumption|]. split; [assumption|].
    eapply sim_trans; [exact T1 | apply sim_sym, T2].
  Qed.

  Theorem rollback_restores_obs d d1 :
    db_ok d -> undo d = [] -> psteps rv d d1 -> capacity (gr d1) <= two63z ->
    exists d', rollback rv d1 = ROk d' /\
      obs_eq d d' /\
      (forall n, slot_kind (gr d) n = KNode ->
         edge_count_from (gr d) n = edge_count_from (gr d') n /\ edge_count_to (gr d) n = edge_count_to (gr d') n) /\
      (forall k, capacity (gr d) + Z.of_nat k <= two63z -> capacity (gr d') + Z.of_nat k <= two63z ->
         next_slots k (gr d) = next_slots k (gr d')) /\
      db_ok d'.
  Proof.
    intros Hok Hu Hs Hb. destruct (rollback_restores rv Hrv Hsteal d d1 Hok Hu Hs Hb) as (d' & Hr & S).
    exists d'. split; [assumption|]. apply sim_observable, S.
  Qed.
End Final.

(* ---- a concrete history: two nodes, an edge, an alias, a property, the edge removed again ---- *)
Definition ex_key : dbvalue := DString [x6b].
Definition ex_d1 : db := snd (insert_node_db db_new).
Definition ex_d2 : db := snd (insert_node_db ex_d1).
Definition ex_d3 : db := match insert_edge_db ex_d2 1 2 with ROk (_, d) => d | RErr _ => ex_d2 end.
Definition ex_d4 : db := insert_new_alias ex_d3 1 [x61].
Definition ex_d5 : db := insert_key_value ex_d4 1 (ex_key, DI64 1).
Definition ex_d6 : db := fst (remove_edge_db ex_d5 (-3)).
Definition ex_d7 : db := insert_or_replace_key_value ex_d6 1 (ex_key, DI64 2).

Lemma ex_psteps : psteps rv_fixed db_new ex_d7.
Proof.
  eapply pss_snoc. eapply pss_snoc. eapply pss_snoc. eapply pss_snoc. eapply pss_snoc. eapply pss_snoc. eapply pss_snoc.
  - apply pss_nil.
  - eapply (ps_insert_node rv_fixed db_new 1 ex_d1). reflexivity.
  - eapply (ps_insert_node rv_fixed ex_d1 2 ex_d2). reflexivity.
  - eapply (ps_insert_edge rv_fixed ex_d2 1 2 (-3) ex_d3); [lia | lia | reflexivity].
  - apply (ps_insert_new_alias rv_fixed ex_d3 1 [x61]); reflexivity.
  - apply (ps_insert_key_value rv_fixed ex_d4 1 (ex_key, DI64 1)). vm_compute. intros [].
  - eapply (ps_remove_edge rv_fixed ex_d5 3 ex_d6); [lia | reflexivity | reflexivity].
  - apply (ps_insert_or_replace rv_fixed ex_d6 1 (ex_key, DI64 2)).
    intros old l' H ids Hids. vm_compute in Hids. discriminate.
Qed.

Lemma ex_restored :
  node_count (gr ex_d7) = 2 /\ kvs_get (vals ex_d7) 1 = [(ex_key, DI64 2)] /\ length (undo ex_d7) = 7%nat /\
  exists d', rollback rv_fixed ex_d7 = ROk d' /\ obs_eq db_new d' /\ db_ok d'.
Proof.
  split; [reflexivity|]. split; [reflexivity|]. split; [reflexivity|].
  destruct (rollback_restores_obs rv_fixed eq_refl eq_refl db_new ex_d7 db_ok_new eq_refl ex_psteps) as (d' & Hr & Ho & _ & _ & Hok).
  - vm_compute. discriminate.
  - exists d'. auto.
Qed.

(* the graph well-formedness premise is satisfiable by a concrete non-trivial graph *)
Lemma ex_rep : exists a, rep (gr ex_d5) a /\ ak a 3 = KEdge 1 2 /\ aout a 1 = [3] /\ ain a 2 = [3] /\ afree a = [].
Proof.
  destruct (rep_insert_node graph_new ag_new 1 (gr ex_d1) rep_new eq_refl) as (_ & R1); [vm_compute; discriminate|].
  destruct (rep_insert_node _ _ 2 (gr ex_d2) R1 eq_refl) as (_ & R2); [vm_compute; discriminate|].
  destruct (rep_insert_edge _ _ 1 2 (-3) (gr ex_d3) R2) as (_ & R3); try reflexivity; try lia; [vm_compute; discriminate|].
  eexists. split; [exact R3|]. repeat split.
Qed.
