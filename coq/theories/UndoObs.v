(* UndoObs.v — the observational equivalence of C13 ("a failed transaction or query
   leaves no observable effect"): same elements / ids / endpoints, same properties per
   element up to order, same aliases, same indexes up to order, same node count, same
   adjacency up to order.  Plus a sound boolean checker used for the concrete examples. *)
From Agdb Require Import Bytes BytesProofs DbValue Graph DbModel UndoBase.
From Coq Require Import Permutation ZifyBool ZifyNat ZifyN.
Ltac Zify.zify_post_hook ::= Z.div_mod_to_equations.
Open Scope Z_scope.

(* what a slot is: free (also: beyond the capacity, or slot 0), a node, or an edge with its endpoints *)
Inductive skind := KFree | KNode | KEdge (f t : Z).

Definition slot_kind (g : graph) (i : Z) : skind :=
  if valid_index g i then
    if from g i <? 0 then KEdge (edge_from g i) (edge_to g i) else KNode
  else KFree.

(* the next n slots the allocator (get_free_index) would hand out *)
Fixpoint next_slots (n : nat) (g : graph) : list Z :=
  match n with
  | O => []
  | S k => let '(i, g1) := get_free_index g in i :: next_slots k g1
  end.

Definition idx_rel (a b : option (list (dbvalue * Z))) : Prop :=
  match a, b with
  | None, None => True
  | Some l, Some l' => Permutation l l'
  | _, _ => False
  end.

Record graph_obs_eq (g g' : graph) : Prop := {
  go_kind : forall i, slot_kind g i = slot_kind g' i;
  go_count : node_count g = node_count g';
  go_out : forall n, slot_kind g n = KNode -> Permutation (out_edges g n) (out_edges g' n);
  go_in : forall n, slot_kind g n = KNode -> Permutation (in_edges g n) (in_edges g' n)
}.

(* The equivalence the property allows. *)
Record obs_eq (d d' : db) : Prop := {
  oe_graph : graph_obs_eq (gr d) (gr d');
  oe_vals : forall i, Permutation (kvs_get (vals d) i) (kvs_get (vals d') i);
  oe_alias_value : forall a, imap_value (aliases d) a = imap_value (aliases d') a;
  oe_alias_key : forall i, imap_key (aliases d) i = imap_key (aliases d') i;
  oe_indexes : forall key, idx_rel (idx_find (indexes d) key) (idx_find (indexes d') key)
}.

(* The stronger relation the implementation-side oracle effectively checks (it also compares
   ids handed out later and the degree counters reported by select edge_count). *)
Record obs_eq_strong (d d' : db) : Prop := {
  os_obs : obs_eq d d';
  os_deg_from : forall n, slot_kind (gr d) n = KNode -> edge_count_from (gr d) n = edge_count_from (gr d') n;
  os_deg_to : forall n, slot_kind (gr d) n = KNode -> edge_count_to (gr d) n = edge_count_to (gr d') n;
  os_alloc : forall n, next_slots n (gr d) = next_slots n (gr d')
}.

(* ---- equivalence ---- *)

Lemma idx_rel_refl a : idx_rel a a.
Proof. destruct a; cbn; auto. Qed.
Lemma idx_rel_sym a b : idx_rel a b -> idx_rel b a.
Proof. destruct a, b; cbn; auto. intros. symmetry. assumption. Qed.
Lemma idx_rel_trans a b c : idx_rel a b -> idx_rel b c -> idx_rel a c.
Proof. destruct a, b, c; cbn; auto; try tauto. intros. etransitivity; eassumption. Qed.

Lemma graph_obs_eq_refl g : graph_obs_eq g g.
Proof. constructor; intros; reflexivity. Qed.
Lemma graph_obs_eq_sym g g' : graph_obs_eq g g' -> graph_obs_eq g' g.
Proof.
  intros [Hk Hc Ho Hi]. constructor; intros; try (symmetry; auto; fail).
  - symmetry. apply Ho. rewrite Hk. assumption.
  - symmetry. apply Hi. rewrite Hk. assumption.
Qed.
Lemma graph_obs_eq_trans g1 g2 g3 : graph_obs_eq g1 g2 -> graph_obs_eq g2 g3 -> graph_obs_eq g1 g3.
Proof.
  intros [Hk Hc Ho Hi] [Hk' Hc' Ho' Hi']. constructor; intros.
  - rewrite Hk. apply Hk'.
  - rewrite Hc. apply Hc'.
  - rewrite Ho by assumption. apply Ho'. rewrite <- Hk. assumption.
  - rewrite Hi by assumption. apply Hi'. rewrite <- Hk. assumption.
Qed.

Lemma obs_eq_refl d : obs_eq d d.
Proof. constructor; intros; try reflexivity. apply graph_obs_eq_refl. apply idx_rel_refl. Qed.
Lemma obs_eq_sym d d' : obs_eq d d' -> obs_eq d' d.
Proof.
  intros [Hg Hv Ha Hk Hi]. constructor; intros; try (symmetry; auto; fail).
  - apply graph_obs_eq_sym, Hg.
  - apply idx_rel_sym, Hi.
Qed.
Lemma obs_eq_trans d1 d2 d3 : obs_eq d1 d2 -> obs_eq d2 d3 -> obs_eq d1 d3.
Proof.
  intros [Hg Hv Ha Hk Hi] [Hg' Hv' Ha' Hk' Hi']. constructor; intros.
  - eapply graph_obs_eq_trans; eassumption.
  - rewrite Hv. apply Hv'.
  - rewrite Ha. apply Ha'.
  - rewrite Hk. apply Hk'.
  - eapply idx_rel_trans; [apply Hi | apply Hi'].
Qed.

Lemma obs_eq_strong_refl d : obs_eq_strong d d.
Proof. constructor; intros; try reflexivity. apply obs_eq_refl. Qed.

(* the undo stack is not part of the observable state *)
Lemma obs_eq_clear_undo d : obs_eq (clear_undo d) d.
Proof. constructor; intros; cbn; try reflexivity. apply graph_obs_eq_refl. apply idx_rel_refl. Qed.

(* ------------------------------------------------------------------ *)
(* boolean checker                                                      *)

Definition skind_eqb (a b : skind) : bool :=
  match a, b with
  | KFree, KFree => true
  | KNode, KNode => true
  | KEdge f t, KEdge f' t' => (f =? f') && (t =? t')
  | _, _ => false
  end.
Lemma skind_eqb_eq a b : skind_eqb a b = true -> a = b.
Proof. destruct a, b; cbn; try discriminate; auto. intros H. apply andb_true_iff in H. f_equal; lia. Qed.

Lemma zabs_nat_abs i : zabs_nat (Z.abs i) = zabs_nat i.
Proof. unfold zabs_nat. rewrite Z.abs_involutive. reflexivity. Qed.
Lemma get_abs l i : get l (Z.abs i) = get l i.
Proof. unfold get. rewrite zabs_nat_abs. reflexivity. Qed.

Lemma slot_kind_abs g i : slot_kind g (Z.abs i) = slot_kind g i.
Proof.
  unfold slot_kind, valid_index, edge_from, edge_to, from, to, fmeta. rewrite !get_abs, Z.abs_involutive.
  replace (Z.abs i =? 0) with (i =? 0) by lia. reflexivity.
Qed.

Lemma out_edges_abs g i : out_edges g (Z.abs i) = out_edges g i.
Proof. unfold out_edges, first_edge_from, from. rewrite get_abs. reflexivity. Qed.
Lemma in_edges_abs g i : in_edges g (Z.abs i) = in_edges g i.
Proof. unfold in_edges, first_edge_to, to. rewrite get_abs. reflexivity. Qed.

Lemma slot_kind_out g i : capacity g <= Z.abs i -> slot_kind g i = KFree.
Proof.
  intros H. unfold slot_kind, valid_index.
  replace (Z.abs i <? capacity g) with false by lia. rewrite andb_false_r. reflexivity.
Qed.

Definition gcap (g g' : graph) : nat := Nat.max (length (g_from g)) (length (g_from g')).

Definition graph_obs_eqb (g g' : graph) : bool :=
  forallb (fun k => let i := Z.of_nat k in
             skind_eqb (slot_kind g i) (slot_kind g' i) &&
             match slot_kind g i with
             | KNode => permb Z.eqb (out_edges g i) (out_edges g' i) && permb Z.eqb (in_edges g i) (in_edges g' i)
             | _ => true
             end) (seq 0 (gcap g g'))
  && (node_count g =? node_count g').

Lemma graph_obs_eqb_sound g g' : graph_obs_eqb g g' = true -> graph_obs_eq g g'.
Proof.
  unfold graph_obs_eqb. intros H. apply andb_true_iff in H. destruct H as [Hall Hc].
  rewrite forallb_forall in Hall.
  assert (Hslot : forall i : Z,
             (Z.abs i < Z.of_nat (gcap g g') ->
              skind_eqb (slot_kind g i) (slot_kind g' i) &&
              match slot_kind g i with
              | KNode => permb Z.eqb (out_edges g i) (out_edges g' i) && permb Z.eqb (in_edges g i) (in_edges g' i)
              | _ => true
              end = true)).
  { intros i Hi. specialize (Hall (Z.to_nat (Z.abs i))).
    rewrite Z2Nat.id in Hall by lia.
    rewrite !slot_kind_abs, !out_edges_abs, !in_edges_abs in Hall. apply Hall.
    apply in_seq. lia. }
  assert (Hbig : forall i : Z, Z.of_nat (gcap g g') <= Z.abs i ->
             slot_kind g i = KFree /\ slot_kind g' i = KFree).
  { intros i Hi. unfold gcap in Hi. split; apply slot_kind_out; unfold capacity; lia. }
  constructor.
  - intros i. destruct (Z_lt_le_dec (Z.abs i) (Z.of_nat (gcap g g'))) as [Hi|Hi].
    + specialize (Hslot i Hi). apply andb_true_iff in Hslot. apply skind_eqb_eq, Hslot.
    + destruct (Hbig i Hi) as [-> ->]. reflexivity.
  - lia.
  - intros n Hn. destruct (Z_lt_le_dec (Z.abs n) (Z.of_nat (gcap g g'))) as [Hi|Hi].
    + specialize (Hslot n Hi). rewrite Hn in Hslot. apply andb_true_iff in Hslot. destruct Hslot as [_ Hp].
      apply andb_true_iff in Hp. eapply permb_sound; [|apply Hp]. intros; apply Z.eqb_eq.
    + destruct (Hbig n Hi) as [E _]. congruence.
  - intros n Hn. destruct (Z_lt_le_dec (Z.abs n) (Z.of_nat (gcap g g'))) as [Hi|Hi].
    + specialize (Hslot n Hi). rewrite Hn in Hslot. apply andb_true_iff in Hslot. destruct Hslot as [_ Hp].
      apply andb_true_iff in Hp. eapply permb_sound; [|apply Hp]. intros; apply Z.eqb_eq.
    + destruct (Hbig n Hi) as [E _]. congruence.
Qed.

Definition vals_eqb (s s' : kvstore) : bool :=
  forallb (fun k => permb kv_eqb (nth k s []) (nth k s' [])) (seq 0 (Nat.max (length s) (length s'))).

Lemma vals_eqb_sound s s' : vals_eqb s s' = true -> forall i, Permutation (kvs_get s i) (kvs_get s' i).
Proof.
  unfold vals_eqb, kvs_get. intros H i. rewrite forallb_forall in H.
  destruct (Nat.lt_ge_cases (zabs_nat i) (Nat.max (length s) (length s'))) as [Hi|Hi].
  - eapply permb_sound; [apply kv_eqb_eq|]. apply H. apply in_seq. lia.
  - rewrite !nth_overflow by lia. constructor.
Qed.

Section AssocCheck.
  Context {K V : Type} (keqb : K -> K -> bool) (keqb_spec : forall x y, reflect (x = y) (keqb x y)).
  Context (veqb : V -> V -> bool) (veqb_eq : forall x y, veqb x y = true -> x = y).

  Definition opt_eqb (a b : option V) : bool :=
    match a, b with Some x, Some y => veqb x y | None, None => true | _, _ => false end.
  Lemma opt_eqb_eq a b : opt_eqb a b = true -> a = b.
  Proof. destruct a, b; cbn; try discriminate; auto. intros H. f_equal. auto. Qed.

  Lemma alookup_in (m : list (K * V)) k v : alookup keqb m k = Some v -> In k (map fst m).
  Proof.
    induction m as [|[k0 v0] r IH]; cbn [alookup map fst]; [discriminate|].
    destruct (keqb_spec k0 k) as [->|N]; [left; reflexivity | right; auto].
  Qed.

  Definition aeqb (m m' : list (K * V)) : bool :=
    forallb (fun k => opt_eqb (alookup keqb m k) (alookup keqb m' k)) (map fst m ++ map fst m').

  Lemma aeqb_sound m m' : aeqb m m' = true -> forall k, alookup keqb m k = alookup keqb m' k.
  Proof.
    unfold aeqb. intros H k. rewrite forallb_forall in H.
    destruct (alookup keqb m k) eqn:E1.
    - rewrite <- E1. apply opt_eqb_eq, H, in_or_app. left. eapply alookup_in, E1.
    - destruct (alookup keqb m' k) eqn:E2; [|reflexivity].
      rewrite <- E1, <- E2. apply opt_eqb_eq, H, in_or_app. right. eapply alookup_in, E2.
  Qed.
End AssocCheck.

Definition idx_relb (a b : option (list (dbvalue * Z))) : bool :=
  match a, b with
  | None, None => true
  | Some l, Some l' => permb vid_eqb l l'
  | _, _ => false
  end.
Lemma idx_relb_sound a b : idx_relb a b = true -> idx_rel a b.
Proof.
  destruct a, b; cbn; try discriminate; auto. apply permb_sound, vid_eqb_eq.
Qed.

Lemma idx_find_in ix key l : idx_find ix key = Some l -> In key (map fst ix).
Proof.
  unfold idx_find. destruct (find _ ix) eqn:E; [|discriminate]. intros _.
  apply find_some in E. destruct E as [Hin Hk]. apply dbv_eqb_eq in Hk. subst.
  apply in_map, Hin.
Qed.

Definition indexes_eqb (ix ix' : list index) : bool :=
  forallb (fun k => idx_relb (idx_find ix k) (idx_find ix' k)) (map fst ix ++ map fst ix').

Lemma indexes_eqb_sound ix ix' : indexes_eqb ix ix' = true -> forall key, idx_rel (idx_find ix key) (idx_find ix' key).
Proof.
  unfold indexes_eqb. intros H key. rewrite forallb_forall in H.
  destruct (idx_find ix key) eqn:E1.
  - rewrite <- E1. apply idx_relb_sound, H, in_or_app. left. eapply idx_find_in, E1.
  - destruct (idx_find ix' key) eqn:E2; [|exact I].
    rewrite <- E1, <- E2. apply idx_relb_sound, H, in_or_app. right. eapply idx_find_in, E2.
Qed.

Definition obs_eqb (d d' : db) : bool :=
  graph_obs_eqb (gr d) (gr d') &&
  vals_eqb (vals d) (vals d') &&
  aeqb bytes_eqb Z.eqb (k2v (aliases d)) (k2v (aliases d')) &&
  aeqb Z.eqb bytes_eqb (v2k (aliases d)) (v2k (aliases d')) &&
  indexes_eqb (indexes d) (indexes d').

Lemma Zeqb_spec x y : reflect (x = y) (x =? y).
Proof. apply iff_reflect. symmetry. apply Z.eqb_eq. Qed.

Lemma obs_eqb_sound d d' : obs_eqb d d' = true -> obs_eq d d'.
Proof.
  unfold obs_eqb. rewrite !andb_true_iff. intros [[[[Hg Hv] Ha] Hk] Hi]. constructor.
  - apply graph_obs_eqb_sound, Hg.
  - apply vals_eqb_sound, Hv.
  - unfold imap_value. eapply aeqb_sound; [apply bytes_eqb_spec | | apply Ha]. intros; lia.
  - unfold imap_key. eapply aeqb_sound; [apply Zeqb_spec | | apply Hk]. intros x y E. apply bytes_eqb_eq, E.
  - apply indexes_eqb_sound, Hi.
Qed.

(* the strong relation: allocation order is compared for `depth` allocations; degree counters *)
Definition obs_eq_strongb (depth : nat) (d d' : db) : bool :=
  obs_eqb d d' &&
  forallb (fun k => let i := Z.of_nat k in
             match slot_kind (gr d) i with
             | KNode => (edge_count_from (gr d) i =? edge_count_from (gr d') i) &&
                        (edge_count_to (gr d) i =? edge_count_to (gr d') i)
             | _ => true
             end) (seq 0 (gcap (gr d) (gr d')))
  && list_eqb Z.eqb (next_slots depth (gr d)) (next_slots depth (gr d')).
