(* UndoWitness.v — C13: the two defects of the pinned tree (rollback stops at a
   ReplaceKeyValue command; alias stealing records no inverse for the victim) as concrete
   transactions on the model, and the same transactions on the repaired revision. *)
From Agdb Require Import Bytes DbValue Graph DbModel Search Queries Revisions UndoBase UndoObs.
From Coq Require Import Permutation.
Open Scope Z_scope.

Definition w_key : dbvalue := DString [x6b].                     (* "k" *)
Definition w_a : bytes := [x61].                                  (* "a" *)
Definition w_b : bytes := [x62].                                  (* "b" *)

(* (i) db: node 1 with k=1.  transaction: insert a node; replace k on node 1; fail. *)
Definition w1_init (rv : revision) : db :=
  fst (exec rv db_new (InsertNodes 1 (Single [(w_key, DI64 1)]) [] (Ids []))).
Definition w1_txn : list query :=
  [InsertNodes 1 (Single []) [] (Ids []); InsertValues (Ids [QId 1]) (Single [(w_key, DI64 2)])].

(* (ii) db: nodes 1 "a", 2 "b".  transaction: give alias "a" to node 2; fail. *)
Definition w2_init (rv : revision) : db :=
  fst (exec rv db_new (InsertNodes 2 (Single []) [w_a; w_b] (Ids []))).
Definition w2_txn : list query := [InsertAliases (Ids [QId 2]) [w_a]].

Lemma pinned_refuted_replace :
  let d := w1_init rv_pinned in
  let d' := fst (transaction rv_pinned d w1_txn true) in
  ~ obs_eq d d' /\
  slot_kind (gr d) 2 = KFree /\ slot_kind (gr d') 2 = KNode /\
  node_count (gr d) = 1 /\ node_count (gr d') = 2.
Proof.
  cbv zeta. split; [|vm_compute; auto].
  intros [[_ Hc _ _] _ _ _ _]. vm_compute in Hc. discriminate.
Qed.

Lemma pinned_refuted_alias_steal :
  let d := w2_init rv_pinned in
  let d' := fst (transaction rv_pinned d w2_txn true) in
  ~ obs_eq d d' /\
  imap_value (aliases d) w_a = Some 1 /\ imap_value (aliases d') w_a = None /\
  imap_key (aliases d) 1 = Some w_a /\ imap_key (aliases d') 1 = None.
Proof.
  cbv zeta. split; [|vm_compute; auto].
  intros [_ _ Ha _ _]. specialize (Ha w_a). vm_compute in Ha. discriminate.
Qed.

(* the repaired revision restores the state in both cases (also the ids handed out next) *)
Lemma fixed_restores_replace :
  let d := w1_init rv_fixed in
  let d' := fst (transaction rv_fixed d w1_txn true) in
  obs_eq d d' /\ next_slots 4 (gr d) = next_slots 4 (gr d') /\ undo d' = [].
Proof.
  cbv zeta. split; [apply obs_eqb_sound; vm_compute; reflexivity | vm_compute; auto].
Qed.

Lemma fixed_restores_alias_steal :
  let d := w2_init rv_fixed in
  let d' := fst (transaction rv_fixed d w2_txn true) in
  obs_eq d d' /\ next_slots 4 (gr d) = next_slots 4 (gr d') /\ undo d' = [].
Proof.
  cbv zeta. split; [apply obs_eqb_sound; vm_compute; reflexivity | vm_compute; auto].
Qed.

(* each flag repairs its own defect only: with just the other flag on, the witness still fails *)
Definition rv_only_replace : revision :=
  {| fix_rollback_replace := true; fix_alias_steal_undo := false; fix_alias_nodes_only := false;
     fix_strict_order := false; fix_slice_clamp := false; fix_edge_origin := false; fix_visited_chain := false; fix_nodes_ids_alias := false; fix_empty_alias := false |}.
Definition rv_only_steal : revision :=
  {| fix_rollback_replace := false; fix_alias_steal_undo := true; fix_alias_nodes_only := false;
     fix_strict_order := false; fix_slice_clamp := false; fix_edge_origin := false; fix_visited_chain := false; fix_nodes_ids_alias := false; fix_empty_alias := false |}.

Lemma flags_independent :
  obs_eq (w1_init rv_only_replace) (fst (transaction rv_only_replace (w1_init rv_only_replace) w1_txn true)) /\
  obs_eq (w2_init rv_only_steal) (fst (transaction rv_only_steal (w2_init rv_only_steal) w2_txn true)) /\
  ~ obs_eq (w1_init rv_only_steal) (fst (transaction rv_only_steal (w1_init rv_only_steal) w1_txn true)) /\
  ~ obs_eq (w2_init rv_only_replace) (fst (transaction rv_only_replace (w2_init rv_only_replace) w2_txn true)).
Proof.
  split; [|split; [|split]].
  - apply obs_eqb_sound; vm_compute; reflexivity.
  - apply obs_eqb_sound; vm_compute; reflexivity.
  - intros [[_ Hc _ _] _ _ _ _]. vm_compute in Hc. discriminate.
  - intros [_ _ Ha _ _]. specialize (Ha w_a). vm_compute in Ha. discriminate.
Qed.

(* a single failing query (exec): inserting values into [node 1; missing node 9] fails after
   the first id was already written; the repaired revision restores k=1 *)
Lemma fixed_restores_failing_query :
  let d := w1_init rv_fixed in
  let '(d', r) := exec rv_fixed d (InsertValues (Ids [QId 1; QId 9]) (Single [(w_key, DI64 2)])) in
  r = QErr ENotFound /\ obs_eq d d' /\ kvs_get (vals d') 1 = [(w_key, DI64 1)].
Proof.
  cbv zeta. vm_compute exec. split; [reflexivity|]. split; [|reflexivity].
  apply obs_eqb_sound; vm_compute; reflexivity.
Qed.

(* (iii) third defect (found while proving C13, repaired by fix: 883e1ef): `insert nodes` with
   ids AND aliases called insert_new_alias on an existing node, which silently drops the node's
   previous alias and steals the new one from its holder without recording an inverse.
   rv_no_ids_alias = every other fix on, this one off. *)
Definition rv_no_ids_alias : revision :=
  {| fix_rollback_replace := true; fix_alias_steal_undo := true; fix_alias_nodes_only := true;
     fix_strict_order := true; fix_slice_clamp := true; fix_edge_origin := true; fix_visited_chain := true;
     fix_nodes_ids_alias := false; fix_empty_alias := false |}.
Definition w3_txn : list query := [InsertNodes 0 (Single []) [w_a] (Ids [QId 2])].

Lemma nodes_ids_alias_refuted :
  let d := w2_init rv_no_ids_alias in
  let d' := fst (transaction rv_no_ids_alias d w3_txn true) in
  ~ obs_eq d d' /\
  imap_key (aliases d) 1 = Some w_a /\ imap_key (aliases d) 2 = Some w_b /\
  imap_key (aliases d') 1 = None /\ imap_key (aliases d') 2 = None.
Proof.
  cbv zeta. split; [|vm_compute; auto].
  intros [_ _ Ha _ _]. specialize (Ha w_a). vm_compute in Ha. discriminate.
Qed.

Lemma fixed_restores_nodes_ids_alias :
  let d := w2_init rv_fixed in
  let d' := fst (transaction rv_fixed d w3_txn true) in
  obs_eq d d' /\ undo d' = [].
Proof.
  cbv zeta. split; [apply obs_eqb_sound; vm_compute; reflexivity | vm_compute; auto].
Qed.
