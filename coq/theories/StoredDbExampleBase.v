(* StoredDbExampleBase.v — non-vacuity of `stored_db` (stored database, part 4): a small database is CREATED by running
   programs of Collections.v on the model of storage.rs (`cp_run (st_step cdata ops_file)`), its record store is read
   off the final storage state (`live_values`: every live index with its bytes — what the correspondence run compares
   with real files), `stored_db` is proved of that store for the database of DbModel.v written out below, and
   `load_db` is evaluated on it.

   The database: 2 nodes, 1 edge 1 -> 2 (id -3), node 1 has the alias "root" and the properties
   ("k", 7) and ("name", "0123456789abcdef") — a 16-byte string, stored out of line —, the edge has (1u64, [1, 2]i64) —
   a vector, out of line —, one index on key "k" holding (7, node 1).  The hash tables of the example have 2 slots
   (multi_map.rs starts at 64; `stored_db` does not constrain the capacity). *)
From Coq Require Import Permutation.
From Agdb Require Import Bytes BytesProofs Utf8 Codec DbValue ValueIndex Graph DbModel Records RecordsProofs Storage StorageSpec
  StorageLayout StorageWp StorageRefine StorageProofs Collections CollValues CollWp CollBytes CollVecBase CollVecOps CollVec
  CollVec2 CollElems CollSep CollMap CollMapHist CollGraph CollValuesProofs StoredDb StoredDbRep StoredDbRun StoredDbLoad StoredDbProofs
  Search Queries Revisions.
From Coq Require Import ZifyBool ZifyNat ZifyN.
Open Scope N_scope.

Definition sx_alias : bytes := [x72; x6f; x6f; x74].                                                   (* "root" *)
Definition sx_key : dbvalue := DString [x6b].                                                          (* "k" *)
Definition sx_name : dbvalue := DString [x6e; x61; x6d; x65].                                          (* "name" *)
Definition sx_long : dbvalue :=
  DString [x30; x31; x32; x33; x34; x35; x36; x37; x38; x39; x61; x62; x63; x64; x65; x66].            (* 16 bytes: out of line *)

(* the arrays after insert_node, insert_node, insert_edge 1 2 (sx_graph_is below) *)
Definition sx_graph : graph :=
  {| g_from := [0; 3; 0; -1]; g_to := [0; 0; 3; -2]; g_fmeta := [-9223372036854775808; 1; 0; 0]; g_tmeta := [2; 0; 1; 0] |}%Z.

Definition sx_db : db :=
  {| gr := sx_graph;
     aliases := {| k2v := [(sx_alias, 1%Z)]; v2k := [(1%Z, sx_alias)] |};
     vals := [[]; [(sx_key, DI64 7); (sx_name, sx_long)]; []; [(DU64 1, DVecI64 [1; 2]%Z)]];
     indexes := [(sx_key, [(DI64 7, 1%Z)])];
     undo := [] |}.

Definition sx_graph_ops : list cg_op :=
  [GoGrow; GoGrow; GoGrow;
   GoSet GfFrom 1 3; GoSet GfFrom 3 (-1); GoSet GfTo 2 3; GoSet GfTo 3 (-2);
   GoSet GfFromMeta 1 1; GoSet GfToMeta 0 2; GoSet GfToMeta 2 1]%Z.

(* what DbImpl::new (first branch) and the insertions do to the storage, through the collection interfaces *)
Definition sx_build : cprog N :=
  id <~ cp_transaction ;;
  root <~ cr_create ;;
  g0 <~ cg_new ;;
  cg_run g0 sx_graph_ops ;;~
  a1 <~ cm_new ;;
  cm_run bytes Z ce_string ce_i64 [] 0%Z a1
    [MoResize 2; MoSetKey 1 sx_alias; MoSetValue 1 1%Z; MoSetState 1 StValid; MoSetLen 1] ;;~
  a2 <~ cm_new ;;
  cm_run Z bytes ce_i64 ce_string 0%Z [] a2
    [MoResize 2; MoSetKey 0 1%Z; MoSetValue 0 sx_alias; MoSetState 0 StValid; MoSetLen 1] ;;~
  ixv <~ cv_new ;;
  kix <~ ce_store ce_dbvalue sx_key ;;
  im <~ cm_new ;;
  cm_run dbvalue Z ce_dbvalue ce_i64 (DI64 0) 0%Z im
    [MoResize 2; MoSetKey 0 (DI64 7); MoSetValue 0 1%Z; MoSetState 0 StValid; MoSetLen 1] ;;~
  cv_push bytes (ce_raw 24) ixv (kix ++ le64 (cm_index im)) ;;~
  vv <~ cv_new ;;
  vv1 <~ cv_resize N ce_u64 vv 4 0 ;;
  k1 <~ cv_new ;;
  cv_replace N ce_u64 vv1 1 (cv_index k1) ;;~
  k1a <~ cv_push kv ce_dbkv k1 (sx_key, DI64 7) ;;
  cv_push kv ce_dbkv k1a (sx_name, sx_long) ;;~
  k3 <~ cv_new ;;
  cv_replace N ce_u64 vv1 3 (cv_index k3) ;;~
  cv_push kv ce_dbkv k3 (DU64 1, DVecI64 [1; 2]%Z) ;;~
  cr_store {| cr_version := 1; cr_graph := cg_index g0; cr_aliases1 := cm_index a1; cr_aliases2 := cm_index a2;
              cr_indexes := cv_index ixv; cr_values := cv_index vv |} ;;~
  cp_commit id ;;~
  CRet root.

Definition sx_run := cp_run (st_step cdata ops_file) sx_build s_init.
Definition sx_store : vmap := Eval vm_compute in live_values cdata ops_file (fst sx_run).

(* ---------------- the witness: handles and slot bytes, read off the store ---------------- *)
Definition sx_g : heap := m_get sx_store.
Definition sx_rec (i : N) : bytes := match sx_g i with Some b => b | None => [] end.
Fixpoint sx_chop (sz n : nat) (b : bytes) : list bytes :=
  match n with O => [] | S k => firstn sz b :: sx_chop sz k (skipn sz b) end.
Definition sx_vec (i : N) (sz : nat) : cv_vec * list bytes :=
  let b := sx_rec i in let n := de (firstn 8 b) in
  ({| cv_index := i; cv_len := n; cv_cap := n |}, sx_chop sz (N.to_nat n) (skipn 8 b)).
Definition sx_word (b : bytes) (k : nat) : N := de (firstn 8 (skipn (8 * k) b)).
Definition sx_mapw {K V} (i : N) (szk szv : nat) (t : cm_table K V) : sd_mapw K V :=
  let b := sx_rec i in
  let s := sx_vec (sx_word b 1) 1 in let k := sx_vec (sx_word b 2) szk in let v := sx_vec (sx_word b 3) szv in
  {| mw_d := {| cm_index := i; cm_len := sx_word b 0; cm_states := fst s; cm_keys := fst k; cm_values := fst v |};
     mw_ss := snd s; mw_ks := snd k; mw_vs := snd v; mw_t := t |}.

Definition sx_root : cr_root :=
  let b := sx_rec 1 in
  {| cr_version := sx_word b 0; cr_graph := sx_word b 1; cr_aliases1 := sx_word b 2; cr_aliases2 := sx_word b 3;
     cr_indexes := sx_word b 4; cr_values := sx_word b 5 |}.

Definition sx_t1 : cm_table bytes Z := {| ct_states := [StEmpty; StValid]; ct_keys := [[]; sx_alias]; ct_values := [0; 1]%Z; ct_len := 1 |}.
Definition sx_t2 : cm_table Z bytes := {| ct_states := [StValid; StEmpty]; ct_keys := [1; 0]%Z; ct_values := [sx_alias; []]; ct_len := 1 |}.
Definition sx_t3 : cm_table dbvalue Z := {| ct_states := [StValid; StEmpty]; ct_keys := [DI64 7; DI64 0]; ct_values := [1; 0]%Z; ct_len := 1 |}.

Definition sx_wit : sd_wit :=
  let gb := sx_rec (cr_graph sx_root) in
  let f := sx_vec (sx_word gb 0) 8 in let t := sx_vec (sx_word gb 1) 8 in
  let fm := sx_vec (sx_word gb 2) 8 in let tm := sx_vec (sx_word gb 3) 8 in
  let iv := sx_vec (cr_indexes sx_root) 24 in
  let vv := sx_vec (cr_values sx_root) 8 in
  {| sw_root := sx_root;
     sw_g := {| cg_index := cr_graph sx_root; cg_from := fst f; cg_to := fst t; cg_from_meta := fst fm; cg_to_meta := fst tm |};
     sw_gs := {| gs_from := snd f; gs_to := snd t; gs_from_meta := snd fm; gs_to_meta := snd tm |};
     sw_a1 := sx_mapw (cr_aliases1 sx_root) 8 8 sx_t1;
     sw_a2 := sx_mapw (cr_aliases2 sx_root) 8 8 sx_t2;
     sw_ih := fst iv; sw_is := snd iv; sw_ie := snd iv;
     sw_iw := [sx_mapw 23 16 8 sx_t3];
     sw_vh := fst vv; sw_vs := snd vv; sw_vi := [0; 25; 0; 27];
     sw_vw := [None; Some (sx_vec 25 32); None; Some (sx_vec 27 32)] |}.

(* ---------------- closed facts are proved by evaluation ---------------- *)
Fixpoint sx_nodupb (l : list N) : bool :=
  match l with [] => true | x :: r => negb (existsb (N.eqb x) r) && sx_nodupb r end.
Lemma sx_nodup l : sx_nodupb l = true -> NoDup l.
Proof.
  induction l as [|x r IH]; cbn [sx_nodupb]; [constructor|].
  intros H. apply andb_true_iff in H. destruct H as [H1 H2]. constructor; [|apply IH; exact H2].
  intros I. apply negb_true_iff in H1. assert (existsb (N.eqb x) r = true); [|congruence].
  apply existsb_exists. exists x. split; [exact I|apply N.eqb_refl].
Qed.

Lemma sx_vrep_intro T (E : cv_elem T) (L : elem_law E) (g : heap) idx n bss l rec :
  g idx = Some rec ->
  firstn (length (le64 n ++ concat bss)) rec = le64 n ++ concat bss ->
  Forall2 (el_rep L g) bss l -> sx_nodupb (idx :: owned T E L bss) = true -> n = lenN l -> 8 + ce_size E * lenN l < two64 ->
  vrep T E L g {| cv_index := idx; cv_len := n; cv_cap := n |} bss l.
Proof.
  intros Hg Hf He Hn Hl Hfit. constructor; cbn [cv_index cv_len cv_cap]; [|exact Hl|lia|exact Hfit].
  constructor; [|exact He|apply sx_nodup; exact Hn].
  exists (skipn (length (le64 n ++ concat bss)) rec). rewrite Hg. f_equal.
  rewrite <- (firstn_skipn (length (le64 n ++ concat bss)) rec) at 1. rewrite Hf, <- app_assoc. reflexivity.
Qed.

Ltac sx_inline := split; [reflexivity|first [exact I|reflexivity|unfold i64_range; lia|lia]].
Ltac sx_str :=
  lazymatch goal with |- el_rep _ ?g ?bs ?s => change (str_rep g bs s) end;
  match goal with
  | |- str_rep _ ?bs _ => let i := eval vm_compute in (de (firstn 8 bs)) in
      exists i; split; [reflexivity|]; split; [reflexivity|]; split; [reflexivity|]; split; [reflexivity|reflexivity]
  end.
Ltac sx_dbv :=
  try lazymatch goal with |- el_rep _ ?g ?bs ?v => change (dbv_rep g bs v) end;
  match goal with
  | |- dbv_rep _ ?bs _ => let i := eval vm_compute in (if is_value bs then 1 else vi_index bs) in
      split; [reflexivity|]; exists i; split; [discriminate|]; split; [reflexivity|]; split; [reflexivity|];
      let b := fresh "b" in let Hb := fresh "Hb" in
      intros b Hb; vm_compute in Hb; first [discriminate Hb|injection Hb as <-; reflexivity]
  end.
Ltac sx_kv :=
  lazymatch goal with |- el_rep _ ?g ?bs ?p => change (pair_rep dbvalue dbvalue ce_dbvalue ce_dbvalue law_dbvalue law_dbvalue g bs p) end;
  match goal with
  | |- pair_rep _ _ _ _ _ _ _ ?bs _ =>
      exists (firstn 16 bs), (skipn 16 bs); split; [reflexivity|]; split; [sx_dbv|]; split; [sx_dbv|];
      let j := fresh "j" in intros j; vm_compute; intuition congruence
  end.
Ltac sx_elems elem :=
  lazymatch goal with
  | |- Forall2 ?R ?a ?b => let a' := eval vm_compute in a in let b' := eval vm_compute in b in change (Forall2 R a' b')
  end;
  repeat (first [apply Forall2_nil | apply Forall2_cons; [elem|]]).
Ltac sx_vrep elem :=
  eapply sx_vrep_intro; [reflexivity|reflexivity|sx_elems elem|reflexivity|reflexivity|reflexivity].

Lemma sx_stored : stored_db_w sx_g 1 sx_db sx_wit.
Proof.
  constructor.
  - reflexivity.
  - repeat split; reflexivity.
  - reflexivity.
  - (* graph *)
    constructor.
    + reflexivity.
    + intros f. destruct f; cbn [cg_vec gs_get ga_get sd_arrays sx_wit sw_g sw_gs]; sx_vrep sx_inline.
    + intros f. destruct f; reflexivity.
    + apply sx_nodup. reflexivity.
  - reflexivity.
  - (* aliases: String -> DbId *)
    split; [|split; [reflexivity|apply Permutation_refl]].
    constructor; [|reflexivity|split; reflexivity].
    constructor; [reflexivity|sx_vrep sx_inline|sx_vrep sx_str|sx_vrep sx_inline|repeat split; reflexivity|apply sx_nodup; reflexivity].
  - repeat constructor; cbn; tauto.
  - (* aliases: DbId -> String *)
    split; [|split; [reflexivity|apply Permutation_refl]].
    constructor; [|reflexivity|split; reflexivity].
    constructor; [reflexivity|sx_vrep sx_inline|sx_vrep sx_inline|sx_vrep sx_str|repeat split; reflexivity|apply sx_nodup; reflexivity].
  - repeat constructor; cbn; tauto.
  - (* the vector of index entries *)
    sx_vrep sx_inline.
  - reflexivity.
  - (* the index on "k" *)
    cbn [sd_ix_rep sx_wit sw_ie sw_iw indexes sx_db]. split; [|exact I].
    exists (firstn 16 (nth 0 (snd (sx_vec 19 24)) [])), 23. split; [reflexivity|]. split; [reflexivity|]. split; [sx_dbv|].
    split; [|split; [reflexivity|apply Permutation_refl]].
    constructor; [|reflexivity|split; reflexivity].
    constructor; [reflexivity|sx_vrep sx_inline|sx_vrep sx_dbv|sx_vrep sx_inline|repeat split; reflexivity|apply sx_nodup; reflexivity].
  - (* the vector of property-vector indexes *)
    sx_vrep sx_inline.
  - reflexivity.
  - (* the property vectors *)
    cbn [sd_kv_rep sd_kv_slot_rep sx_wit sw_vi sw_vw vals sx_db].
    split; [split; reflexivity|]. split; [split; [discriminate|split; [reflexivity|sx_vrep sx_kv]]|].
    split; [split; reflexivity|]. split; [split; [discriminate|split; [reflexivity|sx_vrep sx_kv]]|exact I].
  - apply sx_nodup. reflexivity.
Qed.

