(* UndoLiftEx.v — C13: the hypotheses of the lifted theorems are satisfiable: the two-node
   database with aliases "a","b" is well formed, and the alias-stealing transaction is covered. *)
From Agdb Require Import Bytes BytesProofs DbValue Graph DbModel Search Queries Revisions UndoBase UndoObs UndoAlias UndoKv
  UndoGraphBase UndoGraph UndoAbs UndoDb UndoMain UndoFinal UndoLift UndoWitness.
From Coq Require Import Permutation ZifyBool ZifyNat ZifyN.
Open Scope Z_scope.

(* the state built by `insert nodes aliases [a,b]`, as a sequence of primitives *)
Definition lx_1 : db := snd (insert_node_db db_new).
Definition lx_2 : db := insert_new_alias lx_1 1 w_a.
Definition lx_3 : db := reserve_kv lx_2 1.
Definition lx_4 : db := snd (insert_node_db lx_3).
Definition lx_5 : db := insert_new_alias lx_4 2 w_b.
Definition lx_6 : db := reserve_kv lx_5 2.

Lemma lx_psteps : psteps rv_fixed db_new lx_6.
Proof.
  eapply pss_snoc. eapply pss_snoc. eapply pss_snoc. eapply pss_snoc. eapply pss_snoc. eapply pss_snoc.
  - apply pss_nil.
  - eapply (ps_insert_node rv_fixed db_new 1 lx_1). reflexivity.
  - apply (ps_insert_new_alias rv_fixed lx_1 1 w_a); reflexivity.
  - apply (ps_reserve rv_fixed lx_2 1).
  - eapply (ps_insert_node rv_fixed lx_3 2 lx_4). reflexivity.
  - apply (ps_insert_new_alias rv_fixed lx_4 2 w_b); reflexivity.
  - apply (ps_reserve rv_fixed lx_5 2).
Qed.

Lemma w2_init_ok : db_ok (w2_init rv_fixed) /\ undo (w2_init rv_fixed) = [].
Proof.
  split; [|reflexivity].
  assert (E : w2_init rv_fixed = clear_undo lx_6) by (vm_compute; reflexivity).
  rewrite E. unfold clear_undo. apply sim_undo_irrelevant.
  destruct (psteps_ok rv_fixed eq_refl eq_refl db_new lx_6 db_ok_new lx_psteps) as (Hok & _).
  - vm_compute. discriminate.
  - apply sim_sym. unfold db_ok in Hok. apply sim_undo_irrelevant. exact Hok.
Qed.

Lemma lift_example :
  Forall (fun q => liftable q = true) w2_txn /\ db_ok (w2_init rv_fixed) /\ undo (w2_init rv_fixed) = [] /\
  exists d', transaction rv_fixed (w2_init rv_fixed) w2_txn true = (d', [QOk 1 []]) /\ obs_eq (w2_init rv_fixed) d'.
Proof.
  destruct w2_init_ok as (Hok & Hu).
  assert (Hall : Forall (fun q => liftable q = true) w2_txn) by (repeat constructor).
  split; [exact Hall|]. split; [exact Hok|]. split; [exact Hu|].
  pose proof (transaction_failure_restores rv_fixed eq_refl eq_refl (w2_init rv_fixed) w2_txn true Hall Hok Hu) as H.
  destruct (txn_run rv_fixed (w2_init rv_fixed) w2_txn []) as [[d1 results] all_ok] eqn:E.
  assert (Er : results = [QOk 1 []]).
  { assert (E2 : snd (fst (txn_run rv_fixed (w2_init rv_fixed) w2_txn [])) = [QOk 1 []]) by (vm_compute; reflexivity).
    rewrite E in E2. exact E2. }
  subst results. destruct H as (d' & Ht & Ho & _); [reflexivity | rewrite andb_false_r; reflexivity |].
  exists d'. auto.
Qed.
