(* StoredDbOpsAliasExample3.v — the GROW path of MapImpl::insert RUN on the model of storage.rs.

   sg_prog = DbMapData::new (an EMPTY table: capacity 0, what a new database has), then MapImpl::insert("k", 2) with the code's
   own grow and in-place rehash (so_map_code): len 0 >= max_len 0, so the table is resized to 64 slots, rehashed, and the
   pair is inserted.  The run on the file-like storage model from the initial state (every answer replayed on the abstract
   record map) ENDS, and by so_map_insert_absent_full the record map it reaches represents a table that satisfies C19's
   invariant (minimum capacity 64) and holds exactly the pair ("k", 2). *)
From Coq Require Import List NArith ZArith Arith Bool Lia Permutation.
Import ListNotations.
From Agdb Require Import Bytes BytesProofs Utf8 Codec DbValue ValueIndex Graph DbModel Records RecordsProofs Storage StorageSpec
  StorageLayout StorageWp StorageRefine StorageProofs Collections CollValues CollWp CollBytes CollVecBase CollVecOps CollVec CollVec2 CollElems CollSep CollMap
  CollMapHist CollGraph CollValuesProofs OpenMap OpenMapProofs OpenMapSpec OpenMapRefineBase OpenMapRefineStep OpenMapRefine
  StoredDb StoredDbRep StoredDbProofs StoredDbLoad StoredDbProbe StoredDbFrame StoredDbExampleBase StoredDbOps StoredDbOpsDb
  StoredDbOpsDb2 StoredDbOpsExample StoredDbOpsAlias StoredDbOpsAlias2 StoredDbOpsAlias3 StoredDbOpsAliasExample
  StoredDbOpsAlias4 StoredDbOpsAlias5 StoredDbOpsAlias6 StoredDbOpsAlias7 StoredDbOpsAlias8.
Open Scope N_scope.

Definition sg_prog : cprog (cm_data * option Z) :=
  d <~ cm_new ;;
  so_map_insert bytes Z ce_string ce_i64 bytes_eqb sa_hs (so_map_code bytes Z ce_string ce_i64 sa_hs [] 0%Z) d sa_new 2%Z.

Lemma sg_cwp fl sp :
  cwp fl sg_prog sp
      (fun r sp' => exists d' ss ks vs t',
         r = CrOk (d', None) /\ mrep bytes Z ce_string ce_i64 law_string law_i64 (hp sp') d' ss ks vs t' /\
         PInv bytes Z sa_hs 64 (ct_omap bytes Z t') /\ Permutation (sd_table_entries t') [(sa_new, 2%Z)]).
Proof.
  unfold sg_prog. apply cwp_bind. apply (cm_new_spec bytes Z ce_string ce_i64 law_string law_i64 fl).
  intros d sp1 HS Hl Hd1 _ _. cbn [kont].
  eapply (so_map_insert_absent_full bytes Z ce_string ce_i64 law_string law_i64 bytes_eqb Z.eqb sa_hs [] 0%Z fl bytes_eqb_eq Z.eqb_eq
            so_str_nil_ok so_i64_zero_ok d [] [] [] (ct_empty bytes Z)).
  - constructor; cbn [ct_empty ct_states ct_keys ct_values ct_len]; [exact HS|exact Hl|auto].
  - apply PInv_empty.
  - intros j k v Hj. cbn in Hj. destruct j; discriminate.
  - split; vm_compute; reflexivity.
  - apply sa_i64_ok. lia.
  - vm_compute. reflexivity.
  - intros _. repeat split; vm_compute; reflexivity.
  - intros d' ss' ks' vs' t' sp' HM' _ HP' Hperm _ _. exists d', ss', ks', vs', t'. auto.
Qed.

Theorem sg_sample :
  exists sp d ss ks vs t,
    mrep bytes Z ce_string ce_i64 law_string law_i64 (hp sp) d ss ks vs t /\
    PInv bytes Z sa_hs 64 (ct_omap bytes Z t) /\ Permutation (sd_table_entries t) [(sa_new, 2%Z)] /\
    64 <= lenN (ct_states t).
Proof.
  destruct (so_replay (st_step cdata ops_file) true sg_prog s_init spec_init) as [[[s' sp'] r]|] eqn:ER;
    [|vm_compute in ER; discriminate ER].
  destruct (so_replay_sound (st_step cdata ops_file) true sg_prog _ _ _ _ _ _ (sg_cwp true spec_init) ER)
    as (d' & ss & ks & vs & t' & _ & HM & HP & Hperm).
  exists sp', d', ss, ks, vs, t'. split; [exact HM|]. split; [exact HP|]. split; [exact Hperm|].
  destruct HP as [[Hcv Hc] _]. unfold capacity, ct_omap in Hc. cbn [slots len] in Hc.
  destruct (mr_same _ _ _ _ _ _ _ _ _ _ _ _ HM) as [SK SV].
  rewrite ct_slots_length in Hc by auto. unfold lenN.
  destruct Hc as [Hc|Hc]; [|lia]. exfalso.
  unfold sd_table_entries in Hperm. destruct (ct_states t'); [|discriminate]. cbn in Hperm.
  apply Permutation_nil in Hperm. discriminate.
Qed.
