(* BytesProofs.v — lemmas about Bytes.v *)
From Agdb Require Import Bytes.
From Coq Require Import ZifyBool ZifyNat ZifyN.
Ltac Zify.zify_post_hook ::= Z.div_mod_to_equations.
Open Scope N_scope.
Arguments N.add : simpl never.
Arguments N.mul : simpl never.
Arguments N.div : simpl never.
Arguments N.modulo : simpl never.
Arguments N.pow : simpl never.

Lemma b2n_lt b : b2n b < 256.
Proof. unfold b2n. pose proof (Byte.to_N_bounded b). lia. Qed.

Lemma b2n_n2b n : b2n (n2b n) = n mod 256.
Proof.
  unfold b2n, n2b.
  destruct (Byte.of_N (n mod 256)) as [b|] eqn:E.
  - apply Byte.to_of_N in E. exact E.
  - exfalso. apply Byte.of_N_None_iff in E. lia.
Qed.

Lemma n2b_b2n b : n2b (b2n b) = b.
Proof.
  unfold n2b, b2n. pose proof (Byte.to_N_bounded b).
  rewrite N.mod_small by lia. rewrite Byte.of_to_N. reflexivity.
Qed.

Lemma le_length k n : length (le k n) = k.
Proof. revert n; induction k as [|k IH]; intros n; cbn [le length]; [reflexivity|now rewrite IH]. Qed.

Lemma de_lt bs : de bs < 256 ^ N.of_nat (length bs).
Proof.
  induction bs as [|b r IH]; cbn [de length].
  - cbn. lia.
  - rewrite Nat2N.inj_succ, N.pow_succ_r'. pose proof (b2n_lt b). nia.
Qed.

Lemma de_le k n : de (le k n) = n mod 256 ^ N.of_nat k.
Proof.
  revert n; induction k as [|k IH]; intros n; cbn [le de].
  - cbn. rewrite N.mod_1_r. reflexivity.
  - rewrite b2n_n2b, IH, Nat2N.inj_succ, N.pow_succ_r'.
    set (p := 256 ^ N.of_nat k). assert (0 < p) by (apply N.neq_0_lt_0, N.pow_nonzero; lia).
    rewrite N.mod_mul_r by lia. reflexivity.
Qed.

Lemma le_de bs : le (length bs) (de bs) = bs.
Proof.
  induction bs as [|b r IH]; cbn [le de length]; [reflexivity|].
  pose proof (b2n_lt b).
  f_equal.
  - replace (b2n b + 256 * de r) with (b2n b + de r * 256) by lia.
    unfold n2b. rewrite N.mod_add by lia. rewrite N.mod_small by lia.
    unfold b2n. now rewrite Byte.of_to_N.
  - replace ((b2n b + 256 * de r) / 256) with (de r); [exact IH|].
    replace (b2n b + 256 * de r) with (b2n b + de r * 256) by lia.
    rewrite N.div_add by lia. rewrite N.div_small by lia. lia.
Qed.

Lemma de_le64 n : n < two64 -> de (le64 n) = n.
Proof.
  intros H. unfold le64. rewrite de_le. apply N.mod_small.
  change (256 ^ N.of_nat 8) with two64. exact H.
Qed.

Lemma de_le32 n : n < two32 -> de (le32 n) = n.
Proof.
  intros H. unfold le32. rewrite de_le. apply N.mod_small.
  change (256 ^ N.of_nat 4) with two32. exact H.
Qed.

Lemma le64_length n : length (le64 n) = 8%nat.
Proof. apply le_length. Qed.
Lemma le32_length n : length (le32 n) = 4%nat.
Proof. apply le_length. Qed.

Lemma le64_de bs : length bs = 8%nat -> le64 (de bs) = bs.
Proof. intros H. unfold le64. rewrite <- H. apply le_de. Qed.

Lemma de_lt64 bs : length bs = 8%nat -> de bs < two64.
Proof. intros H. pose proof (de_lt bs) as L. rewrite H in L. exact L. Qed.

Lemma u2z_z2u z : (- 9223372036854775808 <= z < 9223372036854775808)%Z -> u2z (z2u z) = z.
Proof.
  intros H. unfold u2z, z2u, two63.
  destruct (N.ltb_spec (Z.to_N (z mod 18446744073709551616)) 9223372036854775808); lia.
Qed.

Lemma z2u_lt z : z2u z < two64.
Proof. unfold z2u, two64. lia. Qed.

Lemma z2u_u2z n : n < two64 -> z2u (u2z n) = n.
Proof.
  intros H. unfold u2z, z2u, two63, two64 in *.
  destruct (N.ltb_spec n 9223372036854775808); lia.
Qed.

Lemma u2z_range n : n < two64 -> (- 9223372036854775808 <= u2z n < 9223372036854775808)%Z.
Proof.
  intros H. unfold u2z, two63, two64 in *.
  destruct (N.ltb_spec n 9223372036854775808); lia.
Qed.

Lemma slice_app_exact (a b : bytes) n : length a = n -> slice (a ++ b) 0 n = Some a.
Proof.
  intros H. unfold slice. cbn [skipn Nat.add].
  rewrite app_length.
  destruct (Nat.leb_spec n (length a + length b)); [|lia].
  subst n. now rewrite firstn_app, Nat.sub_diag, firstn_all, firstn_O, app_nil_r.
Qed.

Lemma slice_length bs f l r : slice bs f l = Some r -> length r = l.
Proof.
  unfold slice. destruct (Nat.leb_spec (f + l) (length bs)); [|discriminate].
  intros [= <-]. rewrite firstn_length, skipn_length. lia.
Qed.

Lemma byte_eqb_eq x y : byte_eqb x y = true <-> x = y.
Proof.
  unfold byte_eqb. split.
  - apply Byte.byte_dec_bl.
  - apply Byte.byte_dec_lb.
Qed.

Lemma bytes_eqb_eq a b : bytes_eqb a b = true <-> a = b.
Proof.
  revert b; induction a as [|x a IH]; intros [|y b]; cbn [bytes_eqb];
    try (split; [discriminate|congruence]); [tauto|].
  rewrite andb_true_iff, IH, byte_eqb_eq. split; [intros [-> ->]; reflexivity|intros [= -> ->]; tauto].
Qed.
