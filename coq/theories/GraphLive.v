(* GraphLive.v — how the four graph mutations change the set of existing elements
   (graph_index), derived from the simulation relation of GraphSim/GraphSpec (C08).
   Used to lift the C09 / C10 / C11 invariants over query histories. *)
From Agdb Require Import Bytes DbValue Graph DbModel GraphArr GraphSim GraphProofs GraphRemove GraphSpec GraphWf.
From Coq Require Import ZifyBool.
Open Scope Z_scope.

Lemma bool_eq_iff (a b : bool) : (a = true <-> b = true) -> a = b.
Proof. destruct a, b; intros [H1 H2]; try reflexivity; [symmetry; now apply H1|now apply H2]. Qed.

Lemma in_opp_map_eslot (E : list aedge) j : In (- j) (map eslot E) <-> exists x, In x E /\ eslot x = - j.
Proof. rewrite in_map_iff. split; intros [x H]; exists x; tauto. Qed.

(* a live id is never 0, and the two signs of a slot are never both live *)
Lemma sim_live_sign g a fl i : sim g a fl -> graph_index g i = true -> graph_index g (- i) = false.
Proof.
  intros HS Hi. destruct (graph_index g (- i)) eqn:E; [|reflexivity]. exfalso.
  apply (sim_graph_index g a fl HS) in Hi. apply (sim_graph_index g a fl HS) in E.
  destruct Hi as [[Hp Hn]|[Hp He]], E as [[Hp' Hn']|[Hp' He']]; try lia.
  - rewrite Z.opp_involutive in He'. apply in_map_iff in He'. destruct He' as [x [Hx He']].
    pose proof (proj2 (is_edge_iff _ _ _ _ _ _ _ _ _ HS i)) as H1.
    pose proof (proj2 (is_node_iff _ _ _ _ _ _ _ _ _ HS i)) as H2.
    rewrite Z.abs_eq in H1, H2 by lia.
    assert (Hn1 : is_node g i = true) by (apply H2; exact Hn).
    assert (He1 : is_edge g i = true) by (apply H1; apply in_map_iff; exists x; tauto).
    rewrite (wf_node_edge_disjoint g i (ex_intro _ a (ex_intro _ fl HS)) Hn1) in He1. discriminate.
  - apply in_map_iff in He. destruct He as [x [Hx He]].
    pose proof (proj2 (is_edge_iff _ _ _ _ _ _ _ _ _ HS (- i))) as H1.
    pose proof (proj2 (is_node_iff _ _ _ _ _ _ _ _ _ HS (- i))) as H2.
    rewrite Z.abs_eq in H1, H2 by lia.
    assert (Hn1 : is_node g (- i) = true) by (apply H2; exact Hn').
    assert (He1 : is_edge g (- i) = true) by (apply H1; apply in_map_iff; exists x; tauto).
    rewrite (wf_node_edge_disjoint g (- i) (ex_intro _ a (ex_intro _ fl HS)) Hn1) in He1. discriminate.
Qed.

(* ---- insert_node ---- *)
Lemma insert_node_live g :
  wf g ->
  let '(x, g') := insert_node g in
  wf g' /\ 0 < x /\ graph_index g x = false /\ graph_index g (- x) = false /\
  forall j, graph_index g' j = (j =? x) || graph_index g j.
Proof.
  intros [a [fl HS]]. pose proof (insert_node_sim g a fl HS) as H.
  destruct (insert_node g) as [x g']. destruct H as (Hp & Hn & He & _ & S1).
  split; [eexists; eexists; exact S1|]. split; [exact Hp|].
  split.
  { destruct (graph_index g x) eqn:E; [|reflexivity]. apply (sim_graph_index g a fl HS) in E.
    destruct E as [[_ E]|[E _]]; [contradiction|lia]. }
  split.
  { destruct (graph_index g (- x)) eqn:E; [|reflexivity]. apply (sim_graph_index g a fl HS) in E.
    destruct E as [[E _]|[_ E]]; [lia|]. rewrite Z.opp_involutive in E. contradiction. }
  intros j. apply bool_eq_iff. rewrite (sim_graph_index g' _ _ S1), orb_true_iff, (sim_graph_index g a fl HS).
  cbn [a_nodes a_edges In]. rewrite Z.eqb_eq. split.
  - intros [[Hj [Hx|Hx]]|Hj]; [left; congruence|right; left; tauto|right; right; exact Hj].
  - intros [->|[[Hj Hx]|Hj]]; [left; tauto|left; tauto|right; exact Hj].
Qed.

(* ---- insert_edge (endpoints are live ids: db_id-resolved) ---- *)
Lemma live_node_pos g i : wf g -> graph_index g i = true -> is_node g i = true -> 0 < i.
Proof.
  intros Hwf Hg Hn. unfold graph_index in Hg. destruct (Z.ltb_spec i 0).
  - rewrite (wf_node_edge_disjoint g i Hwf Hn) in Hg. discriminate.
  - destruct (Z.ltb_spec 0 i); [assumption|discriminate].
Qed.

Lemma insert_edge_live g f t e g' :
  wf g -> graph_index g f = true -> graph_index g t = true ->
  insert_edge g f t = Some (e, g') ->
  wf g' /\ e < 0 /\ 0 < f /\ 0 < t /\ graph_index g e = false /\ graph_index g (- e) = false /\
  forall j, graph_index g' j = (j =? e) || graph_index g j.
Proof.
  intros Hwf Hf Ht Hi.
  assert (Hnn : is_node g f = true /\ is_node g t = true).
  { unfold insert_edge in Hi. destruct (is_node g f && is_node g t) eqn:E; [|discriminate].
    now apply andb_true_iff in E. }
  destruct Hnn as [Hnf Hnt].
  pose proof (live_node_pos g f Hwf Hf Hnf) as Hfp. pose proof (live_node_pos g t Hwf Ht Hnt) as Htp.
  destruct Hwf as [a [fl HS]].
  assert (Inf : In f (a_nodes a)).
  { apply (sim_graph_index g a fl HS) in Hf. destruct Hf as [[_ H]|[H _]]; [exact H|lia]. }
  assert (Int : In t (a_nodes a)).
  { apply (sim_graph_index g a fl HS) in Ht. destruct Ht as [[_ H]|[H _]]; [exact H|lia]. }
  destruct (insert_edge_sim g a fl f t HS Inf Int) as (x & g1 & E1 & Hp & Hn & He & _ & S1).
  rewrite E1 in Hi. inversion Hi; subst e g1. clear Hi.
  split; [eexists; eexists; exact S1|]. split; [lia|]. split; [exact Hfp|]. split; [exact Htp|].
  split.
  { destruct (graph_index g (- x)) eqn:E; [|reflexivity]. apply (sim_graph_index g a fl HS) in E.
    destruct E as [[E _]|[_ E]]; [lia|]. rewrite Z.opp_involutive in E. contradiction. }
  split.
  { rewrite Z.opp_involutive. destruct (graph_index g x) eqn:E; [|reflexivity].
    apply (sim_graph_index g a fl HS) in E. destruct E as [[_ E]|[E _]]; [contradiction|lia]. }
  intros j. apply bool_eq_iff. rewrite (sim_graph_index g' _ _ S1), orb_true_iff, (sim_graph_index g a fl HS).
  cbn [a_nodes a_edges map In eslot fst]. rewrite Z.eqb_eq. split.
  - intros [Hj|[Hj [Hx|Hx]]]; [right; left; exact Hj|left; lia|right; right; tauto].
  - intros [->|[Hj|[Hj Hx]]]; [right; split; [lia|left; lia]|left; exact Hj|right; tauto].
Qed.

(* ---- remove_edge (any non-positive id; absent ids are a no-op) ---- *)
Lemma remove_edge_live g e :
  wf g -> e < 0 ->
  exists g', remove_edge g e = Some g' /\ wf g' /\
             forall j, graph_index g' j = graph_index g j && negb (j =? e).
Proof.
  intros [a [fl HS]] He.
  destruct (gstep_sim g a fl (GRemoveEdge e) HS (Z.lt_le_incl e 0 He)) as (g1 & out & a1 & fl1 & E1 & E2 & S1).
  cbn [gstep] in E1. destruct (remove_edge g e) as [g2|]; [|discriminate].
  injection E1 as <- <-. cbn [astep] in E2. injection E2 as <-.
  exists g2. split; [reflexivity|]. split; [eexists; eexists; exact S1|].
  intros j. apply bool_eq_iff. rewrite (sim_graph_index g2 _ _ S1), andb_true_iff, (sim_graph_index g a fl HS).
  cbn [a_nodes a_edges]. rewrite map_eslot_remE, in_zrem, negb_true_iff, Z.eqb_neq. split.
  - intros [[Hp Hi]|[Hp [Hi Hne]]]; [split; [left; auto|lia]|split; [right; auto|lia]].
  - intros [[[Hp Hi]|[Hp Hi]] Hne]; [left; auto|right]. split; [assumption|]. split; [assumption|lia].
Qed.

(* ---- remove_node of a node without incident edges (DbImpl removes them first) ---- *)
Lemma filter_all {A} (f : A -> bool) l : (forall x, In x l -> f x = true) -> filter f l = l.
Proof.
  induction l as [|x l IH]; intros H; [reflexivity|]. cbn [filter].
  rewrite (H x (or_introl eq_refl)). f_equal. apply IH. intros y Hy. apply H. now right.
Qed.

Lemma remove_node_live_sim g a fl n :
  sim g a fl -> In n (a_nodes a) -> (forall x, In x (a_edges a) -> keep_edge n x = true) ->
  exists g', remove_node g n = Some g' /\ wf g' /\
             forall j, graph_index g' j = graph_index g j && negb (j =? n).
Proof.
  intros HS Hn Hkeep. destruct (remove_node_sim g a fl n HS Hn) as (g' & fl' & E & S1).
  exists g'. split; [exact E|]. split; [eexists; eexists; exact S1|].
  rewrite (filter_all _ _ Hkeep) in S1. pose proof (sim_nodes_pos g a fl HS n Hn) as Hnp.
  intros j. apply bool_eq_iff. rewrite (sim_graph_index g' _ _ S1), andb_true_iff, (sim_graph_index g a fl HS).
  cbn [a_nodes a_edges]. rewrite in_zrem, negb_true_iff, Z.eqb_neq. split.
  - intros [[Hp [Hi Hne]]|[Hp Hi]]; [split; [left; auto|exact Hne]|split; [right; auto|lia]].
  - intros [[[Hp Hi]|[Hp Hi]] Hne]; [left; auto|right; auto].
Qed.
