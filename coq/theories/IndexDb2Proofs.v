(* IndexDb2Proofs.v — C11, part 3: remove_all_values, creation of an index with back-fill,
   removal of an index, growth / shrinking of the set of live elements. *)
From Agdb Require Import Bytes DbValue Graph DbModel Search Queries DbValueEqProofs DbFrameProofs
  KvProofs KvDbProofs KvSelectProofs IndexProofs IndexDbProofs.
From Coq Require Import ZifyBool ZifyNat ZifyN.
Open Scope Z_scope.

(* the invariants only look at the values and the indexes *)
Lemma idx_exact_on_frame E d d' :
  vals d' = vals d -> indexes d' = indexes d -> idx_exact_on E d -> idx_exact_on E d'.
Proof. intros Hv Hi H key ids Hf P HP id. rewrite Hv. rewrite Hi in Hf. now apply H. Qed.

Lemma vals_live_on_frame E d d' : vals d' = vals d -> vals_live_on E d -> vals_live_on E d'.
Proof. intros Hv H i H1 H2. rewrite Hv. now apply H. Qed.

(* ---------- a new element becomes live ---------- *)
Definition E_add (E : Z -> bool) (i : Z) : Z -> bool := fun j => (j =? i) || E j.
Definition E_del (E : Z -> bool) (i : Z) : Z -> bool := fun j => E j && negb (j =? i).

Lemma E_ok_add E i : E_ok E -> i <> 0 -> E (- i) = false -> E_ok (E_add E i).
Proof.
  intros Hok Hi Hn j. unfold E_add. destruct (Z.eqb_spec j i) as [->|Hj]; cbn [orb].
  - intros _. rewrite Hn. destruct (Z.eqb_spec (- i) i); [lia|reflexivity].
  - intros Hj'. rewrite (Hok j Hj'). destruct (Z.eqb_spec (- j) i) as [E1|E1]; [|reflexivity].
    subst i. rewrite Z.opp_involutive in Hn. congruence.
Qed.

Lemma E_ok_del E i : E_ok E -> E_ok (E_del E i).
Proof.
  intros Hok j. unfold E_del. intros H. apply andb_true_iff in H. destruct H as [H _].
  now rewrite (Hok j H).
Qed.

Lemma idx_exact_on_add E d i :
  idx_exact_on E d -> vals_live_on E d -> E i = false -> E (- i) = false ->
  idx_exact_on (E_add E i) d.
Proof.
  intros Hd Hl H1 H2 key ids Hf P HP id. rewrite (Hd key ids Hf P HP id). unfold E_add.
  destruct (Z.eqb_spec id i) as [->|Hn]; cbn [orb]; [|reflexivity].
  rewrite H1, (Hl i H1 H2). reflexivity.
Qed.

Lemma vals_live_on_add E d i : vals_live_on E d -> vals_live_on (E_add E i) d.
Proof.
  intros Hl j H1 H2. unfold E_add in *. apply orb_false_iff in H1. apply orb_false_iff in H2.
  apply Hl; tauto.
Qed.

(* ---------- remove_all_values ---------- *)
Section RemoveAll.
  Variable id : Z.

  Definition rav_ix (ix : list index) (x : kv) : list index := idx_remove_id ix (fst x) (snd x) id.

  Lemma remove_all_values_indexes d :
    indexes (remove_all_values d id) = fold_left rav_ix (kvs_get (vals d) id) (indexes d).
  Proof.
    unfold remove_all_values. cbn [indexes with_vals].
    generalize (kvs_get (vals d) id) as l. intros l. revert d.
    induction l as [|x l IH]; intros d; cbn [fold_left]; [reflexivity|]. now rewrite IH.
  Qed.

  Lemma rav_fold todo : forall ix key ids',
    idx_find (fold_left rav_ix todo ix) key = Some ids' ->
    exists ids, idx_find ix key = Some ids /\
      ((forall Q, respects Q -> (cntK todo key Q <= cntP ids Q id)%nat) ->
       forall P, respects P -> forall id',
         cntP ids' P id' = (cntP ids P id' - (if (id' =? id)%Z then cntK todo key P else 0))%nat).
  Proof.
    induction todo as [|x todo IH]; intros ix key ids' Hf; cbn [fold_left] in Hf.
    - exists ids'. split; [exact Hf|]. intros _ P HP id'. rewrite cntK_nil. destruct (id' =? id); lia.
    - destruct (IH _ key ids' Hf) as (ids1 & Hf1 & H1). unfold rav_ix, idx_remove_id in Hf1.
      rewrite idx_find_update in Hf1. destruct (idx_find ix key) as [ids|]; [|discriminate].
      inversion Hf1 as [Hids1]. clear Hf1. exists ids. split; [reflexivity|].
      intros Hle P HP id'.
      assert (Hc : forall Q id'', respects Q ->
                cntP ids1 Q id'' = (cntP ids Q id'' - b2nat (dbv_eqb (fst x) key && Q (snd x) && (id =? id'')%Z))%nat).
      { intros Q id'' HQ. subst ids1. destruct (dbv_eqb (fst x) key) eqn:Ek; cbn [andb b2nat]; [|lia].
        rewrite (cntP_remove_first_pair ids (snd x) id Q id'' HQ).
        pose proof (Hle (fun w => dbv_eqb w (snd x)) (respects_eqb (snd x))) as H0.
        rewrite cntK_cons, Ek, dbv_eqb_refl in H0. cbn [andb b2nat] in H0.
        destruct (Nat.ltb_spec 0 (cntP ids (fun w => dbv_eqb w (snd x)) id)); [|lia]. reflexivity. }
      rewrite H1.
      + rewrite (Hc P id' HP), cntK_cons. rewrite (Z.eqb_sym id id').
        destruct (id' =? id); [|rewrite andb_false_r; cbn [b2nat]; lia].
        rewrite andb_true_r. lia.
      + intros Q HQ. rewrite (Hc Q id HQ), Z.eqb_refl, andb_true_r.
        pose proof (Hle Q HQ) as H0. rewrite cntK_cons in H0. lia.
      + exact HP.
  Qed.

  Lemma remove_all_values_exact E d :
    E_ok E -> idx_exact_on E d -> vals_live_on E d ->
    (E id = true \/ (E id = false /\ E (- id) = false)) ->
    idx_exact_on (E_del E id) (remove_all_values d id) /\ vals_live_on (E_del E id) (remove_all_values d id).
  Proof.
    intros Hok Hd Hl Hcase. split.
    - intros key ids' Hf P HP id'. rewrite remove_all_values_indexes in Hf.
      destruct (rav_fold _ _ _ _ Hf) as (ids & Hf0 & H1).
      assert (Hle : forall Q, respects Q -> (cntK (kvs_get (vals d) id) key Q <= cntP ids Q id)%nat).
      { intros Q HQ. pose proof (Hd key ids Hf0 Q HQ id) as H. destruct Hcase as [Hc|[Hc1 Hc2]].
        - rewrite Hc in H. lia.
        - rewrite (Hl id Hc1 Hc2), cntK_nil. lia. }
      rewrite (H1 Hle P HP id'). rewrite remove_all_values_get. unfold E_del.
      pose proof (Hd key ids Hf0 P HP id') as H.
      destruct (Z.eqb_spec id' id) as [->|Hn].
      + rewrite andb_false_r. rewrite H. destruct (E id); lia.
      + rewrite andb_true_r, H. rewrite Nat.sub_0_r.
        destruct (E id') eqn:Ei; [|reflexivity].
        destruct (Z.eqb_spec (Z.abs id) (Z.abs id')) as [Ha|Ha]; [|reflexivity].
        apply abs_cases in Ha. destruct Ha as [Ha|Ha]; [congruence|]. subst id'.
        destruct Hcase as [Hc|[Hc1 Hc2]]; [rewrite (Hok id Hc) in Ei|]; congruence.
    - intros i H1 H2. rewrite remove_all_values_get.
      destruct (Z.eqb_spec (Z.abs id) (Z.abs i)) as [Ha|Ha]; [reflexivity|].
      unfold E_del in *. apply Hl.
      + destruct (Z.eqb_spec i id); [lia|]. now rewrite andb_true_r in H1.
      + destruct (Z.eqb_spec (- i) id); [lia|]. now rewrite andb_true_r in H2.
  Qed.

  Lemma remove_all_values_index_keys d :
    map fst (indexes (remove_all_values d id)) = map fst (indexes d).
  Proof.
    rewrite remove_all_values_indexes. apply fold_left_inv; [reflexivity|].
    intros ix x _ H. unfold rav_ix, idx_remove_id. now rewrite idx_update_keys.
  Qed.
End RemoveAll.

(* ---------- remove_index ---------- *)
Lemma remove_index_spec d key :
  idx_keys_distinct (indexes d) ->
  let r := remove_index d key in
  gr (snd r) = gr d /\ aliases (snd r) = aliases d /\ vals (snd r) = vals d /\
  (forall key', idx_find (indexes (snd r)) key' = if dbv_eqb key key' then None else idx_find (indexes d) key') /\
  idx_keys_distinct (indexes (snd r)) /\
  fst r = match idx_find (indexes d) key with Some ids => Z.of_nat (length ids) | None => 0 end.
Proof.
  intros Hdist. unfold remove_index. destruct (idx_find (indexes d) key) as [ids|] eqn:F; cbv zeta; cbn [fst snd].
  - set (d1 := fold_left _ ids d).
    assert (H1 : gr d1 = gr d /\ aliases d1 = aliases d /\ vals d1 = vals d /\ indexes d1 = indexes d).
    { subst d1. apply (fold_left_inv (fun a => gr a = gr d /\ aliases a = aliases d /\ vals a = vals d /\ indexes a = indexes d));
        [repeat split|]. intros a p _ H. exact H. }
    destruct H1 as (A & B & C & D). cbn [gr aliases vals indexes with_indexes push_undo]. rewrite D.
    repeat split; try assumption.
    + intros key'. now apply idx_find_remove.
    + now apply idx_remove_distinct.
  - repeat split; try assumption. intros key'.
    destruct (dbv_eqb key key') eqn:E; [|reflexivity].
    apply idx_find_none_mem. rewrite <- (mem_congr _ key key' E). now apply idx_find_none_mem.
Qed.

Lemma remove_index_exact E d key :
  idx_keys_distinct (indexes d) -> idx_exact_on E d -> idx_exact_on E (snd (remove_index d key)).
Proof.
  intros Hdist Hd key' ids Hf P HP id.
  destruct (remove_index_spec d key Hdist) as (_ & _ & Hv & Hfind & _). cbv zeta in *.
  rewrite Hfind in Hf. destruct (dbv_eqb key key'); [discriminate|]. rewrite Hv. now apply Hd.
Qed.

(* ---------- insert_index: back-fill ---------- *)
Section Backfill.
  Variable d : db.
  Variable key : dbvalue.

  Definition chosen (i : nat) : Z := if is_node (gr d) (Z.of_nat i) then Z.of_nat i else - Z.of_nat i.

  (* the entries contributed by the element in slot i, in map order *)
  Definition slot_pairs (i : nat) : list (dbvalue * Z) :=
    map (fun x : kv => (snd x, chosen i)) (filter (fun x : kv => dbv_eqb (fst x) key) (kvs_get (vals d) (Z.of_nat i))).

  Definition bf_inner (id : Z) (a : db) (x : kv) : db :=
    if dbv_eqb (fst x) key then index_insert_if a key (snd x) id else a.
  Definition bf_outer (acc : db) (i : nat) : db :=
    let iz := Z.of_nat i in
    let id := if is_node (gr acc) iz then iz else - iz in
    fold_left (bf_inner id) (kvs_get (vals acc) iz) acc.

  Definition append_pairs (ix : list index) (ps : list (dbvalue * Z)) : list index :=
    fold_left (fun ix p => idx_insert_id ix key (fst p) (snd p)) ps ix.

  Lemma bf_inner_fold id l : forall a,
    let a' := fold_left (bf_inner id) l a in
    gr a' = gr a /\ vals a' = vals a /\ aliases a' = aliases a /\ undo a' = undo a /\
    indexes a' = append_pairs (indexes a)
                   (map (fun x : kv => (snd x, id)) (filter (fun x : kv => dbv_eqb (fst x) key) l)).
  Proof.
    induction l as [|x l IH]; intros a; cbv zeta; cbn [fold_left filter map]; [repeat split|].
    pose proof (IH (bf_inner id a x)) as H. cbv zeta in H. destruct H as (A & B & C & D & F).
    assert (S : gr (bf_inner id a x) = gr a /\ vals (bf_inner id a x) = vals a /\
                aliases (bf_inner id a x) = aliases a /\ undo (bf_inner id a x) = undo a /\
                indexes (bf_inner id a x) =
                  if dbv_eqb (fst x) key then idx_insert_id (indexes a) key (snd x) id else indexes a).
    { unfold bf_inner. destruct (dbv_eqb (fst x) key); repeat split. }
    destruct S as (S1 & S2 & S3 & S4 & S5).
    rewrite A, B, C, D, F, S1, S2, S3, S4, S5. repeat split.
    destruct (dbv_eqb (fst x) key); reflexivity.
  Qed.

  Lemma append_pairs_app ix a b : append_pairs ix (a ++ b) = append_pairs (append_pairs ix a) b.
  Proof. unfold append_pairs. apply fold_left_app. Qed.

  Lemma bf_outer_fold slots : forall a,
    gr a = gr d -> vals a = vals d ->
    let a' := fold_left bf_outer slots a in
    gr a' = gr d /\ vals a' = vals d /\ aliases a' = aliases a /\ undo a' = undo a /\
    indexes a' = append_pairs (indexes a) (flat_map slot_pairs slots).
  Proof.
    induction slots as [|i slots IH]; intros a Hg Hv; cbv zeta; cbn [fold_left flat_map]; [repeat split; assumption|].
    unfold bf_outer at 2 4 6 8 10. cbv zeta.
    pose proof (bf_inner_fold (if is_node (gr a) (Z.of_nat i) then Z.of_nat i else - Z.of_nat i)
                              (kvs_get (vals a) (Z.of_nat i)) a) as H. cbv zeta in H.
    destruct H as (A & B & C & D & F).
    match type of A with gr ?t = _ => set (a1 := t) in * end.
    assert (Hg1 : gr a1 = gr d) by congruence. assert (Hv1 : vals a1 = vals d) by congruence.
    pose proof (IH a1 Hg1 Hv1) as H. cbv zeta in H. destruct H as (A' & B' & C' & D' & F').
    repeat split; try congruence.
    rewrite F', F, append_pairs_app. unfold slot_pairs, chosen. now rewrite Hg, Hv.
  Qed.

  Lemma idx_find_append_pairs ps : forall ix key',
    idx_find (append_pairs ix ps) key' =
    match idx_find ix key' with
    | Some ids => Some (if dbv_eqb key key' then ids ++ ps else ids)
    | None => None
    end.
  Proof.
    induction ps as [|p ps IH]; intros ix key'; cbn [append_pairs fold_left].
    - destruct (idx_find ix key'); [|reflexivity]. rewrite app_nil_r. now destruct (dbv_eqb key key').
    - fold (append_pairs (idx_insert_id ix key (fst p) (snd p)) ps). rewrite IH.
      unfold idx_insert_id. rewrite idx_find_update.
      destruct (idx_find ix key') as [ids|]; [|reflexivity].
      destruct (dbv_eqb key key'); [|reflexivity]. rewrite <- app_assoc. cbn [app].
      now destruct p.
  Qed.

  Lemma cntP_flat_map {A} (g : A -> list (dbvalue * Z)) (l : list A) P id :
    cntP (flat_map g l) P id = list_sum (map (fun i => cntP (g i) P id) l).
  Proof.
    induction l as [|x l IH]; cbn [flat_map map list_sum]; [reflexivity|]. now rewrite cntP_app, IH.
  Qed.

  Lemma cntP_slot_pairs i P id :
    cntP (slot_pairs i) P id = if chosen i =? id then cntK (kvs_get (vals d) (Z.of_nat i)) key P else 0%nat.
  Proof.
    unfold slot_pairs. generalize (kvs_get (vals d) (Z.of_nat i)) as l.
    induction l as [|x l IH]; cbn [filter map]; [now destruct (chosen i =? id)|].
    rewrite cntK_cons. destruct (dbv_eqb (fst x) key); cbn [map andb].
    - rewrite cntP_cons, IH. cbn [fst snd]. destruct (chosen i =? id); [|rewrite andb_false_r; reflexivity].
      now rewrite andb_true_r.
    - rewrite IH. cbn [b2nat]. destruct (chosen i =? id); reflexivity.
  Qed.

  Lemma list_sum_single (f : nat -> nat) (j : nat) (a n : nat) :
    (forall i, i <> j -> f i = 0%nat) ->
    list_sum (map f (seq a n)) = if (Nat.leb a j && Nat.ltb j (a + n))%bool then f j else 0%nat.
  Proof.
    intros H. revert a. induction n as [|n IH]; intros a; cbn [seq map];
      [|change (list_sum (f a :: map f (seq (S a) n))) with (f a + list_sum (map f (seq (S a) n)))%nat].
    - cbn [list_sum fold_right]. destruct (Nat.leb_spec a j), (Nat.ltb_spec j (a + 0)); cbn [andb]; try reflexivity. lia.
    - rewrite IH. destruct (Nat.eq_dec a j) as [->|Hn].
      + destruct (Nat.leb_spec (S j) j); [lia|]. cbn [andb].
        destruct (Nat.leb_spec j j); [|lia]. destruct (Nat.ltb_spec j (j + S n)); [|lia]. cbn [andb]. lia.
      + rewrite (H a Hn).
        replace (Nat.leb (S a) j) with (Nat.leb a j)
          by (destruct (Nat.leb_spec (S a) j), (Nat.leb_spec a j); try reflexivity; lia).
        replace (a + S n)%nat with (S a + n)%nat by lia. reflexivity.
  Qed.

  Lemma chosen_abs i id' : chosen i = id' -> i = zabs_nat id'.
  Proof. unfold chosen, zabs_nat. destruct (is_node (gr d) (Z.of_nat i)); lia. Qed.

  Lemma is_node_neg g i : is_node g (- i) = is_node g i.
  Proof.
    unfold is_node, valid_index, fmeta, from, get, zabs_nat, capacity.
    rewrite Z.abs_opp. replace (- i =? 0) with (i =? 0) by lia. reflexivity.
  Qed.

  Lemma node_not_edge g i : is_node g i = true -> is_edge g i = false.
  Proof.
    unfold is_node, is_edge. intros H. apply andb_true_iff in H. destruct H as [H1 H2].
    rewrite H1. cbn [andb]. lia.
  Qed.

  (* the entries of the freshly filled index *)
  Lemma backfill_count P id' :
    vals_live_on (graph_index (gr d)) d ->
    cntP (flat_map slot_pairs (seq 1 (length (vals d) - 1))) P id' =
    if graph_index (gr d) id' then cntK (kvs_get (vals d) id') key P else 0%nat.
  Proof.
    intros Hl. rewrite cntP_flat_map.
    rewrite (list_sum_single (fun i => cntP (slot_pairs i) P id') (zabs_nat id')).
    2:{ intros i Hi. rewrite cntP_slot_pairs. destruct (Z.eqb_spec (chosen i) id') as [Hc|]; [|reflexivity].
        apply chosen_abs in Hc. contradiction. }
    rewrite cntP_slot_pairs.
    assert (Hk : kvs_get (vals d) (Z.of_nat (zabs_nat id')) = kvs_get (vals d) id').
    { apply kvs_get_abs. unfold zabs_nat. lia. }
    rewrite Hk.
    assert (Hz : Z.of_nat (zabs_nat id') = Z.abs id') by (unfold zabs_nat; lia).
    destruct (graph_index (gr d) id') eqn:Eg.
    - (* live: the chosen sign is the sign of id' *)
      assert (Hch : chosen (zabs_nat id') = id').
      { unfold chosen. rewrite Hz. unfold graph_index in Eg.
        destruct (Z.ltb_spec id' 0).
        - assert (Hn : is_node (gr d) (Z.abs id') = false).
          { replace (Z.abs id') with (- id') by lia. rewrite is_node_neg.
            destruct (is_node (gr d) id') eqn:En; [|reflexivity]. apply node_not_edge in En. congruence. }
          rewrite Hn. lia.
        - destruct (Z.ltb_spec 0 id'); [|discriminate].
          replace (Z.abs id') with id' by lia. rewrite Eg. reflexivity. }
      rewrite Hch, Z.eqb_refl.
      destruct (Nat.leb_spec 1 (zabs_nat id')) as [H1|H1].
      + destruct (Nat.ltb_spec (zabs_nat id') (1 + (length (vals d) - 1))) as [H2|H2]; [reflexivity|].
        cbn [andb]. unfold kvs_get. rewrite nth_overflow by lia. reflexivity.
      + cbn [andb]. unfold graph_index in Eg. assert (id' = 0) by (unfold zabs_nat in H1; lia). subst id'.
        cbn in Eg. discriminate.
    - destruct (Nat.leb 1 (zabs_nat id') && Nat.ltb (zabs_nat id') (1 + (length (vals d) - 1)))%bool; [|reflexivity].
      destruct (Z.eqb_spec (chosen (zabs_nat id')) id') as [Hc|]; [|reflexivity].
      (* the slot's chosen id is dead: the slot is empty *)
      assert (He : kvs_get (vals d) id' = []).
      { unfold chosen in Hc. rewrite Hz in Hc.
        destruct (is_node (gr d) (Z.abs id')) eqn:En.
        - exfalso. assert (id' = Z.abs id') by lia. rewrite <- H in En.
          unfold graph_index in Eg. destruct (Z.ltb_spec id' 0); [lia|].
          destruct (Z.ltb_spec 0 id'); [congruence|]. assert (id' = 0) by lia. subst id'.
          unfold is_node, valid_index in En. cbn in En. discriminate.
        - apply Hl; [exact Eg|]. unfold graph_index.
          destruct (Z.ltb_spec (- id') 0); [lia|]. destruct (Z.ltb_spec 0 (- id')); [|reflexivity].
          replace (- id') with (Z.abs id') by lia. exact En. }
      rewrite He. reflexivity.
  Qed.
End Backfill.
