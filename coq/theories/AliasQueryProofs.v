(* AliasQueryProofs.v — C10 at the query layer: InsertAliases rejects empty aliases and (after the
   fix) edge ids; alias resolution and SelectAliases agree with the alias map; the pre-fix witness. *)
From Agdb Require Import Bytes BytesProofs DbValue Graph DbModel Search Queries Revisions
  AssocProofs ImapProofs DbFrameProofs AliasProofs QStepProofs.
Open Scope Z_scope.

Lemma in_combine_snd {A B} (l1 : list A) (l2 : list B) (y : B) :
  length l1 = length l2 -> In y l2 -> exists x, In (x, y) (combine l1 l2).
Proof.
  revert l2. induction l1 as [|a l1 IH]; intros [|b l2] Hlen Hin; cbn in *; try contradiction; try discriminate.
  destruct Hin as [->|Hin].
  - exists a. now left.
  - destruct (IH l2 (eq_add_S _ _ Hlen) Hin) as [x Hx]. exists x. now right.
Qed.

Lemma in_combine_fst {A B} (l1 : list A) (l2 : list B) (x : A) :
  length l1 = length l2 -> In x l1 -> exists y, In (x, y) (combine l1 l2).
Proof.
  revert l2. induction l1 as [|a l1 IH]; intros [|b l2] Hlen Hin; cbn in *; try contradiction; try discriminate.
  destruct Hin as [->|Hin].
  - exists b. now left.
  - destruct (IH l2 (eq_add_S _ _ Hlen) Hin) as [y Hy]. exists y. now right.
Qed.

Section AliasQueries.
  Variable rv : revision.

  (* the element step of InsertAliasesQuery *)
  Definition ia_step (a : db) (n : Z) (t : qid * bytes) : step Z :=
    let '(q, al) := t in
    match al with
    | [] => StErr a ENotAllowed
    | _ =>
      match db_id a q with
      | RErr e => StErr a e
      | ROk id =>
        if fix_alias_nodes_only rv && (id <? 0) then StErr a ENotAllowed
        else StOk (insert_alias rv a id al) (n + 1)
      end
    end.

  Lemma insert_aliases_unfold d l (als : list bytes) :
    insert_aliases rv d (Ids l) als =
    if negb (Nat.eqb (length l) (length als)) then StErr d ENotEnoughData
    else match st_fold ia_step d 0 (combine l als) with
         | StOk d1 n => StOk d1 (n, [])
         | StErr d1 e => StErr d1 e
         | StPanic d1 => StPanic d1
         end.
  Proof. reflexivity. Qed.

  Lemma ia_step_no_panic a n t : match ia_step a n t with StPanic _ => False | _ => True end.
  Proof.
    destruct t as [q [|b al]]; cbn [ia_step]; [exact I|].
    destruct (db_id a q); [|exact I].
    destruct (fix_alias_nodes_only rv && (a0 <? 0)); exact I.
  Qed.

  Lemma insert_aliases_no_panic d ids (als : list bytes) :
    match insert_aliases rv d ids als with StPanic _ => False | _ => True end.
  Proof.
    destruct ids as [l|s]; [|exact I]. rewrite insert_aliases_unfold.
    destruct (negb (Nat.eqb _ _)); [exact I|].
    pose proof (st_fold_no_panic ia_step (combine l als) d 0 ia_step_no_panic) as H.
    destruct (st_fold ia_step d 0 (combine l als)); [exact I|exact I|contradiction].
  Qed.

  (* an empty alias anywhere in the list makes the query fail *)
  Lemma insert_aliases_empty_rejected d ids (als : list bytes) :
    In ([] : bytes) als -> step_is_ok (insert_aliases rv d ids als) = false.
  Proof.
    intros Hin. destruct ids as [l|s]; [|reflexivity]. rewrite insert_aliases_unfold.
    destruct (Nat.eqb _ _) eqn:El; cbn [negb]; [|reflexivity].
    apply Nat.eqb_eq in El. destruct (in_combine_snd l als [] El Hin) as [q Hq].
    pose proof (st_fold_not_ok ia_step (combine l als) (q, []) d 0 Hq (fun _ _ => eq_refl)) as H.
    destruct (st_fold ia_step d 0 (combine l als)); [discriminate|reflexivity|reflexivity].
  Qed.

  (* after the fix: an edge id anywhere in the list makes the query fail *)
  Lemma insert_aliases_edge_rejected d l (als : list bytes) id :
    fix_alias_nodes_only rv = true -> In (QId id) l -> id < 0 ->
    step_is_ok (insert_aliases rv d (Ids l) als) = false.
  Proof.
    intros Hfix Hin Hneg. rewrite insert_aliases_unfold.
    destruct (Nat.eqb _ _) eqn:El; cbn [negb]; [|reflexivity].
    apply Nat.eqb_eq in El. destruct (in_combine_fst l als (QId id) El Hin) as [al Hq].
    assert (Hx : forall a n, step_is_ok (ia_step a n (QId id, al)) = false).
    { intros a n. cbn [ia_step]. destruct al as [|b al]; [reflexivity|].
      cbn [db_id]. destruct (graph_index (gr a) id); [|reflexivity].
      rewrite Hfix, (proj2 (Z.ltb_lt id 0) Hneg). reflexivity. }
    pose proof (st_fold_not_ok ia_step (combine l als) (QId id, al) d 0 Hq Hx) as H.
    destruct (st_fold ia_step d 0 (combine l als)); [discriminate|reflexivity|reflexivity].
  Qed.

  (* a failing InsertAliases makes `exec` report an error *)
  Lemma exec_insert_aliases_err d ids (als : list bytes) :
    step_is_ok (insert_aliases rv d ids als) = false ->
    exists e, snd (exec rv d (InsertAliases ids als)) = QErr e.
  Proof.
    intros Hno. unfold exec, exec_in_txn. cbn [is_mutating exec_mut_step].
    pose proof (insert_aliases_no_panic d ids als) as Hp.
    destruct (insert_aliases rv d ids als) as [d1 [n els]|d1 e|d1]; [discriminate| |contradiction].
    destruct (rollback rv d1); cbn [snd]; eauto.
  Qed.

  (* when the very first alias is empty nothing has been touched at all *)
  Lemma exec_insert_aliases_empty_first d q l (als : list bytes) :
    undo d = [] -> length l = length als ->
    exec rv d (InsertAliases (Ids (q :: l)) ([] :: als)) = (d, QErr ENotAllowed).
  Proof.
    intros Hu Hlen. unfold exec, exec_in_txn. cbn [is_mutating exec_mut_step].
    rewrite insert_aliases_unfold. cbn [length]. rewrite Hlen, Nat.eqb_refl. cbn [negb combine st_fold ia_step].
    unfold rollback. rewrite Hu. cbn [rollback_cmds]. now rewrite (clear_undo_id d Hu).
  Qed.

  (* ---- reading the mapping ---- *)
  Lemma select_alias_of_id d id :
    select_aliases rv d (Ids [QId id]) =
    match imap_key (aliases d) id with
    | Some a => QOk 1 [elem d id [alias_kv a]]
    | None => QErr ENotFound
    end.
  Proof. cbn [select_aliases]. destruct (imap_key (aliases d) id); reflexivity. Qed.

  Lemma select_alias_by_alias d a :
    select_aliases rv d (Ids [QAlias a]) =
    match imap_value (aliases d) a with
    | Some id => QOk 1 [elem d id [alias_kv a]]
    | None => QErr ENotFound
    end.
  Proof. cbn [select_aliases db_id]. destruct (imap_value (aliases d) a); reflexivity. Qed.

  Lemma alias_kv_inj a b : alias_kv a = alias_kv b -> a = b.
  Proof. unfold alias_kv. intros H. now inversion H. Qed.

  (* resolving alias `a` gives `id`  <->  selecting the alias of `id` gives `a` *)
  Lemma resolve_select_agree d a id :
    alias_bij d ->
    (db_id d (QAlias a) = ROk id <->
     select_aliases rv d (Ids [QId id]) = QOk 1 [elem d id [alias_kv a]]).
  Proof.
    intros Hb. rewrite db_id_alias, select_alias_of_id, (bij_value_key _ a id Hb).
    destruct (imap_key (aliases d) id) as [a'|]; split; intros H; try discriminate.
    - now inversion H.
    - f_equal. apply alias_kv_inj. now inversion H.
  Qed.
End AliasQueries.

(* ---- the defect of the pinned code: an alias can be attached to an edge ---- *)
Definition c10_history : list query :=
  [InsertNodes 2 (Single []) [] (Ids []);
   InsertEdges (Ids [QId 1]) (Ids [QId 2]) (Single []) false (Ids []);
   InsertAliases (Ids [QId (-3)]) [[x65]]].

Lemma c10_pinned_witness :
  let d := exec_all rv_pinned db_new c10_history in
  imap_value (aliases d) [x65] = Some (-3) /\ is_edge (gr d) (-3) = true /\ graph_index (gr d) 3 = false /\
  ~ alias_nodes d.
Proof.
  cbv zeta. split; [vm_compute; reflexivity|]. split; [vm_compute; reflexivity|].
  split; [vm_compute; reflexivity|].
  intros H. specialize (H [x65] (-3)).
  assert (E : imap_value (aliases (exec_all rv_pinned db_new c10_history)) [x65] = Some (-3)) by (vm_compute; reflexivity).
  apply H in E. destruct E as [E _]. discriminate.
Qed.

Lemma c10_fixed_witness :
  let d2 := exec_all rv_fixed db_new (firstn 2 c10_history) in
  exec rv_fixed d2 (InsertAliases (Ids [QId (-3)]) [[x65]]) = (d2, QErr ENotAllowed).
Proof. vm_compute. reflexivity. Qed.
