(* StoredDbOpsLinkDec2.v — proofs (stored database, part 37): so_covered2 (a removal needs no property) is decidable too. *)
From Agdb Require Import Bytes DbValue ValueIndex Graph DbModel Search Queries Revisions Collections CollValues CollVecBase CollElems CollValuesProofs
  StoredDbOps StoredDbOpsDb3 StoredDbOpsQuery StoredDbOpsLink StoredDbOpsLinkHist StoredDbOpsLinkDec StoredDbOpsLinkHist2.
From Coq Require Import Bool ZifyBool ZifyNat ZifyN.
Open Scope Z_scope.

Definition so_coveredb2 (d : db) (c : so_cq) : bool :=
  match c with
  | CqRemove id =>
    (capacity (gr d) <? 1152921504606846976) &&
    forallb (fun x : kv => not_indexedb d (fst x)) (kvs_get (vals d) id) &&
    ((id <? 0) && is_edge (gr d) id ||
     (0 <? id) && is_node (gr d) id && is_none (imap_key (aliases d) id) && (from (gr d) id =? 0) && (to (gr d) id =? 0))
  | _ => so_coveredb d c
  end.

Theorem so_coveredb2_iff d c : so_coveredb2 d c = true <-> so_covered2 d c.
Proof.
  destruct c as [l|id l|f t|id]; try apply so_coveredb_iff.
  unfold so_coveredb2, so_covered2, so_cap_ok.
  rewrite !andb_true_iff, orb_true_iff, !andb_true_iff, !Z.ltb_lt, !Z.eqb_eq, forallb_forall.
  assert (B : is_none (imap_key (aliases d) id) = true <-> imap_key (aliases d) id = None).
  { destruct (imap_key (aliases d) id); cbn [is_none]; split; congruence. }
  assert (C : (forall x : kv, In x (kvs_get (vals d) id) -> not_indexedb d (fst x) = true) <->
              (forall x : kv, In x (kvs_get (vals d) id) -> idx_find (indexes d) (fst x) = None)).
  { split; intros H x Hx; apply not_indexedb_iff; apply H; exact Hx. }
  rewrite B, C. tauto.
Qed.
