(* AuthProofsPerm.v — callers without write permission never change a database; a removed role stays
   removed; the guards imply the documented permission (C24). *)
From Agdb Require Import Bytes Auth AuthProofs AuthProofsTokens.
From Coq Require Import Lia ZifyBool ZifyN.
Open Scope N_scope.

Arguments N.add : simpl never.
Arguments N.ltb : simpl never.
Arguments N.leb : simpl never.
Arguments N.eqb : simpl never.

(* ---------- projections of one database out of the state ---------- *)

Definition proj {A} (g : dbrec -> A) (dbs : list dbrec) (o d : N) : option A :=
  match find_db dbs o d with Some r => Some (g r) | None => None end.

(* content and audit log of database (o, d), if it exists *)
Definition db_view (s : state) (o d : N) : option (content * list aentry) :=
  proj (fun r => (d_content r, d_audit r)) (s_dbs s) o d.

Lemma db_is_diff : forall o' d' o d r,
  (o' =? o) && (d' =? d) = false -> db_is o' d' r = true -> db_is o d r = false.
Proof.
  unfold db_is. intros o' d' o d r K H. apply Bool.andb_true_iff in H. destruct H as [H1 H2].
  apply N.eqb_eq in H1, H2. subst. rewrite N.eqb_sym in K. rewrite (N.eqb_sym (d_name r) d). rewrite N.eqb_sym. rewrite (N.eqb_sym d). exact K.
Qed.

Lemma proj_app_other : forall {A} (g : dbrec -> A) l x o d,
  db_is o d x = false -> proj g (l ++ [x]) o d = proj g l o d.
Proof.
  intros A g l x o d H. unfold proj, find_db. induction l as [|a l IH]; cbn.
  - rewrite H. reflexivity.
  - destruct (db_is o d a); [reflexivity|exact IH].
Qed.

Lemma proj_app_some : forall {A} (g : dbrec -> A) l x o d r,
  find_db l o d = Some r -> proj g (l ++ [x]) o d = proj g l o d.
Proof.
  intros A g l x o d r H. unfold proj, find_db in *. induction l as [|a l IH]; cbn in *; [discriminate|].
  destruct (db_is o d a); [reflexivity|apply IH; exact H].
Qed.

Lemma proj_update_other : forall {A} (g : dbrec -> A) l o' d' f o d,
  (o' =? o) && (d' =? d) = false ->
  (forall r, db_is o' d' r = true -> db_is o d (f r) = false) ->
  proj g (update_db l o' d' f) o d = proj g l o d.
Proof.
  intros A g l o' d' f o d K F. unfold proj, find_db, update_db. induction l as [|a l IH]; cbn; [reflexivity|].
  destruct (db_is o' d' a) eqn:E.
  - rewrite (F a E). rewrite (db_is_diff _ _ _ _ _ K E). exact IH.
  - destruct (db_is o d a); [reflexivity|exact IH].
Qed.

Lemma proj_update_keep : forall {A} (g : dbrec -> A) l o' d' f o d,
  (forall r, d_owner (f r) = d_owner r /\ d_name (f r) = d_name r /\ g (f r) = g r) ->
  proj g (update_db l o' d' f) o d = proj g l o d.
Proof.
  intros A g l o' d' f o d F. unfold proj, find_db, update_db. induction l as [|a l IH]; cbn; [reflexivity|].
  destruct (db_is o' d' a) eqn:E.
  - destruct (F a) as (F1 & F2 & F3). unfold db_is at 1. rewrite F1, F2. fold (db_is o d a).
    destruct (db_is o d a); [rewrite F3; reflexivity|exact IH].
  - destruct (db_is o d a); [reflexivity|exact IH].
Qed.

Lemma proj_remove_other : forall {A} (g : dbrec -> A) l o' d' o d,
  (o' =? o) && (d' =? d) = false -> proj g (remove_db l o' d') o d = proj g l o d.
Proof.
  intros A g l o' d' o d K. unfold proj, find_db, remove_db. induction l as [|a l IH]; cbn; [reflexivity|].
  destruct (db_is o' d' a) eqn:E; cbn.
  - rewrite (db_is_diff _ _ _ _ _ K E). exact IH.
  - destruct (db_is o d a); [reflexivity|exact IH].
Qed.

(* ---------- operations on OTHER databases never touch (o, d) ---------- *)

Ltac other_side K U :=
  first
    [ reflexivity
    | apply proj_app_other; unfold db_is; cbn [d_owner d_name]; first [exact K | (apply Bool.andb_false_iff; left; apply N.eqb_neq; exact U)]
    | apply proj_remove_other; exact K
    | apply proj_update_other; [exact K|];
      let r0 := fresh "r0" in let H0 := fresh "H0" in
      intros r0 H0; unfold db_is; cbn;
      first [ exact (db_is_diff _ _ _ _ _ K H0)
            | (apply Bool.andb_false_iff; left; apply N.eqb_neq; exact U) ] ].

Lemma apply_db_other : forall {A} (g : dbrec -> A) s u o' d' op o d,
  (o' =? o) && (d' =? d) = false -> u <> o ->
  proj g (s_dbs (snd (apply_db s u o' d' op u))) o d = proj g (s_dbs s) o d.
Proof.
  intros A g s u o' d' op o d K U. unfold apply_db.
  destruct (find_db (s_dbs s) o' d') as [r'|] eqn:F; destruct op; cbn [snd fst];
    dm; cbn [snd with_dbs with_dbs_disk s_dbs]; other_side K U.
Qed.

(* ---------- callers without write permission ---------- *)

(* the caller of a request is unauthenticated, or is neither the server admin nor the owner name o
   and holds no role or only Read on (o, d) *)
Definition weak (s : state) (now : N) (tok : option N) (o d : N) : Prop :=
  match user_of_token s now tok with
  | None => True
  | Some u => u <> s_admin s /\ u <> o /\ (role_of s u o d = None \/ role_of s u o d = Some RoRead)
  end.

Ltac split_ifs H :=
  repeat match type of H with
         | context [if ?c then _ else _] => destruct c eqn:?
         | context [match ?c with _ => _ end] => destruct c eqn:?
         end.

Lemma apply_db_same_weak : forall s u o d op,
  authorize_db s u o d op = Allow -> u <> o ->
  (role_of s u o d = None \/ role_of s u o d = Some RoRead) ->
  db_view (snd (apply_db s u o d op u)) o d = db_view s o d.
Proof.
  intros s u o d op A U R.
  assert (E1 : (u =? o) = false) by (apply N.eqb_neq; exact U).
  assert (E2 : (o =? u) = false) by (apply N.eqb_neq; intros C; apply U; symmetry; exact C).
  unfold db_view, apply_db.
  destruct op; unfold authorize_db, is_db_admin in A; rewrite ?E1, ?E2 in A; cbn [negb] in A;
    destruct R as [R|R]; try rewrite R in A; cbn in A; try discriminate A;
    split_ifs A; try discriminate A;
    destruct (find_db (s_dbs s) o d) as [r|] eqn:F; cbn [snd fst]; try reflexivity;
    dm; cbn [snd with_dbs s_dbs]; try reflexivity.
  all: try (apply proj_app_some with (r := r); exact F).
  all: try (apply proj_update_keep; intros x; cbn; auto).
Qed.

Lemma weak_step_view : forall s now tok req o d,
  weak s now tok o d -> db_view (snd (step s now tok req)) o d = db_view s o d.
Proof.
  intros s now tok req o d W. unfold step. destruct (authorize s now tok req) eqn:A; [|reflexivity].
  unfold weak in W.
  destruct req; cbn [apply snd]; try reflexivity.
  - (* ReqDb *)
    cbn [authorize] in A. destruct (user_of_token s now tok) as [u|] eqn:Ut; [|discriminate A].
    destruct W as (W1 & W2 & W3).
    destruct ((o0 =? o) && (d0 =? d)) eqn:K.
    + apply Bool.andb_true_iff in K. destruct K as [K1 K2]. apply N.eqb_eq in K1, K2. subst o0 d0.
      apply apply_db_same_weak; assumption.
    + unfold db_view. apply apply_db_other; assumption.
  - (* ReqAdminDb *)
    cbn [authorize] in A. destruct (user_of_token s now tok) as [u|] eqn:Ut; [|discriminate A].
    destruct W as (W1 & _). apply N.eqb_neq in W1. rewrite W1 in A. discriminate A.
  - (* admin user delete *)
    cbn [authorize] in A. destruct (user_of_token s now tok) as [cu|] eqn:Ut; [|discriminate A].
    destruct W as (W1 & _). apply N.eqb_neq in W1. rewrite W1 in A. cbn in A. discriminate A.
Qed.

Fixpoint all_weak (s : state) (tr : list event) (o d : N) : Prop :=
  match tr with
  | [] => True
  | (now, tok, req) :: t => weak s now tok o d /\ all_weak (snd (step s now tok req)) t o d
  end.

(* over ANY request sequence whose callers all lack write permission on (o, d), the content and the
   audit log of (o, d) (and its existence) never change *)
Theorem weak_run_view : forall tr s o d,
  all_weak s tr o d -> db_view (run s tr) o d = db_view s o d.
Proof.
  induction tr as [|[[now tok] req] tr IH]; intros s o d H; cbn [run]; [reflexivity|].
  destruct H as [H1 H2]. rewrite (IH _ _ _ H2). apply weak_step_view. exact H1.
Qed.

(* ---------- the guards imply the documented permission ---------- *)

(* what the documentation requires, spelled out on the state *)
Definition permitted (s : state) (u o d : N) (op : dbop) : Prop :=
  match doc_perm (tag_of op) with
  | POwner => u = o
  | PAdmin => role_of s u o d = Some RoAdmin
  | PWrite => role_of s u o d = Some RoAdmin \/ role_of s u o d = Some RoWrite
  | PRead => role_of s u o d <> None
  end.

(* the one undocumented allowance: a user removing themselves *)
Definition self_remove (u : N) (op : dbop) : Prop := match op with OUserRemove t => t = u | _ => False end.

Theorem authorize_db_sound : forall s u o d op,
  authorize_db s u o d op = Allow -> permitted s u o d op \/ self_remove u op.
Proof.
  intros s u o d op A. unfold permitted.
  destruct op; cbn [tag_of doc_perm self_remove]; unfold authorize_db, is_db_admin in A;
    destruct (role_of s u o d) as [[| |]|] eqn:R; cbn in A;
    split_ifs A; try discriminate A;
    repeat match goal with H : (_ =? _) = true |- _ => apply N.eqb_eq in H end;
    repeat match goal with H : negb (_ =? _) = false |- _ => apply Bool.negb_false_iff in H; apply N.eqb_eq in H end;
    subst; auto; try (left; congruence); try (left; discriminate).
  all: try (match goal with H : (_ =? _) || _ = true |- _ => apply Bool.orb_true_iff in H; destruct H as [H|H]; [apply N.eqb_eq in H; subst; auto|discriminate H] end).
Qed.

(* admin endpoints: only the server admin with a live token *)
Theorem admin_only : forall s now tok req,
  match req with
  | ReqAdminDbList | ReqAdminDb _ _ _ | ReqAdminUserAdd _ _ | ReqAdminUserChangePassword _ _
  | ReqAdminUserDelete _ | ReqAdminUserLogout _ _ | ReqAdminUserLogoutAll | ReqAdminUserList | ReqAdminStatus => True
  | _ => False
  end ->
  authorize s now tok req = Allow -> user_of_token s now tok = Some (s_admin s).
Proof.
  intros s now tok req Hreq A.
  destruct req; try contradiction; cbn [authorize] in A;
    destruct (user_of_token s now tok) as [cu|]; try discriminate A;
    destruct (cu =? s_admin s) eqn:E; cbn in A; try discriminate A; apply N.eqb_eq in E; subst; reflexivity.
Qed.

(* ---------- removal of a role ---------- *)

Lemma lookup_drop_same : forall rs u, lookup_role (drop_role rs u) u = None.
Proof.
  intros rs u. unfold lookup_role, drop_role. induction rs as [|[a r] rs IH]; cbn; [reflexivity|].
  destruct (a =? u) eqn:E; cbn; [exact IH|]. rewrite E. exact IH.
Qed.

(* after a successful removal of user t from (o, d), t holds no role on it *)
Theorem uremove_clears_role : forall s now tok o d t,
  resp_ok (fst (step s now tok (ReqDb o d (OUserRemove t)))) = true ->
  role_of (snd (step s now tok (ReqDb o d (OUserRemove t)))) t o d = None.
Proof.
  intros s now tok o d t OK. unfold step in *.
  destruct (authorize s now tok (ReqDb o d (OUserRemove t))); [|discriminate OK].
  cbn [apply] in *. unfold apply_db in *.
  destruct (find_db (s_dbs s) o d) as [r|] eqn:F; cbn [fst snd resp_ok] in *; [|discriminate OK].
  unfold role_of. cbn [with_dbs s_dbs].
  unfold find_db, update_db in *. clear OK. revert r F. induction (s_dbs s) as [|a l IH]; cbn; intros r F; [discriminate|].
  destruct (db_is o d a) eqn:E.
  - assert (E' : db_is o d (set_roles (drop_role (d_roles a) t) a) = true) by exact E.
    rewrite E'. cbn. apply lookup_drop_same.
  - rewrite E. apply IH with (r := r). exact F.
Qed.

(* a user without a role on (o, d) who is not the owner name is refused every operation on it *)
Theorem no_role_denied : forall s u o d op,
  role_of s u o d = None -> u <> o -> authorize_db s u o d op <> Allow.
Proof.
  intros s u o d op R U A. destruct (authorize_db_sound _ _ _ _ _ A) as [P|P].
  - unfold permitted in P. destruct (doc_perm (tag_of op)); try congruence. destruct P; congruence.
  - destruct op; cbn in P; try contradiction. subst.
    unfold authorize_db in A. rewrite R in A. cbn in A.
    destruct (o =? u); discriminate A.
Qed.
