(* ByteStoresProofs.v — C06: the back-ends implement the same byte store *)
From Agdb Require Import Bytes FileWal FileWalProofs ByteStores.
From Coq Require Import ZifyBool ZifyNat.
Open Scope nat_scope.

Lemma set_len_le d n : n <= length d -> set_len d n = firstn n d.
Proof. intros H. unfold set_len. replace (n - length d) with 0 by lia. cbn [repeat]. apply app_nil_r. Qed.

Lemma mem_write_spec d pos bs : pos <= length d -> mem_write d pos bs = write_at d pos bs.
Proof.
  intros H. unfold mem_write, write_at.
  destruct (Nat.ltb_spec (pos + length bs) (length d)) as [L|L]; [reflexivity|].
  rewrite set_len_le by exact H. rewrite skipn_all2 by lia. now rewrite app_nil_r.
Qed.

Lemma file_write_spec d pos bs : pos <= length d -> file_write d pos bs = write_at d pos bs.
Proof.
  intros H. unfold file_write. destruct bs as [|b r] eqn:E; [now rewrite write_at_nil|].
  replace (Nat.max (length d) pos) with (length d) by lia. now rewrite set_len_same.
Qed.

(* beyond the end both back-ends zero-fill the gap *)
Lemma mem_write_gap d pos bs : length d < pos -> mem_write d pos bs = d ++ repeat x00 (pos - length d) ++ bs.
Proof.
  intros H. unfold mem_write. destruct (Nat.ltb_spec (pos + length bs) (length d)); [lia|].
  unfold set_len. rewrite firstn_all2 by lia. now rewrite <- app_assoc.
Qed.

Lemma file_write_gap d pos bs : length d < pos -> bs <> [] ->
  file_write d pos bs = d ++ repeat x00 (pos - length d) ++ bs.
Proof.
  intros H Hne. unfold file_write. destruct bs as [|b r] eqn:E; [contradiction|]. rewrite <- E.
  replace (Nat.max (length d) pos) with pos by lia.
  unfold write_at. assert (L : length (set_len d pos) = pos) by apply set_len_length.
  rewrite <- L at 1. rewrite firstn_all. rewrite skipn_all2 by lia. rewrite app_nil_r.
  unfold set_len. rewrite firstn_all2 by lia. now rewrite <- app_assoc.
Qed.

(* the memory mapped pair stays in sync: memory = file, as long as writes start inside the file or
   at its end (what the storage layer issues) *)
Definition in_sync (m : mapped) : Prop := m_mem m = m_file m.

Lemma mapped_write_sync m pos bs : in_sync m -> pos <= length (m_file m) -> in_sync (mapped_write m pos bs).
Proof.
  unfold in_sync, mapped_write. cbn [m_mem m_file]. intros E H.
  rewrite mem_write_spec by (rewrite E; exact H). rewrite file_write_spec by exact H. now rewrite E.
Qed.

Lemma mapped_resize_sync m n : in_sync m -> in_sync (mapped_resize m n).
Proof. unfold in_sync, mapped_resize, mem_resize, file_resize. cbn [m_mem m_file]. now intros ->. Qed.

(* one abstract byte store, three implementations: any sequence of well-positioned writes and
   resizes leaves the same bytes in all of them, and reads agree *)
Inductive bop := BWrite (pos : nat) (bs : bytes) | BResize (n : nat).

Definition spec_step (d : bytes) (o : bop) : bytes :=
  match o with BWrite p b => write_at d p b | BResize n => set_len d n end.
Definition mem_step (d : bytes) (o : bop) : bytes :=
  match o with BWrite p b => mem_write d p b | BResize n => mem_resize d n end.
Definition file_step (d : bytes) (o : bop) : bytes :=
  match o with BWrite p b => file_write d p b | BResize n => file_resize d n end.
Definition mapped_step (m : mapped) (o : bop) : mapped :=
  match o with BWrite p b => mapped_write m p b | BResize n => mapped_resize m n end.

Fixpoint positioned (d : bytes) (ops : list bop) : Prop :=
  match ops with
  | [] => True
  | BWrite p b :: r => p <= length d /\ positioned (write_at d p b) r
  | BResize n :: r => positioned (set_len d n) r
  end.

Theorem backends_agree ops : forall d,
  positioned d ops ->
  fold_left mem_step ops d = fold_left spec_step ops d /\
  fold_left file_step ops d = fold_left spec_step ops d /\
  fold_left mapped_step ops {| m_mem := d; m_file := d |} =
    {| m_mem := fold_left spec_step ops d; m_file := fold_left spec_step ops d |}.
Proof.
  induction ops as [|o r IH]; intros d Hp; cbn [fold_left]; [repeat split|].
  destruct o as [p b|n]; cbn [positioned] in Hp; cbn [mem_step file_step mapped_step spec_step].
  - destruct Hp as [Hpos Hr]. unfold mapped_write. cbn [m_mem m_file].
    rewrite mem_write_spec, file_write_spec by exact Hpos. apply IH. exact Hr.
  - unfold mapped_resize, mem_resize, file_resize. cbn [m_mem m_file]. apply IH. exact Hp.
Qed.

Lemma reads_agree d pos len : mem_read d pos len = file_read d pos len.
Proof. reflexivity. Qed.

(* the one difference between the back-ends: an out-of-range read is an error on the file and a
   slice-index panic in memory (relevant to C07, not to well-formed databases) *)
Example read_out_of_range : mem_read [x01] 1 1 = None /\ file_read [x01] 1 1 = None.
Proof. split; reflexivity. Qed.

Example positioned_example :
  positioned [x01; x02; x03] [BWrite 1 [x0a]; BWrite 3 [x0b; x0c]; BResize 2; BResize 6; BWrite 4 []].
Proof. cbn. repeat split; lia. Qed.
