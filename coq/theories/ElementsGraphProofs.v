(* ElementsGraphProofs.v — C18, graph part combined with the search part: the element iteration
   lists every existing element exactly once in slot order, and the elements search returns an
   order-preserving selection of it. *)
From Agdb Require Import Bytes DbValue Graph DbModel Search ElementsSearchProofs GraphArr GraphSim GraphSpec.
From Coq Require Import Sorted.
From Coq Require Import ZifyBool ZifyNat ZifyN.
Ltac Zify.zify_post_hook ::= Z.div_mod_to_equations.
Open Scope Z_scope.

(* every existing element occupies exactly one position of the iteration *)
Lemma elements_once g i :
  graph_index g i = true ->
  exists n, nth_error (elements g) n = Some i /\ forall m, nth_error (elements g) m = Some i -> m = n.
Proof.
  intros H. apply elements_in in H. apply In_nth_error in H. destruct H as [n Hn].
  exists n. split; [assumption|]. intros m Hm.
  pose proof (elements_nodup g) as Hnd. rewrite NoDup_nth_error in Hnd.
  apply Hnd; [|congruence]. apply nth_error_Some. congruence.
Qed.

Lemma elements_listed_exist g n i : nth_error (elements g) n = Some i -> graph_index g i = true.
Proof. intros H. apply elements_in. eapply nth_error_In. eassumption. Qed.

Lemma elements_not_freed_sign g i :
  In i (elements g) ->
  (0 <= fmeta g i /\ i <> 0 /\ Z.abs i < capacity g) /\
  ((0 < i /\ is_node g i = true) \/ (i < 0 /\ is_edge g i = true)).
Proof. intros H. split; [exact (elements_not_freed g i H)|exact (elements_sign g i H)]. Qed.

Lemma elements_abstract g a fl i :
  sim g a fl -> (In i (elements g) <-> In i (a_nodes a) \/ In i (a_edge_ids a)).
Proof. intros H. exact (sim_elements g a fl i H). Qed.

(* positions are ordered by the magnitude of the ids *)
Lemma sorted_nth {A} (R : A -> A -> Prop) (l : list A) :
  StronglySorted R l -> forall n m x y, (n < m)%nat -> nth_error l n = Some x -> nth_error l m = Some y -> R x y.
Proof.
  induction 1 as [|a l Hs IH Hf]; intros n m x y Hnm Hx Hy.
  - destruct n; discriminate.
  - destruct m as [|m]; [lia|]. cbn [nth_error] in Hy. destruct n as [|n]; cbn [nth_error] in Hx.
    + injection Hx as <-. rewrite Forall_forall in Hf. apply Hf. eapply nth_error_In. eassumption.
    + apply (IH n m); try assumption. lia.
Qed.

Lemma elements_order g n m x y :
  (n < m)%nat -> nth_error (elements g) n = Some x -> nth_error (elements g) m = Some y -> Z.abs x < Z.abs y.
Proof. intros. eapply (sorted_nth abs_lt); eauto using elements_sorted. Qed.

(* the elements search with the default handler: which elements, in which order *)
Lemma elements_search_result rv d conds :
  let r := elements_search rv d conds HDefault in
  (forall i, In i r <-> exists n, nth_error (elements (gr d)) n = Some i /\
                                  sc_true (eval_conditions rv d i (Z.of_nat n) conds) = true) /\
  sublist r (elements (gr d)) /\
  StronglySorted abs_lt r /\ NoDup r /\
  (forall i, In i r -> graph_index (gr d) i = true).
Proof.
  intros r. unfold r. rewrite elements_search_default.
  split; [|split; [|split; [|split]]].
  - intros i. rewrite ifilter_In. cbn [Z.add]. reflexivity.
  - apply ifilter_sublist.
  - eapply sublist_StronglySorted; [apply ifilter_sublist|apply elements_sorted].
  - apply ifilter_NoDup, elements_nodup.
  - intros i Hi. apply elements_in. eapply ifilter_incl. eassumption.
Qed.

(* an id that is not an existing element is never returned, whatever the handler *)
Lemma elements_loop_incl rv d conds h els k c acc i :
  In i (elements_loop rv d conds h els k c acc) -> In i acc \/ In i els.
Proof.
  revert k c acc. induction els as [|x r IH]; intros k c acc H; cbn [elements_loop] in H.
  - left. apply in_rev. assumption.
  - destruct (handle h c (eval_conditions rv d x k conds)) as [control c0].
    assert (Hacc : forall l, In i l -> l = (if sc_true control then x :: acc else acc) -> In i acc \/ In i (x :: r)).
    { intros l Hl ->. destruct (sc_true control); [destruct Hl as [<-|Hl]|]; auto; right; left; reflexivity. }
    destruct control.
    + apply IH in H. destruct H as [H|H]; [eapply Hacc; [exact H|reflexivity]|right; right; assumption].
    + apply in_rev in H. eapply Hacc; [exact H|reflexivity].
    + apply IH in H. destruct H as [H|H]; [eapply Hacc; [exact H|reflexivity]|right; right; assumption].
Qed.

Lemma elements_search_existing rv d conds h i :
  In i (elements_search rv d conds h) -> graph_index (gr d) i = true.
Proof.
  unfold elements_search. intros H. apply elements_loop_incl in H.
  destruct H as [[]|H]. apply elements_in. assumption.
Qed.
