(* StoredDbOpsLinkSlots.v — proofs (stored database, part 33): the programs of the public queries again (the so_q programs), with what
   they do to the slot vector of DbKeyValues in the witness: allocated slots stay allocated (slot_keep) — a removal frees the
   slot of the removed element only (slot_keep_but) —, and an insertion leaves the slot of the element it works on allocated
   (every public insertion reserves capacity).  Same proofs as StoredDbOpsDb2/Db3/Query/Remove.v over the specifications of
   StoredDbOpsLinkKv.v. *)
From Coq Require Import Permutation.
From Agdb Require Import Bytes BytesProofs Utf8 Codec DbValue ValueIndex Graph DbModel Records RecordsProofs Storage StorageSpec
  StorageLayout StorageWp StorageRefine StorageProofs Collections CollValues CollWp CollBytes CollVecBase CollVecOps CollVec CollVec2
  CollElems CollSep CollMap CollGraph CollValuesProofs StoredDb StoredDbRep StoredDbLoad StoredDbProofs StoredDbFrame StoredDbOps
  StoredDbOpsGraph StoredDbOpsGraph2 StoredDbOpsGraph3 StoredDbOpsGraph4 StoredDbOpsDb StoredDbOpsKv StoredDbOpsKv2 StoredDbOpsKv3
  StoredDbOpsKv4 StoredDbOpsDb2 StoredDbOpsDb3 StoredDbOpsQuery StoredDbOpsRemove StoredDbOpsLinkKv.
From Coq Require Import ZifyBool ZifyNat ZifyN.
Ltac Zify.zify_post_hook ::= Z.div_mod_to_equations.
Open Scope N_scope.
Arguments N.add : simpl never.
Arguments N.mul : simpl never.
Arguments N.sub : simpl never.
Arguments N.of_nat : simpl never.
Arguments N.to_nat : simpl never.
Arguments N.eqb : simpl never.
Arguments N.ltb : simpl never.
Arguments N.leb : simpl never.
Arguments N.div : simpl never.

(* post-condition: as so_qpost, plus a relation P between the slot vectors before and after *)
Definition so_spost {A} (root : N) (w : sd_wit) (sp : spec) (d' : db) (ret : so_db -> A) (P : list N -> list N -> Prop)
  (r : cres A) (sp' : spec) : Prop :=
  exists h' w', r = CrOk (ret h') /\ stored_db_w (hp sp') root d' w' /\ so_handles h' w' /\ sdepth sp' = sdepth sp /\
                frame (hp sp) (hp sp') (sd_foot root w) (sd_foot root w') /\ P (sw_vi w) (sw_vi w').

Definition slot_alloc (k : nat) (vi vi' : list N) : Prop := slot_keep vi vi' /\ nth k vi' 0 <> 0.

Section Slots.
  Variable fl : bool.

  Theorem so_insert_key_value_stored' root d w h id x sp (Q : cres so_db -> spec -> Prop) :
    stored_db_w (hp sp) root d w -> so_handles h w ->
    idx_find (indexes d) (fst x) = None ->
    so_index_ok (cg_as_u64 id) -> el_valid law_dbkv x ->
    8 + ce_size ce_dbkv * (lenN (kvs_get (vals d) id) + 1) < two64 ->
    (forall h' vh' vs' vi' vw' sp',
        stored_db_w (hp sp') root (insert_key_value d id x) (sd_with_values w vh' vs' vi' vw') ->
        so_handles h' (sd_with_values w vh' vs' vi' vw') -> sdepth sp' = sdepth sp ->
        frame (hp sp) (hp sp') (sd_foot root w) (sd_foot root (sd_with_values w vh' vs' vi' vw')) ->
        slot_keep (sw_vi w) vi' -> Q (CrOk h') sp') ->
    cwp fl (so_insert_key_value h id x) sp Q.
  Proof.
    intros H [Hh1 Hh2] Hnix Hix Hx Hfit HQ. unfold so_insert_key_value. apply cwp_bind. rewrite Hh2.
    eapply so_kv_insert_value_spec'; [exact (stored_kvrep _ _ _ _ H)|exact Hix|exact Hx|rewrite zabs_as_u64; exact Hfit|].
    intros vh1 vs1 vi1 vw1 sp' HK I1 D1 F1 K1 _. cbn [kont cwp].
    destruct (sd_values_update _ _ root d w vh1 vs1 vi1 vw1 _ H I1 HK F1) as [H' F'].
    eapply HQ; [|split; [exact Hh1|reflexivity]|exact D1|exact F'|exact K1].
    eapply stored_db_w_same; [exact H'| | | |];
      unfold insert_key_value, index_insert_if, idx_insert_id;
      cbn [with_vals push_undo with_indexes gr aliases vals indexes]; try reflexivity.
    - unfold kvs_insert_value, kvs_set, kvs_get. rewrite zabs_as_u64. reflexivity.
    - apply idx_update_not_indexed. exact Hnix.
  Qed.

  Theorem so_reserve_key_value_capacity_stored' root d w h id len sp (Q : cres so_db -> spec -> Prop) :
    stored_db_w (hp sp) root d w -> so_handles h w -> so_index_ok (cg_as_u64 id) ->
    (forall h' vh' vs' vi' vw' sp',
        stored_db_w (hp sp') root (reserve_kv d id) (sd_with_values w vh' vs' vi' vw') ->
        so_handles h' (sd_with_values w vh' vs' vi' vw') -> sdepth sp' = sdepth sp ->
        frame (hp sp) (hp sp') (sd_foot root w) (sd_foot root (sd_with_values w vh' vs' vi' vw')) ->
        slot_alloc (zabs_nat id) (sw_vi w) vi' -> Q (CrOk h') sp') ->
    cwp fl (so_reserve_key_value_capacity h id len) sp Q.
  Proof.
    intros H [Hh1 Hh2] Hix HQ. unfold so_reserve_key_value_capacity. apply cwp_bind. rewrite Hh2.
    eapply so_kv_reserve_capacity_spec'; [exact (stored_kvrep _ _ _ _ H)|exact Hix|].
    intros vh1 vs1 vi1 vw1 sp' HK I1 D1 F1 K1 Hnz. cbn [kont cwp].
    destruct (sd_values_update _ _ root d w vh1 vs1 vi1 vw1 _ H I1 HK F1) as [H' F'].
    eapply HQ; [|split; [exact Hh1|reflexivity]|exact D1|exact F'|split; [exact K1|rewrite <- zabs_as_u64; exact Hnz]].
    eapply stored_db_w_same; [exact H'| | | |]; unfold reserve_kv; cbn [with_vals gr aliases vals indexes]; try reflexivity.
    unfold kvs_reserve, kvs_set. rewrite zabs_as_u64. symmetry. apply kvs_pad_reserve.
  Qed.

  Theorem so_insert_or_replace_key_value_stored' root d w h id x sp (Q : cres (so_db * option kv) -> spec -> Prop) :
    stored_db_w (hp sp) root d w -> so_handles h w ->
    so_not_indexed d id x -> so_index_ok (cg_as_u64 id) -> el_valid law_dbkv x -> so_kv_fits d id ->
    (forall h' vh' vs' vi' vw' sp',
        stored_db_w (hp sp') root (insert_or_replace_key_value d id x) (sd_with_values w vh' vs' vi' vw') ->
        so_handles h' (sd_with_values w vh' vs' vi' vw') -> sdepth sp' = sdepth sp ->
        frame (hp sp) (hp sp') (sd_foot root w) (sd_foot root (sd_with_values w vh' vs' vi' vw')) ->
        slot_keep (sw_vi w) vi' ->
        Q (CrOk (h', fst (kvs_insert_or_replace (vals d) id x))) sp') ->
    cwp fl (so_insert_or_replace_key_value h id x) sp Q.
  Proof.
    intros H [Hh1 Hh2] [Hnx Hno] Hix Hx Hfit HQ. unfold so_insert_or_replace_key_value. apply cwp_bind. rewrite Hh2.
    eapply so_kv_insert_or_replace_spec'; [exact (stored_kvrep _ _ _ _ H)|exact Hix|exact Hx|rewrite zabs_as_u64; exact Hfit|].
    rewrite zabs_as_u64, <- kvs_ior_model.
    intros vh1 vs1 vi1 vw1 sp' HK I1 D1 F1 K1 _. cbn [kont cwp fst snd].
    destruct (sd_values_update _ _ root d w vh1 vs1 vi1 vw1 _ H I1 HK F1) as [H' F'].
    eapply HQ; [|split; [exact Hh1|reflexivity]|exact D1|exact F'|exact K1].
    unfold insert_or_replace_key_value.
    destruct (kvs_insert_or_replace (vals d) id x) as [[old|] s'] eqn:EK; cbn [fst snd] in *;
      (eapply stored_db_w_same; [exact H'| | | |]);
      unfold index_insert_if, index_remove_if, idx_insert_id, idx_remove_id;
      cbn [with_vals push_undo with_indexes gr aliases vals indexes]; try reflexivity.
    - rewrite (idx_update_not_indexed _ _ _ Hno). apply idx_update_not_indexed. exact Hno.
    - apply idx_update_not_indexed. exact Hnx.
  Qed.

  Lemma so_insert_key_values_stored' root id : so_index_ok (cg_as_u64 id) -> forall l d w h sp,
    stored_db_w (hp sp) root d w -> so_handles h w -> so_kvs_ok d id l ->
    cwp fl (so_insert_key_values h id l) sp (so_spost root w sp (mq_insert_key_values d id l) (fun h' => h') slot_keep).
  Proof.
    intros Hix. induction l as [|x t IH]; intros d w h sp H Hh OK; cbn [so_insert_key_values mq_insert_key_values fold_left so_kvs_ok] in *.
    - cbn [cwp]. exists h, w. repeat (split; [first [reflexivity|assumption]|]). split; [apply frame_refl; intros j; reflexivity|apply slot_keep_refl].
    - destruct OK as [(O1 & O2 & O3) OK']. apply cwp_bind.
      eapply so_insert_key_value_stored'; [exact H|exact Hh|exact O1|exact Hix|exact O2|exact O3|].
      intros h1 vh1 vs1 vi1 vw1 sp1 H1 Hh1 D1 F1 K1. cbn [kont].
      eapply cwp_mono; [|eapply IH; eassumption].
      intros r sp2 (h2 & w2 & -> & H2 & Hh2 & D2 & F2 & K2). exists h2, w2.
      split; [reflexivity|]. split; [exact H2|]. split; [exact Hh2|]. split; [congruence|].
      split; [eapply frame_trans; eassumption|eapply slot_keep_trans; [exact K1|exact K2]].
  Qed.

  Lemma so_insert_or_replace_key_values_stored' root id : so_index_ok (cg_as_u64 id) -> forall l d w h sp,
    stored_db_w (hp sp) root d w -> so_handles h w -> so_iors_ok d id l ->
    cwp fl (so_insert_or_replace_key_values h id l) sp
        (so_spost root w sp (mq_insert_or_replace_key_values d id l) (fun h' => h') slot_keep).
  Proof.
    intros Hix. induction l as [|x t IH]; intros d w h sp H Hh OK;
      cbn [so_insert_or_replace_key_values mq_insert_or_replace_key_values fold_left so_iors_ok] in *.
    - cbn [cwp]. exists h, w. repeat (split; [first [reflexivity|assumption]|]). split; [apply frame_refl; intros j; reflexivity|apply slot_keep_refl].
    - destruct OK as [(O1 & O2 & O3) OK']. apply cwp_bind.
      eapply so_insert_or_replace_key_value_stored'; [exact H|exact Hh|exact O1|exact Hix|exact O2|exact O3|].
      intros h1 vh1 vs1 vi1 vw1 sp1 H1 Hh1 D1 F1 K1. cbn [kont fst].
      eapply cwp_mono; [|eapply IH; eassumption].
      intros r sp2 (h2 & w2 & -> & H2 & Hh2 & D2 & F2 & K2). exists h2, w2.
      split; [reflexivity|]. split; [exact H2|]. split; [exact Hh2|]. split; [congruence|].
      split; [eapply frame_trans; eassumption|eapply slot_keep_trans; [exact K1|exact K2]].
  Qed.

  Theorem so_q_insert_node_stored' root d w h l sp :
    stored_db_w (hp sp) root d w -> so_handles h w -> so_graph_ok (gr d) ->
    let id := fst (insert_node_db d) in
    let d2 := reserve_kv (snd (insert_node_db d)) id in
    so_index_ok (cg_as_u64 id) -> so_kvs_ok d2 id l ->
    cwp fl (so_q_insert_node h l) sp
        (so_spost root w sp (mq_insert_key_values d2 id l) (fun h' => (h', id)) (slot_alloc (zabs_nat id))).
  Proof.
    intros H Hh OK id d2 Hix Hkv. unfold so_q_insert_node.
    apply cwp_bind. apply hwp_transaction. intros sp0 Hm0 Hd0. cbn [kont].
    apply cwp_bind. eapply so_insert_node_stored; [eapply stored_db_w_heq; [exact Hm0|exact H]|exact Hh|exact OK|].
    intros h1 dg1 s1 sp1 H1 Hh1 D1 F1. cbn [kont fst snd]. fold id.
    apply cwp_bind. eapply so_reserve_key_value_capacity_stored'; [exact H1|exact Hh1|exact Hix|].
    intros h2 vh2 vs2 vi2 vw2 sp2 H2 Hh2 D2 F2 [K2 A2]. cbn [kont]. fold d2 in H2.
    cbn [sd_with_graph sw_vi] in K2.
    apply cwp_bind. eapply cwp_mono; [|eapply so_insert_key_values_stored'; [exact Hix|exact H2|exact Hh2|exact Hkv]].
    intros r sp3 (h3 & w3 & -> & H3 & Hh3 & D3 & F3 & K3). cbn [kont]. cbn [sd_with_values sw_vi] in K3.
    apply cwp_bind. apply hwp_commit; [lia|lia|]. intros sp4 Hm4 Hd4. cbn [kont cwp].
    exists h3, w3. split; [reflexivity|]. split; [eapply stored_db_w_heq; [exact Hm4|exact H3]|]. split; [exact Hh3|]. split; [lia|].
    split.
    - eapply frame_trans; [apply frame_refl; exact Hm0|]. eapply frame_trans; [exact F1|]. eapply frame_trans; [exact F2|].
      eapply frame_trans; [exact F3|apply frame_refl; exact Hm4].
    - split; [eapply slot_keep_trans; [exact K2|exact K3]|apply K3; exact A2].
  Qed.

  Theorem so_q_insert_values_stored' root d w h id l sp :
    stored_db_w (hp sp) root d w -> so_handles h w -> so_index_ok (cg_as_u64 id) ->
    so_iors_ok (reserve_kv d id) id l ->
    cwp fl (so_q_insert_values h id l) sp
        (so_spost root w sp (mq_insert_or_replace_key_values (reserve_kv d id) id l) (fun h' => h') (slot_alloc (zabs_nat id))).
  Proof.
    intros H Hh Hix Hkv. unfold so_q_insert_values.
    apply cwp_bind. apply hwp_transaction. intros sp0 Hm0 Hd0. cbn [kont].
    apply cwp_bind. eapply so_reserve_key_value_capacity_stored'; [eapply stored_db_w_heq; [exact Hm0|exact H]|exact Hh|exact Hix|].
    intros h2 vh2 vs2 vi2 vw2 sp2 H2 Hh2 D2 F2 [K2 A2]. cbn [kont].
    apply cwp_bind. eapply cwp_mono; [|eapply so_insert_or_replace_key_values_stored'; [exact Hix|exact H2|exact Hh2|exact Hkv]].
    intros r sp3 (h3 & w3 & -> & H3 & Hh3 & D3 & F3 & K3). cbn [kont]. cbn [sd_with_values sw_vi] in K3.
    apply cwp_bind. apply hwp_commit; [lia|lia|]. intros sp4 Hm4 Hd4. cbn [kont cwp].
    exists h3, w3. split; [reflexivity|]. split; [eapply stored_db_w_heq; [exact Hm4|exact H3]|]. split; [exact Hh3|]. split; [lia|].
    split.
    - eapply frame_trans; [apply frame_refl; exact Hm0|]. eapply frame_trans; [exact F2|].
      eapply frame_trans; [exact F3|apply frame_refl; exact Hm4].
    - split; [eapply slot_keep_trans; [exact K2|exact K3]|apply K3; exact A2].
  Qed.

  Theorem so_q_insert_edge_stored' root d w h f t e d1 sp :
    stored_db_w (hp sp) root d w -> so_handles h w -> so_graph_ok (gr d) ->
    so_edge_ok (gr d) f t -> insert_edge_db d f t = DbModel.ROk (e, d1) -> so_index_ok (cg_as_u64 e) ->
    cwp fl (so_q_insert_edge h f t) sp
        (so_spost root w sp (reserve_kv d1 e) (fun h' => (h', Some e)) (slot_alloc (zabs_nat e))).
  Proof.
    intros H Hh OK Hedge E Hix. unfold so_q_insert_edge.
    apply cwp_bind. apply hwp_transaction. intros sp0 Hm0 Hd0. cbn [kont].
    apply cwp_bind. eapply so_insert_edge_stored; [eapply stored_db_w_heq; [exact Hm0|exact H]|exact Hh|exact OK|intros _; exact Hedge|].
    rewrite E.
    intros h1 dg1 s1 sp1 H1 Hh1 D1 F1. cbn [kont fst snd].
    apply cwp_bind. eapply so_reserve_key_value_capacity_stored'; [exact H1|exact Hh1|exact Hix|].
    intros h2 vh2 vs2 vi2 vw2 sp2 H2 Hh2 D2 F2 KA. cbn [kont]. cbn [sd_with_graph sw_vi] in KA.
    apply cwp_bind. apply hwp_commit; [lia|lia|]. intros sp4 Hm4 Hd4. cbn [kont cwp].
    eexists _, _. split; [reflexivity|]. split; [eapply stored_db_w_heq; [exact Hm4|exact H2]|]. split; [exact Hh2|]. split; [lia|].
    split; [|exact KA].
    eapply frame_trans; [apply frame_refl; exact Hm0|]. eapply frame_trans; [exact F1|]. eapply frame_trans; [exact F2|].
    apply frame_refl; exact Hm4.
  Qed.

  Theorem so_q_remove_edge_stored' root d w h e sp :
    stored_db_w (hp sp) root d w -> so_handles h w -> (e < 0)%Z ->
    so_graph_ok (gr d) -> so_remove_edge_ok (gr d) e ->
    so_slot_valid (sw_vi w) (zabs_nat e) ->
    (forall x, In x (kvs_get (vals d) e) -> idx_find (indexes d) (fst x) = None) ->
    cwp fl (so_q_remove h e) sp
        (fun r sp' => exists G', Graph.remove_edge (gr d) e = Some G' /\
           so_spost root w sp (remove_all_values (fst (remove_edge_db d e)) e) (fun h' => h') (slot_keep_but (zabs_nat e)) r sp').
  Proof.
    intros H Hh He OK Hrm Hslot Hnix. unfold so_q_remove.
    apply cwp_bind. apply hwp_transaction. intros sp0 Hm0 Hd0. cbn [kont].
    destruct (Z.ltb_spec e 0) as [_|X]; [|lia].
    apply cwp_bind. eapply so_remove_edge_stored; [eapply stored_db_w_heq; [exact Hm0|exact H]|exact Hh|exact OK|exact Hrm|].
    intros G' EG s1 sp1 H1 D1 F1. cbn [kont].
    apply cwp_bind. destruct Hh as [Hg Hv]. rewrite Hv.
    change (sw_vh w) with (sw_vh (sd_with_graph w (sw_g w) s1)).
    eapply so_kv_remove_spec'; [exact (stored_kvrep _ _ _ _ H1)|rewrite zabs_as_u64; exact Hslot|].
    rewrite zabs_as_u64, <- kvs_remove_model.
    intros vh2 vs2 vi2 vw2 sp2 HK I2 D2 F2 K2. cbn [kont]. cbn [sd_with_graph sw_vi] in K2.
    destruct (sd_values_update _ _ root _ _ vh2 vs2 vi2 vw2 _ H1 I2 HK F2) as [H2 Fr2].
    apply cwp_bind. apply hwp_commit; [lia|lia|]. intros sp3 Hm3 Hd3. cbn [kont cwp].
    exists G'. split; [exact EG|].
    exists (so_with_values h vh2), (sd_with_values (sd_with_graph w (sw_g w) s1) vh2 vs2 vi2 vw2).
    split; [reflexivity|]. split.
    - eapply stored_db_w_heq; [exact Hm3|]. unfold remove_edge_db. rewrite EG. cbn [fst].
      set (d1 := push_undo (with_gr d G') (CInsertEdge (edge_from (gr d) e) (edge_to (gr d) e))).
      destruct (remove_all_values_fields d1 e) as (E1 & E2 & E3 & E4); [exact Hnix|].
      eapply stored_db_w_same; [exact H2| | | |]; cbn [with_vals gr aliases vals indexes]; rewrite ?E1, ?E2, ?E3, ?E4; reflexivity.
    - split; [split; [exact Hg|reflexivity]|]. split; [lia|]. split; [|exact K2].
      eapply frame_trans; [apply frame_refl; exact Hm0|]. eapply frame_trans; [exact F1|]. eapply frame_trans; [exact Fr2|apply frame_refl; exact Hm3].
  Qed.

  Theorem so_q_remove_isolated_node_stored' root d w h n sp :
    stored_db_w (hp sp) root d w -> so_handles h w -> (0 < n)%Z ->
    so_graph_ok (gr d) -> is_node (gr d) n = true ->
    from (gr d) n = 0%Z -> to (gr d) n = 0%Z -> (1 <= tmeta (gr d) 0)%Z ->
    so_slot_valid (sw_vi w) (zabs_nat n) ->
    (forall x, In x (kvs_get (vals d) n) -> idx_find (indexes d) (fst x) = None) ->
    cwp fl (so_q_remove h n) sp
        (fun r sp' => snd (remove_node_db d n None) = None /\
           so_spost root w sp (remove_all_values (fst (remove_node_db d n None)) n) (fun h' => h') (slot_keep_but (zabs_nat n)) r sp').
  Proof.
    intros H Hh Hn OK Nn Ef Et Hc Hslot Hnix. unfold so_q_remove.
    apply cwp_bind. apply hwp_transaction. intros sp0 Hm0 Hd0. cbn [kont].
    destruct (Z.ltb_spec n 0) as [X|_]; [lia|].
    apply cwp_bind. eapply so_remove_isolated_node_stored; [eapply stored_db_w_heq; [exact Hm0|exact H]|exact Hh|exact OK|intros _; auto|].
    intros G' EG s1 sp1 H1 D1 F1. cbn [kont].
    apply cwp_bind. destruct Hh as [Hg Hv]. rewrite Hv.
    change (sw_vh w) with (sw_vh (sd_with_graph w (sw_g w) s1)).
    eapply so_kv_remove_spec'; [exact (stored_kvrep _ _ _ _ H1)|rewrite zabs_as_u64; exact Hslot|].
    rewrite zabs_as_u64, <- kvs_remove_model.
    intros vh2 vs2 vi2 vw2 sp2 HK I2 D2 F2 K2. cbn [kont]. cbn [sd_with_graph sw_vi] in K2.
    destruct (sd_values_update _ _ root _ _ vh2 vs2 vi2 vw2 _ H1 I2 HK F2) as [H2 Fr2].
    apply cwp_bind. apply hwp_commit; [lia|lia|]. intros sp3 Hm3 Hd3. cbn [kont cwp].
    assert (ER : remove_node_db d n None = (push_undo (with_gr d G') CInsertNode, None)).
    { unfold remove_node_db. rewrite Nn. cbn [negb]. rewrite (node_edges_isolated d n Ef Et). cbn [fold_left]. rewrite EG. reflexivity. }
    rewrite ER. cbn [fst snd]. split; [reflexivity|].
    exists (so_with_values h vh2), (sd_with_values (sd_with_graph w (sw_g w) s1) vh2 vs2 vi2 vw2).
    split; [reflexivity|]. split.
    - eapply stored_db_w_heq; [exact Hm3|].
      set (d1 := push_undo (with_gr d G') CInsertNode).
      destruct (remove_all_values_fields d1 n) as (E1 & E2 & E3 & E4); [exact Hnix|].
      eapply stored_db_w_same; [exact H2| | | |]; cbn [with_vals gr aliases vals indexes]; rewrite ?E1, ?E2, ?E3, ?E4; reflexivity.
    - split; [split; [exact Hg|reflexivity]|]. split; [lia|]. split; [|exact K2].
      eapply frame_trans; [apply frame_refl; exact Hm0|]. eapply frame_trans; [exact F1|]. eapply frame_trans; [exact Fr2|apply frame_refl; exact Hm3].
  Qed.
End Slots.
