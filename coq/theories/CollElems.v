(* CollElems.v — proofs (collections, part 7): the element classes of vec.rs / map.rs meet
   `elem_law`: u64 (StorageIndex), i64 (DbId), an inline element of n raw bytes
   (DbValueIndex with an inline value, DbIndexStorageIndex), MapValueState, and String — the
   one class whose slot (the 8-byte index) owns another record (le64 len ++ utf8 bytes). *)
From Agdb Require Import Bytes BytesProofs Utf8 Records RecordsProofs Storage StorageSpec StorageLayout
  Collections CollWp CollBytes CollVecBase CollVecOps.
From Coq Require Import ZifyBool ZifyNat ZifyN.
Ltac Zify.zify_post_hook ::= Z.div_mod_to_equations.
Open Scope N_scope.
Arguments N.add : simpl never.
Arguments N.mul : simpl never.
Arguments N.sub : simpl never.
Arguments N.of_nat : simpl never.
Arguments N.to_nat : simpl never.
Arguments N.eqb : simpl never.
Arguments N.ltb : simpl never.
Arguments N.leb : simpl never.
Arguments N.div : simpl never.

Lemma de64_le64 x : x < two64 -> de (firstn 8 (le64 x)) = x.
Proof. intros H. rewrite firstn_all2 by (rewrite le64_length; lia). apply de_le64. exact H. Qed.

Lemma cp_de64_le64 x : x < two64 -> cp_de64 (le64 x) = CRet x.
Proof.
  intros H. unfold cp_de64. rewrite lenN_le64. replace (8 <? 8) with false by reflexivity.
  rewrite de64_le64 by exact H. reflexivity.
Qed.

(* an inline class: the slot is a function of the value, owns nothing *)
Section Inline.
  Variable T : Type.
  Variable E : cv_elem T.
  Variable valid : T -> Prop.
  Variable enc : T -> bytes.
  Hypothesis Hsize : 0 < ce_size E.
  Hypothesis Hlen : forall x, valid x -> lenN (enc x) = ce_size E.
  Hypothesis Hstore : forall x, ce_store E x = CRet (enc x).
  Hypothesis Hload : forall x, valid x -> ce_load E (enc x) = CRet x.
  Hypothesis Hremove : forall bs, ce_remove E bs = CRet tt.

  Definition inline_law : elem_law E.
  Proof.
    refine {| el_valid := valid; el_rep := fun _ bs x => bs = enc x /\ valid x; el_own := fun _ => [] |}.
    - exact Hsize.
    - intros g bs x [-> Hv]. apply Hlen. exact Hv.
    - intros g bs x j _ [].
    - intros. constructor.
    - intros g g' bs x H _. exact H.
    - intros fl x sp Q Hv HQ. rewrite Hstore. cbn [cwp]. apply HQ; auto. intros j [].
    - intros fl bs x sp Q [-> Hv] HQ. rewrite Hload by exact Hv. exact HQ.
    - intros fl bs x sp Q _ HQ. rewrite Hremove. cbn [cwp]. apply HQ; auto. intros j [].
  Defined.
End Inline.

Definition law_u64 : elem_law ce_u64.
Proof.
  apply (inline_law N ce_u64 (fun x => x < two64) le64).
  - cbn. lia.
  - intros x _. apply lenN_le64.
  - reflexivity.
  - intros x Hx. cbn [ce_load ce_u64]. apply cp_de64_le64. exact Hx.
  - reflexivity.
Defined.

Definition i64_range (z : Z) : Prop := (- 9223372036854775808 <= z < 9223372036854775808)%Z.

Definition law_i64 : elem_law ce_i64.
Proof.
  apply (inline_law Z ce_i64 i64_range (fun z => le64 (z2u z))).
  - cbn. lia.
  - intros x _. apply lenN_le64.
  - reflexivity.
  - intros x Hx. cbn [ce_load ce_i64]. rewrite cp_de64_le64 by apply z2u_lt. cbn [cbind]. rewrite u2z_z2u by exact Hx. reflexivity.
  - reflexivity.
Defined.

Definition law_raw (n : N) (Hn : 0 < n) : elem_law (ce_raw n).
Proof.
  apply (inline_law bytes (ce_raw n) (fun b => lenN b = n) (fun b => b)).
  - exact Hn.
  - intros x Hx. exact Hx.
  - reflexivity.
  - intros x Hx. cbn [ce_load ce_raw]. destruct (N.ltb_spec (lenN x) n); [lia|].
    rewrite firstn_all2 by (unfold lenN in Hx; lia). reflexivity.
  - reflexivity.
Defined.

Definition law_state : elem_law ce_state.
Proof.
  apply (inline_law cm_st ce_state (fun _ => True) cm_state_ser).
  - cbn. lia.
  - intros [] _; reflexivity.
  - reflexivity.
  - intros [] _; reflexivity.
  - reflexivity.
Defined.

(* ---------------- String ---------------- *)
Definition str_valid (s : bytes) : Prop := utf8_valid s = true /\ 8 + lenN s < two64.
Definition str_rep (g : heap) (bs : bytes) (s : bytes) : Prop :=
  exists i, bs = le64 i /\ i < two64 /\ g i = Some (cv_str_ser s) /\ str_valid s.
Definition str_own (bs : bytes) : list N := [de (firstn 8 bs)].

Lemma str_de_ser fl s sp (Q : cres bytes -> spec -> Prop) :
  str_valid s -> Q (CrOk s) sp -> cwp fl (cv_str_de (cv_str_ser s)) sp Q.
Proof.
  intros [Hu Hl] HQ. unfold cv_str_de, cv_str_ser.
  apply cwp_bind. apply cwp_de64; [rewrite lenN_app, lenN_le64; lia|]. cbn [kont].
  rewrite firstn_app_l by (rewrite le64_length; reflexivity).
  assert (Hlt : lenN s < two64) by lia. rewrite (de_le64 _ Hlt).
  destruct (N.leb_spec two64 (8 + lenN s)); [lia|].
  rewrite lenN_app, lenN_le64. destruct (N.ltb_spec (8 + lenN s) (8 + lenN s)); [lia|].
  rewrite skipn_app_l by (rewrite le64_length; reflexivity).
  rewrite firstn_all2 by (unfold lenN; lia). rewrite Hu. exact HQ.
Qed.

Definition law_string : elem_law ce_string.
Proof.
  refine {| el_valid := str_valid; el_rep := str_rep; el_own := str_own |}.
  - cbn. lia.
  - intros g bs s (i & -> & _). apply lenN_le64.
  - intros g bs s j (i & -> & Hi & Hg & _) [<-|[]]. unfold str_own in *. rewrite de64_le64 by exact Hi. congruence.
  - intros. unfold str_own. constructor; [intros []|constructor].
  - intros g g' bs s (i & -> & Hi & Hg & Hv) Hsame. exists i. split; [reflexivity|]. split; [exact Hi|]. split; [|exact Hv].
    rewrite Hsame; [exact Hg|]. unfold str_own. rewrite de64_le64 by exact Hi. left; reflexivity.
  - intros fl s sp Q Hv HQ. cbn [ce_store ce_string]. apply cwp_bind. apply hwp_insert.
    intros i sp' Hi Hlt Hn Hm Hd. cbn [kont cwp].
    apply HQ; [|exact Hd| |].
    + exists i. split; [reflexivity|]. split; [exact Hlt|]. split; [|exact Hv]. rewrite Hm. apply hupd_same.
    + unfold str_own; rewrite de64_le64 by exact Hlt. intros j [<-|[]]. exact Hn.
    + unfold str_own; rewrite de64_le64 by exact Hlt. intros j Hj. rewrite Hm. apply hupd_other. intros ->. apply Hj. left; reflexivity.
  - intros fl bs s sp Q (i & -> & Hi & Hg & Hv) HQ. cbn [ce_load ce_string].
    apply cwp_bind. apply cwp_de64; [rewrite lenN_le64; lia|]. cbn [kont]. rewrite de64_le64 by exact Hi.
    apply cwp_bind. eapply cwp_value; [exact Hg|]. cbn [kont]. apply str_de_ser; assumption.
  - intros fl bs s sp Q (i & -> & Hi & Hg & Hv) HQ. cbn [ce_remove ce_string].
    apply cwp_bind. apply cwp_de64; [rewrite lenN_le64; lia|]. cbn [kont]. rewrite de64_le64 by exact Hi.
    eapply hwp_remove; [exact Hg|]. intros sp' Hm Hd.
    apply HQ; [exact Hd| |]; unfold str_own; rewrite de64_le64 by exact Hi.
    + intros j [<-|[]]. rewrite Hm. unfold hdel. rewrite N.eqb_refl. reflexivity.
    + intros j Hj. rewrite Hm. unfold hdel. destruct (N.eqb_spec i j); [subst; exfalso; apply Hj; left; reflexivity|reflexivity].
Defined.
