(* HistoryExamples.v — the hypotheses of the history-level theorems are satisfiable: the example
   histories of C09 / C10 / C11 consist of well-formed queries that all succeed on the model. *)
From Agdb Require Import Bytes DbValue Graph DbModel Search Queries Revisions QStepProofs
  KvProofs KvSelectProofs AliasQueryProofs IndexExample QueryInvProofs HistoryInvProofs.
Open Scope Z_scope.

Lemma c09_history_ok : Forall query_ok c09_history /\ all_succeed rv_fixed db_new c09_history.
Proof.
  split.
  - repeat constructor; cbn; repeat split; reflexivity.
  - cbn [all_succeed c09_history]. repeat split; vm_compute; reflexivity.
Qed.

Lemma c10_history_ok :
  Forall query_ok (firstn 2 c10_history) /\ all_succeed rv_fixed db_new (firstn 2 c10_history).
Proof.
  split.
  - repeat constructor; cbn; repeat split; reflexivity.
  - cbn [all_succeed c10_history firstn]. repeat split; vm_compute; reflexivity.
Qed.

Lemma c11_history_ok : Forall query_ok c11_history /\ all_succeed rv_fixed db_new c11_history.
Proof.
  split.
  - repeat constructor; cbn; repeat split; reflexivity.
  - cbn [all_succeed c11_history]. repeat split; vm_compute; reflexivity.
Qed.
