(* RaftLogLC.v — LEADER COMPLETENESS and STATE-MACHINE SAFETY for the repaired election code, under the hypotheses
   that none of the three log-replication defect classes occurs in the run:
     ack-from-diverged-log   (ack_diverged_b, Raft.v),
     old-term-commit         (old_term_commit_b, Raft.v),
     commit-without-quorum   (commit_noquorum_b, RaftLog.v).
   Invariant LC over `run rr_fixed size evs`, on top of log matching (RaftLogMatch.LI), election safety (C27) and the
   election invariants J (a leader holds a majority of supports) and K (supports of a node are for terms <= its term).
   For every entry e committed by a leader of term T at index idx:
     c1  every log that holds an entry of a term >= T at an index >= idx holds e at idx;
     c2  an entry of a term > T sits at an index > idx;
     c4  every Leader of a term >= T holds e at idx;
     q   a majority S of nodes hold e at idx, have a term >= T, and every candidate of a term > T that a member of S
         supports holds e at idx as long as it is Candidate or Leader of that term. *)
From Coq Require Import NArith List Bool Lia Arith.
From Agdb Require Import Raft RaftWitness RaftProofs RaftInv RaftElect RaftVote RaftLog RaftLogWf RaftLogMatch RaftLogHand.
Import ListNotations.
Open Scope N_scope.

(* ================================================================== ghosts of one step *)

Definition quiet (x : ghost) : Prop := match x with GLeader _ _ _ | GCommit _ _ _ _ _ => False | _ => True end.

Lemma In_range_commits : forall j b T (f : N -> option entry) l j' b' T' idx e,
  In (GCommit j' b' T' idx e) (map (fun idx => GCommit j b T idx (f idx)) l) ->
  j' = j /\ b' = b /\ T' = T /\ e = f idx /\ In idx l.
Proof.
  intros j b T f l j' b' T' idx e H. apply in_map_iff in H as [x [E Hx]]. inversion E; subst. auto.
Qed.

Lemma In_node_ghosts_commit : forall old new j b T idx e,
  In (GCommit j b T idx e) (node_ghosts old new) ->
  j = n_index new /\ b = (is_leader (n_state old) && is_leader (n_state new)) /\ T = n_term new /\
  e = log_at (n_logs new) idx /\ n_commit old < idx /\ idx <= n_commit new.
Proof.
  intros old new j b T idx e H. unfold node_ghosts in H.
  apply in_app_or in H as [H|H]; [destruct (_ && _); [destruct H as [H|[]]; discriminate|destruct H]|].
  apply in_app_or in H as [H|H]; [destruct (_ && _); [destruct H as [H|[]]; discriminate|destruct H]|].
  apply In_range_commits in H as (-> & -> & -> & -> & H). apply range_from_In in H. repeat split; auto; lia.
Qed.

Lemma In_node_ghosts_leader : forall old new j t log,
  In (GLeader j t log) (node_ghosts old new) ->
  j = n_index new /\ t = n_term new /\ log = n_logs new /\
  is_leader (n_state new) = true /\ is_leader (n_state old) = false.
Proof.
  intros old new j t log H. unfold node_ghosts in H.
  apply in_app_or in H as [H|H]; [destruct (_ && _); [destruct H as [H|[]]; discriminate|destruct H]|].
  apply in_app_or in H as [H|H].
  - destruct (is_leader (n_state new) && negb (is_leader (n_state old))) eqn:B; [|destruct H].
    destruct H as [H|[]]. inversion H; subst. apply andb_true_iff in B as [B1 B2]. apply negb_true_iff in B2. auto.
  - apply in_map_iff in H as [x [E _]]. discriminate.
Qed.

(* after a GCommit of a step come only GCommits *)
Lemma split_after : forall (P M : list ghost) g1 y g2,
  ~ In y P -> P ++ M = g1 ++ y :: g2 -> forall x, In x g2 -> In x M.
Proof.
  induction P as [|a P IH]; intros M g1 y g2 NI E x Hx.
  - cbn in E. rewrite E. apply in_or_app. right. right. exact Hx.
  - destruct g1 as [|b g1]; cbn in E; inversion E; subst.
    + exfalso. apply NI. left; reflexivity.
    + eapply IH; eauto. intros H. apply NI. right; exact H.
Qed.

Lemma node_ghosts_after_commit : forall pre old new g1 j b T idx e g2 j' t' log,
  (forall x, In x pre -> quiet x) ->
  pre ++ node_ghosts old new = g1 ++ GCommit j b T idx e :: g2 -> ~ In (GLeader j' t' log) g2.
Proof.
  intros pre old new g1 j b T idx e g2 j' t' log Q E H. unfold node_ghosts in E.
  set (A := if is_candidate (n_state new) && negb (is_candidate (n_state old) && (n_term old =? n_term new))
            then [GCand (n_index new) (n_term new)] else []) in *.
  set (B := if is_leader (n_state new) && negb (is_leader (n_state old)) then [GLeader (n_index new) (n_term new) (n_logs new)] else []) in *.
  rewrite !app_assoc in E.
  assert (NC : ~ In (GCommit j b T idx e) ((pre ++ A) ++ B)).
  { intros Hx. apply in_app_or in Hx as [Hx|Hx]; [apply in_app_or in Hx as [Hx|Hx]|].
    - apply (Q _ Hx).
    - unfold A in Hx. destruct (is_candidate (n_state new) && negb (is_candidate (n_state old) && (n_term old =? n_term new)));
        [destruct Hx as [Hx|[]]; discriminate|destruct Hx].
    - unfold B in Hx. destruct (is_leader (n_state new) && negb (is_leader (n_state old)));
        [destruct Hx as [Hx|[]]; discriminate|destruct Hx]. }
  pose proof (split_after _ _ _ _ _ NC E _ H) as HM.
  apply in_map_iff in HM as [x [Ex _]]. discriminate.
Qed.

(* ================================================================== the markers, one step *)

Lemma old_term_app : forall a b, old_term_commit_b (a ++ b) = old_term_commit_b a || old_term_commit_b b.
Proof. intros. unfold old_term_commit_b. apply existsb_app. Qed.

Lemma old_term_In : forall g j T idx e,
  old_term_commit_b g = false -> In (GCommit j true T idx e) g -> exists x, e = Some x /\ e_term x = T.
Proof.
  intros g j T idx e H Hin. unfold old_term_commit_b in H.
  destruct e as [x|].
  - exists x. split; auto. destruct (N.eqb_spec (e_term x) T); auto. exfalso.
    assert (existsb (fun g0 => match g0 with GCommit _ true t _ (Some e) => negb (e_term e =? t) | GCommit _ true _ _ None => true | _ => false end) g = true).
    { apply existsb_exists. eexists; split; [exact Hin|]. cbn. apply negb_true_iff. apply N.eqb_neq. exact n. }
    congruence.
  - exfalso.
    assert (existsb (fun g0 => match g0 with GCommit _ true t _ (Some e) => negb (e_term e =? t) | GCommit _ true _ _ None => true | _ => false end) g = true).
    { apply existsb_exists. eexists; split; [exact Hin|]. reflexivity. }
    congruence.
Qed.

Lemma nq_node_In : forall all old new idx,
  nq_node all old new = false -> is_leader (n_state old) = true -> is_leader (n_state new) = true ->
  n_commit old < idx -> idx <= n_commit new ->
  n_size new / 2 + 1 <= holders all (n_term new) idx (log_at (n_logs new) idx).
Proof.
  intros all old new idx H L1 L2 H1 H2. unfold nq_node in H. rewrite L1, L2 in H. cbn [andb] in H.
  destruct (N.ltb_spec (holders all (n_term new) idx (log_at (n_logs new) idx)) (n_size new / 2 + 1)); [|lia].
  exfalso.
  assert (existsb (fun idx0 => holders all (n_term new) idx0 (log_at (n_logs new) idx0) <? n_size new / 2 + 1)
            (range_from (n_commit old + 1) (N.to_nat (n_commit new - n_commit old))) = true).
  { apply existsb_exists. exists idx. split; [apply range_from_In; lia | apply N.ltb_lt; auto]. }
  congruence.
Qed.

Lemma nq_nodes_nth : forall all olds news k o n,
  nq_nodes all olds news = false -> nth_error olds k = Some o -> nth_error news k = Some n -> nq_node all o n = false.
Proof.
  intros all. induction olds as [|a olds IH]; intros news k o n H Ho Hn; destruct k; cbn in Ho; try discriminate.
  - destruct news as [|b news]; cbn in Hn; [discriminate|]. inversion Ho; inversion Hn; subst.
    cbn in H. apply orb_false_iff in H. tauto.
  - destruct news as [|b news]; cbn in Hn; [discriminate|]. cbn in H. apply orb_false_iff in H as [_ H]. eapply IH; eauto.
Qed.

Lemma noquorum_snoc : forall rv evs c e,
  commit_noquorum_from rv c (evs ++ [e]) =
  commit_noquorum_from rv c evs || nq_step (run_from rv c evs) (step rv (run_from rv c evs) e).
Proof.
  intros rv. induction evs as [|a evs IH]; intros c e; cbn [app commit_noquorum_from run_from fold_left].
  - rewrite orb_false_r. reflexivity.
  - rewrite IH. unfold run_from. rewrite orb_assoc. reflexivity.
Qed.

(* ================================================================== a majority of holders *)

Lemma NoDup_map_index : forall (l : list node) a,
  (forall k nd, nth_error l k = Some nd -> n_index nd = N.of_nat (a + k)) -> NoDup (map n_index l).
Proof.
  induction l as [|x l IH]; intros a H; cbn; constructor.
  - intros Hin. apply in_map_iff in Hin as [y [E Hy]]. apply In_nth_error in Hy as [k Hk].
    pose proof (H O x eq_refl). pose proof (H (S k) y Hk). lia.
  - apply (IH (S a)). intros k nd Hk. rewrite (H (S k) nd Hk). f_equal. lia.
Qed.

Lemma NoDup_map_filter : forall (f : node -> N) (p : node -> bool) l, NoDup (map f l) -> NoDup (map f (filter p l)).
Proof.
  intros f p. induction l as [|x l IH]; intros H; cbn; [constructor|]. inversion H; subst.
  destruct (p x); cbn; auto. constructor; auto.
  intros Hin. apply H2. apply in_map_iff in Hin as [y [E Hy]]. apply filter_In in Hy as [Hy _].
  apply in_map_iff. eauto.
Qed.

Lemma holders_quorum : forall (l : list node) sz T idx e,
  nodes_ok l -> length l = N.to_nat sz -> sz / 2 + 1 <= holders l T idx (Some e) ->
  exists S, NoDup S /\ sz < 2 * lenN S /\
    forall u, In u S -> u < sz /\ exists v, nth_error l (N.to_nat u) = Some v /\ n_term v = T /\ log_at (n_logs v) idx = Some e.
Proof.
  intros l sz T idx e HN HL Q. exists (map n_index (filter (holds_b T idx (Some e)) l)). split; [|split].
  - apply NoDup_map_filter. apply (NoDup_map_index l 0). intros k nd Hk. apply (HN _ _ Hk).
  - unfold holders, lenN in *. rewrite map_length.
    assert (sz < 2 * (sz / 2 + 1)); [|lia].
    pose proof (N.div_mod sz 2). pose proof (N.mod_upper_bound sz 2). lia.
  - intros u Hu. apply in_map_iff in Hu as [v [<- Hv]]. apply filter_In in Hv as [Hv Hb].
    apply In_nth_error in Hv as [k Hk]. destruct (HN _ _ Hk) as [_ Ei].
    assert (k < length l)%nat by (apply nth_error_Some; congruence).
    split; [lia|]. exists v. rewrite Ei, Nat2N.id. split; auto.
    unfold holds_b in Hb. apply andb_true_iff in Hb as [B1 B2]. apply N.eqb_eq in B1. apply oentry_eqb_eq in B2. auto.
Qed.

(* ================================================================== the invariant *)

Definition committed (h : list ghost) (T idx : N) (e : entry) : Prop := exists i, In (GCommit i true T idx (Some e)) h.
Definition holds (nd : node) (idx : N) (e : entry) : Prop := log_at (n_logs nd) idx = Some e.

(* node cd, as long as it is Candidate or Leader of term t, holds e at idx *)
Definition cand_safe (c : cluster) (cd t idx : N) (e : entry) : Prop :=
  forall nd, get_node c cd = Some nd -> n_term nd = t -> cl (n_state nd) = true -> holds nd idx e.

(* C29 restricted to leaders of HIGHER terms (Raft's Leader Completeness) *)
Definition leader_completeness_up (h : list ghost) : Prop :=
  forall h1 h2 i t idx e j t' log,
    h = h1 ++ GCommit i true t idx e :: h2 -> In (GLeader j t' log) h2 -> t < t' -> log_at log idx = e.

Record LC (sz : N) (c : cluster) : Prop := {
  lc_len : length (c_nodes c) = N.to_nat sz;
  lc_some : forall i T idx e, In (GCommit i true T idx e) (c_hist c) -> exists x, e = Some x;
  lc_et : forall T idx e, committed (c_hist c) T idx e ->
            e_term e = T /\ e_index e = idx /\ exists i0, In (i0, T) (leaders (c_hist c));
  lc_c1 : forall T idx e u v x, committed (c_hist c) T idx e -> get_node c u = Some v -> In x (n_logs v) ->
            T <= e_term x -> idx <= e_index x -> holds v idx e;
  lc_c2 : forall T idx e u v x, committed (c_hist c) T idx e -> get_node c u = Some v -> In x (n_logs v) ->
            T < e_term x -> idx < e_index x;
  lc_c4 : forall T idx e u v, committed (c_hist c) T idx e -> get_node c u = Some v ->
            is_leader (n_state v) = true -> T <= n_term v -> holds v idx e;
  lc_q : forall T idx e, committed (c_hist c) T idx e ->
           exists S, NoDup S /\ sz < 2 * lenN S /\
             forall u, In u S -> u < sz /\ exists v, get_node c u = Some v /\ holds v idx e /\ T <= n_term v /\
               forall t cd, In (u, t, cd) (supports (c_hist c)) -> T < t -> cand_safe c cd t idx e;
  lc_svt : forall u t cd nd, In (u, t, cd) (supports (c_hist c)) -> get_node c cd = Some nd -> t <= n_term nd;
  lc_vr : forall r nd, In (MReq r) (c_net c) -> q_kind r = KVote -> get_node c (q_from r) = Some nd ->
            q_term r <= n_term nd /\
            (n_state nd = Candidate -> n_term nd = q_term r -> q_li r = p_li (local nd) /\ q_lt r = p_lt (local nd));
  lc_h : leader_completeness_up (c_hist c) }.

(* ------------------------------------------------------------------ what one step does to the acting node *)

Definition log_change2 (c : cluster) (i : N) (nd nd' : node) : Prop :=
  n_logs nd' = n_logs nd \/
  (is_leader (n_state nd) = true /\ n_state nd' = n_state nd /\ n_term nd' = n_term nd /\ n_commit nd' = n_commit nd /\
   exists d, n_logs nd' = n_logs nd ++ [mkEntry (lenN (n_logs nd) + 1) (n_term nd) d]) \/
  (cl (n_state nd') = false /\ lexle nd nd' /\
   exists j s, j <> i /\ get_node c j = Some s /\ n_logs nd' = firstn (length (n_logs nd')) (n_logs s)).

Definition trans_cl (i : N) (nd nd' : node) (g : list ghost) : Prop :=
  cl (n_state nd') = true ->
  (n_state nd' = n_state nd /\ n_term nd' = n_term nd /\ supports g = []) \/
  (n_state nd = Candidate /\ is_leader (n_state nd') = true /\ n_term nd' = n_term nd /\ supports g = [] /\
   n_logs nd' = n_logs nd) \/
  (n_state nd' = Candidate /\ n_term nd' = n_term nd + 1 /\ n_logs nd' = n_logs nd /\ supports g = [(i, n_term nd', i)]).

Definition trans_ncl (c : cluster) (i : N) (nd nd' : node) (g : list ghost) : Prop :=
  cl (n_state nd') = false ->
  supports g = [] \/
  exists r, In (MReq r) (c_net c) /\ q_kind r = KVote /\ supports g = [(i, q_term r, q_from r)] /\ q_from r <> i /\
            n_term nd' = q_term r /\ p_li (local nd) <= q_li r /\ p_lt (local nd) <= q_lt r /\ n_logs nd' = n_logs nd.

Definition newmsg2 (nd' : node) (i : N) (m : msg) : Prop :=
  forall r, m = MReq r -> q_kind r = KVote ->
    q_from r = i /\ n_state nd' = Candidate /\ q_term r = n_term nd' /\
    q_li r = p_li (local nd') /\ q_lt r = p_lt (local nd').

Lemma log_at_prefix : forall (a s : list entry) idx,
  a = firstn (length a) s -> idx <= lenN a -> log_at a idx = log_at s idx.
Proof.
  intros a s idx E H. unfold log_at. destruct (N.eqb_spec idx 0); auto.
  rewrite E at 1. apply nth_error_firstn_lt. unfold lenN in H. lia.
Qed.

Lemma last_in : forall (l : list entry), l <> [] -> In (last l e0) l.
Proof.
  intros l H. destruct (exists_last H) as [l' [x ->]]. rewrite last_last. apply in_or_app. right. left. reflexivity.
Qed.

Lemma last_index : forall (l : list entry), wf_log l -> l <> [] -> e_index (last l e0) = lenN l.
Proof.
  intros l [P _] H. pose proof (nth_error_last l e0 H) as E. rewrite (P _ _ E). unfold lenN.
  destruct l; [congruence|]. cbn [length]. lia.
Qed.

Lemma holds_len : forall nd idx e, holds nd idx e -> 1 <= idx /\ idx <= lenN (n_logs nd).
Proof. intros nd idx e H. apply log_at_some_lt in H. unfold lenN. lia. Qed.

Lemma holds_In : forall nd idx e, holds nd idx e -> In e (n_logs nd).
Proof.
  intros nd idx e H. unfold holds, log_at in H. destruct (idx =? 0); [discriminate|]. eapply nth_error_In; eauto.
Qed.

Section Put.
Variables (sz : N) (c : cluster) (i : N) (nd nd' : node) (net' : list msg) (pre : list ghost).
Let g := pre ++ node_ghosts nd nd'.
Let c' := mkCluster (put_node c i nd') net' (c_hist c ++ g).
Hypothesis Lc : LI c.
Hypothesis Cc : LC sz c.
Hypothesis G : get_node c i = Some nd.
Hypothesis Lc' : LI c'.
Hypothesis Jc' : J sz c'.
Hypothesis Kc' : K c'.
Hypothesis Qpre : forall x, In x pre -> quiet x.
Hypothesis OT : old_term_commit_b g = false.
Hypothesis NQ : nq_node (put_node c i nd') nd nd' = false.
Hypothesis Hidx : n_index nd' = i.
Hypothesis Hsz : n_size nd' = sz.
Hypothesis Tm : n_term nd <= n_term nd'.
Hypothesis LC2 : log_change2 c i nd nd'.
Hypothesis TC : trans_cl i nd nd' g.
Hypothesis TN : trans_ncl c i nd nd' g.
Hypothesis NM : forall m, In m net' -> In m (c_net c) \/ newmsg2 nd' i m.

Lemma getput : forall u v, get_node c' u = Some v -> (u = i /\ v = nd') \/ (u <> i /\ get_node c u = Some v).
Proof.
  intros u v H. unfold get_node in H. cbn [c' c_nodes] in H.
  destruct (put_nth _ _ _ _ _ _ G H) as [[E ->]|[Hne H']].
  - left. split; auto. apply N2Nat.inj. exact E.
  - right. split; auto. intros ->. apply Hne. reflexivity.
Qed.

Lemma getput_i : get_node c' i = Some nd'.
Proof. unfold get_node. cbn [c' c_nodes]. unfold put_node. unfold get_node in G. apply (nth_error_upd_nth_eq _ _ _ _ _ G). Qed.

Lemma getput_o : forall u, u <> i -> get_node c' u = get_node c u.
Proof.
  intros u H. unfold get_node. cbn [c' c_nodes]. unfold put_node. apply nth_error_upd_nth_neq. intros E. apply H.
  apply N2Nat.inj. auto.
Qed.

Lemma Wnd : nwf nd. Proof. unfold get_node in G. eapply (li_wf _ Lc); eauto. Qed.
Lemma Wnd' : nwf nd'. Proof. pose proof getput_i as H. unfold get_node in H. eapply (li_wf _ Lc'); eauto. Qed.

(* a commit recorded by this step *)
Definition NEW (T idx : N) (e : entry) : Prop :=
  is_leader (n_state nd) = true /\ is_leader (n_state nd') = true /\ T = n_term nd' /\ e_term e = T /\
  holds nd' idx e /\ n_commit nd < idx /\ idx <= n_commit nd' /\
  sz / 2 + 1 <= holders (put_node c i nd') T idx (Some e).

Lemma commit_in_g : forall j T idx e, In (GCommit j true T idx e) g ->
  exists x, e = Some x /\ NEW T idx x.
Proof.
  intros j T idx e H. destruct (old_term_In _ _ _ _ _ OT H) as [x [-> Et]]. exists x. split; auto.
  unfold g in H. apply in_app_or in H as [H|H]; [destruct (Qpre _ H)|].
  apply In_node_ghosts_commit in H as (_ & B & -> & E & H1 & H2).
  symmetry in B. apply andb_true_iff in B as [B1 B2].
  unfold NEW. split; [exact B1|]. split; [exact B2|]. split; [reflexivity|]. split; [exact Et|].
  split; [unfold holds; symmetry; exact E|]. split; [exact H1|]. split; [exact H2|].
  rewrite <- Hsz, E. apply nq_node_In with (old := nd); auto.
Qed.

Lemma committed_cases : forall T idx e, committed (c_hist c ++ g) T idx e -> committed (c_hist c) T idx e \/ NEW T idx e.
Proof.
  intros T idx e [j H]. apply in_app_or in H as [H|H]; [left; exists j; exact H|right].
  destruct (commit_in_g _ _ _ _ H) as [x [E N]]. inversion E; subst. exact N.
Qed.

Lemma new_same : forall T idx e, NEW T idx e -> n_logs nd' = n_logs nd /\ n_term nd' = n_term nd.
Proof.
  intros T idx e (L1 & L2 & _ & _ & _ & H1 & H2 & _). split.
  - destruct LC2 as [E|[(_ & _ & _ & Ec & _)|(Cn & _)]]; auto; [lia|].
    unfold cl in Cn. rewrite L2, orb_true_r in Cn. discriminate.
  - assert (Cn : cl (n_state nd') = true) by (unfold cl; rewrite L2; apply orb_true_r).
    destruct (TC Cn) as [(_ & E & _)|[(S0 & _)|(S0 & _)]]; auto.
    + rewrite S0 in L1. discriminate.
    + rewrite S0 in L2. discriminate.
Qed.

(* the acting node keeps a committed entry it holds *)
Lemma keep_holds : forall T idx e, committed (c_hist c) T idx e -> holds nd idx e -> holds nd' idx e.
Proof.
  intros T idx e Cm H. unfold holds in *.
  destruct LC2 as [E|[(_ & _ & _ & _ & d & E)|(Cn & LX & j & s & Hj & Hs & E)]].
  - rewrite E. exact H.
  - rewrite E. apply log_at_snoc_keep. exact H.
  - destruct (lc_et _ _ Cc _ _ _ Cm) as (Et & Ei & _).
    pose proof Wnd as W. pose proof Wnd' as W'.
    destruct (holds_len _ _ _ H) as [I1 I2].
    assert (T <= p_lt (local nd)).
    { rewrite (w_lt _ W). rewrite <- Et. apply wf_log_le_last; [apply (w_log _ W)|]. eapply holds_In; eauto. }
    assert (Lnd : p_li (local nd) = lenN (n_logs nd)) by (apply nwf_li; apply (w_inv _ W)).
    assert (Lnd' : p_li (local nd') = lenN (n_logs nd')) by (apply nwf_li; apply (w_inv _ W')).
    (* the last entry of the new log: term >= T, index >= idx *)
    assert (NE : n_logs nd' <> []).
    { intros E0. unfold lexle in LX. rewrite (w_lt _ W'), Lnd', E0 in LX. unfold last_term, lenN in LX. cbn in LX. lia. }
    set (x := last (n_logs nd') e0).
    assert (Xin : In x (n_logs nd')) by (apply last_in; auto).
    assert (Xi : e_index x = lenN (n_logs nd')) by (apply last_index; auto; apply (w_log _ W')).
    assert (Xt : e_term x = p_lt (local nd')) by (rewrite (w_lt _ W'); reflexivity).
    assert (Xs : In x (n_logs s)) by (eapply In_prefix; eauto).
    unfold lexle in LX.
    assert (T <= e_term x) by lia.
    assert (idx <= e_index x).
    { destruct (N.eq_dec (e_term x) T) as [Eq|Ne].
      - rewrite Xi. lia.
      - assert (idx < e_index x); [|lia]. eapply (lc_c2 _ _ Cc T idx e j s x); eauto. lia. }
    pose proof (lc_c1 _ _ Cc T idx e j s x Cm Hs Xs) as Hh. unfold holds in Hh.
    rewrite (log_at_prefix _ _ idx E); [apply Hh; auto | lia].
Qed.


Hypothesis ES : election_safety (c_hist c ++ g).

Lemma nodes_len' : length (put_node c i nd') = N.to_nat sz.
Proof. unfold put_node. rewrite upd_nth_length. apply (lc_len _ _ Cc). Qed.

Lemma sup_app : supports (c_hist c ++ g) = supports (c_hist c) ++ supports g.
Proof. apply supports_app. Qed.

(* the supports recorded by this step *)
Lemma sup_g : forall u t cd, In (u, t, cd) (supports g) ->
  u = i /\
  ((cd = i /\ t = n_term nd' /\ n_state nd' = Candidate /\ n_logs nd' = n_logs nd) \/
   (exists r, In (MReq r) (c_net c) /\ q_kind r = KVote /\ cd = q_from r /\ t = q_term r /\ q_from r <> i /\
              n_term nd' = q_term r /\ p_li (local nd) <= q_li r /\ p_lt (local nd) <= q_lt r /\ n_logs nd' = n_logs nd)).
Proof.
  intros u t cd H. destruct (cl (n_state nd')) eqn:Cn.
  - destruct (TC Cn) as [(_ & _ & E)|[(_ & _ & _ & E & _)|(S0 & T0 & L0 & E)]]; rewrite E in H.
    + destruct H.
    + destruct H.
    + destruct H as [H|[]]. inversion H; subst. split; auto.
  - destruct (TN Cn) as [E|(r & Hr & Kr & E & Hne & T0 & P1 & P2 & L0)]; rewrite E in H; [destruct H|].
    destruct H as [H|[]]. inversion H; subst. split; auto. right. exists r. repeat split; auto.
Qed.

(* ------------------------------------------------------------------ entries committed before this step *)

Lemma c1_old : forall T idx e u v x, committed (c_hist c) T idx e -> get_node c' u = Some v -> In x (n_logs v) ->
  T <= e_term x -> idx <= e_index x -> holds v idx e.
Proof.
  intros T idx e u v x Cm Hg Hx H1 H2. destruct (getput _ _ Hg) as [[-> ->]|[Hne Hg']].
  2:{ eapply (lc_c1 _ _ Cc); eauto. }
  destruct LC2 as [E|[(L & _ & _ & _ & d & E)|(Cn & LX & j & s & Hj & Hs & E)]].
  - unfold holds. rewrite E. rewrite E in Hx. eapply (lc_c1 _ _ Cc); eauto.
  - eapply keep_holds; eauto. rewrite E in Hx. apply in_app_or in Hx as [Hx|[<-|[]]].
    + eapply (lc_c1 _ _ Cc); eauto.
    + cbn in H1. eapply (lc_c4 _ _ Cc); eauto.
  - assert (Xs : In x (n_logs s)) by (eapply In_prefix; eauto).
    pose proof (lc_c1 _ _ Cc T idx e j s x Cm Hs Xs H1 H2) as Hh. unfold holds in *.
    rewrite (log_at_prefix _ _ idx E); auto.
    apply In_nth_error in Hx as [k Hk]. destruct (w_log _ Wnd') as [P _]. rewrite (P _ _ Hk) in H2.
    assert (k < length (n_logs nd'))%nat by (apply nth_error_Some; congruence). unfold lenN. lia.
Qed.

Lemma c2_old : forall T idx e u v x, committed (c_hist c) T idx e -> get_node c' u = Some v -> In x (n_logs v) ->
  T < e_term x -> idx < e_index x.
Proof.
  intros T idx e u v x Cm Hg Hx H1. destruct (getput _ _ Hg) as [[-> ->]|[Hne Hg']].
  2:{ eapply (lc_c2 _ _ Cc); eauto. }
  destruct LC2 as [E|[(L & _ & _ & _ & d & E)|(Cn & LX & j & s & Hj & Hs & E)]].
  - rewrite E in Hx. eapply (lc_c2 _ _ Cc); eauto.
  - rewrite E in Hx. apply in_app_or in Hx as [Hx|[<-|[]]].
    + eapply (lc_c2 _ _ Cc); eauto.
    + cbn in *. assert (Hh : holds nd idx e) by (eapply (lc_c4 _ _ Cc); eauto; lia).
      apply holds_len in Hh. lia.
  - eapply (lc_c2 _ _ Cc T idx e j s x); eauto. eapply In_prefix; eauto.
Qed.

Lemma lead_i : is_leader (n_state nd') = true -> In (i, n_term nd') (leaders (c_hist c ++ g)).
Proof.
  intros L. pose proof getput_i as H. unfold get_node in H.
  pose proof (li_lh1 _ Lc' _ _ H L) as X. rewrite N2Nat.id in X. exact X.
Qed.

Lemma c4_old : forall T idx e u v, committed (c_hist c) T idx e -> get_node c' u = Some v ->
  is_leader (n_state v) = true -> T <= n_term v -> holds v idx e.
Proof.
  intros T idx e u v Cm Hg L HT. destruct (getput _ _ Hg) as [[-> ->]|[Hne Hg']].
  2:{ eapply (lc_c4 _ _ Cc); eauto. }
  assert (Cn : cl (n_state nd') = true) by (unfold cl; rewrite L; apply orb_true_r).
  destruct (TC Cn) as [(S0 & T0 & _)|[(S0 & _ & T0 & Sg & L0)|(S0 & _)]].
  - eapply keep_holds; eauto. eapply (lc_c4 _ _ Cc); eauto; [rewrite <- S0; auto | lia].
  - (* newly elected *)
    destruct (lc_et _ _ Cc _ _ _ Cm) as (Et & Ei & i0 & Hi0).
    destruct (N.eq_dec T (n_term nd')) as [Eq|Ne].
    + exfalso. assert (i0 = i).
      { apply (ES i0 i T); [rewrite leaders_app; apply in_or_app; left; exact Hi0 | rewrite Eq; apply lead_i; auto]. }
      subst i0. unfold get_node in G. pose proof (li_lh2 _ Lc (N.to_nat i) nd T G) as X. rewrite N2Nat.id in X.
      destruct (X Hi0) as [H|[_ H]]; [lia|]. rewrite S0 in H. discriminate.
    + destruct (j_lead _ _ Jc' _ _ (lead_i L)) as [V [NV [SV QV]]].
      destruct (lc_q _ _ Cc _ _ _ Cm) as [S [NS [QS HS]]].
      destruct (quorum_intersection_n sz S V NS NV) as [w [W1 W2]]; auto.
      { intros y Hy. apply HS; auto. }
      { intros y Hy. apply SV; auto. }
      destruct (HS _ W1) as (_ & vw & _ & _ & _ & Hv).
      destruct (SV _ W2) as [_ Hsup]. cbn [c' c_hist] in Hsup. rewrite sup_app, Sg, app_nil_r in Hsup.
      assert (Hh : holds nd idx e).
      { apply (Hv (n_term nd') i Hsup); [lia| exact G | lia | unfold cl; rewrite S0; reflexivity]. }
      unfold holds in *. rewrite L0. exact Hh.
  - rewrite S0 in L. discriminate.
Qed.

(* a candidate whose last entry is at least that of a holder holds the entry *)
Lemma cover : forall T idx e r, committed (c_hist c) T idx e -> holds nd idx e ->
  In (MReq r) (c_net c) -> q_kind r = KVote -> q_from r <> i ->
  p_li (local nd) <= q_li r -> p_lt (local nd) <= q_lt r -> T < q_term r ->
  cand_safe c' (q_from r) (q_term r) idx e.
Proof.
  intros T idx e r Cm Hh Hr Kr Hne P1 P2 HT v Hg Ht Hcl.
  rewrite getput_o in Hg by auto.
  destruct (is_leader (n_state v)) eqn:L; [eapply (lc_c4 _ _ Cc); eauto; lia|].
  assert (Sv : n_state v = Candidate).
  { unfold cl in Hcl. rewrite L, orb_false_r in Hcl. destruct (n_state v); try discriminate. reflexivity. }
  destruct (lc_vr _ _ Cc r v Hr Kr Hg) as [_ VR]. destruct (VR Sv Ht) as [V1 V2].
  assert (Wv : nwf v) by (unfold get_node in Hg; eapply (li_wf _ Lc); eauto).
  destruct (lc_et _ _ Cc _ _ _ Cm) as (Et & Ei & _).
  destruct (holds_len _ _ _ Hh) as [I1 I2].
  pose proof (nwf_li _ (w_inv _ Wnd)) as Ln. pose proof (nwf_li _ (w_inv _ Wv)) as Lv.
  assert (T <= p_lt (local nd)).
  { rewrite (w_lt _ Wnd). rewrite <- Et. apply wf_log_le_last; [apply (w_log _ Wnd)|]. eapply holds_In; eauto. }
  assert (NE : n_logs v <> []).
  { intros E0. rewrite E0 in Lv. unfold lenN in Lv. cbn in Lv. lia. }
  eapply (lc_c1 _ _ Cc T idx e (q_from r) v (last (n_logs v) e0)); eauto.
  - apply last_in; auto.
  - change (e_term (last (n_logs v) e0)) with (last_term (n_logs v)). rewrite <- (w_lt _ Wv). lia.
  - rewrite last_index; auto; [lia | apply (w_log _ Wv)].
Qed.

(* a support recorded before this step keeps its candidate safe *)
Lemma transport : forall T idx e u t cd, committed (c_hist c) T idx e -> In (u, t, cd) (supports (c_hist c)) ->
  cand_safe c cd t idx e -> cand_safe c' cd t idx e.
Proof.
  intros T idx e u t cd Cm Hs Hc v Hg Ht Hcl. destruct (getput _ _ Hg) as [[-> ->]|[Hne Hg']]; [|eapply Hc; eauto].
  pose proof (lc_svt _ _ Cc _ _ _ _ Hs G) as Hle.
  destruct (TC Hcl) as [(S0 & T0 & _)|[(S0 & _ & T0 & _ & L0)|(_ & T0 & _)]]; [| |lia].
  - eapply keep_holds; eauto. apply (Hc nd G); [lia | rewrite <- S0; exact Hcl].
  - eapply keep_holds; eauto. apply (Hc nd G); [lia | unfold cl; rewrite S0; reflexivity].
Qed.

Lemma q_old : forall T idx e, committed (c_hist c) T idx e ->
  exists S, NoDup S /\ sz < 2 * lenN S /\
    forall u, In u S -> u < sz /\ exists v, get_node c' u = Some v /\ holds v idx e /\ T <= n_term v /\
      forall t cd, In (u, t, cd) (supports (c_hist c ++ g)) -> T < t -> cand_safe c' cd t idx e.
Proof.
  intros T idx e Cm. destruct (lc_q _ _ Cc _ _ _ Cm) as [S [NS [QS HS]]]. exists S. split; auto. split; auto.
  intros u Hu. destruct (HS _ Hu) as (Hlt & v & Hg & Hh & HT & Hv). split; auto.
  destruct (N.eq_dec u i) as [->|Hne].
  - rewrite G in Hg. inversion Hg; subst v. exists nd'. split; [apply getput_i|]. split; [eapply keep_holds; eauto|]. split; [lia|].
    intros t cd Hs Ht. rewrite sup_app in Hs. apply in_app_or in Hs as [Hs|Hs].
    + eapply transport; eauto.
    + destruct (sup_g _ _ _ Hs) as [_ [(-> & -> & S0 & L0)|(r & Hr & Kr & -> & -> & Hne & T0 & P1 & P2 & L0)]].
      * intros v Hg' _ _. rewrite getput_i in Hg'. inversion Hg'; subst v. eapply keep_holds; eauto.
      * eapply cover; eauto.
  - exists v. split; [rewrite getput_o; auto|]. split; auto. split; auto.
    intros t cd Hs Ht. rewrite sup_app in Hs. apply in_app_or in Hs as [Hs|Hs].
    + eapply transport; eauto.
    + destruct (sup_g _ _ _ Hs) as [E _]. congruence.
Qed.

(* ------------------------------------------------------------------ entries committed by this step *)

Section New.
Variables (T idx : N) (e : entry).
Hypothesis HN : NEW T idx e.

Lemma new_quorum : exists S, NoDup S /\ sz < 2 * lenN S /\
  forall u, In u S -> u < sz /\ exists v, get_node c' u = Some v /\ holds v idx e /\ n_term v = T /\
    forall t cd, In (u, t, cd) (supports (c_hist c ++ g)) -> t <= T.
Proof.
  destruct HN as (_ & _ & _ & _ & _ & _ & _ & Q).
  destruct (holders_quorum (put_node c i nd') sz T idx e) as [S [NS [QS HS]]]; auto.
  { apply (proj1 (li_cinv _ Lc')). }
  { apply nodes_len'. }
  exists S. split; auto. split; auto. intros u Hu. destruct (HS _ Hu) as (Hlt & v & Hv & Tv & Hh). split; auto.
  exists v. split; [exact Hv|]. split; [exact Hh|]. split; auto.
  intros t cd Hs. pose proof (k_term _ Kc' (N.to_nat u) v t cd Hv) as X. rewrite N2Nat.id in X. specialize (X Hs). lia.
Qed.

Lemma new_no_higher_leader : forall u t, In (u, t) (leaders (c_hist c ++ g)) -> t <= T.
Proof.
  intros u t Hl. destruct new_quorum as [S [NS [QS HS]]].
  destruct (j_lead _ _ Jc' _ _ Hl) as [V [NV [SV QV]]].
  destruct (quorum_intersection_n sz S V NS NV) as [w [W1 W2]]; auto.
  { intros y Hy. apply HS; auto. }
  { intros y Hy. apply SV; auto. }
  destruct (HS _ W1) as (_ & v & _ & _ & _ & Hv). destruct (SV _ W2) as [_ Hsup]. eapply Hv; eauto.
Qed.

Lemma new_no_higher_entry : forall u v x, get_node c' u = Some v -> In x (n_logs v) -> e_term x <= T.
Proof.
  intros u v x Hg Hx. unfold get_node in Hg. destruct (li_el _ Lc' _ _ _ Hg Hx) as [i0 Hi0].
  eapply new_no_higher_leader; eauto.
Qed.

Lemma new_c1 : forall u v x, get_node c' u = Some v -> In x (n_logs v) -> T <= e_term x -> idx <= e_index x -> holds v idx e.
Proof.
  intros u v x Hg Hx H1 H2. pose proof (new_no_higher_entry _ _ _ Hg Hx) as H3.
  destruct HN as (_ & L' & ET & _ & Hh & _).
  pose proof getput_i as Gi. unfold get_node in Hg, Gi.
  assert (Hl : log_at (n_logs nd') (e_index x) = Some x).
  { eapply (li_has _ Lc' _ nd' _ v x); eauto. lia. }
  assert (Hv : log_at (n_logs v) (e_index x) = Some x).
  { apply In_nth_error in Hx as [k Hk]. destruct (w_log _ (li_wf _ Lc' _ _ Hg)) as [P _].
    rewrite (P _ _ Hk), log_at_nth. exact Hk. }
  unfold holds in *. rewrite <- Hh.
  eapply lmatch_log_at; [eapply (li_lm _ Lc'); eauto| exact Hv | exact Hl | reflexivity | exact H2].
Qed.

Lemma new_c2 : forall u v x, get_node c' u = Some v -> In x (n_logs v) -> T < e_term x -> idx < e_index x.
Proof. intros u v x Hg Hx H1. pose proof (new_no_higher_entry _ _ _ Hg Hx). lia. Qed.

Lemma new_c4 : forall u v, get_node c' u = Some v -> is_leader (n_state v) = true -> T <= n_term v -> holds v idx e.
Proof.
  intros u v Hg L HT. destruct HN as (_ & L' & ET & _ & Hh & _).
  assert (Hl : In (u, n_term v) (leaders (c_hist c ++ g))).
  { unfold get_node in Hg. pose proof (li_lh1 _ Lc' _ _ Hg L) as X. rewrite N2Nat.id in X. exact X. }
  pose proof (new_no_higher_leader _ _ Hl) as H3.
  assert (u = i).
  { apply (ES u i (n_term v)); auto. replace (n_term v) with (n_term nd') by lia. apply lead_i; auto. }
  subst u. rewrite getput_i in Hg. inversion Hg; subst v. exact Hh.
Qed.

End New.

(* ------------------------------------------------------------------ the history *)

Lemma app_split : forall (a b : list ghost) h1 y h2,
  a ++ b = h1 ++ y :: h2 ->
  (exists h2', a = h1 ++ y :: h2' /\ h2 = h2' ++ b) \/ (exists g1, h1 = a ++ g1 /\ b = g1 ++ y :: h2).
Proof.
  induction a as [|x a IH]; intros b h1 y h2 E.
  - right. exists h1. auto.
  - destruct h1 as [|z h1]; cbn in E; inversion E; subst.
    + left. exists a. auto.
    + destruct (IH _ _ _ _ H1) as [(h2' & -> & ->)|(g1 & -> & ->)]; [left; exists h2'; auto | right; exists g1; auto].
Qed.

Lemma h_new : leader_completeness_up (c_hist c ++ g).
Proof.
  intros h1 h2 i0 t idx e j t' log E Hin Ht.
  destruct (app_split _ _ _ _ _ E) as [(h2' & E1 & ->)|(g1 & -> & E2)].
  - apply in_app_or in Hin as [Hin|Hin]; [eapply (lc_h _ _ Cc); eauto|].
    unfold g in Hin. apply in_app_or in Hin as [Hin|Hin]; [destruct (Qpre _ Hin)|].
    apply In_node_ghosts_leader in Hin as (-> & -> & -> & L & _).
    assert (Hc : In (GCommit i0 true t idx e) (c_hist c)) by (rewrite E1; apply in_or_app; right; left; reflexivity).
    destruct (lc_some _ _ Cc _ _ _ _ Hc) as [x ->].
    apply (c4_old t idx x i nd'); auto; [exists i0; exact Hc | apply getput_i | lia].
  - exfalso. unfold g in E2. eapply node_ghosts_after_commit; eauto.
Qed.

Theorem LC_put : LC sz c'.
Proof.
  constructor; cbn [c' c_nodes c_net c_hist].
  - apply nodes_len'.
  - intros i0 T idx e H. apply in_app_or in H as [H|H]; [eapply (lc_some _ _ Cc); eauto|].
    destruct (commit_in_g _ _ _ _ H) as [x [-> _]]. eauto.
  - intros T idx e Cm. destruct (committed_cases _ _ _ Cm) as [Co|N].
    + destruct (lc_et _ _ Cc _ _ _ Co) as (A & B & i0 & Hi0). repeat split; auto. exists i0.
      rewrite leaders_app. apply in_or_app. auto.
    + pose proof N as (_ & L' & ET & Et & Hh & _). repeat split; auto.
      * eapply log_at_wf_index; [apply (w_log _ Wnd')|exact Hh].
      * exists i. rewrite ET. apply lead_i; auto.
  - intros T idx e u v x Cm. destruct (committed_cases _ _ _ Cm) as [Co|N]; [eapply c1_old; eauto | eapply new_c1; eauto].
  - intros T idx e u v x Cm. destruct (committed_cases _ _ _ Cm) as [Co|N]; [eapply c2_old; eauto | eapply new_c2; eauto].
  - intros T idx e u v Cm. destruct (committed_cases _ _ _ Cm) as [Co|N]; [eapply c4_old; eauto | eapply new_c4; eauto].
  - intros T idx e Cm. destruct (committed_cases _ _ _ Cm) as [Co|N]; [apply q_old; auto|].
    destruct (new_quorum T idx e N) as [S [NS [QS HS]]]. exists S. split; auto. split; auto.
    intros u Hu. destruct (HS _ Hu) as (Hlt & v & Hv & Hh & Tv & Hs). split; auto. exists v. repeat split; auto; [lia|].
    intros t cd Hsup Ht. specialize (Hs _ _ Hsup). lia.
  - (* svt *)
    intros u t cd v Hs Hg. rewrite sup_app in Hs. apply in_app_or in Hs as [Hs|Hs].
    + destruct (getput _ _ Hg) as [[-> ->]|[Hne Hg']]; [|eapply (lc_svt _ _ Cc); eauto].
      pose proof (lc_svt _ _ Cc _ _ _ _ Hs G). lia.
    + destruct (sup_g _ _ _ Hs) as [_ [(-> & -> & _)|(r & Hr & Kr & -> & -> & Hne & _)]].
      * rewrite getput_i in Hg. inversion Hg; subst. lia.
      * rewrite getput_o in Hg by auto. apply (lc_vr _ _ Cc r v Hr Kr Hg).
  - (* vr *)
    intros r v Hr Kr Hg. destruct (NM _ Hr) as [Ho|Hn].
    + destruct (getput _ _ Hg) as [[Ei ->]|[Hne Hg']]; [|apply (lc_vr _ _ Cc r v Ho Kr Hg')].
      assert (G' : get_node c (q_from r) = Some nd) by (rewrite Ei; exact G).
      destruct (lc_vr _ _ Cc r nd Ho Kr G') as [V1 V2]. split; [lia|].
      intros S0 T0. assert (Cn : cl (n_state nd') = true) by (unfold cl; rewrite S0; reflexivity).
      destruct (TC Cn) as [(S1 & T1 & _)|[(_ & L1 & _)|(_ & T1 & _)]]; [|rewrite S0 in L1; discriminate|lia].
      rewrite S0 in S1. destruct (V2 (eq_sym S1)) as [A B]; [lia|].
      assert (EL : n_logs nd' = n_logs nd).
      { destruct LC2 as [E|[(L & _)|(Cn' & _)]]; auto; [rewrite <- S1 in L; discriminate|congruence]. }
      rewrite A, B. rewrite (nwf_li _ (w_inv _ Wnd)), (nwf_li _ (w_inv _ Wnd')), (w_lt _ Wnd), (w_lt _ Wnd'), EL. auto.
    + destruct (Hn r eq_refl Kr) as (Fi & S0 & T0 & A & B). rewrite Fi, getput_i in Hg. inversion Hg; subst v.
      split; [lia|auto].
  - apply h_new.
Qed.

End Put.

(* ================================================================== the step *)

Lemma quiet_request_ghosts : forall c new r s x, In x (request_ghosts c new r s) -> quiet x.
Proof.
  intros c new r s x H. unfold request_ghosts in H.
  apply in_app_or in H as [H|H]; [destruct (_ && _); [destruct H as [<-|[]]; exact I | destruct H]|].
  apply in_app_or in H as [H|H]; [destruct (_ && _ && _); [destruct H as [<-|[]]; exact I | destruct H]|].
  destruct (_ && _); [|destruct H]. destruct (get_node c (q_from r)); [|destruct H].
  destruct (entries_eqb _ _); [destruct H|]. destruct H as [<-|[]]. exact I.
Qed.

Lemma LC_same : forall sz c c',
  LC sz c -> c_nodes c' = c_nodes c -> c_hist c' = c_hist c -> (forall m, In m (c_net c') -> In m (c_net c)) -> LC sz c'.
Proof.
  intros sz c c' L N H M.
  assert (GN : forall u, get_node c' u = get_node c u) by (intros; unfold get_node; rewrite N; reflexivity).
  constructor; rewrite ?N, ?H; try apply L.
  - intros T idx e u v x Cm Hg. rewrite GN in Hg. eapply (lc_c1 _ _ L); eauto.
  - intros T idx e u v x Cm Hg. rewrite GN in Hg. eapply (lc_c2 _ _ L); eauto.
  - intros T idx e u v Cm Hg. rewrite GN in Hg. eapply (lc_c4 _ _ L); eauto.
  - intros T idx e Cm. destruct (lc_q _ _ L _ _ _ Cm) as [S [NS [QS HS]]]. exists S. split; auto. split; auto.
    intros u Hu. destruct (HS _ Hu) as (Hlt & v & Hg & Hh & HT & Hv). split; auto. exists v. rewrite GN. repeat split; auto.
    intros t cd Hs Ht w Hw. rewrite GN in Hw. eapply Hv; eauto.
  - intros u t cd v Hs Hg. rewrite GN in Hg. eapply (lc_svt _ _ L); eauto.
  - intros r v Hr Kr Hg. rewrite GN in Hg. eapply (lc_vr _ _ L); eauto.
Qed.

Lemma cl_false_cand : forall s, cl s = false -> is_candidate s = false.
Proof. intros s H. unfold cl in H. apply orb_false_iff in H. tauto. Qed.

Theorem LC_step : forall sz c e,
  LI c -> J sz c -> K c -> LC sz c ->
  election_safety (c_hist (step rr_fixed c e)) ->
  ack_diverged_b (c_hist (step rr_fixed c e)) = false ->
  old_term_commit_b (c_hist (step rr_fixed c e)) = false ->
  nq_step c (step rr_fixed c e) = false ->
  LC sz (step rr_fixed c e).
Proof.
  intros sz c e Lc Jc Kc Cc ES AD OT NQ.
  pose proof (LI_step c e Lc ES AD) as Lc'.
  pose proof (J_step rr_fixed sz c e Jc (or_introl eq_refl)) as Jc'.
  pose proof (K_step rr_fixed c e eq_refl eq_refl Kc) as Kc'.
  destruct (li_cinv _ Lc) as [HN HM].
  unfold nq_step in NQ.
  destruct e as [i el due | k el | k | k | i d]; cbn [step] in *.
  - (* Tick *)
    destruct (get_node c i) as [nd|] eqn:G; [|exact Cc].
    pose proof (get_node_index _ _ _ HN G) as Ei.
    pose proof (li_wf _ Lc _ _ G) as W.
    pose proof (term_process nd el due) as Tm.
    pose proof (keep_process nd el due) as Kp.
    pose proof (process_keeps nd el due) as Pk.
    pose proof (good_process nd el due (w_inv _ W)) as [I' St].
    pose proof (reqs_process_kind nd el due) as RK.
    destruct (process nd el due) as [nd' reqs]. cbn [fst snd c_hist c_nodes c_net] in *.
    destruct St as (Hi & _ & Hs & _).
    rewrite old_term_app in OT. apply orb_false_iff in OT as [_ OT].
    apply (LC_put sz c i nd nd' _ []); auto.
    + intros x [].
    + unfold get_node in G. eapply nq_nodes_nth; eauto. unfold put_node. apply (nth_error_upd_nth_eq _ _ _ _ _ G).
    + congruence.
    + rewrite Hs. apply (j_size _ _ Jc). unfold get_node in G. eapply nth_error_In; eauto.
    + lia.
    + left. apply Kp.
    + intros Cn. left. rewrite (Pk Cn). repeat split; auto. cbn [app]. rewrite supports_node_ghosts.
      rewrite N.eqb_refl, andb_true_r. destruct (is_candidate (n_state nd)); reflexivity.
    + intros Cn. left. cbn [app]. rewrite supports_node_ghosts, (cl_false_cand _ Cn). reflexivity.
    + intros m Hm. apply in_app_or in Hm as [Hm|Hm]; [left; exact Hm|right].
      apply in_map_iff in Hm as [q [<- Hq]]. intros r0 E K0. inversion E; subst r0.
      destruct (RK _ Hq) as [(Kq & _)|Kq]; rewrite Kq in K0; discriminate.
  - (* Deliver *)
    destruct (nth_error (c_net c) k) as [[r | r s]|] eqn:Hk; [| |exact Cc].
    + (* request *)
      pose proof (HM _ (nth_error_In _ _ Hk)) as Hok. cbn in Hok.
      pose proof (li_msg _ Lc _ (nth_error_In _ _ Hk)) as RW. cbn in RW.
      destruct (get_node c (q_to r)) as [nd|] eqn:G.
      2:{ eapply LC_same; eauto. cbn. intros m Hm. eapply In_remove_nth; eauto. }
      pose proof (get_node_index _ _ _ HN G) as Ei.
      assert (Hne : q_from r <> n_index nd) by congruence.
      pose proof (li_wf _ Lc _ _ G) as W.
      pose proof (good_request rr_fixed nd r el (w_inv _ W) Hne) as [I' St].
      pose proof (request_keeps rr_fixed nd r el) as Kp.
      pose proof (request_term rr_fixed nd r el) as (T1 & T2 & _).
      pose proof (request_shape rr_fixed nd r el W RW Hne) as [W' Sh].
      pose proof (lexle_request rr_fixed nd r el W RW Hne) as LX.
      pose proof (vote_granted nd r el) as VG.
      pose proof (request_no_vote rr_fixed nd r el) as NV.
      destruct (handle_request rr_fixed nd r el) as [nd' s]. cbn [fst snd c_hist c_nodes c_net] in *.
      destruct St as (Hi & _ & Hs & _).
      assert (AD' : ack_diverged_b (request_ghosts c nd' r s) = false).
      { rewrite ack_diverged_app in AD. apply orb_false_iff in AD as [_ AD].
        rewrite ack_diverged_app in AD. apply orb_false_iff in AD as [AD _]. exact AD. }
      rewrite old_term_app in OT. apply orb_false_iff in OT as [_ OT].
      assert (NoC : supports (node_ghosts nd nd') = []).
      { rewrite supports_node_ghosts.
        destruct (is_candidate (n_state nd')) eqn:C; cbn [andb]; auto.
        assert (E : nd' = nd) by (apply Kp; unfold cl; rewrite C; reflexivity). subst nd'.
        rewrite C, N.eqb_refl. reflexivity. }
      apply (LC_put sz c (q_to r) nd nd' _ (request_ghosts c nd' r s)); auto.
      * apply quiet_request_ghosts.
      * unfold get_node in G. eapply nq_nodes_nth; eauto. unfold put_node. apply (nth_error_upd_nth_eq _ _ _ _ _ G).
      * congruence.
      * rewrite Hs. apply (j_size _ _ Jc). unfold get_node in G. eapply nth_error_In; eauto.
      * destruct Sh as [E|[A O]]; [left; exact E|].
        destruct (cl (n_state nd')) eqn:Cn; [left; rewrite (Kp eq_refl); reflexivity|].
        right; right. split; auto. split; auto.
        assert (V : (N.to_nat (q_from r) < length (c_nodes c))%nat).
        { eapply (li_lv _ Lc). apply (li_mh _ Lc); eauto. eapply nth_error_In; eauto. }
        destruct (get_node c (q_from r)) as [sender|] eqn:Gs; [|unfold get_node in Gs; apply nth_error_None in Gs; lia].
        exists (q_from r), sender. split; [congruence|]. split; auto.
        eapply no_ack_diverged; eauto.
      * intros Cn. left. rewrite (Kp Cn) in *. repeat split; auto.
        rewrite supports_app, NoC, app_nil_r, supports_request_ghosts.
        destruct (is_vote (q_kind r) && is_ok (s_result s)) eqn:V; auto.
        destruct (T2 eq_refl) as [L E]. specialize (E eq_refl). lia.
      * intros Cn. rewrite supports_app, NoC, app_nil_r, supports_request_ghosts.
        destruct (is_vote (q_kind r) && is_ok (s_result s)) eqn:V; [|left; reflexivity].
        right. pose proof (NV eq_refl) as Kr. exists r.
        assert (O : is_ok (s_result s) = true) by (rewrite Kr in V; exact V).
        destruct (VG Kr O) as (P1 & P2 & L0 & _ & T3 & T4).
        split; [eapply nth_error_In; eauto|]. split; auto. split; [rewrite Hi, Ei; reflexivity|].
        repeat split; auto.
      * intros m Hm. apply in_app_or in Hm as [Hm|[<-|[]]]; [left; eapply In_remove_nth; eauto | right].
        intros r0 E. discriminate.
    + (* response *)
      pose proof (HM _ (nth_error_In _ _ Hk)) as Hok. cbn in Hok. destruct Hok as [Hft Hto].
      destruct (get_node c (s_to s)) as [nd|] eqn:G.
      2:{ eapply LC_same; eauto. cbn. intros m Hm. eapply In_remove_nth; eauto. }
      pose proof (get_node_index _ _ _ HN G) as Ei.
      assert (Hne : q_to r <> n_index nd) by congruence.
      pose proof (li_wf _ Lc _ _ G) as W.
      pose proof (good_response rr_fixed nd r s (w_inv _ W) Hne) as [I' St].
      pose proof (response_term rr_fixed nd r s eq_refl) as T1.
      pose proof (keep_response rr_fixed nd r s (w_inv _ W) Hne) as Kp.
      pose proof (response_cl nd r s) as RC.
      pose proof (reqs_response rr_fixed nd r s Hne) as RO.
      pose proof (response_vote_reqs rr_fixed nd r s) as RV.
      destruct (handle_response rr_fixed nd r s) as [nd' reqs]. cbn [fst snd c_hist c_nodes c_net] in *.
      destruct St as (Hi & _ & Hs & _).
      rewrite (response_ghosts_fixed rr_fixed nd r s eq_refl) in *.
      rewrite old_term_app in OT. apply orb_false_iff in OT as [_ OT].
      apply (LC_put sz c (s_to s) nd nd' _ []); auto.
      * intros x [].
      * unfold get_node in G. eapply nq_nodes_nth; eauto. unfold put_node. apply (nth_error_upd_nth_eq _ _ _ _ _ G).
      * congruence.
      * rewrite Hs. apply (j_size _ _ Jc). unfold get_node in G. eapply nth_error_In; eauto.
      * left. apply Kp.
      * intros Cn. cbn [app]. rewrite supports_node_ghosts.
        destruct (RC Cn) as [(S0 & T0)|[(S0 & L0 & T0)|(S0 & T0)]].
        -- left. repeat split; auto. rewrite S0, T0, N.eqb_refl, andb_true_r.
           destruct (is_candidate (n_state nd)); reflexivity.
        -- right; left. repeat split; auto; [|apply Kp].
           destruct (n_state nd'); try discriminate. reflexivity.
        -- right; right. repeat split; auto; [apply Kp|].
           rewrite S0, T0. cbn [is_candidate andb].
           replace (n_term nd =? n_term nd + 1) with false by (symmetry; apply N.eqb_neq; lia).
           rewrite andb_false_r. cbn. rewrite Hi, Ei. reflexivity.
      * intros Cn. left. cbn [app]. rewrite supports_node_ghosts, (cl_false_cand _ Cn). reflexivity.
      * intros m Hm. apply in_app_or in Hm as [Hm|Hm]; [left; eapply In_remove_nth; eauto | right].
        apply in_map_iff in Hm as [q [<- Hq]]. intros r0 E K0. inversion E; subst r0.
        destruct (RO _ Hq) as [Fq _]. destruct (RV q Hq K0) as (A & B & C0 & D). repeat split; auto. congruence.
  - (* Drop *)
    eapply LC_same; eauto. cbn. intros m Hm. eapply In_remove_nth; eauto.
  - (* Duplicate *)
    destruct (nth_error (c_net c) k) as [m0|] eqn:Hk; [|exact Cc].
    eapply LC_same; eauto. cbn. intros m Hm. apply in_app_or in Hm as [Hm|[<-|[]]]; auto. eapply nth_error_In; eauto.
  - (* ClientAppend *)
    destruct (get_node c i) as [nd|] eqn:G; [|exact Cc].
    destruct (is_leader (n_state nd)) eqn:L; [|exact Cc].
    pose proof (get_node_index _ _ _ HN G) as Ei.
    pose proof (li_wf _ Lc _ _ G) as W.
    pose proof (term_append nd d) as Tm.
    pose proof (append_state nd d) as As.
    pose proof (commit_append nd d (ni_size _ (w_inv _ W))) as Ca.
    pose proof (good_append nd d (w_inv _ W)) as [I' St].
    pose proof (append_shape nd d W) as (W' & El & RK).
    destruct (append nd d) as [nd' reqs]. cbn [fst snd c_hist c_nodes c_net] in *.
    destruct St as (Hi & _ & Hs & _).
    rewrite old_term_app in OT. apply orb_false_iff in OT as [_ OT].
    assert (Cn : cl (n_state nd') = true) by (unfold cl; rewrite As, L; apply orb_true_r).
    apply (LC_put sz c i nd nd' _ []); auto.
    + intros x [].
    + unfold get_node in G. eapply nq_nodes_nth; eauto. unfold put_node. apply (nth_error_upd_nth_eq _ _ _ _ _ G).
    + congruence.
    + rewrite Hs. apply (j_size _ _ Jc). unfold get_node in G. eapply nth_error_In; eauto.
    + lia.
    + right; left. repeat split; auto. exists d. exact El.
    + intros _. left. repeat split; auto. cbn [app]. rewrite supports_node_ghosts, As.
      destruct (n_state nd); try discriminate. reflexivity.
    + intros F. congruence.
    + intros m Hm. apply in_app_or in Hm as [Hm|Hm]; [left; exact Hm|right].
      apply in_map_iff in Hm as [q [<- Hq]]. intros r0 E K0. inversion E; subst r0.
      destruct (RK _ Hq) as [Kq _]. rewrite Kq in K0. discriminate.
Qed.

(* ================================================================== all histories *)

Lemma init_LC : forall size, size <> 1 -> LC size (init_default size).
Proof.
  intros size Hs.
  assert (Hh : c_hist (init_default size) = []).
  { unfold init_default, init. cbn [c_hist]. apply N.eqb_neq in Hs. rewrite Hs. reflexivity. }
  assert (NC : forall T idx e, ~ committed (c_hist (init_default size)) T idx e).
  { intros T idx e [j H]. rewrite Hh in H. destruct H. }
  constructor; try (intros T idx e; intros; exfalso; eapply NC; eauto; fail).
  - unfold init_default, init. cbn [c_nodes]. rewrite map_length, seq_length. reflexivity.
  - intros j T idx e H. rewrite Hh in H. destruct H.
  - intros u t cd nd H. rewrite Hh in H. destruct H.
  - intros r nd H. cbn in H. destruct H.
  - intros h1 h2 j t idx e j' t' log E. rewrite Hh in E. destruct h1; discriminate.
Qed.

Record hyps (size : N) (evs : list event) : Prop := {
  h_ad : ack_diverged_b (c_hist (run rr_fixed size evs)) = false;
  h_ot : old_term_commit_b (c_hist (run rr_fixed size evs)) = false;
  h_nq : commit_noquorum_b rr_fixed size evs = false }.

Lemma hyps_prefix : forall size evs e, hyps size (evs ++ [e]) ->
  hyps size evs /\ nq_step (run rr_fixed size evs) (step rr_fixed (run rr_fixed size evs) e) = false.
Proof.
  intros size evs e [A O Q]. rewrite fold_run_app in A, O. unfold run_from in A, O. cbn [fold_left] in A, O.
  destruct (step_hist rr_fixed (run rr_fixed size evs) e) as [g Hg]. rewrite Hg in A, O.
  rewrite ack_diverged_app in A. rewrite old_term_app in O.
  apply orb_false_iff in A as [A _]. apply orb_false_iff in O as [O _].
  unfold commit_noquorum_b in Q. rewrite noquorum_snoc in Q. apply orb_false_iff in Q as [Q1 Q2].
  split; [constructor; auto|exact Q2].
Qed.

Theorem LC_run : forall size evs, size <> 1 -> hyps size evs -> LC size (run rr_fixed size evs).
Proof.
  intros size evs Hs. induction evs as [|e evs IH] using rev_ind; intros H.
  - apply init_LC; auto.
  - destruct (hyps_prefix _ _ _ H) as [Hp NQ]. specialize (IH Hp).
    pose proof (election_safety_fixed size (evs ++ [e])) as ES.
    pose proof (LI_run size evs Hs (h_ad _ _ Hp)) as Li.
    pose proof (run_J rr_fixed evs size _ (init_J size Hs) (or_introl eq_refl)) as Jr.
    pose proof (run_K rr_fixed evs _ eq_refl eq_refl (init_K size Hs)) as Kr.
    destruct H as [A O _].
    rewrite fold_run_app in *. unfold run_from in ES, A, O |- *. cbn [fold_left] in *.
    apply LC_step; auto.
Qed.

(* ================================================================== C29 *)

(* LEADER COMPLETENESS (Raft's statement): an entry committed by a leader of term t is in the log of every node that
   becomes leader LATER FOR A HIGHER TERM *)
Theorem leader_completeness_up_partial : forall size evs,
  size <> 1 -> hyps size evs -> leader_completeness_up (c_hist (run rr_fixed size evs)).
Proof. intros size evs Hs H. apply (lc_h _ _ (LC_run size evs Hs H)). Qed.

(* a node that becomes Leader, after a leader's commit in term t, for a term <= t (a stale candidate that collects
   delayed votes of an old election): not a defect — it cannot commit anything — but the literal statement
   `leader_completeness` quantifies over it *)
Fixpoint late_leader_b (h : list ghost) : bool :=
  match h with
  | [] => false
  | GCommit _ true t _ _ :: rest =>
      existsb (fun g => match g with GLeader _ t' _ => t' <=? t | _ => false end) rest || late_leader_b rest
  | _ :: rest => late_leader_b rest
  end.

Lemma late_leader_found : forall h1 i t idx e h2 j t' log,
  In (GLeader j t' log) h2 -> t' <= t -> late_leader_b (h1 ++ GCommit i true t idx e :: h2) = true.
Proof.
  induction h1 as [|x h1 IH]; intros i t idx e h2 j t' log Hin Hle.
  - cbn [app late_leader_b]. apply orb_true_iff. left. apply existsb_exists. eexists; split; [exact Hin|].
    apply N.leb_le. exact Hle.
  - cbn [app]. specialize (IH i t idx e h2 j t' log Hin Hle).
    destruct x as [| | | ? [|] ? ? ? | | |]; cbn [late_leader_b]; auto. rewrite IH. apply orb_true_r.
Qed.

Lemma completeness_of_up : forall h, leader_completeness_up h -> late_leader_b h = false -> leader_completeness h.
Proof.
  intros h U L h1 h2 i t idx e j t' log E Hin. destruct (N.lt_ge_cases t t') as [H|H].
  - eapply U; eauto.
  - exfalso. rewrite E in L. rewrite (late_leader_found h1 i t idx e h2 j t' log Hin H) in L. discriminate.
Qed.

(* C29 in its literal form, with the benign late-leader case excluded by hypothesis *)
Theorem leader_completeness_partial : forall size evs,
  size <> 1 -> hyps size evs -> late_leader_b (c_hist (run rr_fixed size evs)) = false ->
  leader_completeness (c_hist (run rr_fixed size evs)).
Proof.
  intros size evs Hs H L. apply completeness_of_up; auto. apply leader_completeness_up_partial; auto.
Qed.

(* the late-leader case is real (3 nodes, 26 events): node 1 collects the delayed vote of its election of term 1
   after node 0, leader of term 2, has committed; none of the six classes occurs.  So the literal statement of C29
   fails in a history that is fine for Raft: the statement has to speak about leaders of HIGHER terms. *)
Definition wlate : list event := w29_late_leader.   (* corpus/C29/00_late_leader_older_term.txt *)

(* the boolean the oracles use (RaftLog.leader_completeness_up_b) is sound for the restricted statement *)
Lemma leader_completeness_up_b_sound : forall h, leader_completeness_up h -> leader_completeness_up_b h = true.
Proof.
  induction h as [|g h IH]; intros H; cbn [leader_completeness_up_b]; auto.
  assert (Hrest : leader_completeness_up h).
  { intros h1 h2 i t idx e j t' log -> Hin. eapply (H (g :: h1)); [reflexivity | exact Hin]. }
  specialize (IH Hrest).
  destruct g as [| | | i [|] t idx e | | |]; auto.
  rewrite IH, andb_true_r. apply forallb_forall; intros g Hg.
  destruct g as [| | j t' log | | | |]; auto.
  destruct (N.ltb_spec t t'); cbn [negb orb]; auto.
  apply oentry_eqb_eq. eapply (H []); [reflexivity | exact Hg | exact H0].
Qed.

Lemma wlate_facts :
  let h := c_hist (run rr_fixed 3 wlate) in
  leader_completeness_b h = false /\ election_safety_b h = true /\
  classes h = (false, false, false, false, false) /\ commit_noquorum_b rr_fixed 3 wlate = false /\
  late_leader_b h = true /\ leaders h = [(0, 2); (1, 1)] /\ leader_completeness_up_b h = true.
Proof. vm_compute. repeat split; reflexivity. Qed.

Lemma late_leader_refutes_literal_C29 :
  exists size evs, size <> 1 /\ hyps size evs /\ ~ leader_completeness (c_hist (run rr_fixed size evs)).
Proof.
  exists 3, wlate. destruct wlate_facts as (F & _ & C & Q & _). cbv zeta in *. unfold classes in C.
  split; [discriminate|]. split.
  - constructor; auto; congruence.
  - intros H. apply leader_completeness_b_sound in H. congruence.
Qed.

(* non-vacuity: the fault-free history of RaftLogMatch satisfies all hypotheses *)
Lemma wlog_ok_hyps : hyps 3 wlog_ok /\ late_leader_b (c_hist (run rr_fixed 3 wlog_ok)) = false /\
  leader_completeness_b (c_hist (run rr_fixed 3 wlog_ok)) = true /\
  existsb (fun g => match g with GCommit _ true _ _ _ => true | _ => false end) (c_hist (run rr_fixed 3 wlog_ok)) = true.
Proof. split; [constructor|]; vm_compute; auto. Qed.
