(* CollVecOps.v — proofs (collections, part 4): how the invariant `vinv` of a vector
   record moves under the steps the operations of vec.rs are made of — rewrite the header or
   the spare part, append an element (store + write behind the last slot), drop an element
   (read its slot + remove), replace slot contents — and the two loops of DbVecData::resize. *)
From Agdb Require Import Bytes BytesProofs Records RecordsProofs Storage StorageSpec StorageLayout
  Collections CollWp CollBytes CollVecBase.
From Coq Require Import ZifyBool ZifyNat ZifyN Permutation.
Ltac Zify.zify_post_hook ::= Z.div_mod_to_equations.
Open Scope N_scope.
Arguments N.add : simpl never.
Arguments N.mul : simpl never.
Arguments N.sub : simpl never.
Arguments N.of_nat : simpl never.
Arguments N.to_nat : simpl never.
Arguments N.eqb : simpl never.
Arguments N.ltb : simpl never.
Arguments N.leb : simpl never.
Arguments N.div : simpl never.

Lemma hupd_same g i v : hupd g i v i = Some v.
Proof. unfold hupd. rewrite N.eqb_refl. reflexivity. Qed.
Lemma hupd_other g i v j : i <> j -> hupd g i v j = g j.
Proof. intros H. unfold hupd. destruct (N.eqb_spec i j); [contradiction|reflexivity]. Qed.

Lemma Forall2_app_one {A B} (R : A -> B -> Prop) a b x y : Forall2 R a b -> R x y -> Forall2 R (a ++ [x]) (b ++ [y]).
Proof. intros H1 H2. apply Forall2_app; [exact H1|constructor; [exact H2|constructor]]. Qed.

Lemma Forall2_upd {A B} (R : A -> B -> Prop) a b i x y :
  Forall2 R a b -> R x y -> Forall2 R (cl_upd a i x) (cl_upd b i y).
Proof.
  intros H Hxy. revert i. induction H as [|p q a' b' Hpq H IH]; intros [|i]; cbn [cl_upd]; constructor; auto.
Qed.

Lemma Forall2_remove {A B} (R : A -> B -> Prop) a b i : Forall2 R a b -> Forall2 R (cl_remove a i) (cl_remove b i).
Proof.
  intros H. unfold cl_remove. apply Forall2_app.
  - revert i. induction H; intros [|i]; cbn [firstn]; constructor; auto.
  - generalize (S i). intros n. revert n. induction H; intros [|n]; cbn [skipn]; try constructor; auto.
Qed.

Lemma cl_remove_length {A} (l : list A) i : (i < length l)%nat -> length (cl_remove l i) = (length l - 1)%nat.
Proof. intros H. unfold cl_remove. rewrite app_length, firstn_length, skipn_length. lia. Qed.

Lemma cl_resize_length {A} (l : list A) n x : length (cl_resize l n x) = n.
Proof. unfold cl_resize. rewrite app_length, firstn_length, repeat_length. lia. Qed.

(* swapping two positions permutes *)
Lemma swap_perm {A} (l : list A) i j a b :
  nth_error l i = Some a -> nth_error l j = Some b -> i <> j ->
  Permutation (cl_upd (cl_upd l i b) j a) l.
Proof.
  revert i j. induction l as [|y t IH]; intros [|i] [|j]; cbn [nth_error cl_upd]; try discriminate; try congruence.
  - (* i = 0 < j *) intros [= ->] Hj _.
    assert (Hlt : (j < length t)%nat) by (eapply nth_error_Some_lt; eauto).
    rewrite cl_upd_split by exact Hlt. rewrite (split_nth t j b Hlt) at 3.
    rewrite (nth_error_nth' _ _ b _ Hj).
    set (p := firstn j t). set (q := skipn (S j) t).
    apply perm_trans with (b :: a :: p ++ q); [apply perm_skip; symmetry; apply Permutation_middle|].
    apply perm_trans with (a :: b :: p ++ q); [apply perm_swap|]. apply perm_skip. apply Permutation_middle.
  - (* j = 0 < i *) intros Hi [= ->] _.
    assert (Hlt : (i < length t)%nat) by (eapply nth_error_Some_lt; eauto).
    rewrite cl_upd_split by exact Hlt. rewrite (split_nth t i a Hlt) at 3.
    rewrite (nth_error_nth' _ _ a _ Hi).
    set (p := firstn i t). set (q := skipn (S i) t).
    apply perm_trans with (a :: b :: p ++ q); [apply perm_skip; symmetry; apply Permutation_middle|].
    apply perm_trans with (b :: a :: p ++ q); [apply perm_swap|]. apply perm_skip. apply Permutation_middle.
  - intros Hi Hj Hn. constructor. apply IH; auto.
Qed.

Section VecOps.
  Variable T : Type.
  Variable E : cv_elem T.
  Variable L : elem_law E.
  Variable fl : bool.

  Let sz := ce_size E.
  Let k := N.to_nat sz.

  Notation owned := (owned T E L).
  Notation vinv := (vinv T E L).
  Notation rep := (el_rep L).
  Notation own := (el_own L).

  (* ---- NoDup of footprints ---- *)
  Lemma nodup_head_in idx (F : list N) : NoDup (idx :: F) -> ~ In idx F.
  Proof. intros H. apply NoDup_cons_iff in H. tauto. Qed.

  Lemma nodup_append idx (bss : list bytes) (b : bytes) :
    NoDup (idx :: owned bss) -> NoDup (own b) -> (forall j, In j (own b) -> j <> idx /\ ~ In j (owned bss)) ->
    NoDup (idx :: owned (bss ++ [b])).
  Proof.
    intros H Hb Hd. apply NoDup_cons_iff in H. destruct H as [Hi Ho]. rewrite owned_app, owned_cons. cbn [owned flat_map]. rewrite app_nil_r.
    constructor.
    - intros I. apply in_app_or in I. destruct I as [I|I]; [contradiction|]. destruct (Hd _ I) as [X _]. congruence.
    - apply NoDup_app_iff. split; [exact Ho|]. split; [exact Hb|]. intros x Hx Hxb. destruct (Hd _ Hxb) as [_ X]. contradiction.
  Qed.

  Lemma nodup_upd idx (bss : list bytes) i (b : bytes) :
    (i < length bss)%nat ->
    NoDup (idx :: owned bss) -> NoDup (own b) ->
    (forall j, In j (own b) -> j <> idx /\ ~ In j (owned (firstn i bss)) /\ ~ In j (owned (skipn (S i) bss))) ->
    NoDup (idx :: owned (cl_upd bss i b)).
  Proof.
    intros Hi H Hb Hd. rewrite owned_upd by exact Hi. rewrite (owned_split T E L bss i Hi) in H.
    apply NoDup_cons_iff in H. destruct H as [Hx Ho].
    apply NoDup_app_iff in Ho. destruct Ho as (N1 & N2 & N3). apply NoDup_app_iff in N2. destruct N2 as (N4 & N5 & N6).
    constructor.
    - intros I. apply Hx. apply in_app_or in I. destruct I as [I|I]; [apply in_or_app; auto|].
      apply in_app_or in I. destruct I as [I|I]; [destruct (Hd _ I) as [X _]; congruence|].
      apply in_or_app. right. apply in_or_app. auto.
    - apply NoDup_app_iff. split; [exact N1|]. split.
      + apply NoDup_app_iff. split; [exact Hb|]. split; [exact N5|]. intros x I1 I2. destruct (Hd _ I1) as (_ & _ & X). contradiction.
      + intros x I1 I2. apply in_app_or in I2. destruct I2 as [I2|I2].
        * destruct (Hd _ I2) as (_ & X & _). contradiction.
        * apply (N3 x I1). apply in_or_app. right. exact I2.
  Qed.

  Lemma owned_remove_in (bss : list bytes) i j : In j (owned (cl_remove bss i)) -> In j (owned bss).
  Proof.
    unfold cl_remove. rewrite owned_app. intros I. apply in_app_or in I.
    destruct I as [I|I]; [eapply owned_firstn_in; eauto|eapply owned_skipn_in; eauto].
  Qed.

  Lemma nodup_remove idx (bss : list bytes) i :
    (i < length bss)%nat -> NoDup (idx :: owned bss) ->
    NoDup (idx :: owned (cl_remove bss i)) /\
    (forall j, In j (own (nth i bss [])) -> j <> idx /\ ~ In j (owned (cl_remove bss i))).
  Proof.
    intros Hi H. rewrite (owned_split T E L bss i Hi) in H. unfold cl_remove. rewrite owned_app.
    apply NoDup_cons_iff in H. destruct H as [Hx Ho].
    apply NoDup_app_iff in Ho. destruct Ho as (N1 & N2 & N3). apply NoDup_app_iff in N2. destruct N2 as (N4 & N5 & N6).
    split.
    - constructor.
      + intros I. apply Hx. apply in_app_or in I. apply in_or_app. destruct I as [I|I]; [auto|]. right. apply in_or_app. auto.
      + apply NoDup_app_iff. split; [exact N1|]. split; [exact N5|]. intros x I1 I2. apply (N3 x I1). apply in_or_app. auto.
    - intros j Hj. split.
      + intros ->. apply Hx. apply in_or_app. right. apply in_or_app. auto.
      + intros I. apply in_app_or in I. destruct I as [I|I].
        * apply (N3 j I). apply in_or_app. auto.
        * apply (N6 j Hj I).
  Qed.

  Lemma nodup_prefix idx (a b : list bytes) : NoDup (idx :: owned (a ++ b)) -> NoDup (idx :: owned a).
  Proof.
    intros H. rewrite owned_app in H. apply NoDup_cons_iff in H. destruct H as [Hx Ho]. apply NoDup_app_iff in Ho. destruct Ho as (N1 & _ & _).
    constructor; [|exact N1]. intros I. apply Hx. apply in_or_app. auto.
  Qed.

  (* ---- vinv under a rewrite of the record that keeps / updates the slots ---- *)
  Lemma vinv_rec_get g idx n bss l : vinv g idx n bss l -> exists spare, g idx = Some (le64 n ++ concat bss ++ spare).
  Proof. intros H. exact (vi_rec _ _ _ _ _ _ _ _ H). Qed.

  Lemma vinv_idx_notin g idx n bss l : vinv g idx n bss l -> ~ In idx (owned bss).
  Proof. intros H. apply nodup_head_in. exact (vi_nodup _ _ _ _ _ _ _ _ H). Qed.

  Lemma vinv_chunks g idx n bss l : vinv g idx n bss l -> chunks k bss.
  Proof. intros H. eapply elems_chunks. exact (vi_elems _ _ _ _ _ _ _ _ H). Qed.

  Lemma vinv_lengths g idx n bss l : vinv g idx n bss l -> length bss = length l.
  Proof. intros H. eapply elems_length. exact (vi_elems _ _ _ _ _ _ _ _ H). Qed.

  (* only the record of the vector changes; same slots *)
  Lemma vinv_rewrite g g' idx n n' bss l (spare' : bytes) :
    vinv g idx n bss l -> heq g' (hupd g idx (le64 n' ++ concat bss ++ spare')) -> vinv g' idx n' bss l.
  Proof.
    intros H Hm. constructor.
    - exists spare'. rewrite Hm. apply hupd_same.
    - eapply elems_transport; [exact (vi_elems _ _ _ _ _ _ _ _ H)|]. intros j Hj. rewrite Hm. apply hupd_other.
      intros ->. exact (vinv_idx_notin _ _ _ _ _ H Hj).
    - exact (vi_nodup _ _ _ _ _ _ _ _ H).
  Qed.

  Lemma vinv_heq g g' idx n bss l : vinv g idx n bss l -> heq g' g -> vinv g' idx n bss l.
  Proof.
    intros H Hm. constructor.
    - destruct (vinv_rec_get _ _ _ _ _ H) as (s & Hs). exists s. rewrite Hm. exact Hs.
    - eapply elems_transport; [exact (vi_elems _ _ _ _ _ _ _ _ H)|]. intros j _. apply Hm.
    - exact (vi_nodup _ _ _ _ _ _ _ _ H).
  Qed.

  (* ---- append one element: value.store(storage); insert_bytes_at(index, offset(len), bytes) ---- *)
  Lemma append_step {A} idx n0 (bss : list bytes) l x sp (rest : cprog A) (Q : cres A -> spec -> Prop) :
    vinv (hp sp) idx n0 bss l -> el_valid L x ->
    (forall (b : bytes) sp', vinv (hp sp') idx n0 (bss ++ [b]) (l ++ [x]) -> sdepth sp' = sdepth sp ->
        frame (hp sp) (hp sp') (idx :: owned bss) (idx :: owned (bss ++ [b])) -> cwp fl rest sp' Q) ->
    cwp fl (b <~ ce_store E x ;; cp_insert_at idx (cv_offset T E (lenN bss)) b ;;~ rest) sp Q.
  Proof.
    intros HI Hv HQ. destruct (vinv_rec_get _ _ _ _ _ HI) as (spare & Hrec).
    apply cwp_bind. apply (el_store E L); [exact Hv|]. intros b sp1 Hb Hd1 Hfresh Hsame. cbn [kont]. apply cwp_bind.
    assert (Hib : ~ In idx (own b)) by (intros I; rewrite (Hfresh _ I) in Hrec; discriminate).
    assert (Hrec1 : hp sp1 idx = Some (le64 n0 ++ concat bss ++ spare)) by (rewrite (Hsame _ Hib); exact Hrec).
    assert (Hlb : length b = k).
    { pose proof (el_len E L _ _ _ Hb) as X. unfold lenN in X. unfold k, sz. lia. }
    eapply (wr_append T E fl); [exact Hrec1|eapply vinv_chunks; exact HI|reflexivity|exact Hlb|].
    intros sp2 Hm Hd2. cbn [kont].
    assert (Hold : forall j, In j (owned bss) -> hp sp2 j = hp sp j).
    { intros j Hj. rewrite Hm, hupd_other by (intros ->; exact (vinv_idx_notin _ _ _ _ _ HI Hj)).
      apply Hsame. intros I. apply (elems_live T E L _ _ _ j (vi_elems _ _ _ _ _ _ _ _ HI) Hj). apply Hfresh. exact I. }
    assert (Hdis : forall j, In j (own b) -> j <> idx /\ ~ In j (owned bss)).
    { intros j Hj. split; [intros ->; contradiction|]. intros I.
      apply (elems_live T E L _ _ _ j (vi_elems _ _ _ _ _ _ _ _ HI) I). apply Hfresh. exact Hj. }
    apply (HQ b sp2); [|congruence|].
    - constructor.
      + eexists. rewrite Hm. apply hupd_same.
      + apply Forall2_app_one.
        * eapply elems_transport; [exact (vi_elems _ _ _ _ _ _ _ _ HI)|exact Hold].
        * eapply (el_local E L); [exact Hb|]. intros j Hj. rewrite Hm. apply hupd_other. intros ->. contradiction.
      + apply nodup_append; [exact (vi_nodup _ _ _ _ _ _ _ _ HI)|eapply (el_nodup E L); exact Hb|exact Hdis].
    - split; [|split]; intros j.
      + intros H1 H2. rewrite Hm. rewrite hupd_other by (intros ->; apply H1; left; reflexivity).
        apply Hsame. intros I. apply H2. right. rewrite owned_app, owned_cons. apply in_or_app. right. apply in_or_app. auto.
      + intros H2 H1. destruct H2 as [->|H2]; [exfalso; apply H1; left; reflexivity|].
        rewrite owned_app in H2. apply in_app_or in H2. destruct H2 as [H2|H2]; [exfalso; apply H1; right; exact H2|].
        cbn [owned flat_map] in H2. rewrite app_nil_r in H2. apply Hfresh. exact H2.
      + intros H1 H2. exfalso. apply H2. destruct H1 as [->|H1]; [left; reflexivity|right]. rewrite owned_app. apply in_or_app. auto.
  Qed.

  (* ---- the first loop of DbVecData::resize ---- *)
  Lemma fill_spec x : el_valid L x -> forall n idx n0 (bss : list bytes) l sp (Q : cres unit -> spec -> Prop),
    vinv (hp sp) idx n0 bss l ->
    (forall (bss2 : list bytes) sp', length bss2 = n -> vinv (hp sp') idx n0 (bss ++ bss2) (l ++ repeat x n) ->
        sdepth sp' = sdepth sp ->
        frame (hp sp) (hp sp') (idx :: owned bss) (idx :: owned (bss ++ bss2)) -> Q (CrOk tt) sp') ->
    cwp fl (cv_fill T E idx x n (lenN bss)) sp Q.
  Proof.
    intros Hv. induction n as [|n IH]; intros idx n0 bss l sp Q HI HQ; cbn [cv_fill].
    - cbn [cwp]. apply (HQ [] sp); [reflexivity| |reflexivity|].
      + cbn [repeat]. rewrite !app_nil_r. exact HI.
      + rewrite app_nil_r. apply frame_refl. intros j; reflexivity.
    - eapply append_step; [exact HI|exact Hv|].
      intros b sp1 HI1 Hd1 Hf1.
      replace (lenN bss + 1) with (lenN (bss ++ [b])) by (rewrite lenN_app; unfold lenN; cbn [length]; lia).
      eapply IH; [exact HI1|]. intros bss2 sp2 Hl2 HI2 Hd2 Hf2.
      apply (HQ (b :: bss2) sp2); [cbn [length]; lia| |congruence|].
      + rewrite <- app_assoc in HI2. cbn [app] in HI2. cbn [repeat].
        replace (l ++ x :: repeat x n) with ((l ++ [x]) ++ repeat x n) by (rewrite <- app_assoc; reflexivity). exact HI2.
      + rewrite <- app_assoc in Hf2. cbn [app] in Hf2. eapply frame_trans; eassumption.
  Qed.
  (* ---- the second loop of DbVecData::resize; the loop of remove_from_storage ----
     record slots = A (kept) ++ D (already dropped) ++ B (to drop) *)
  Lemma drop_spec : forall (B : list bytes) lB idx n0 (A D : list bytes) lA (spare : bytes) sp (Q : cres unit -> spec -> Prop),
    hp sp idx = Some (le64 n0 ++ concat (A ++ D ++ B) ++ spare) ->
    chunks k D ->
    Forall2 (rep (hp sp)) A lA -> Forall2 (rep (hp sp)) B lB ->
    NoDup (idx :: owned A ++ owned B) ->
    (forall sp', hp sp' idx = Some (le64 n0 ++ concat (A ++ D ++ B) ++ spare) -> Forall2 (rep (hp sp')) A lA ->
        sdepth sp' = sdepth sp ->
        frame (hp sp) (hp sp') (idx :: owned A ++ owned B) (idx :: owned A) -> Q (CrOk tt) sp') ->
    cwp fl (cv_drop T E idx (length B) (lenN (A ++ D))) sp Q.
  Proof.
    induction B as [|b B' IH]; intros lB idx n0 A D lA spare sp Q Hrec HcD HA HB Hnd HQ; cbn [cv_drop length].
    - cbn [cwp]. apply HQ; [exact Hrec|exact HA|reflexivity|].
      cbn [owned flat_map]. rewrite app_nil_r. apply frame_refl. intros j; reflexivity.
    - inversion HB as [|? xb ? lB' Hb HB' E1 E2]; subst.
      assert (HcA : chunks k A) by (eapply elems_chunks; exact HA).
      assert (HcB : chunks k (b :: B')) by (eapply elems_chunks; exact HB).
      assert (Hc : chunks k (A ++ D ++ b :: B')) by (apply chunks_app; split; [exact HcA|apply chunks_app; split; assumption]).
      apply cwp_bind. eapply (rd_slot T E fl); [exact Hrec|exact Hc| |].
      { rewrite to_nat_lenN, !app_length. cbn [length]. lia. }
      rewrite to_nat_lenN. rewrite (app_assoc A D (b :: B')), nth_middle. cbn [kont].
      apply cwp_bind. eapply (el_remove E L); [exact Hb|]. intros sp1 Hd1 Hfree Hsame. cbn [kont].
      (* footprint facts *)
      rewrite owned_cons in Hnd. apply NoDup_cons_iff in Hnd. destruct Hnd as [Hidx Hnd].
      apply NoDup_app_iff in Hnd. destruct Hnd as (NA & NbB & DA). apply NoDup_app_iff in NbB. destruct NbB as (Nb & NB' & DbB).
      assert (Hib : ~ In idx (own b)) by (intros I; apply Hidx; apply in_or_app; right; apply in_or_app; auto).
      replace (lenN (A ++ D) + 1) with (lenN (A ++ D ++ [b])) by (rewrite !lenN_app; unfold lenN; cbn [length]; lia).
      eapply (IH lB' idx n0 A (D ++ [b]) lA spare).
      + rewrite <- app_assoc. cbn [app]. rewrite (Hsame _ Hib). exact Hrec.
      + apply chunks_app. split; [exact HcD|]. constructor; [|constructor]. inversion HcB; assumption.
      + eapply elems_transport; [exact HA|]. intros j Hj. apply Hsame. intros I. apply (DA j Hj). apply in_or_app. auto.
      + eapply elems_transport; [exact HB'|]. intros j Hj. apply Hsame. intros I. apply (DbB j I Hj).
      + constructor.
        * intros I. apply Hidx. apply in_app_or in I. apply in_or_app. destruct I as [I|I]; [auto|]. right. apply in_or_app. auto.
        * apply NoDup_app_iff. split; [exact NA|]. split; [exact NB'|]. intros j I1 I2. apply (DA j I1). apply in_or_app. auto.
      + intros sp2 Hrec2 HA2 Hd2 Hf2. apply HQ; [|exact HA2|congruence|].
        * rewrite <- app_assoc in Hrec2. cbn [app] in Hrec2. exact Hrec2.
        * eapply frame_trans; [|exact Hf2]. split; [|split]; intros j.
          -- intros H1 H2. apply Hsame. intros I. apply H1. right. apply in_or_app. right. rewrite owned_cons. apply in_or_app. auto.
          -- intros H2 H1. exfalso. apply H1. destruct H2 as [->|H2]; [left; reflexivity|right].
             apply in_app_or in H2. apply in_or_app. destruct H2 as [H2|H2]; [auto|]. right. rewrite owned_cons. apply in_or_app. auto.
          -- intros H1 H2. apply Hfree. destruct H1 as [->|H1]; [exfalso; apply H2; left; reflexivity|].
             apply in_app_or in H1. destruct H1 as [H1|H1]; [exfalso; apply H2; right; apply in_or_app; auto|].
             rewrite owned_cons in H1. apply in_app_or in H1. destruct H1 as [H1|H1]; [exact H1|].
             exfalso. apply H2. right. apply in_or_app. auto.
  Qed.
End VecOps.
