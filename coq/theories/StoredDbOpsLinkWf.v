(* StoredDbOpsLinkWf.v — proofs (stored database, part 26): the side conditions so_remove_edge_ok (the slots the unlink walks
   visit are inside the arrays, the walks end, the decremented degree counters stay i64 values) and so_edge_ok (the
   incremented degree counters stay i64 values) of the storage-program theorems are consequences of C08's well-formedness
   `wf g` (some abstract multigraph with a free list simulates the arrays) and the capacity bound 2^60. *)
From Agdb Require Import Bytes Graph GraphArr GraphSim GraphSim2 GraphSim3 GraphOps GraphOps2 GraphProofs GraphRemove GraphSpec GraphWf.
From Agdb Require Import DbModel Collections CollElems CollGraph StoredDbRep StoredDbOps StoredDbOpsGraph StoredDbOpsGraph2
  StoredDbOpsGraph3 StoredDbOpsGraph4 StoredDbOpsWf StoredDbOpsKv StoredDbOpsKv2.
From Coq Require Import ZifyBool ZifyNat ZifyN.
Ltac Zify.zify_post_hook ::= Z.div_mod_to_equations.
Open Scope Z_scope.

(* ---------------- chains ---------------- *)
(* every slot the walk to the predecessor visits is a member of the chain *)
Lemma chain_prev_ok (next : Z -> Z) (s : Z) (n : nat) :
  (forall z, next (- z) = next z) ->
  forall (l : list Z) (fuel : nat) (h h' : Z),
    (forall y, In y l -> 0 < y < Z.of_nat n) -> chain next h l -> Z.abs h' = h -> In s l -> h <> s ->
    prev_ok next n fuel h' s.
Proof.
  intros Heven.
  assert (Habs : forall z, next z = next (Z.abs z)).
  { intros z. destruct (Z.abs_spec z) as [[_ ->]|[_ ->]]; [reflexivity|]. symmetry; apply Heven. }
  induction l as [|x r IH]; intros fuel h h' Hpos Hc Hh' Hin Hne; [destruct Hin|].
  cbn [chain] in Hc. destruct Hc as [-> Hc].
  destruct Hin as [->|Hin]; [congruence|].
  destruct fuel as [|fuel]; cbn [prev_ok]; [exact I|].
  pose proof (Hpos x (or_introl eq_refl)) as Hx.
  split; [unfold zabs_nat; lia|].
  intros Hnq. rewrite (Habs h'), Hh' in Hnq |- *.
  destruct r as [|y r']; [destruct Hin|]. cbn [chain] in Hc. destruct Hc as [Hy Hc].
  pose proof (Hpos y (or_intror (or_introl eq_refl))) as Hyp.
  apply (IH fuel (next x) (next x)).
  - intros z Hz. apply Hpos. right. exact Hz.
  - cbn [chain]. split; [exact Hy|exact Hc].
  - rewrite Hy. lia.
  - exact Hin.
  - intros E. rewrite E, Z.eqb_refl in Hnq. discriminate.
Qed.

Lemma chain_next_in (next : Z -> Z) : forall (l : list Z) (h x : Z),
  chain next h l -> In x l -> next x = 0 \/ In (next x) l.
Proof.
  induction l as [|a r IH]; intros h x Hc Hin; [destruct Hin|].
  cbn [chain] in Hc. destruct Hc as [-> Hc]. destruct Hin as [->|Hin].
  - destruct r as [|y r']; cbn [chain] in Hc; [left; exact Hc|]. destruct Hc as [Hy _]. right. right. left. symmetry. exact Hy.
  - destruct (IH _ _ Hc Hin) as [E|E]; [left; exact E|right; right; exact E].
Qed.

(* ---------------- what an unlink needs of the two arrays it works on ---------------- *)
Definition uarr_ok (A M : list Z) (n : nat) (index : Z) : Prop :=
  let node := - get A index in
  let first := - get A node in
  (zabs_nat index < n)%nat /\ (zabs_nat node < n)%nat /\
  ((first =? index) = false ->
     prev_ok (get M) n n first (- index) /\ find_prev (get M) n first (- index) <> None) /\
  0 <= get M node <= Z.of_nat n /\ 0 <= get M index <= Z.of_nat n.

Section HalfFacts.
  Variables (n : Z) (key : aedge -> Z).

  Lemma half_uarr (A M : list Z) nodes ER E x :
    base n nodes ER -> half (get A) (get M) nodes allP key ER E -> In x E -> In (key x) nodes ->
    uarr_ok A M (Z.to_nat n) (- eslot x).
  Proof.
    intros B H Hx Hk. pose proof H as [H1 H2 H3 H4 H5].
    assert (HxR : In x ER) by (apply H2; exact Hx).
    pose proof (b_ER_range _ _ _ B x HxR) as Hs. pose proof (b_nodes_range _ _ _ B _ Hk) as Hkr.
    destruct (H3 x HxR) as [Ha Hm0]. destruct (H5 _ Hk I) as [Hck Hdk].
    assert (Hin : In (eslot x) (adj key E (key x))) by (apply in_adj; exists x; auto).
    assert (Hndk : NoDup (adj key E (key x))) by (apply NoDup_adj; assumption).
    assert (Hpos : forall y, In y (adj key E (key x)) -> 0 < y < Z.of_nat (Z.to_nat n)).
    { intros y Hy. apply in_adj in Hy. destruct Hy as [z [Hz [<- _]]]. pose proof (b_ER_range _ _ _ B z (H2 z Hz)). lia. }
    assert (Hlen : (length (adj key E (key x)) <= Z.to_nat n)%nat).
    { destruct (NoDup_range_length (adj key E (key x)) (Z.to_nat n) Hndk Hpos) as [HL|[HL _]]; [lia|]. rewrite HL. cbn [length]. lia. }
    assert (Heven : forall z, get M (- z) = get M z) by (intros z; apply get_neg).
    unfold uarr_ok. cbv zeta. rewrite get_neg, Ha, !Z.opp_involutive.
    split; [unfold zabs_nat; lia|]. split; [unfold zabs_nat; lia|]. split; [|split].
    - intros Hne. assert (Hnh : get A (key x) <> eslot x) by (intros E0; rewrite E0, Z.eqb_refl in Hne; discriminate).
      split.
      + eapply (chain_prev_ok (get M) (eslot x) (Z.to_nat n) Heven (adj key E (key x)) (Z.to_nat n) (get A (key x))); auto.
        destruct (H4 _ Hk). lia.
      + destruct (half_unlink_inner n key (get A) (get M) nodes allP ER E x (Z.to_nat n) Heven B Hk I) as [p' [Hf _]]; auto; [lia|].
        rewrite Hf. discriminate.
    - rewrite Hdk. lia.
    - rewrite (get_neg M). destruct (chain_next_in (get M) _ _ _ Hck Hin) as [E0|E0]; [rewrite E0; lia|]. specialize (Hpos _ E0). lia.
  Qed.
End HalfFacts.

Lemma wf_uarr g e :
  wf g -> e < 0 -> is_edge g e = true ->
  uarr_ok (g_from g) (g_fmeta g) (length (g_from g)) e /\ uarr_ok (g_to g) (g_tmeta g) (length (g_from g)) e.
Proof.
  intros [a [fl HS]] He Ie. pose proof HS as [WL R].
  apply (is_edge_iff _ _ _ _ _ _ _ _ _ HS) in Ie. rewrite Z.abs_neq in Ie by lia.
  apply in_map_iff in Ie. destruct Ie as [x [Hx Hin]].
  destruct (b_ends _ _ _ (r_base _ _ _ _ _ _ _ _ _ _ _ _ _ R) x Hin) as [Hs Ht].
  replace e with (- eslot x) by lia. replace (length (g_from g)) with (Z.to_nat (capacity g)) by (unfold capacity; lia).
  split.
  - eapply (half_uarr (capacity g) esrc); [exact (r_base _ _ _ _ _ _ _ _ _ _ _ _ _ R)|exact (r_out _ _ _ _ _ _ _ _ _ _ _ _ _ R)|exact Hin|exact Hs].
  - eapply (half_uarr (capacity g) etgt); [exact (r_base _ _ _ _ _ _ _ _ _ _ _ _ _ R)|exact (r_in _ _ _ _ _ _ _ _ _ _ _ _ _ R)|exact Hin|exact Ht].
Qed.

(* ---------------- the counters after the unlink ---------------- *)
Lemma remove_from_edge_counter G e G' n :
  length (g_fmeta G) = n -> uarr_ok (g_from G) (g_fmeta G) n e -> remove_from_edge G e = Some G' ->
  -1 <= fmeta G' (- from G e) <= Z.of_nat n.
Proof.
  intros HL (H1 & H2 & _ & H4 & H5) E. unfold remove_from_edge in E. fold (from G e) in *.
  assert (Hr : Z.abs (- from G e) < Z.of_nat (length (g_fmeta G))) by (unfold zabs_nat, from in *; lia).
  destruct (- from G (- from G e) =? e).
  - injection E as <-. unfold fmeta, set_fmeta, set_from. cbn [g_fmeta]. rewrite get_set_same by (try reflexivity; exact Hr). lia.
  - destruct (find_prev _ _ _ _) as [p|]; [|discriminate]. injection E as <-.
    unfold fmeta, set_fmeta. cbn [g_fmeta]. rewrite get_set_same by (try reflexivity; rewrite length_set; exact Hr).
    rewrite get_set. destruct (_ && _); unfold from in *; lia.
Qed.

Lemma remove_to_edge_counter G e G' n :
  length (g_tmeta G) = n -> uarr_ok (g_to G) (g_tmeta G) n e -> remove_to_edge G e = Some G' ->
  -1 <= tmeta G' (- to G e) <= Z.of_nat n.
Proof.
  intros HL (H1 & H2 & _ & H4 & H5) E. unfold remove_to_edge in E. fold (to G e) in *.
  assert (Hr : Z.abs (- to G e) < Z.of_nat (length (g_tmeta G))) by (unfold zabs_nat, to in *; lia).
  destruct (- to G (- to G e) =? e).
  - injection E as <-. unfold tmeta, set_tmeta, set_to. cbn [g_tmeta]. rewrite get_set_same by (try reflexivity; exact Hr). lia.
  - destruct (find_prev _ _ _ _) as [p|]; [|discriminate]. injection E as <-.
    unfold tmeta, set_tmeta. cbn [g_tmeta]. rewrite get_set_same by (try reflexivity; rewrite length_set; exact Hr).
    rewrite get_set. destruct (_ && _); unfold to in *; lia.
Qed.

Lemma uarr_unlink_from G e :
  length (g_fmeta G) = length (g_from G) -> Z.of_nat (length (g_from G)) < 1152921504606846976 ->
  uarr_ok (g_from G) (g_fmeta G) (length (g_from G)) e -> unlink_ok G (length (g_from G)) GfFrom GfFromMeta e.
Proof.
  intros HL Hcap U. pose proof U as (H1 & H2 & H3 & H4 & H5).
  unfold unlink_ok. cbv zeta. change (garr G GfFrom) with (g_from G). change (garr G GfFromMeta) with (g_fmeta G).
  split; [exact H1|]. split; [exact H2|]. split; [exact H3|].
  intros G' EG. rewrite <- remove_from_edge_unlink in EG.
  pose proof (remove_from_edge_counter G e G' _ HL U EG) as Hc.
  change (garr G' GfFromMeta) with (g_fmeta G'). unfold fmeta, from in Hc. unfold i64_range. lia.
Qed.

Lemma uarr_unlink_to G e :
  length (g_tmeta G) = length (g_from G) -> Z.of_nat (length (g_from G)) < 1152921504606846976 ->
  uarr_ok (g_to G) (g_tmeta G) (length (g_from G)) e -> unlink_ok G (length (g_from G)) GfTo GfToMeta e.
Proof.
  intros HL Hcap U. pose proof U as (H1 & H2 & H3 & H4 & H5).
  unfold unlink_ok. cbv zeta. change (garr G GfTo) with (g_to G). change (garr G GfToMeta) with (g_tmeta G).
  split; [exact H1|]. split; [exact H2|]. split; [exact H3|].
  intros G' EG. rewrite <- remove_to_edge_unlink in EG.
  pose proof (remove_to_edge_counter G e G' _ HL U EG) as Hc.
  change (garr G' GfToMeta) with (g_tmeta G'). unfold tmeta, to in Hc. unfold i64_range. lia.
Qed.

(* remove_from_edge touches the from / from_meta arrays only *)
Lemma remove_from_edge_to G e G1 :
  remove_from_edge G e = Some G1 ->
  g_to G1 = g_to G /\ g_tmeta G1 = g_tmeta G /\ length (g_from G1) = length (g_from G).
Proof.
  unfold remove_from_edge. destruct (_ =? _).
  - intros [= <-]. unfold set_fmeta, set_from. cbn [g_to g_tmeta g_from]. rewrite length_set. auto.
  - destruct (find_prev _ _ _ _); [|discriminate]. intros [= <-]. unfold set_fmeta. cbn [g_to g_tmeta g_from]. auto.
Qed.

(* ---------------- so_remove_edge_ok ---------------- *)
Theorem wf_so_remove_edge_ok g e :
  wf g -> capacity g < 1152921504606846976 -> e < 0 -> so_remove_edge_ok g e.
Proof.
  intros W Hcap He Ie. destruct (wf_uarr g e W He Ie) as [UF UT].
  destruct W as [a [fl [[L1 [L2 L3]] _]]]. unfold capacity in Hcap.
  split; [apply uarr_unlink_from; assumption|].
  intros G1 E1. destruct (remove_from_edge_to g e G1 E1) as (Et & Etm & El).
  rewrite <- El. apply uarr_unlink_to; rewrite ?Et, ?Etm, ?El; assumption.
Qed.

(* ---------------- so_edge_ok ---------------- *)
Lemma get_free_index_lengths g :
  (length (g_fmeta g) <= length (g_fmeta (snd (get_free_index g))))%nat /\
  (length (g_tmeta g) <= length (g_tmeta (snd (get_free_index g))))%nat.
Proof.
  unfold get_free_index. destruct (fmeta g 0 =? i64_min); cbn [snd].
  - unfold grow. cbn [g_fmeta g_tmeta]. rewrite !app_length. cbn [length]. lia.
  - unfold set_fmeta. cbn [g_fmeta g_tmeta]. rewrite !length_set. lia.
Qed.

(* the two counters insert_edge writes are the degree counters of the result *)
Lemma insert_edge_counters g f t :
  is_node g f = true -> is_node g t = true ->
  length (g_fmeta g) = length (g_from g) -> length (g_tmeta g) = length (g_from g) ->
  let g1 := snd (get_free_index g) in
  let index := - fst (get_free_index g) in
  let g3 := set_to (set_from g1 index (- f)) index (- t) in
  let g4 := update_from_edge g3 f index in
  exists G', insert_edge g f t = Some (index, G') /\
    fmeta G' f = fmeta (set_from (set_fmeta g3 index (from g3 f)) f (- index)) f + 1 /\
    tmeta G' t = tmeta (set_to (set_tmeta g4 index (to g4 t)) t (- index)) t + 1.
Proof.
  intros Nf Nt L2 L3. cbv zeta. destruct (get_free_index_lengths g) as [LF LT].
  assert (Rf : Z.abs f < Z.of_nat (length (g_from g))).
  { unfold is_node, valid_index, capacity in Nf. lia. }
  assert (Rt : Z.abs t < Z.of_nat (length (g_from g))).
  { unfold is_node, valid_index, capacity in Nt. lia. }
  unfold insert_edge. rewrite Nf, Nt. cbn [andb].
  destruct (get_free_index g) as [slot g1]. cbn [fst snd] in *.
  eexists. split; [reflexivity|]. split.
  - unfold update_to_edge, update_from_edge. unfold fmeta at 1. unfold set_tmeta at 1. cbn [g_fmeta].
    unfold set_to at 1. cbn [g_fmeta]. unfold set_tmeta at 1. cbn [g_fmeta].
    unfold set_fmeta at 1. cbn [g_fmeta]. rewrite get_set_same; [reflexivity|reflexivity|].
    unfold set_from at 1. cbn [g_fmeta]. unfold set_fmeta at 1. cbn [g_fmeta]. rewrite length_set.
    unfold set_to, set_from. cbn [g_fmeta]. lia.
  - unfold update_to_edge. unfold tmeta at 1. unfold set_tmeta at 1. cbn [g_tmeta]. rewrite get_set_same; [reflexivity|reflexivity|].
    unfold set_to at 1. cbn [g_tmeta]. unfold set_tmeta at 1. cbn [g_tmeta]. rewrite length_set.
    unfold update_from_edge. unfold set_fmeta at 1. cbn [g_tmeta]. unfold set_from at 1. cbn [g_tmeta].
    unfold set_fmeta at 1. cbn [g_tmeta]. unfold set_to, set_from. cbn [g_tmeta]. lia.
Qed.

Theorem wf_so_edge_ok g f t :
  wf g -> capacity g < 1152921504606846976 -> 0 < f -> 0 < t -> is_node g f = true -> is_node g t = true ->
  so_edge_ok g f t.
Proof.
  intros W Hcap Pf Pt Nf Nt. destruct W as [a [fl HS]]. pose proof HS as [[L1 [L2 L3]] R].
  destruct (insert_edge_counters g f t Nf Nt L2 L3) as [G' [EI [EF ET]]]. cbv zeta in EI, EF, ET.
  unfold so_edge_ok. cbv zeta. rewrite <- EF, <- ET. clear EF ET.
  assert (OKop : GraphSpec.gop_ok (GInsertEdge f t)) by (split; lia).
  destruct (gstep_sim g a fl (GInsertEdge f t) HS OKop) as [g1 [out [a1 [fl1 [E1 [A1 S1]]]]]].
  cbn [gstep] in E1. rewrite EI in E1. injection E1 as <- <-.
  cbn [astep] in A1. destruct (_ && _) eqn:Ec in A1; [|discriminate]. injection A1 as <-.
  assert (Hf : In f (a_nodes a)).
  { apply (is_node_iff _ _ _ _ _ _ _ _ _ HS) in Nf. rewrite Z.abs_eq in Nf by lia. exact Nf. }
  assert (Ht : In t (a_nodes a)).
  { apply (is_node_iff _ _ _ _ _ _ _ _ _ HS) in Nt. rewrite Z.abs_eq in Nt by lia. exact Nt. }
  destruct (sim_out_edges _ _ _ S1 f Hf) as [_ CF]. destruct (sim_in_edges _ _ _ S1 t Ht) as [_ CT].
  unfold edge_count_from in CF. unfold edge_count_to in CT. unfold a_out in CF. unfold a_in in CT.
  rewrite map_length in CF, CT. cbn [a_edges] in CF, CT. rewrite adj_cons in CF, CT.
  pose proof (adj_length_le esrc (a_edges a) f (length (g_from g)) (sim_edges_nodup _ _ _ HS) (sim_edges_pos _ _ _ HS)) as BF.
  pose proof (adj_length_le etgt (a_edges a) t (length (g_from g)) (sim_edges_nodup _ _ _ HS) (sim_edges_pos _ _ _ HS)) as BT.
  unfold capacity in Hcap. unfold i64_range. split.
  - rewrite CF. destruct (esrc _ =? f); cbn [length]; lia.
  - rewrite CT. destruct (etgt _ =? t); cbn [length]; lia.
Qed.

(* ---------------- the ids the insertions return ---------------- *)
Lemma get_free_index_bound g :
  wf g -> 0 < fst (get_free_index g) <= capacity g.
Proof.
  intros [a [fl HS]]. pose proof HS as [WL R]. pose proof (r_free _ _ _ _ _ _ _ _ _ _ _ _ _ R) as HF.
  pose proof (r_cap _ _ _ _ _ _ _ _ _ _ _ _ _ R) as Hc.
  unfold get_free_index. rewrite (f_head _ _ _ _ _ _ _ _ _ HF).
  destruct fl as [|x r]; cbn [fhead].
  - rewrite Z.eqb_refl. cbn [fst]. lia.
  - destruct (f_fl _ _ _ _ _ _ _ _ _ HF x (or_introl eq_refl)) as [Hr [Hm _]].
    destruct (Z.eqb_spec (- x) i64_min) as [E|_]; [contradiction|]. cbn [fst]. lia.
Qed.

Lemma wf_new_ids_ok g :
  wf g -> capacity g < 1152921504606846976 ->
  so_index_ok (cg_as_u64 (fst (insert_node g))) /\ so_index_ok (cg_as_u64 (- fst (get_free_index g))).
Proof.
  intros W Hcap. pose proof (get_free_index_bound g W) as B.
  unfold insert_node. destruct (get_free_index g) as [slot g1]. cbn [fst] in *.
  unfold so_index_ok, cg_as_u64. split; lia.
Qed.

Lemma graph_index_ok g id :
  graph_index g id = true -> capacity g < 1152921504606846976 -> so_index_ok (cg_as_u64 id).
Proof.
  unfold graph_index, is_edge, is_node, valid_index, so_index_ok, cg_as_u64. intros G Hcap.
  destruct (id <? 0); [lia|]. destruct (0 <? id); [lia|discriminate].
Qed.

Theorem wf_edge_side_conditions g :
  wf g -> capacity g < 1152921504606846976 ->
    (forall f t, 0 < f -> 0 < t -> is_node g f = true -> is_node g t = true -> so_edge_ok g f t) /\
    (forall e, e < 0 -> so_remove_edge_ok g e) /\
    so_index_ok (cg_as_u64 (fst (insert_node g))) /\ so_index_ok (cg_as_u64 (- fst (get_free_index g))) /\
    (forall id, graph_index g id = true -> so_index_ok (cg_as_u64 id)).
Proof.
  intros W Hcap. split; [intros f t; apply wf_so_edge_ok; assumption|]. split; [intros e; apply wf_so_remove_edge_ok; assumption|].
  split; [apply wf_new_ids_ok; assumption|]. split; [apply wf_new_ids_ok; assumption|].
  intros id G. eapply graph_index_ok; eassumption.
Qed.
