(* StorageRefine.v — proofs (part 5 of the C04 development): the storage model
   refines the abstract map specification (StorageSpec.v), step by step and for
   every history. *)
From Agdb Require Import Bytes BytesProofs Records RecordsProofs RecordsTableProofs Storage StorageSpec
  StorageLayout StorageWp StorageOps StorageOps2.
From Coq Require Import ZifyBool ZifyNat ZifyN.
Ltac Zify.zify_post_hook ::= Z.div_mod_to_equations.
Open Scope N_scope.
Arguments N.add : simpl never.
Arguments N.mul : simpl never.
Arguments N.sub : simpl never.
Arguments N.of_nat : simpl never.
Arguments N.to_nat : simpl never.
Arguments N.eqb : simpl never.
Arguments N.ltb : simpl never.
Arguments N.leb : simpl never.

Ltac st := cbn [sdata cur dur rtab tx version set_cur set_data set_rtab set_tx set_version].

(* the abstract map holds exactly the live regions *)
Definition agree (rg : list region) (m : vmap) : Prop :=
  m_get m 0 = None /\ forall j, j <> 0 -> m_get m j = m_get rg j.

(* the refinement relation: the file tiles and its live values are the specification's map;
   the transaction depths agree; the durable content is a tiling of the committed map; at
   depth 0 nothing is uncommitted *)
Definition Rel (s : ST) (sp : spec) : Prop :=
  (exists rg, tiles s rg /\ agree rg (sm sp)) /\
  tx s = sdepth sp /\
  (exists s0 rg0, tiles s0 rg0 /\ cur (sdata s0) = dur (sdata s) /\ agree rg0 (scommitted sp)) /\
  (sdepth sp = 0 -> dur (sdata s) = cur (sdata s) /\ scommitted sp = sm sp).

Lemma Rel_mutate s sp F s' m' :
  Rel s sp -> opost s F s' -> m_get m' 0 = None -> (forall j, j <> 0 -> m_get m' j = F j) ->
  Rel s' (mutate sp m').
Proof.
  intros (_ & Htx & (s0 & rg0 & T0 & Hc0 & Ag0) & H0) (rg' & T' & HF & Htx' & Hdur') Hm0 Hm.
  assert (Ag' : agree rg' m') by (split; [exact Hm0|intros j Hj; rewrite (Hm j Hj), (HF j Hj); reflexivity]).
  unfold Rel, mutate. cbn [sm sdepth scommitted]. rewrite Htx in Hdur'.
  split; [exists rg'; auto|]. split; [congruence|].
  destruct (N.eqb_spec (sdepth sp) 0) as [E0|N0].
  - split; [exists s', rg'; auto|]. intros _. auto.
  - split; [exists s0, rg0; split; [exact T0|]; split; [congruence|exact Ag0]|]. intros E. congruence.
Qed.

Lemma agree_put rg m i v (F : N -> option bytes) :
  agree rg m -> i <> 0 -> (forall j, j <> 0 -> F j = if j =? i then Some v else m_get rg j) ->
  m_get (m_put m i v) 0 = None /\ (forall j, j <> 0 -> m_get (m_put m i v) j = F j).
Proof.
  intros [A0 A] Hi HF. split.
  - rewrite m_get_put. destruct (N.eqb_spec i 0); [congruence|exact A0].
  - intros j Hj. rewrite m_get_put, (HF j Hj), (N.eqb_sym j i). destruct (i =? j); [reflexivity|apply A; exact Hj].
Qed.

Lemma agree_del rg m i (F : N -> option bytes) :
  agree rg m -> (forall j, j <> 0 -> F j = if j =? i then None else m_get rg j) ->
  m_get (m_del m i) 0 = None /\ (forall j, j <> 0 -> m_get (m_del m i) j = F j).
Proof.
  intros [A0 A] HF. split.
  - rewrite m_get_del. destruct (i =? 0); [reflexivity|exact A0].
  - intros j Hj. rewrite m_get_del, (HF j Hj), (N.eqb_sym j i). destruct (i =? j); [reflexivity|apply A; exact Hj].
Qed.

Lemma bytes_eqb_refl b : bytes_eqb b b = true.
Proof. apply bytes_eqb_eq. reflexivity. Qed.

(* operations other than the maintenance ones (handled separately) *)
Definition plain (o : sop) : bool :=
  match o with SOptimize | SReopen | SReopenCopy => false | _ => true end.

Section Refine.
  Variable ops : store_ops cdata.
  Hypothesis CN : canon ops.
  Variable fl : bool.

  Lemma agree_none rg m i : agree rg m -> (i = 0 \/ m_get rg i = None) -> m_get m i = None.
  Proof. intros [A0 A] [->|H]; [exact A0|]. destruct (N.eqb_spec i 0) as [->|Hi]; [exact A0|]. rewrite A; assumption. Qed.

  Lemma agree_some rg m i v : agree rg m -> i <> 0 -> m_get rg i = Some v -> m_get m i = Some v.
  Proof. intros [_ A] Hi H. rewrite A; assumption. Qed.

  Lemma step_plain s sp o :
    Rel s sp -> plain o = true ->
    snd (st_step cdata ops s o) = ObPanic \/
    exists sp', spec_step fl sp o (snd (st_step cdata ops s o)) = Some sp' /\ Rel (fst (st_step cdata ops s o)) sp'.
  Proof.
    intros RL Hp. pose proof RL as ((rg & T & Ag) & Htx & Hcm & H0).
    destruct o; try discriminate Hp; cbn [st_step lift fst snd].
    - (* insert *)
      pose proof (insert_spec ops CN s rg bs T) as W. unfold wp in W.
      destruct (insert_bytes cdata ops bs s) as [s' [idx|e| |]]; cbn [fst snd to_obs]; [|destruct W|auto|destruct W].
      destruct W as (Hi & Hnone & OP). right. cbn [spec_step].
      destruct (N.eqb_spec idx 0); [congruence|]. cbn [negb].
      rewrite (agree_none _ _ _ Ag (or_intror Hnone)).
      eexists; split; [reflexivity|].
      destruct (agree_put rg (sm sp) idx bs _ Ag Hi (fun j _ => eq_refl)) as [P0 P].
      exact (Rel_mutate _ _ _ _ _ RL OP P0 P).
    - (* insert_at *)
      pose proof (insert_at_spec ops CN s rg index offset bs T) as W. unfold wp in W.
      destruct (insert_bytes_at cdata ops index offset bs s) as [s' [[]|e| |]]; cbn [fst snd to_obs ou]; [| |auto|destruct W].
      + destruct W as (v & Hi & Hget & OP). right. cbn [spec_step]. rewrite (agree_some _ _ _ _ Ag Hi Hget).
        cbn [is_unit guard]. eexists; split; [reflexivity|].
        destruct (agree_put rg (sm sp) index (v_insert_at v offset bs) _ Ag Hi (fun j _ => eq_refl)) as [P0 P].
        exact (Rel_mutate _ _ _ _ _ RL OP P0 P).
      + destruct W as (-> & Hnone & ->). right. cbn [spec_step]. rewrite (agree_none _ _ _ Ag Hnone).
        cbn [obs_eqb_err guard]. eauto.
    - (* replace *)
      pose proof (replace_spec ops CN s rg index bs T) as W. unfold wp in W.
      destruct (replace_with_bytes cdata ops index bs s) as [s' [[]|e| |]]; cbn [fst snd to_obs ou]; [| |auto|destruct W].
      + destruct W as (Hi & Hsome & OP). right. cbn [spec_step].
        destruct (m_get rg index) as [v|] eqn:Hget; [|congruence]. rewrite (agree_some _ _ _ _ Ag Hi Hget).
        cbn [is_unit guard]. eexists; split; [reflexivity|].
        destruct (agree_put rg (sm sp) index bs _ Ag Hi (fun j _ => eq_refl)) as [P0 P].
        exact (Rel_mutate _ _ _ _ _ RL OP P0 P).
      + destruct W as (-> & Hnone & ->). right. cbn [spec_step]. rewrite (agree_none _ _ _ Ag Hnone).
        cbn [obs_eqb_err guard]. eexists; split; [reflexivity|].
        unfold Rel. cbn [sm sdepth scommitted]. st.
        split; [exists rg; split; [apply tiles_set_tx; exact T|exact Ag]|]. split; [congruence|].
        split; [exact Hcm|]. intros E. lia.
    - (* resize *)
      pose proof (resize_spec ops CN s rg index size T) as W. unfold wp in W.
      destruct (resize_value cdata ops index size s) as [s' [[]|e| |]]; cbn [fst snd to_obs ou]; [| |auto|destruct W].
      + destruct W as (v & Hi & Hget & OP). right. cbn [spec_step]. rewrite (agree_some _ _ _ _ Ag Hi Hget).
        cbn [is_unit guard]. eexists; split; [reflexivity|].
        destruct (agree_put rg (sm sp) index (v_resize v size) _ Ag Hi (fun j _ => eq_refl)) as [P0 P].
        exact (Rel_mutate _ _ _ _ _ RL OP P0 P).
      + destruct W as (-> & Hnone & ->). right. cbn [spec_step]. rewrite (agree_none _ _ _ Ag Hnone).
        cbn [obs_eqb_err guard]. eauto.
    - (* move *)
      pose proof (move_spec ops CN s rg index from to size T) as W. unfold wp in W.
      destruct (move_at cdata ops index from to size s) as [s' [[]|e| |]]; cbn [fst snd to_obs ou]; [| |auto|destruct W].
      + destruct W as (v & Hi & Hget & Hf1 & Hf2 & OP). right. cbn [spec_step]. rewrite (agree_some _ _ _ _ Ag Hi Hget).
        destruct (N.ltb_spec (lenN v) from); [lia|]. destruct (N.ltb_spec (lenN v) (from + size)); [lia|].
        cbn [orb is_unit guard]. eexists; split; [reflexivity|].
        destruct (agree_put rg (sm sp) index (v_move v from to size) _ Ag Hi (fun j _ => eq_refl)) as [P0 P].
        exact (Rel_mutate _ _ _ _ _ RL OP P0 P).
      + destruct W as (-> & [[-> Hnone]|(-> & v & Hi & Hget & Hbad)]); right; cbn [spec_step].
        * rewrite (agree_none _ _ _ Ag Hnone). cbn [obs_eqb_err guard]. eauto.
        * rewrite (agree_some _ _ _ _ Ag Hi Hget).
          assert ((lenN v <? from) || (lenN v <? from + size) = true) as ->.
          { destruct (N.ltb_spec (lenN v) from), (N.ltb_spec (lenN v) (from + size)); cbn; try reflexivity. lia. }
          cbn [obs_eqb_err guard]. eauto.
    - (* remove *)
      pose proof (remove_spec ops CN s rg index T) as W. unfold wp in W.
      destruct (remove_value cdata ops index s) as [s' [[]|e| |]]; cbn [fst snd to_obs ou]; [| |auto|destruct W].
      + destruct W as (Hi & Hsome & OP). right. cbn [spec_step].
        destruct (m_get rg index) as [v|] eqn:Hget; [|congruence]. rewrite (agree_some _ _ _ _ Ag Hi Hget).
        cbn [is_unit guard]. eexists; split; [reflexivity|].
        destruct (agree_del rg (sm sp) index _ Ag (fun j _ => eq_refl)) as [P0 P].
        exact (Rel_mutate _ _ _ _ _ RL OP P0 P).
      + destruct W as (-> & Hnone & ->). right. cbn [spec_step]. rewrite (agree_none _ _ _ Ag Hnone).
        cbn [obs_eqb_err guard]. eauto.
    - (* transaction *)
      unfold tx_begin. destruct (N.leb_spec two64 (tx s + 1)); cbn [fst snd to_obs]; [auto|]. right.
      cbn [spec_step]. rewrite Htx. unfold is_num. rewrite N.eqb_refl. cbn [guard].
      eexists; split; [reflexivity|]. unfold Rel. cbn [sm sdepth scommitted]. st.
      split; [exists rg; split; [apply tiles_set_tx; exact T|exact Ag]|]. split; [congruence|].
      split; [exact Hcm|]. intros E. lia.
    - (* commit *)
      unfold tx_commit. cbn [spec_step]. rewrite <- Htx.
      destruct (N.eqb_spec (tx s) id) as [Eid|Nid]; cbn [negb fst snd to_obs ou].
      + destruct (N.eqb_spec (tx s) 0) as [E0|N0]; cbn [fst snd to_obs ou].
        * right. unfold ou. cbn [is_unit guard]. eauto.
        * pose proof (tiles_committed s rg) as TC. pose proof (committed_tx s) as CT.
          pose proof (committed_dur s) as CD. pose proof (committed_cur s) as CC.
          unfold committed in TC, CT, CD, CC. cbn zeta in TC, CT, CD, CC.
          assert (Est : (if tx (set_tx cdata s (tx s - 1)) =? 0 then dflush cdata ops (set_tx cdata s (tx s - 1))
                         else (set_tx cdata s (tx s - 1), ROk tt))
                        = ((if tx (set_tx cdata s (tx s - 1)) =? 0
                            then set_data cdata (set_tx cdata s (tx s - 1)) (c_flush (sdata (set_tx cdata s (tx s - 1))))
                            else set_tx cdata s (tx s - 1)), ROk tt)).
          { destruct (tx (set_tx cdata s (tx s - 1)) =? 0); [|reflexivity]. unfold dflush. rewrite (cn_flush _ CN). reflexivity. }
          rewrite Est. cbn [fst snd to_obs ou].
          right. unfold ou. cbn [is_unit guard]. eexists; split; [reflexivity|].
          set (s' := if tx (set_tx cdata s (tx s - 1)) =? 0 then _ else _) in *.
          unfold Rel. cbn [sm sdepth scommitted].
          split; [exists rg; split; [apply TC; exact T|exact Ag]|]. split; [congruence|].
          rewrite CD, CC. destruct (N.eqb_spec (tx s - 1) 0) as [E1|N1].
          -- split; [exists s', rg; split; [apply TC; exact T|]; split; [exact CC|exact Ag]|]. auto.
          -- split; [exact Hcm|]. intros E. congruence.
      + right. cbn [obs_eqb_err guard]. eauto.
    - (* value *)
      pose proof (value_spec ops CN s rg index T) as W. unfold wp in W.
      destruct (value_as_bytes cdata ops index s) as [s' [b|e| |]]; cbn [fst snd to_obs]; [| |auto|destruct W].
      + destruct W as (-> & Hi & Hget). right. cbn [spec_step]. rewrite (agree_some _ _ _ _ Ag Hi Hget).
        unfold is_bytes. rewrite bytes_eqb_refl. cbn [guard]. eauto.
      + destruct W as (-> & -> & Hnone). right. cbn [spec_step]. rewrite (agree_none _ _ _ Ag Hnone).
        cbn [obs_eqb_err guard]. eauto.
    - (* value at *)
      pose proof (value_at_spec ops CN s rg index offset T) as W. unfold wp in W.
      destruct (value_as_bytes_at cdata ops index offset s) as [s' [b|e| |]]; cbn [fst snd to_obs]; [| |auto|destruct W].
      + destruct W as (-> & v & Hi & Hget & Hoff & ->). right. cbn [spec_step]. rewrite (agree_some _ _ _ _ Ag Hi Hget).
        destruct (N.ltb_spec (lenN v) offset); [lia|]. unfold is_bytes. rewrite bytes_eqb_refl. cbn [guard]. eauto.
      + destruct W as (-> & [[-> Hnone]|(-> & v & Hi & Hget & Hbad)]); right; cbn [spec_step].
        * rewrite (agree_none _ _ _ Ag Hnone). cbn [obs_eqb_err guard]. eauto.
        * rewrite (agree_some _ _ _ _ Ag Hi Hget). destruct (N.ltb_spec (lenN v) offset); [|lia].
          cbn [obs_eqb_err guard]. eauto.
    - (* value at size *)
      pose proof (value_at_size_spec ops CN s rg index offset size T) as W. unfold wp in W.
      destruct (value_as_bytes_at_size cdata ops index offset size s) as [s' [b|e| |]]; cbn [fst snd to_obs]; [| |auto|destruct W].
      + destruct W as (-> & v & Hi & Hget & Hoff & Hn & ->). right. cbn [spec_step]. rewrite (agree_some _ _ _ _ Ag Hi Hget).
        destruct (N.ltb_spec (lenN v) offset); [lia|]. destruct (N.ltb_spec (lenN v) (offset + size)); [lia|].
        cbn [orb]. unfold is_bytes. rewrite bytes_eqb_refl. cbn [guard]. eauto.
      + destruct W as (-> & [[-> Hnone]|(-> & v & Hi & Hget & Hbad)]); right; cbn [spec_step].
        * rewrite (agree_none _ _ _ Ag Hnone). cbn [obs_eqb_err guard]. eauto.
        * rewrite (agree_some _ _ _ _ Ag Hi Hget).
          assert ((lenN v <? offset) || (lenN v <? offset + size) = true) as ->.
          { destruct (N.ltb_spec (lenN v) offset), (N.ltb_spec (lenN v) (offset + size)); cbn; try reflexivity. lia. }
          cbn [obs_eqb_err guard]. eauto.
    - (* value size *)
      pose proof (value_size_spec s rg index T) as W. unfold wp in W.
      destruct (value_size cdata index s) as [s' [n|e| |]]; cbn [fst snd to_obs]; [| |auto|destruct W].
      + destruct W as (-> & v & Hi & Hget & ->). right. cbn [spec_step]. rewrite (agree_some _ _ _ _ Ag Hi Hget).
        unfold is_num. rewrite N.eqb_refl. cbn [guard]. eauto.
      + destruct W as (-> & [[-> Hnone]|(_ & v & _ & _ & [])]). right. cbn [spec_step].
        rewrite (agree_none _ _ _ Ag Hnone). cbn [obs_eqb_err guard]. eauto.
    - (* len *)
      right. unfold get_len. cbn [fst snd to_obs spec_step]. eauto.
  Qed.
End Refine.
