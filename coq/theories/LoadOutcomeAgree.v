(* LoadOutcomeAgree.v — C07 / C05: on a record store that HOLDS a database (`stored_db`, StoredDbRep.v) the outcome
   model of LoadOutcome.v loads it, and returns the very database the loader `load_db` of StoredDb.v returns
   (C05_db_reload).  Route: the value element class of LoadOutcome.v is lawful for the same representation as
   CollValues.ce_dbvalue (only `load` differs, and on the indexes `store` produces the two coincide), so the L2 reload
   lemmas apply to the programs of LoadOutcome.v; both loaders are shown to return one concrete database built from
   the representation witness. *)
From Coq Require Import Permutation.
From Agdb Require Import Bytes BytesProofs Utf8 Codec DbValue ValueIndex ValueIndexProofs ValueLoadProofs Graph DbModel Records RecordsProofs
  Storage StorageSpec StorageLayout Collections CollValues CollWp CollBytes CollVecBase CollVecOps CollVec CollVec2 CollElems CollSep
  CollMap CollGraph CollValuesProofs StoredDb StoredDbRep StoredDbRun StoredDbLoad StoredDbProofs LoadOutcome LoadOutcomeProofs.
From Coq Require Import ZifyBool ZifyNat ZifyN.
Ltac Zify.zify_post_hook ::= Z.div_mod_to_equations.
Open Scope N_scope.
Arguments N.add : simpl never.
Arguments N.mul : simpl never.
Arguments N.sub : simpl never.
Arguments N.of_nat : simpl never.
Arguments N.to_nat : simpl never.
Arguments N.eqb : simpl never.
Arguments N.ltb : simpl never.
Arguments N.leb : simpl never.
Arguments N.div : simpl never.

(* ---- lo_run is cp_run on the read-only record map, once the limit admits the records ---- *)
Definition lo_of_cres {A} (r : cres A) : lo_res A :=
  match r with CrOk a => LoOk a | CrErr _ => LoErr | CrDead => LoPanic end.

Lemma sd_step_fst m o : fst (sd_step m o) = m.
Proof. destruct o; reflexivity. Qed.

Lemma lo_run_cp_run {A} L m (p : cprog A) : big L m -> lo_run L p m = lo_of_cres (snd (cp_run sd_step p m)).
Proof.
  intros Hb. induction p as [a|e| |o k IH]; cbn [lo_run cp_run snd lo_of_cres]; try reflexivity.
  pose proof (sd_step_fst m o) as Ef. destruct (sd_step m o) as [m' v] eqn:Es. cbn [fst snd] in *. subst m'.
  assert (Hreq : match lo_request m o with Some n => (L <? n) = false | None => True end).
  { destruct o; cbn [lo_request]; try exact I.
    - match goal with |- context [m_get m ?j] => destruct (m_get m j) as [x|] eqn:E; [|exact I]; pose proof (Hb j x E) end. lia.
    - match goal with |- context [m_get m ?j] => destruct (m_get m j) as [x|] eqn:E; [|exact I]; pose proof (Hb j x E) end.
      match goal with |- context [(?c1 || ?c2)%bool] => destruct (c1 || c2)%bool eqn:E1; [exact I|] end. lia. }
  destruct (lo_request m o) as [n|]; [rewrite Hreq|]; destruct v; cbn [snd lo_of_cres]; try reflexivity; apply IH.
Qed.

(* ---- the value element class of LoadOutcome.v is lawful for the representation of C12 ---- *)
Lemma load_g_ok_inv ix st v :
  load_db_value_g vg_current ix st = Ok v ->
  (is_numeric_type (vi_type ix) && negb (vi_size ix =? 8)) = false /\ is_known_type (vi_type ix) = true /\
  load_db_value ix st = Ok v.
Proof.
  unfold load_db_value_g. cbn [vg_num_checked vg_type_checked vg_current].
  destruct (is_numeric_type (vi_type ix) && negb (vi_size ix =? 8)); [discriminate|].
  destruct (is_known_type (vi_type ix)); cbn [negb]; [auto|discriminate].
Qed.

Lemma known_cases t : is_known_type t = true -> t = 1 \/ t = 2 \/ t = 3 \/ t = 4 \/ t = 5 \/ t = 6 \/ t = 7 \/ t = 8 \/ t = 9.
Proof. unfold is_known_type. lia. Qed.

Lemma lo_value_load_inline g ix v :
  load_db_value_g vg_current ix [] = Ok v -> is_value ix = true -> lo_value_load g ix = CRet v.
Proof.
  intros R Hv. destruct (load_g_ok_inv _ _ _ R) as (E1 & E2 & R'). unfold lo_value_load. rewrite E1, E2. cbn [negb].
  unfold lo_needs_record. rewrite Hv. cbn [negb].
  destruct (known_cases _ E2) as [E|[E|[E|[E|[E|[E|[E|[E|E]]]]]]]]; rewrite E; cbv iota;
    try (rewrite R'; reflexivity);
    exfalso; unfold load_db_value in R'; rewrite E in R'; cbv iota in R';
    unfold value_as, rec_get in R'; cbn in R'; discriminate R'.
Qed.

Lemma lo_value_load_record g ix b v :
  load_db_value_g vg_current ix [(vi_index ix, b)] = Ok v -> is_value ix = false ->
  lo_value_load g ix = (b0 <~ cp_value (vi_index ix) ;; cp_of_outcome (load_db_value ix [(vi_index ix, b0)])) \/
  lo_value_load g ix = CRet v.
Proof.
  intros R Hv. destruct (load_g_ok_inv _ _ _ R) as (E1 & E2 & R'). unfold lo_value_load. rewrite E1, E2. cbn [negb].
  unfold lo_needs_record. rewrite Hv. cbn [negb].
  destruct (known_cases _ E2) as [E|[E|[E|[E|[E|[E|[E|[E|E]]]]]]]]; rewrite E; cbv iota; try (left; reflexivity);
    right; unfold load_db_value in *; rewrite E in *; cbv iota in *; rewrite R'; reflexivity.
Qed.

Definition law_lo_dbvalue (g : vguards) : elem_law (lo_ce_dbvalue g).
Proof.
  refine {| el_valid := el_valid law_dbvalue; el_rep := el_rep law_dbvalue; el_own := el_own law_dbvalue |}.
  - exact (el_size_pos ce_dbvalue law_dbvalue).
  - exact (el_len ce_dbvalue law_dbvalue).
  - exact (el_live ce_dbvalue law_dbvalue).
  - exact (el_nodup ce_dbvalue law_dbvalue).
  - exact (el_local ce_dbvalue law_dbvalue).
  - exact (el_store ce_dbvalue law_dbvalue).
  - (* load *)
    intros fl bs v sp Q (Hwf & i & H1 & H2 & -> & Hg) HQ. cbn [ce_load lo_ce_dbvalue].
    pose proof (load_g_roundtrip vg_current (fun _ => i) v [] Hwf (alloc_const_ok i H1 H2)) as R.
    destruct (dbv_store_shape v i) as [Es _]. rewrite Es in R.
    destruct (dbv_index_facts v i H1 H2) as [Hw Hc]. remember (fst (store_db_value (fun _ => i) v [])) as ix eqn:Eix.
    rewrite (vi_deserialize_wf ix Hw). cbn [cp_of_outcome cbind].
    destruct Hc as [[Hv Hn]|(Hv & Hi & b & Hb)].
    + rewrite Hn in R. rewrite (lo_value_load_inline g ix v R Hv). exact HQ.
    + rewrite Hb in R. rewrite <- Hi in R.
      destruct (lo_value_load_record g ix b v R Hv) as [E|E]; rewrite E; [|exact HQ].
      apply cwp_bind. eapply cwp_value; [rewrite Hi; exact (Hg b Hb)|]. cbn [kont].
      destruct (load_g_ok_inv _ _ _ R) as (_ & _ & R'). rewrite R'. exact HQ.
  - exact (el_remove ce_dbvalue law_dbvalue).
Defined.

Definition law_lo_dbkv (g : vguards) : elem_law (lo_ce_dbkv g) :=
  law_pair dbvalue dbvalue (lo_ce_dbvalue g) (lo_ce_dbvalue g) (law_lo_dbvalue g) (law_lo_dbvalue g).
(* ==== part: .cache/part3.v ==== *)

(* ---- the representation predicates do not see which of the two value classes is used ---- *)
Section Conv.
  Variable g0 : vguards.

  Lemma vrep_kv_conv gh h bss l :
    vrep kv ce_dbkv law_dbkv gh h bss l -> vrep kv (lo_ce_dbkv g0) (law_lo_dbkv g0) gh h bss l.
  Proof. intros [[Hrec Hel Hnd] Hlen Hcap Hfits]. constructor; [constructor|..]; assumption. Qed.

  Lemma vrep_dbv_conv gh h bss l :
    vrep dbvalue ce_dbvalue law_dbvalue gh h bss l -> vrep dbvalue (lo_ce_dbvalue g0) (law_lo_dbvalue g0) gh h bss l.
  Proof. intros [[Hrec Hel Hnd] Hlen Hcap Hfits]. constructor; [constructor|..]; assumption. Qed.

  Lemma msep_ids_conv gh d ss ks vs ls lk lv :
    msep dbvalue Z ce_dbvalue ce_i64 law_dbvalue law_i64 gh d ss ks vs ls lk lv ->
    msep dbvalue Z (lo_ce_dbvalue g0) ce_i64 (law_lo_dbvalue g0) law_i64 gh d ss ks vs ls lk lv.
  Proof. intros [H1 H2 H3 H4 H5 H6]. constructor; try assumption. apply vrep_dbv_conv. exact H3. Qed.
End Conv.

(* ---- the database both loaders return, in terms of the representation witness ---- *)
Fixpoint sd_ix_concrete (ws : list (sd_mapw dbvalue Z)) (ixs : list index) : list index :=
  match ws, ixs with
  | w :: ws', ix :: ixs' => (fst ix, sd_table_entries (mw_t w)) :: sd_ix_concrete ws' ixs'
  | _, _ => []
  end.
Definition sd_concrete (w : sd_wit) (d : db) : db :=
  {| gr := gr d;
     aliases := {| k2v := sd_table_entries (mw_t (sw_a1 w)); v2k := sd_table_entries (mw_t (sw_a2 w)) |};
     vals := vals d; indexes := sd_ix_concrete (sw_iw w) (indexes d); undo := [] |}.

Section Specs.
  Variable fl : bool.
  Variable g0 : vguards.

  (* ---- the loader of StoredDb.v, with its result named ---- *)
  Lemma sd_index_list_load_concrete : forall es ws ixs sp (Q : cres (list index) -> spec -> Prop),
    sd_ix_rep (hp sp) es ws ixs -> Q (CrOk (sd_ix_concrete ws ixs)) sp -> cwp fl (sd_index_list_load es) sp Q.
  Proof.
    induction es as [|e r IH]; intros [|w ws] [|ix ixs] sp Q H HQ; cbn [sd_ix_rep] in H; try contradiction;
      cbn [sd_index_list_load sd_ix_concrete] in *; [exact HQ|].
    destruct H as [(ixb & mi & -> & Hmi & Hk & Hm) Hr].
    assert (L16 : length ixb = 16%nat).
    { pose proof (el_len ce_dbvalue law_dbvalue _ _ _ Hk) as HL. cbn [ce_size ce_dbvalue] in HL. unfold lenN in HL. lia. }
    apply cwp_bind. unfold sd_index_load.
    apply cwp_bind. rewrite firstn_app_l by (symmetry; exact L16).
    eapply (el_load ce_dbvalue law_dbvalue); [exact Hk|]. cbn [kont].
    apply cwp_bind. rewrite skipn_app_l by (symmetry; exact L16). rewrite cp_de64_le64 by exact Hmi. cbn [cwp kont].
    apply cwp_bind. eapply sd_map_load_spec; [exact Hm|]. intros HP. cbn [kont cwp].
    apply cwp_bind. eapply IH; [exact Hr|]. cbn [kont cwp]. exact HQ.
  Qed.

  Theorem sd_load_concrete root d w sp :
    stored_db_w (hp sp) root d w ->
    cwp fl (sd_load root) sp (fun r sp' => sp' = sp /\ r = CrOk (sd_concrete w d)).
  Proof.
    intros [Hroot Hu64 _ Hg Hgi Ha1 Hk1 Ha2 Hk2 Hiv Hii Hix Hvv Hvi Hv _].
    unfold sd_load.
    apply cwp_bind. unfold sd_root_load. apply cwp_bind. eapply cwp_value; [exact Hroot|]. cbn [kont].
    apply cr_de_ser; [exact Hu64|]. cbn [kont].
    apply cwp_bind. rewrite <- Hgi. eapply sd_graph_load_spec; [exact Hg|]. cbn [kont].
    apply cwp_bind. eapply sd_map_load_spec; [exact Ha1|]. intros P1. cbn [kont].
    apply cwp_bind. eapply sd_map_load_spec; [exact Ha2|]. intros P2. cbn [kont].
    apply cwp_bind. unfold sd_indexes_load. apply cwp_bind. rewrite <- Hii.
    eapply sd_vec_load_spec; [exact Hiv|]. cbn [kont].
    eapply sd_index_list_load_concrete; [exact Hix|]. cbn [kont].
    apply cwp_bind. unfold sd_values_load. apply cwp_bind. rewrite <- Hvi.
    eapply sd_vec_load_spec; [exact Hvv|]. cbn [kont].
    eapply sd_kvs_load_spec; [exact Hv|]. cbn [kont cwp].
    split; reflexivity.
  Qed.
End Specs.
(* ==== part: .cache/part4.v ==== *)

(* ---- the programs of LoadOutcome.v only read ---- *)
Lemma sd_reads_lo_dbvalue g0 : sd_elem_reads (lo_ce_dbvalue g0).
Proof.
  intros bs. cbn [ce_load lo_ce_dbvalue]. apply sd_reads_bind; [apply sd_reads_outcome|]. intros ix.
  unfold lo_value_load.
  destruct (is_numeric_type (vi_type ix) && negb (vi_size ix =? 8)); [destruct (vg_num_checked g0); exact I|].
  destruct (negb (is_known_type (vi_type ix))); [destruct (vg_type_checked g0); exact I|].
  destruct (lo_needs_record ix); [|apply sd_reads_outcome].
  apply sd_reads_bind; [apply sd_reads_value|]. intros b. apply sd_reads_outcome.
Qed.
Lemma sd_reads_lo_dbkv g0 : sd_elem_reads (lo_ce_dbkv g0).
Proof. apply sd_reads_pair; apply sd_reads_lo_dbvalue. Qed.

Lemma sd_reads_cm_from_storage K V (EK : cv_elem K) (EV : cv_elem V) i : sd_reads (cm_from_storage K V EK EV i).
Proof.
  unfold cm_from_storage. apply sd_reads_bind; [apply sd_reads_value|]. intros b. destruct (lenN b <? 32); [exact I|].
  apply sd_reads_bind; [apply sd_reads_from_storage|]. intros s.
  apply sd_reads_bind; [apply sd_reads_from_storage|]. intros k.
  apply sd_reads_bind; [apply sd_reads_from_storage|]. intros v. exact I.
Qed.
Lemma sd_reads_lo_map_read K V (EK : cv_elem K) (EV : cv_elem V) d :
  sd_elem_reads EK -> sd_elem_reads EV -> sd_reads (lo_map_read K V EK EV d).
Proof.
  intros HK HV. unfold lo_map_read. apply sd_reads_bind; [apply sd_reads_values, sd_reads_state|]. intros ss.
  apply sd_reads_bind; [apply sd_reads_values, HK|]. intros ks.
  apply sd_reads_bind; [apply sd_reads_values, HV|]. intros vs. exact I.
Qed.

Lemma sd_reads_lo_open_root g0 r : sd_reads (lo_open_root g0 r).
Proof.
  unfold lo_open_root. apply sd_reads_bind.
  { unfold cg_from_storage. apply sd_reads_bind; [apply sd_reads_value|]. intros b.
    do 4 (apply sd_reads_bind; [apply sd_reads_de64|]; intros ?).
    do 4 (apply sd_reads_bind; [apply sd_reads_from_storage|]; intros ?). exact I. }
  intros gd. apply sd_reads_bind; [apply sd_reads_cm_from_storage|]. intros a1.
  apply sd_reads_bind; [apply sd_reads_cm_from_storage|]. intros a2.
  apply sd_reads_bind.
  { unfold lo_indexes_open. apply sd_reads_bind; [apply sd_reads_vec_load, sd_reads_raw|]. intros es.
    induction es as [|e t IH]; cbn [lo_index_list_open]; [exact I|].
    apply sd_reads_bind.
    { unfold lo_index_open. apply sd_reads_bind; [apply sd_reads_lo_dbvalue|]. intros key.
      apply sd_reads_bind; [apply sd_reads_de64|]. intros mi.
      apply sd_reads_bind; [apply sd_reads_cm_from_storage|]. intros d. exact I. }
    intros x. apply sd_reads_bind; [exact IH|]. intros t'. exact I. }
  intros ix. apply sd_reads_bind; [apply sd_reads_from_storage|]. intros vs. exact I.
Qed.

Lemma sd_reads_lo_read g0 h : sd_reads (lo_read g0 h).
Proof.
  unfold lo_read. apply sd_reads_bind.
  { unfold lo_graph_read. do 4 (apply sd_reads_bind; [apply sd_reads_values, sd_reads_i64|]; intros ?). exact I. }
  intros gr0. apply sd_reads_bind; [apply sd_reads_lo_map_read; [apply sd_reads_string|apply sd_reads_i64]|]. intros a1.
  apply sd_reads_bind; [apply sd_reads_lo_map_read; [apply sd_reads_i64|apply sd_reads_string]|]. intros a2.
  apply sd_reads_bind.
  { induction (lh_indexes h) as [|x t IH]; cbn [lo_index_list_read]; [exact I|].
    apply sd_reads_bind; [apply sd_reads_lo_map_read; [apply sd_reads_lo_dbvalue|apply sd_reads_i64]|]. intros ids.
    apply sd_reads_bind; [exact IH|]. intros t'. exact I. }
  intros ix. apply sd_reads_bind; [apply sd_reads_values, sd_reads_u64|]. intros idxs.
  apply sd_reads_bind.
  { induction idxs as [|i t IH]; cbn [lo_kvs_read]; [exact I|].
    apply sd_reads_bind; [destruct (i =? 0); [exact I|apply sd_reads_vec_load, sd_reads_lo_dbkv]|]. intros l.
    apply sd_reads_bind; [exact IH|]. intros t'. exact I. }
  intros vs. exact I.
Qed.

Definition lo_prog (g0 : vguards) (b : bytes) : cprog db :=
  h <~ (r <~ cr_de b ;; lo_open_root g0 r) ;; lo_read g0 h.

Lemma sd_reads_lo_prog g0 b : sd_reads (lo_prog g0 b).
Proof.
  unfold lo_prog. apply sd_reads_bind.
  - apply sd_reads_bind.
    + unfold cr_de. do 6 (apply sd_reads_bind; [apply sd_reads_de64|]; intros ?). exact I.
    + intros r. apply sd_reads_lo_open_root.
  - intros h. apply sd_reads_lo_read.
Qed.

(* ---- the programs of LoadOutcome.v on a stored database ---- *)
Section NewSpecs.
  Variable fl : bool.
  Variable g0 : vguards.

  Fixpoint lo_ih_rep (gh : heap) (hs : list lo_index_h) (ws : list (sd_mapw dbvalue Z)) (ixs : list index) : Prop :=
    match hs, ws, ixs with
    | [], [], [] => True
    | h :: hs', w :: ws', ix :: ixs' =>
      (lih_key h = fst ix /\
       msep dbvalue Z (lo_ce_dbvalue g0) ce_i64 (law_lo_dbvalue g0) law_i64 gh (lih_ids h) (mw_ss w) (mw_ks w) (mw_vs w)
            (ct_states (mw_t w)) (ct_keys (mw_t w)) (ct_values (mw_t w))) /\
      lo_ih_rep gh hs' ws' ixs'
    | _, _, _ => False
    end.

  Lemma lo_index_list_open_spec : forall es ws ixs sp (Q : cres (list lo_index_h) -> spec -> Prop),
    sd_ix_rep (hp sp) es ws ixs ->
    (forall hs, lo_ih_rep (hp sp) hs ws ixs -> Q (CrOk hs) sp) ->
    cwp fl (lo_index_list_open g0 es) sp Q.
  Proof.
    induction es as [|e r IH]; intros [|w ws] [|ix ixs] sp Q H HQ; cbn [sd_ix_rep] in H; try contradiction;
      cbn [lo_index_list_open]; [apply (HQ []); exact I|].
    destruct H as [(ixb & mi & -> & Hmi & Hk & Hm) Hr].
    assert (L16 : length ixb = 16%nat).
    { pose proof (el_len ce_dbvalue law_dbvalue _ _ _ Hk) as HL. cbn [ce_size ce_dbvalue] in HL. unfold lenN in HL. lia. }
    apply cwp_bind. unfold lo_index_open.
    apply cwp_bind. rewrite firstn_app_l by (symmetry; exact L16).
    eapply (el_load (lo_ce_dbvalue g0) (law_lo_dbvalue g0)); [exact Hk|]. cbn [kont].
    apply cwp_bind. rewrite skipn_app_l by (symmetry; exact L16). rewrite cp_de64_le64 by exact Hmi. cbn [cwp kont].
    destruct Hm as (HM & Ei & HP). destruct HM as [HS _ _]. rewrite <- Ei.
    apply cwp_bind. eapply cm_from_storage_spec; [apply msep_ids_conv; exact HS|]. intros d' HS' _ _ _ _. cbn [kont cwp].
    apply cwp_bind. eapply IH; [exact Hr|]. intros hs Hhs. cbn [kont cwp].
    apply HQ. cbn [lo_ih_rep lih_key lih_ids]. split; [split; [reflexivity|exact HS']|exact Hhs].
  Qed.

  Lemma lo_map_read_spec K V (EK : cv_elem K) (EV : cv_elem V) (LK : elem_law EK) (LV : elem_law EV)
        d ss ks vs t sp (Q : cres (list (K * V)) -> spec -> Prop) :
    msep K V EK EV LK LV (hp sp) d ss ks vs (ct_states t) (ct_keys t) (ct_values t) ->
    Q (CrOk (sd_table_entries t)) sp -> cwp fl (lo_map_read K V EK EV d) sp Q.
  Proof.
    intros [_ Rs Rk Rv _ _] HQ. unfold lo_map_read.
    apply cwp_bind. eapply cv_values_spec; [exact Rs|]. cbn [kont].
    apply cwp_bind. eapply cv_values_spec; [exact Rk|]. cbn [kont].
    apply cwp_bind. eapply cv_values_spec; [exact Rv|]. cbn [kont cwp]. exact HQ.
  Qed.

  Lemma lo_index_list_read_spec : forall hs ws ixs sp (Q : cres (list index) -> spec -> Prop),
    lo_ih_rep (hp sp) hs ws ixs -> Q (CrOk (sd_ix_concrete ws ixs)) sp -> cwp fl (lo_index_list_read g0 hs) sp Q.
  Proof.
    induction hs as [|h r IH]; intros [|w ws] [|ix ixs] sp Q H HQ; cbn [lo_ih_rep] in H; try contradiction;
      cbn [lo_index_list_read sd_ix_concrete] in *; [exact HQ|].
    destruct H as [[Hk HS] Hr].
    apply cwp_bind. eapply lo_map_read_spec; [exact HS|]. cbn [kont].
    apply cwp_bind. eapply IH; [exact Hr|]. cbn [kont cwp]. rewrite Hk. exact HQ.
  Qed.

  Lemma lo_kvs_read_spec : forall idxs ws kvs sp (Q : cres (list (list kv)) -> spec -> Prop),
    sd_kv_rep (hp sp) idxs ws kvs -> Q (CrOk kvs) sp -> cwp fl (lo_kvs_read g0 idxs) sp Q.
  Proof.
    induction idxs as [|i r IH]; intros [|w ws] [|l kvs] sp Q H HQ; cbn [sd_kv_rep] in H; try contradiction;
      cbn [lo_kvs_read]; [exact HQ|].
    destruct H as [Hs Hr]. apply cwp_bind.
    destruct w as [[h bss]|]; cbn [sd_kv_slot_rep] in Hs.
    - destruct Hs as (Hi & <- & HR). destruct (N.eqb_spec (cv_index h) 0) as [E|_]; [contradiction|].
      eapply sd_vec_load_spec; [apply (vrep_kv_conv g0); exact HR|]. cbn [kont].
      apply cwp_bind. eapply IH; [exact Hr|]. cbn [kont cwp]. exact HQ.
    - destruct Hs as [-> ->]. rewrite N.eqb_refl. cbn [cwp kont].
      apply cwp_bind. eapply IH; [exact Hr|]. cbn [kont cwp]. exact HQ.
  Qed.

  Theorem lo_prog_spec root d w sp :
    stored_db_w (hp sp) root d w ->
    cwp fl (lo_prog g0 (cr_ser (sw_root w))) sp (fun r sp' => sp' = sp /\ r = CrOk (sd_concrete w d)).
  Proof.
    intros [Hroot Hu64 _ Hg Hgi Ha1 Hk1 Ha2 Hk2 Hiv Hii Hix Hvv Hvi Hv _].
    unfold lo_prog. apply cwp_bind. apply cwp_bind. apply cr_de_ser; [exact Hu64|]. cbn [kont].
    unfold lo_open_root.
    apply cwp_bind. rewrite <- Hgi. eapply cg_from_storage_spec; [exact Hg|]. intros gd Hgd _. cbn [kont].
    destruct Ha1 as (HM1 & E1 & P1). destruct HM1 as [HS1 _ _].
    apply cwp_bind. rewrite <- E1. eapply cm_from_storage_spec; [exact HS1|]. intros d1 HS1' _ _ _ _. cbn [kont].
    destruct Ha2 as (HM2 & E2 & P2). destruct HM2 as [HS2 _ _].
    apply cwp_bind. rewrite <- E2. eapply cm_from_storage_spec; [exact HS2|]. intros d2 HS2' _ _ _ _. cbn [kont].
    apply cwp_bind. unfold lo_indexes_open. apply cwp_bind. rewrite <- Hii.
    eapply sd_vec_load_spec; [exact Hiv|]. cbn [kont].
    eapply lo_index_list_open_spec; [exact Hix|]. intros hs Hhs. cbn [kont].
    apply cwp_bind. rewrite <- Hvi. eapply cv_from_storage_spec; [exact Hvv|]. intros vh Hvh _ _. cbn [kont cwp].
    (* the complete read *)
    unfold lo_read. cbn [lh_graph lh_aliases1 lh_aliases2 lh_indexes lh_values].
    apply cwp_bind. unfold lo_graph_read.
    pose proof (gr_vec _ _ _ _ Hgd GfFrom) as R1. pose proof (gr_vec _ _ _ _ Hgd GfTo) as R2.
    pose proof (gr_vec _ _ _ _ Hgd GfFromMeta) as R3. pose proof (gr_vec _ _ _ _ Hgd GfToMeta) as R4.
    cbn [cg_vec ga_get sd_arrays ga_from ga_to ga_from_meta ga_to_meta] in R1, R2, R3, R4.
    apply cwp_bind. eapply cv_values_spec; [exact R1|]. cbn [kont].
    apply cwp_bind. eapply cv_values_spec; [exact R2|]. cbn [kont].
    apply cwp_bind. eapply cv_values_spec; [exact R3|]. cbn [kont].
    apply cwp_bind. eapply cv_values_spec; [exact R4|]. cbn [kont cwp].
    apply cwp_bind. eapply lo_map_read_spec; [exact HS1'|]. cbn [kont].
    apply cwp_bind. eapply lo_map_read_spec; [exact HS2'|]. cbn [kont].
    apply cwp_bind. eapply lo_index_list_read_spec; [exact Hhs|]. cbn [kont].
    apply cwp_bind. eapply cv_values_spec; [exact Hvh|]. cbn [kont].
    apply cwp_bind. eapply lo_kvs_read_spec; [exact Hv|]. cbn [kont cwp].
    split; [reflexivity|]. unfold sd_concrete. destruct (gr d). reflexivity.
  Qed.
End NewSpecs.

(* ---- the two loaders agree on every stored database ---- *)
Lemma lenN_cr_ser r : lenN (cr_ser r) = 48.
Proof. unfold cr_ser. rewrite !lenN_app, !lenN_le64. reflexivity. Qed.

Theorem load_outcome_of_stored g0 m root d :
  stored_db (m_get m) root d ->
  exists d', load_outcome_g g0 (lo_limit m) m root = Loaded d' /\ load_db m root = Some d' /\ sd_eqv d d' /\ undo d' = [].
Proof.
  intros H. destruct (load_db_of_stored m root d H) as (d1 & E1 & He & Hu). destruct H as [w Hw].
  destruct (sd_run_sound true (sd_load root) (sd_spec_of m) _ (sd_reads_load root) (sd_load_concrete true root d w (sd_spec_of m) Hw))
    as (_ & _ & Eold).
  cbn [sd_spec_of sm] in Eold.
  assert (Ed : d1 = sd_concrete w d).
  { unfold load_db in E1. rewrite Eold in E1. cbn [sd_result] in E1. congruence. }
  subst d1. exists (sd_concrete w d). split; [|auto].
  destruct (sd_run_sound true (lo_prog g0 (cr_ser (sw_root w))) (sd_spec_of m) _ (sd_reads_lo_prog g0 _)
              (lo_prog_spec true g0 root d w (sd_spec_of m) Hw)) as (_ & _ & Enew).
  cbn [sd_spec_of sm] in Enew.
  pose proof (lo_run_cp_run (lo_limit m) m (lo_prog g0 (cr_ser (sw_root w))) (big_limit m)) as Erun.
  rewrite Enew in Erun. cbn [lo_of_cres] in Erun.
  unfold lo_prog in Erun. rewrite lo_run_bind in Erun.
  unfold load_outcome_g, lo_open.
  pose proof (sr_root _ _ _ _ Hw) as Hroot. cbn [sd_spec_of hp] in Hroot.
  change (m_get m root = Some (cr_ser (sw_root w))) in Hroot. rewrite Hroot, lenN_cr_ser.
  assert (Hl : (lo_limit m <? 48) = false) by (unfold lo_limit; lia). rewrite Hl.
  replace (48 <? 40) with false by reflexivity. replace (48 <? 48) with false by reflexivity.
  destruct (lo_run (lo_limit m) (r <~ cr_de (cr_ser (sw_root w)) ;; lo_open_root g0 r) m) as [h| | |n];
    cbn [lo_bind] in Erun; try discriminate Erun.
  cbn [lo_of_res]. rewrite Erun. reflexivity.
Qed.
