(* LoadOutcomeAgree.v — C07 / C05: on a record store that HOLDS a database (`stored_db`, StoredDbRep.v) the outcome
   model of LoadOutcome.v loads it, and returns the very database the loader `load_db` of StoredDb.v returns
   (C05_db_reload).  Route: the value element class of LoadOutcome.v is lawful for the same representation as
   CollValues.ce_dbvalue (only `load` differs, and on the indexes `store` produces the two coincide), so the L2 reload
   lemmas apply to the programs of LoadOutcome.v; both loaders are shown to return one concrete database built from
   the representation witness. *)
From Coq Require Import Permutation.
From Agdb Require Import Bytes BytesProofs Utf8 Codec DbValue ValueIndex ValueIndexProofs ValueLoadProofs Graph DbModel Records RecordsProofs
  Storage StorageSpec StorageLayout Collections CollValues CollWp CollBytes CollVecBase CollVecOps CollVec CollVec2 CollElems CollSep
  CollMap CollGraph CollValuesProofs StoredDb StoredDbRep StoredDbRun StoredDbLoad StoredDbProofs LoadOutcome LoadOutcomeProofs.
From Coq Require Import ZifyBool ZifyNat ZifyN.
Ltac Zify.zify_post_hook ::= Z.div_mod_to_equations.
Open Scope N_scope.
Arguments N.add : simpl never.
Arguments N.mul : simpl never.
Arguments N.sub : simpl never.
Arguments N.of_nat : simpl never.
Arguments N.to_nat : simpl never.
Arguments N.eqb : simpl never.
Arguments N.ltb : simpl never.
Arguments N.leb : simpl never.
Arguments N.div : simpl never.

(* ---- lo_run is cp_run on the read-only record map, once the limit admits the records ---- *)
Definition lo_of_cres {A} (r : cres A) : lo_res A :=
  match r with CrOk a => LoOk a | CrErr _ => LoErr | CrDead => LoPanic end.

Lemma sd_step_fst m o : fst (sd_step m o) = m.
Proof. destruct o; reflexivity. Qed.

Lemma lo_run_cp_run {A} L m (p : cprog A) : big L m -> lo_run L p m = lo_of_cres (snd (cp_run sd_step p m)).
Proof.
  intros Hb. induction p as [a|e| |o k IH]; cbn [lo_run cp_run snd lo_of_cres]; try reflexivity.
  pose proof (sd_step_fst m o) as Ef. destruct (sd_step m o) as [m' v] eqn:Es. cbn [fst snd] in *. subst m'.
  assert (Hreq : match lo_request m o with Some n => (L <? n) = false | None => True end).
  { destruct o; cbn [lo_request]; try exact I.
    - match goal with |- context [m_get m ?j] => destruct (m_get m j) as [x|] eqn:E; [|exact I]; pose proof (Hb j x E) end. lia.
    - match goal with |- context [m_get m ?j] => destruct (m_get m j) as [x|] eqn:E; [|exact I]; pose proof (Hb j x E) end.
      match goal with |- context [(?c1 || ?c2)%bool] => destruct (c1 || c2)%bool eqn:E1; [exact I|] end. lia. }
  destruct (lo_request m o) as [n|]; [rewrite Hreq|]; destruct v; cbn [snd lo_of_cres]; try reflexivity; apply IH.
Qed.

(* ---- the value element class of LoadOutcome.v is lawful for the representation of C12 ---- *)
Lemma load_g_ok_inv ix st v :
  load_db_value_g vg_current ix st = Ok v ->
  (is_numeric_type (vi_type ix) && negb (vi_size ix =? 8)) = false /\ is_known_type (vi_type ix) = true /\
  load_db_value ix st = Ok v.
Proof.
  unfold load_db_value_g. cbn [vg_num_checked vg_type_checked vg_current].
  destruct (is_numeric_type (vi_type ix) && negb (vi_size ix =? 8)); [discriminate|].
  destruct (is_known_type (vi_type ix)); cbn [negb]; [auto|discriminate].
Qed.

Lemma known_cases t : is_known_type t = true -> t = 1 \/ t = 2 \/ t = 3 \/ t = 4 \/ t = 5 \/ t = 6 \/ t = 7 \/ t = 8 \/ t = 9.
Proof. unfold is_known_type. lia. Qed.

Lemma lo_value_load_inline g ix v :
  load_db_value_g vg_current ix [] = Ok v -> is_value ix = true -> lo_value_load g ix = CRet v.
Proof.
  intros R Hv. destruct (load_g_ok_inv _ _ _ R) as (E1 & E2 & R'). unfold lo_value_load. rewrite E1, E2. cbn [negb].
  unfold lo_needs_record. rewrite Hv. cbn [negb].
  destruct (known_cases _ E2) as [E|[E|[E|[E|[E|[E|[E|[E|E]]]]]]]]; rewrite E; cbv iota;
    try (rewrite R'; reflexivity);
    exfalso; unfold load_db_value in R'; rewrite E in R'; cbv iota in R';
    unfold value_as, rec_get in R'; cbn in R'; discriminate R'.
Qed.

Lemma lo_value_load_record g ix b v :
  load_db_value_g vg_current ix [(vi_index ix, b)] = Ok v -> is_value ix = false ->
  lo_value_load g ix = (b0 <~ cp_value (vi_index ix) ;; cp_of_outcome (load_db_value ix [(vi_index ix, b0)])) \/
  lo_value_load g ix = CRet v.
Proof.
  intros R Hv. destruct (load_g_ok_inv _ _ _ R) as (E1 & E2 & R'). unfold lo_value_load. rewrite E1, E2. cbn [negb].
  unfold lo_needs_record. rewrite Hv. cbn [negb].
  destruct (known_cases _ E2) as [E|[E|[E|[E|[E|[E|[E|[E|E]]]]]]]]; rewrite E; cbv iota; try (left; reflexivity);
    right; unfold load_db_value in *; rewrite E in *; cbv iota in *; rewrite R'; reflexivity.
Qed.

Definition law_lo_dbvalue (g : vguards) : elem_law (lo_ce_dbvalue g).
Proof.
  refine {| el_valid := el_valid law_dbvalue; el_rep := el_rep law_dbvalue; el_own := el_own law_dbvalue |}.
  - exact (el_size_pos ce_dbvalue law_dbvalue).
  - exact (el_len ce_dbvalue law_dbvalue).
  - exact (el_live ce_dbvalue law_dbvalue).
  - exact (el_nodup ce_dbvalue law_dbvalue).
  - exact (el_local ce_dbvalue law_dbvalue).
  - exact (el_store ce_dbvalue law_dbvalue).
  - (* load *)
    intros fl bs v sp Q (Hwf & i & H1 & H2 & -> & Hg) HQ. cbn [ce_load lo_ce_dbvalue].
    pose proof (load_g_roundtrip vg_current (fun _ => i) v [] Hwf (alloc_const_ok i H1 H2)) as R.
    destruct (dbv_store_shape v i) as [Es _]. rewrite Es in R.
    destruct (dbv_index_facts v i H1 H2) as [Hw Hc]. remember (fst (store_db_value (fun _ => i) v [])) as ix eqn:Eix.
    rewrite (vi_deserialize_wf ix Hw). cbn [cp_of_outcome cbind].
    destruct Hc as [[Hv Hn]|(Hv & Hi & b & Hb)].
    + rewrite Hn in R. rewrite (lo_value_load_inline g ix v R Hv). exact HQ.
    + rewrite Hb in R. rewrite <- Hi in R.
      destruct (lo_value_load_record g ix b v R Hv) as [E|E]; rewrite E; [|exact HQ].
      apply cwp_bind. eapply cwp_value; [rewrite Hi; exact (Hg b Hb)|]. cbn [kont].
      destruct (load_g_ok_inv _ _ _ R) as (_ & _ & R'). rewrite R'. exact HQ.
  - exact (el_remove ce_dbvalue law_dbvalue).
Defined.

Definition law_lo_dbkv (g : vguards) : elem_law (lo_ce_dbkv g) :=
  law_pair dbvalue dbvalue (lo_ce_dbvalue g) (lo_ce_dbvalue g) (law_lo_dbvalue g) (law_lo_dbvalue g).
