(* UndoGraphEdge.v — C13: linking / unlinking an edge slot into / out of its source's
   out-list (update_from_edge, remove_from_edge) and its target's in-list (update_to_edge,
   remove_to_edge), and turning an isolated node slot into a detached edge slot. *)
From Agdb Require Import Bytes BytesProofs DbValue Graph DbModel UndoBase UndoObs UndoKv UndoGraphBase UndoGraph UndoGraphAlloc.
From Coq Require Import Permutation ZifyBool ZifyNat ZifyN.
Ltac Zify.zify_post_hook ::= Z.div_mod_to_equations.
Open Scope Z_scope.

(* removing a slot from a list *)
Definition lrem (e : Z) (l : list Z) : list Z := filter (fun x => negb (x =? e)) l.

Lemma lrem_in e l x : In x (lrem e l) <-> In x l /\ x <> e.
Proof. unfold lrem. rewrite filter_In. destruct (Z.eqb_spec x e); cbn [negb]; intuition congruence. Qed.

Lemma lrem_absent e l : ~ In e l -> lrem e l = l.
Proof.
  unfold lrem. induction l as [|x r IH]; cbn [filter In]; [reflexivity|]. intros H.
  destruct (Z.eqb_spec x e); [tauto|]. cbn [negb]. rewrite IH; tauto.
Qed.

Lemma lrem_split e l1 l2 : NoDup (l1 ++ e :: l2) -> lrem e (l1 ++ e :: l2) = l1 ++ l2.
Proof.
  intros Hnd. apply NoDup_remove_2 in Hnd. unfold lrem. rewrite filter_app. cbn [filter].
  rewrite Z.eqb_refl. cbn [negb]. fold (lrem e l1). fold (lrem e l2).
  rewrite !lrem_absent; [reflexivity | |]; intros H; apply Hnd, in_or_app; tauto.
Qed.

Lemma lrem_nodup e l : NoDup l -> NoDup (lrem e l).
Proof. apply NoDup_filter. Qed.

Lemma lrem_length e l : NoDup l -> In e l -> Z.of_nat (length (lrem e l)) = Z.of_nat (length l) - 1.
Proof.
  intros Hnd Hin. apply in_split in Hin. destruct Hin as (l1 & l2 & ->).
  rewrite lrem_split by assumption. rewrite !app_length. cbn [length]. lia.
Qed.

Lemma lrem_cons_same e l : ~ In e l -> lrem e (e :: l) = l.
Proof. intros H. unfold lrem. cbn [filter]. rewrite Z.eqb_refl. cbn [negb]. apply lrem_absent, H. Qed.

Lemma lrem_perm e l l' : Permutation l l' -> Permutation (lrem e l) (lrem e l').
Proof. apply Permutation_filter'. Qed.

(* ------------------------------------------------------------------ *)
(* isolated node slot -> detached edge slot                             *)

Definition a_make_edge (a : ag) (e f t : Z) : ag :=
  {| ak := upd (ak a) e (KEdge f t); aout := aout a; ain := ain a; acount := acount a;
     afree := afree a; acap := acap a |}.

Lemma rep_make_edge g a e f t :
  rep g a -> 0 < e -> ak a e = KNode -> aout a e = [] -> ain a e = [] ->
  0 < f -> 0 < t -> f <> e -> t <> e -> ak a f = KNode -> ak a t = KNode ->
  rep_x (set_to (set_from g e (- f)) e (- t)) (a_make_edge a e f t) (eq e) (eq e).
Proof.
  unfold rep. intros R He Hk Ho Hi Hf Ht Hfe Hte Kf Kt.
  pose proof (r_lens _ _ _ _ R) as Hl. pose proof (r_cap _ _ _ _ R) as Hcap.
  destruct (rep_node_range _ _ _ _ R e He Hk) as (Her & Hefm & Hefr).
  set (g' := set_to (set_from g e (- f)) e (- t)).
  assert (Hfr : forall j, 0 <= j -> from g' j = if e =? j then - f else from g j).
  { intros j Hj. unfold g'. rewrite from_set_to. apply from_set_from; auto; lia. }
  assert (Hto : forall j, 0 <= j -> to g' j = if e =? j then - t else to g j).
  { intros j Hj. unfold g'. rewrite to_set_to by (auto using lens_set_from; rewrite ?cap_set_from; lia).
    rewrite to_set_from. reflexivity. }
  assert (Hfm : forall j, fmeta g' j = fmeta g j) by reflexivity.
  assert (Htm : forall j, tmeta g' j = tmeta g j) by reflexivity.
  assert (Hcp : capacity g' = capacity g) by (unfold g'; rewrite cap_set_to, cap_set_from; reflexivity).
  constructor; cbn [a_make_edge ak aout ain acount afree acap].
  - unfold g'. auto using lens_set_from, lens_set_to.
  - rewrite Hcp. assumption.
  - rewrite Hcp. apply (r_acap _ _ _ _ R).
  - apply (r_count _ _ _ _ R).
  - apply (r_free _ _ _ _ R).
  - apply (r_free_nd _ _ _ _ R).
  - intros x Hx. rewrite Hcp. destruct (r_free_in _ _ _ _ R x Hx) as (Hr & Hneg & H1 & H2 & H3).
    assert (x <> e) by (intros ->; lia).
    rewrite Hfr, Hto by lia. destruct (Z.eqb_spec e x); [congruence|]. auto.
  - intros i Hi'. destruct (Z.eq_dec i e) as [->|Hne].
    + rewrite upd_same. symmetry. apply slot_kind_edge; [assumption|].
      rewrite Hcp, Hfm, Hfr, Hto by lia. rewrite Z.eqb_refl. lia.
    + rewrite upd_other by assumption. rewrite (r_kind _ _ _ _ R) by assumption. symmetry.
      apply slot_kind_ext; auto.
      * rewrite Hcp. reflexivity.
      * rewrite Hfr by lia. destruct (Z.eqb_spec e i); [congruence | reflexivity].
      * rewrite Hto by lia. destruct (Z.eqb_spec e i); [congruence | reflexivity].
  - intros n Hn Hkn. destruct (Z.eq_dec n e) as [->|Hne]; [rewrite upd_same in Hkn; discriminate|].
    rewrite upd_other in Hkn by assumption. rewrite Hfr by lia. destruct (Z.eqb_spec e n); [congruence|].
    apply (r_out _ _ _ _ R); assumption.
  - intros n Hn Hkn. destruct (Z.eq_dec n e) as [->|Hne]; [rewrite upd_same in Hkn; discriminate|].
    rewrite upd_other in Hkn by assumption. rewrite Hto by lia. destruct (Z.eqb_spec e n); [congruence|].
    apply (r_in _ _ _ _ R); assumption.
  - intros n x Hn Hkn. destruct (Z.eq_dec n e) as [->|Hne]; [rewrite upd_same in Hkn; discriminate|].
    rewrite upd_other in Hkn by assumption. rewrite (r_out_mem _ _ _ _ R) by assumption.
    destruct (Z.eq_dec x e) as [->|Hxe].
    + rewrite upd_same. rewrite Hk. split; [intros (_ & (t' & Ht') & _); discriminate | intros (_ & _ & Hc); congruence].
    + rewrite upd_other by assumption. unfold xnone. intuition congruence.
  - intros n x Hn Hkn. destruct (Z.eq_dec n e) as [->|Hne]; [rewrite upd_same in Hkn; discriminate|].
    rewrite upd_other in Hkn by assumption. rewrite (r_in_mem _ _ _ _ R) by assumption.
    destruct (Z.eq_dec x e) as [->|Hxe].
    + rewrite upd_same. rewrite Hk. split; [intros (_ & (t' & Ht') & _); discriminate | intros (_ & _ & Hc); congruence].
    + rewrite upd_other by assumption. unfold xnone. intuition congruence.
  - intros x f' t' Hx Hkx. destruct (Z.eq_dec x e) as [->|Hxe].
    + rewrite upd_same in Hkx. injection Hkx as <- <-. rewrite !upd_other by assumption. auto.
    + rewrite upd_other in Hkx by assumption.
      destruct (r_edge _ _ _ _ R x f' t' Hx Hkx) as (Hf' & Ht' & Kf' & Kt').
      destruct (rep_edge_in_out g a x f' t' R Hx Hkx) as (H1 & H2).
      assert (f' <> e) by (intros ->; rewrite Ho in H1; contradiction).
      assert (t' <> e) by (intros ->; rewrite Hi in H2; contradiction).
      rewrite !upd_other by assumption. auto.
Qed.

(* ------------------------------------------------------------------ *)
(* linking a detached edge at the head of its source's out-list         *)

Definition a_set_out (a : ag) (n : Z) (l : list Z) : ag :=
  {| ak := ak a; aout := upd (aout a) n l; ain := ain a; acount := acount a; afree := afree a; acap := acap a |}.
Definition a_set_in (a : ag) (n : Z) (l : list Z) : ag :=
  {| ak := ak a; aout := aout a; ain := upd (ain a) n l; acount := acount a; afree := afree a; acap := acap a |}.

Lemma rep_link_out g a Xo Xi e f t :
  rep_x g a Xo Xi -> 0 < e -> ak a e = KEdge f t -> Xo e ->
  rep_x (update_from_edge g f (- e)) (a_set_out a f (e :: aout a f)) (fun x => Xo x /\ x <> e) Xi.
Proof.
  intros R He Hk Hx.
  pose proof (r_lens _ _ _ _ R) as Hl. pose proof (r_cap _ _ _ _ R) as Hcap.
  destruct (rep_edge_arrays _ _ _ _ R e f t He Hk) as (Her & Hefm & Hefr & Heto & Hf & Ht).
  destruct (r_edge _ _ _ _ R e f t He Hk) as (_ & _ & Kf & Kt).
  destruct (rep_node_range _ _ _ _ R f Hf Kf) as (Hfr' & Hffm & Hffr).
  assert (Hfe : f <> e) by (intros ->; congruence).
  set (g' := update_from_edge g f (- e)).
  assert (Hl' : lens_ok g').
  { unfold g', update_from_edge. auto using lens_set_fmeta, lens_set_from. }
  assert (Hcp : capacity g' = capacity g).
  { unfold g', update_from_edge. rewrite cap_set_fmeta, cap_set_from, cap_set_fmeta. reflexivity. }
  assert (Hfr : forall j, 0 <= j -> from g' j = if f =? j then e else from g j).
  { intros j Hj. unfold g', update_from_edge. rewrite from_set_fmeta, set_fmeta_opp, Z.opp_involutive.
    rewrite from_set_from by (auto using lens_set_fmeta; rewrite ?cap_set_fmeta; lia). rewrite from_set_fmeta. reflexivity. }
  assert (Hfm : forall j, 0 <= j -> fmeta g' j = if f =? j then fmeta g f + 1 else if e =? j then from g f else fmeta g j).
  { intros j Hj. unfold g', update_from_edge. rewrite set_fmeta_opp, Z.opp_involutive.
    rewrite fmeta_set_fmeta by (auto using lens_set_fmeta, lens_set_from; rewrite ?cap_set_from, ?cap_set_fmeta; lia).
    rewrite !fmeta_set_from. rewrite !fmeta_set_fmeta by (auto; lia).
    destruct (Z.eqb_spec e f); [congruence|]. reflexivity. }
  assert (Hto : forall j, to g' j = to g j) by reflexivity.
  assert (Htm : forall j, tmeta g' j = tmeta g j) by reflexivity.
  (* the detached edge is in no out-list *)
  assert (Hnot : forall n, 0 < n -> ak a n = KNode -> ~ In e (aout a n)).
  { intros n Hn Hkn Hin. apply (r_out_mem _ _ _ _ R) in Hin; tauto. }
  (* members of out-lists are edges: neither f nor e *)
  assert (Hmem : forall n x, 0 < n -> ak a n = KNode -> In x (aout a n) -> 0 < x /\ x <> f /\ x <> e).
  { intros n x Hn Hkn Hin. pose proof (rep_out_range _ _ _ _ R n x Hn Hkn Hin).
    destruct (rep_out_edge _ _ _ _ R n x Hn Hkn Hin) as (t' & Ht').
    repeat split; [lia | intros ->; congruence | intros ->; exact (Hnot n Hn Hkn Hin)]. }
  constructor; cbn [a_set_out ak aout ain acount afree acap].
  - assumption.
  - rewrite Hcp. assumption.
  - rewrite Hcp. apply (r_acap _ _ _ _ R).
  - apply (r_count _ _ _ _ R).
  - rewrite Hfm by lia. destruct (Z.eqb_spec f 0); [lia|]. destruct (Z.eqb_spec e 0); [lia|].
    eapply fchain_ext; [apply (r_free _ _ _ _ R)|]. intros x Hxf.
    pose proof (rep_free_range _ _ _ _ R x Hxf). pose proof (rep_free_kind _ _ _ _ R x Hxf).
    rewrite Hfm by lia. destruct (Z.eqb_spec f x); [congruence|]. destruct (Z.eqb_spec e x); [congruence|]. reflexivity.
  - apply (r_free_nd _ _ _ _ R).
  - intros x Hxf. rewrite Hcp. destruct (r_free_in _ _ _ _ R x Hxf) as (Hr & Hneg & H1 & H2 & H3).
    pose proof (rep_free_kind _ _ _ _ R x Hxf).
    rewrite Hfm, Hfr, Hto, Htm by lia.
    destruct (Z.eqb_spec f x); [congruence|]. destruct (Z.eqb_spec e x); [congruence|]. auto.
  - intros i Hi. rewrite (r_kind _ _ _ _ R) by assumption. symmetry.
    destruct (Z.eq_dec i f) as [->|Hif].
    + (* f stays a node *)
      rewrite <- (r_kind _ _ _ _ R), Kf by assumption. apply slot_kind_node; [assumption|].
      rewrite Hcp, Hfm, Hfr by lia. rewrite Z.eqb_refl. lia.
    + destruct (Z.eq_dec i e) as [->|Hie].
      * rewrite <- (r_kind _ _ _ _ R), Hk by assumption. apply slot_kind_edge; [assumption|].
        rewrite Hcp, Hfm, Hfr, Hto by lia. destruct (Z.eqb_spec f e); [congruence|]. rewrite Z.eqb_refl. lia.
      * apply slot_kind_ext; auto.
        -- rewrite Hcp. reflexivity.
        -- rewrite Hfm by lia. destruct (Z.eqb_spec f i); [congruence|]. destruct (Z.eqb_spec e i); [congruence|]. reflexivity.
        -- rewrite Hfr by lia. destruct (Z.eqb_spec f i); [congruence|]. reflexivity.
  - intros n Hn Hkn. destruct (r_out _ _ _ _ R n Hn Hkn) as (Hc & Hnd & Hdeg).
    destruct (Z.eq_dec n f) as [->|Hnf].
    + rewrite upd_same. rewrite Hfr, Hfm by lia. rewrite Z.eqb_refl. repeat split.
      * constructor; [assumption|]. rewrite Hfm by lia. destruct (Z.eqb_spec f e); [congruence|]. rewrite Z.eqb_refl.
        eapply chain_ext; [exact Hc|]. intros x Hin. destruct (Hmem f x Hf Kf Hin) as (Hx0 & Hxf & Hxe).
        rewrite Hfm by lia. destruct (Z.eqb_spec f x); [congruence|]. destruct (Z.eqb_spec e x); [congruence|]. reflexivity.
      * constructor; [apply Hnot; assumption | assumption].
      * cbn [length]. lia.
    + rewrite upd_other by assumption. rewrite Hfr, Hfm by lia.
      destruct (Z.eqb_spec f n); [congruence|].
      assert (n <> e) by (intros ->; congruence). destruct (Z.eqb_spec e n); [congruence|].
      repeat split; try assumption.
      eapply chain_ext; [exact Hc|]. intros x Hin. destruct (Hmem n x Hn Hkn Hin) as (Hx0 & Hxf & Hxe).
      rewrite Hfm by lia. destruct (Z.eqb_spec f x); [congruence|]. destruct (Z.eqb_spec e x); [congruence|]. reflexivity.
  - intros n Hn Hkn. apply (r_in _ _ _ _ R); assumption.
  - intros n x Hn Hkn. destruct (Z.eq_dec n f) as [->|Hnf].
    + rewrite upd_same. cbn [In]. rewrite (r_out_mem _ _ _ _ R) by assumption. split.
      * intros [<-|(Hx0 & Hex & Hnx)].
        -- split; [assumption|]. split; [eauto|]. intros (_ & Hc). congruence.
        -- split; [assumption|]. split; [assumption|]. tauto.
      * intros (Hx0 & Hex & Hnx). destruct (Z.eq_dec x e) as [->|Hxe]; [left; reflexivity|].
        right. split; [assumption|]. split; [assumption|]. intros Hc. apply Hnx. tauto.
    + rewrite upd_other by assumption. rewrite (r_out_mem _ _ _ _ R) by assumption. split.
      * intros (Hx0 & Hex & Hnx). split; [assumption|]. split; [assumption|]. tauto.
      * intros (Hx0 & Hex & Hnx). split; [assumption|]. split; [assumption|].
        intros Hc. apply Hnx. split; [assumption|]. intros ->. destruct Hex as (t' & Ht'). congruence.
  - intros n x Hn Hkn. apply (r_in_mem _ _ _ _ R); assumption.
  - apply (r_edge _ _ _ _ R).
Qed.
